"""Per-property configuration of the orchestrator (bin/check)."""

TRUSTED_BASE = [
    "Coq 8.16.1 kernel; vm_compute (used for table facts and for evaluating the model on the sampled cases); no native_compute",
    "no axioms of this development; Print Assumptions is run under every theorem of props/<id>.v on every run and its output is in 'axioms_reported_by_print_assumptions'",
    "the table translator harness/cmd/extract (go/ast) that regenerates coq/gen/Tables.v from /repo on every run",
    "the Go correspondence harness harness/cmd/run (generators, canonicalisation of observables into S-expressions, direct oracles)",
    "Coq extraction with ExtrOcamlBasic only (bool, option, list, prod, unit, sumbool mapped to OCaml's; Z, N, positive, nat kept as extracted inductives; no Extract Constant) and the generic OCaml driver ocaml/driver.ml (S-expression parser, decimal <-> Z); a sample of the same cases is evaluated by vm_compute inside Coq without extraction",
    "modelled rather than verified: Go semantics of integers/slices/maps as written into the model (DESIGN.md section 3); strings are sequences of code points of valid UTF-8; amd64",
]

MODEL_COMMON = ["Sx.vo", "Base.vo", "gen/Tables.vo"]

PROPS = {
    "C11": {
        "run_module": "RunC11", "model": "model_C11",
        "model_targets": ["RunC11.vo"],
        "proof_files": ["ScannerProofs.v"],
        "kernel_cases": {"quick": 150, "thorough": 300},
        "exhaustive_in": {"thorough": True},
        "explanation": "theorems about the scanner model for all contents and all operation histories (induction over the history); the model is tied to io/StringScanner.go by running both on the same histories and comparing six observables after every operation",
        "assumptions": ["contents are valid UTF-8 (sequences of non-negative code points)"],
        "design_ref": "DESIGN.md 5.1",
        "level_text": "Theorems in Coq over all contents and all operation histories (induction over the history, no bound): line/column are a function of the cursor position (equal to a fresh forward scan), read/unread/unread-many/peek/reset are cursor operations, peeked coordinates are those after the next read. The scanner is a small pure state machine, so the whole of it is inside the model; the model is tied to io/StringScanner.go by running both on the same histories (six observables after every operation).",
        "level_note": "Trusted: Coq kernel + vm_compute; the hand-written model of StringScanner (Scanner.v) whose agreement with the Go code is checked on generated histories only (hundreds per quick run, exhaustive small scope + 20,000 random in the thorough run); extraction (ExtrOcamlBasic) and the OCaml driver; the Go harness. No axioms.",
    },
}
