"""Per-property configuration of the orchestrator (bin/check)."""

TRUSTED_BASE = [
    "Coq 8.16.1 kernel; vm_compute (used for table facts and for evaluating the model on the sampled cases); no native_compute",
    "no axioms of this development; Print Assumptions is run under every theorem of props/<id>.v on every run and its output is in 'axioms_reported_by_print_assumptions'",
    "the table translator harness/cmd/extract (go/ast) that regenerates coq/gen/Tables.v from /repo on every run",
    "the Go correspondence harness harness/cmd/run (generators, canonicalisation of observables into S-expressions, direct oracles)",
    "Coq extraction with ExtrOcamlBasic only (bool, option, list, prod, unit, sumbool mapped to OCaml's; Z, N, positive, nat kept as extracted inductives; no Extract Constant) and the generic OCaml driver ocaml/driver.ml (S-expression parser, decimal <-> Z); a sample of the same cases is evaluated by vm_compute inside Coq without extraction",
    "modelled rather than verified: Go semantics of integers/slices/maps as written into the model (DESIGN.md section 3); strings are sequences of code points of valid UTF-8; amd64",
]

MODEL_COMMON = ["Sx.vo", "Base.vo", "gen/Tables.vo"]

PROPS = {
    "C11": {
        "run_module": "RunC11", "model": "model_C11",
        "model_targets": ["RunC11.vo"],
        "proof_files": ["ScannerProofs.v"],
        "kernel_cases": {"quick": 150, "thorough": 300},
        "exhaustive_in": {"thorough": True},
        "explanation": "theorems about the scanner model for all contents and all operation histories (induction over the history); the model is tied to io/StringScanner.go by running both on the same histories and comparing six observables after every operation",
        "assumptions": ["contents are valid UTF-8 (sequences of non-negative code points)"],
        "design_ref": "DESIGN.md 5.1",
        "level_text": "Theorems in Coq over all contents and all operation histories (induction over the history, no bound): line/column are a function of the cursor position (equal to a fresh forward scan), read/unread/unread-many/peek/reset are cursor operations, peeked coordinates are those after the next read. The scanner is a small pure state machine, so the whole of it is inside the model; the model is tied to io/StringScanner.go by running both on the same histories (six observables after every operation).",
        "level_note": "Trusted: Coq kernel + vm_compute; the hand-written model of StringScanner (Scanner.v) whose agreement with the Go code is checked on generated histories only (hundreds per quick run, exhaustive small scope + 20,000 random in the thorough run); extraction (ExtrOcamlBasic) and the OCaml driver; the Go harness. No axioms.",
    },
    "C17": {
        "run_module": "RunC17", "model": "model_C17",
        "model_targets": ["RunC17.vo"],
        "proof_files": ["CharMapProofs.v"],
        "kernel_cases": {"quick": 200, "thorough": 400},
        "exhaustive_in": {"quick": True, "thorough": True},
        "explanation": "theorem charmap_from_empty: for every history of registrations and clears and every character, lookup = latest covering registration (induction over the history); the 256-entry table + interval list of CharReferenceMap.go is modelled completely and compared with the implementation on exhaustive short histories over the property's boundary set and random longer ones",
        "assumptions": ["references are compared by identity of four fixed values (nil, A, B, C)"],
        "design_ref": "DESIGN.md 5.3",
        "level_text": "Theorem in Coq for all histories (unbounded) of AddInterval/AddDefaultInterval/Clear and all characters: Lookup returns the reference of the latest covering registration since the last Clear, nothing outside [0,0xFFFE]; uniform across the 0x100 split. The map is a small pure data structure entirely inside the model; correspondence runs exhaustive histories of length <=2 (quick) / <=3 (thorough) over the boundary set plus random ones against CharReferenceMap.go.",
        "level_note": "Trusted: Coq kernel + vm_compute; hand-written model CharMap.v tied to the Go code by correspondence on generated histories only; extraction + OCaml driver; Go harness. No axioms. The dispatch consequence for tokenizers (GetCharacterState) is covered with the tokenizer properties C04/C13, which build their character tables through this model from the tables extracted from the source.",
    },
    "C16": {
        "run_module": "RunC16", "model": "model_C16",
        "model_targets": ["RunC16.vo"],
        "proof_files": ["TrieProofs.v", "TrieSpec.v", "TrieLongest.v"],
        "kernel_cases": {"quick": 40, "thorough": 80},
        "exhaustive_in": {"thorough": False},
        "explanation": "theorem symbol_longest: for every registration list and every input the symbol state returns the longest registered prefix (or the single next character) with the type of its last registration and consumes exactly its length; build_spec characterises the table denotationally for all registration lists. SymbolNode/SymbolRootNode are modelled completely (flat trie); the implementation is compared on one state per case with hundreds of inputs each",
        "assumptions": ["symbols are non-empty, contain no NUL and no character above U+FFFE (SymbolNode.Ancestry drops NUL; the children map rejects U+FFFF), token types other than Unknown"],
        "design_ref": "DESIGN.md 5.4",
        "level_text": "Theorem in Coq for all registration lists (any lengths, shared prefixes, orders, repeated registrations) and all inputs: longest registered prefix or single character, own type (last registration), exact consumption, no unregistered proper prefix. The trie is a small pure structure fully inside the model; correspondence drives one GenericSymbolState per case through hundreds of inputs, so instance-level cache effects (sibling aliasing) are observable.",
        "level_note": "Trusted: Coq kernel + vm_compute; hand-written flat-trie model (Trie.v) tied to SymbolNode.go/SymbolRootNode.go by correspondence on generated cases only; extraction + driver; Go harness. No axioms. Go slice aliasing is not in the model: it is visible only through the correspondence and the direct oracle.",
    },
    "C14": {
        "run_module": "RunC14", "model": "model_C14",
        "model_targets": ["RunC14.vo"],
        "proof_files": ["QuoteProofs.v"],
        "kernel_cases": {"quick": 300, "thorough": 600},
        "exhaustive_in": {"quick": True, "thorough": True},
        "explanation": "theorems decode_encode, decode_total, read_back for every string and quote character (induction on the string); the three quote states' EncodeString/DecodeString/NextToken are modelled completely, with the decode index as an explicit nth_error so that an out-of-range index is a Panic outcome",
        "assumptions": ["strings and quote characters are valid Unicode scalar values"],
        "design_ref": "DESIGN.md 5.5",
        "level_text": "Theorems in Coq for all strings (unbounded) and all quote characters: decode(encode s) = s for the generic and the expression/CSV codecs, decoding never indexes out of range, and the expression/CSV reader reads the encoded form placed in a stream back as exactly one token that decodes to s. The codecs are pure string functions entirely inside the model; correspondence is exhaustive up to length 3/4 over the property's alphabet for all three states plus random strings.",
        "level_note": "Trusted: Coq kernel + vm_compute; hand-written model Quote.v (Go strings.ReplaceAll modelled as leftmost non-overlapping replacement) tied to the three Go quote states by correspondence on generated cases only; extraction + driver; Go harness. No axioms.",
    },
}
