(* property id -> extracted model *)
open Model
let find (id : string) : sx -> sx =
  match id with
  | "C11" -> model_C11
  | "C17" -> model_C17
  | "C16" -> model_C16
  | "C14" -> model_C14
  | "C02" -> model_C02
  | "C01" -> model_C01
  | "C04" | "C15" | "C12" | "C13" | "C09" -> model_TOK
  | "C05" -> model_C05
  | "C06" -> model_C06
  | "C07" -> model_C07
  | "C08" -> model_C08
  | "C10" -> model_C10
  | "C18" -> model_C18
  | "C20" -> model_C20
  | "C19" -> model_C19
  | "C03" -> model_C03
  | _ -> failwith ("no extracted model for " ^ id)
