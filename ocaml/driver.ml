(* Generic correspondence driver.  usage: driver <property id> < cases.sx
   Each input line is  (input observed) ; the extracted model of the property maps input to the
   observables the implementation must have shown.  Prints one line per mismatch:
     MISMATCH <index> <model output>
   and finally  DONE <cases> <mismatches>. *)
open Model

let rec pos_of_int (n : int) : positive =
  if n = 1 then XH else if n land 1 = 0 then XO (pos_of_int (n lsr 1)) else XI (pos_of_int (n lsr 1))
let z_of_int (n : int) : z =
  if n = 0 then Z0 else if n > 0 then Zpos (pos_of_int n) else Zneg (pos_of_int (-n))

let ten = z_of_int 10

(* decimal text -> Z, arbitrary size *)
let z_of_string (s : string) : z =
  let neg = String.length s > 0 && s.[0] = '-' in
  let start = if neg then 1 else 0 in
  let len = String.length s - start in
  if len <= 17 then z_of_int (int_of_string s)
  else begin
    let acc = ref Z0 in
    for i = start to String.length s - 1 do
      acc := Z.add (Z.mul !acc ten) (z_of_int (Char.code s.[i] - 48))
    done;
    if neg then Z.opp !acc else !acc
  end

let rec int_of_pos (p : positive) : int =
  match p with XH -> 1 | XO q -> 2 * int_of_pos q | XI q -> 2 * int_of_pos q + 1
let rec pos_bits (p : positive) : int = match p with XH -> 1 | XO q | XI q -> 1 + pos_bits q

let rec string_of_z (x : z) : string =
  match x with
  | Z0 -> "0"
  | Zneg p -> "-" ^ string_of_z (Zpos p)
  | Zpos p ->
    if pos_bits p <= 60 then string_of_int (int_of_pos p)
    else
      let (q, r) = Z.div_eucl x ten in
      string_of_z q ^ string_of_z r

(* parser for the text form *)
let parse (s : string) : sx =
  let n = String.length s in
  let i = ref 0 in
  let rec ws () = if !i < n && (s.[!i] = ' ' || s.[!i] = '\t') then (incr i; ws ()) in
  let rec node () : sx =
    ws ();
    if !i >= n then failwith "unexpected end";
    if s.[!i] = '(' then begin
      incr i;
      let items = ref [] in
      let rec loop () =
        ws ();
        if !i >= n then failwith "unclosed list";
        if s.[!i] = ')' then incr i
        else (items := node () :: !items; loop ())
      in
      loop ();
      L (List.rev !items)
    end else begin
      let j = ref !i in
      while !j < n && s.[!j] <> ' ' && s.[!j] <> ')' && s.[!j] <> '(' do incr j done;
      let tok = String.sub s !i (!j - !i) in
      i := !j;
      I (z_of_string tok)
    end
  in
  node ()

let rec print (b : Buffer.t) (x : sx) : unit =
  match x with
  | I z -> Buffer.add_string b (string_of_z z)
  | L l ->
    Buffer.add_char b '(';
    List.iteri (fun k e -> if k > 0 then Buffer.add_char b ' '; print b e) l;
    Buffer.add_char b ')'

let () =
  let model = Models.find Sys.argv.(1) in
  let idx = ref 0 and bad = ref 0 in
  (try
     while true do
       let line = input_line stdin in
       if String.length line > 0 then begin
         (match parse line with
          | L [input; observed] ->
            let out = model input in
            if not (sx_eqb out observed) then begin
              incr bad;
              let b = Buffer.create 256 in
              print b out;
              Printf.printf "MISMATCH %d %s\n" !idx (Buffer.contents b)
            end
          | _ -> incr bad; Printf.printf "MISMATCH %d (malformed case)\n" !idx);
         incr idx
       end
     done
   with End_of_file -> ());
  Printf.printf "DONE %d %d\n" !idx !bad
