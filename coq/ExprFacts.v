(* Consequences of the grammar relation used by C01: parentheses add no tree node, binary operators associate to
   the left, calls receive their arguments in written order. *)
From Coq Require Import List ZArith Bool Lia.
Import ListNotations.
Require Import ExprParser ExprSound ExprComplete ExprTotal ExprEval.

Lemma DP_up ts e : DP ts e -> D0 ts e.
Proof. intros H. apply D0_1, D1_2, D2_3, D3_4, D4_5, D5_6, D6_s, DS_p. exact H. Qed.

(* redundant parentheses: the parenthesised sentence has the same syntax tree, at every level down to primary *)
Lemma paren_same_tree ts e : D0 ts e -> DP (TLP :: ts ++ [TRP]) e /\ D0 (TLP :: ts ++ [TRP]) e.
Proof. intros H. split; [apply DP_paren; exact H | apply DP_up, DP_paren; exact H]. Qed.

(* left associativity at each binary level: x op1 y op2 z groups as (x op1 y) op2 z *)
Lemma left_assoc0 x y z ex ey ez t1 o1 t2 o2 :
  D0 x ex -> D1 y ey -> D1 z ez -> op0 t1 = Some o1 -> op0 t2 = Some o2 ->
  D0 ((x ++ t1 :: y) ++ t2 :: z) (EBin o2 (EBin o1 ex ey) ez).
Proof. intros. eapply D0_op; eauto. eapply D0_op; eauto. Qed.
Lemma left_assoc2 x y z ex ey ez t1 o1 t2 o2 :
  D2 x ex -> D3 y ey -> D3 z ez -> op2 t1 = Some o1 -> op2 t2 = Some o2 ->
  D2 ((x ++ t1 :: y) ++ t2 :: z) (EBin o2 (EBin o1 ex ey) ez).
Proof. intros. eapply D2_op; eauto. eapply D2_op; eauto. Qed.
Lemma left_assoc3 x y z ex ey ez t1 o1 t2 o2 :
  D3 x ex -> D4 y ey -> D4 z ez -> op3 t1 = Some o1 -> op3 t2 = Some o2 ->
  D3 ((x ++ t1 :: y) ++ t2 :: z) (EBin o2 (EBin o1 ex ey) ez).
Proof. intros. eapply D3_op; eauto. eapply D3_op; eauto. Qed.
Lemma left_assoc4 x y z ex ey ez t1 o1 t2 o2 :
  D4 x ex -> D5 y ey -> D5 z ez -> op4 t1 = Some o1 -> op4 t2 = Some o2 ->
  D4 ((x ++ t1 :: y) ++ t2 :: z) (EBin o2 (EBin o1 ex ey) ez).
Proof. intros. eapply D4_op; eauto. eapply D4_op; eauto. Qed.
Lemma left_assoc5 x y z ex ey ez t1 o1 t2 o2 :
  D5 x ex -> D6 y ey -> D6 z ez -> op5 t1 = Some o1 -> op5 t2 = Some o2 ->
  D5 ((x ++ t1 :: y) ++ t2 :: z) (EBin o2 (EBin o1 ex ey) ez).
Proof. intros. eapply D5_op; eauto. eapply D5_op; eauto. Qed.

(* precedence: a tighter-level sentence is an operand of a looser-level operator without parentheses *)
Lemma precedence_mul_in_add x y z ex ey ez : D3 x ex -> D4 y ey -> D5 z ez ->
  D3 (x ++ TPlus :: (y ++ TStar :: z)) (EBin OAdd ex (EBin OMul ey ez)).
Proof. intros. eapply D3_op; eauto; try reflexivity. eapply D4_op; eauto; reflexivity. Qed.

Section Calls.
  Variable V : Type.
  Variable const : Z -> V.
  Variable var : Z -> outcome V.
  Variable bin : binop -> V -> V -> outcome V.
  Variable un : unop -> V -> outcome V.
  Variable callf : Z -> list V -> outcome V.

  Fixpoint list_of (es : exprs) : list expr := match es with ENil => [] | ECons e r => e :: list_of r end.

  (* a call applies the function to exactly the values of its written arguments, in order *)
  Lemma call_args_in_order f args vs :
    Forall2 (fun e v => eval V const var bin un callf e = Val v) (list_of args) vs ->
    eval V const var bin un callf (ECall f args) = callf f vs.
  Proof.
    intros H. change (eval V const var bin un callf (ECall f args)) with (obind (evals V const var bin un callf args) (callf f)).
    assert (G: evals V const var bin un callf args = Val vs).
    { revert vs H. induction args as [|e r IH]; intros vs H; cbn [list_of] in H.
      - inversion H; subst. reflexivity.
      - inversion H as [|? v ? vs' He Hr]; subst.
        change (evals V const var bin un callf (ECons e r)) with (obind (eval V const var bin un callf e) (fun v0 => obind (evals V const var bin un callf r) (fun vs0 => Val (v0 :: vs0)))).
        rewrite He. cbn [obind]. rewrite (IH vs' Hr). reflexivity. }
    rewrite G. reflexivity.
  Qed.

  (* a binary node applies its operation to (left value, right value) in written order *)
  Lemma bin_operands_in_order o a b va vb :
    eval V const var bin un callf a = Val va -> eval V const var bin un callf b = Val vb ->
    eval V const var bin un callf (EBin o a b) = bin o va vb.
  Proof.
    intros Ha Hb. change (eval V const var bin un callf (EBin o a b)) with (obind (eval V const var bin un callf a) (fun v1 => obind (eval V const var bin un callf b) (fun v2 => bin o v1 v2))).
    rewrite Ha. cbn [obind]. rewrite Hb. reflexivity.
  Qed.
End Calls.
