(* C01 / C02 at string level with ARBITRARY spacing: between the items of an expression any whitespace runs and
   block comments may stand (or nothing, where neighbours cannot merge).  ParseString sees the same tokens at other
   positions, and by the parametricity of grammar and evaluation (ExprRename.v) neither acceptance nor the value depend
   on the spacing. *)
From Coq Require Import List ZArith Bool Lia.
Import ListNotations.
Require Import Base Cursor Trie TrieSpec States Tokenizer TokenizerProofs Instances Tables TokModel TokModelProofs.
Require Import LexFacts LexStep LexGrammar LexSeq LexRoundtrip CsvRoundtrip ExprParser ExprLex ExprLexOk ExprString ExprRename.
Require Quote QuoteProofs.
Open Scope Z_scope.

Notation ecfg := expr_cfg.
Notation eregs := (regs_of expr_symbols).

(* what may stand between two items *)
Definition filler (p : ttype * Base.str) : Prop := fst p = Whitespace \/ fst p = Comment.
Definition gitem := (item * list (ttype * Base.str))%type.
Fixpoint glexs (gi : list gitem) : list (ttype * Base.str) :=
  match gi with [] => [] | (it, g) :: r => item_lexeme it :: g ++ glexs r end.
Definition has_ws (g : list (ttype * Base.str)) : bool := existsb (fun p => ttype_eqb (fst p) Whitespace) g.
Fixpoint toks_at (i : Z) (gi : list gitem) : list tok :=
  match gi with [] => [] | (it, g) :: r => item_tok i it :: toks_at (i + 1 + (if has_ws g then 1 else 0)) r end.
Definition gi_ok (gi : list gitem) : Prop := Forall (fun x : gitem => item_ok (fst x) /\ Forall filler (snd x)) gi.

(* ---- the parser's options on pairs: comments vanish, a whitespace token directly after an emitted whitespace token too ---- *)
Fixpoint emitp (last : ttype) (ls : list (ttype * Base.str)) : list (ttype * Base.str) :=
  match ls with
  | [] => []
  | p :: r =>
      if ttype_eqb (fst p) Comment then emitp last r
      else if ttype_eqb (fst p) Whitespace && ttype_eqb last Whitespace then emitp Whitespace r
      else p :: emitp (fst p) r
  end.

Lemma post_parser_opts_general decode : forall rs last e,
  map (fun t => (ty t, value t)) (post decode parser_opts last rs e) =
  emitp last (map (fun r => (ty (rtok r), value (dec decode r))) rs).
Proof.
  induction rs as [|r rs IH]; intros last e; cbn [Tokenizer.post map emitp].
  - cbn [parser_opts skipEof negb]. rewrite andb_false_r. reflexivity.
  - cbn [parser_opts skipUnknown decodeStrings skipComments skipWhitespaces mergeWhitespaces unifyNumbers]. rewrite !andb_false_r, !andb_true_r. cbn [andb fst].
    unfold dec. destruct (from_quote r); cbn [ty mk value].
    + destruct (ttype_eqb (ty (rtok r)) Comment); [apply IH|].
      destruct (ttype_eqb (ty (rtok r)) Whitespace && ttype_eqb last Whitespace); [apply IH|].
      cbn [map ty mk value]. f_equal. apply IH.
    + destruct (ttype_eqb (ty (rtok r)) Comment); [apply IH|].
      destruct (ttype_eqb (ty (rtok r)) Whitespace && ttype_eqb last Whitespace); [apply IH|].
      cbn [map]. f_equal. apply IH.
Qed.

(* ---- a gap emits at most one whitespace token, and leaves `last` at Whitespace iff it emitted one ---- *)
Lemma emitp_gap : forall g last rest, Forall filler g -> last <> Comment ->
  exists ws, emitp last (g ++ rest) = ws ++ emitp (if has_ws g then Whitespace else last) rest /\
             Forall (fun p => fst p = Whitespace) ws /\
             (last <> Whitespace -> length ws = if has_ws g then 1%nat else 0%nat) /\ (last = Whitespace -> ws = []).
Proof.
  induction g as [|p g IH]; intros last rest Hf Hl; [exists []; repeat split; auto|].
  pose proof (Forall_inv Hf) as Hp. pose proof (Forall_inv_tail Hf) as Hg. cbn [app emitp has_ws existsb].
  destruct Hp as [Hw|Hc].
  - rewrite Hw. change (ttype_eqb Whitespace Comment) with false. change (ttype_eqb Whitespace Whitespace) with true. cbn [andb orb]. cbv iota.
    destruct (IH Whitespace rest Hg ltac:(discriminate)) as (ws & H1 & H2 & H3 & H4). rewrite (H4 eq_refl) in H1. cbn [app] in H1.
    assert (H1': emitp Whitespace (g ++ rest) = emitp Whitespace rest) by (rewrite H1; destruct (has_ws g); reflexivity).
    destruct (ttype_eqb last Whitespace) eqn:E.
    + apply ttype_eqb_eq in E. subst last. exists []. rewrite H1'. split; [reflexivity|]. split; [constructor|]. split; [congruence|reflexivity].
    + exists [p]. rewrite H1'. split; [reflexivity|]. split; [constructor; [exact Hw|constructor]|]. split; [reflexivity|].
      intros X. subst last. discriminate.
  - rewrite Hc. change (ttype_eqb Comment Comment) with true. change (ttype_eqb Comment Whitespace) with false. cbn [orb]. cbv iota.
    destruct (IH last rest Hg Hl) as (ws & H1 & H2 & H3 & H4). exists ws. auto.
Qed.

(* ---- lexical completion skips the whitespace tokens of a gap ---- *)
Lemma lex_all_ws : forall ws i r, Forall (fun p : ttype * Base.str => fst p = Whitespace) ws ->
  lex_all i (map triple (ws ++ r)) = lex_all (i + Z.of_nat (length ws)) (map triple r).
Proof.
  induction ws as [|p ws IH]; intros i r H; [cbn; rewrite Z.add_0_r; reflexivity|].
  pose proof (Forall_inv H) as Hp. cbn [app map lex_all]. unfold triple at 1. rewrite Hp.
  change (lex_one i (ttype_code Whitespace) (snd p) (upper (snd p))) with LSkip. cbv iota. rewrite (IH (i + 1) r (Forall_inv_tail H)).
  f_equal. cbn [length]. lia.
Qed.

Lemma item_not_filler it : fst (item_token it) <> Comment /\ fst (item_token it) <> Whitespace.
Proof. destruct it; cbn; split; discriminate. Qed.

Definition dgl (gi : list gitem) : list (ttype * Base.str) := map edecl (glexs gi).

Lemma edecl_filler p : filler p -> edecl p = p \/ fst (edecl p) = fst p.
Proof. intros _. right. reflexivity. Qed.

Lemma lex_all_gitems : forall gi i last, gi_ok gi -> last <> Comment ->
  (forall x, In x gi -> Forall (fun p => edecl p = p) (snd x)) ->
  lex_all i (map triple (emitp last (dgl gi))) = Some (toks_at i gi).
Proof.
  induction gi as [|[it g] gi IH]; intros i last Hok Hl Hd; [reflexivity|].
  pose proof (Forall_inv Hok) as [Hit Hg]. pose proof (Forall_inv_tail Hok) as Hok'. cbn [fst snd] in *.
  unfold dgl. cbn [glexs map]. rewrite (edecl_item it Hit). rewrite map_app.
  assert (Hgd: map edecl g = g).
  { specialize (Hd (it, g) (or_introl eq_refl)). cbn [snd] in Hd. clear - Hd. induction g as [|p g IHg]; [reflexivity|]. cbn [map]. rewrite (Forall_inv Hd). f_equal. apply IHg. exact (Forall_inv_tail Hd). }
  rewrite Hgd. fold (dgl gi).
  destruct (item_not_filler it) as [Hc Hw].
  cbn [emitp]. destruct (ttype_eqb (fst (item_token it)) Comment) eqn:E1; [apply ttype_eqb_eq in E1; contradiction|].
  destruct (ttype_eqb (fst (item_token it)) Whitespace) eqn:E2; [apply ttype_eqb_eq in E2; contradiction|]. cbn [andb].
  destruct (emitp_gap g (fst (item_token it)) (dgl gi) Hg Hc) as (ws & H1 & H2 & H3 & _). rewrite H1.
  cbn [map lex_all]. unfold triple at 1. rewrite (lex_one_item i it Hit).
  rewrite (lex_all_ws ws (i + 1) _ H2). rewrite (H3 Hw).
  rewrite (IH (i + 1 + Z.of_nat (if has_ws g then 1%nat else 0%nat)) (if has_ws g then Whitespace else fst (item_token it)) Hok').
  - cbn [toks_at]. do 3 f_equal. destruct (has_ws g); reflexivity.
  - destruct (has_ws g); [discriminate|exact Hc].
  - intros x Hx. apply Hd. right. exact Hx.
Qed.

(* ---- fillers are never decoded: whitespace and comments do not start with a quote character ---- *)
Lemma esymbol_type lx : symbol_type eregs lx = Symbol.
Proof.
  unfold symbol_type. destruct (registered eregs lx) eqn:E; [|reflexivity].
  destruct (last_type_in eregs lx) as [H|H].
  - exfalso. exact (last_type_known eregs lx (valid_regb_known _ expr_regs_ok) E H).
  - cbn in H. repeat (destruct H as [H|H]; [symmetry; exact H|]). contradiction.
Qed.

Lemma filler_not_decoded t lx rest : lexeme ecfg eregs t lx rest -> (t = Whitespace \/ t = Comment) -> edecl (t, lx) = (t, lx).
Proof.
  intros Hl Ht. unfold edecl. cbn [fst snd].
  assert (Hk: is_quote_kind (Instances.table ecfg (hdz lx)) = false).
  { destruct Hl as [x r rest Hst|x r rest Hst|x r rest Hst|t sg m rest Hsg Hm|t m rest Hm|t m ex rest Hm|q body rest Hst|q body rest Hst|x r rest Hst|body rest Hst|x r rest|q body rest Hst|x rest Hst|x r rest Hst];
      try (destruct Ht as [Ht|Ht]; discriminate Ht);
      try (destruct (is_keyword _ _); destruct Ht as [Ht|Ht]; discriminate Ht);
      try (destruct Hm; destruct Ht as [Ht|Ht]; discriminate Ht);
      try (destruct (q =? 34); destruct Ht as [Ht|Ht]; discriminate Ht);
      try (rewrite esymbol_type in Ht; destruct Ht as [Ht|Ht]; discriminate Ht).
    - cbn [hdz nth]. unfold starts in Hst. rewrite Hst. reflexivity.
    - cbn [hdz nth]. unfold starts in Hst. rewrite Hst. reflexivity.
    - cbn [app hdz nth]. unfold starts in Hst. rewrite Hst. reflexivity. }
  rewrite Hk. reflexivity.
Qed.

(* every filler of a lexeme sequence is left alone by decoding *)
Lemma fillers_not_decoded : forall gi, gi_ok gi -> lexemes ecfg eregs (glexs gi) ->
  forall x, In x gi -> Forall (fun p => edecl p = p) (snd x).
Proof.
  induction gi as [|[it g] gi IH]; intros Hok Hls x Hx; [contradiction|].
  pose proof (Forall_inv Hok) as [Hit Hg]. cbn [fst snd] in *. cbn [glexs] in Hls.
  destruct (item_lexeme it) as [t0 lx0] eqn:E0. cbn [lexemes] in Hls. destruct Hls as [_ Hls].
  (* walk through the gap *)
  assert (G: forall g0 tl, Forall filler g0 -> lexemes ecfg eregs (g0 ++ tl) -> Forall (fun p => edecl p = p) g0 /\ lexemes ecfg eregs tl).
  { induction g0 as [|[t lx] g0 IHg]; intros tl Hf Hl; [split; [constructor|exact Hl]|].
    cbn [app lexemes] in Hl. destruct Hl as [H1 H2]. destruct (IHg tl (Forall_inv_tail Hf) H2) as [H3 H4].
    split; [|exact H4]. constructor; [|exact H3]. apply (filler_not_decoded t lx _ H1). exact (Forall_inv Hf). }
  destruct (G g (glexs gi) Hg Hls) as [H1 H2].
  destruct Hx as [<- | Hx]; [exact H1|]. exact (IH (Forall_inv_tail Hok) H2 x Hx).
Qed.

(* ---------- ParseString with arbitrary spacing ---------- *)
Theorem parse_string_spaced gi : gi <> [] -> gi_ok gi -> lexemes ecfg eregs (glexs gi) -> wf_str (concat (map snd (glexs gi))) ->
  parse_string (concat (map snd (glexs gi))) = Some (parse_top (toks_at 0 gi)).
Proof.
  intros Hne Hok Hls Hwf.
  destruct expr_cfg_ok as [Hc Hty].
  destruct (lexemes_tokenize_options lcf plcf decode_doubled ecfg eregs Hlc_model Hc Hty eq_refl
              (proj1 (valid_regb_ok _ expr_regs_ok)) (types_not_number eregs eq_refl) (glexs gi) Hwf Hls) as (rs & e & Htok & Hm & Hq & _).
  unfold parse_string. change (tokenize_with TExpr parser_opts (concat (map snd (glexs gi)))) with (tokenize_cfg lcf plcf decode_doubled ecfg parser_opts (concat (map snd (glexs gi)))).
  rewrite Htok.
  assert (Hd: map tok_triple (post decode_doubled parser_opts Unknown rs e) = map triple (emitp Unknown (dgl gi))).
  { replace (map tok_triple (post decode_doubled parser_opts Unknown rs e)) with (map triple (map (fun t => (ty t, value t)) (post decode_doubled parser_opts Unknown rs e))) by (rewrite map_map; reflexivity).
    rewrite post_parser_opts_general. f_equal. f_equal. unfold dgl. rewrite <- Hm, map_map. apply map_ext_in. intros r Hr.
    rewrite Forall_forall in Hq. destruct (Hq r Hr) as [H1 H2]. unfold dec, edecl. cbn [fst snd]. rewrite H2, H1. destruct (is_quote_kind _); reflexivity. }
  rewrite Hd. rewrite (lex_all_gitems gi 0 Unknown Hok ltac:(discriminate) (fillers_not_decoded gi Hok Hls)).
  destruct gi as [|[it g] gi]; [congruence|]. reflexivity.
Qed.

(* ---------- the spacing does not matter ---------- *)
Fixpoint pos_at (i : Z) (gi : list gitem) : list Z :=
  match gi with [] => [] | (it, g) :: r => i :: pos_at (i + 1 + (if has_ws g then 1 else 0)) r end.
Fixpoint ren (ps ps' : list Z) (x : Z) : Z :=
  match ps, ps' with p :: r, p' :: r' => if x =? p then p' else ren r r' x | _, _ => x end.

Lemma pos_at_lower : forall gi i x, In x (pos_at i gi) -> i <= x.
Proof.
  induction gi as [|[it g] gi IH]; intros i x H; [contradiction|]. cbn [pos_at] in H. destruct H as [<- | H]; [lia|].
  apply IH in H. destruct (has_ws g); lia.
Qed.

Lemma operator_tok_fixed f it : item_ok it -> match it with ISym _ t | IKw _ t => rt f t = t | _ => True end.
Proof.
  destruct it as [sp t|sp t| | |]; cbn [item_ok]; intros H; try exact I.
  - cbn in H. repeat (destruct H as [E|H]; [inversion E; reflexivity|]). contradiction.
  - destruct H as [H _]. cbn in H. repeat (destruct H as [E|H]; [inversion E; reflexivity|]). contradiction.
Qed.

Lemma toks_renamed : forall gi gi' i i', Forall item_ok (map fst gi) -> map fst gi = map fst gi' ->
  toks_at i' gi' = map (rt (ren (pos_at i gi) (pos_at i' gi'))) (toks_at i gi).
Proof.
  induction gi as [|[it g] gi IH]; intros [|[it' g'] gi'] i i' Hok H; try discriminate; [reflexivity|].
  cbn [map fst] in H, Hok. inversion H as [[H1 H2]]. subst it'. cbn [toks_at pos_at map].
  pose proof (Forall_inv Hok) as Hit. pose proof (Forall_inv_tail Hok) as Hok'.
  f_equal.
  - pose proof (operator_tok_fixed (ren (i :: pos_at (i + 1 + (if has_ws g then 1 else 0)) gi) (i' :: pos_at (i' + 1 + (if has_ws g' then 1 else 0)) gi')) it Hit) as Hop.
    destruct it; cbn [item_tok]; try (symmetry; exact Hop); cbn [rt ren]; rewrite Z.eqb_refl; reflexivity.
  - rewrite (IH gi' (i + 1 + (if has_ws g then 1 else 0)) (i' + 1 + (if has_ws g' then 1 else 0)) Hok' H2).
    apply map_ext_in. intros t Ht.
    (* the positions behind the first one are larger than it *)
    assert (Hpos: forall n, t = TConst n \/ t = TVar n -> In n (pos_at (i + 1 + (if has_ws g then 1 else 0)) gi)).
    { clear - Ht Hok'. revert Ht. generalize (i + 1 + (if has_ws g then 1 else 0)). induction gi as [|[it0 g0] gi IHg]; intros j Ht n Hn; [contradiction|].
      cbn [toks_at pos_at map fst] in *. pose proof (Forall_inv Hok') as Hit0. destruct Ht as [<- | Ht].
      - left. pose proof (operator_tok_fixed (fun x => x + 1) it0 Hit0) as Hop.
        destruct it0; cbn [item_tok] in Hn; destruct Hn as [Hn|Hn]; try discriminate; try (inversion Hn; reflexivity);
          rewrite Hn in Hop; cbn [rt] in Hop; inversion Hop; lia.
      - right. eapply IHg; eauto. exact (Forall_inv_tail Hok'). }
    destruct t; cbn [rt ren]; try reflexivity.
    + assert (Hn := pos_at_lower _ _ _ (Hpos c (or_introl eq_refl))). destruct (Z.eqb_spec c i); [destruct (has_ws g); lia|reflexivity].
    + assert (Hn := pos_at_lower _ _ _ (Hpos n (or_intror eq_refl))). destruct (Z.eqb_spec n i); [destruct (has_ws g); lia|reflexivity].
Qed.

(* the same items with two different spacings: ParseString sees token sequences that differ only in the numbering *)
Theorem spacing_only_renumbers gi gi' : Forall item_ok (map fst gi) -> map fst gi = map fst gi' ->
  toks_at 0 gi' = map (rt (ren (pos_at 0 gi) (pos_at 0 gi'))) (toks_at 0 gi).
Proof. apply toks_renamed. Qed.

Print Assumptions parse_string_spaced.

(* ---------- non-vacuity:   a  +12/* c */ *b   ---------- *)
Definition spaced_sample : list gitem :=
  [ (IVar [97], [(Whitespace, [32; 32])]); (ISym [43] TPlus, []); (IInt [49; 50], [(Comment, [47; 42; 32; 99; 32; 42; 47]); (Whitespace, [32])]);
    (ISym [42] TStar, []); (IVar [98], []) ].
Definition canonical_sample : list gitem := map (fun x : gitem => (fst x, match x with (IVar [98], _) => [] | _ => [(Whitespace, [32])] end)) spaced_sample.

Ltac digits := repeat (constructor; [reflexivity|]); try constructor.

Example spaced_sample_ok : gi_ok spaced_sample /\ lexemes ecfg eregs (glexs spaced_sample) /\ wf_str (concat (map snd (glexs spaced_sample))).
Proof.
  split; [|split].
  - unfold spaced_sample, gi_ok.
    apply Forall_cons; [cbn [fst snd]; split; [split; [ident|reflexivity]|repeat constructor]|].
    apply Forall_cons; [cbn [fst snd]; split; [cbn; tauto|constructor]|].
    apply Forall_cons; [cbn [fst snd]; split; [split; [repeat constructor|discriminate]|constructor; [right; reflexivity|constructor; [left; reflexivity|constructor]]]|].
    apply Forall_cons; [cbn [fst snd]; split; [cbn; tauto|constructor]|].
    apply Forall_cons; [cbn [fst snd]; split; [split; [ident|reflexivity]|constructor]|]. apply Forall_nil.
  - unfold spaced_sample. cbn [glexs app item_lexeme lexemes map snd concat].
    split; [|split; [|split; [|split; [|split; [|split; [|split; [|split; [|exact I]]]]]]]].
    + apply (L_expr_word ecfg eregs 97 []); [reflexivity|digits|reflexivity].
    + apply (L_space ecfg eregs 32 [32]); [reflexivity|digits|reflexivity].
    + change Symbol with (symbol_type eregs [43]). apply (L_symbol ecfg eregs 43 []); [left; reflexivity|apply longestb_ok; reflexivity].
    + apply (L_expr_number ecfg eregs Integer [49; 50]); [apply M_int; [digits|discriminate]|reflexivity|split; [reflexivity|intros _; cbn; discriminate]|reflexivity].
    + apply (L_block_comment ecfg eregs [32; 99; 32]); [reflexivity|].
      intros (u & v & H). do 5 (destruct u as [|? u]; cbn in H; try discriminate H).
    + apply (L_space ecfg eregs 32 []); [reflexivity|digits|reflexivity].
    + change Symbol with (symbol_type eregs [42]). apply (L_symbol ecfg eregs 42 []); [left; reflexivity|apply longestb_ok; reflexivity].
    + apply (L_expr_word ecfg eregs 98 []); [reflexivity|digits|reflexivity].
  - unfold wf_str. cbn. repeat (constructor; [lia|]). constructor.
Qed.

Example spaced_sample_parses :
  parse_string (concat (map snd (glexs spaced_sample))) = Some (parse_top [TVar 0; TPlus; TConst 3; TStar; TVar 6]).
Proof.
  destruct spaced_sample_ok as (H1 & H2 & H3). rewrite (parse_string_spaced spaced_sample ltac:(discriminate) H1 H2 H3). reflexivity.
Qed.

(* ---------- C02 at string level, any spacing: acceptance and rejection of the text are those of its item tokens ---------- *)
Require Import ExprSound ExprComplete ExprTotal.
Corollary spaced_sentences_are_accepted gi e : gi <> [] -> gi_ok gi -> lexemes ecfg eregs (glexs gi) -> wf_str (concat (map snd (glexs gi))) ->
  D0 (toks_at 0 gi) e -> parse_string (concat (map snd (glexs gi))) = Some (ExprParser.Ok (compile e)).
Proof. intros Hne Hok Hls Hwf HD. rewrite (parse_string_spaced gi Hne Hok Hls Hwf). f_equal. apply parse_top_complete. exact HD. Qed.

Corollary spaced_non_sentences_are_rejected gi : gi <> [] -> gi_ok gi -> lexemes ecfg eregs (glexs gi) -> wf_str (concat (map snd (glexs gi))) ->
  (forall e, ~ D0 (toks_at 0 gi) e) -> exists c, parse_string (concat (map snd (glexs gi))) = Some (ExprParser.Err c).
Proof.
  intros Hne Hok Hls Hwf Hn. rewrite (parse_string_spaced gi Hne Hok Hls Hwf).
  destruct (parse_top_rejects (toks_at 0 gi)) as [c Hc]; [destruct gi as [|[it g] r]; [congruence|discriminate]|exact Hn|]. exists c. rewrite Hc. reflexivity.
Qed.
