From Coq Require Import List ZArith Bool Lia.
Import ListNotations.
Require Import ExprParser ExprSound ExprComplete.

(* ---------- fuel monotonicity ---------- *)
Definition below (f g : nt -> pst -> res pst) : Prop := forall k st, f k st <> Fuel -> g k st = f k st.

Lemma bind_mono {A B} (r1 r1' : res A) (f f' : A -> res B) :
  bind r1 f <> Fuel ->
  (r1 <> Fuel -> r1' = r1) ->
  (forall a, r1 = Ok a -> f a <> Fuel -> f' a = f a) ->
  bind r1' f' = bind r1 f.
Proof.
  intros Hne H1 Hf. destruct r1 as [a|e|]; simpl in *.
  - rewrite H1 by discriminate. simpl. rewrite Hf; auto.
  - rewrite H1 by discriminate. reflexivity.
  - congruence.
Qed.

Ltac bm M := eapply bind_mono; [eassumption | (let H := fresh in intros H; apply M; exact H) | try (let a := fresh in let H := fresh in intros a _ H; apply M; exact H); try reflexivity].

Lemma pstep_mono f g : below f g -> below (pstep f) (pstep g).
Proof.
  intros M k [acc ts] Hne. destruct k; cbn [pstep fst snd] in *; unfold binloop in *; cbn [fst snd] in *.
  - (* N0 *) destruct ts; [reflexivity|]. bm M.
  - (* N0L *) destruct ts as [|t0 r0]; [reflexivity|]. destruct (op0 t0); [|reflexivity]. bm M.
  - (* N1 *) destruct ts as [|t0 r0]; [reflexivity|]. destruct t0; try (apply M; exact Hne). bm M.
  - (* N2 *) destruct ts; [reflexivity|]. bm M.
  - (* N2L *) destruct ts as [|t0 r0]; [reflexivity|]. destruct (op2 t0); [|reflexivity]. bm M.
  - (* N3 *) destruct ts; [reflexivity|]. bm M.
  - (* N3L *) destruct ts as [|t0 r0]; [reflexivity|]. destruct (op3 t0); [bm M|].
    destruct t0; try reflexivity.
    + destruct r0 as [|t1 r1]; [reflexivity|]. destruct t1; try reflexivity; bm M.
    + destruct r0 as [|t1 r1]; [reflexivity|]. destruct t1; try reflexivity.
      * destruct r1 as [|t2 r2]; [reflexivity|]. destruct t2; try reflexivity. apply M; exact Hne.
      * apply M; exact Hne.
  - (* N4 *) destruct ts; [reflexivity|]. bm M.
  - (* N4L *) destruct ts as [|t0 r0]; [reflexivity|]. destruct (op4 t0); [|reflexivity]. bm M.
  - (* N5 *) destruct ts; [reflexivity|]. bm M.
  - (* N5L *) destruct ts as [|t0 r0]; [reflexivity|]. destruct (op5 t0); [|reflexivity]. bm M.
  - (* N6 *) destruct ts; [reflexivity|].
    eapply bind_mono; [eassumption | intros Hx; apply M; exact Hx |].
    intros [a1 r1] _ Hx. cbn [fst snd] in *. destruct r1 as [|t1 r1]; [reflexivity|]. destruct t1; try reflexivity. bm M.
  - (* NS *) destruct ts as [|t0 r0]; [apply M; exact Hne|]. destruct t0; try (apply M; exact Hne). bm M.
  - (* NP *) destruct ts as [|t0 r0]; [reflexivity|]. destruct t0; try reflexivity.
    + destruct r0 as [|t1 r1]; [reflexivity|]. destruct t1; try reflexivity. apply M; exact Hne.
    + bm M.
  - (* NArgs *) destruct ts as [|t0 r0]; [reflexivity|].
    destruct t0; try reflexivity;
    (eapply bind_mono; [eassumption | intros Hx; apply M; exact Hx |];
     intros [a1 r1] _ Hx; cbn [fst snd] in *; destruct r1 as [|t1 r1]; [reflexivity|]; destruct t1; try reflexivity; apply M; exact Hx).
Qed.

Lemma parse_mono n : below (parse n) (parse (S n)).
Proof. induction n as [|n IH]; [intros k st H; simpl in H; congruence|]. apply (pstep_mono _ _ IH). Qed.

Lemma parse_mono_le n m k st : n <= m -> parse n k st <> Fuel -> parse m k st = parse n k st.
Proof. induction 1; auto. intros Hne. rewrite <- IHle by auto. apply parse_mono. rewrite IHle; auto. Qed.

Lemma parses_fuel k st r n : parses k st r -> parse n k st <> Fuel -> parse n k st = r.
Proof.
  intros [n0 H0] Hne. rewrite <- (H0 (max n n0)) by lia. symmetry. apply parse_mono_le; auto. lia.
Qed.

(* ---------- consumed input: results are suffixes, entry points consume at least one token ---------- *)
Definition entry (k : nt) : bool := match k with N0L | N2L | N3L | N4L | N5L => false | _ => true end.

Definition shrinks (f : nt -> pst -> res pst) : Prop :=
  forall k acc ts acc' rest, f k (acc, ts) = Ok (acc', rest) ->
    length rest <= length ts /\ (entry k = true -> length rest < length ts).

Lemma bind_ok' {A B} (r : res A) (f : A -> res B) b : bind r f = Ok b -> exists a, r = Ok a /\ f a = Ok b.
Proof. destruct r; simpl; intros H; try discriminate. eauto. Qed.

Ltac inv H := inversion H; subst; clear H.

Lemma pstep_shrinks f : shrinks f -> shrinks (pstep f).
Proof.
  intros S k acc ts acc' rest H.
  destruct k; cbn [pstep fst snd] in H; unfold binloop in H; cbn [fst snd entry] in *.
  - destruct ts as [|t0 r0]; [discriminate|]. apply bind_ok' in H. destruct H as [[a1 r1] [H1 H2]].
    apply S in H1. apply S in H2. simpl in *. split; [|intros _]; destruct H1 as [? H1]; specialize (H1 eq_refl); lia.
  - destruct ts as [|t0 r0]; [inv H; simpl; split; [lia|discriminate]|]. destruct (op0 t0).
    + apply bind_ok' in H. destruct H as [[a1 r1] [H1 H2]]. apply S in H1. apply S in H2. simpl in *. split; [lia|discriminate].
    + inv H. split; [lia|discriminate].
  - destruct ts as [|t0 r0]; [discriminate|].
    destruct t0; try (apply S in H; simpl in *; destruct H as [? H]; specialize (H eq_refl); split; [lia|intros _; lia]).
    apply bind_ok' in H. destruct H as [[a1 r1] [H1 H2]]. inv H2. apply S in H1. simpl in *. split; [lia|intros _; lia].
  - destruct ts as [|t0 r0]; [discriminate|]. apply bind_ok' in H. destruct H as [[a1 r1] [H1 H2]].
    apply S in H1. apply S in H2. simpl in *. split; [|intros _]; destruct H1 as [? H1]; specialize (H1 eq_refl); lia.
  - destruct ts as [|t0 r0]; [inv H; simpl; split; [lia|discriminate]|]. destruct (op2 t0).
    + apply bind_ok' in H. destruct H as [[a1 r1] [H1 H2]]. apply S in H1. apply S in H2. simpl in *. split; [lia|discriminate].
    + inv H. split; [lia|discriminate].
  - destruct ts as [|t0 r0]; [discriminate|]. apply bind_ok' in H. destruct H as [[a1 r1] [H1 H2]].
    apply S in H1. apply S in H2. simpl in *. split; [|intros _]; destruct H1 as [? H1]; specialize (H1 eq_refl); lia.
  - (* N3L *) split; [|discriminate].
    destruct ts as [|t0 r0]; [inv H; simpl; lia|]. destruct (op3 t0).
    + apply bind_ok' in H. destruct H as [[a1 r1] [H1 H2]]. apply S in H1. apply S in H2. simpl in *. lia.
    + destruct t0; try (inv H; simpl; lia).
      * destruct r0 as [|t1 r1]; [inv H; simpl; lia|]. destruct t1; try (inv H; simpl; lia);
        (apply bind_ok' in H; destruct H as [[a1 r2] [H1 H2]]; apply S in H1; apply S in H2; simpl in *; lia).
      * destruct r0 as [|t1 r1]; [inv H; simpl; lia|]. destruct t1; try (inv H; simpl; lia).
        -- destruct r1 as [|t2 r2]; [inv H; simpl; lia|]. destruct t2; try (inv H; simpl; lia). apply S in H. simpl in *. lia.
        -- apply S in H. simpl in *. lia.
  - destruct ts as [|t0 r0]; [discriminate|]. apply bind_ok' in H. destruct H as [[a1 r1] [H1 H2]].
    apply S in H1. apply S in H2. simpl in *. split; [|intros _]; destruct H1 as [? H1]; specialize (H1 eq_refl); lia.
  - destruct ts as [|t0 r0]; [inv H; simpl; split; [lia|discriminate]|]. destruct (op4 t0).
    + apply bind_ok' in H. destruct H as [[a1 r1] [H1 H2]]. apply S in H1. apply S in H2. simpl in *. split; [lia|discriminate].
    + inv H. split; [lia|discriminate].
  - destruct ts as [|t0 r0]; [discriminate|]. apply bind_ok' in H. destruct H as [[a1 r1] [H1 H2]].
    apply S in H1. apply S in H2. simpl in *. split; [|intros _]; destruct H1 as [? H1]; specialize (H1 eq_refl); lia.
  - destruct ts as [|t0 r0]; [inv H; simpl; split; [lia|discriminate]|]. destruct (op5 t0).
    + apply bind_ok' in H. destruct H as [[a1 r1] [H1 H2]]. apply S in H1. apply S in H2. simpl in *. split; [lia|discriminate].
    + inv H. split; [lia|discriminate].
  - (* N6 *) destruct ts as [|t0 r0]; [discriminate|]. apply bind_ok' in H. destruct H as [[a1 r1] [H1 H2]].
    apply S in H1. simpl in H1. destruct H1 as [? H1]; specialize (H1 eq_refl). cbn [fst snd] in H2.
    assert (length rest <= length r1); [|simpl in *; split; [lia|intros _; lia]].
    destruct r1 as [|t1 r1]; [inv H2; simpl; lia|]. destruct t1; try (inv H2; simpl; lia).
    apply bind_ok' in H2. destruct H2 as [[a2 r2] [H2 H3]]. apply S in H2. cbn [fst snd] in H3.
    destruct r2 as [|t2 r2]; [discriminate|]. destruct t2; try discriminate. inv H3. simpl in *. lia.
  - (* NS *) destruct ts as [|t0 r0].
    { apply S in H. simpl in *. destruct H as [? H]; specialize (H eq_refl). lia. }
    destruct t0; try (apply S in H; simpl in *; destruct H as [? H]; specialize (H eq_refl); split; [lia|intros _; lia]).
    apply bind_ok' in H. destruct H as [[a1 r1] [H1 H2]]. inv H2. apply S in H1. simpl in *. split; [lia|intros _; lia].
  - (* NP *) destruct ts as [|t0 r0]; [discriminate|]. destruct t0; try discriminate.
    + inv H. simpl. split; [lia|intros _; lia].
    + destruct r0 as [|t1 r1]; [inv H; simpl; split; [lia|intros _; lia]|].
      destruct t1; try (inv H; simpl; split; [lia|intros _; lia]).
      apply S in H. simpl in *. split; [lia|intros _; lia].
    + apply bind_ok' in H. destruct H as [[a1 r1] [H1 H2]]. apply S in H1. cbn [fst snd] in H2.
      destruct r1 as [|t1 r1]; [discriminate|]. destruct t1; try discriminate. inv H2. simpl in *. split; [lia|intros _; lia].
  - (* NArgs *) destruct ts as [|t0 r0]; [discriminate|].
    assert (G: bind (f N0 (acc, t0 :: r0)) (fun st' => match snd st' with
             | [] => Err EUnexpectedEnd
             | TComma :: r => f (NArgs (Datatypes.S k) fn) (fst st', r)
             | TRP :: r => Ok (fst st' ++ [RArgc (Datatypes.S k); RFunc fn], r)
             | _ => Err EMissParen end) = Ok (acc', rest) -> length rest < length (t0 :: r0)).
    { clear H. intros H. apply bind_ok' in H. destruct H as [[a1 r1] [H1 H2]]. apply S in H1. cbn [fst snd] in H2.
      destruct r1 as [|t1 r1]; [discriminate|]. destruct t1; try discriminate.
      - inv H2. simpl in *. lia.
      - apply S in H2. simpl in *. lia. }
    destruct t0; try (specialize (G H); split; [lia|intros _; lia]).
    inv H. simpl. split; [lia|intros _; lia].
Qed.

Lemma parse_shrinks n : shrinks (parse n).
Proof. induction n; [intros k acc ts acc' rest H; discriminate|]. apply pstep_shrinks; auto. Qed.

(* ---------- termination: fuel 10*|ts| + rank k + 1 is enough ---------- *)
Definition rank (k : nt) : nat :=
  match k with N0L | N2L | N3L | N4L | N5L => 0 | NP => 0 | NS => 1 | N6 => 2 | N5 => 3 | N4 => 4 | N3 => 5 | N2 => 6 | N1 => 7 | N0 => 8 | NArgs _ _ => 9 end.

Definition enough (n : nat) (f : nt -> pst -> res pst) : Prop :=
  forall k acc ts, 10 * length ts + rank k < n -> f k (acc, ts) <> Fuel.

Lemma bind_nofuel {A B} (r : res A) (f : A -> res B) :
  r <> Fuel -> (forall a, r = Ok a -> f a <> Fuel) -> bind r f <> Fuel.
Proof. destruct r; simpl; intros H1 H2; auto; discriminate. Qed.

Lemma pstep_enough n f : shrinks f -> enough n f -> enough (S n) (pstep f).
Proof.
  intros Sh E k acc ts Hn.
  destruct k; cbn [pstep fst snd rank] in *; unfold binloop; cbn [fst snd].
  - destruct ts as [|t0 r0]; [discriminate|]. apply bind_nofuel; [apply E; simpl in *; lia|].
    intros [a1 r1] H1. apply Sh in H1. apply E. simpl in *. destruct H1 as [? H1]; specialize (H1 eq_refl). lia.
  - destruct ts as [|t0 r0]; [discriminate|]. destruct (op0 t0); [|discriminate].
    apply bind_nofuel; [apply E; simpl in *; lia|]. intros [a1 r1] H1. apply Sh in H1. apply E. simpl in *. lia.
  - destruct ts as [|t0 r0]; [discriminate|]. destruct t0; try (apply E; simpl in *; lia).
    apply bind_nofuel; [apply E; simpl in *; lia|]. discriminate.
  - destruct ts as [|t0 r0]; [discriminate|]. apply bind_nofuel; [apply E; simpl in *; lia|].
    intros [a1 r1] H1. apply Sh in H1. apply E. simpl in *. lia.
  - destruct ts as [|t0 r0]; [discriminate|]. destruct (op2 t0); [|discriminate].
    apply bind_nofuel; [apply E; simpl in *; lia|]. intros [a1 r1] H1. apply Sh in H1. apply E. simpl in *. lia.
  - destruct ts as [|t0 r0]; [discriminate|]. apply bind_nofuel; [apply E; simpl in *; lia|].
    intros [a1 r1] H1. apply Sh in H1. apply E. simpl in *. lia.
  - (* N3L *) destruct ts as [|t0 r0]; [discriminate|]. destruct (op3 t0).
    { apply bind_nofuel; [apply E; simpl in *; lia|]. intros [a1 r1] H1. apply Sh in H1. apply E. simpl in *. lia. }
    destruct t0; try discriminate.
    + destruct r0 as [|t1 r1]; [discriminate|]. destruct t1; try discriminate;
      (apply bind_nofuel; [apply E; simpl in *; lia|]; intros [a1 r2] H1; apply Sh in H1; apply E; simpl in *; lia).
    + destruct r0 as [|t1 r1]; [discriminate|]. destruct t1; try discriminate.
      * destruct r1 as [|t2 r2]; [discriminate|]. destruct t2; try discriminate. apply E. simpl in *. lia.
      * apply E. simpl in *. lia.
  - destruct ts as [|t0 r0]; [discriminate|]. apply bind_nofuel; [apply E; simpl in *; lia|].
    intros [a1 r1] H1. apply Sh in H1. apply E. simpl in *. lia.
  - destruct ts as [|t0 r0]; [discriminate|]. destruct (op4 t0); [|discriminate].
    apply bind_nofuel; [apply E; simpl in *; lia|]. intros [a1 r1] H1. apply Sh in H1. apply E. simpl in *. lia.
  - destruct ts as [|t0 r0]; [discriminate|]. apply bind_nofuel; [apply E; simpl in *; lia|].
    intros [a1 r1] H1. apply Sh in H1. apply E. simpl in *. lia.
  - destruct ts as [|t0 r0]; [discriminate|]. destruct (op5 t0); [|discriminate].
    apply bind_nofuel; [apply E; simpl in *; lia|]. intros [a1 r1] H1. apply Sh in H1. apply E. simpl in *. lia.
  - (* N6 *) destruct ts as [|t0 r0]; [discriminate|]. apply bind_nofuel; [apply E; simpl in *; lia|].
    intros [a1 r1] H1. apply Sh in H1. cbn [fst snd]. simpl in H1. destruct H1 as [? H1]; specialize (H1 eq_refl).
    destruct r1 as [|t1 r1]; [discriminate|]. destruct t1; try discriminate.
    apply bind_nofuel; [apply E; simpl in *; lia|]. intros [a2 r2] H2. cbn [fst snd].
    destruct r2 as [|t2 r2]; [discriminate|]. destruct t2; discriminate.
  - (* NS *) destruct ts as [|t0 r0]; [apply E; simpl in *; lia|].
    destruct t0; try (apply E; simpl in *; lia). apply bind_nofuel; [apply E; simpl in *; lia|]. discriminate.
  - (* NP *) destruct ts as [|t0 r0]; [discriminate|]. destruct t0; try discriminate.
    + destruct r0 as [|t1 r1]; [discriminate|]. destruct t1; try discriminate. apply E. simpl in *. lia.
    + apply bind_nofuel; [apply E; simpl in *; lia|]. intros [a1 r1] H1. cbn [fst snd].
      destruct r1 as [|t1 r1]; [discriminate|]. destruct t1; discriminate.
  - (* NArgs *) destruct ts as [|t0 r0]; [discriminate|].
    assert (G: bind (f N0 (acc, t0 :: r0)) (fun st' => match snd st' with
             | [] => Err EUnexpectedEnd
             | TComma :: r => f (NArgs (S k) fn) (fst st', r)
             | TRP :: r => Ok (fst st' ++ [RArgc (S k); RFunc fn], r)
             | _ => Err EMissParen end) <> Fuel).
    { apply bind_nofuel; [apply E; simpl in *; lia|]. intros [a1 r1] H1. apply Sh in H1. cbn [fst snd].
      simpl in H1. destruct H1 as [? H1]; specialize (H1 eq_refl).
      destruct r1 as [|t1 r1]; [discriminate|]. destruct t1; try discriminate. apply E. simpl in *. lia. }
    destruct t0; try exact G. discriminate.
Qed.

Lemma parse_enough n : enough n (parse n).
Proof.
  induction n as [|n IH]; [intros k acc ts H; lia|].
  apply pstep_enough; [apply parse_shrinks|exact IH].
Qed.

(* ---------- top-level theorems for C02 ---------- *)
Theorem parse_top_total ts : parse_top ts <> Fuel.
Proof.
  unfold parse_top. destruct ts as [|t r]; [discriminate|].
  apply bind_nofuel.
  - apply parse_enough. unfold fuel_for. simpl. lia.
  - intros [a rest] _. cbn. destruct rest; discriminate.
Qed.

Theorem parse_top_sound ts prog : ts <> [] -> parse_top ts = Ok prog -> exists e, D0 ts e /\ prog = compile e.
Proof.
  intros Hne H. unfold parse_top in H. destruct ts as [|t r]; [congruence|].
  apply bind_ok' in H. destruct H as [[a rest] [H1 H2]]. cbn in H2. destruct rest; [|discriminate]. inv H2.
  apply parse_sound in H1. cbn in H1. destruct H1 as (u & e & E & HD & ->). rewrite app_nil_r in E. subst u. eauto.
Qed.

Theorem parse_top_complete ts e : D0 ts e -> parse_top ts = Ok (compile e).
Proof.
  intros HD. destruct (proj1 D_first _ _ HD) as (t & r & -> & _).
  assert (Hp: parses N0 ([], (t :: r) ++ []) (Ok ([] ++ compile e, []))).
  { apply (proj1 complete_all _ _ HD); [reflexivity|]. apply loop_stop0. reflexivity. }
  rewrite app_nil_r in Hp. unfold parse_top.
  rewrite (parses_fuel _ _ _ _ Hp); [reflexivity|]. apply parse_enough. unfold fuel_for. simpl. lia.
Qed.

Corollary grammar_unambiguous ts e e' : D0 ts e -> D0 ts e' -> compile e = compile e'.
Proof. intros H H'. apply parse_top_complete in H. apply parse_top_complete in H'. congruence. Qed.

Theorem parse_top_rejects ts : ts <> [] -> (forall e, ~ D0 ts e) -> exists c, parse_top ts = Err c.
Proof.
  intros Hne Hno. destruct (parse_top ts) as [p|c|] eqn:E.
  - apply parse_top_sound in E; auto. destruct E as (e & HD & _). exfalso. eapply Hno; eauto.
  - eauto.
  - exfalso. eapply parse_top_total; eauto.
Qed.

Print Assumptions parse_top_complete.
Print Assumptions parse_top_rejects.
