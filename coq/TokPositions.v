(* C12: every token reports the line and column of its first character; the end-of-input token sits one column
   past the last character.  Generic part (any produce function meeting produce_ok), then the four tokenizers. *)
From Coq Require Import List ZArith Bool Lia.
Import ListNotations.
Require Import Base Cursor ScannerLink Tokenizer TokenizerProofs.
Require Scanner ScannerProofs.
Open Scope Z_scope.

Section Positions.
  Variable M : Type.
  Variable plc : cur -> Z * Z.
  Variable produce : M -> cur -> option (rawtok * cur * M).
  Variable decode : Base.str -> Z -> Base.str.
  Hypothesis Hok : produce_ok M plc produce.

  (* the raw stream cut at offset k: each raw token reports the peeked position of the cursor at its first character *)
  Fixpoint positioned (l : Base.str) (k : nat) (rs : list rawtok) : Prop :=
    match rs with
    | [] => True
    | r :: rs' => pos_of (rtok r) = plc {| content := l; p := k |} /\ positioned l (k + length (value (rtok r))) rs'
    end.

  Lemma cur_eta c : {| content := content c; p := p c |} = c.
  Proof. destruct c; reflexivity. Qed.

  Lemma raw_positioned : forall n m c rs cend, wf_str (content c) -> (p c <= clen c)%nat ->
    raw M produce n m c = Some (rs, cend) -> positioned (content c) (p c) rs.
  Proof.
    induction n as [|n IH]; intros m c rs cend Hwf Hp Hr; cbn [raw] in Hr; [inversion Hr; exact I|].
    destruct (at_end c) eqn:E; [inversion Hr; exact I|].
    destruct (Hok m c Hwf E) as (r & c' & m' & Hpr & Hc & Hpp & Hval & Hpos & _). rewrite Hpr in Hr.
    destruct (raw M produce n m' c') as [[rs' ce]|] eqn:Er; [|discriminate]. inversion Hr; subst rs cend.
    cbn [positioned]. split; [rewrite cur_eta; unfold pos_of; exact Hpos|].
    destruct (Nat.le_gt_cases (p c') (clen c)) as [Hle|Hgt].
    - assert (Hlen: (p c + length (value (rtok r)) = p c')%nat).
      { rewrite Hval. rewrite slice_length; unfold npos, clen in *; rewrite Hc; rewrite Nat.min_l by lia; lia. }
      rewrite Hlen. rewrite <- Hc. apply (IH m' c' rs' ce); [rewrite Hc; exact Hwf|unfold clen in *; rewrite Hc; lia|exact Er].
    - (* the end-of-input slot was consumed: nothing follows *)
      assert (rs' = []).
      { destruct n; cbn [raw] in Er; [inversion Er; reflexivity|].
        assert (Hend: at_end c' = true) by (unfold at_end, clen in *; rewrite Hc; apply Nat.leb_le; lia).
        rewrite Hend in Er. inversion Er. reflexivity. }
      subst rs'. exact I.
  Qed.

  (* the emitted stream keeps, in order, a subsequence of the raw tokens, each with its own position, and at most
     one final end-of-input token at the position e *)
  Inductive aligned (e : Z * Z) : list rawtok -> list token -> Prop :=
  | al_nil : aligned e [] []
  | al_eof : aligned e [] [mk Eof [] e]
  | al_drop r rs ts : aligned e rs ts -> aligned e (r :: rs) ts
  | al_keep r rs t ts : pos_of t = pos_of (rtok r) -> aligned e rs ts -> aligned e (r :: rs) (t :: ts).

  Lemma pos_of_mk t v x : pos_of (mk t v x) = x.
  Proof. destruct x; reflexivity. Qed.

  Lemma post_aligned o e : forall rs last, aligned e rs (post decode o last rs e).
  Proof.
    induction rs as [|r rs IH]; intros last; cbn [post].
    - destruct (negb (ttype_eqb last Eof) && negb (skipEof o)); constructor.
    - repeat match goal with
             | |- context [if ?b then _ else _] => destruct b
             end; try (apply al_drop; apply IH);
      apply al_keep; try apply IH; rewrite ?pos_of_mk; reflexivity.
  Qed.
End Positions.

(* the peeked position of the cursor at offset k is the line/column of character k in a forward scan:
   what a fresh scanner reports after reading k+1 characters *)
Lemma plc_is_forward_scan (s : Base.str) (k : nat) : (k < length s)%nat ->
  cur_plc {| content := s; p := k |} = Scanner.lc s (S k).
Proof.
  intros Hk. rewrite <- (cur_lc_after_read {| content := s; p := k |}) by (unfold clen; cbn; exact Hk).
  unfold cur_lc. unfold read, clen. cbn [content p].
  destruct (Nat.ltb_spec (length s) k); [lia|]. destruct (Nat.ltb_spec k (length s)); [|lia]. reflexivity.
Qed.

(* at the end of input: same line, one column past the last character *)
Lemma plc_at_end (c : cur) : wf_str (content c) -> (clen c <= p c)%nat ->
  cur_plc c = (fst (Scanner.lc (content c) (length (content c))), snd (Scanner.lc (content c) (length (content c))) + 1).
Proof.
  intros Hwf Hp. unfold cur_plc.
  destruct (ScannerProofs.peek_at_end (as_scanner c)) as [Hl Hc]; [cbn; unfold clen in *; lia|exact Hwf|].
  rewrite Hl, Hc. cbn [as_scanner Scanner.line Scanner.col].
  rewrite (ScannerProofs.lc_end (content c) (p c)) by (unfold clen in *; lia). reflexivity.
Qed.
