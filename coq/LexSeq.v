(* C13: a sequence of well-formed lexemes, written so that neighbours cannot merge, is tokenized back into exactly
   those lexemes with exactly those classes - for every configuration of the generic loop whose symbol table is
   built from registrations, hence for the generic and the expression tokenizer. *)
From Coq Require Import List ZArith Bool Lia.
Import ListNotations.
Require Import Base Cursor Trie TrieProofs TrieSpec TrieLongest States StatesProofs Tokenizer TokenizerProofs Instances LexStep LexGrammar.
Require Quote.
Open Scope Z_scope.

Lemma wf_skipn l a : wf_str l -> wf_str (skipn a l).
Proof. intros H. unfold wf_str in *. rewrite <- (firstn_skipn a l) in H. apply Forall_app in H. apply H. Qed.
Lemma wf_app_l (u v : str) : wf_str (u ++ v) -> wf_str u.
Proof. intros H. apply Forall_app in H. apply H. Qed.
Lemma wf_app_r (u v : str) : wf_str (u ++ v) -> wf_str v.
Proof. intros H. apply Forall_app in H. apply H. Qed.
Lemma wf_not_eof s : wf_str s -> Forall (fun c => c <> eof) s.
Proof. intros H. eapply Forall_impl; [|exact H]. intros c Hc. unfold eof. cbv beta in Hc. lia. Qed.

Lemma mantissa_hd t m tl : mantissa t m -> hdz (m ++ tl) <> 45 /\ hdz (m ++ tl) <> eof /\ m <> [].
Proof.
  intros Hm. destruct Hm as [ds Hd Hne|ds fs Hd Hfs Hne].
  - destruct (all_digit_hd ds tl Hd Hne) as (H1 & _ & H3). repeat split; auto.
  - destruct ds as [|d ds].
    + cbn. unfold eof. repeat split; try lia. discriminate.
    + rewrite <- app_assoc. destruct (all_digit_hd (d :: ds) ((46 :: fs) ++ tl) Hd ltac:(discriminate)) as (H1 & _ & H3). repeat split; auto. discriminate.
Qed.

Section Step.
  Variable lc plc : cur -> Z * Z.
  Variable cfg : config.
  Variable regs : list (str * ttype).
  Hypothesis Hsym : symbols cfg = build regs.
  Hypothesis Hregs : Forall valid_reg regs.
  Hypothesis Hnum : Forall (fun r => snd r <> Integer /\ snd r <> Float) regs.
  Hypothesis Hcc : forall ch, Instances.table cfg ch = Some KCComment -> ch = 47.

  Notation sym := (sym lc cfg).
  Notation produce := (produce lc plc cfg).
  Notation lexeme := (lexeme cfg regs).

  (* ---- the symbol state returns the longest registered symbol ---- *)
  Lemma symbol_run l a lx rest : wf_str l -> (a <= length l)%nat -> skipn a l = lx ++ rest -> lx <> [] -> longest regs lx rest ->
    exists tok, sym (cur_at l a) = (tok, cur_at l (a + length lx)) /\ value tok = lx /\ ty tok = symbol_type regs lx.
  Proof.
    intros Hwf Ha Hs Hne [Hreg Hmax]. unfold Instances.sym. rewrite Hsym.
    assert (Hlt: (p (cur_at l a) < clen (cur_at l a))%nat).
    { unfold clen, cur_at. cbn [content p]. destruct lx as [|x lx]; [congruence|]. cbn [app] in Hs. apply skipn_cons_inv in Hs. lia. }
    destruct (symbol_longest lc regs Hregs (cur_at l a) Hwf Hlt) as (H1 & H2 & H3 & H4 & H5 & H6).
    destruct (symbol_slice_strong lc (build regs) (build_first_valid regs Hregs) (cur_at l a) Hwf Hlt) as (Hc & _ & _).
    destruct (symbol_next lc (build regs) (cur_at l a)) as [tok c'] eqn:E. cbn [fst snd content p cur_at] in *.
    rewrite Hs in H1, H5.
    apply is_prefix_spec in H1. destruct H1 as [r1 Hr1].
    assert (Hlen: length (value tok) = length lx).
    { apply Nat.le_antisymm.
      - destruct H4 as [H4|H4].
        + apply Hmax; auto. apply is_prefix_spec. exists r1. exact Hr1.
        + destruct lx; [congruence|]. cbn [length]. lia.
      - destruct Hreg as [Hr|Hr].
        + apply H5; auto. apply is_prefix_spec. exists rest. reflexivity.
        + destruct (value tok); [congruence|]. cbn [length]. lia. }
    assert (Hv: value tok = lx).
    { apply (f_equal (firstn (length lx))) in Hr1. rewrite firstn_app, Nat.sub_diag, firstn_all in Hr1. cbn [firstn] in Hr1. rewrite app_nil_r in Hr1.
      rewrite <- Hlen in Hr1. rewrite firstn_app, Nat.sub_diag, firstn_all in Hr1. cbn [firstn] in Hr1. rewrite app_nil_r in Hr1. symmetry. exact Hr1. }
    exists tok. split; [|split; [exact Hv|]].
    - f_equal. rewrite (cur_at_eta c'). rewrite Hc, H3, Hlen. reflexivity.
    - rewrite H6, Hv. reflexivity.
  Qed.

  Lemma symbol_type_not_number lx : symbol_type regs lx <> Integer /\ symbol_type regs lx <> Float.
  Proof.
    unfold symbol_type. destruct (registered regs lx); [|split; discriminate].
    assert (G: forall rs, Forall (fun r : str * ttype => snd r <> Integer /\ snd r <> Float) rs -> last_type rs lx <> Integer /\ last_type rs lx <> Float).
    { intros rs. induction rs as [|r rs IH] using rev_ind; intros H; [split; discriminate|].
      apply Forall_app in H. destruct H as [H1 H2]. rewrite last_type_app. destruct (str_eqb (fst r) lx); [exact (Forall_inv H2)|apply IH; exact H1]. }
    apply G. exact Hnum.
  Qed.

  (* ---- the number state on  sign ++ mantissa ---- *)
  Lemma number_next_run symbol l a t sg m rest : (a <= length l)%nat -> skipn a l = (sg ++ m) ++ rest ->
    (sg = [] \/ sg = [45]) -> mantissa t m -> after_mantissa t rest ->
    number_next lc symbol (cur_at l a) = (mk t (sg ++ m) (lc (cur_at l (S a))), cur_at l (a + length (sg ++ m))).
  Proof.
    intros Ha Hs Hsg Hm [Hr1 Hr2]. rewrite number_next_unfold. rewrite read_at by exact Ha. rewrite <- app_assoc in Hs.
    assert (Hf: (length l < S (clen (cur_at l a)))%nat) by (unfold clen, cur_at; cbn [content]; lia).
    destruct (mantissa_hd t m rest Hm) as (Hh1 & _ & _).
    assert (Hbody: forall j tok, (j <= length l)%nat -> skipn j l = m ++ rest ->
              number_rest symbol (S (clen (cur_at l a))) (lc (cur_at l (S a))) tok (at_ l j) (cur_at l (S j)) =
              (mk t (tok ++ m) (lc (cur_at l (S a))), cur_at l (j + length m))).
    { intros j tok Hj Hsj. destruct Hm as [ds Hd Hne|ds fs Hd Hfs Hne].
      - apply (number_rest_int symbol l j ds rest); auto.
      - apply (number_rest_float symbol l j ds fs rest); auto. }
    destruct Hsg as [-> | ->]; cbn [app length] in *.
    - rewrite (at_hdz l a _ Hs). destruct (Z.eqb_spec (hdz (m ++ rest)) 45); [contradiction|].
      rewrite <- (at_hdz l a _ Hs). rewrite (Hbody a [] Ha Hs). reflexivity.
    - destruct (skipn_cons_inv _ _ _ _ Hs) as (H1 & H2 & H3). rewrite H2. cbn [Z.eqb Pos.eqb]. rewrite read_at by lia.
      rewrite (Hbody (S a) [45] ltac:(lia) H3). cbn [app]. f_equal. f_equal. lia.
  Qed.

  Lemma produce_of_state k l a tok c' : Instances.table cfg (at_ l a) = Some k -> state_run lc plc cfg k (cur_at l a) = Some (tok, c') -> value tok <> [] ->
    produce Datatypes.tt (cur_at l a) = Some ({| rtok := tok; from_quote := is_quote_kind (Some k); first_char := at_ l a |}, c', Datatypes.tt).
  Proof.
    intros Ht Hr Hv. unfold Instances.produce. rewrite peek_at, Ht, Hr. destruct (value tok); [congruence|reflexivity].
  Qed.

  (* ---- one lexeme, one token ---- *)
  Theorem produce_step t lx rest : lexeme t lx rest -> forall l a, wf_str l -> (a <= length l)%nat -> skipn a l = lx ++ rest ->
    exists r c', produce Datatypes.tt (cur_at l a) = Some (r, c', Datatypes.tt) /\ ty (rtok r) = t /\ value (rtok r) = lx /\ lands c' l (a + length lx) /\
      first_char r = hdz lx /\ from_quote r = is_quote_kind (Instances.table cfg (hdz lx)).
  Proof.
    intros Hlex l a Hwf Ha Hs.
    assert (Hwfs: wf_str (lx ++ rest)) by (rewrite <- Hs; apply wf_skipn; exact Hwf).
    destruct (skipn_app_inv l lx a rest Ha Hs) as [Hrest Hb].
    (* shape shared by all cases: the state at the table entry of the first character returns (tok, c') *)
    assert (Hfin: forall k tok c', Instances.table cfg (at_ l a) = Some k -> state_run lc plc cfg k (cur_at l a) = Some (tok, c') ->
              ty tok = t -> value tok = lx -> lx <> [] -> lands c' l (a + length lx) ->
              exists r c', produce Datatypes.tt (cur_at l a) = Some (r, c', Datatypes.tt) /\ ty (rtok r) = t /\ value (rtok r) = lx /\ lands c' l (a + length lx) /\
      first_char r = hdz lx /\ from_quote r = is_quote_kind (Instances.table cfg (hdz lx))).
    { intros k tok c' Ht Hr Hty Hv Hne Hl. eexists. exists c'. split; [apply (produce_of_state k l a tok c' Ht Hr); rewrite Hv; exact Hne|]. cbn [rtok first_char from_quote].
      assert (Hh: at_ l a = hdz lx) by (rewrite (at_hdz l a _ Hs); destruct lx; [congruence|reflexivity]).
      rewrite <- Hh, Ht. auto. }
    destruct Hlex as [x r rest Hst Hall Hstop | x r rest Hst Hall Hstop | x r rest Hst Hall Hstop
                     | t sg m rest Hsg Hm Hst Haft | t m rest Hm Hst Haft Hexp | t m ex rest Hm Hst Hex Hstop
                     | q body rest Hst Hbody | q body rest Hst Hstop
                     | x r rest Hst Hall Hstop | body rest Hst Hnc
                     | x r rest Hreach Hlong
                     | q body rest Hst Hstop | x rest Hst Hx1 Hx2 | x r rest Hst Hx' Hlong].
    - (* identifier, generic *)
      destruct (skipn_cons_inv _ _ _ _ Hs) as (_ & Hx & _).
      destruct (class_next_run lc (wordchar cfg) Word l a (x :: r) rest Hwf Ha Hs ltac:(discriminate) Hall Hstop) as (c' & Hc & Hl).
      apply (Hfin KWord (mk Word (x :: r) (lc (cur_at l (S a)))) c'); [rewrite Hx; exact Hst|cbn [state_run]; unfold word_next; rewrite Hc; reflexivity|reflexivity|reflexivity|discriminate|exact Hl].
    - (* identifier or keyword, expressions *)
      destruct (skipn_cons_inv _ _ _ _ Hs) as (_ & Hx & _).
      destruct (class_next_run lc (wordchar cfg) Word l a (x :: r) rest Hwf Ha Hs ltac:(discriminate) Hall Hstop) as (c' & Hc & Hl).
      destruct (is_keyword cfg (x :: r)) eqn:Ek.
      + apply (Hfin KExprWord (mk Keyword (x :: r) (plc (cur_at l a))) c'); [rewrite Hx; exact Hst| |reflexivity|reflexivity|discriminate|exact Hl].
        cbn [state_run]. unfold expr_word_next, word_next. rewrite Hc. cbn [value mk]. rewrite Ek. reflexivity.
      + apply (Hfin KExprWord (mk Word (x :: r) (lc (cur_at l (S a)))) c'); [rewrite Hx; exact Hst| |reflexivity|reflexivity|discriminate|exact Hl].
        cbn [state_run]. unfold expr_word_next, word_next. rewrite Hc. cbn [value mk]. rewrite Ek. reflexivity.
    - (* whitespace *)
      destruct (skipn_cons_inv _ _ _ _ Hs) as (_ & Hx & _).
      destruct (class_next_run lc (wschar cfg) Whitespace l a (x :: r) rest Hwf Ha Hs ltac:(discriminate) Hall Hstop) as (c' & Hc & Hl).
      apply (Hfin KWs (mk Whitespace (x :: r) (lc (cur_at l (S a)))) c'); [rewrite Hx; exact Hst|cbn [state_run]; unfold ws_next; rewrite Hc; reflexivity|reflexivity|reflexivity|discriminate|exact Hl].
    - (* number, generic *)
      destruct (mantissa_hd t m rest Hm) as (_ & _ & Hmne).
      assert (Hne: sg ++ m <> []) by (destruct sg; [exact Hmne|discriminate]).
      assert (Hx: at_ l a = hdz (sg ++ m)).
      { rewrite (at_hdz l a _ Hs). destruct (sg ++ m); [congruence|reflexivity]. }
      apply (Hfin KNumber (mk t (sg ++ m) (lc (cur_at l (S a)))) (cur_at l (a + length (sg ++ m)))); [rewrite Hx; exact Hst| |reflexivity|reflexivity|exact Hne|apply lands_at; exact Hb].
      cbn [state_run]. rewrite (number_next_run sym l a t sg m rest Ha Hs Hsg Hm Haft). reflexivity.
    - (* number without exponent, expressions *)
      destruct (mantissa_hd t m rest Hm) as (Hh & _ & Hmne).
      assert (Hx: at_ l a = hdz m).
      { rewrite (at_hdz l a _ Hs). destruct m; [congruence|reflexivity]. }
      assert (Hn45: at_ l a <> 45) by (rewrite (at_hdz l a _ Hs); exact Hh).
      apply (Hfin KExprNumber (mk t m (lc (cur_at l (S a)))) (cur_at l (a + length m))); [rewrite Hx; exact Hst| |reflexivity|reflexivity|exact Hmne|apply lands_at; exact Hb].
      cbn [state_run]. rewrite (expr_number_plain lc plc sym l a (a + length m) (mk t m (lc (cur_at l (S a)))) Ha Hb Hn45); [reflexivity| | |rewrite Hrest; exact Hexp].
      + exact (number_next_run sym l a t [] m rest Ha Hs (or_introl eq_refl) Hm Haft).
      + destruct Hm; [left|right]; reflexivity.
    - (* scientific notation, expressions *)
      destruct (mantissa_hd t m (ex ++ rest) Hm) as (Hh & _ & Hmne). rewrite <- app_assoc in Hs.
      assert (Hx: at_ l a = hdz m).
      { rewrite (at_hdz l a _ Hs). destruct m; [congruence|reflexivity]. }
      assert (Hn45: at_ l a <> 45) by (rewrite (at_hdz l a _ Hs); exact Hh).
      destruct (skipn_app_inv l m a (ex ++ rest) Ha Hs) as [Hs2 Hb2].
      destruct Hex as [e0 sgn es He Hsgn Hes Hene].
      assert (Haft: after_mantissa t ((e0 :: sgn ++ es) ++ rest)).
      { cbn [app hdz nth]. unfold is_e in He. split.
        - apply orb_prop in He. destruct He as [E|E]; apply Z.eqb_eq in E; subst e0; reflexivity.
        - intros _. apply orb_prop in He. destruct He as [E|E]; apply Z.eqb_eq in E; subst e0; discriminate. }
      apply (Hfin KExprNumber (mk Float (m ++ e0 :: sgn ++ es) (plc (cur_at l a))) (cur_at l (a + length m + length (e0 :: sgn ++ es)))); [rewrite Hx; exact Hst| |reflexivity|reflexivity| |].
      + cbn [state_run]. rewrite (expr_number_exp lc plc sym l a (a + length m) (mk t m (lc (cur_at l (S a)))) e0 sgn es rest Ha Hb2 Hn45); auto.
        * exact (number_next_run sym l a t [] m _ Ha Hs (or_introl eq_refl) Hm Haft).
        * destruct Hm; [left|right]; reflexivity.
      + destruct m; [congruence|discriminate].
      + rewrite app_length in *. rewrite <- Nat.add_assoc. apply lands_at. exact Hb.
    - (* quoted string, generic *)
      destruct (skipn_cons_inv _ _ _ _ Hs) as (_ & Hx & _).
      assert (Hq: q <> eof) by (pose proof (Forall_inv (wf_not_eof _ Hwfs)) as H; exact H).
      assert (Hbd: Forall (fun c => c <> q /\ c <> eof) body).
      { cbn [app] in Hwfs. apply wf_not_eof in Hwfs. apply Forall_inv_tail in Hwfs. rewrite <- app_assoc in Hwfs. apply Forall_app in Hwfs. destruct Hwfs as [H1 _].
        rewrite Forall_forall in *. intros c Hc. split; [apply Hbody|apply H1]; exact Hc. }
      apply (Hfin KQuote (mk Quoted (q :: body ++ [q]) (lc (cur_at l (S a)))) (cur_at l (a + length (q :: body ++ [q])))); [rewrite Hx; exact Hst| |reflexivity|reflexivity|discriminate|apply lands_at; exact Hb].
      cbn [state_run]. rewrite (gquote_next_run lc l a q body rest Ha Hs Hbd Hq). reflexivity.
    - (* quoted string, expressions *)
      unfold Quote.encode in *.
      destruct (skipn_cons_inv _ _ _ _ Hs) as (_ & Hx & _).
      assert (Hq: q <> eof) by (pose proof (Forall_inv (wf_not_eof _ Hwfs)) as H; exact H).
      assert (Hbd: Forall (fun c => c <> eof) body).
      { cbn [app] in Hwfs. apply wf_not_eof in Hwfs. apply Forall_inv_tail in Hwfs. rewrite <- app_assoc in Hwfs. apply Forall_app in Hwfs. destruct Hwfs as [H1 _].
        rewrite Forall_forall in *. intros c Hc. destruct (Z.eq_dec c q) as [->|Hn]; [exact Hq|]. apply H1. apply in_double; assumption. }
      apply (Hfin KExprQuote (mk (if q =? 34 then Word else Quoted) (Quote.encode q body) (lc (cur_at l (S a)))) (cur_at l (a + length (Quote.encode q body))));
        [rewrite Hx; exact Hst| |reflexivity|reflexivity|discriminate|apply lands_at; exact Hb].
      cbn [state_run]. unfold expr_quote_next. rewrite (dquote_next_run lc _ l a q body rest Ha Hs Hbd Hq Hstop). reflexivity.
    - (* line comment *)
      destruct (skipn_cons_inv _ _ _ _ Hs) as (_ & Hx & _).
      destruct (class_next_run lc not_eol Comment l a (x :: r) rest Hwf Ha Hs ltac:(discriminate) Hall Hstop) as (c' & Hc & Hl).
      apply (Hfin KHashComment (mk Comment (x :: r) (lc (cur_at l (S a)))) c'); [rewrite Hx; exact Hst|cbn [state_run]; unfold hash_comment_next; fold not_eol; rewrite Hc; reflexivity|reflexivity|reflexivity|discriminate|exact Hl].
    - (* block comment *)
      destruct (skipn_cons_inv _ _ _ _ Hs) as (_ & Hx & _).
      assert (Hbd: Forall (fun c => c <> eof) body).
      { cbn [app] in Hwfs. apply wf_not_eof in Hwfs. apply Forall_inv_tail in Hwfs. apply Forall_inv_tail in Hwfs. rewrite <- app_assoc in Hwfs. apply Forall_app in Hwfs. apply Hwfs. }
      apply (Hfin KCComment (mk Comment ([47; 42] ++ body ++ [42; 47]) (lc (cur_at l (S a)))) (cur_at l (a + length ([47; 42] ++ body ++ [42; 47]))));
        [rewrite Hx; exact Hst| |reflexivity|reflexivity|discriminate|apply lands_at; exact Hb].
      cbn [state_run]. apply (c_comment_run lc sym l a body rest Ha Hs Hnc Hbd).
    - (* symbol *)
      destruct (skipn_cons_inv _ _ _ _ Hs) as (Hlt & Hx & Hs1). change (skipn (S a) l = r ++ rest) in Hs1.
      destruct (symbol_run l a (x :: r) rest Hwf Ha Hs ltac:(discriminate) Hlong) as (tok & Hsy & Hv & Hty).
      destruct (symbol_type_not_number (x :: r)) as [Hn1 Hn2].
      assert (Hf: (length l < S (clen (cur_at l a)))%nat) by (unfold clen, cur_at; cbn [content]; lia).
      destruct Hreach as [Hst | [[Hst E] | [[Hst Hnext] | [[Hst [E Hnext]] | (Hst & E & Hn1' & Hn2')]]]]; try (rewrite E in *; clear E).
      + apply (Hfin KSymbol tok (cur_at l (a + length (x :: r)))); [rewrite Hx; exact Hst|cbn [state_run]; rewrite Hsy; reflexivity|exact Hty|exact Hv|discriminate|apply lands_at; exact Hb].
      + apply (Hfin KExprNumber tok (cur_at l (a + length (45 :: r)))); [rewrite Hx; exact Hst| |exact Hty|exact Hv|discriminate|apply lands_at; exact Hb].
        cbn [state_run]. rewrite (expr_number_sign lc plc sym l a Hx). rewrite Hsy. reflexivity.
      + pose proof (Hcc x Hst) as E. rewrite E in *; clear E.
        apply (Hfin KCComment tok (cur_at l (a + length (47 :: r)))); [rewrite Hx; exact Hst| |exact Hty|exact Hv|discriminate|apply lands_at; exact Hb].
        cbn [state_run]. rewrite (c_comment_not lc sym l a (r ++ rest) Ha Hs Hnext). rewrite Hsy. reflexivity.
      + (* a dot that no digit follows *)
        assert (Hnn: number_next lc sym (cur_at l a) = (tok, cur_at l (a + length (46 :: r)))).
        { rewrite number_next_unfold. rewrite read_at by exact Ha. rewrite Hx. cbn [Z.eqb Pos.eqb]. rewrite <- Hx.
          rewrite (number_rest_none_dot sym l a (r ++ rest) _ _ [] a Ha Hs Hnext Hf) by (cbn [length]; lia). exact Hsy. }
        destruct Hst as [Hst|Hst].
        * apply (Hfin KNumber tok (cur_at l (a + length (46 :: r)))); [rewrite Hx; exact Hst|cbn [state_run]; rewrite Hnn; reflexivity|exact Hty|exact Hv|discriminate|apply lands_at; exact Hb].
        * apply (Hfin KExprNumber tok (cur_at l (a + length (46 :: r)))); [rewrite Hx; exact Hst| |exact Hty|exact Hv|discriminate|apply lands_at; exact Hb].
          cbn [state_run]. rewrite (expr_number_other lc plc sym l a (tok, cur_at l (a + length (46 :: r)))); [reflexivity|rewrite Hx; discriminate|exact Hnn| |]; cbn [fst]; rewrite Hty; assumption.
      + (* a generic sign that no number follows *)
        apply (Hfin KNumber tok (cur_at l (a + length (45 :: r)))); [rewrite Hx; exact Hst| |exact Hty|exact Hv|discriminate|apply lands_at; exact Hb].
        cbn [state_run]. rewrite number_next_unfold. rewrite read_at by exact Ha. rewrite Hx. cbn [Z.eqb Pos.eqb]. rewrite read_at by lia.
        destruct (Z.eq_dec (hdz (r ++ rest)) 46) as [E46|E46].
        * assert (Hrr: r ++ rest = 46 :: tl (r ++ rest)) by (apply hdz_cons; [exact E46|unfold eof; lia]).
          rewrite Hrr in Hs1.
          rewrite (number_rest_none_dot sym l (S a) (tl (r ++ rest)) _ _ [45] a ltac:(lia) Hs1 (Hn2' E46) Hf) by (cbn [length]; lia). rewrite Hsy. reflexivity.
        * rewrite (number_rest_none sym l (S a) (r ++ rest) _ _ [45] a ltac:(lia) Hs1 Hn1' E46 Hf) by (cbn [length]; lia). rewrite Hsy. reflexivity.
    - (* quoted field, CSV *)
      unfold Quote.encode in *.
      destruct (skipn_cons_inv _ _ _ _ Hs) as (_ & Hx & _).
      assert (Hq: q <> eof) by (pose proof (Forall_inv (wf_not_eof _ Hwfs)) as H; exact H).
      assert (Hbd: Forall (fun c => c <> eof) body).
      { cbn [app] in Hwfs. apply wf_not_eof in Hwfs. apply Forall_inv_tail in Hwfs. rewrite <- app_assoc in Hwfs. apply Forall_app in Hwfs. destruct Hwfs as [H1 _].
        rewrite Forall_forall in *. intros c Hc. destruct (Z.eq_dec c q) as [->|Hn]; [exact Hq|]. apply H1. apply in_double; assumption. }
      apply (Hfin KCsvQuote (mk Quoted (q :: Quote.double q body ++ [q]) (lc (cur_at l (S a)))) (cur_at l (a + length (q :: Quote.double q body ++ [q]))));
        [rewrite Hx; exact Hst| |reflexivity|reflexivity|discriminate|apply lands_at; exact Hb].
      cbn [state_run]. unfold csv_quote_next. rewrite (dquote_next_run lc _ l a q body rest Ha Hs Hbd Hq Hstop). reflexivity.
    - (* separator, CSV *)
      destruct (skipn_cons_inv _ _ _ _ Hs) as (_ & Hx & _).
      apply (Hfin KCsvSymbol (mk Symbol [x] (lc (cur_at l (S a)))) (cur_at l (S a))); [rewrite Hx; exact Hst| |reflexivity|reflexivity|discriminate|].
      + cbn [state_run]. rewrite (csv_separator_run lc sym l a x rest Ha Hs Hx1 Hx2). reflexivity.
      + cbn [length] in *. replace (a + 1)%nat with (S a) in * by lia. apply lands_at. exact Hb.
    - (* line break, CSV *)
      destruct (skipn_cons_inv _ _ _ _ Hs) as (_ & Hx & _).
      destruct (symbol_run l a (x :: r) rest Hwf Ha Hs ltac:(discriminate) Hlong) as (tok & Hsy & Hv & Hty).
      apply (Hfin KCsvSymbol tok (cur_at l (a + length (x :: r)))); [rewrite Hx; exact Hst| |exact Hty|exact Hv|discriminate|apply lands_at; exact Hb].
      cbn [state_run]. rewrite (csv_eol_run lc sym l a x (r ++ rest) Ha Hs Hx'). rewrite Hsy. reflexivity.
  Qed.
End Step.

Section Seq.
  Variable lc plc : cur -> Z * Z.
  Variable decode : str -> Z -> str.
  Variable cfg : config.
  Variable regs : list (str * ttype).
  Hypothesis Hlc : forall s, (p s < clen s)%nat -> lc (snd (read s)) = plc s.
  Hypothesis Hcfg : cfg_ok cfg.
  Hypothesis Htypes : types_ok cfg.
  Hypothesis Hsym : symbols cfg = build regs.
  Hypothesis Hregs : Forall valid_reg regs.
  Hypothesis Hnum : Forall (fun r => snd r <> Integer /\ snd r <> Float) regs.

  Notation produce := (produce lc plc cfg).
  Notation lexeme := (lexeme cfg regs).
  Notation lexemes := (lexemes cfg regs).

  Lemma lexeme_nonempty t lx rest : lexeme t lx rest -> lx <> [].
  Proof.
    intros H. destruct H as [| | |t sg m rest Hsg Hm| t m rest Hm | t m ex rest Hm| | | | | | | |]; try discriminate.
    - destruct (mantissa_hd t m [] Hm) as (_ & _ & Hne). destruct sg; [exact Hne|discriminate].
    - exact (proj2 (proj2 (mantissa_hd t m [] Hm))).
    - destruct (mantissa_hd t m [] Hm) as (_ & _ & Hne). destruct m; [congruence|discriminate].
  Qed.

  Lemma lexemes_empty ls : lexemes ls -> concat (map snd ls) = [] -> ls = [].
  Proof.
    destruct ls as [|[t lx] ls]; [reflexivity|]. cbn [LexGrammar.lexemes map concat snd]. intros [H _] E.
    apply lexeme_nonempty in H. destruct lx; [congruence|discriminate].
  Qed.

  Lemma raw_lexemes : forall ls l a n, wf_str l -> (a <= length l)%nat -> skipn a l = concat (map snd ls) -> lexemes ls -> (length l - a < n)%nat ->
    exists rs cend, raw unit produce n Datatypes.tt (cur_at l a) = Some (rs, cend) /\ map (fun r => (ty (rtok r), value (rtok r))) rs = ls /\
      Forall (fun r => first_char r = hdz (value (rtok r)) /\ from_quote r = is_quote_kind (Instances.table cfg (hdz (value (rtok r))))) rs.
  Proof.
    induction ls as [|[t lx] ls IH]; intros l a n Hwf Ha Hs Hls Hn; (destruct n as [|n]; [lia|]); cbn [raw].
    - assert (Hend: at_end (cur_at l a) = true).
      { unfold at_end, clen, cur_at. cbn [content p]. apply Nat.leb_le. apply (f_equal (@length Z)) in Hs. rewrite skipn_length in Hs. cbn in Hs. lia. }
      rewrite Hend. eexists. eexists. split; [reflexivity|]. split; [reflexivity|constructor].
    - cbn [LexGrammar.lexemes map concat snd] in Hls, Hs. destruct Hls as [Hlx Hrest].
      pose proof (lexeme_nonempty _ _ _ Hlx) as Hne.
      destruct (skipn_app_inv l lx a _ Ha Hs) as [Hs2 Hb].
      assert (Hlen: (1 <= length lx)%nat) by (destruct lx; [congruence|]; cbn [length]; lia).
      assert (Hlt: (a < length l)%nat) by lia.
      assert (Hend: at_end (cur_at l a) = false) by (unfold at_end, clen, cur_at; cbn [content p]; apply Nat.leb_gt; exact Hlt).
      rewrite Hend.
      destruct (produce_step lc plc cfg regs Hsym Hregs Hnum (proj2 (proj2 (proj2 Hcfg))) t lx _ Hlx l a Hwf Ha Hs) as (r & c' & Hp & Hty & Hv & Hl & Hfc & Hfq).
      rewrite Hp.
      destruct (Nat.lt_ge_cases (a + length lx) (length l)) as [Hin|Hout].
      + rewrite (lands_inside c' l _ Hl Hin).
        destruct (IH l (a + length lx)%nat n Hwf Hb Hs2 Hrest ltac:(lia)) as (rs & cend & Hr & Hm & Hq). rewrite Hr.
        eexists. eexists. split; [reflexivity|]. cbn [map]. rewrite Hty, Hv, Hm. split; [reflexivity|]. constructor; [rewrite Hv; auto|exact Hq].
      + assert (Hnil: ls = []).
        { apply lexemes_empty; [exact Hrest|]. etransitivity; [symmetry; exact Hs2|apply skipn_all2; exact Hout]. }
        subst ls. destruct n as [|n]; [lia|]. cbn [raw]. rewrite (lands_end c' l _ Hl Hout).
        eexists. eexists. split; [reflexivity|]. cbn [map]. rewrite Hty, Hv. split; [reflexivity|]. constructor; [rewrite Hv; auto|constructor].
  Qed.

  (* C13 for a configuration *)
  Theorem lexemes_tokenize ls : wf_str (concat (map snd ls)) -> lexemes ls ->
    exists ts, tokenize_cfg lc plc decode cfg no_options (concat (map snd ls)) = Ok ts /\
               map (fun t => (ty t, value t)) ts = ls ++ [(Eof, [])].
  Proof.
    intros Hwf Hls. set (s := concat (map snd ls)) in *.
    pose proof (produce_meets_spec lc plc cfg Hlc Hcfg Htypes) as Hok.
    destruct (cfg_options_are_post lc plc decode Hlc cfg Hcfg Htypes no_options s Hwf) as (rs & cend & Hr & Ht).
    destruct (raw_lexemes ls s 0%nat (S (length s)) Hwf ltac:(lia) eq_refl Hls ltac:(lia)) as (rs' & cend' & Hr' & Hm & _).
    change (cur_at s 0) with {| content := s; p := 0 |} in Hr'. rewrite Hr in Hr'. inversion Hr'; subst rs' cend'.
    destruct (raw_concat unit plc produce Hok (S (length s)) Datatypes.tt {| content := s; p := 0 |} rs cend Hwf ltac:(cbn; lia) ltac:(unfold remaining, clen; cbn; lia) Hr) as [_ Hne].
    rewrite Ht. eexists. split; [reflexivity|].
    rewrite post_no_options; [|discriminate|eapply Forall_impl; [|exact Hne]; intros x [_ H]; exact H].
    rewrite map_app, map_map. cbn [map mk ty value]. rewrite Hm. reflexivity.
  Qed.

  (* the same with any options: the stream is the post-processing of one raw token per lexeme; a raw token is marked
     as coming from the quote state exactly when the character table hands its first character to a quote state *)
  Theorem lexemes_tokenize_options ls : wf_str (concat (map snd ls)) -> lexemes ls ->
    exists rs e, (forall o, tokenize_cfg lc plc decode cfg o (concat (map snd ls)) = Ok (post decode o Unknown rs e)) /\
      map (fun r => (ty (rtok r), value (rtok r))) rs = ls /\
      Forall (fun r => first_char r = hdz (value (rtok r)) /\ from_quote r = is_quote_kind (Instances.table cfg (hdz (value (rtok r))))) rs /\
      Forall (fun r => ty (rtok r) <> Eof) rs.
  Proof.
    intros Hwf Hls. set (s := concat (map snd ls)) in *.
    pose proof (produce_meets_spec lc plc cfg Hlc Hcfg Htypes) as Hok.
    destruct (raw_lexemes ls s 0%nat (S (length s)) Hwf ltac:(lia) eq_refl Hls ltac:(lia)) as (rs & cend & Hr & Hm & Hq).
    change (cur_at s 0) with {| content := s; p := 0 |} in Hr.
    destruct (raw_concat unit plc produce Hok (S (length s)) Datatypes.tt {| content := s; p := 0 |} rs cend Hwf ltac:(cbn; lia) ltac:(unfold remaining, clen; cbn; lia) Hr) as [_ Hne].
    exists rs, (plc cend). split; [|split; [exact Hm|split; [exact Hq|]]].
    - intros o. destruct (cfg_options_are_post lc plc decode Hlc cfg Hcfg Htypes o s Hwf) as (rs' & cend' & Hr' & Ht).
      rewrite Hr in Hr'. inversion Hr'; subst rs' cend'. exact Ht.
    - eapply Forall_impl; [|exact Hne]. intros x [_ H]. exact H.
  Qed.
End Seq.

Print Assumptions lexemes_tokenize.
