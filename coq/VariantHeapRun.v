(* C20: what the correspondence runs on the heap machine is, for every disciplined history, what it runs on the value
   machine - the two executable models of RunC20.v agree observation by observation. *)
From Coq Require Import List ZArith Bool Lia.
Import ListNotations.
Require Import Sx VariantValue VariantValueProofs VariantHeap VariantHeapProofs RunC20.
Open Scope Z_scope.

Lemma dec_hop_erase s : erase (dec_hop s) = dec_op20 s.
Proof. unfold dec_hop, dec_op20. destruct (gz (nth_sx 0 s)) as [|p|p]; try reflexivity. do 4 (destruct p as [p|p|]; try reflexivity). Qed.

Lemma lists20_ok : Forall (fun p : list val * nat => (snd p <= length (fst p))%nat) lists20.
Proof. repeat constructor; cbn; lia. Qed.

Theorem heap_run_is_value_run slack : forall ops m lk v, inv m lk -> rel m v -> disc (length (hregs m)) (length (hlists m)) lk ops = true ->
  hrun20 slack m ops = run20 v (map erase ops).
Proof.
  induction ops as [|o ops IH]; intros m lk v Hinv Hrel Hd; [reflexivity|]. cbn [disc] in Hd. apply andb_prop in Hd. destruct Hd as [Ha Hd].
  destruct (hstep_refines slack m lk v o Hinv Hrel Ha) as [Hinv' Hrel']. cbn [hrun20 run20 map]. rewrite (rel_abs _ _ Hrel'). f_equal.
  apply (IH _ (lk_next lk o) _ Hinv' Hrel'). destruct (hstep_lengths slack m o) as [-> ->]. exact Hd.
Qed.

(* from the initial machine of the harness, whatever spare capacity append leaves *)
Theorem heap_model_is_value_model slack ops : disc 4 2 (fun _ => false) ops = true ->
  hrun20 slack (hinit 4 lists20) ops = run20 (vinit 4 lists20) (map erase ops).
Proof.
  intros Hd. destruct (hinit_ok 4 lists20 lists20_ok) as [Hinv Hrel]. exact (heap_run_is_value_run slack ops _ _ _ Hinv Hrel Hd).
Qed.

(* ---- the statements of the property, on the heap machine ---- *)
Lemma disc_app nr nl : forall a lk b, disc nr nl lk (a ++ b) = true -> disc nr nl lk a = true.
Proof.
  induction a as [|o a IH]; intros lk b H; [reflexivity|]. cbn [app disc] in *. apply andb_prop in H. destruct H as [H1 H2].
  rewrite H1. exact (IH _ _ H2).
Qed.

(* mutating a clone never changes the original: on the heap, after v[c] was made a copy of v[i] (by whichever API), no
   disciplined continuation that does not name v[i] as its target changes what v[i] holds *)
Theorem heap_clone_isolated slack nr ls pre c i fl ops : Forall (fun p => (snd p <= length (fst p))%nat) ls ->
  c <> i -> Forall (fun o => target (erase o) <> Some i) ops ->
  disc nr (length ls) (fun _ => false) (pre ++ HCopy c i fl :: ops) = true ->
  reg (abs (fold_left (hstep slack) (pre ++ HCopy c i fl :: ops) (hinit nr ls))) i = reg (abs (fold_left (hstep slack) pre (hinit nr ls))) i.
Proof.
  intros Hls Hci Hf Hd. rewrite (heap_history_is_value_history slack _ nr ls Hls Hd).
  rewrite (heap_history_is_value_history slack pre nr ls Hls (disc_app _ _ _ _ _ Hd)).
  rewrite map_app, fold_left_app. cbn [map fold_left erase]. apply clone_isolated; [exact Hci|].
  clear - Hf. induction Hf as [|o ops H _ IH]; constructor; assumption.
Qed.

(* own copy: after v[i] was built from the caller's list l[k], no writes, appends or truncations of the caller's lists
   - which reuse the caller's backing arrays and their spare capacity - change what v[i] holds *)
Theorem heap_own_copy slack nr ls pre i k inplace ops : Forall (fun p => (snd p <= length (fst p))%nat) ls ->
  Forall (fun o => list_op (erase o) = true) ops ->
  disc nr (length ls) (fun _ => false) (pre ++ HFromList i k inplace :: ops) = true ->
  reg (abs (fold_left (hstep slack) (pre ++ HFromList i k inplace :: ops) (hinit nr ls))) i =
  reg (abs (fold_left (hstep slack) (pre ++ [HFromList i k inplace]) (hinit nr ls))) i.
Proof.
  intros Hls Hf Hd. rewrite (heap_history_is_value_history slack _ nr ls Hls Hd).
  assert (Hd': disc nr (length ls) (fun _ => false) (pre ++ [HFromList i k inplace]) = true).
  { apply (disc_app _ _ _ _ ops). rewrite <- app_assoc. exact Hd. }
  rewrite (heap_history_is_value_history slack _ nr ls Hls Hd').
  rewrite !map_app, !fold_left_app. cbn [map fold_left erase]. apply own_copy.
  clear - Hf. induction Hf as [|o ops H _ IH]; constructor; assumption.
Qed.

(* the discipline is what makes it true: a handle that shares its list by Assign and is then written in place changes
   the other handle on the heap machine and not on the value machine *)
Example undisciplined_history_differs :
  let ops := [HListAppend 0 (Int 1); HFromList 0 0 false; HCopy 1 0 2; HSetByIndex 0 0 (Int 7)] in
  disc 4 2 (fun _ => false) ops = false /\
  hrun20 (fun _ => O) (hinit 4 lists20) ops <> run20 (vinit 4 lists20) (map erase ops).
Proof. split; [reflexivity|]. vm_compute. discriminate. Qed.

Example disciplined_sample :
  let ops := [HListAppend 0 (Int 1); HListAppend 0 (Int 2); HFromList 0 0 false; HCopy 1 0 2; HListWrite 0 0 (Int 9); HCopy 2 0 0;
              HSetByIndex 2 5 (Str [97]); HNew 1 (Int 3) true; HSetLength 2 9; HListTruncate 0; HListAppend 0 (Int 4); HSetElem 2 3 (Int 8)] in
  disc 4 2 (fun _ => false) ops = true.
Proof. reflexivity. Qed.
