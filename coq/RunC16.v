(* Executable glue for C16: one symbol table, many inputs.
   input  = L [regs; inputs]   reg = L [symbol; I type]   (registration order = list order)
   output = L [L [I type; value; I remaining] ...]        one entry per input, all read through the same table *)
From Coq Require Import List ZArith Bool.
Import ListNotations.
Require Import Sx Base Cursor Trie.
Open Scope Z_scope.

Definition dec_reg (s : sx) : str * ttype := (gstr (nth_sx 0 s), ttype_of_code (gz (nth_sx 1 s))).

Definition run_symbol (t : trie) (input : str) : sx :=
  let s0 := {| content := input; p := 0 |} in
  let '(tok, s1) := symbol_next (fun _ => (0, 0)) t s0 in
  L [I (ttype_code (ty tok)); estr (value tok); enat (clen s1 - p s1)].

Definition model_C16 (input : sx) : sx :=
  let t := build (map dec_reg (gl (nth_sx 0 input))) in
  L (map (fun i => run_symbol t (gstr i)) (gl (nth_sx 1 input))).
