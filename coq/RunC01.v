(* Executable glue for C01: parse, then run the stack machine of ExpressionCalculator with SYMBOLIC operators.
   The harness installs a recording operations manager and a recording function collection, so the value the
   implementation returns is the application tree it evaluated; the same tree is computed here.
   values: L [I 0; I vtype; payload]            a constant / variable value (leaf)
           L [I 2; I optype; v1; v2] / L [I 2; I optype; v]   an operator application, operands as the manager received them
           L [I 3; name; arg ...]               a function call with its arguments in order
   input  = L [text; tokens; env; tree]   env = L [L [name; value] ...]
   output = L [I 0; value] | L [I 1; I code]   code 1..7 syntax (see RunC02), 20 VAR_NOT_FOUND, 21 FUNC_NOT_FOUND, 22 INTERNAL *)
From Coq Require Import List ZArith Bool.
Import ListNotations.
Require Import Sx Tables ExprParser ExprLex ExprEval RunC02.
Open Scope Z_scope.

Section Sym.
  Variable toks : list sx.
  Variable env : list sx.

  Definition s_const (i : Z) : sx := let '(t, p) := const_payload toks i in L [I 0; t; p].
  Fixpoint env_find (e : list sx) (n : list Z) : option sx :=
    match e with [] => None | b :: r => if zs_eqb (gstr (nth_sx 0 b)) n then Some (nth_sx 1 b) else env_find r n end.
  Definition s_var (i : Z) : outcome sx :=
    match env_find env (gstr (name_of toks i)) with Some v => Val v | None => Fail 20 end.
  Definition is_null (v : sx) : bool := sx_eqb v (L [I 0; I vt_Null; L []]).
  Definition s_bool (b : bool) : sx := L [I 0; I vt_Boolean; I (if b then 1 else 0)].
  Definition s_bin (o : binop) (v1 v2 : sx) : outcome sx :=
    match o with
    | OIn | ONotIn => Val (L [I 2; I et_In; v2; v1])       (* In(value2, value1); a non-Boolean result is not negated *)
    | OLike | ONotLike => Fail 22                          (* no evaluator: INTERNAL *)
    | _ => Val (L [I 2; I (binop_code o); v1; v2])
    end.
  Definition s_un (o : unop) (v : sx) : outcome sx :=
    match o with
    | UIsNull => Val (s_bool (is_null v))
    | UIsNotNull => Val (s_bool (negb (is_null v)))
    | _ => Val (L [I 2; I (unop_code o); v])
    end.
  (* the recording function collection knows every name except those starting with "nf" *)
  Definition s_call (i : Z) (args : list sx) : outcome sx :=
    let n := name_of toks i in
    match gstr n with
    | 110 :: 102 :: _ => Fail 21
    | _ => Val (L (I 3 :: n :: args))
    end.
  Definition s_int (k : nat) : sx := L [I 0; I vt_Integer; enat k].
  Definition s_as_nat (v : sx) : option nat :=
    match v with L [I 0; I t; I k] => if (t =? vt_Integer) && (0 <=? k) then Some (Z.to_nat k) else None | _ => None end.

  Definition s_run (prog : list rinstr) : outcome sx := run sx s_const s_var s_bin s_un s_call s_int s_as_nat prog [].
End Sym.

Definition model_C01 (input : sx) : sx :=
  let toks := gl (nth_sx 1 input) in
  let env := gl (nth_sx 2 input) in
  match parse_tokens toks with
  | inr _ => L [I 1; I 1]
  | inl (Err e) => L [I 1; I (perr_code e)]
  | inl Fuel => L [I 1; I 9]
  | inl (Ok prog) =>
      match s_run toks env prog with
      | Val v => L [I 0; v]
      | Fail 0 => L [I 1; I 22]
      | Fail c => L [I 1; I (Z.of_nat c)]
      | Panic => L [I (-999)]
      end
  end.
