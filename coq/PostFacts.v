(* What the specification-side post-processing `post` guarantees for each of the seven options (C15 corollaries). *)
From Coq Require Import List ZArith Bool Lia.
Import ListNotations.
Require Import Base Cursor Tokenizer.
Open Scope Z_scope.

Section PostFacts.
  Variable decode : Base.str -> Z -> Base.str.
  Notation post := (post decode).

  Ltac step IH :=
    cbn [Tokenizer.post];
    repeat match goal with |- context [if ?b then _ else _] => let E := fresh "E" in destruct b eqn:E end;
    try (apply IH); try constructor; try (apply IH); cbn [ty mk value].

  Lemma ttype_neq a b : ttype_eqb a b = false -> a <> b.
  Proof. intros H E. subst. unfold ttype_eqb in H. rewrite Z.eqb_refl in H. discriminate. Qed.

  Lemma andb_f a b : a && b = false -> b = true -> a = false.
  Proof. destruct a, b; auto; discriminate. Qed.

  (* skipUnknown: no Unknown token survives *)
  Lemma post_no_unknown o e : skipUnknown o = true -> forall rs last, Forall (fun t => ty t <> Unknown) (post o last rs e).
  Proof.
    intros Ho. induction rs as [|r rs IH]; intros last; cbn [Tokenizer.post].
    - destruct (_ && _); repeat constructor; discriminate.
    - rewrite Ho. rewrite andb_true_r. destruct (ttype_eqb (ty (rtok r)) Unknown) eqn:Eu; [apply IH|]. apply ttype_neq in Eu.
      repeat match goal with |- context [if ?b then _ else _] => destruct b end; try apply IH; constructor; try apply IH; cbn [ty mk]; try exact Eu; discriminate.
  Qed.

  (* skipComments: no Comment token survives *)
  Lemma post_no_comment o e : skipComments o = true -> forall rs last, Forall (fun t => ty t <> Comment) (post o last rs e).
  Proof.
    intros Ho. induction rs as [|r rs IH]; intros last; cbn [Tokenizer.post].
    - destruct (_ && _); repeat constructor; discriminate.
    - rewrite Ho.
      destruct (ttype_eqb (ty (rtok r)) Unknown && skipUnknown o); [apply IH|].
      destruct (from_quote r && decodeStrings o); cbn [ty mk]; rewrite andb_true_r;
        (destruct (ttype_eqb (ty (rtok r)) Comment) eqn:Ec; [apply IH|]); apply ttype_neq in Ec;
        repeat match goal with |- context [if ?b then _ else _] => destruct b end; try apply IH; constructor; try apply IH; cbn [ty mk]; try exact Ec; discriminate.
  Qed.

  (* skipEof: no end-of-input token (raw tokens are never Eof) *)
  Lemma post_no_eof o e : skipEof o = true -> forall rs last, Forall (fun r => ty (rtok r) <> Eof) rs -> Forall (fun t => ty t <> Eof) (post o last rs e).
  Proof.
    intros Ho. induction rs as [|r rs IH]; intros last Hf; cbn [Tokenizer.post].
    - rewrite Ho. rewrite andb_false_r. constructor.
    - inversion Hf as [|? ? Hr Hrs]; subst.
      repeat match goal with |- context [if ?b then _ else _] => destruct b end; try (apply IH; exact Hrs); constructor; try (apply IH; exact Hrs); cbn [ty mk]; try exact Hr; discriminate.
  Qed.

  (* mergeWhitespaces: every whitespace token is a single space *)
  Lemma post_ws_single o e : mergeWhitespaces o = true -> forall rs last, Forall (fun t => ty t = Whitespace -> value t = [32]) (post o last rs e).
  Proof.
    intros Ho. induction rs as [|r rs IH]; intros last; cbn [Tokenizer.post].
    - destruct (_ && _); repeat constructor. cbn. discriminate.
    - rewrite Ho.
      repeat match goal with |- context [if ?b then _ else _] => let E := fresh "E" in destruct b eqn:E end; try apply IH; constructor; try apply IH; cbn [ty mk value]; intros Hw; try reflexivity; try discriminate;
        exfalso; repeat match goal with H : _ && true = false |- _ => rewrite andb_true_r in H end;
        match goal with H : ttype_eqb ?t Whitespace = false |- _ => apply ttype_neq in H; apply H; exact Hw end.
  Qed.

  (* unifyNumbers: no Integer / Float / HexDecimal token remains *)
  Lemma post_unified o e : unifyNumbers o = true -> forall rs last, Forall (fun t => is_numeric (ty t) = false) (post o last rs e).
  Proof.
    intros Ho. induction rs as [|r rs IH]; intros last; cbn [Tokenizer.post].
    - destruct (_ && _); repeat constructor.
    - rewrite Ho. cbn [andb].
      repeat match goal with |- context [if ?b then _ else _] => let E := fresh "E" in destruct b eqn:E end; try apply IH; constructor; try apply IH; cbn [ty mk]; try reflexivity; assumption.
  Qed.

  (* skipWhitespaces: no two adjacent whitespace tokens (relative to the type of the previously emitted token) *)
  Fixpoint no_adjacent_ws (last : ttype) (ts : list token) : Prop :=
    match ts with
    | [] => True
    | t :: r => ~ (last = Whitespace /\ ty t = Whitespace) /\ no_adjacent_ws (ty t) r
    end.
  Lemma post_no_adjacent_ws o e : skipWhitespaces o = true -> forall rs last, no_adjacent_ws last (post o last rs e).
  Proof.
    intros Ho. induction rs as [|r rs IH]; intros last; cbn [Tokenizer.post].
    - destruct (_ && _); cbn; auto. split; auto. intros [_ H]. discriminate.
    - rewrite Ho.
      destruct (ttype_eqb (ty (rtok r)) Unknown && skipUnknown o); [apply IH|].
      set (t1 := if from_quote r && decodeStrings o then _ else rtok r).
      destruct (ttype_eqb (ty t1) Comment && skipComments o); [apply IH|].
      rewrite andb_true_r.
      destruct (ttype_eqb (ty t1) Whitespace && ttype_eqb last Whitespace) eqn:Ew.
      + apply andb_prop in Ew. destruct Ew as [_ Ew]. apply ttype_eqb_eq in Ew. subst last. apply IH.
      + set (t2 := if ttype_eqb (ty t1) Whitespace && mergeWhitespaces o then _ else t1).
        set (t3 := if unifyNumbers o && is_numeric (ty t2) then _ else t2).
        cbn [no_adjacent_ws]. split; [|apply IH]. intros [Hl Hw]. subst last.
        replace (ttype_eqb Whitespace Whitespace) with true in Ew by reflexivity. rewrite andb_true_r in Ew. apply ttype_neq in Ew. apply Ew.
        (* t3 is whitespace only if t1 is *)
        assert (H2: ty t3 = Whitespace -> ty t2 = Whitespace).
        { subst t3. destruct (unifyNumbers o && is_numeric (ty t2)); [cbn [ty mk]; discriminate|auto]. }
        assert (H1: ty t2 = Whitespace -> ty t1 = Whitespace).
        { subst t2. destruct (ttype_eqb (ty t1) Whitespace && mergeWhitespaces o) eqn:E; [|auto].
          intros _. apply andb_prop in E. destruct E as [E _]. apply ttype_eqb_eq in E. exact E. }
        auto.
  Qed.
End PostFacts.
