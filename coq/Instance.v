(* C05 for tokenizer instances: SetReader / HasNextToken / NextToken as a state machine.
   After SetReader, whatever the instance did before and however HasNextToken and NextToken are interleaved,
   the i-th NextToken returns the i-th token of a fresh tokenization, then nil forever. *)
Require Import Base Cursor Tokenizer.

Section Instance.
  Variable M : Type.
  Variable plc : cur -> Z * Z.
  Variable produce : M -> cur -> option (rawtok * cur * M).
  Variable decode : str -> Z -> str.
  Variable o : options.
  (* what the tokenizer does to its private mode at the start of ReadNextToken, given LastTokenType
     (identity for the plain tokenizers; "LastTokenType == Unknown => text mode" for the mustache tokenizer) *)
  Variable enter : M -> ttype -> M.
  (* what the tokenizer does to LastTokenType after the loop returned (identity for the plain tokenizers; the
     mustache tokenizer keeps it across text tokens and records Symbol after an Unknown token):
     relast returned-token old-value value-set-by-the-loop *)
  Variable relast : option token -> ttype -> ttype -> ttype.

  Definition rn (m : M) (c : cur) (l : ttype) : res (option token * cur * M * ttype) :=
    match read_next M plc produce decode o (enter m l) c l with
    | Ok (t, c', m', l') => Ok (t, c', m', relast t l l')
    | Panic => Panic | Fuel => Fuel end.

  Record inst := { cached : option token; last : ttype; mode : M; cursor : cur }.

  Definition set_reader (i : inst) (s : str) : inst :=
    {| cached := None; last := Unknown; mode := mode i; cursor := {| content := s; p := 0 |} |}.

  (* ReadNextToken on the instance: returns the token and the updated fields *)
  Definition read_tok (i : inst) : res (option token * inst) :=
    match rn (mode i) (cursor i) (last i) with
    | Ok (t, c', m', last') => Ok (t, {| cached := cached i; last := last'; mode := m'; cursor := c' |})
    | Panic => Panic | Fuel => Fuel end.

  Definition has_next (i : inst) : res (bool * inst) :=
    match cached i with
    | Some _ => Ok (true, i)
    | None => match read_tok i with
              | Ok (t, i') => Ok (match t with Some _ => true | None => false end,
                                  {| cached := t; last := last i'; mode := mode i'; cursor := cursor i' |})
              | Panic => Panic | Fuel => Fuel end
    end.

  Definition next (i : inst) : res (option token * inst) :=
    match cached i with
    | Some t => Ok (Some t, {| cached := None; last := last i; mode := mode i; cursor := cursor i |})
    | None => match read_tok i with
              | Ok (t, i') => Ok (t, {| cached := None; last := last i'; mode := mode i'; cursor := cursor i' |})
              | Panic => Panic | Fuel => Fuel end
    end.

  (* the token stream of an instance state, as a relation (no fuel) *)
  Inductive stream : M -> cur -> ttype -> list token -> Prop :=
  | stream_end m c l c' m' l' :
      rn m c l = Ok (None, c', m', l') ->
      (* once exhausted, it stays exhausted *)
      rn m' c' l' = Ok (None, c', m', l') ->
      stream m c l []
  | stream_tok m c l t c' m' l' ts :
      rn m c l = Ok (Some t, c', m', l') ->
      stream m' c' l' ts -> stream m c l (t :: ts).

  (* what an observer sees: the results of the NextToken calls in a sequence of HasNextToken / NextToken calls *)
  Inductive call := CHas | CNext.
  Fixpoint observe (calls : list call) (i : inst) : res (list (option token)) :=
    match calls with
    | [] => Ok []
    | CHas :: r => match has_next i with Ok (_, i') => observe r i' | Panic => Panic | Fuel => Fuel end
    | CNext :: r => match next i with
                    | Ok (t, i') => match observe r i' with Ok l => Ok (t :: l) | Panic => Panic | Fuel => Fuel end
                    | Panic => Panic | Fuel => Fuel end
    end.

  Fixpoint expected (n : nat) (ts : list token) : list (option token) :=
    match n with O => [] | S n => match ts with t :: r => Some t :: expected n r | [] => None :: expected n [] end end.
  Definition nexts (calls : list call) : nat := length (filter (fun c => match c with CNext => true | _ => false end) calls).

  Definition pending (i : inst) (ts : list token) : Prop :=
    match cached i with
    | None => stream (mode i) (cursor i) (last i) ts
    | Some t => exists r, ts = t :: r /\ stream (mode i) (cursor i) (last i) r
    end.

  Lemma observe_spec : forall calls i ts, pending i ts -> observe calls i = Ok (expected (nexts calls) ts).
  Proof.
    induction calls as [|c calls IH]; intros i ts Hp; [reflexivity|].
    destruct c; cbn [observe nexts filter length].
    - (* HasNextToken *)
      unfold has_next. unfold pending in Hp. destruct (cached i) as [t|] eqn:Ec.
      + apply IH. unfold pending. rewrite Ec. exact Hp.
      + unfold read_tok. inversion Hp as [m c l c' m' l' H1 H2 | m c l t c' m' l' ts' H1 H2]; subst.
        * rewrite H1. apply IH. unfold pending. cbn [cached mode cursor last]. eapply stream_end; eauto.
        * rewrite H1. apply IH. unfold pending. cbn [cached mode cursor last]. exists ts'. auto.
    - (* NextToken *)
      unfold next. unfold pending in Hp. destruct (cached i) as [t|] eqn:Ec.
      + destruct Hp as (r & -> & Hs). rewrite (IH _ r); [reflexivity|]. unfold pending. cbn [cached mode cursor last]. exact Hs.
      + unfold read_tok. inversion Hp as [m c l c' m' l' H1 H2 | m c l t c' m' l' ts' H1 H2]; subst.
        * rewrite H1. rewrite (IH _ []); [reflexivity|]. unfold pending. cbn [cached mode cursor last]. eapply stream_end; eauto.
        * rewrite H1. rewrite (IH _ ts'); [reflexivity|]. unfold pending. cbn [cached mode cursor last]. exact H2.
  Qed.

  (* the stream of a freshly set reader depends on the previous mode only through `enter _ Unknown` *)
  Lemma stream_fresh_mode m m' c ts : enter m Unknown = enter m' Unknown -> stream m c Unknown ts -> stream m' c Unknown ts.
  Proof.
    intros He Hs.
    assert (Hrn: forall l, l = Unknown -> rn m' c l = rn m c l) by (intros l ->; unfold rn; rewrite He; reflexivity).
    inversion Hs; subst.
    - eapply stream_end; [rewrite Hrn by reflexivity; eassumption|eassumption].
    - eapply stream_tok; [rewrite Hrn by reflexivity; eassumption|eassumption].
  Qed.

  (* C05, first half: after SetReader nothing of the previous history is left. Whatever state i the instance was in
     (any history, aborted iteration, cached look-ahead, stale mode) and whatever state i' a freshly constructed
     instance is in, every sequence of HasNextToken / NextToken calls observes the same results - including a
     failure, if there were one. *)
  Theorem reuse_equals_fresh i i' s calls :
    (forall m m', enter m Unknown = enter m' Unknown) ->
    observe calls (set_reader i s) = observe calls (set_reader i' s).
  Proof.
    intros He.
    assert (Hrt: read_tok (set_reader i s) = read_tok (set_reader i' s)).
    { unfold read_tok, set_reader, rn. cbn [mode cursor last cached]. rewrite (He (mode i) (mode i')). reflexivity. }
    destruct calls as [|c calls]; [reflexivity|].
    destruct c; cbn [observe]; unfold has_next, next; cbn [cached set_reader]; rewrite Hrt; reflexivity.
  Qed.

  (* C05: history independence. The previous instance state i is arbitrary (any history, any aborted iteration, any
     cached look-ahead); a brand-new instance has mode m0. Provided ReadNextToken re-initialises the mode when
     LastTokenType is Unknown (trivial for the plain tokenizers, the "initial state" check of the mustache tokenizer),
     every interleaving of HasNextToken and NextToken after SetReader observes the fresh token stream. *)
  Theorem history_independent m0 i s ts calls :
    (forall m m', enter m Unknown = enter m' Unknown) ->
    stream m0 {| content := s; p := 0 |} Unknown ts ->
    observe calls (set_reader i s) = Ok (expected (nexts calls) ts).
  Proof.
    intros He Hs. apply observe_spec. unfold pending, set_reader. cbn [cached mode cursor last].
    eapply stream_fresh_mode; [apply He|exact Hs].
  Qed.
End Instance.

Print Assumptions history_independent.
