(* Facts about the operator table extracted from the Go source (gen/Tables.v): it spells exactly the language's
   operators and maps each to its token.  Proved by computation on the generated table, so a change of the table
   in the source breaks these obligations. *)
From Coq Require Import List ZArith Bool.
Import ListNotations.
Require Import Tables ExprParser ExprLex.
Open Scope Z_scope.

(* the language's operator spellings (upper case) — the specification side *)
Definition spec_operators : list (list Z * tok) := [
  ([40], TLP); ([41], TRP); ([91], TLB); ([93], TRB); ([43], TPlus); ([45], TMinus); ([42], TStar); ([47], TSlash);
  ([37], TPercent); ([94], TPower); ([61], TEq); ([60; 62], TNe); ([33; 61], TNe); ([62], TGt); ([60], TLt);
  ([62; 61], TGe); ([60; 61], TLe); ([60; 60], TShl); ([62; 62], TShr);
  ([65; 78; 68], TAnd); ([79; 82], TOr); ([88; 79; 82], TXor); ([78; 79; 84], TNot); ([73; 83], TIs); ([73; 78], TIn);
  ([78; 85; 76; 76], TNull); ([76; 73; 75; 69], TLike); ([44], TComma) ].

Definition lexr_eqb (a b : lexr) : bool :=
  match a, b with
  | LTok x, LTok y => match x, y with
      | TLP, TLP | TRP, TRP | TLB, TLB | TRB, TRB | TComma, TComma | TPlus, TPlus | TMinus, TMinus | TStar, TStar
      | TSlash, TSlash | TPercent, TPercent | TPower, TPower | TEq, TEq | TNe, TNe | TGt, TGt | TLt, TLt | TGe, TGe
      | TLe, TLe | TShl, TShl | TShr, TShr | TAnd, TAnd | TOr, TOr | TXor, TXor | TNot, TNot | TIs, TIs | TIn, TIn
      | TNull, TNull | TLike, TLike => true
      | _, _ => false end
  | _, _ => false end.

Lemma lexr_eqb_eq a b : lexr_eqb a b = true -> a = b.
Proof. destruct a as [|x|], b as [|y|]; try discriminate. destruct x, y; try discriminate; reflexivity. Qed.

(* every operator of the language is recognised with its own token ... *)
Lemma operator_table_complete : forallb (fun e => lexr_eqb (lex_op (fst e)) (LTok (snd e))) spec_operators = true.
Proof. vm_compute. reflexivity. Qed.

(* ... and the table spells nothing else *)
Lemma operator_table_sound : forallb (fun e => existsb (fun s => zs_eqb (fst s) (fst e)) spec_operators) operator_table = true.
Proof. vm_compute. reflexivity. Qed.

Theorem lex_op_spec s t : In (s, t) spec_operators -> lex_op s = LTok t.
Proof.
  intros H. pose proof operator_table_complete as G. rewrite forallb_forall in G. specialize (G (s, t) H).
  apply lexr_eqb_eq in G. exact G.
Qed.

(* the token type numbering of the model agrees with the iota blocks of the source *)
Lemma token_type_codes : [tt_Unknown; tt_Eof; tt_Eol; tt_Float; tt_Integer; tt_HexDecimal; tt_Number; tt_Symbol; tt_Quoted; tt_Word; tt_Keyword; tt_Whitespace; tt_Comment; tt_Special]
  = [0; 1; 2; 3; 4; 5; 6; 7; 8; 9; 10; 11; 12; 13] /\ tt_count = 14.
Proof. split; reflexivity. Qed.
