(* The character table and the word characters of the CSV tokenizer for EVERY valid choice of field separators and
   quote symbols (C09), derived from the C17 theorem: a lookup returns the latest covering registration. *)
From Coq Require Import List ZArith Bool Lia.
Import ListNotations.
Require Import Base Cursor States Instances CharMap CharMapProofs Tables TokModel.
Open Scope Z_scope.

Definition mem (c : Z) (l : list Z) : bool := existsb (Z.eqb c) l.
(* a valid configuration: characters of the configured range, no line breaks *)
Definition valid_chars (l : list Z) : Prop := Forall (fun c => 0 <= c <= 65534 /\ c <> 13 /\ c <> 10) l.

Definition single (r : option Z) (c : Z) : op Z := Add Z c c r.

Lemma spec_snoc ops o c : spec_lookup Z (ops ++ [o]) c = match covers Z o c with Some r => r | None => spec_lookup Z ops c end.
Proof. unfold spec_lookup. rewrite rev_app_distr. reflexivity. Qed.

Lemma covers_single r c' c : 0 <= c' <= 65534 -> covers Z (single r c') c = if c =? c' then Some r else None.
Proof.
  intros H. cbn [covers single]. destruct (Z.leb_spec 65535 c'); [lia|].
  destruct (Z.leb_spec c' c), (Z.leb_spec c c'), (Z.eqb_spec c c'); cbn [andb]; try reflexivity; lia.
Qed.

Lemma spec_singles r : forall cs ops c, Forall (fun c => 0 <= c <= 65534) cs ->
  spec_lookup Z (ops ++ map (single r) cs) c = if mem c cs then r else spec_lookup Z ops c.
Proof.
  induction cs as [|c' cs IH] using rev_ind; intros ops c H; [rewrite app_nil_r; reflexivity|].
  apply Forall_app in H. destruct H as [H1 H2]. pose proof (Forall_inv H2) as Hc'. cbv beta in Hc'.
  rewrite map_app, app_assoc. cbn [map]. rewrite spec_snoc, covers_single by exact Hc'.
  unfold mem. rewrite existsb_app. cbn [existsb]. rewrite orb_false_r. fold (mem c cs).
  destruct (Z.eqb_spec c c'); [rewrite orb_true_r; reflexivity|]. rewrite orb_false_r. apply IH. exact H1.
Qed.

Definition ok_op (o : op Z) : Prop := match o with Add _ a b _ => 0 <= a /\ a <= b /\ a <= 65534 | _ => True end.
Lemma ok_op_done m o : ok_op o -> exists m', apply Z m o = Done Z m'.
Proof.
  destruct o as [a b r|r|]; cbn [ok_op apply]; intros H.
  - unfold add_interval. destruct (Z.ltb_spec b a); [lia|].
    set (stop := if 65535 <=? b then 65534 else b).
    assert (Hs: a <= stop) by (unfold stop; destruct (Z.leb_spec 65535 b); lia).
    destruct (Z.leb_spec 256 stop); [|eauto].
    set (start := if a <? 256 then 256 else a).
    assert (Hst: start <= stop) by (unfold start; destruct (Z.ltb_spec a 256); lia).
    destruct (Z.ltb_spec stop start); [lia|eauto].
  - unfold add_default, add_interval. cbn. eauto.
  - eauto.
Qed.
Lemma run_done : forall ops m, Forall ok_op ops -> exists m', run Z m ops = Done Z m'.
Proof.
  induction ops as [|o ops IH]; intros m H; cbn [run]; [eauto|].
  destruct (ok_op_done m o (Forall_inv H)) as [m1 H1]. rewrite H1. apply IH. exact (Forall_inv_tail H).
Qed.
Lemma ok_valid o : ok_op o -> valid_op Z o.
Proof. destruct o; cbn; tauto. Qed.

(* lookup in a map built by a sequence of well-formed registrations = the latest covering registration *)
Lemma built_lookup ops c : Forall ok_op ops ->
  map_lookup (run Z (empty Z) ops) c = if (0 <=? c) && (c <=? 65534) then spec_lookup Z ops c else None.
Proof.
  intros H. destruct (run_done ops (empty Z) H) as [m' Hr]. rewrite Hr. cbn [map_lookup].
  destruct (Z.leb_spec 0 c); cbn [andb].
  - destruct (Z.leb_spec c 65534).
    + apply charmap_from_empty; [|exact Hr|lia]. eapply Forall_impl; [|exact H]. exact ok_valid.
    + apply (lookup_above Z ops (empty Z) m' c); [constructor|exact Hr|lia].
  - apply lookup_outside. lia.
Qed.

Section Config.
  Variable seps quotes : list Z.
  Hypothesis Hseps : valid_chars seps.
  Hypothesis Hquotes : valid_chars quotes.

  Lemma in_range_of l : valid_chars l -> Forall (fun c => 0 <= c <= 65534) l.
  Proof. intros H. eapply Forall_impl; [|exact H]. cbv beta. tauto. Qed.

  Lemma singles_ok r l : valid_chars l -> Forall ok_op (map (single r) l).
  Proof. intros H. apply Forall_map. eapply Forall_impl; [|exact H]. intros c Hc. cbv beta in Hc. unfold single, ok_op. lia. Qed.

  Lemma range_ops_app a b : range_ops (a ++ b) = range_ops a ++ range_ops b.
  Proof. apply map_app. Qed.
  Lemma range_ops_singles code l : code <> 0 -> range_ops (map (fun c => (c, c, code)) l) = map (single (Some code)) l.
  Proof. intros H. unfold range_ops. rewrite map_map. apply map_ext. intros c. destruct (Z.eqb_spec code 0); [contradiction|reflexivity]. Qed.
  Lemma range_ops_singles0 l : range_ops (map (fun c => (c, c, 0)) l) = map (single None) l.
  Proof. unfold range_ops. rewrite map_map. reflexivity. Qed.

  (* role of every character: 5 = quote, 1 = symbol (separators and line breaks), 3 = word *)
  Definition csv_role (c : Z) : option Z :=
    if (0 <=? c) && (c <=? 65534) then
      if mem c quotes then Some 5 else if mem c seps then Some 1 else if c =? 10 then Some 1 else if c =? 13 then Some 1 else Some 3
    else None.

  Lemma csv_chartable_spec c : map_lookup (ranges_map (csv_chartable seps quotes)) c = csv_role c.
  Proof.
    unfold ranges_map, csv_chartable. rewrite !range_ops_app, !range_ops_singles by discriminate.
    rewrite built_lookup.
    2:{ apply Forall_app. split; [repeat constructor; lia|]. apply Forall_app. split; apply singles_ok; assumption. }
    unfold csv_role. destruct ((0 <=? c) && (c <=? 65534)) eqn:Er; [|reflexivity].
    rewrite app_assoc, spec_singles by (apply in_range_of; exact Hquotes). destruct (mem c quotes); [reflexivity|].
    rewrite spec_singles by (apply in_range_of; exact Hseps). destruct (mem c seps); [reflexivity|].
    cbn [range_ops map Z.eqb]. change [Add Z 0 65535 (Some 3); Add Z 13 13 (Some 1); Add Z 10 10 (Some 1)] with (([Add Z 0 65535 (Some 3)] ++ [Add Z 13 13 (Some 1)]) ++ [Add Z 10 10 (Some 1)]).
    rewrite spec_snoc. cbn [covers]. change (65535 <=? 10) with false. cbv iota.
    destruct (Z.eqb_spec c 10) as [->|N10]; [reflexivity|].
    replace ((10 <=? c) && (c <=? 10)) with false by (destruct (Z.leb_spec 10 c), (Z.leb_spec c 10); cbn; try reflexivity; lia).
    rewrite spec_snoc. cbn [covers]. change (65535 <=? 13) with false. cbv iota.
    destruct (Z.eqb_spec c 13) as [->|N13]; [reflexivity|].
    replace ((13 <=? c) && (c <=? 13)) with false by (destruct (Z.leb_spec 13 c), (Z.leb_spec c 13); cbn; try reflexivity; lia).
    unfold spec_lookup. cbn [rev app latest covers]. change (65535 <=? 65535) with true. cbv iota. rewrite Er. reflexivity.
  Qed.

  Definition csv_kind (c : Z) : option skind :=
    match csv_role c with Some 5 => Some KCsvQuote | Some 1 => Some KCsvSymbol | Some 3 => Some KWord | _ => None end.

  Theorem csv_table_is c : Instances.table (csv_cfg seps quotes) c = csv_kind c.
  Proof.
    unfold csv_cfg, Instances.table, table_of, csv_kind. rewrite csv_chartable_spec. unfold csv_role.
    destruct ((0 <=? c) && (c <=? 65534)); [|reflexivity].
    destruct (mem c quotes); [reflexivity|]. destruct (mem c seps); [reflexivity|]. destruct (c =? 10); [reflexivity|]. destruct (c =? 13); reflexivity.
  Qed.

  (* a word character: in range and neither line break, separator nor quote *)
  Definition csv_plain (c : Z) : bool :=
    (0 <=? c) && (c <=? 65534) && negb (mem c quotes) && negb (mem c seps) && negb (c =? 10) && negb (c =? 13).

  Theorem csv_wordchar_is c : wordchar (csv_cfg seps quotes) c = csv_plain c.
  Proof.
    unfold csv_cfg, wordchar, class_of, ranges_map, csv_wordchars, bool_ranges. rewrite !map_app, !map_map. cbn [map].
    rewrite !range_ops_app, !range_ops_singles0. rewrite built_lookup.
    2:{ apply Forall_app. split; [repeat constructor; lia|]. apply Forall_app. split; apply singles_ok; assumption. }
    unfold csv_plain. destruct ((0 <=? c) && (c <=? 65534)) eqn:Er; [|reflexivity]. cbn [andb].
    rewrite app_assoc, spec_singles by (apply in_range_of; exact Hquotes). destruct (mem c quotes); [reflexivity|].
    rewrite spec_singles by (apply in_range_of; exact Hseps). destruct (mem c seps); [reflexivity|]. cbn [negb andb].
    cbn [range_ops map Z.eqb]. change [Add Z 0 65535 (Some 1); Add Z 13 13 None; Add Z 10 10 None] with (([Add Z 0 65535 (Some 1)] ++ [Add Z 13 13 None]) ++ [Add Z 10 10 None]).
    rewrite spec_snoc. cbn [covers]. change (65535 <=? 10) with false. cbv iota.
    destruct (Z.eqb_spec c 10) as [->|N10]; [reflexivity|].
    replace ((10 <=? c) && (c <=? 10)) with false by (destruct (Z.leb_spec 10 c), (Z.leb_spec c 10); cbn; try reflexivity; lia).
    rewrite spec_snoc. cbn [covers]. change (65535 <=? 13) with false. cbv iota.
    destruct (Z.eqb_spec c 13) as [->|N13]; [reflexivity|].
    replace ((13 <=? c) && (c <=? 13)) with false by (destruct (Z.leb_spec 13 c), (Z.leb_spec c 13); cbn; try reflexivity; lia).
    unfold spec_lookup. cbn [rev app latest covers]. change (65535 <=? 65535) with true. cbv iota. rewrite Er. reflexivity.
  Qed.
End Config.

Print Assumptions csv_table_is.
Print Assumptions csv_wordchar_is.
