From Coq Require Import List ZArith Bool Lia.
Import ListNotations.
Require Import ExprParser ExprSound ExprComplete ExprTotal.

Inductive outcome (A : Type) := Val (a : A) | Fail (code : nat) | Panic.
Arguments Val {A}. Arguments Fail {A}. Arguments Panic {A}.
Definition obind {A B} (r : outcome A) (f : A -> outcome B) : outcome B :=
  match r with Val a => f a | Fail c => Fail c | Panic => Panic end.

Section Machine.
  Variable V : Type.
  Variable const : Z -> V.
  Variable var : Z -> outcome V.                    (* VAR_NOT_FOUND is a Fail *)
  Variable bin : binop -> V -> V -> outcome V.      (* receives (value1, value2) in written order *)
  Variable un : unop -> V -> outcome V.
  Variable callf : Z -> list V -> outcome V.        (* lookup + call; FUNC_NOT_FOUND is a Fail *)
  Variable intv : nat -> V.
  Variable as_nat : V -> option nat.                (* None models the failed type assertion *)
  Hypothesis as_nat_intv : forall k, as_nat (intv k) = Some k.

  (* pop k arguments: the top of the stack is the last argument *)
  Fixpoint popn (k : nat) (stk : list V) (acc : list V) : option (list V * list V) :=
    match k with O => Some (acc, stk) | S k => match stk with v :: stk' => popn k stk' (v :: acc) | [] => None end end.

  Fixpoint run (prog : list rinstr) (stk : list V) : outcome V :=
    match prog with
    | [] => match stk with [v] => Val v | _ => Fail 0 end
    | RConst c :: r => run r (const c :: stk)
    | RVar n :: r => obind (var n) (fun v => run r (v :: stk))
    | RArgc k :: r => run r (intv k :: stk)
    | RFunc f :: r =>
        match stk with
        | top :: stk' =>
            match as_nat top with
            | Some k => match popn k stk' [] with
                        | Some (args, stk'') => obind (callf f args) (fun v => run r (v :: stk''))
                        | None => Panic end
            | None => Panic end
        | [] => Panic end
    | RBin o :: r => match stk with v2 :: v1 :: stk' => obind (bin o v1 v2) (fun v => run r (v :: stk')) | _ => Panic end
    | RUn o :: r => match stk with v :: stk' => obind (un o v) (fun w => run r (w :: stk')) | _ => Panic end
    end.

  Fixpoint eval (e : expr) : outcome V :=
    match e with
    | EConst c => Val (const c)
    | EVar n => var n
    | EUn o a => obind (eval a) (un o)
    | EBin o a b => obind (eval a) (fun v1 => obind (eval b) (fun v2 => bin o v1 v2))
    | ECall f args => obind (evals args) (callf f)
    end
  with evals (es : exprs) : outcome (list V) :=
    match es with
    | ENil => Val []
    | ECons e r => obind (eval e) (fun v => obind (evals r) (fun vs => Val (v :: vs)))
    end.

  Scheme expr_ind' := Induction for expr Sort Prop
  with exprs_ind' := Induction for exprs Sort Prop.
  Combined Scheme expr_mutind from expr_ind', exprs_ind'.

  Lemma popn_rev vs : forall stk acc, popn (length vs) (rev vs ++ stk) acc = Some (vs ++ acc, stk).
  Proof.
    induction vs as [|v vs IH] using rev_ind; intros stk acc; [reflexivity|].
    rewrite rev_app_distr, app_length. simpl. rewrite Nat.add_comm. simpl. rewrite IH. rewrite <- app_assoc. reflexivity.
  Qed.

  Lemma run_app :
    (forall e rest stk, run (compile e ++ rest) stk = obind (eval e) (fun v => run rest (v :: stk))) /\
    (forall es rest stk, run (compiles es ++ rest) stk = obind (evals es) (fun vs => run rest (rev vs ++ stk)) /\
                         (forall vs, evals es = Val vs -> length vs = elen es)).
  Proof.
    apply expr_mutind.
    - intros c rest stk. reflexivity.
    - intros n rest stk. reflexivity.
    - intros o a IHa rest stk. cbn [compile eval]. rewrite <- app_assoc. rewrite IHa. destruct (eval a); reflexivity.
    - intros o a IHa b IHb rest stk. cbn [compile eval]. rewrite <- !app_assoc. rewrite IHa. destruct (eval a) as [v1| |]; try reflexivity.
      cbn [obind]. rewrite IHb. destruct (eval b) as [v2| |]; reflexivity.
    - intros f args IH rest stk. cbn [compile eval]. rewrite <- app_assoc. destruct (IH ([RArgc (elen args); RFunc f] ++ rest) stk) as [H1 H2].
      rewrite H1. destruct (evals args) as [vs| |]; try reflexivity. cbn [obind app run].
      rewrite as_nat_intv. rewrite <- (H2 vs eq_refl). rewrite popn_rev. rewrite app_nil_r. reflexivity.
    - intros rest stk. split; [reflexivity|]. intros vs H. inversion H. reflexivity.
    - intros e IHe es IHes rest stk. cbn [compiles evals]. rewrite <- app_assoc. rewrite IHe. split.
      + destruct (eval e) as [v| |]; try reflexivity. cbn [obind]. destruct (IHes rest (v :: stk)) as [H1 _]. rewrite H1.
        destruct (evals es) as [vs| |]; try reflexivity. cbn [obind rev]. rewrite <- app_assoc. reflexivity.
      + intros vs H. destruct (eval e) as [v| |]; try discriminate. cbn [obind] in H.
        destruct (evals es) as [vs'| |] eqn:E; try discriminate. inversion H. subst. simpl. f_equal.
        destruct (IHes [] []) as [_ H2]. apply H2. reflexivity.
  Qed.

  (* the calculator: parse, then run on an empty stack *)
  Definition calculate (ts : list tok) : res (outcome V) :=
    match parse_top ts with Ok prog => Ok (run prog []) | Err c => Err c | Fuel => Fuel end.

  Theorem calc_is_tree ts e : D0 ts e -> calculate ts = Ok (eval e).
  Proof.
    intros HD. unfold calculate. rewrite (parse_top_complete _ _ HD).
    rewrite <- (app_nil_r (compile e)). rewrite (proj1 run_app). destruct (eval e); reflexivity.
  Qed.

  Theorem calc_only_trees ts r : ts <> [] -> calculate ts = Ok r -> exists e, D0 ts e /\ r = eval e.
  Proof.
    intros Hne H. unfold calculate in H. destruct (parse_top ts) as [prog| |] eqn:E; try discriminate.
    inversion H. subst r. apply parse_top_sound in E; auto. destruct E as (e & HD & ->). exists e. split; auto.
    rewrite <- (app_nil_r (compile e)). rewrite (proj1 run_app). destruct (eval e); reflexivity.
  Qed.

  Corollary compiled_never_panics ts e : D0 ts e -> eval e <> Panic -> forall r, calculate ts = Ok r -> r <> Panic.
  Proof. intros HD Hne r H. rewrite (calc_is_tree _ _ HD) in H. inversion H. subst. auto. Qed.
End Machine.

Print Assumptions calc_is_tree.
