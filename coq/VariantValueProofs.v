From Coq Require Import List ZArith Bool Lia.
From Coq Require Import Floats.SpecFloat.
Import ListNotations.
Require Import HostFloat VariantValue.
Open Scope Z_scope.

(* ---- typed access: a variant built from a host value reports the matching type and holds that value ---- *)
Theorem typed_access z s :
  from_host 0 z s = Int z /\ from_host 1 z s = Int z /\ from_host 2 z s = Long z /\ from_host 3 z s = Long z /\ from_host 4 z s = Long z /\
  from_host 5 z s = Flt z /\ from_host 6 z s = Dbl z /\ from_host 8 z s = Str s /\ from_host 9 z s = Time z /\ from_host 10 z s = Span z /\
  from_host 11 z s = Null /\ from_host 12 z s = Obj z /\ from_host 7 z s = Bool (negb (z =? 0)).
Proof. repeat split. Qed.

(* ---- indexed writes past the end grow the array with nulls ---- *)
Lemma set_nth_length l i x : length (set_nth l i x) = Nat.max (length l) (S i).
Proof. revert l. induction i as [|i IH]; intros [|y l]; cbn; try reflexivity; try lia; rewrite IH; cbn; lia. Qed.
Theorem set_nth_spec l i x j : nth_error (set_nth l i x) j =
  if Nat.eqb j i then Some x else if Nat.ltb j (length l) then nth_error l j else if Nat.ltb j i then Some Null else None.
Proof.
  revert l j. induction i as [|i IH]; intros l j.
  - destruct l as [|y l], j as [|j]; cbn [set_nth nth_error Nat.eqb length]; try reflexivity.
    + destruct j; reflexivity.
    + destruct (Nat.ltb_spec (S j) (S (length l))); [reflexivity|]. cbn. apply nth_error_None. lia.
  - destruct l as [|y l], j as [|j]; cbn [set_nth nth_error length]; try reflexivity.
    + rewrite IH. cbn [length Nat.ltb Nat.leb]. change (Nat.eqb (S j) (S i)) with (Nat.eqb j i). destruct (Nat.eqb j i); [reflexivity|].
      change (Nat.ltb (S j) (S i)) with (Nat.ltb j i). destruct j; reflexivity.
    + rewrite IH. change (Nat.eqb (S j) (S i)) with (Nat.eqb j i). change (Nat.ltb (S j) (S (length l))) with (Nat.ltb j (length l)).
      change (Nat.ltb (S j) (S i)) with (Nat.ltb j i). reflexivity.
Qed.

(* ---- equality ---- *)
Lemma str_eq_sym a b : str_eq a b = str_eq b a.
Proof. revert b. induction a as [|x a IH]; intros [|y b]; cbn; try reflexivity. rewrite Z.eqb_sym, IH. reflexivity. Qed.
Lemma sfeqb_sym a b : SFeqb a b = SFeqb b a.
Proof.
  unfold SFeqb, SFcompare. destruct a as [sa|sa| |sa ma ea], b as [sb|sb| |sb mb eb]; try reflexivity; try (destruct sa, sb; reflexivity).
  change (Pcompare ma mb Eq) with (Pos.compare ma mb). change (Pcompare mb ma Eq) with (Pos.compare mb ma).
  destruct sa, sb; try reflexivity; rewrite (Z.compare_antisym ea eb); destruct (ea ?= eb)%Z; cbn [CompOpp]; try reflexivity;
    rewrite (Pos.compare_antisym ma mb); destruct (ma ?= mb)%positive; reflexivity.
Qed.

Fixpoint vsize (v : val) : nat := match v with Arr l => S (fold_right (fun x n => (vsize x + n)%nat) 0%nat l) | _ => 1%nat end.

Theorem equals_sym : forall n a b, (vsize a < n)%nat -> equals a b = equals b a.
Proof.
  induction n as [|n IH]; intros a b Hs; [lia|].
  destruct a, b; cbn [equals]; try reflexivity; try apply Z.eqb_sym; try apply sfeqb_sym; try apply str_eq_sym.
  - destruct b, b0; reflexivity.
  - cbn [vsize] in Hs. revert l0. induction l as [|x l IHl]; intros [|y l0]; try reflexivity.
    cbn [fold_right] in Hs. rewrite (IH x y) by lia. f_equal. apply IHl. cbn [fold_right] in *. lia.
Qed.

(* a clone equals its original, NaN (which equals nothing) excepted; clone = same value in the value model *)
Theorem equals_refl : forall n a, (vsize a < n)%nat -> nan_free a = true -> equals a a = true.
Proof.
  induction n as [|n IH]; intros a Hs Hn; [lia|].
  destruct a; cbn [equals nan_free] in *; try reflexivity; try apply Z.eqb_refl; try exact Hn.
  - clear Hs Hn. induction s as [|c s IHs]; cbn; [reflexivity|]. rewrite Z.eqb_refl. exact IHs.
  - destruct b; reflexivity.
  - cbn [vsize] in Hs. induction l as [|x l IHl]; [reflexivity|]. cbn [fold_right] in Hs.
    apply andb_prop in Hn. destruct Hn as [H1 H2]. rewrite (IH x) by (lia || exact H1). cbn. apply IHl; [lia|exact H2].
Qed.

(* ---- the machine: registers hold values, so nothing done to a clone, to another register or to a caller's list can
        change a register that the operation does not name as its target ---- *)
Lemma upd_nth {A} (l : list A) i j x d : i <> j -> nth j (upd l i x) d = nth j l d.
Proof. revert i j. induction l as [|y l IH]; intros [|i] [|j] H; cbn; try reflexivity; try congruence. apply IH. congruence. Qed.

Definition target (o : op) : option nat :=
  match o with ONew i _ | OFromList i _ | OCopy i _ | OSetByIndex i _ _ | OSetLength i _ | OSetElem i _ _ => Some i | _ => None end.

Theorem untargeted_register_unchanged m o i : target o <> Some i -> reg (step m o) i = reg m i.
Proof.
  intros H. destruct o; cbn [step target] in *; unfold reg, set_reg, set_lst; cbn [regs];
    try (apply upd_nth; congruence); try reflexivity.
  - destruct (nth i0 (regs m) Null); try reflexivity; cbn [regs]; apply upd_nth; congruence.
  - destruct (nth i0 (regs m) Null); try reflexivity; cbn [regs]; apply upd_nth; congruence.
  - destruct (Nat.ltb idx _); reflexivity.
  - destruct (nth i0 (regs m) Null); try reflexivity. destruct (Nat.ltb idx _); [|reflexivity]. cbn [regs]. apply upd_nth; congruence.
Qed.

(* own copy: after building v[i] from l[k], no sequence of operations on the caller's lists changes v[i] *)
Definition list_op (o : op) : bool := match o with OListWrite _ _ _ | OListAppend _ _ | OListTruncate _ => true | _ => false end.
Theorem own_copy m i k ops : Forall (fun o => list_op o = true) ops ->
  reg (fold_left step ops (step m (OFromList i k))) i = reg (step m (OFromList i k)) i.
Proof.
  generalize (step m (OFromList i k)). induction ops as [|o ops IH]; intros m0 Hf; [reflexivity|]. inversion Hf; subst. cbn [fold_left].
  rewrite IH by assumption. apply untargeted_register_unchanged. destruct o; cbn in *; try discriminate; congruence.
Qed.

(* clone isolation: after v[c] = v[i].Clone(), no sequence of operations targeting registers other than i changes v[i] *)
Theorem clone_isolated m c i ops : c <> i -> Forall (fun o => target o <> Some i) ops ->
  reg (fold_left step ops (step m (OCopy c i))) i = reg m i.
Proof.
  intros Hci Hf. assert (H0: reg (step m (OCopy c i)) i = reg m i) by (apply untargeted_register_unchanged; cbn; congruence).
  rewrite <- H0. generalize (step m (OCopy c i)). induction ops as [|o ops IH]; intros m0; [reflexivity|]. inversion Hf; subst. cbn [fold_left].
  rewrite IH by assumption. apply untargeted_register_unchanged. assumption.
Qed.
