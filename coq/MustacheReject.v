(* C10, rejection: templates with an unclosed tag, an unclosed, unopened or mismatched section, or mismatched brace
   counts are rejected with an error code (token level; ts / body range over all well-formed templates). *)
From Coq Require Import List ZArith Bool Lia.
Import ListNotations.
Require Import Mustache MustacheSpec.
Open Scope Z_scope.

Definition rejected {A} (r : res A) : Prop := exists e, r = Err e.

Definition lex_then_parse (toks : list token) : res (list mnode) :=
  match lex_all lex0 toks [] with Ok ms => mparse ms | Err e => Err e | Panic => Panic | Fuel => Fuel end.

(* an unclosed tag: the input ends inside {{ ... *)
Theorem unclosed_tag ts b3 : wfs ts -> rejected (lex_then_parse (flats ts ++ [opn b3])) /\
  forall n, rejected (lex_then_parse (flats ts ++ [opn b3; word n])).
Proof.
  intros Hw. unfold lex_then_parse. split; [|intros n]; rewrite (proj2 lex_flat ts Hw); destruct b3; cbn; eexists; reflexivity.
Qed.

(* mismatched brace counts on one tag *)
Theorem mismatched_braces ts b3 n rest : wfs ts -> rejected (lex_then_parse (flats ts ++ [opn b3; word n; cls (negb b3)] ++ rest)).
Proof.
  intros Hw. unfold lex_then_parse. rewrite (proj2 lex_flat ts Hw). destruct b3; cbn; eexists; reflexivity.
Qed.

(* parse_seq, top level, after a well-formed prefix *)
Lemma parse_after ts rest : exists f, (length rest < f)%nat /\
  parse_seq (S (length (mflats ts ++ rest))) None (mflats ts ++ rest) [] = parse_seq f None rest ([] ++ shapes ts).
Proof. destruct (proj2 parse_flat ts (S (length (mflats ts ++ rest))) None rest []) as (f & Hf & E); [lia|]. eauto. Qed.

(* a section end without an open section *)
Theorem unopened_section ts v rest : rejected (mparse (mflats ts ++ {| mk := KSectionEnd; mv := v |} :: rest)).
Proof.
  unfold mparse. destruct (mflats ts ++ _ :: rest) as [|m r] eqn:E; [eexists; reflexivity|]. rewrite <- E.
  destruct (parse_after ts ({| mk := KSectionEnd; mv := v |} :: rest)) as (f & Hf & Heq). rewrite Heq.
  destruct f; [cbn in Hf; lia|]. cbn. eexists; reflexivity.
Qed.

(* a section that is never closed *)
Theorem unclosed_section ts k n body : is_sec k = true -> rejected (mparse (mflats ts ++ {| mk := k; mv := n |} :: mflats body)).
Proof.
  intros Hk. unfold mparse. destruct (mflats ts ++ _ :: mflats body) as [|m r] eqn:E; [eexists; reflexivity|]. rewrite <- E.
  destruct (parse_after ts ({| mk := k; mv := n |} :: mflats body)) as (f & Hf & Heq). rewrite Heq.
  destruct f as [|f]; [cbn in Hf; lia|]. cbn [parse_seq mk mv]. 
  assert (Hsec: match k with KSectionEnd => false | _ => true end = true) by (destruct k; try discriminate; reflexivity).
  destruct k; try discriminate; cbn [is_sec];
    (destruct (mflats body) as [|b0 br] eqn:Eb; [eexists; reflexivity|]; rewrite <- Eb;
     destruct (proj2 parse_flat body f (Some n) [] []) as (f2 & Hf2 & E2); [rewrite app_nil_r; cbn in Hf; rewrite Eb in *; cbn in *; lia|];
     rewrite app_nil_r in E2; rewrite E2; destruct f2; [cbn in Hf2; lia|]; cbn; eexists; reflexivity).
Qed.

(* a section closed under another name *)
Theorem mismatched_section ts k n body m rest : is_sec k = true -> str_eqb m n = false -> m <> [] ->
  rejected (mparse (mflats ts ++ {| mk := k; mv := n |} :: mflats body ++ {| mk := KSectionEnd; mv := m |} :: rest)).
Proof.
  intros Hk Hm Hne. unfold mparse. destruct (mflats ts ++ _ :: mflats body ++ _) as [|m0 r0] eqn:E; [eexists; reflexivity|]. rewrite <- E.
  destruct (parse_after ts ({| mk := k; mv := n |} :: mflats body ++ {| mk := KSectionEnd; mv := m |} :: rest)) as (f & Hf & Heq). rewrite Heq.
  destruct f as [|f]; [cbn in Hf; lia|]. cbn [parse_seq mk mv].
  assert (Hnil: str_eqb m [] = false) by (destruct m; [congruence|reflexivity]).
  destruct k; try discriminate; cbn [is_sec];
    (destruct (mflats body ++ {| mk := KSectionEnd; mv := m |} :: rest) as [|b0 br] eqn:Eb; [destruct (mflats body); discriminate|]; rewrite <- Eb;
     destruct (proj2 parse_flat body f (Some n) ({| mk := KSectionEnd; mv := m |} :: rest) []) as (f2 & Hf2 & E2);
       [rewrite <- Eb in Hf; cbn [length] in Hf; lia|];
     rewrite E2; destruct f2; [cbn in Hf2; lia|]; cbn [parse_seq mk mv]; rewrite Hm, Hnil; cbn; eexists; reflexivity).
Qed.
