(* Executable glue for C11: runs the scanner model on a harness case.
   input  = L [content; L [op ...]]   with op = L [I code; I arg], code 0 read | 1 unread | 2 unread-many arg | 3 peek | 4 reset
                                      | 5 arg: arg reads in a row, observed once at the end (long contents)
   output = L [obs ...]               with obs = L [ret; line; col; peek; peek_line; peek_column] after each operation (ret = -2 if none) *)
From Coq Require Import List ZArith Bool.
Import ListNotations.
Require Import Sx Scanner.
Open Scope Z_scope.

Definition dec_op (s : sx) : op :=
  match gz (nth_sx 0 s) with
  | 0 => ORead | 1 => OUnread | 2 => OUnreadMany (gnat (nth_sx 1 s)) | 3 => OPeek | _ => OReset
  end.

Definition observe (s : scanner) (ret : Z) : sx :=
  L [I ret; I (line s); I (col s); I (peek s); I (peek_line s); I (peek_column s)].

Fixpoint run_ops (s : scanner) (ops : list op) : list sx :=
  match ops with
  | [] => []
  | o :: r =>
      let '(ret, s') := match o with ORead => read s | _ => (-2, step s o) end in
      observe s' ret :: run_ops s' r
  end.

(* n reads in a row: the value of the last one *)
Fixpoint reads (n : nat) (ret : Z) (s : scanner) : Z * scanner :=
  match n with O => (ret, s) | S k => let '(r, s') := read s in reads k r s' end.

Fixpoint run_sx (s : scanner) (ops : list sx) : list sx :=
  match ops with
  | [] => []
  | o :: r =>
      let '(ret, s') :=
        if gz (nth_sx 0 o) =? 5 then reads (gnat (nth_sx 1 o)) (-2) s
        else match dec_op o with ORead => read s | o' => (-2, step s o') end in
      observe s' ret :: run_sx s' r
  end.

Lemma run_sx_is_run_ops : forall ops s, Forall (fun o => (gz (nth_sx 0 o) =? 5) = false) ops -> run_sx s ops = run_ops s (map dec_op ops).
Proof.
  induction ops as [|o r IH]; intros s H; [reflexivity|]. inversion H as [|? ? H1 H2]; subst. cbn [run_sx run_ops map]. rewrite H1.
  destruct (dec_op o); (destruct (read s) as [ret s'] || idtac); cbn; f_equal; apply IH; assumption.
Qed.

Definition model_C11 (input : sx) : sx :=
  L (run_sx (init (gstr (nth_sx 0 input))) (gl (nth_sx 1 input))).
