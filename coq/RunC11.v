(* Executable glue for C11: runs the scanner model on a harness case.
   input  = L [content; L [op ...]]   with op = L [I code; I arg], code 0 read | 1 unread | 2 unread-many arg | 3 peek | 4 reset
   output = L [obs ...]               with obs = L [ret; line; col; peek; peek_line; peek_column] after each operation (ret = -2 if none) *)
From Coq Require Import List ZArith Bool.
Import ListNotations.
Require Import Sx Scanner.
Open Scope Z_scope.

Definition dec_op (s : sx) : op :=
  match gz (nth_sx 0 s) with
  | 0 => ORead | 1 => OUnread | 2 => OUnreadMany (gnat (nth_sx 1 s)) | 3 => OPeek | _ => OReset
  end.

Definition observe (s : scanner) (ret : Z) : sx :=
  L [I ret; I (line s); I (col s); I (peek s); I (peek_line s); I (peek_column s)].

Fixpoint run_ops (s : scanner) (ops : list op) : list sx :=
  match ops with
  | [] => []
  | o :: r =>
      let '(ret, s') := match o with ORead => read s | _ => (-2, step s o) end in
      observe s' ret :: run_ops s' r
  end.

Definition model_C11 (input : sx) : sx :=
  L (run_ops (init (gstr (nth_sx 0 input))) (map dec_op (gl (nth_sx 1 input)))).
