(* C03: the expression calculator (parser + stack machine) never panics and never runs out of fuel, for EVERY token
   sequence, provided the operators, the variable lookup and the functions do not panic themselves (VariantNoPanic.v,
   FunctionsProofs.delegated_never_panics). *)
From Coq Require Import List ZArith Bool Lia.
Import ListNotations.
Require Import ExprParser ExprSound ExprComplete ExprTotal ExprEval.

Section CalcNoPanic.
  Variable V : Type.
  Variable const : Z -> V.
  Variable var : Z -> outcome V.
  Variable bin : binop -> V -> V -> outcome V.
  Variable un : unop -> V -> outcome V.
  Variable callf : Z -> list V -> outcome V.
  Variable intv : nat -> V.
  Variable as_nat : V -> option nat.
  Hypothesis as_nat_intv : forall k, as_nat (intv k) = Some k.
  Hypothesis var_np : forall n, var n <> Panic.
  Hypothesis bin_np : forall o a b, bin o a b <> Panic.
  Hypothesis un_np : forall o a, un o a <> Panic.
  Hypothesis call_np : forall f args, callf f args <> Panic.

  Lemma obind_np {A B} (r : outcome A) (f : A -> outcome B) : r <> Panic -> (forall a, f a <> Panic) -> obind r f <> Panic.
  Proof. intros Hr Hf. destruct r; cbn; [apply Hf|discriminate|congruence]. Qed.

  Lemma eval_np : (forall e, eval V const var bin un callf e <> Panic) /\ (forall es, evals V const var bin un callf es <> Panic).
  Proof.
    apply expr_mutind; intros.
    - discriminate.
    - apply var_np.
    - change (eval V const var bin un callf (EUn o e)) with (obind (eval V const var bin un callf e) (un o)). apply obind_np; auto.
    - change (eval V const var bin un callf (EBin o a b)) with (obind (eval V const var bin un callf a) (fun v1 => obind (eval V const var bin un callf b) (fun v2 => bin o v1 v2))).
      apply obind_np; auto. intros v1. apply obind_np; auto.
    - change (eval V const var bin un callf (ECall n args)) with (obind (evals V const var bin un callf args) (callf n)). apply obind_np; auto.
    - discriminate.
    - change (evals V const var bin un callf (ECons e es)) with (obind (eval V const var bin un callf e) (fun v => obind (evals V const var bin un callf es) (fun vs => Val (v :: vs)))).
      apply obind_np; auto. intros v. apply obind_np; auto. discriminate.
  Qed.

  (* setting and evaluating ANY token sequence: never out of fuel, never a panic - a value or an error code *)
  Theorem calculator_never_crashes ts :
    calculate V const var bin un callf intv as_nat ts <> Fuel /\
    forall r, calculate V const var bin un callf intv as_nat ts = Ok r -> r <> Panic.
  Proof.
    split.
    - unfold calculate. pose proof (parse_top_total ts) as Ht. destruct (parse_top ts); congruence.
    - intros r Hr. destruct ts as [|t ts'].
      + cbn in Hr. inversion Hr. discriminate.
      + destruct (calc_only_trees V const var bin un callf intv as_nat as_nat_intv (t :: ts') r ltac:(discriminate) Hr) as (e & _ & ->).
        apply (proj1 eval_np).
  Qed.
End CalcNoPanic.
