(* Ties the abstract cursor used by the tokenizer states to the concrete scanner model (C11):
   Line()/Column() after any operation history are lc(content, position), and the peeked coordinates
   before reading a character are the coordinates after reading it. *)
Require Import Base Cursor.
Require Scanner ScannerProofs.

Definition as_scanner (s : cur) : Scanner.scanner :=
  {| Scanner.content := content s; Scanner.p := p s;
     Scanner.line := fst (Scanner.lc (content s) (p s)); Scanner.col := snd (Scanner.lc (content s) (p s)) |}.

Definition cur_lc (s : cur) : Z * Z := Scanner.lc (content s) (p s).
Definition cur_plc (s : cur) : Z * Z := (Scanner.peek_line (as_scanner s), Scanner.peek_column (as_scanner s)).

Lemma as_scanner_inv s : (p s <= S (clen s))%nat -> Scanner.Inv (as_scanner s).
Proof. intros H. split; simpl; [exact H|]. destruct (Scanner.lc (content s) (p s)); reflexivity. Qed.

Theorem cur_lc_after_read s : (p s < clen s)%nat -> cur_lc (snd (read s)) = cur_plc s.
Proof.
  intros Hlt. unfold cur_plc.
  rewrite (ScannerProofs.peek_linecol (as_scanner s) (as_scanner_inv s ltac:(lia)) Hlt).
  (* the concrete read advances line/col by one step of lc *)
  unfold read. destruct (Nat.ltb_spec (clen s) (p s)); [lia|]. destruct (Nat.ltb_spec (p s) (clen s)); [|lia]. cbn [snd].
  unfold cur_lc. cbn [content p]. unfold Scanner.read. cbn [Scanner.content Scanner.p as_scanner].
  unfold clen in *. destruct (Nat.ltb_spec (length (content s)) (p s)); [lia|]. destruct (Nat.ltb_spec (p s) (length (content s))); [|lia].
  rewrite (ScannerProofs.lc_S (content s) (p s)) by lia.
  cbn [Scanner.line Scanner.col as_scanner].
  destruct (Scanner.lc (content s) (p s)) as [ln c] eqn:E. cbn [fst snd].
  destruct (Scanner.advance (content s) (S (p s)) (ln, c)) as [ln' c'] eqn:Ea. reflexivity.
Qed.

Print Assumptions cur_lc_after_read.
