(* Model of mustache/parsers/MustacheParser.go (after repairs F27, F28) and mustache/MustacheTemplate.go. *)
From Coq Require Import List ZArith Bool Lia.
Import ListNotations.
Open Scope Z_scope.

Definition str := list Z.
Fixpoint str_eqb (a b : str) : bool :=
  match a, b with [], [] => true | x :: a', y :: b' => (x =? y) && str_eqb a' b' | _, _ => false end.

(* the tokenizer token types that matter here *)
Inductive ttype := TSpecial | TSymbol | TWord | TWhitespace | TOther.
Record token := { ty : ttype; value : str }.

Definition s_open2 : str := [123; 123].   Definition s_open3 : str := [123; 123; 123].
Definition s_close2 : str := [125; 125].  Definition s_close3 : str := [125; 125; 125].
Definition s_bang : str := [33].  Definition s_slash : str := [47].  Definition s_hash : str := [35].  Definition s_caret : str := [94].
Definition s_if : str := [105; 102].  Definition s_unless : str := [117; 110; 108; 101; 115; 115].

Inductive mkind := KValue | KVariable | KEscaped | KSection | KInverted | KSectionEnd | KComment.
Record mtoken := { mk : mkind; mv : str }.

Inductive merr := EUnexpectedSymbol | EMismatchedBrackets | EInternal | EUnexpectedEnd | EUnexpectedSectionEnd | ENotClosedSection.
Inductive res (A : Type) := Ok (a : A) | Err (e : merr) | Panic | Fuel.
Arguments Ok {A}. Arguments Err {A}. Arguments Panic {A}. Arguments Fuel {A}.

(* ---------- completeLexicalAnalysis ---------- *)
Inductive lstate := SValue | SOp1 | SOp2 | SVar | SClosure | SComment.
Record lex := { st : lstate; closing : str; op1 : str; op2 : str; var : str }.
Definition lex0 : lex := {| st := SValue; closing := []; op1 := []; op2 := []; var := [] |}.
Definition is_close (v : str) := str_eqb v s_close2 || str_eqb v s_close3.

(* the Symbol case from "state == Closure" on; l already has st = SClosure *)
Definition close_tag (l : lex) (v : str) : res (lex * option mtoken) :=
  if negb (str_eqb (closing l) v) then Err EMismatchedBrackets
  else
    let k0 : option mkind := None in
    let k1 := if str_eqb (op1 l) s_hash && (str_eqb (op2 l) [] || str_eqb (op2 l) s_if) then Some KSection else k0 in
    let k2 := if str_eqb (op1 l) s_hash && str_eqb (op2 l) s_unless then Some KInverted else k1 in
    let k3 := if str_eqb (op1 l) s_caret && str_eqb (op2 l) [] then Some KInverted else k2 in
    let k4 := if str_eqb (op1 l) s_slash then Some KSectionEnd else k3 in
    let k5 := if str_eqb (op1 l) s_bang then Some KComment else k4 in
    let k6 := if str_eqb (op1 l) [] then Some (if str_eqb (closing l) s_close3 then KEscaped else KVariable) else k5 in
    match k6 with
    | None => Err EInternal
    | Some k => Ok (lex0, Some {| mk := k; mv := if str_eqb (op1 l) s_bang then [] else var l |})
    end.

Definition lex_tok (l : lex) (t : token) : res (lex * option mtoken) :=
  let v := value t in
  (* comment state: everything up to the closing braces is skipped *)
  let skip := match st l with SComment => negb (is_close v) | _ => false end in
  if skip then Ok (l, None)
  else
    let l := match st l with SComment => {| st := SClosure; closing := closing l; op1 := op1 l; op2 := op2 l; var := var l |} | _ => l end in
    match ty t with
    | TSpecial => match st l with SValue => Ok (l, Some {| mk := KValue; mv := v |}) | _ => Err EUnexpectedSymbol end
    | TSymbol =>
        match st l with
        | SValue => if str_eqb v s_open2 then Ok ({| st := SOp1; closing := s_close2; op1 := op1 l; op2 := op2 l; var := var l |}, None)
                    else if str_eqb v s_open3 then Ok ({| st := SOp1; closing := s_close3; op1 := op1 l; op2 := op2 l; var := var l |}, None)
                    else Err EUnexpectedSymbol
        | SOp1 => if str_eqb v s_bang then Ok ({| st := SComment; closing := closing l; op1 := v; op2 := op2 l; var := var l |}, None)
                  else if str_eqb v s_slash || str_eqb v s_hash || str_eqb v s_caret
                       then Ok ({| st := SOp2; closing := closing l; op1 := v; op2 := op2 l; var := var l |}, None)
                       else Err EUnexpectedSymbol
        | SVar => if is_close v then
                    let l' := if negb (str_eqb (op1 l) s_slash)
                              then {| st := SClosure; closing := closing l; op1 := op1 l; op2 := []; var := op2 l |}
                              else {| st := SClosure; closing := closing l; op1 := op1 l; op2 := op2 l; var := var l |} in
                    close_tag l' v
                  else Err EUnexpectedSymbol
        | SClosure => if is_close v then close_tag l v else Err EUnexpectedSymbol
        | _ => Err EUnexpectedSymbol
        end
    | TWord =>
        match st l with
        | SOp1 => Ok ({| st := SClosure; closing := closing l; op1 := op1 l; op2 := op2 l; var := v |}, None)
        | SOp2 => if str_eqb v s_if || str_eqb v s_unless
                  then Ok ({| st := SVar; closing := closing l; op1 := op1 l; op2 := v; var := var l |}, None)
                  else Ok ({| st := SClosure; closing := closing l; op1 := op1 l; op2 := op2 l; var := v |}, None)
        | SVar => Ok ({| st := SClosure; closing := closing l; op1 := op1 l; op2 := op2 l; var := v |}, None)
        | _ => Err EUnexpectedSymbol
        end
    | TWhitespace => Ok (l, None)
    | TOther => Err EUnexpectedSymbol
    end.

Fixpoint lex_all (l : lex) (ts : list token) (acc : list mtoken) : res (list mtoken) :=
  match ts with
  | [] => match st l with SValue => Ok acc | _ => Err EUnexpectedEnd end
  | t :: r => match lex_tok l t with
              | Ok (l', Some m) => lex_all l' r (acc ++ [m])
              | Ok (l', None) => lex_all l' r acc
              | Err e => Err e | Panic => Panic | Fuel => Fuel end
  end.

(* ---------- performSyntaxAnalysis / performSyntaxAnalysisForSection ---------- *)
Inductive mnode := Leaf (k : mkind) (v : str) | Sec (k : mkind) (v : str) (body : list mnode).

Definition is_sec (k : mkind) := match k with KSection | KInverted => true | _ => false end.

(* enclosing = None at top level, Some variable inside a section *)
Fixpoint parse_seq (fuel : nat) (enclosing : option str) (ts : list mtoken) (acc : list mnode) : res (list mnode * list mtoken) :=
  match fuel with O => Fuel | S f =>
    match ts with
    | [] => match enclosing with None => Ok (acc, []) | Some _ => Err ENotClosedSection end
    | t :: r =>
        match mk t, enclosing with
        | KSectionEnd, None => Err EUnexpectedSectionEnd
        | KSectionEnd, Some v => if str_eqb (mv t) v || str_eqb (mv t) [] then Ok (acc, r) else Err EUnexpectedSectionEnd
        | k, _ =>
            if is_sec k then
              match r with
              | [] => Err EUnexpectedEnd                                    (* checkForMoreTokens in ...ForSection *)
              | _ => match parse_seq f (Some (mv t)) r [] with
                     | Ok (body, r') => parse_seq f enclosing r' (acc ++ [Sec k (mv t) body])
                     | Err e => Err e | Panic => Panic | Fuel => Fuel end
              end
            else parse_seq f enclosing r (acc ++ [Leaf k (mv t)])
        end
    end
  end.

Definition mparse (ts : list mtoken) : res (list mnode) :=
  match ts with
  | [] => Err EUnexpectedEnd
  | _ => match parse_seq (S (length ts)) None ts [] with Ok (ns, _) => Ok ns | Err e => Err e | Panic => Panic | Fuel => Fuel end
  end.

(* ---------- evaluateTokens ---------- *)
Section Render.
  Variable lower : str -> str.                 (* strings.ToLower *)
  Variable escape : str -> str.                (* escapeString *)
  Definition get_var (vars : list (str * str)) (name : str) : option str :=
    match name with [] => None | _ =>
      match find (fun kv => str_eqb (lower (fst kv)) (lower name)) vars with Some kv => Some (snd kv) | None => None end end.
  Definition defined (vars : list (str * str)) (name : str) : bool :=
    match get_var vars name with Some (_ :: _) => true | _ => false end.

  Fixpoint render_node (vars : list (str * str)) (n : mnode) : str :=
    match n with
    | Leaf KValue v => v
    | Leaf KVariable v => match get_var vars v with Some x => x | None => [] end
    | Leaf KEscaped v => match get_var vars v with Some x => escape x | None => [] end
    | Sec KSection v body => if defined vars v then (fix go (l : list mnode) := match l with [] => [] | x :: r => render_node vars x ++ go r end) body else []
    | Sec KInverted v body => if defined vars v then [] else (fix go (l : list mnode) := match l with [] => [] | x :: r => render_node vars x ++ go r end) body
    | _ => []                                                            (* comments *)
    end.
  Definition render (vars : list (str * str)) (ns : list mnode) : str :=
    (fix go (l : list mnode) := match l with [] => [] | x :: r => render_node vars x ++ go r end) ns.
End Render.
