From Coq Require Import List ZArith Bool Lia.
Import ListNotations.
Open Scope Z_scope.

(* Model of io/StringScanner.go (after the Unread repairs F1, F2).
   p = position + 1 : number of slots consumed, 0 .. len+1 (the last is the end-of-input slot). *)
Record scanner := { content : list Z; p : nat; line : Z; col : Z }.

Definition eof : Z := -1.
Definition LF : Z := 10.
Definition CR : Z := 13.

(* charAt(position) with position = i - 1 *)
Definition char_at (l : list Z) (i : nat) : Z := match i with O => eof | S j => nth j l eof end.

Definition is_line (before at_ after : Z) : bool :=
  if negb (at_ =? LF) && negb (at_ =? CR) then false
  else if (at_ =? CR) && ((before =? LF) || (after =? LF)) then false
  else true.
Definition is_column (at_ : Z) : bool := negb ((at_ =? LF) || (at_ =? CR)).

Definition init (l : list Z) : scanner := {| content := l; p := 0; line := 1; col := 0 |}.

(* line/column update for reading the character in slot i (1-based), i <= len *)
Definition advance (l : list Z) (i : nat) (lc : Z * Z) : Z * Z :=
  let '(ln, c) := lc in
  let '(ln, c) := if is_line (char_at l (i - 1)) (char_at l i) (char_at l (i + 1)) then (ln + 1, 0) else (ln, c) in
  if is_column (char_at l i) then (ln, c + 1) else (ln, c).

Definition read (s : scanner) : Z * scanner :=
  let l := content s in
  if Nat.ltb (length l) (p s) then (eof, s)                                   (* (position+1) > len *)
  else if Nat.ltb (p s) (length l) then
    let '(ln, c) := advance l (S (p s)) (line s, col s) in
    (char_at l (S (p s)), {| content := l; p := S (p s); line := ln; col := c |})
  else (eof, {| content := l; p := S (p s); line := line s; col := col s |}).

(* full recomputation loop of Unread: scan slots 1..k *)
Fixpoint rescan (l : list Z) (k : nat) : Z * Z :=
  match k with O => (1, 0) | S j => advance l (S j) (rescan l j) end.

Definition unread (s : scanner) : scanner :=
  let l := content s in
  match p s with
  | O => s                                                                   (* position < 0 *)
  | S q =>
    if Nat.ltb (length l) (p s) then {| content := l; p := q; line := line s; col := col s |}   (* end-of-input slot *)
    else if is_column (char_at l (p s)) then {| content := l; p := q; line := line s; col := col s - 1 |}
    else let '(ln, c) := rescan l q in {| content := l; p := q; line := ln; col := c |}
  end.

Fixpoint unread_many (n : nat) (s : scanner) : scanner := match n with O => s | S n => unread_many n (unread s) end.
Definition peek (s : scanner) : Z := char_at (content s) (S (p s)).
Definition peek_line (s : scanner) : Z :=
  let l := content s in if is_line (char_at l (p s)) (char_at l (S (p s))) (char_at l (S (S (p s)))) then line s + 1 else line s.
Definition peek_column (s : scanner) : Z :=
  let l := content s in
  if is_line (char_at l (p s)) (char_at l (S (p s))) (char_at l (S (S (p s)))) then 0
  else if is_column (char_at l (S (p s))) then col s + 1 else col s.
Definition reset (s : scanner) : scanner := {| content := content s; p := 0; line := 1; col := 0 |}.

Inductive op := ORead | OUnread | OUnreadMany (n : nat) | OPeek | OReset.
Definition step (s : scanner) (o : op) : scanner :=
  match o with ORead => snd (read s) | OUnread => unread s | OUnreadMany n => unread_many n s | OPeek => s | OReset => reset s end.

(* ---------- specification: line/column by a fresh forward scan ---------- *)
Definition lc (l : list Z) (k : nat) : Z * Z := rescan l (min k (length l)).

Definition Inv (s : scanner) : Prop := (p s <= S (length (content s)))%nat /\ (line s, col s) = lc (content s) (p s).
