(* C15 (options are a post-processing of the raw stream), termination and panic-freedom of the main loop,
   and C04 (lossless) for any tokenizer whose produce function returns exactly what it consumes. *)
Require Import Base Cursor Tokenizer.

Section Proofs.
  Variable M : Type.
  Variable plc : cur -> Z * Z.
  Variable produce : M -> cur -> option (rawtok * cur * M).
  Variable decode : str -> Z -> str.

  (* what a tokenizer configuration has to provide *)
  Definition produce_ok : Prop := forall m c, wf_str (content c) -> at_end c = false ->
    exists r c' m', produce m c = Some (r, c', m') /\
      content c' = content c /\ (p c < p c' <= S (clen c))%nat /\
      value (rtok r) = slice (content c) (p c) (npos c') /\
      (line (rtok r), col (rtok r)) = plc c /\ ty (rtok r) <> Eof.
  Hypothesis Hok : produce_ok.

  Notation inner := (inner M plc produce decode).
  Notation read_next := (read_next M plc produce decode).
  Notation tokenize := (tokenize M plc produce decode).
  Notation raw := (raw M produce).
  Notation post := (post decode).

  Lemma remaining_shrinks c c' : content c' = content c -> (p c < p c')%nat -> at_end c = false -> (remaining c' < remaining c)%nat.
  Proof. intros Hc Hp He. unfold remaining, clen, at_end, clen in *. rewrite Hc. apply Nat.leb_gt in He. lia. Qed.

  Fixpoint first_emitted (o : options) (last : ttype) (rs : list rawtok) : option token * list rawtok :=
    match rs with
    | [] => (None, [])
    | r :: rs =>
      let tok := rtok r in
      let lc := (line tok, col tok) in
      if ttype_eqb (ty tok) Unknown && skipUnknown o then first_emitted o last rs
      else
        let tok := if from_quote r && decodeStrings o then mk (ty tok) (decode (value tok) (first_char r)) lc else tok in
        if ttype_eqb (ty tok) Comment && skipComments o then first_emitted o last rs
        else if ttype_eqb (ty tok) Whitespace && ttype_eqb last Whitespace && skipWhitespaces o then first_emitted o last rs
        else
          let tok := if ttype_eqb (ty tok) Whitespace && mergeWhitespaces o then mk Whitespace [32] lc else tok in
          let tok := if unifyNumbers o && is_numeric (ty tok) then mk Number (value tok) lc else tok in
          (Some tok, rs)
    end.

  Lemma post_first o e : forall rs last,
    post o last rs e =
    match first_emitted o last rs with
    | (None, _) => if negb (ttype_eqb last Eof) && negb (skipEof o) then [mk Eof [] e] else []
    | (Some t, rest) => t :: post o (ty t) rest e
    end.
  Proof.
    induction rs as [|r rs IH]; intros last; [reflexivity|]. cbn [Tokenizer.post first_emitted].
    destruct (ttype_eqb (ty (rtok r)) Unknown && skipUnknown o); [apply IH|].
    match goal with |- context [ttype_eqb (ty ?t) Comment && skipComments o] => destruct (ttype_eqb (ty t) Comment && skipComments o) end; [apply IH|].
    match goal with |- context [ttype_eqb (ty ?t) Whitespace && ttype_eqb last Whitespace && skipWhitespaces o] =>
      destruct (ttype_eqb (ty t) Whitespace && ttype_eqb last Whitespace && skipWhitespaces o) eqn:E end.
    - apply andb_prop in E. destruct E as [E _]. apply andb_prop in E. destruct E as [_ E]. apply ttype_eqb_eq in E. subst last. apply IH.
    - reflexivity.
  Qed.

  Lemma first_emitted_shorter o last : forall rs t rest, first_emitted o last rs = (Some t, rest) -> (length rest < length rs)%nat.
  Proof.
    induction rs as [|r rs IHrs]; intros t rest; cbn [first_emitted]; [discriminate|].
    repeat match goal with |- context [if ?b then _ else _] => destruct b end; intros H;
      try (apply IHrs in H; simpl; lia); inversion H; subst; simpl; lia.
  Qed.

  (* the raw stream exists (no panic), does not depend on surplus fuel, and ends at the end of input *)
  Lemma raw_total : forall n m c, wf_str (content c) -> (remaining c < n)%nat ->
    exists rs cend, raw n m c = Some (rs, cend) /\ at_end cend = true /\ content cend = content c /\ (length rs <= remaining c)%nat /\
                    forall k, (remaining c < k)%nat -> raw k m c = Some (rs, cend).
  Proof.
    induction n as [|n IH]; intros m c Hwf Hn; [lia|]. cbn [Tokenizer.raw].
    destruct (at_end c) eqn:E.
    - exists [], c. repeat split; auto; [simpl; lia|]. intros k Hk. destruct k; [lia|]. cbn [Tokenizer.raw]. rewrite E. reflexivity.
    - destruct (Hok m c Hwf E) as (r & c' & m' & Hp & Hc & Hpp & _). rewrite Hp.
      pose proof (remaining_shrinks c c' Hc ltac:(lia) E) as Hs.
      destruct (IH m' c') as (rs & cend & Hr & He & Hce & Hl & Hk); [rewrite Hc; auto|lia|].
      rewrite Hr. exists (r :: rs), cend. repeat split; auto; [congruence|simpl; lia|].
      intros k Hk'. destruct k; [lia|]. cbn [Tokenizer.raw]. rewrite E, Hp. rewrite Hk by lia. reflexivity.
  Qed.

  Lemma inner_spec o : forall n m c last rs cend, wf_str (content c) -> (remaining c < n)%nat -> raw n m c = Some (rs, cend) ->
    exists c' m', inner n o m c last = Ok (fst (first_emitted o last rs), c', m') /\
               raw n m' c' = Some (snd (first_emitted o last rs), cend) /\ (remaining c' <= remaining c)%nat /\ content c' = content c /\
               (fst (first_emitted o last rs) = None -> c' = cend).
  Proof.
    induction n as [|n IH]; intros m c last rs cend Hwf Hn Hr; [lia|]. cbn [Tokenizer.raw] in Hr. cbn [Tokenizer.inner].
    destruct (at_end c) eqn:E.
    { inversion Hr; subst. exists cend, m. cbn [first_emitted fst snd]. repeat split; auto. cbn [Tokenizer.raw]. rewrite E. reflexivity. }
    destruct (Hok m c Hwf E) as (r & c1 & m1 & Hp & Hc & Hpp & _ & Hpos & _). rewrite Hp in *.
    pose proof (remaining_shrinks c c1 Hc ltac:(lia) E) as Hs.
    destruct (raw n m1 c1) as [[rs1 ce]|] eqn:Er; [|discriminate]. inversion Hr; subst rs cend. clear Hr.
    destruct (IH m1 c1 last rs1 ce) as (c' & m' & Hi & Hr' & Hsz & Hcc & Hnone); [rewrite Hc; auto|lia|exact Er|].
    assert (Hlift: raw (S n) m' c' = Some (snd (first_emitted o last rs1), ce)).
    { destruct (raw_total n m' c') as (rs2 & ce2 & H1 & _ & _ & _ & Hk); [congruence|lia|]. rewrite Hk by lia. congruence. }
    cbn [first_emitted]. rewrite <- Hpos.
    destruct (ttype_eqb (ty (rtok r)) Unknown && skipUnknown o).
    { exists c', m'. repeat split; auto; [lia|congruence]. }
    match goal with |- context [ttype_eqb (ty ?t) Comment && skipComments o] => destruct (ttype_eqb (ty t) Comment && skipComments o) end.
    { exists c', m'. repeat split; auto; [lia|congruence]. }
    match goal with |- context [ttype_eqb (ty ?t) Whitespace && ttype_eqb last Whitespace && skipWhitespaces o] =>
      destruct (ttype_eqb (ty t) Whitespace && ttype_eqb last Whitespace && skipWhitespaces o) eqn:Ew end.
    { apply andb_prop in Ew. destruct Ew as [Ew _]. apply andb_prop in Ew. destruct Ew as [_ Ew]. apply ttype_eqb_eq in Ew.
      rewrite <- Ew. exists c', m'. repeat split; auto; [lia|congruence]. }
    exists c1, m1. cbn [fst snd]. repeat split; auto; try lia.
    - destruct (raw_total n m1 c1) as (rs2 & ce2 & H1 & _ & _ & _ & Hk); [congruence|lia|]. rewrite Hk by lia. congruence.
    - discriminate.
  Qed.

  Lemma options_post_gen o : forall k rs, (length rs < k)%nat ->
    forall fuel n m c last cend, wf_str (content c) -> (S (length rs) < fuel)%nat -> (remaining c < n)%nat -> raw n m c = Some (rs, cend) ->
    tokenize fuel o m c last = Ok (post o last rs (plc cend)).
  Proof.
    induction k as [|k IHk]; intros rs Hk fuel n m c last cend Hwf Hf Hn Hr; [lia|].
    assert (Hr0: raw (S (remaining c)) m c = Some (rs, cend)).
    { destruct (raw_total n m c Hwf Hn) as (rs2 & ce2 & H1 & _ & _ & _ & Hk2). rewrite Hk2 by lia. congruence. }
    destruct (inner_spec o (S (remaining c)) m c last rs cend Hwf) as (c' & m' & Hi & Hr' & Hsz & Hcc & Hnone); [lia|exact Hr0|].
    destruct fuel as [|fuel]; [lia|].
    rewrite post_first. cbn [Tokenizer.tokenize]. unfold Tokenizer.read_next. rewrite Hi.
    destruct (first_emitted o last rs) as [[t|] rest] eqn:Ef; cbn [fst snd] in *.
    - pose proof (first_emitted_shorter _ _ _ _ _ Ef) as Hlen.
      rewrite (IHk rest) with (n := S (remaining c)) (cend := cend); auto; try lia. congruence.
    - rewrite (Hnone eq_refl).
      destruct (negb (ttype_eqb last Eof) && negb (skipEof o)) eqn:Ee; [|reflexivity].
      destruct (raw_total (S (remaining c)) m c Hwf ltac:(lia)) as (rs2 & ce2 & H1 & Hend & _). rewrite Hr0 in H1. inversion H1; subst ce2.
      destruct fuel as [|fuel]; [lia|].
      cbn [ty mk Tokenizer.tokenize]. unfold Tokenizer.read_next. cbn [Tokenizer.inner]. rewrite Hend. reflexivity.
  Qed.

  (* C15 *)
  Theorem options_are_post o m s : wf_str s ->
    exists rs cend, raw (S (length s)) m {| content := s; p := 0 |} = Some (rs, cend) /\
      tokenize_buffer M plc produce decode o m s = Ok (post o Unknown rs (plc cend)).
  Proof.
    intros Hwf. set (c := {| content := s; p := 0 |}).
    destruct (raw_total (S (length s)) m c Hwf ltac:(unfold remaining, clen; simpl; lia)) as (rs & cend & Hr & _ & _ & Hl & _).
    exists rs, cend. split; [exact Hr|]. unfold tokenize_buffer.
    apply options_post_gen with (k := S (length rs)) (n := S (length s)); auto; unfold remaining, clen in *; simpl in *; lia.
  Qed.

  (* C03, tokenizer part: never Fuel, never Panic *)
  Corollary tokenize_total o m s : wf_str s -> exists ts, tokenize_buffer M plc produce decode o m s = Ok ts.
  Proof. intros Hwf. destruct (options_are_post o m s Hwf) as (rs & cend & _ & H). eauto. Qed.

  (* C04: the raw values concatenate to the input *)
  Lemma slice_nonempty l a b : (a < b <= length l)%nat -> slice l a b <> [].
  Proof. intros H E. apply (f_equal (@length Z)) in E. rewrite slice_length in E by lia. simpl in E. lia. Qed.

  Lemma raw_concat : forall n m c rs cend, wf_str (content c) -> (p c <= clen c)%nat -> (remaining c < n)%nat -> raw n m c = Some (rs, cend) ->
    concat (map (fun r => value (rtok r)) rs) = slice (content c) (p c) (clen c) /\ Forall (fun r => value (rtok r) <> [] /\ ty (rtok r) <> Eof) rs.
  Proof.
    induction n as [|n IH]; intros m c rs cend Hwf Hle Hn Hr; [lia|]. cbn [Tokenizer.raw] in Hr.
    destruct (at_end c) eqn:E.
    - inversion Hr; subst rs cend. unfold at_end in E. apply Nat.leb_le in E. simpl. replace (p c) with (clen c) by lia. rewrite slice_nil. auto.
    - destruct (Hok m c Hwf E) as (r & c1 & m1 & Hp & Hc & Hpp & Hv & _ & Hty). rewrite Hp in Hr.
      pose proof (remaining_shrinks c c1 Hc ltac:(lia) E) as Hs.
      destruct (raw n m1 c1) as [[rs1 ce]|] eqn:Er; [|discriminate]. inversion Hr; subst rs cend.
      unfold at_end in E. apply Nat.leb_gt in E.
      assert (Hcl: clen c1 = clen c) by (unfold clen; rewrite Hc; reflexivity).
      destruct (Nat.le_gt_cases (p c1) (clen c1)) as [Hin|Hout].
      + destruct (IH m1 c1 rs1 ce) as [H1 H2]; [rewrite Hc; auto|auto|lia|exact Er|].
        assert (Hnp: npos c1 = p c1) by (unfold npos; apply Nat.min_l; lia).
        cbn [map concat]. rewrite H1, Hv, Hc, Hnp, Hcl. split.
        * apply slice_app. lia.
        * constructor; auto. split; [|exact Hty]. rewrite Hv, Hnp. apply slice_nonempty. unfold clen in *. lia.
      + assert (Hend: at_end c1 = true) by (unfold at_end; apply Nat.leb_le; lia).
        destruct n; [lia|]. cbn [Tokenizer.raw] in Er. rewrite Hend in Er. inversion Er; subst rs1 ce.
        assert (Hnp: npos c1 = clen c) by (unfold npos; rewrite Hcl; apply Nat.min_r; lia).
        cbn [map concat]. rewrite app_nil_r, Hv, Hnp. split; [reflexivity|].
        constructor; auto. split; [|exact Hty]. rewrite Hv, Hnp. apply slice_nonempty. unfold clen in *. lia.
  Qed.

  Lemma post_no_options : forall rs last e, last <> Eof -> Forall (fun r => ty (rtok r) <> Eof) rs ->
    post no_options last rs e = map rtok rs ++ [mk Eof [] e].
  Proof.
    induction rs as [|r rs IH]; intros last e Hl Hf; cbn [Tokenizer.post map app].
    - cbn [no_options skipEof negb]. rewrite andb_true_r.
      destruct (ttype_eqb last Eof) eqn:E; [apply ttype_eqb_eq in E; contradiction|reflexivity].
    - cbn [no_options skipUnknown decodeStrings skipComments skipWhitespaces mergeWhitespaces unifyNumbers]. rewrite !andb_false_r. cbn [andb].
      inversion Hf; subst. rewrite IH; auto.
  Qed.

  Theorem lossless m s : wf_str s ->
    exists body e, tokenize_buffer M plc produce decode no_options m s = Ok (body ++ [e]) /\
      concat (map value (body ++ [e])) = s /\ ty e = Eof /\ value e = [] /\ Forall (fun t => value t <> []) body.
  Proof.
    intros Hwf. destruct (options_are_post no_options m s Hwf) as (rs & cend & Hr & Ht). rewrite Ht.
    destruct (raw_concat (S (length s)) m {| content := s; p := 0 |} rs cend Hwf ltac:(simpl; lia) ltac:(unfold remaining, clen; simpl; lia) Hr) as [Hcat Hne].
    cbn [content p] in Hcat. change (clen {| content := s; p := 0 |}) with (length s) in Hcat. rewrite slice_full in Hcat.
    rewrite post_no_options; [|discriminate|eapply Forall_impl; [|exact Hne]; intros a [_ H]; exact H].
    exists (map rtok rs), (mk Eof [] (plc cend)). split; [reflexivity|]. split.
    - rewrite map_app, concat_app. simpl. rewrite app_nil_r, map_map. exact Hcat.
    - repeat split; auto. rewrite Forall_map. eapply Forall_impl; [|exact Hne]. intros a [H _]. exact H.
  Qed.
End Proofs.

Print Assumptions lossless.
Print Assumptions options_are_post.
