(* Executable glue for C03: the whole pipeline with the REAL operator semantics.
   input  = L [I 0; expression-input; oracle; manager]    expression-input = L [text; tokens; env; tree] with env = L [L [name; value] ...]
              (values as for C06); the expression is parsed by the parser model and evaluated by the stack machine
              over the variant model with the default functions
            output = L [I 0; value] | L [I 1; I code]
              codes: 1..7 syntax errors (RunC02), 20 VAR_NOT_FOUND, 21 FUNC_NOT_FOUND, 22 INTERNAL, 31.. = 30 + operator / function error code (RunC08)
          | L [I 1; template-input]     -> as C10
          | L [I 2; tokenizer-input]    -> as C04
          | L [I 3; quote-input]        -> as C14 *)
From Coq Require Import List ZArith Bool.
From Coq Require Import Floats.SpecFloat.
Import ListNotations.
Require Import Sx Tables HostFloat Variant Functions RunVar RunC08 ExprParser ExprLex ExprEval RunC02 RunC10 RunTok RunC14 TokModel.
Open Scope Z_scope.

Section Real.
  Variable orc : list sx.
  Variable safe : bool.
  Variable toks : list sx.
  Variable env : list sx.

  Notation V := (value (HF orc)).
  Definition r_const (i : Z) : V :=
    let '(t, p) := const_payload toks i in
    let t := gz t in
    if t =? vt_Boolean then VBool (HF orc) (gb p) else if t =? vt_Integer then VInt (HF orc) (gz p)
    else if t =? vt_Float then VFloat (HF orc) (b32_of_bits (gz p)) else VString (HF orc) (gstr p).
  (* VariableCollection.FindByName: first entry whose upper-cased name matches *)
  Fixpoint env_find_ci (e : list sx) (n : list Z) : option sx :=
    match e with [] => None | b :: r => if Variant.str_eqb (upper (gstr (nth_sx 0 b))) (upper n) then Some (nth_sx 1 b) else env_find_ci r n end.
  Definition r_var (i : Z) : ExprEval.outcome V :=
    match env_find_ci env (gstr (name_of toks i)) with Some v => ExprEval.Val (dval orc v) | None => ExprEval.Fail 20 end.

  Definition lift (r : Variant.outcome V) : ExprEval.outcome V :=
    match r with Variant.Ok v => ExprEval.Val v | Variant.Err c => ExprEval.Fail (Z.to_nat (30 + err_code8 c)) | Variant.Panic => ExprEval.Panic end.

  Definition binop_opcode (o : binop) : Z :=
    match o with
    | OAdd => 1 | OSub => 2 | OMul => 3 | ODiv => 4 | OMod => 5 | OPow => 6 | OAnd => 7 | OOr => 8 | OXor => 9 | OShl => 10 | OShr => 11
    | OEq => 14 | ONe => 15 | OGt => 16 | OLt => 17 | OGe => 18 | OLe => 19 | OIn | ONotIn => 20 | OElem => 21 | OLike | ONotLike => 0
    end.
  Definition r_bin (o : binop) (v1 v2 : V) : ExprEval.outcome V :=
    match o with
    | OLike | ONotLike => ExprEval.Fail 22
    | OIn => lift (apply_op orc safe 20 v2 v1)
    | ONotIn => match apply_op orc safe 20 v2 v1 with
                | Variant.Ok (VBool _ b) => ExprEval.Val (VBool (HF orc) (negb b))
                | r => lift r end
    | _ => lift (apply_op orc safe (binop_opcode o) v1 v2)
    end.
  Definition r_un (o : unop) (v : V) : ExprEval.outcome V :=
    match o with
    | UNot => lift (apply_op orc safe 12 v v) | UNeg => lift (apply_op orc safe 13 v v)
    | UIsNull => ExprEval.Val (VBool (HF orc) (is_null (HF orc) v)) | UIsNotNull => ExprEval.Val (VBool (HF orc) (negb (is_null (HF orc) v)))
    end.
  Definition r_call (i : Z) (args : list V) : ExprEval.outcome V :=
    match find_fn (gstr (name_of toks i)) with
    | None => ExprEval.Fail 21
    | Some code =>
        lift (delegated (HF orc) (mgr orc safe)
          (fun c f => b64_of_bits (gz (ask orc 30 (L [I c; I (bits_of_b64 f)]))))
          SFabs SFabs (fun l => gz (ask orc 10 (L (map I l)))) (fun t => gz (ask orc 11 (I t)))
          0 0 (S754_zero false) (b32_of_bits 1076754516) (b32_of_bits 1078530011) code args)
    end.
  Definition r_int (k : nat) : V := VInt (HF orc) (Z.of_nat k).
  Definition r_as_nat (v : V) : option nat := match v with VInt _ z => if 0 <=? z then Some (Z.to_nat z) else None | _ => None end.

  Definition r_run (prog : list rinstr) : ExprEval.outcome V := run V r_const r_var r_bin r_un r_call r_int r_as_nat prog [].
End Real.

Definition model_expr (input : sx) : sx :=
  let e := nth_sx 1 input in
  let orc := gl (nth_sx 2 input) in
  let safe := gb (nth_sx 3 input) in
  let toks := gl (nth_sx 1 e) in
  let env := gl (nth_sx 2 e) in
  match parse_tokens toks with
  | inr _ => L [I 1; I 1]
  | inl (ExprParser.Err er) => L [I 1; I (perr_code er)]
  | inl ExprParser.Fuel => L [I 1; I 9]
  | inl (ExprParser.Ok prog) =>
      match r_run orc safe toks env prog with
      | ExprEval.Val v => L [I 0; enc_val orc v]
      | ExprEval.Fail O => L [I 1; I 22]
      | ExprEval.Fail c => L [I 1; I (Z.of_nat c)]
      | ExprEval.Panic => L [I (-999)]
      end
  end.

Definition model_C03 (input : sx) : sx :=
  match gz (nth_sx 0 input) with
  | 0 => model_expr input
  | 1 => model_C10 (nth_sx 1 input)
  | 2 => model_TOK (nth_sx 1 input)
  | 4 => L [I 1; I 1]                          (* the resource probe K2 (a child process of the harness): nothing to model *)
  | _ => model_C14 (nth_sx 1 input)
  end.
