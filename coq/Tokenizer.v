(* AbstractTokenizer.ReadNextToken / TokenizeStream (after repairs F8-F10) over an abstract "produce one raw
   token" function, and the specification side: raw stream + post-processing by the seven options.
   M is extra tokenizer mode carried between tokens (unit, or the mustache tokenizer's text/tag flag). *)
Require Import Base Cursor.

Record rawtok := { rtok : token; from_quote : bool; first_char : Z }.
Record options := { skipUnknown : bool; skipWhitespaces : bool; skipComments : bool; skipEof : bool;
                    mergeWhitespaces : bool; unifyNumbers : bool; decodeStrings : bool }.
Definition no_options := {| skipUnknown := false; skipWhitespaces := false; skipComments := false; skipEof := false;
                            mergeWhitespaces := false; unifyNumbers := false; decodeStrings := false |}.

Inductive res (A : Type) := Ok (a : A) | Panic | Fuel.
Arguments Ok {A}. Arguments Panic {A}. Arguments Fuel {A}.

Section Loop.
  Variable M : Type.
  Variable plc : cur -> Z * Z.                                  (* PeekLine, PeekColumn *)
  Variable produce : M -> cur -> option (rawtok * cur * M).     (* None = a state panicked *)
  Variable decode : str -> Z -> str.                            (* QuoteState().DecodeString, total (C14) *)

  Definition is_numeric (t : ttype) := match t with Integer | Float | HexDecimal => true | _ => false end.

  Fixpoint inner (fuel : nat) (o : options) (m : M) (c : cur) (last : ttype) : res (option token * cur * M) :=
    match fuel with O => Fuel | S fuel =>
      let lc := plc c in
      if at_end c then Ok (None, c, m)
      else
        match produce m c with
        | None => Panic
        | Some (r, c', m') =>
          let tok := rtok r in
          if ttype_eqb (ty tok) Unknown && skipUnknown o then inner fuel o m' c' last
          else
            let tok := if from_quote r && decodeStrings o then mk (ty tok) (decode (value tok) (first_char r)) lc else tok in
            if ttype_eqb (ty tok) Comment && skipComments o then inner fuel o m' c' last
            else if ttype_eqb (ty tok) Whitespace && ttype_eqb last Whitespace && skipWhitespaces o then inner fuel o m' c' Whitespace
            else
              let tok := if ttype_eqb (ty tok) Whitespace && mergeWhitespaces o then mk Whitespace [32] lc else tok in
              let tok := if unifyNumbers o && is_numeric (ty tok) then mk Number (value tok) lc else tok in
              Ok (Some tok, c', m')
        end
    end.

  Definition read_next (o : options) (m : M) (c : cur) (last : ttype) : res (option token * cur * M * ttype) :=
    match inner (S (remaining c)) o m c last with
    | Fuel => Fuel | Panic => Panic
    | Ok (tok, c', m') =>
      let lc := plc c' in
      let tok := match tok with
                 | None => if negb (ttype_eqb last Eof) && negb (skipEof o) then Some (mk Eof [] lc) else None
                 | Some t => Some t end in
      Ok (tok, c', m', match tok with None => Eof | Some t => ty t end)
    end.

  Fixpoint tokenize (fuel : nat) (o : options) (m : M) (c : cur) (last : ttype) : res (list token) :=
    match fuel with O => Fuel | S fuel =>
      match read_next o m c last with
      | Fuel => Fuel | Panic => Panic
      | Ok (None, _, _, _) => Ok []
      | Ok (Some t, c', m', last') =>
          match tokenize fuel o m' c' last' with Ok ts => Ok (t :: ts) | Panic => Panic | Fuel => Fuel end
      end
    end.

  (* TokenizeBuffer on a fresh scanner: LastTokenType = Unknown *)
  Definition tokenize_buffer (o : options) (m0 : M) (s : str) : res (list token) :=
    tokenize (S (S (length s))) o m0 {| content := s; p := 0 |} Unknown.

  (* ---------- specification ---------- *)
  Fixpoint raw (fuel : nat) (m : M) (c : cur) : option (list rawtok * cur) :=
    match fuel with O => Some ([], c) | S fuel =>
      if at_end c then Some ([], c)
      else match produce m c with
           | None => None
           | Some (r, c', m') => match raw fuel m' c' with Some (rs, cend) => Some (r :: rs, cend) | None => None end
           end
    end.

  Fixpoint post (o : options) (last : ttype) (rs : list rawtok) (eofpos : Z * Z) : list token :=
    match rs with
    | [] => if negb (ttype_eqb last Eof) && negb (skipEof o) then [mk Eof [] eofpos] else []
    | r :: rs =>
      let tok := rtok r in
      let lc := (line tok, col tok) in
      if ttype_eqb (ty tok) Unknown && skipUnknown o then post o last rs eofpos
      else
        let tok := if from_quote r && decodeStrings o then mk (ty tok) (decode (value tok) (first_char r)) lc else tok in
        if ttype_eqb (ty tok) Comment && skipComments o then post o last rs eofpos
        else if ttype_eqb (ty tok) Whitespace && ttype_eqb last Whitespace && skipWhitespaces o then post o Whitespace rs eofpos
        else
          let tok := if ttype_eqb (ty tok) Whitespace && mergeWhitespaces o then mk Whitespace [32] lc else tok in
          let tok := if unifyNumbers o && is_numeric (ty tok) then mk Number (value tok) lc else tok in
          tok :: post o (ty tok) rs eofpos
    end.
End Loop.
