(* Model of calculator/functions/DefaultFunctionCollection.go (after repairs F23-F25) over the variant model:
   the 32 calculators behind the 37 registered names, the arity checks, and the delegated wrapper that turns a Go
   panic inside a calculator into a CALC_FAILED error.  Elementary functions, rounding functions, the clock, the
   random source and calendar arithmetic are host functions (Section variables). *)
From Coq Require Import List ZArith Bool.
Import ListNotations.
Require Import Variant.
Open Scope Z_scope.

Section Functions.
  Variable H : hf.
  Variable convert : value H -> vtype -> outcome (value H).        (* the operations manager passed to Calculate *)
  Variable math1 : Z -> F64 H -> F64 H.                            (* math.Acos ... math.Sqrt, by calculator code *)
  Variable abs32 : F32 H -> F32 H.  Variable abs64 : F64 H -> F64 H.
  Variable make_date : list Z -> Z.                                 (* time.Date(y, m, d, h, mi, s, ns, Local) as Unix ns *)
  Variable weekday : Z -> Z.                                        (* Weekday of a date-time given as Unix ns *)
  Variable now_ticks : Z.  Variable now_ns : Z.  Variable rnd32 : F32 H.    (* clock and random source *)
  Variable const_e : F32 H.  Variable const_pi : F32 H.             (* float32(math.E), float32(math.Pi) *)

  Notation value := (value H).
  Definition param_err : str := [80; 67].        (* WRONG_PARAM_COUNT *)
  Definition calc_failed : str := [67; 70].      (* CALC_FAILED *)

  Definition check_count (ps : list value) (n : nat) (k : outcome value) : outcome value :=
    if Nat.eqb (length ps) n then k else Err param_err.

  Definition as_long (v : value) : outcome Z := match v with VLong _ z => Ok z | _ => Panic end.
  Definition as_integer (v : value) : outcome Z := match v with VInt _ z => Ok z | _ => Panic end.
  Definition as_bool (v : value) : outcome bool := match v with VBool _ b => Ok b | _ => Panic end.
  Definition as_dbl (v : value) : outcome (F64 H) := match v with VDouble _ f => Ok f | _ => Panic end.
  Definition as_time (v : value) : outcome Z := match v with VDateTime _ t => Ok t | _ => Panic end.
  Definition as_string (v : value) : outcome str := match v with VString _ s => Ok s | _ => Panic end.

  Definition to_long (v : value) : outcome Z := bind (convert v TLong) as_long.
  Definition to_integer (v : value) : outcome Z := bind (convert v TInteger) as_integer.
  Definition nth_param (ps : list value) (i : Z) : outcome value :=
    (* index out of range: Go panics (recovered by the caller); the bound is tested on Z so that an index like 2^63-1 is
       never turned into a unary number *)
    if (i <? 0) || (Z.of_nat (length ps) <=? i) then Panic else match nth_error ps (Z.to_nat i) with Some v => Ok v | None => Panic end.

  Fixpoint map_out {A B} (f : A -> outcome B) (l : list A) : outcome (list B) :=
    match l with [] => Ok [] | x :: r => bind (f x) (fun y => bind (map_out f r) (fun ys => Ok (y :: ys))) end.

  Definition f_timespan (ps : list value) : outcome value :=
    match length ps with
    | 1%nat => bind (to_long (nth 0 ps (VNull H))) (fun v => Ok (VTimeSpan H (wrap64 (ms * v))))
    | 3%nat | 4%nat | 5%nat =>
        bind (map_out to_long ps) (fun vs =>
          let g i := nth i vs 0 in
          let ticks := wrap64 (wrap64 (wrap64 (wrap64 (wrap64 (wrap64 (wrap64 (wrap64 (g 0%nat * 24) + g 1%nat) * 60) + g 2%nat) * 60) + g 3%nat) * 1000) + g 4%nat) in
          Ok (VTimeSpan H (wrap64 (ms * ticks))))
    | _ => Err param_err
    end.

  Definition f_date (ps : list value) : outcome value :=
    let n := length ps in
    if (n <? 1)%nat || (7 <? n)%nat then Err param_err
    else if Nat.eqb n 1 then bind (to_long (nth 0 ps (VNull H))) (fun v => Ok (VDateTime H (v * sec)))
    else bind (map_out to_integer ps) (fun vs =>
           let g i d := nth i vs d in
           Ok (VDateTime H (make_date [g 0%nat 0; g 1%nat 1; g 2%nat 1; g 3%nat 0; g 4%nat 0; g 5%nat 0; g 6%nat 0]))).

  (* Min / Max: fold with the manager's More / Less; the comparison result is read with AsBoolean *)
  Fixpoint pick (cmp : value -> value -> outcome value) (acc : value) (rest : list value) : outcome value :=
    match rest with
    | [] => Ok acc
    | v :: r => bind (cmp acc v) (fun t => bind (as_bool t) (fun b => pick cmp (if b then v else acc) r))
    end.
  Fixpoint sum_all (acc : value) (rest : list value) : outcome value :=
    match rest with [] => Ok acc | v :: r => bind (add H convert acc v) (fun s => sum_all s r) end.
  Definition at_least (ps : list value) (n : nat) (k : outcome value) : outcome value :=
    if (length ps <? n)%nat then Err param_err else k.

  Definition f_choose (ps : list value) : outcome value :=
    at_least ps 3 (bind (to_integer (nth 0 ps (VNull H))) (fun idx =>
      if Z.of_nat (length ps) <? wrap64 (idx + 1) then Err param_err else nth_param ps idx)).

  Definition f_abs (v : value) : outcome value :=
    match v with
    | VInt _ z => Ok (VInt H (if z <? 0 then wrap64 (- z) else z))
    | VLong _ z => Ok (VLong H (if z <? 0 then wrap64 (- z) else z))
    | VFloat _ f => Ok (VFloat H (abs32 f))
    | VDouble _ f => Ok (VDouble H (abs64 f))
    | _ => bind (convert v TDouble) (fun w => bind (as_dbl w) (fun f => Ok (VDouble H (abs64 f))))
    end.

  Definition f_math (code : Z) (v : value) : outcome value :=
    bind (convert v TDouble) (fun w => bind (as_dbl w) (fun f => Ok (VDouble H (math1 code f)))).

  Fixpoint is_prefix_of (a b : str) : bool :=
    match a, b with [] , _ => true | x :: a', y :: b' => (x =? y) && is_prefix_of a' b' | _, _ => false end.
  Fixpoint contains (s sub : str) : bool :=
    is_prefix_of sub s || match s with [] => false | _ :: r => contains r sub end.

  (* the calculator behind a registration, by its code in gen/Tables.v *)
  Definition calculate (code : Z) (ps : list value) : outcome value :=
    let p0 := nth 0 ps (VNull H) in
    match code with
    | 1 => check_count ps 0 (Ok (VLong H now_ticks))
    | 2 => f_timespan ps
    | 3 => check_count ps 0 (Ok (VDateTime H now_ns))
    | 4 => f_date ps
    | 5 => check_count ps 1 (bind (convert p0 TDateTime) (fun w => bind (as_time w) (fun t => Ok (VInt H (weekday t)))))
    | 6 => at_least ps 2 (pick (more H convert) p0 (tl ps))
    | 7 => at_least ps 2 (pick (less H convert) p0 (tl ps))
    | 8 => at_least ps 2 (sum_all p0 (tl ps))
    | 9 => check_count ps 3 (bind (convert p0 TBoolean) (fun c => bind (as_bool c) (fun b => Ok (if b then nth 1 ps (VNull H) else nth 2 ps (VNull H)))))
    | 10 => f_choose ps
    | 11 => check_count ps 0 (Ok (VFloat H const_e))
    | 12 => check_count ps 0 (Ok (VFloat H const_pi))
    | 13 => check_count ps 0 (Ok (VFloat H rnd32))
    | 14 => check_count ps 1 (f_abs p0)
    | 24 => check_count ps 1 (bind (convert p0 TDouble) (fun w => bind (as_dbl w) (fun f => Ok (VLong H (trunc64 H f)))))
    | 29 => check_count ps 1 (Ok (VBool H (is_null H p0)))
    | 30 => check_count ps 0 (Ok (VNull H))
    | 31 => check_count ps 2 (bind (convert p0 TString) (fun a => bind (convert (nth 1 ps (VNull H)) TString) (fun b =>
              bind (as_string a) (fun s => bind (as_string b) (fun sub => Ok (VBool H (contains s sub)))))))
    | 32 => Ok (VArray H ps)
    | _ => if (15 <=? code) && (code <=? 28) then check_count ps 1 (f_math code p0) else Err calc_failed
    end.

  (* DelegatedFunction.Calculate: a panic inside the calculator is recovered into an error *)
  Definition delegated (code : Z) (ps : list value) : outcome value :=
    match calculate code ps with Panic => Err calc_failed | r => r end.
End Functions.
