(* C16: the symbol state returns the longest registered symbol that is a prefix of the remaining input. *)
Require Import Base Cursor Trie TrieProofs TrieSpec.

(* deepest_read stops only at the end of input or where no child exists *)
Lemma deepest_max t l p0 : wf_str l -> forall fuel path s, J l p0 path s -> (length l - p s < fuel)%nat ->
  let r := deepest t fuel path s in
  p (snd r) = length l \/ node t (fst r ++ [at_ l (p (snd r))]) = None.
Proof.
  intros Hwf. induction fuel as [|f IH]; intros path s HJ Hf; [lia|]. cbn [deepest].
  destruct HJ as (Hc & Hp & Hpath). unfold read, clen. rewrite Hc.
  destruct (Nat.ltb_spec (length l) (p s)); [lia|].
  destruct (Nat.ltb_spec (p s) (length l)) as [Hlt|Hge].
  - assert (Hne: at_ l (p s) <> eof) by (intros E; apply (at_eof_iff l _ Hwf) in E; lia).
    destruct (Z.eqb_spec (at_ l (p s)) eof); [contradiction|]. cbn [negb].
    destruct (node t (path ++ [at_ l (p s)])) eqn:En.
    + apply IH; [|simpl; lia]. repeat split; simpl; auto; try lia. subst path. rewrite slice_snoc by lia. reflexivity.
    + right. simpl. exact En.
  - left. simpl. lia.
Qed.

(* the nodes of a built trie are closed under non-empty prefixes *)
Lemma has_ext_prefix regs a b : is_prefix a b = true -> has_ext regs b = true -> has_ext regs a = true.
Proof.
  unfold has_ext. rewrite !existsb_exists. intros Hab [r [Hin Hb]]. exists r. split; auto.
  apply is_prefix_spec in Hab. apply is_prefix_spec in Hb. destruct Hab as [x ->]. destruct Hb as [y Hy].
  apply is_prefix_spec. exists (x ++ y). rewrite Hy, app_assoc. reflexivity.
Qed.

Lemma node_spec_prefix regs a b : a <> [] -> is_prefix a b = true -> node_spec regs b <> None -> node_spec regs a <> None.
Proof.
  intros Ha Hab Hb. destruct a as [|x a]; [congruence|]. destruct b as [|y b]; [discriminate|].
  cbn [node_spec] in *. destruct (has_ext regs (y :: b)) eqn:E; [|congruence].
  rewrite (has_ext_prefix regs _ _ Hab E). discriminate.
Qed.

Definition valid_at (t : trie) (q : str) : bool := match node t q with Some i => valid i | None => false end.

(* unread_to_valid returns the longest valid prefix of the path it starts from *)
Lemma climb_longest t l p0 : forall fuel path s, J l p0 path s -> (length path <= fuel)%nat ->
  (forall k, (1 <= k <= length path)%nat -> node t (firstn k path) <> None) ->
  valid_at t (firstn 1 path) = true ->
  let r := climb t fuel path s in
  exists k, (1 <= k <= length path)%nat /\ fst r = firstn k path /\ valid_at t (fst r) = true /\
            (forall j, (k < j <= length path)%nat -> valid_at t (firstn j path) = false).
Proof.
  induction fuel as [|f IH]; intros path s HJ Hf Hnodes Hv1.
  - destruct path; [simpl in Hv1; unfold valid_at in Hv1; simpl in Hv1|simpl in Hf; lia].
    exfalso. destruct HJ as (_ & Hp & Hpath). apply (f_equal (@length Z)) in Hpath. rewrite slice_length in Hpath by lia. simpl in Hpath. lia.
  - cbn [climb]. destruct path as [|x path'].
    { exfalso. destruct HJ as (_ & Hp & Hpath). apply (f_equal (@length Z)) in Hpath. rewrite slice_length in Hpath by lia. simpl in Hpath. lia. }
    set (path := x :: path') in *.
    assert (Hfull: firstn (length path) path = path) by apply firstn_all.
    destruct (node t path) as [i|] eqn:En.
    2:{ exfalso. apply (Hnodes (length path)); [unfold path; simpl; lia|]. rewrite Hfull. exact En. }
    destruct (valid i) eqn:Ev.
    + exists (length path). split; [unfold path; simpl; lia|]. split; [cbn [fst]; symmetry; exact Hfull|].
      split; [cbn [fst]; unfold valid_at; rewrite En; exact Ev|]. intros j Hj. lia.
    + (* climb one level *)
      destruct path' as [|y path''].
      { exfalso. unfold valid_at, path in Hv1. cbn [firstn] in Hv1. unfold path in En. rewrite En in Hv1. congruence. }
      destruct HJ as (Hc & Hp & Hpath).
      assert (Hlen: length path = (p s - p0)%nat) by (rewrite Hpath; apply slice_length; lia).
      assert (HJ': J l p0 (removelast path) (unread s)).
      { unfold J, unread. cbn [content p]. split; [exact Hc|]. unfold path in Hlen. cbn [length] in Hlen. split; [lia|].
        rewrite Hpath. apply removelast_slice. lia. }
      assert (Hrl: removelast path = firstn (length path - 1) path).
      { rewrite removelast_firstn_len. f_equal; lia. }
      assert (Hrlen: length (removelast path) = (length path - 1)%nat).
      { rewrite Hrl, firstn_length. lia. }
      destruct (IH (removelast path) (unread s) HJ') as (k & Hk & Hr & Hvr & Hmax).
      * rewrite Hrlen. unfold path in *. simpl in *. lia.
      * intros k Hk. rewrite Hrl, firstn_firstn. rewrite Nat.min_l by lia. apply Hnodes. lia.
      * rewrite Hrl, firstn_firstn. rewrite Nat.min_l by (unfold path; simpl; lia). exact Hv1.
      * exists k. rewrite Hrlen in Hk. split; [lia|]. split.
        { rewrite Hr. rewrite Hrl, firstn_firstn. rewrite Nat.min_l by lia. reflexivity. }
        split; [exact Hvr|].
        intros j Hj. destruct (Nat.eq_dec j (length path)) as [->|Hne].
        { rewrite Hfull. unfold valid_at. rewrite En. exact Ev. }
        specialize (Hmax j). rewrite Hrlen in Hmax. rewrite Hrl, firstn_firstn in Hmax. rewrite Nat.min_l in Hmax by lia. apply Hmax. lia.
Qed.

Lemma deepest_node t : forall fuel path s, node t path <> None -> node t (fst (deepest t fuel path s)) <> None.
Proof.
  induction fuel as [|f IH]; intros path s H; cbn [deepest]; [exact H|].
  destruct (read s) as [c s']. destruct (negb (c =? eof)); [|exact H].
  destruct (node t (path ++ [c])) eqn:E; [|exact H]. apply IH. rewrite E. discriminate.
Qed.

Lemma prefix_of_skipn q a l : (a <= length l)%nat -> is_prefix q (skipn a l) = true -> q = slice l a (a + length q) /\ (a + length q <= length l)%nat.
Proof.
  intros Ha H. apply is_prefix_spec in H. destruct H as [r Hr].
  assert (Hl: (length q <= length (skipn a l))%nat) by (rewrite Hr, app_length; lia).
  rewrite skipn_length in Hl. split; [|lia].
  unfold slice. replace (a + length q - a)%nat with (length q) by lia. rewrite Hr.
  rewrite firstn_app, Nat.sub_diag, firstn_all. simpl. rewrite app_nil_r. reflexivity.
Qed.

Lemma slice_prefix l a b c : (a <= b <= c)%nat -> is_prefix (slice l a b) (slice l a c) = true.
Proof. intros H. apply is_prefix_spec. exists (slice l b c). symmetry. apply slice_app. lia. Qed.

Lemma slice_firstn l a b k : (a + k <= b)%nat -> (b <= length l)%nat -> firstn k (slice l a b) = slice l a (a + k).
Proof.
  intros H Hb. unfold slice. rewrite firstn_firstn. rewrite Nat.min_l by lia. f_equal. lia.
Qed.

Section Longest.
  Variable lc : cur -> Z * Z.
  Variable regs : list reg.
  Hypothesis Hregs : Forall valid_reg regs.
  Let T := build regs.

  Lemma valid_at_spec q : valid_at T q = true -> registered regs q = true \/ length q = 1%nat.
  Proof.
    unfold valid_at, T. rewrite build_spec by auto. destruct q as [|x q]; [discriminate|]. cbn [node_spec].
    destruct (has_ext regs (x :: q)); [|discriminate]. destruct (registered regs (x :: q)); [auto|].
    unfold implicit. destruct (Nat.eqb_spec (length (x :: q)) 1); [auto|discriminate].
  Qed.

  Lemma registered_valid q : q <> [] -> registered regs q = true -> valid_at T q = true /\ node T q <> None.
  Proof.
    intros Hq Hr. unfold valid_at, T. rewrite build_spec by auto. destruct q as [|x q]; [congruence|]. cbn [node_spec].
    rewrite (registered_has_ext _ _ Hr), Hr. split; [reflexivity|discriminate].
  Qed.

  (* C16 *)
  Theorem symbol_longest s0 : wf_str (content s0) -> (p s0 < clen s0)%nat ->
    let tok := fst (symbol_next lc T s0) in
    let input := skipn (p s0) (content s0) in
    is_prefix (value tok) input = true /\ value tok <> [] /\
    p (snd (symbol_next lc T s0)) = (p s0 + length (value tok))%nat /\
    (registered regs (value tok) = true \/ length (value tok) = 1%nat) /\
    (forall q, q <> [] -> registered regs q = true -> is_prefix q input = true -> (length q <= length (value tok))%nat) /\
    ty tok = (if registered regs (value tok) then last_type regs (value tok) else Symbol).
  Proof.
    intros Hwf Hlt.
    (* consumed = value, from the slice theorem *)
    destruct (symbol_slice_strong lc T (build_first_valid regs Hregs) s0 Hwf Hlt) as (Hc & Hp & Hval).
    set (l := content s0) in *. set (p0 := p s0) in *.
    assert (Hvlen: length (value (fst (symbol_next lc T s0))) = (p (snd (symbol_next lc T s0)) - p0)%nat).
    { rewrite Hval. apply slice_length. unfold clen in *. fold l in Hp. lia. }
    cbv zeta. split.
    { rewrite Hval. apply is_prefix_spec. exists (slice l (p (snd (symbol_next lc T s0))) (length l)).
      rewrite slice_app by (unfold clen in *; fold l in Hp; lia). unfold slice. rewrite firstn_all2; [reflexivity|]. rewrite skipn_length. lia. }
    split. { intros E. rewrite E in Hvlen. simpl in Hvlen. lia. }
    split. { lia. }
    (* now look inside *)
    unfold symbol_next in *. pose proof (win_start s0 Hlt) as Hw. destruct (read s0) as [c0 s1] eqn:Er. cbn [fst snd] in Hw.
    destruct Hw as (Hc1 & Hp1 & Hle1 & _ & Hch). fold l p0 in Hc1, Hp1, Hle1, Hch.
    assert (Hp1': p s1 = S p0).
    { unfold read in Er. destruct (Nat.ltb_spec (clen s0) (p s0)); [lia|]. destruct (Nat.ltb_spec (p s0) (clen s0)); [|lia]. inversion Er. reflexivity. }
    assert (Hc0: c0 = at_ l p0) by (rewrite Hch, Hp1'; reflexivity).
    assert (HJ1: J l p0 [c0] s1).
    { repeat split; auto; try (unfold clen in *; fold l in Hlt; lia). rewrite Hp1'. rewrite <- (slice_snoc _ p0 p0) by (unfold clen in *; fold l in Hlt; lia).
      rewrite slice_nil. simpl. f_equal. exact Hc0. }
    (* any registered prefix of the input starts with c0 *)
    assert (Hq0: forall q, q <> [] -> is_prefix q (skipn p0 l) = true -> is_prefix [c0] q = true).
    { intros q Hq Hpre. apply prefix_of_skipn in Hpre; [|unfold clen in *; fold l in Hlt; lia]. destruct Hpre as [Hqs Hqb]. destruct q as [|x q]; [congruence|].
      simpl in Hqb. rewrite Hqs. rewrite <- (slice_app l p0 (S p0)) by (simpl; lia).
      rewrite <- (slice_snoc l p0 p0) by lia. rewrite slice_nil. simpl. rewrite Hc0, Z.eqb_refl. reflexivity. }
    destruct (node T [c0]) as [i0|] eqn:En.
    - (* a registered first character: deepest read, then climb *)
      destruct (deepest_J T l p0 Hwf (S (clen s0)) [c0] s1 HJ1) as (HJ2 & Hhd). specialize (Hhd c0 eq_refl).
      pose proof (deepest_max T l p0 Hwf (S (clen s0)) [c0] s1 HJ1 ltac:(unfold clen; fold l; lia)) as Hmax.
      pose proof (deepest_node T (S (clen s0)) [c0] s1 ltac:(rewrite En; discriminate)) as HnD.
      destruct (deepest T (S (clen s0)) [c0] s1) as [D s2]. cbn [fst snd] in *.
      destruct HJ2 as (Hc2 & Hp2 & HD).
      assert (HDlen: length D = (p s2 - p0)%nat) by (rewrite HD; apply slice_length; lia).
      assert (Hnodes: forall k, (1 <= k <= length D)%nat -> node T (firstn k D) <> None).
      { intros k Hk. unfold T in *. rewrite build_spec in * by auto. apply (node_spec_prefix regs (firstn k D) D); auto.
        - intros E. apply (f_equal (@length Z)) in E. rewrite firstn_length in E. simpl in E. lia.
        - rewrite HD. rewrite slice_firstn by lia. apply slice_prefix. lia. }
      assert (Hv1: valid_at T (firstn 1 D) = true).
      { rewrite Hhd. unfold valid_at. rewrite En. apply (build_first_valid regs Hregs c0 i0 En). }
      destruct (climb_longest T l p0 (S (length D)) D s2 (conj Hc2 (conj Hp2 HD)) ltac:(lia) Hnodes Hv1) as (k & Hk & HR & HvR & HmaxR).
      destruct (climb T (S (length D)) D s2) as [R s3]. cbn [fst snd mk value ty] in *.
      split; [apply valid_at_spec; exact HvR|]. split.
      + (* maximality *)
        intros q Hq Hreg Hpre. destruct (registered_valid q Hq Hreg) as [Hvq Hnq].
        pose proof (prefix_of_skipn q p0 l ltac:(lia) Hpre) as [Hqs Hqb].
        assert (HqD: (length q <= length D)%nat).
        { destruct (Nat.le_gt_cases (length q) (length D)) as [|Hgt]; auto. exfalso.
          destruct Hmax as [Hend|Hnone]; [lia|].
          assert (Hext: node T (D ++ [at_ l (p s2)]) <> None).
          { unfold T in *. rewrite build_spec in * by auto.
            apply (node_spec_prefix regs _ q); auto.
            - destruct D; discriminate.
            - rewrite HD, Hqs. rewrite slice_snoc by lia. apply slice_prefix. lia. }
          congruence. }
        assert (HqD2: q = firstn (length q) D).
        { rewrite HD. rewrite slice_firstn by lia. exact Hqs. }
        destruct (Nat.le_gt_cases (length q) k) as [Hle|Hgt].
        * rewrite HR, firstn_length. lia.
        * exfalso. specialize (HmaxR (length q) ltac:(lia)). rewrite <- HqD2 in HmaxR. congruence.
      + (* type *)
        unfold node_type. unfold T in *. rewrite build_spec in * by auto. unfold valid_at in HvR. rewrite build_spec in HvR by auto.
        destruct R as [|x R']; [discriminate|]. cbn [node_spec] in *.
        destruct (has_ext regs (x :: R')); [|discriminate]. destruct (registered regs (x :: R')); [reflexivity|].
        unfold implicit in *. destruct (Nat.eqb_spec (length (x :: R')) 1); [reflexivity|discriminate].
    - (* an unregistered first character stands on its own *)
      cbn [fst snd mk value ty length]. split; [right; reflexivity|]. 
      assert (Hnoreg: forall q, q <> [] -> registered regs q = true -> is_prefix q (skipn p0 l) = true -> False).
      { intros q Hq Hreg Hpre. destruct (registered_valid q Hq Hreg) as [_ Hnq].
        assert (H0: node T [c0] <> None).
        { unfold T in *. rewrite build_spec in * by auto. apply (node_spec_prefix regs [c0] q); auto; discriminate. }
        congruence. }
      split; [intros q Hq Hreg Hpre; exfalso; eauto|].
      destruct (registered regs [c0]) eqn:Ereg; [|reflexivity].
      exfalso. apply (Hnoreg [c0]); auto; [discriminate|].
      apply is_prefix_spec. exists (skipn (S p0) l).
      rewrite <- (firstn_skipn 1 (skipn p0 l)). rewrite skipn_add. f_equal.
      change (firstn 1 (skipn p0 l)) with (slice l p0 (S p0 - 0) ) || idtac.
      assert (slice l p0 (S p0) = [c0]).
      { rewrite <- (slice_snoc l p0 p0) by (unfold clen in *; fold l in Hlt; lia). rewrite slice_nil, Hc0. reflexivity. }
      unfold slice in H. replace (S p0 - p0)%nat with 1%nat in H by lia. exact H.
  Qed.
End Longest.

Print Assumptions symbol_longest.
