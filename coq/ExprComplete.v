From Coq Require Import List ZArith Bool Lia.
Import ListNotations.
Require Import ExprParser.

Definition parses (k : nt) (st : pst) (r : res pst) : Prop := exists n, forall m, n <= m -> parse m k st = r.

Definition hd_is (p : tok -> bool) (l : list tok) : bool := match l with t :: _ => p t | [] => false end.
Definition is_lp t := match t with TLP => true | _ => false end.
Definition is_lb t := match t with TLB => true | _ => false end.
Definition isop (f : tok -> option binop) t := match f t with Some _ => true | None => false end.
Definition cont3 (l : list tok) : bool :=
  match l with
  | TNot :: TLike :: _ | TNot :: TIn :: _ | TIs :: TNull :: _ | TIs :: TNot :: TNull :: _ => true
  | t :: _ => isop op3 t
  | [] => false end.

Definition ncP l := negb (hd_is is_lp l).
Definition nc6 l := ncP l && negb (hd_is is_lb l).
Definition nc5 l := nc6 l && negb (hd_is (isop op5) l).
Definition nc4 l := nc5 l && negb (hd_is (isop op4) l).
Definition nc3 l := nc4 l && negb (cont3 l).
Definition nc2 l := nc3 l && negb (hd_is (isop op2) l).
Definition nc0 l := nc2 l && negb (hd_is (isop op0) l).

(* first token of a derivation at levels >= 2 is an operand starter *)
Definition starter (t : tok) := match t with TConst _ | TVar _ | TLP | TPlus | TMinus => true | _ => false end.
Definition pstarter (t : tok) := match t with TConst _ | TVar _ | TLP => true | _ => false end.

Lemma D_first :
  (forall ts e, D0 ts e -> exists t r, ts = t :: r /\ (starter t = true \/ t = TNot)) /\
  (forall ts e, D1 ts e -> exists t r, ts = t :: r /\ (starter t = true \/ t = TNot)) /\
  (forall ts e, D2 ts e -> exists t r, ts = t :: r /\ starter t = true) /\
  (forall ts e, D3 ts e -> exists t r, ts = t :: r /\ starter t = true) /\
  (forall ts e, D4 ts e -> exists t r, ts = t :: r /\ starter t = true) /\
  (forall ts e, D5 ts e -> exists t r, ts = t :: r /\ starter t = true) /\
  (forall ts e, D6 ts e -> exists t r, ts = t :: r /\ starter t = true) /\
  (forall ts e, DS ts e -> exists t r, ts = t :: r /\ starter t = true) /\
  (forall ts e, DP ts e -> exists t r, ts = t :: r /\ pstarter t = true) /\
  (forall ts es, DA ts es -> exists t r, ts = t :: r).
Proof.
  apply D_mutind; intros;
  repeat match goal with H : exists _ _, _ /\ _ |- _ => destruct H as (? & ? & ? & ?) | H : exists _ _, _ = _ |- _ => destruct H as (? & ? & ?) end; subst; simpl;
  try (do 2 eexists; split; [reflexivity|]; simpl; auto; fail);
  try (do 2 eexists; reflexivity).
  - do 2 eexists; split; [reflexivity|]. destruct x; simpl in *; auto; discriminate.
Qed.

Ltac fuelstep n m :=
  exists (S n); intros m Hm; destruct m as [|m]; [lia|]; assert (n <= m) by lia.

Lemma parses_det k st r1 r2 : parses k st r1 -> parses k st r2 -> r1 = r2.
Proof. intros [n1 H1] [n2 H2]. rewrite <- (H1 (max n1 n2)), <- (H2 (max n1 n2)); auto; lia. Qed.

(* the statement proved by mutual induction over derivations *)
Definition P0 ts e := forall acc rest r, nc2 rest = true -> parses N0L (acc ++ compile e, rest) r -> parses N0 (acc, ts ++ rest) r.
Definition P1 ts e := forall acc rest, nc2 rest = true -> parses N1 (acc, ts ++ rest) (Ok (acc ++ compile e, rest)).
Definition P2 ts e := forall acc rest r, nc3 rest = true -> parses N2L (acc ++ compile e, rest) r -> parses N2 (acc, ts ++ rest) r.
Definition P3 ts e := forall acc rest r, nc4 rest = true -> parses N3L (acc ++ compile e, rest) r -> parses N3 (acc, ts ++ rest) r.
Definition P4 ts e := forall acc rest r, nc5 rest = true -> parses N4L (acc ++ compile e, rest) r -> parses N4 (acc, ts ++ rest) r.
Definition P5 ts e := forall acc rest r, nc6 rest = true -> parses N5L (acc ++ compile e, rest) r -> parses N5 (acc, ts ++ rest) r.
Definition P6 ts e := forall acc rest, nc6 rest = true -> parses N6 (acc, ts ++ rest) (Ok (acc ++ compile e, rest)).
Definition PS ts e := forall acc rest, ncP rest = true -> parses NS (acc, ts ++ rest) (Ok (acc ++ compile e, rest)).
Definition PP ts e := forall acc rest, ncP rest = true -> parses NP (acc, ts ++ rest) (Ok (acc ++ compile e, rest)).
Definition PA ts es := forall acc rest k f, parses (NArgs k f) (acc, ts ++ rest) (Ok (acc ++ compiles es ++ [RArgc (k + elen es); RFunc f], rest)).

(* a loop stops when no operator of its level follows *)
Lemma loop_stop0 acc rest : nc0 rest = true -> parses N0L (acc, rest) (Ok (acc, rest)).
Proof. intros H. exists 1. intros [|m] Hm; [lia|]. cbn. unfold binloop; cbn. destruct rest as [|t r]; auto.
  unfold nc0 in H. apply andb_prop in H. destruct H as [_ H]. cbn in H. unfold isop in H. destruct (op0 t); [discriminate|reflexivity]. Qed.
Lemma loop_stop2 acc rest : nc2 rest = true -> parses N2L (acc, rest) (Ok (acc, rest)).
Proof. intros H. exists 1. intros [|m] Hm; [lia|]. cbn. unfold binloop; cbn. destruct rest as [|t r]; auto.
  unfold nc2 in H. apply andb_prop in H. destruct H as [_ H]. cbn in H. unfold isop in H. destruct (op2 t); [discriminate|reflexivity]. Qed.
Lemma loop_stop4 acc rest : nc4 rest = true -> parses N4L (acc, rest) (Ok (acc, rest)).
Proof. intros H. exists 1. intros [|m] Hm; [lia|]. cbn. unfold binloop; cbn. destruct rest as [|t r]; auto.
  unfold nc4 in H. apply andb_prop in H. destruct H as [_ H]. cbn in H. unfold isop in H. destruct (op4 t); [discriminate|reflexivity]. Qed.
Lemma loop_stop5 acc rest : nc5 rest = true -> parses N5L (acc, rest) (Ok (acc, rest)).
Proof. intros H. exists 1. intros [|m] Hm; [lia|]. cbn. unfold binloop; cbn. destruct rest as [|t r]; auto.
  unfold nc5 in H. apply andb_prop in H. destruct H as [_ H]. cbn in H. unfold isop in H. destruct (op5 t); [discriminate|reflexivity]. Qed.
Lemma loop_stop3 acc rest : nc3 rest = true -> parses N3L (acc, rest) (Ok (acc, rest)).
Proof. intros H. exists 1. intros [|m] Hm; [lia|]. cbn. destruct rest as [|t r]; auto.
  unfold nc3 in H. apply andb_prop in H. destruct H as [_ H]. apply negb_true_iff in H.
  destruct t; cbn in *; try discriminate; auto.
  - destruct r as [|t1 r]; auto. destruct t1; cbn in *; auto; discriminate.
  - destruct r as [|t1 r]; auto. destruct t1; cbn in *; auto; try discriminate.
    destruct r as [|t2 r]; auto. destruct t2; cbn in *; auto; discriminate.
Qed.

(* entering a loop level: N_k = N_{k+1} ; N_kL *)
Lemma enter_level (k kn kl : nt) acc ts r e :
  (forall m acc ts, parse (S m) k (acc, ts) = match ts with [] => Err EUnexpectedEnd | _ => bind (parse m kn (acc, ts)) (parse m kl) end) ->
  ts <> [] ->
  parses kn (acc, ts) (Ok e) -> parses kl e r -> parses k (acc, ts) r.
Proof.
  intros Hk Hne [n1 H1] [n2 H2]. exists (S (max n1 n2)). intros [|m] Hm; [lia|].
  rewrite Hk. destruct ts; [congruence|]. rewrite H1 by lia. cbn. apply H2. lia.
Qed.

Lemma op_disj t o :
  (op0 t = Some o -> forall l, nc2 (t :: l) = true) /\
  (op2 t = Some o -> forall l, nc3 (t :: l) = true) /\
  (op3 t = Some o -> forall l, nc4 (t :: l) = true) /\
  (op4 t = Some o -> forall l, nc5 (t :: l) = true) /\
  (op5 t = Some o -> forall l, nc6 (t :: l) = true).
Proof.
  repeat split; intros Ho l; destruct t; try discriminate; try reflexivity.
Qed.

Lemma nc_weaken l : (nc0 l = true -> nc2 l = true) /\ (nc2 l = true -> nc3 l = true) /\ (nc3 l = true -> nc4 l = true) /\ (nc4 l = true -> nc5 l = true) /\ (nc5 l = true -> nc6 l = true) /\ (nc6 l = true -> ncP l = true).
Proof. unfold nc0, nc2, nc3, nc4, nc5, nc6. repeat split; intros Hc; apply andb_prop in Hc; tauto. Qed.

Lemma bind_Ok {A B} (a : A) (f : A -> res B) : bind (Ok a) f = f a. Proof. reflexivity. Qed.

(* generic case: left-recursive binary production at a loop level *)
Lemma loop_op_case (opf : tok -> option binop) (kl kn : nt)
  (Hkl : forall m st, parse (S m) kl st = binloop opf (parse m kn) (parse m kl) st)
  ts2 b t o acc a rest r :
  opf t = Some o ->
  parses kn (acc ++ compile a, ts2 ++ rest) (Ok ((acc ++ compile a) ++ compile b, rest)) ->
  parses kl (acc ++ compile (EBin o a b), rest) r ->
  parses kl (acc ++ compile a, t :: ts2 ++ rest) r.
Proof.
  intros Ho [n1 H1] [n2 H2]. exists (S (max n1 n2)). intros [|m] Hm; [lia|].
  rewrite Hkl. unfold binloop. cbn [fst snd]. rewrite Ho. rewrite H1 by lia. cbn [bind fst snd].
  rewrite <- H2 with (m := m) by lia. simpl. rewrite <- !app_assoc. reflexivity.
Qed.

Theorem complete_all :
  (forall ts e, D0 ts e -> P0 ts e) /\ (forall ts e, D1 ts e -> P1 ts e) /\
  (forall ts e, D2 ts e -> P2 ts e) /\ (forall ts e, D3 ts e -> P3 ts e) /\
  (forall ts e, D4 ts e -> P4 ts e) /\ (forall ts e, D5 ts e -> P5 ts e) /\
  (forall ts e, D6 ts e -> P6 ts e) /\ (forall ts e, DS ts e -> PS ts e) /\
  (forall ts e, DP ts e -> PP ts e) /\ (forall ts es, DA ts es -> PA ts es).
Proof.
  apply D_mutind.
  - (* D0_1 *) intros ts e HD IH acc rest r Hnc Hl.
    destruct (proj1 (proj2 D_first) _ _ HD) as (t & r0 & -> & _).
    eapply enter_level with (kn := N1) (kl := N0L); [reflexivity|discriminate|apply IH; auto|exact Hl].
  - (* D0_op *) intros ts1 a t o ts2 b HDa IHa Ho HDb IHb acc rest r Hnc Hl.
    rewrite <- app_assoc. apply IHa; [apply (proj1 (op_disj t o)); auto|].
    simpl. eapply loop_op_case with (kn := N1) (opf := op0); [reflexivity|exact Ho| |exact Hl]. apply IHb; auto.
  - (* D1_2 *) intros ts e HD IH acc rest Hnc.
    destruct (proj1 (proj2 (proj2 D_first)) _ _ HD) as (t & r0 & -> & Hst).
    assert (Hl: parses N2 (acc, (t :: r0) ++ rest) (Ok (acc ++ compile e, rest))).
    { apply IH; [apply nc_weaken; auto|]. apply loop_stop2; auto. }
    destruct Hl as [n Hn]. exists (S n). intros [|m] Hm; [lia|]. cbn [parse pstep fst snd app].
    rewrite <- Hn with (m := m) by lia. destruct t; try reflexivity; discriminate.
  - (* D1_not *) intros ts e HD IH acc rest Hnc.
    assert (Hl: parses N2 (acc, ts ++ rest) (Ok (acc ++ compile e, rest))).
    { apply IH; [apply nc_weaken; auto|]. apply loop_stop2; auto. }
    destruct Hl as [n Hn]. exists (S n). intros [|m] Hm; [lia|]. cbn [parse pstep fst snd app].
    rewrite Hn by lia. cbn. rewrite <- app_assoc. reflexivity.
  - (* D2_3 *) intros ts e HD IH acc rest r Hnc Hl.
    destruct (proj1 (proj2 (proj2 (proj2 D_first))) _ _ HD) as (t & r0 & -> & _).
    eapply enter_level with (kn := N3) (kl := N2L); [reflexivity|discriminate| |exact Hl].
    apply IH; [apply nc_weaken; auto|]. apply loop_stop3; auto.
  - (* D2_op *) intros ts1 a t o ts2 b HDa IHa Ho HDb IHb acc rest r Hnc Hl.
    rewrite <- app_assoc. apply IHa; [apply (proj1 (proj2 (op_disj t o))); auto|].
    simpl. eapply loop_op_case with (kn := N3) (opf := op2); [reflexivity|exact Ho| |exact Hl].
    apply IHb; [apply nc_weaken; auto|]. apply loop_stop3; auto.
  - (* D3_4 *) intros ts e HD IH acc rest r Hnc Hl.
    destruct (proj1 (proj2 (proj2 (proj2 (proj2 D_first)))) _ _ HD) as (t & r0 & -> & _).
    eapply enter_level with (kn := N4) (kl := N3L); [reflexivity|discriminate| |exact Hl].
    apply IH; [apply nc_weaken; auto|]. apply loop_stop4; auto.
  - (* D3_op *) intros ts1 a t o ts2 b HDa IHa Ho HDb IHb acc rest r Hnc Hl.
    rewrite <- app_assoc. apply IHa; [apply (proj1 (proj2 (proj2 (op_disj t o)))); auto|].
    simpl.
    assert (Hb: parses N4 (acc ++ compile a, ts2 ++ rest) (Ok ((acc ++ compile a) ++ compile b, rest))).
    { apply IHb; [apply nc_weaken; auto|]. apply loop_stop4; auto. }
    destruct Hb as [n1 H1]. destruct Hl as [n2 H2]. exists (S (max n1 n2)). intros [|m] Hm; [lia|].
    cbn [parse pstep fst snd]. rewrite Ho. rewrite H1 by lia. cbn [bind fst snd].
    rewrite <- H2 with (m := m) by lia. simpl. rewrite <- !app_assoc. reflexivity.
  - (* D3_notlike *) intros ts1 a ts2 b HDa IHa HDb IHb acc rest r Hnc Hl.
    rewrite <- app_assoc. apply IHa; [reflexivity|]. simpl.
    assert (Hb: parses N4 (acc ++ compile a, ts2 ++ rest) (Ok ((acc ++ compile a) ++ compile b, rest))).
    { apply IHb; [apply nc_weaken; auto|]. apply loop_stop4; auto. }
    destruct Hb as [n1 H1]. destruct Hl as [n2 H2]. exists (S (max n1 n2)). intros [|m] Hm; [lia|].
    cbn [parse pstep fst snd op3]. rewrite H1 by lia. cbn [bind fst snd].
    rewrite <- H2 with (m := m) by lia. simpl. rewrite <- !app_assoc. reflexivity.
  - (* D3_notin *) intros ts1 a ts2 b HDa IHa HDb IHb acc rest r Hnc Hl.
    rewrite <- app_assoc. apply IHa; [reflexivity|]. simpl.
    assert (Hb: parses N4 (acc ++ compile a, ts2 ++ rest) (Ok ((acc ++ compile a) ++ compile b, rest))).
    { apply IHb; [apply nc_weaken; auto|]. apply loop_stop4; auto. }
    destruct Hb as [n1 H1]. destruct Hl as [n2 H2]. exists (S (max n1 n2)). intros [|m] Hm; [lia|].
    cbn [parse pstep fst snd op3]. rewrite H1 by lia. cbn [bind fst snd].
    rewrite <- H2 with (m := m) by lia. simpl. rewrite <- !app_assoc. reflexivity.
  - (* D3_isnull *) intros ts1 a HDa IHa acc rest r Hnc Hl.
    rewrite <- app_assoc. apply IHa; [reflexivity|]. simpl.
    destruct Hl as [n2 H2]. exists (S n2). intros [|m] Hm; [lia|].
    cbn [parse pstep fst snd op3]. rewrite <- H2 with (m := m) by lia. simpl. rewrite <- !app_assoc. reflexivity.
  - (* D3_isnotnull *) intros ts1 a HDa IHa acc rest r Hnc Hl.
    rewrite <- app_assoc. apply IHa; [reflexivity|]. simpl.
    destruct Hl as [n2 H2]. exists (S n2). intros [|m] Hm; [lia|].
    cbn [parse pstep fst snd op3]. rewrite <- H2 with (m := m) by lia. simpl. rewrite <- !app_assoc. reflexivity.
  - (* D4_5 *) intros ts e HD IH acc rest r Hnc Hl.
    destruct (proj1 (proj2 (proj2 (proj2 (proj2 (proj2 D_first))))) _ _ HD) as (t & r0 & -> & _).
    eapply enter_level with (kn := N5) (kl := N4L); [reflexivity|discriminate| |exact Hl].
    apply IH; [apply nc_weaken; auto|]. apply loop_stop5; auto.
  - (* D4_op *) intros ts1 a t o ts2 b HDa IHa Ho HDb IHb acc rest r Hnc Hl.
    rewrite <- app_assoc. apply IHa; [apply (proj1 (proj2 (proj2 (proj2 (op_disj t o))))); auto|].
    simpl. eapply loop_op_case with (kn := N5) (opf := op4); [reflexivity|exact Ho| |exact Hl].
    apply IHb; [apply nc_weaken; auto|]. apply loop_stop5; auto.
  - (* D5_6 *) intros ts e HD IH acc rest r Hnc Hl.
    destruct (proj1 (proj2 (proj2 (proj2 (proj2 (proj2 (proj2 D_first)))))) _ _ HD) as (t & r0 & -> & _).
    eapply enter_level with (kn := N6) (kl := N5L); [reflexivity|discriminate| |exact Hl].
    apply IH; auto.
  - (* D5_op *) intros ts1 a t o ts2 b HDa IHa Ho HDb IHb acc rest r Hnc Hl.
    rewrite <- app_assoc. apply IHa; [apply (proj2 (proj2 (proj2 (proj2 (op_disj t o))))); auto|].
    simpl. eapply loop_op_case with (kn := N6) (opf := op5); [reflexivity|exact Ho| |exact Hl].
    apply IHb; auto.
  - (* D6_s *) intros ts e HD IH acc rest Hnc.
    destruct (proj1 (proj2 (proj2 (proj2 (proj2 (proj2 (proj2 (proj2 D_first))))))) _ _ HD) as (t & r0 & -> & _).
    destruct (IH acc rest) as [n Hn]; [apply nc_weaken; auto|].
    exists (S n). intros [|m] Hm; [lia|]. cbn [parse pstep fst snd app]. rewrite Hn by lia. cbn [bind snd].
    destruct rest as [|t1 rest]; [reflexivity|]. destruct t1; try reflexivity. discriminate.
  - (* D6_idx *) intros ts e ti i HD IH HDi IHi acc rest Hnc.
    destruct (proj1 (proj2 (proj2 (proj2 (proj2 (proj2 (proj2 (proj2 D_first))))))) _ _ HD) as (t & r0 & -> & _).
    destruct (IH acc (TLB :: ti ++ [TRB] ++ rest)) as [n1 H1]; [reflexivity|].
    assert (Hi: parses N0 (acc ++ compile e, ti ++ TRB :: rest) (Ok ((acc ++ compile e) ++ compile i, TRB :: rest))).
    { apply IHi; [reflexivity|]. apply loop_stop0. reflexivity. }
    destruct Hi as [n2 H2].
    exists (S (max n1 n2)). intros [|m] Hm; [lia|].
    replace (((t :: r0) ++ TLB :: ti ++ [TRB]) ++ rest) with ((t :: r0) ++ TLB :: ti ++ [TRB] ++ rest)
      by (rewrite <- !app_assoc; simpl; rewrite <- !app_assoc; reflexivity).
    cbn [parse pstep fst snd app]. cbn [app] in H1. rewrite H1 by lia. cbn [bind fst snd].
    rewrite H2 by lia. cbn. rewrite <- !app_assoc. reflexivity.
  - (* DS_p *) intros ts e HD IH acc rest Hnc.
    destruct (proj1 (proj2 (proj2 (proj2 (proj2 (proj2 (proj2 (proj2 (proj2 D_first)))))))) _ _ HD) as (t & r0 & -> & Hp).
    destruct (IH acc rest Hnc) as [n Hn]. exists (S n). intros [|m] Hm; [lia|].
    cbn [parse pstep fst snd app]. rewrite <- Hn with (m := m) by lia. destruct t; try reflexivity; discriminate.
  - (* DS_plus *) intros ts e HD IH acc rest Hnc.
    destruct (IH acc rest Hnc) as [n Hn]. exists (S n). intros [|m] Hm; [lia|].
    cbn [parse pstep fst snd app]. apply Hn. lia.
  - (* DS_minus *) intros ts e HD IH acc rest Hnc.
    destruct (IH acc rest Hnc) as [n Hn]. exists (S n). intros [|m] Hm; [lia|].
    cbn [parse pstep fst snd app]. rewrite Hn by lia. cbn. rewrite <- app_assoc. reflexivity.
  - (* DP_const *) intros c acc rest Hnc. exists 1. intros [|m] Hm; [lia|]. reflexivity.
  - (* DP_var *) intros v acc rest Hnc. exists 1. intros [|m] Hm; [lia|]. cbn.
    destruct rest as [|t1 rest]; [reflexivity|]. destruct t1; try reflexivity. discriminate.
  - (* DP_paren *) intros ts e HD IH acc rest Hnc.
    assert (Hi: parses N0 (acc, ts ++ TRP :: rest) (Ok (acc ++ compile e, TRP :: rest))).
    { apply IH; [reflexivity|]. apply loop_stop0. reflexivity. }
    destruct Hi as [n Hn]. exists (S n). intros [|m] Hm; [lia|].
    cbn [app]. rewrite <- app_assoc. cbn [parse pstep fst snd app]. rewrite Hn by lia. reflexivity.
  - (* DP_call *) intros f ts es HD IH acc rest Hnc.
    destruct (IH acc rest 0 f) as [n Hn]. exists (S n). intros [|m] Hm; [lia|].
    cbn [parse pstep fst snd app]. rewrite Hn by lia. reflexivity.
  - (* DA_nil *) intros acc rest k f. exists 1. intros [|m] Hm; [lia|]. cbn. repeat f_equal. lia.
  - (* DA_last *) intros ts e HD IH acc rest k f.
    destruct (proj1 D_first _ _ HD) as (t & r0 & -> & Hst).
    assert (Hi: parses N0 (acc, (t :: r0) ++ TRP :: rest) (Ok (acc ++ compile e, TRP :: rest))).
    { apply IH; [reflexivity|]. apply loop_stop0. reflexivity. }
    destruct Hi as [n Hn]. exists (S n). intros [|m] Hm; [lia|].
    rewrite <- app_assoc. cbn [app] in *. cbn [parse pstep fst snd].
    destruct t; try (rewrite Hn by lia; cbn; rewrite app_nil_r, <- app_assoc; repeat f_equal; lia).
    destruct Hst as [Hst|Hst]; discriminate.
  - (* DA_cons *) intros ts e tr es HD IH HDA IHA acc rest k f.
    destruct (proj1 D_first _ _ HD) as (t & r0 & -> & Hst).
    assert (Hi: parses N0 (acc, (t :: r0) ++ TComma :: tr ++ rest) (Ok (acc ++ compile e, TComma :: tr ++ rest))).
    { apply IH; [reflexivity|]. apply loop_stop0. reflexivity. }
    destruct Hi as [n1 H1]. destruct (IHA (acc ++ compile e) rest (S k) f) as [n2 H2].
    exists (S (max n1 n2)). intros [|m] Hm; [lia|].
    rewrite <- app_assoc. cbn [app] in *. cbn [parse pstep fst snd].
    destruct t; try (rewrite H1 by lia; cbn [bind fst snd]; rewrite H2 by lia; cbn [compiles]; rewrite <- !app_assoc; replace (k + elen (ECons e es)) with (S k + elen es) by (simpl; lia); reflexivity).
    destruct Hst as [Hst|Hst]; discriminate.
Qed.

Print Assumptions complete_all.
