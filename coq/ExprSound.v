From Coq Require Import List ZArith Bool Lia.
Import ListNotations.
Require Import ExprParser.

Definition level_D (k : nt) : option (list tok -> expr -> Prop) :=
  match k with N0 => Some D0 | N1 => Some D1 | N2 => Some D2 | N3 => Some D3 | N4 => Some D4 | N5 => Some D5 | N6 => Some D6 | NS => Some DS | NP => Some DP | _ => None end.

Definition loop_D (k : nt) : option (list tok -> expr -> Prop) :=
  match k with N0L => Some D0 | N2L => Some D2 | N3L => Some D3 | N4L => Some D4 | N5L => Some D5 | _ => None end.

Definition post (k : nt) (st st' : pst) : Prop :=
  let '(acc, ts) := st in let '(acc', rest) := st' in
  match k with
  | N0 | N1 | N2 | N3 | N4 | N5 | N6 | NS | NP =>
      exists used e, ts = used ++ rest /\ (match level_D k with Some D => D used e | None => False end) /\ acc' = acc ++ compile e
  | N0L | N2L | N3L | N4L | N5L =>
      forall acc0 tsa a, (match loop_D k with Some D => D tsa a | None => False end) -> acc = acc0 ++ compile a ->
      exists used e, ts = used ++ rest /\ (match loop_D k with Some D => D (tsa ++ used) e | None => False end) /\ acc' = acc0 ++ compile e
  | NArgs j f =>
      exists used es, ts = used ++ rest /\ DA used es /\ acc' = acc ++ compiles es ++ [RArgc (j + elen es); RFunc f]
  end.

Lemma bind_ok {A B} (r : res A) (f : A -> res B) b : bind r f = Ok b -> exists a, r = Ok a /\ f a = Ok b.
Proof. destruct r; simpl; intros H; try discriminate. eauto. Qed.

Ltac inv H := inversion H; subst; clear H.
Ltac fin_nil a := exists [], a; rewrite ?app_nil_r; simpl; auto.

(* generic step for the four single-token binary loops *)
Lemma binloop_sound (opf : tok -> option binop) (Dl Dn : list tok -> expr -> Prop)
  (sub again : pst -> res pst)
  (Dop : forall ts1 a t o ts2 b, Dl ts1 a -> opf t = Some o -> Dn ts2 b -> Dl (ts1 ++ t :: ts2) (EBin o a b))
  (Hsub : forall acc ts acc' rest, sub (acc, ts) = Ok (acc', rest) -> exists used e, ts = used ++ rest /\ Dn used e /\ acc' = acc ++ compile e)
  (Hagain : forall acc ts acc' rest, again (acc, ts) = Ok (acc', rest) ->
      forall acc0 tsa a, Dl tsa a -> acc = acc0 ++ compile a ->
      exists used e, ts = used ++ rest /\ Dl (tsa ++ used) e /\ acc' = acc0 ++ compile e) :
  forall acc ts acc' rest, binloop opf sub again (acc, ts) = Ok (acc', rest) ->
      forall acc0 tsa a, Dl tsa a -> acc = acc0 ++ compile a ->
      exists used e, ts = used ++ rest /\ Dl (tsa ++ used) e /\ acc' = acc0 ++ compile e.
Proof.
  intros acc ts acc' rest H acc0 tsa a Ha Hacc. unfold binloop in H. simpl in H.
  destruct ts as [|t r].
  - inv H. fin_nil a.
  - destruct (opf t) as [o|] eqn:Ho.
    + apply bind_ok in H. destruct H as [[acc1 r1] [H1 H2]]. simpl in H2.
      apply Hsub in H1. destruct H1 as (u1 & b & -> & Hb & ->).
      eapply Hagain with (acc0 := acc0) (tsa := tsa ++ t :: u1) (a := EBin o a b) in H2.
      * destruct H2 as (u2 & e & -> & He & ->). exists (t :: u1 ++ u2), e.
        split; [simpl; rewrite <- app_assoc; reflexivity|]. split; [|reflexivity].
        replace (tsa ++ t :: u1 ++ u2) with ((tsa ++ t :: u1) ++ u2) by (rewrite <- app_assoc; reflexivity). exact He.
      * eapply Dop; eauto.
      * subst acc. simpl. rewrite <- !app_assoc. reflexivity.
    + inv H. fin_nil a.
Qed.

Theorem parse_sound : forall n k st st', parse n k st = Ok st' -> post k st st'.
Proof.
  induction n as [|n IH]; intros k [acc ts] [acc' rest] H; [discriminate|].
  destruct k; cbn [parse pstep] in H; cbn [fst snd] in H.
  - (* N0 *)
    destruct ts as [|t0 r0]; [discriminate|].
    apply bind_ok in H. destruct H as [[a1 r1] [H1 H2]].
    apply IH in H1. apply IH in H2. cbn in H1, H2.
    destruct H1 as (u1 & e1 & E1 & HD1 & ->).
    destruct (H2 acc u1 e1 (D0_1 _ _ HD1) eq_refl) as (u2 & e & -> & HD & ->).
    cbn. exists (u1 ++ u2), e. rewrite E1, app_assoc. auto.
  - (* N0L *)
    cbn. eapply binloop_sound with (Dn := D1); eauto using D0_op.
    + intros a t a' r Hs. apply IH in Hs. exact Hs.
    + intros a t a' r Hs. apply IH in Hs. exact Hs.
  - (* N1 *)
    destruct ts as [|t0 r0]; [discriminate|].
    destruct t0; try (apply IH in H; cbn in H; destruct H as (u & e & E & HD & ->); cbn; exists u, e; rewrite E; auto using D1_2; fail).
    apply bind_ok in H. destruct H as [[a1 r1] [H1 H2]]. inv H2. cbn [fst snd].
    apply IH in H1. cbn in H1. destruct H1 as (u & e & -> & HD & ->).
    cbn. exists (TNot :: u), (EUn UNot e). simpl. rewrite <- app_assoc. auto using D1_not.
  - (* N2 *)
    destruct ts as [|t0 r0]; [discriminate|].
    apply bind_ok in H. destruct H as [[a1 r1] [H1 H2]].
    apply IH in H1. apply IH in H2. cbn in H1, H2.
    destruct H1 as (u1 & e1 & E1 & HD1 & ->).
    destruct (H2 acc u1 e1 (D2_3 _ _ HD1) eq_refl) as (u2 & e & -> & HD & ->).
    cbn. exists (u1 ++ u2), e. rewrite E1, app_assoc. auto.
  - (* N2L *)
    cbn. eapply binloop_sound with (Dn := D3); eauto using D2_op.
    + intros a t a' r Hs. apply IH in Hs. exact Hs.
    + intros a t a' r Hs. apply IH in Hs. exact Hs.
  - (* N3 *)
    destruct ts as [|t0 r0]; [discriminate|].
    apply bind_ok in H. destruct H as [[a1 r1] [H1 H2]].
    apply IH in H1. apply IH in H2. cbn in H1, H2.
    destruct H1 as (u1 & e1 & E1 & HD1 & ->).
    destruct (H2 acc u1 e1 (D3_4 _ _ HD1) eq_refl) as (u2 & e & -> & HD & ->).
    cbn. exists (u1 ++ u2), e. rewrite E1, app_assoc. auto.
  - (* N3L *)
    cbn. intros acc0 tsa a Ha Hacc.
    destruct ts as [|t r]; [inv H; fin_nil a|].
    destruct (op3 t) as [o|] eqn:Ho.
    { apply bind_ok in H. destruct H as [[a1 r1] [H1 H2]]. cbn [fst snd] in H2.
      apply IH in H1. cbn in H1. destruct H1 as (u1 & b & -> & Hb & ->).
      apply IH in H2. cbn in H2.
      destruct (H2 acc0 (tsa ++ t :: u1) (EBin o a b)) as (u2 & e & -> & He & ->).
      - eapply D3_op; eauto.
      - subst acc. simpl. rewrite <- !app_assoc. reflexivity.
      - exists (t :: u1 ++ u2), e. split; [simpl; rewrite <- app_assoc; reflexivity|]. split; [|reflexivity].
        replace (tsa ++ t :: u1 ++ u2) with ((tsa ++ t :: u1) ++ u2) by (rewrite <- app_assoc; reflexivity). exact He. }
    destruct t; try (inv H; fin_nil a; fail); try discriminate.
    + (* TNot *)
      destruct r as [|t1 r]; [inv H; fin_nil a|].
      destruct t1; try (inv H; fin_nil a; fail).
      * (* NOT IN *)
        apply bind_ok in H. destruct H as [[a1 r1] [H1 H2]]. cbn [fst snd] in H2.
        apply IH in H1. cbn in H1. destruct H1 as (u1 & b & -> & Hb & ->).
        apply IH in H2. cbn in H2.
        destruct (H2 acc0 (tsa ++ TNot :: TIn :: u1) (EBin ONotIn a b)) as (u2 & e & -> & He & ->).
        -- eapply D3_notin; eauto.
        -- subst acc. simpl. rewrite <- !app_assoc. reflexivity.
        -- exists (TNot :: TIn :: u1 ++ u2), e. split; [simpl; rewrite <- app_assoc; reflexivity|]. split; [|reflexivity].
           replace (tsa ++ TNot :: TIn :: u1 ++ u2) with ((tsa ++ TNot :: TIn :: u1) ++ u2) by (rewrite <- app_assoc; reflexivity). exact He.
      * (* NOT LIKE *)
        apply bind_ok in H. destruct H as [[a1 r1] [H1 H2]]. cbn [fst snd] in H2.
        apply IH in H1. cbn in H1. destruct H1 as (u1 & b & -> & Hb & ->).
        apply IH in H2. cbn in H2.
        destruct (H2 acc0 (tsa ++ TNot :: TLike :: u1) (EBin ONotLike a b)) as (u2 & e & -> & He & ->).
        -- eapply D3_notlike; eauto.
        -- subst acc. simpl. rewrite <- !app_assoc. reflexivity.
        -- exists (TNot :: TLike :: u1 ++ u2), e. split; [simpl; rewrite <- app_assoc; reflexivity|]. split; [|reflexivity].
           replace (tsa ++ TNot :: TLike :: u1 ++ u2) with ((tsa ++ TNot :: TLike :: u1) ++ u2) by (rewrite <- app_assoc; reflexivity). exact He.
    + (* TIs *)
      destruct r as [|t1 r]; [inv H; fin_nil a|].
      destruct t1; try (inv H; fin_nil a; fail).
      * (* IS NOT ... *)
        destruct r as [|t2 r]; [inv H; fin_nil a|].
        destruct t2; try (inv H; fin_nil a; fail).
        apply IH in H. cbn in H.
        destruct (H acc0 (tsa ++ [TIs; TNot; TNull]) (EUn UIsNotNull a)) as (u2 & e & -> & He & ->).
        -- apply D3_isnotnull; auto.
        -- subst acc. simpl. rewrite <- !app_assoc. reflexivity.
        -- exists (TIs :: TNot :: TNull :: u2), e. split; [reflexivity|]. split; [|reflexivity].
           rewrite <- app_assoc in He. exact He.
      * (* IS NULL *)
        apply IH in H. cbn in H.
        destruct (H acc0 (tsa ++ [TIs; TNull]) (EUn UIsNull a)) as (u2 & e & -> & He & ->).
        -- apply D3_isnull; auto.
        -- subst acc. simpl. rewrite <- !app_assoc. reflexivity.
        -- exists (TIs :: TNull :: u2), e. split; [reflexivity|]. split; [|reflexivity].
           rewrite <- app_assoc in He. exact He.
  - (* N4 *)
    destruct ts as [|t0 r0]; [discriminate|].
    apply bind_ok in H. destruct H as [[a1 r1] [H1 H2]].
    apply IH in H1. apply IH in H2. cbn in H1, H2.
    destruct H1 as (u1 & e1 & E1 & HD1 & ->).
    destruct (H2 acc u1 e1 (D4_5 _ _ HD1) eq_refl) as (u2 & e & -> & HD & ->).
    cbn. exists (u1 ++ u2), e. rewrite E1, app_assoc. auto.
  - (* N4L *)
    cbn. eapply binloop_sound with (Dn := D5); eauto using D4_op.
    + intros a t a' r Hs. apply IH in Hs. exact Hs.
    + intros a t a' r Hs. apply IH in Hs. exact Hs.
  - (* N5 *)
    destruct ts as [|t0 r0]; [discriminate|].
    apply bind_ok in H. destruct H as [[a1 r1] [H1 H2]].
    apply IH in H1. apply IH in H2. cbn in H1, H2.
    destruct H1 as (u1 & e1 & E1 & HD1 & ->).
    destruct (H2 acc u1 e1 (D5_6 _ _ HD1) eq_refl) as (u2 & e & -> & HD & ->).
    cbn. exists (u1 ++ u2), e. rewrite E1, app_assoc. auto.
  - (* N5L *)
    cbn. eapply binloop_sound with (Dn := D6); eauto using D5_op.
    + intros a t a' r Hs. apply IH in Hs. exact Hs.
    + intros a t a' r Hs. apply IH in Hs. exact Hs.
  - (* N6 *)
    destruct ts as [|t0 r0]; [discriminate|].
    apply bind_ok in H. destruct H as [[a1 r1] [H1 H2]]. cbn [fst snd] in H2.
    apply IH in H1. cbn in H1. destruct H1 as (u1 & e1 & E1 & HD1 & ->).
    destruct r1 as [|t1 r1]; [inv H2; cbn; exists u1, e1; rewrite E1; auto using D6_s|].
    destruct t1; try (inv H2; cbn; exists u1, e1; rewrite E1; auto using D6_s; fail).
    apply bind_ok in H2. destruct H2 as [[a2 r2] [H2 H3]]. cbn [fst snd] in H3.
    apply IH in H2. cbn in H2. destruct H2 as (u2 & e2 & -> & HD2 & ->).
    destruct r2 as [|t2 r2]; [discriminate|]. destruct t2; try discriminate. inv H3.
    cbn. exists (u1 ++ TLB :: u2 ++ [TRB]), (EBin OElem e1 e2). rewrite E1.
    split; [rewrite <- !app_assoc; simpl; rewrite <- !app_assoc; reflexivity|].
    split; [apply D6_idx; auto|]. simpl. rewrite <- !app_assoc. reflexivity.
  - (* NS *)
    destruct ts as [|t0 r0].
    { apply IH in H. exact H || (cbn in H; destruct H as (u & e & E & HD & ->); cbn; exists u, e; auto using DS_p). }
    destruct t0; try (apply IH in H; cbn in H; destruct H as (u & e & E & HD & ->); cbn; exists u, e; rewrite E; auto using DS_p; fail).
    + apply IH in H; cbn in H; destruct H as (u & e & -> & HD & ->). cbn. exists (TPlus :: u), e. auto using DS_plus.
    + apply bind_ok in H. destruct H as [[a1 r1] [H1 H2]]. inv H2. cbn [fst snd].
      apply IH in H1; cbn in H1; destruct H1 as (u & e & -> & HD & ->). cbn. exists (TMinus :: u), (EUn UNeg e).
      simpl. rewrite <- app_assoc. auto using DS_minus.
  - (* NP *)
    destruct ts as [|t0 r0]; [discriminate|].
    destruct t0; try discriminate.
    + inv H. cbn. exists [TConst c], (EConst c). auto using DP_const.
    + destruct r0 as [|t1 r1]; [inv H; cbn; exists [TVar n0], (EVar n0); auto using DP_var|].
      destruct t1; try (inv H; cbn; exists [TVar n0], (EVar n0); auto using DP_var; fail).
      apply IH in H. cbn in H. destruct H as (u & es & -> & HD & ->).
      cbn. exists (TVar n0 :: TLP :: u), (ECall n0 es). simpl. auto using DP_call.
    + apply bind_ok in H. destruct H as [[a1 r1] [H1 H2]]. cbn [fst snd] in H2.
      apply IH in H1. cbn in H1. destruct H1 as (u & e & -> & HD & ->).
      destruct r1 as [|t1 r1]; [discriminate|]. destruct t1; try discriminate. inv H2.
      cbn. exists (TLP :: u ++ [TRP]), e. simpl. rewrite <- app_assoc. simpl. auto using DP_paren.
  - (* NArgs *)
    destruct ts as [|t0 r0]; [discriminate|].
    assert (Hgen: bind (parse n N0 (acc, t0 :: r0)) (fun st' =>
             match snd st' with
             | [] => Err EUnexpectedEnd
             | TComma :: r => parse n (NArgs (S k) fn) (fst st', r)
             | TRP :: r => Ok (fst st' ++ [RArgc (S k); RFunc fn], r)
             | _ => Err EMissParen end) = Ok (acc', rest) -> post (NArgs k fn) (acc, t0 :: r0) (acc', rest)).
    { clear H. intros H. apply bind_ok in H. destruct H as [[a1 r1] [H1 H2]]. cbn [fst snd] in H2.
      apply IH in H1. cbn in H1. destruct H1 as (u & e & E & HD & ->).
      destruct r1 as [|t1 r1]; [discriminate|]. destruct t1; try discriminate.
      - inv H2. cbn. exists (u ++ [TRP]), (ECons e ENil). rewrite E. split; [rewrite <- app_assoc; reflexivity|].
        split; [apply DA_last; auto|]. simpl. rewrite app_nil_r, <- app_assoc. repeat f_equal. lia.
      - apply IH in H2. cbn in H2. destruct H2 as (u2 & es & -> & HDA & ->).
        cbn. exists (u ++ TComma :: u2), (ECons e es). rewrite E. split; [rewrite <- app_assoc; reflexivity|].
        split; [apply DA_cons; auto|]. simpl. rewrite <- !app_assoc. repeat f_equal. lia. }
    destruct t0; try (apply Hgen; exact H).
    inv H. cbn. exists [TRP], ENil. simpl. split; [reflexivity|]. split; [constructor|]. repeat f_equal. lia.
Qed.

Print Assumptions parse_sound.
