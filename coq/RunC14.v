(* Executable glue for C14.
   input  = L [I state; I q; s; rest]     state 0 generic | 1 expression | 2 csv
   output = L [encode q s; decode q s; decode q (encode q s); token read from (encode q s ++ rest); I chars left;
               token read from (q :: s); I chars left]
   A decode that would panic (index out of range) is L [I (-999)]. *)
From Coq Require Import List ZArith Bool.
Import ListNotations.
Require Import Sx Quote.
Open Scope Z_scope.

Definition enc_out (o : outcome str) : sx := match o with Ok v => estr v | Panic => L [I (-999)] end.

Definition model_C14 (input : sx) : sx :=
  let st := gz (nth_sx 0 input) in
  let q := gz (nth_sx 1 input) in
  let s := gstr (nth_sx 2 input) in
  let rest := gstr (nth_sx 3 input) in
  let enc := if st =? 0 then gencode q s else encode q s in
  let dec := fun v => if st =? 0 then gdecode q v else decode q v in
  let next := if st =? 0 then gquote_next else quote_next in
  let '(t1, r1) := next (enc ++ rest) in
  let '(t2, r2) := next (q :: s) in
  L [estr enc; enc_out (dec s); enc_out (dec enc); estr t1; enat (length r1); estr t2; enat (length r2)].
