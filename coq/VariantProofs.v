From Coq Require Import List ZArith Bool Lia.
Import ListNotations.
Require Import Variant.
Open Scope Z_scope.

Section Proofs.
  Variable H : hf.
  Variable int_to_string : Z -> str.  Variable string_to_int : str -> option Z.  Variable string_to_int_fallback : str -> Z.
  Variable f32_to_string : F32 H -> str.  Variable f64_to_string : F64 H -> str.
  Variable string_to_f32 : str -> F32 H.  Variable string_to_f64 : str -> F64 H.
  Variable string_to_bool : str -> bool.  Variable string_to_time : str -> Z.  Variable string_to_span : str -> Z.
  Variable time_to_string : Z -> str.  Variable obj_to_string : Z -> str.
  Variable arr_to_string : list (Variant.value H) -> str.

  Notation value := (value H).
  Notation convert_unsafe := (convert_unsafe H int_to_string string_to_int string_to_int_fallback f32_to_string f64_to_string
                                             string_to_f32 string_to_f64 string_to_bool string_to_time string_to_span time_to_string obj_to_string arr_to_string).
  Notation convert_safe := (convert_safe H).

  Lemma vtype_eqb_eq a b : vtype_eqb a b = true <-> a = b.
  Proof. destruct a, b; simpl; split; intros E; try reflexivity; discriminate. Qed.

  (* a manager is well-typed if a successful conversion delivers the requested type, or the unchanged value *)
  Definition well_typed (convert : value -> vtype -> outcome value) : Prop :=
    forall v t w, convert v t = Ok w -> type_of H w = t \/ ((t = TObject \/ t = type_of H v) /\ w = v).

  (* C07, first claim *)
  Theorem unsafe_well_typed : well_typed convert_unsafe.
  Proof.
    intros v t w E. unfold Variant.convert_unsafe in E.
    destruct (vtype_eqb t TNull) eqn:E0; [apply vtype_eqb_eq in E0; inversion E; subst; left; reflexivity|].
    destruct (vtype_eqb t (type_of H v) || vtype_eqb t TObject) eqn:E1.
    { inversion E; subst. right. split; auto. apply orb_prop in E1. destruct E1 as [E1|E1]; apply vtype_eqb_eq in E1; auto. }
    destruct (vtype_eqb t TString) eqn:E2; [apply vtype_eqb_eq in E2; inversion E; subst; left; reflexivity|].
    left. destruct v, t; try discriminate; inversion E; reflexivity.
  Qed.

  Theorem safe_well_typed : well_typed convert_safe.
  Proof.
    intros v t w E. unfold Variant.convert_safe in E.
    destruct (vtype_eqb t TNull) eqn:E0; [apply vtype_eqb_eq in E0; inversion E; subst; left; reflexivity|].
    destruct (vtype_eqb t (type_of H v) || vtype_eqb t TObject) eqn:E1.
    { inversion E; subst. right. split; auto. apply orb_prop in E1. destruct E1 as [E1|E1]; apply vtype_eqb_eq in E1; auto. }
    left. destruct v, t; try discriminate; inversion E; reflexivity.
  Qed.

  (* C07: the type-safe manager permits exactly the numeric widenings (plus Null, Object and identity) ... *)
  Theorem safe_whitelist v t w : convert_safe v t = Ok w ->
    t = TNull \/ t = TObject \/ t = type_of H v \/
    (type_of H v = TInteger /\ (t = TLong \/ t = TFloat \/ t = TDouble)) \/
    (type_of H v = TLong /\ (t = TFloat \/ t = TDouble)) \/ (type_of H v = TFloat /\ t = TDouble).
  Proof.
    intros E. unfold Variant.convert_safe in E.
    destruct (vtype_eqb t TNull) eqn:E0; [apply vtype_eqb_eq in E0; auto|].
    destruct (vtype_eqb t (type_of H v) || vtype_eqb t TObject) eqn:E1.
    { apply orb_prop in E1. destruct E1 as [E1|E1]; apply vtype_eqb_eq in E1; auto. }
    destruct v, t; try discriminate; simpl; intuition.
  Qed.

  (* ... and wherever it succeeds it agrees with the type-unsafe manager *)
  Theorem safe_agrees_unsafe v t w : convert_safe v t = Ok w -> convert_unsafe v t = Ok w.
  Proof.
    intros E. unfold Variant.convert_safe in E. unfold Variant.convert_unsafe.
    destruct (vtype_eqb t TNull); [exact E|]. destruct (vtype_eqb t (type_of H v) || vtype_eqb t TObject); [exact E|].
    destruct v, t; try discriminate; exact E.
  Qed.

  (* both managers meet the premises of the operator theorems: they never fail a type assertion themselves and
     return the value itself when its own type is requested *)
  Theorem managers_never_panic v t : convert_unsafe v t <> Panic /\ convert_safe v t <> Panic.
  Proof.
    split.
    - unfold Variant.convert_unsafe. destruct (vtype_eqb t TNull); [discriminate|]. destruct (vtype_eqb t (type_of H v) || vtype_eqb t TObject); [discriminate|].
      destruct (vtype_eqb t TString); [discriminate|]. destruct v, t; discriminate.
    - unfold Variant.convert_safe. destruct (vtype_eqb t TNull); [discriminate|]. destruct (vtype_eqb t (type_of H v) || vtype_eqb t TObject); [discriminate|].
      destruct v, t; discriminate.
  Qed.
  Theorem managers_identity v : convert_unsafe v (type_of H v) = Ok v /\ convert_safe v (type_of H v) = Ok v.
  Proof. split; destruct v; reflexivity. Qed.

  (* ---------- C07: widening conversions round-trip (type-unsafe manager) ---------- *)
  Section RoundTrips.
    Lemma wrap64_small z : - two63 <= z < two63 -> wrap64 z = z.
    Proof. intros Hz. unfold wrap64, two63, two64 in *. rewrite Z.mod_small by lia. lia. Qed.

    Definition step2 (v : value) (t1 t2 : vtype) := bind (convert_unsafe v t1) (fun w => convert_unsafe w t2).

    Theorem int_long_roundtrip z : step2 (VInt H z) TLong TInteger = Ok (VInt H z) /\ step2 (VLong H z) TInteger TLong = Ok (VLong H z).
    Proof. split; reflexivity. Qed.

    Theorem bool_int_roundtrip b : step2 (VBool H b) TInteger TBoolean = Ok (VBool H b) /\ step2 (VBool H b) TLong TBoolean = Ok (VBool H b).
    Proof. destruct b; split; reflexivity. Qed.

    (* integer / long <-> time span, counted in milliseconds, whenever z * 10^6 fits in 64 bits *)
    Theorem int_timespan_roundtrip z : - two63 <= z * ms < two63 ->
      step2 (VInt H z) TTimeSpan TInteger = Ok (VInt H z) /\ step2 (VLong H z) TTimeSpan TLong = Ok (VLong H z).
    Proof.
      intros Hz. unfold step2. cbn [convert_unsafe vtype_eqb type_of orb bind]. rewrite (wrap64_small _ Hz).
      rewrite Z.quot_mul by (unfold ms; lia). split; reflexivity.
    Qed.

    (* integer / long <-> date-time, counted in Unix seconds *)
    Theorem int_datetime_roundtrip z :
      step2 (VInt H z) TDateTime TInteger = Ok (VInt H z) /\ step2 (VLong H z) TDateTime TLong = Ok (VLong H z).
    Proof.
      unfold step2. cbn [convert_unsafe vtype_eqb type_of orb bind]. rewrite Z.div_mul by (unfold sec; lia). split; reflexivity.
    Qed.

    (* integer / long / boolean <-> string: under the laws of the host's decimal formatting and parsing *)
    Hypothesis parse_format : forall z, in64 z = true -> string_to_int (int_to_string z) = Some z.
    Hypothesis bool_strings : (string_to_bool [116; 114; 117; 101] = true) /\ (string_to_bool [102; 97; 108; 115; 101] = false).
    Theorem int_string_roundtrip z : in64 z = true ->        (* variants hold int64 values *)
      step2 (VInt H z) TString TInteger = Ok (VInt H z) /\ step2 (VLong H z) TString TLong = Ok (VLong H z).
    Proof.
      intros Hz. unfold step2. cbn [convert_unsafe vtype_eqb type_of orb bind to_string]. unfold parse_int. rewrite (parse_format z Hz). split; reflexivity.
    Qed.
    Theorem bool_string_roundtrip b : step2 (VBool H b) TString TBoolean = Ok (VBool H b).
    Proof. destruct bool_strings as [Ht Hf]. destruct b; unfold step2; cbn [convert_unsafe vtype_eqb type_of orb bind to_string]; [rewrite Ht|rewrite Hf]; reflexivity. Qed.

    (* through floating point: under the IEEE laws of the host (exact representation of small integers, exact widening) *)
    Hypothesis trunc_of_int64 : forall z, - 2 ^ 53 <= z <= 2 ^ 53 -> trunc64 H (of_int64 H z) = z.
    Variable ok32 : F32 H -> Prop.           (* the float32 values the host can produce (for the SpecFloat instance: the images of bit patterns) *)
    Hypothesis narrow_widen : forall f, ok32 f -> narrow H (widen H f) = f.
    Hypothesis bool_floats : (eq32 H (one32 H) (zero32 H) = false) /\ (eq32 H (zero32 H) (zero32 H) = true) /\ (eq64 H (one64 H) (zero64 H) = false) /\ (eq64 H (zero64 H) (zero64 H) = true).
    Theorem int_double_roundtrip z : - 2 ^ 53 <= z <= 2 ^ 53 ->
      step2 (VInt H z) TDouble TInteger = Ok (VInt H z) /\ step2 (VLong H z) TDouble TLong = Ok (VLong H z).
    Proof. intros Hz. unfold step2. cbn [convert_unsafe vtype_eqb type_of orb bind]. rewrite (trunc_of_int64 z Hz). split; reflexivity. Qed.
    Theorem float_double_roundtrip f : ok32 f -> step2 (VFloat H f) TDouble TFloat = Ok (VFloat H f).
    Proof. intros Hf. unfold step2. cbn [convert_unsafe vtype_eqb type_of orb bind]. rewrite (narrow_widen f Hf). reflexivity. Qed.
    Theorem bool_float_roundtrip b : step2 (VBool H b) TFloat TBoolean = Ok (VBool H b) /\ step2 (VBool H b) TDouble TBoolean = Ok (VBool H b).
    Proof.
      destruct bool_floats as (H1 & H2 & H3 & H4).
      destruct b; unfold step2; cbn [convert_unsafe vtype_eqb type_of orb bind]; rewrite ?H1, ?H2, ?H3, ?H4; split; reflexivity.
    Qed.
  End RoundTrips.

  Section Ops.
    Variable convert : value -> vtype -> outcome value.
    Hypothesis Hwt : well_typed convert.
    Hypothesis Hnp : forall v t, convert v t <> Panic.

    (* after conversion to the first operand's type (first operand not Null, not Object-typed target trick) the types agree *)
    Lemma converted_type a b b' : is_null H a = false -> convert b (type_of H a) = Ok b' ->
      type_of H b' = type_of H a \/ (type_of H a = TObject /\ b' = b).
    Proof.
      intros Ha E. destruct (Hwt _ _ _ E) as [Ht|[[Ht|Ht] ->]]; auto.
    Qed.

    (* C06: Null propagates through every binary operator except equality and inequality *)
    Theorem null_propagates a b : is_null H a = true \/ is_null H b = true ->
      add H convert a b = Ok (VNull H) /\ sub H convert a b = Ok (VNull H) /\ mul H convert a b = Ok (VNull H) /\
      div H convert a b = Ok (VNull H) /\ modulo H convert a b = Ok (VNull H) /\ pow H convert a b = Ok (VNull H) /\
      and_ H convert a b = Ok (VNull H) /\ or_ H convert a b = Ok (VNull H) /\ xor_ H convert a b = Ok (VNull H) /\
      lsh H convert a b = Ok (VNull H) /\ rsh H convert a b = Ok (VNull H) /\
      less H convert a b = Ok (VNull H) /\ more H convert a b = Ok (VNull H) /\
      less_equal H convert a b = Ok (VNull H) /\ more_equal H convert a b = Ok (VNull H) /\
      in_ H convert a b = Ok (VNull H) /\ get_element H convert a b = Ok (VNull H).
    Proof.
      intros Hn. assert (E: is_null H a || is_null H b = true) by (destruct Hn as [->| ->]; [reflexivity|apply orb_true_r]).
      unfold add, sub, mul, div, modulo, pow, and_, or_, xor_, logic, lsh, rsh, shift, less, more, less_equal, more_equal, in_, get_element, arith.
      rewrite E. repeat split; reflexivity.
    Qed.

    Theorem negative_null : negative H (VNull H) = Ok (VNull H) /\ not_ H (VNull H) = Ok (VBool H true).
    Proof. split; reflexivity. Qed.

    (* C06: no arithmetic operator panics (the failed-type-assertion branches are unreachable) *)
    Theorem add_no_panic a b : type_of H a <> TObject -> add H convert a b <> Panic.
    Proof.
      intros Hobj. unfold add, arith. destruct (is_null H a || is_null H b) eqn:En; [discriminate|].
      apply orb_false_iff in En. destruct En as [Ha _].
      destruct (convert b (type_of H a)) as [b'| |] eqn:Ec; cbn [bind]; [|discriminate|exact (fun E => Hnp _ _ Ec)].
      destruct (converted_type a b b' Ha Ec) as [Ht|[Ht _]]; [|contradiction].
      destruct a, b'; try discriminate; simpl in Ht; try discriminate.
    Qed.

    Hypothesis Hid : forall v, convert v (type_of H v) = Ok v.
    Ltac rid v := let E := fresh in pose proof (Hid v) as E; cbn [type_of] in E; rewrite E; clear E.

    (* C06: an undefined operation is an error, neither a value nor a crash *)
    Theorem div_by_zero_is_error x : div H convert (VInt H x) (VInt H 0) = Err (div_err) /\ modulo H convert (VLong H x) (VLong H 0) = Err (div_err).
    Proof. unfold div, modulo, arith. cbn [is_null orb type_of]. rid (VInt H 0). rid (VLong H 0). split; reflexivity. Qed.

    Theorem negative_shift_is_error x n : n < 0 -> lsh H convert (VInt H x) (VInt H n) = Err (shift_err) /\ rsh H convert (VLong H x) (VInt H n) = Err (shift_err).
    Proof.
      intros Hn. unfold lsh, rsh, shift. cbn [is_null orb]. rid (VInt H n). cbn [bind as_int].
      destruct (Z.ltb_spec n 0); [split; reflexivity|lia].
    Qed.

    Theorem index_out_of_range_is_error l i : (i < 0 \/ Z.of_nat (length l) <= i) ->
      get_element H convert (VArray H l) (VInt H i) = Err (index_err).
    Proof.
      intros Hi. unfold get_element. cbn [is_null orb]. rid (VInt H i). cbn [bind as_int].
      destruct (Z.ltb_spec i 0); [reflexivity|]. destruct (Z.leb_spec (Z.of_nat (length l)) i); [reflexivity|lia].
    Qed.

    Theorem element_is_nth l i e : nth_error l i = Some e -> get_element H convert (VArray H l) (VInt H (Z.of_nat i)) = Ok e.
    Proof.
      intros Hn. unfold get_element. cbn [is_null orb]. rid (VInt H (Z.of_nat i)). cbn [bind as_int].
      assert (Hlt: (i < length l)%nat) by (apply nth_error_Some; congruence).
      destruct (Z.ltb_spec (Z.of_nat i) 0); [lia|]. destruct (Z.leb_spec (Z.of_nat (length l)) (Z.of_nat i)); [lia|].
      cbn [orb]. rewrite Nat2Z.id, Hn. reflexivity.
    Qed.

    (* comparisons on integers are mutually consistent *)
    Theorem int_cmp_consistent x y :
      less H convert (VInt H x) (VInt H y) = more H convert (VInt H y) (VInt H x) /\
      less_equal H convert (VInt H x) (VInt H y) = Ok (VBool H ((x <? y) || (x =? y))) /\
      not_equal H convert (VInt H x) (VInt H y) = Ok (VBool H (negb (x =? y))) /\ equal H convert (VInt H x) (VInt H y) = Ok (VBool H (x =? y)).
    Proof.
      unfold less, more, less_equal, not_equal, equal, arith. cbn [is_null orb andb type_of]. rid (VInt H y). rid (VInt H x). cbn [bind compare_with].
      repeat split; try reflexivity.
      - f_equal. f_equal. rewrite Z.gtb_ltb. reflexivity.
      - f_equal. f_equal. destruct (Z.leb_spec x y), (Z.ltb_spec x y), (Z.eqb_spec x y); simpl; try reflexivity; lia.
    Qed.
  End Ops.
End Proofs.

Print Assumptions unsafe_well_typed.
Print Assumptions null_propagates.
