(* Executable glue for C10 (and the template halves of C18 / C05): tokenizer tokens -> mustache lexical analysis ->
   section parser -> renderer.
   input  = L [text; tokens; vars; lowers]   token = L [I type; value]; vars = L [L [name; value] ...];
            lowers = L [L [s; lower s] ...]  (strings.ToLower as a host oracle for the names that occur)
   output = L [I 0; rendered; L [name ...]] | L [I 1; I code]
            code 1 UNEXPECTED_SYMBOL 2 MISTMATCHED_BRACKETS 3 INTERNAL 4 UNEXPECTED_END 5 UNEXPECTED_SECTION_END 6 NOT_CLOSED_SECTION *)
From Coq Require Import List ZArith Bool.
Import ListNotations.
Require Import Sx Tables Mustache.
Open Scope Z_scope.

Definition dec_mtok (s : sx) : token :=
  let t := gz (nth_sx 0 s) in
  {| ty := if t =? tt_Special then TSpecial else if t =? tt_Symbol then TSymbol else if t =? tt_Word then TWord
           else if t =? tt_Whitespace then TWhitespace else TOther;
     value := gstr (nth_sx 1 s) |}.

Fixpoint lookup_lower (tbl : list sx) (s : str) : str :=
  match tbl with
  | [] => s
  | e :: r => if str_eqb (gstr (nth_sx 0 e)) s then gstr (nth_sx 1 e) else lookup_lower r s
  end.

(* MustacheTemplate.escapeString: the eight ReplaceAll calls amount to a character-wise map *)
Definition escape_char (c : Z) : str :=
  if c =? 92 then [92; 92] else if c =? 34 then [92; 34] else if c =? 47 then [92; 47] else if c =? 8 then [92; 98]
  else if c =? 12 then [92; 102] else if c =? 10 then [92; 110] else if c =? 13 then [92; 114] else if c =? 9 then [92; 116] else [c].
Definition escape (s : str) : str := flat_map escape_char s.

(* MustacheParser.lookupVariables over the initial tokens *)
Fixpoint mnames (lower : str -> str) (ts : list mtoken) (seen : list str) : list str :=
  match ts with
  | [] => rev seen
  | t :: r =>
      match mk t, mv t with
      | KValue, _ | KComment, _ | _, [] => mnames lower r seen
      | _, v => if existsb (fun s => str_eqb (lower s) (lower v)) seen then mnames lower r seen else mnames lower r (v :: seen)
      end
  end.

Definition merr_code (e : merr) : Z :=
  match e with EUnexpectedSymbol => 1 | EMismatchedBrackets => 2 | EInternal => 3 | EUnexpectedEnd => 4 | EUnexpectedSectionEnd => 5 | ENotClosedSection => 6 end.

Definition model_C10 (input : sx) : sx :=
  let toks := map dec_mtok (gl (nth_sx 1 input)) in
  let vars := map (fun b => (gstr (nth_sx 0 b), gstr (nth_sx 1 b))) (gl (nth_sx 2 input)) in
  let lower := lookup_lower (gl (nth_sx 3 input)) in
  match toks with
  | [] => L [I 0; L []; L []]
  | _ =>
      match lex_all lex0 toks [] with
      | Ok mts =>
          match mparse mts with
          | Ok nodes => L [I 0; estr (render lower escape vars nodes); L (map estr (mnames lower mts []))]
          | Err e => L [I 1; I (merr_code e)]
          | Panic => L [I (-999)] | Fuel => L [I (-997)]
          end
      | Err e => L [I 1; I (merr_code e)]
      | Panic => L [I (-999)] | Fuel => L [I (-997)]
      end
  end.
