(* Model of SymbolNode / SymbolRootNode / GenericSymbolState (after repair F6: the ancestry of a node is
   the path that leads to it).  The tree is kept flat: a finite map from paths to node information. *)
Require Import Base Cursor.

Record info := { valid : bool; tt : ttype }.
Definition trie := list (str * info).                    (* newest binding first *)

Fixpoint str_eqb (a b : str) : bool :=
  match a, b with [], [] => true | x :: a', y :: b' => (x =? y) && str_eqb a' b' | _, _ => false end.
Lemma str_eqb_eq a b : str_eqb a b = true <-> a = b.
Proof.
  revert b. induction a as [|x a IH]; intros [|y b]; simpl; split; intros H; try reflexivity; try discriminate.
  - apply andb_prop in H. destruct H as [H1 H2]. apply Z.eqb_eq in H1. apply IH in H2. subst. reflexivity.
  - inversion H; subst. rewrite Z.eqb_refl. simpl. apply IH. reflexivity.
Qed.

Fixpoint node (t : trie) (path : str) : option info :=
  match t with [] => None | (q, i) :: t' => if str_eqb q path then Some i else node t' path end.
Definition set_node (t : trie) (path : str) (i : info) : trie := (path, i) :: t.
Definition ensure (t : trie) (path : str) : trie :=
  match node t path with Some _ => t | None => set_node t path {| valid := false; tt := Unknown |} end.

(* SymbolNode.AddDescendantLine *)
Fixpoint descend (t : trie) (path rest : str) (ty : ttype) : trie :=
  match rest with
  | [] => set_node t path {| valid := true; tt := ty |}
  | c :: r => descend (ensure t (path ++ [c])) (path ++ [c]) r ty
  end.

(* SymbolRootNode.Add; the empty symbol makes Go panic and is excluded by the callers *)
Definition add (t : trie) (sym : str) (ty : ttype) : trie :=
  match sym with
  | [] => t
  | v0 :: rest =>
      let t1 := ensure t [v0] in
      let t2 := match node t1 [v0] with
                | Some i => if negb (valid i) then set_node t1 [v0] {| valid := true; tt := Symbol |} else t1
                | None => t1 end in
      descend t2 [v0] rest ty
  end.

Definition build (regs : list (str * ttype)) : trie := fold_left (fun t r => add t (fst r) (snd r)) regs [].

(* SymbolNode.DeepestRead *)
Fixpoint deepest (t : trie) (fuel : nat) (path : str) (s : cur) : str * cur :=
  match fuel with O => (path, s) | S f =>
    let '(c, s') := read s in
    if negb (c =? eof) then
      match node t (path ++ [c]) with
      | Some _ => deepest t f (path ++ [c]) s'
      | None => (path, unread s') end
    else (path, unread s')
  end.

(* SymbolNode.UnreadToValid: the root is the empty path *)
Fixpoint climb (t : trie) (fuel : nat) (path : str) (s : cur) : str * cur :=
  match fuel with O => (path, s) | S f =>
    match path with
    | [] => (path, s)
    | _ => match node t path with
           | Some i => if valid i then (path, s) else climb t f (removelast path) (unread s)
           | None => (path, s) end
    end
  end.

Definition node_type (t : trie) (path : str) : ttype := match node t path with Some i => tt i | None => Unknown end.

(* SymbolRootNode.NextToken; lc is the line/column function of the scanner (C11) *)
Definition symbol_next (lc : cur -> Z * Z) (t : trie) (s0 : cur) : token * cur :=
  let '(c0, s1) := read s0 in
  let pos := lc s1 in
  match node t [c0] with
  | Some _ =>
      let '(path, s2) := deepest t (S (clen s0)) [c0] s1 in
      let '(path', s3) := climb t (S (length path)) path s2 in
      (mk (node_type t path') path' pos, s3)
  | None => (mk Symbol [c0] pos, s1)
  end.

(* every first-level node is valid: established by add, needed for symbol_next to return a non-empty token *)
Definition first_valid (t : trie) : Prop := forall c i, node t [c] = Some i -> valid i = true.
