(* C10 at string level: SetTemplate in the model = mustache tokenizer (with the parser's options) + lexical state machine
   + section parser.  For every template text that is a sequence of template lexemes (MustacheStep.mlex: text outside
   tags, generic lexemes inside, written so that neighbours cannot merge) the tokenizer returns exactly those lexemes,
   blanks inside tags are skipped by the lexical analysis, and the token-level theorems of C10 hold of the text. *)
From Coq Require Import List ZArith Bool Lia.
Import ListNotations.
Require Import Base Cursor Trie TrieSpec States Tokenizer TokenizerProofs Instances Tables TokModel TokModelProofs.
Require Import LexFacts LexStep LexGrammar LexSeq LexRoundtrip CsvRoundtrip ExprString MustacheStep.
Require Mustache MustacheSpec MustacheReject.
Open Scope Z_scope.

(* tokenizer token -> token of the template parser model *)
Definition mtok (p : ttype * Base.str) : Mustache.token :=
  {| Mustache.ty := match fst p with Special => Mustache.TSpecial | Symbol => Mustache.TSymbol | Word => Mustache.TWord
                                     | Whitespace => Mustache.TWhitespace | _ => Mustache.TOther end;
     Mustache.value := snd p |}.

(* MustacheParser.ParseString on a trimmed text *)
Definition parse_template (s : Base.str) : Mustache.res (list Mustache.mnode) :=
  match tokenize_with TMustache parser_opts s with
  | Tokenizer.Ok ts => MustacheReject.lex_then_parse (map (fun t => mtok (ty t, value t)) ts)
  | _ => Mustache.Panic
  end.

(* no lexeme inside a tag starts with a quote character, no comment lexemes, no two adjacent whitespace lexemes *)
Definition plain_tags (ls : list (ttype * Base.str)) : Prop :=
  Forall (fun p => fst p <> Special -> is_quote_kind (Instances.table mcfg (hdz (snd p))) = false) ls.
Fixpoint spaced (last : ttype) (l : list ttype) : Prop :=
  match l with [] => True | t :: l' => t <> Comment /\ ~ (t = Whitespace /\ last = Whitespace) /\ spaced t l' end.

Lemma spaced_kept : forall rs last, spaced last (map (fun r => ty (rtok r)) rs) -> kept last rs.
Proof. induction rs as [|r rs IH]; intros last H; [exact I|]. cbn in H. destruct H as (H1 & H2 & H3). cbn [kept]. auto. Qed.

Theorem template_text_is_tokenized_as_its_lexemes ls : wf_str (text_of ls) -> mlex true ls -> plain_tags ls -> spaced Unknown (map fst ls) ->
  exists ts, tokenize_with TMustache parser_opts (text_of ls) = Tokenizer.Ok ts /\ map (fun t => (ty t, value t)) ts = ls.
Proof.
  intros Hwf Hm Hq Hsp. destruct (mustache_tokenize_lexemes ls Hwf Hm) as (rs & e & Htok & Hmap & Hinfo & _).
  rewrite Htok. eexists. split; [reflexivity|].
  assert (Hk: kept Unknown rs).
  { apply spaced_kept. replace (map (fun r => ty (rtok r)) rs) with (map fst ls) by (rewrite <- Hmap, map_map; reflexivity). exact Hsp. }
  rewrite (post_parser_opts decode_generic rs Unknown e Hk). rewrite map_map. rewrite <- Hmap. apply map_ext_in.
  intros r Hr. unfold dec.
  assert (Hf: from_quote r = false).
  { unfold plain_tags in Hq. rewrite Forall_forall in Hinfo, Hq. destruct (Hinfo r Hr) as [H1 H2].
    destruct (ttype_eqb (ty (rtok r)) Special) eqn:E.
    - apply ttype_eqb_eq in E. exact (H1 E).
    - assert (Hn: ty (rtok r) <> Special) by (intros X; rewrite X in E; discriminate).
      destruct (H2 Hn) as [H3 _]. rewrite H3.
      assert (Hin: In (ty (rtok r), value (rtok r)) ls) by (rewrite <- Hmap; apply (in_map (fun r0 => (ty (rtok r0), value (rtok r0)))); exact Hr).
      exact (Hq _ Hin Hn). }
  rewrite Hf. reflexivity.
Qed.

(* blanks are skipped by the lexical analysis in every state *)
Definition is_ws (p : ttype * Base.str) : bool := ttype_eqb (fst p) Whitespace.
Definition blank_ok (p : ttype * Base.str) : Prop := is_ws p = true -> Mustache.is_close (snd p) = false.

Lemma lex_all_skips_blanks : forall ls l acc, Forall blank_ok ls ->
  Mustache.lex_all l (map mtok ls) acc = Mustache.lex_all l (map mtok (filter (fun p => negb (is_ws p)) ls)) acc.
Proof.
  induction ls as [|p ls IH]; intros l acc H; [reflexivity|]. pose proof (Forall_inv H) as Hp. pose proof (Forall_inv_tail H) as Hr.
  cbn [filter map]. destruct (is_ws p) eqn:E; cbn [negb].
  - cbn [Mustache.lex_all]. unfold is_ws in E. apply ttype_eqb_eq in E.
    assert (Hl: Mustache.lex_tok l (mtok p) = Mustache.Ok (l, None)).
    { unfold Mustache.lex_tok, mtok. cbn [Mustache.value Mustache.ty]. rewrite E.
      specialize (Hp ltac:(unfold is_ws; rewrite E; reflexivity)). rewrite Hp. cbn [negb].
      destruct (Mustache.st l); reflexivity. }
    rewrite Hl. apply IH. exact Hr.
  - cbn [map Mustache.lex_all]. destruct (Mustache.lex_tok l (mtok p)) as [[l' [m|]]| | |]; try reflexivity; apply IH; exact Hr.
Qed.

Definition strip (ls : list (ttype * Base.str)) : list Mustache.token := map mtok (filter (fun p => negb (is_ws p)) ls).

(* SetTemplate of such a text = the token-level pipeline on its non-blank lexemes *)
Theorem parse_template_of_text ls : wf_str (text_of ls) -> mlex true ls -> plain_tags ls -> spaced Unknown (map fst ls) -> Forall blank_ok ls ->
  parse_template (text_of ls) = MustacheReject.lex_then_parse (strip ls).
Proof.
  intros Hwf Hm Hq Hsp Hb. destruct (template_text_is_tokenized_as_its_lexemes ls Hwf Hm Hq Hsp) as (ts & Ht & Hmap).
  unfold parse_template. rewrite Ht. unfold MustacheReject.lex_then_parse, strip.
  replace (map (fun t => mtok (ty t, value t)) ts) with (map mtok ls) by (rewrite <- Hmap, map_map; reflexivity).
  rewrite (lex_all_skips_blanks ls Mustache.lex0 [] Hb). reflexivity.
Qed.

(* with C10's token-level theorem: a text whose non-blank lexemes spell a well-formed tree parses to that tree *)
Corollary template_text_parses_to_its_tree ls ts : wf_str (text_of ls) -> mlex true ls -> plain_tags ls -> spaced Unknown (map fst ls) -> Forall blank_ok ls ->
  strip ls = MustacheSpec.flats ts -> MustacheSpec.wfs ts -> ts <> MustacheSpec.TNil ->
  parse_template (text_of ls) = Mustache.Ok (MustacheSpec.shapes ts).
Proof.
  intros H1 H2 H3 H4 H5 Hs Hw Hn. rewrite (parse_template_of_text ls H1 H2 H3 H4 H5), Hs. unfold MustacheReject.lex_then_parse.
  exact (MustacheSpec.template_parses ts Hw Hn).
Qed.

Print Assumptions parse_template_of_text.

(* ---------- non-vacuity:  Hi {{#if a}}{{{b}}}{{/if}}!  ---------- *)
Definition sample_template : list (ttype * Base.str) :=
  [ (Special, [72; 105; 32]); (Symbol, [123; 123]); (Symbol, [35]); (Word, [105; 102]); (Whitespace, [32]); (Word, [97]); (Symbol, [125; 125]);
    (Symbol, [123; 123; 123]); (Word, [98]); (Symbol, [125; 125; 125]);
    (Symbol, [123; 123]); (Symbol, [47]); (Word, [105; 102]); (Symbol, [125; 125]); (Special, [33]) ].
Definition sample_tree : MustacheSpec.tnodes :=
  MustacheSpec.TCons (MustacheSpec.TText [72; 105; 32])
    (MustacheSpec.TCons (MustacheSpec.TSec false false MustacheSpec.HashIf [97] (MustacheSpec.TCons (MustacheSpec.TEVar [98]) MustacheSpec.TNil) MustacheSpec.ByIf)
      (MustacheSpec.TCons (MustacheSpec.TText [33]) MustacheSpec.TNil)).

Ltac sym_lex :=
  match goal with |- lexeme _ _ Symbol (?x :: ?r) ?rest =>
    change Symbol with (symbol_type mregs (x :: r)); apply (L_symbol mcfg mregs x r rest); [left; reflexivity | apply longestb_ok; reflexivity] end.
Ltac word_lex := match goal with |- lexeme _ _ Word (?x :: ?r) ?rest => apply (L_word mcfg mregs x r rest); [reflexivity | repeat constructor | reflexivity] end.
Ltac ws_lex := match goal with |- lexeme _ _ Whitespace (?x :: ?r) ?rest => apply (L_space mcfg mregs x r rest); [reflexivity | repeat constructor | reflexivity] end.
Ltac text_ok :=
  split; [intros u v E; cbn in E;
          repeat (destruct u as [|? u]; [cbn in E; try discriminate E; inversion E|cbn [length]; cbn in E; inversion E; subst]); cbn [length]; lia
         | first [left; reflexivity | right; eexists; reflexivity]].

Example sample_template_is_lexemes : mlex true sample_template.
Proof.
  unfold sample_template.
  apply ML_text; [discriminate| |].
  { split; [|right; eexists; reflexivity]. intros u v E. cbn in E.
    destruct u as [|a [|b [|c u]]]; cbn in E; try discriminate E; try (cbn [length]; lia). }
  apply ML_open; [eexists; reflexivity|sym_lex|]. change (closes Symbol [123; 123]) with false.
  apply ML_tag; [sym_lex|]. change (closes Symbol [35]) with false.
  apply ML_tag; [word_lex|]. change (closes Word [105; 102]) with false.
  apply ML_tag; [ws_lex|]. change (closes Whitespace [32]) with false.
  apply ML_tag; [word_lex|]. change (closes Word [97]) with false.
  apply ML_tag; [sym_lex|]. change (closes Symbol [125; 125]) with true.
  apply ML_open; [eexists; reflexivity|sym_lex|]. change (closes Symbol [123; 123; 123]) with false.
  apply ML_tag; [word_lex|]. change (closes Word [98]) with false.
  apply ML_tag; [sym_lex|]. change (closes Symbol [125; 125; 125]) with true.
  apply ML_open; [eexists; reflexivity|sym_lex|]. change (closes Symbol [123; 123]) with false.
  apply ML_tag; [sym_lex|]. change (closes Symbol [47]) with false.
  apply ML_tag; [word_lex|]. change (closes Word [105; 102]) with false.
  apply ML_tag; [sym_lex|]. change (closes Symbol [125; 125]) with true.
  apply ML_text; [discriminate| |apply ML_nil].
  split; [|left; reflexivity]. intros u v E. cbn in E. destruct u as [|a u]; cbn in E; try discriminate E. cbn [length]. lia.
Qed.

Example sample_template_parses :
  parse_template (text_of sample_template) = Mustache.Ok (MustacheSpec.shapes sample_tree).
Proof.
  apply (template_text_parses_to_its_tree sample_template sample_tree).
  - unfold wf_str. cbn. repeat (constructor; [lia|]). constructor.
  - exact sample_template_is_lexemes.
  - unfold plain_tags, sample_template. repeat (constructor; [intros _; reflexivity|]). constructor.
  - cbn. repeat split; try discriminate; intros [H1 H2]; discriminate.
  - unfold sample_template. repeat (constructor; [intros E; try discriminate E; reflexivity|]). constructor.
  - reflexivity.
  - cbn. repeat split; discriminate.
  - discriminate.
Qed.
