(* "Each state stops exactly at the end of its lexeme": the tokenizer states run symbolically on a cursor whose
   remaining input is  lexeme ++ rest.  For every state the result is computed outright: the token is the lexeme
   with the class of the grammar and the cursor lands on the first character of rest (C13, C09). *)
From Coq Require Import List ZArith Bool Lia.
Import ListNotations.
Require Import Base Cursor Trie TrieProofs TrieSpec TrieLongest States StatesProofs.
Require Quote.
Open Scope Z_scope.

Definition cur_at (l : str) (a : nat) : cur := {| content := l; p := a |}.
Definition hdz (r : str) : Z := nth 0 r eof.                 (* first character of the rest, or end of input *)

Lemma at_skipn l : forall a i, at_ l (a + i) = nth i (skipn a l) eof.
Proof.
  unfold at_. induction l as [|x l IH]; intros a i.
  - rewrite skipn_nil. destruct (a + i)%nat, i; reflexivity.
  - destruct a as [|a]; [reflexivity|]. cbn [Nat.add nth skipn]. apply IH.
Qed.

Lemma at_hdz l a r : skipn a l = r -> at_ l a = hdz r.
Proof. intros H. rewrite <- (Nat.add_0_r a). rewrite at_skipn, H. reflexivity. Qed.

Lemma skipn_cons_inv l a x r : skipn a l = x :: r -> (a < length l)%nat /\ at_ l a = x /\ skipn (S a) l = r.
Proof.
  intros H. split; [|split].
  - destruct (Nat.le_gt_cases (length l) a) as [Hle|]; [|assumption]. rewrite skipn_all2 in H by assumption. discriminate.
  - rewrite (at_hdz l a _ H). reflexivity.
  - change (S a) with (1 + a)%nat. rewrite <- skipn_add, H. reflexivity.
Qed.

Lemma skipn_app_inv l : forall (u : str) a v, (a <= length l)%nat -> skipn a l = u ++ v -> skipn (a + length u) l = v /\ (a + length u <= length l)%nat.
Proof.
  induction u as [|x u IH]; intros a v Ha H; cbn [length app] in *.
  - rewrite Nat.add_0_r. auto.
  - destruct (skipn_cons_inv _ _ _ _ H) as (H1 & _ & H3). rewrite Nat.add_succ_r. apply (IH (S a)); [lia|exact H3].
Qed.

Lemma read_at l a : (a <= length l)%nat -> read (cur_at l a) = (at_ l a, cur_at l (S a)).
Proof.
  intros H. unfold read, cur_at, clen. cbn [content p].
  destruct (Nat.ltb_spec (length l) a); [lia|]. destruct (Nat.ltb_spec a (length l)); [reflexivity|].
  unfold at_. rewrite nth_overflow by lia. reflexivity.
Qed.

Lemma peek_at l a : peek (cur_at l a) = at_ l a.
Proof. reflexivity. Qed.

Lemma unread_at l a : unread (cur_at l (S a)) = cur_at l a.
Proof. reflexivity. Qed.

Lemma unread_many_at l n a : unread_many n (cur_at l (a + n)) = cur_at l a.
Proof.
  revert a. induction n as [|n IH]; intros a; cbn [unread_many]; [rewrite Nat.add_0_r; reflexivity|].
  rewrite Nat.add_succ_r. rewrite unread_at. apply IH.
Qed.

Lemma cur_at_eta c : c = cur_at (content c) (p c).
Proof. destruct c; reflexivity. Qed.

(* where a state leaves the cursor: on position e, or - when e is the end of the input - possibly one slot further *)
Definition lands (c' : cur) (l : str) (e : nat) : Prop := content c' = l /\ npos c' = e.

Lemma lands_at l e : (e <= length l)%nat -> lands (cur_at l e) l e.
Proof. intros H. split; [reflexivity|]. unfold npos, clen, cur_at. cbn [content p]. lia. Qed.

Lemma lands_over l e c : wf_str l -> (e <= length l)%nat -> at_ l e = c ->
  lands (if c =? eof then cur_at l (S e) else cur_at l e) l e.
Proof.
  intros Hwf He Hc. destruct (Z.eqb_spec c eof) as [E|E]; [|apply lands_at; exact He].
  split; [reflexivity|]. unfold npos, clen, cur_at. cbn [content p].
  assert (length l <= e)%nat by (apply (at_eof_iff l e Hwf); congruence). lia.
Qed.

Lemma lands_inside c' l e : lands c' l e -> (e < length l)%nat -> c' = cur_at l e.
Proof.
  intros [Hc Hn] He. rewrite (cur_at_eta c'). unfold npos, clen in Hn. rewrite Hc in *. f_equal. lia.
Qed.

Lemma lands_end c' l e : lands c' l e -> (length l <= e)%nat -> at_end c' = true.
Proof. intros [Hc Hn] He. unfold at_end, npos, clen in *. rewrite Hc in *. apply Nat.leb_le. lia. Qed.

(* ---------- runs of a character class ---------- *)
Definition all (cls : Z -> bool) (s : str) : Prop := Forall (fun c => cls c = true) s.

Lemma read_while_run cls l : forall run i rest fuel tok,
  skipn i l = run ++ rest -> all cls run -> cls (hdz rest) = false -> (length run < fuel)%nat -> (i <= length l)%nat ->
  read_while cls fuel (at_ l i) (cur_at l (S i)) tok = (at_ l (i + length run), cur_at l (S (i + length run)), tok ++ run).
Proof.
  induction run as [|x run IH]; intros i rest fuel tok Hs Hall Hstop Hf Hi; (destruct fuel as [|fuel]; [cbn [length] in Hf; lia|]); cbn [read_while length app] in *.
  - assert (E: cls (at_ l i) = false) by (rewrite (at_hdz l i rest Hs); exact Hstop). rewrite E, Nat.add_0_r, app_nil_r. reflexivity.
  - destruct (skipn_cons_inv _ _ _ _ Hs) as (H1 & H2 & H3). pose proof (Forall_inv Hall) as Hx; pose proof (Forall_inv_tail Hall) as Hr; cbv beta in Hx.
    rewrite H2, Hx. rewrite read_at by lia. rewrite (IH (S i) rest fuel (tok ++ [x]) H3 Hr Hstop) by lia.
    rewrite Nat.add_succ_r. cbn [Nat.add]. rewrite <- app_assoc. reflexivity.
Qed.

Lemma peek_while_run cls l : forall run i rest fuel tok,
  skipn i l = run ++ rest -> all cls run -> cls (hdz rest) = false -> (length run < fuel)%nat -> (i <= length l)%nat ->
  peek_while cls fuel (cur_at l i) tok = (cur_at l (i + length run), tok ++ run).
Proof.
  induction run as [|x run IH]; intros i rest fuel tok Hs Hall Hstop Hf Hi; (destruct fuel as [|fuel]; [cbn [length] in Hf; lia|]); cbn [peek_while length app] in *.
  - assert (E: cls (at_ l i) = false) by (rewrite (at_hdz l i rest Hs); exact Hstop). rewrite peek_at, E, Nat.add_0_r, app_nil_r. reflexivity.
  - destruct (skipn_cons_inv _ _ _ _ Hs) as (H1 & H2 & H3). pose proof (Forall_inv Hall) as Hx; pose proof (Forall_inv_tail Hall) as Hr; cbv beta in Hx.
    rewrite peek_at, H2, Hx. rewrite read_at by lia. rewrite H2. rewrite (IH (S i) rest fuel (tok ++ [x]) H3 Hr Hstop) by lia.
    rewrite Nat.add_succ_r. cbn [Nat.add]. rewrite <- app_assoc. reflexivity.
Qed.

Section Steps.
  Variable lc plc : cur -> Z * Z.

  (* identifiers, whitespace, line comments: the maximal run of the class *)
  Lemma class_next_run cls t l a lx rest : wf_str l -> (a <= length l)%nat -> skipn a l = lx ++ rest -> lx <> [] ->
    all cls lx -> cls (hdz rest) = false ->
    exists c', class_next lc cls t (cur_at l a) = (mk t lx (lc (cur_at l (S a))), c') /\ lands c' l (a + length lx).
  Proof.
    intros Hwf Ha Hs Hne Hall Hstop. destruct (skipn_app_inv l lx a rest Ha Hs) as [Hrest Hb].
    unfold class_next. rewrite read_at by exact Ha.
    rewrite (read_while_run cls l lx a rest _ [] Hs Hall Hstop) by (unfold clen, cur_at; cbn [content]; lia).
    cbn [app]. eexists. split; [reflexivity|]. apply lands_over; auto.
  Qed.

  (* ---------- quoted strings ---------- *)
  Lemma gquote_loop_run l q : forall body i rest fuel tok,
    skipn i l = body ++ q :: rest -> Forall (fun c => c <> q /\ c <> eof) body -> q <> eof -> (length body < fuel)%nat -> (i <= length l)%nat ->
    gquote_loop fuel q (at_ l i) (cur_at l (S i)) tok = (cur_at l (S (i + length body)), tok ++ body ++ [q]).
  Proof.
    induction body as [|x body IH]; intros i rest fuel tok Hs Hb Hq Hf Hi; (destruct fuel as [|fuel]; [cbn [length] in Hf; lia|]); cbn [gquote_loop length app] in *.
    - destruct (skipn_cons_inv _ _ _ _ Hs) as (H1 & H2 & H3). rewrite H2.
      destruct (Z.eqb_spec q eof); [contradiction|]. rewrite Z.eqb_refl. rewrite Nat.add_0_r. reflexivity.
    - destruct (skipn_cons_inv _ _ _ _ Hs) as (H1 & H2 & H3). destruct (Forall_inv Hb) as [Hx1 Hx2]; pose proof (Forall_inv_tail Hb) as Hr. rewrite H2.
      destruct (Z.eqb_spec x eof); [contradiction|]. destruct (Z.eqb_spec x q); [contradiction|].
      rewrite read_at by lia. rewrite (IH (S i) rest fuel (tok ++ [x]) H3 Hr Hq) by lia.
      rewrite Nat.add_succ_r. cbn [Nat.add]. rewrite <- app_assoc. reflexivity.
  Qed.

  Lemma gquote_next_run l a q body rest : (a <= length l)%nat -> skipn a l = (q :: body ++ [q]) ++ rest ->
    Forall (fun c => c <> q /\ c <> eof) body -> q <> eof ->
    gquote_next lc (cur_at l a) = (mk Quoted (q :: body ++ [q]) (lc (cur_at l (S a))), cur_at l (a + length (q :: body ++ [q]))).
  Proof.
    intros Ha Hs Hb Hq. cbn [app] in Hs. destruct (skipn_cons_inv _ _ _ _ Hs) as (H1 & H2 & H3). rewrite <- app_assoc in H3. cbn [app] in H3.
    destruct (skipn_app_inv l body (S a) (q :: rest) ltac:(lia) H3) as [H4 H5].
    unfold gquote_next. rewrite read_at by exact Ha. rewrite H2. rewrite read_at by lia.
    rewrite (gquote_loop_run l q body (S a) rest _ [q] H3 Hb Hq) by (unfold clen, cur_at; cbn [content]; lia).
    cbn [app length]. rewrite app_length. cbn [length]. do 2 f_equal. f_equal. lia.
  Qed.

  (* a body in which every quote character is doubled *)
  Notation double := Quote.double.

  Lemma in_double q c body : In c body -> c <> q -> In c (double q body).
  Proof.
    intros Hin Hc. induction body as [|x body IH]; [contradiction|]. cbn [Quote.double].
    destruct Hin as [->|Hin]; [destruct (Z.eqb_spec c q); [contradiction|left; reflexivity]|].
    destruct (x =? q); [right; right|right]; apply IH; exact Hin.
  Qed.

  Lemma dquote_loop_run l q : forall body i rest fuel tok,
    skipn i l = double q body ++ q :: rest -> Forall (fun c => c <> eof) body -> q <> eof -> hdz rest <> q ->
    (length (double q body) < fuel)%nat -> (i <= length l)%nat ->
    dquote_loop fuel q (at_ l i) (cur_at l (S i)) tok = (cur_at l (S (i + length (double q body))), tok ++ double q body ++ [q]).
  Proof.
    induction body as [|x body IH]; intros i rest fuel tok Hs Hb Hq Hr Hf Hi; (destruct fuel as [|fuel]; [cbn [length] in Hf; lia|]).
    - cbn [Quote.double length app] in *. cbn [dquote_loop].
      destruct (skipn_cons_inv _ _ _ _ Hs) as (H1 & H2 & H3). rewrite H2.
      destruct (Z.eqb_spec q eof); [contradiction|]. rewrite Z.eqb_refl. rewrite peek_at, (at_hdz l (S i) rest H3).
      destruct (Z.eqb_spec (hdz rest) q); [contradiction|]. rewrite Nat.add_0_r. reflexivity.
    - pose proof (Forall_inv Hb) as Hx; pose proof (Forall_inv_tail Hb) as Hb'; cbv beta in Hx. cbn [Quote.double] in *.
      destruct (Z.eqb_spec x q) as [E|E].
      + subst x. cbn [app length] in *. cbn [dquote_loop].
        destruct (skipn_cons_inv _ _ _ _ Hs) as (H1 & H2 & H3). destruct (skipn_cons_inv _ _ _ _ H3) as (H4 & H5 & H6).
        rewrite H2. destruct (Z.eqb_spec q eof); [contradiction|]. rewrite Z.eqb_refl. rewrite peek_at, H5, Z.eqb_refl.
        rewrite read_at by lia. rewrite H5. rewrite read_at by lia.
        rewrite (IH (S (S i)) rest fuel ((tok ++ [q]) ++ [q]) H6 Hb' Hq Hr) by lia.
        rewrite !Nat.add_succ_r. cbn [Nat.add]. rewrite <- !app_assoc. reflexivity.
      + cbn [app length] in *. cbn [dquote_loop].
        destruct (skipn_cons_inv _ _ _ _ Hs) as (H1 & H2 & H3). rewrite H2.
        destruct (Z.eqb_spec x eof); [contradiction|]. destruct (Z.eqb_spec x q); [contradiction|].
        rewrite read_at by lia. rewrite (IH (S i) rest fuel (tok ++ [x]) H3 Hb' Hq Hr) by lia.
        rewrite Nat.add_succ_r. cbn [Nat.add]. rewrite <- app_assoc. reflexivity.
  Qed.

  Lemma dquote_next_run f l a q body rest : (a <= length l)%nat -> skipn a l = (q :: double q body ++ [q]) ++ rest ->
    Forall (fun c => c <> eof) body -> q <> eof -> hdz rest <> q ->
    dquote_next lc f (cur_at l a) = (mk (f q) (q :: double q body ++ [q]) (lc (cur_at l (S a))), cur_at l (a + length (q :: double q body ++ [q]))).
  Proof.
    intros Ha Hs Hb Hq Hr. cbn [app] in Hs. destruct (skipn_cons_inv _ _ _ _ Hs) as (H1 & H2 & H3). rewrite <- app_assoc in H3. cbn [app] in H3.
    destruct (skipn_app_inv l (double q body) (S a) (q :: rest) ltac:(lia) H3) as [H4 H5].
    unfold dquote_next. rewrite read_at by exact Ha. rewrite H2. rewrite read_at by lia.
    rewrite (dquote_loop_run l q body (S a) rest _ [q] H3 Hb Hq Hr) by (unfold clen, cur_at; cbn [content]; lia).
    cbn [app length]. rewrite app_length. cbn [length]. do 2 f_equal. f_equal. lia.
  Qed.

  (* ---------- block comments: the first "*/" after the opener closes ---------- *)
  Definition has_close (w : str) : Prop := exists u v, w = u ++ [42; 47] ++ v.

  Lemma ml_loop_run l : forall body last i rest fuel tok,
    skipn i l = body ++ [42; 47] ++ rest -> ~ has_close (last :: body ++ [42]) -> Forall (fun c => c <> eof) body ->
    (S (length body) < fuel)%nat -> (i <= length l)%nat ->
    ml_loop fuel last (at_ l i) (cur_at l (S i)) tok = (cur_at l (S (S (i + length body))), tok ++ body ++ [42; 47]).
  Proof.
    induction body as [|x body IH]; intros last i rest fuel tok Hs Hnc Hb Hf Hi.
    - cbn [app length] in *. destruct fuel as [|[|fuel]]; try lia.
      destruct (skipn_cons_inv _ _ _ _ Hs) as (H1 & H2 & H3). destruct (skipn_cons_inv _ _ _ _ H3) as (H4 & H5 & H6).
      cbn [ml_loop]. rewrite H2. change (42 =? eof) with false. change (42 =? 47) with false. rewrite andb_false_r.
      rewrite read_at by lia. rewrite H5. change (47 =? eof) with false. change ((42 =? 42) && (47 =? 47)) with true. cbn iota.
      rewrite Nat.add_0_r. rewrite <- app_assoc. reflexivity.
    - cbn [app length] in *. destruct fuel as [|fuel]; [lia|]. pose proof (Forall_inv Hb) as Hx; pose proof (Forall_inv_tail Hb) as Hb'; cbv beta in Hx.
      destruct (skipn_cons_inv _ _ _ _ Hs) as (H1 & H2 & H3).
      cbn [ml_loop]. rewrite H2. destruct (Z.eqb_spec x eof); [contradiction|].
      destruct ((last =? 42) && (x =? 47)) eqn:E.
      + exfalso. apply andb_prop in E. destruct E as [E1 E2]. apply Z.eqb_eq in E1, E2. apply Hnc. exists [], (body ++ [42]). rewrite E1, E2. reflexivity.
      + assert (Hnc': ~ has_close (x :: body ++ [42])).
        { intros (u & v & Huv). apply Hnc. exists (last :: u), v. cbn [app]. f_equal. exact Huv. }
        rewrite read_at by lia. rewrite (IH x (S i) rest fuel (tok ++ [x]) H3 Hnc' Hb') by lia.
        rewrite Nat.add_succ_r. cbn [Nat.add]. rewrite <- app_assoc. reflexivity.
  Qed.

  Lemma c_comment_run symbol l a body rest : (a <= length l)%nat -> skipn a l = ([47; 42] ++ body ++ [42; 47]) ++ rest ->
    ~ has_close (body ++ [42]) -> Forall (fun c => c <> eof) body ->
    c_comment_next lc symbol (cur_at l a) =
      Some (mk Comment ([47; 42] ++ body ++ [42; 47]) (lc (cur_at l (S a))), cur_at l (a + length ([47; 42] ++ body ++ [42; 47]))).
  Proof.
    intros Ha Hs Hnc Hb. cbn [app] in Hs. destruct (skipn_cons_inv _ _ _ _ Hs) as (H1 & H2 & H3). destruct (skipn_cons_inv _ _ _ _ H3) as (H4 & H5 & H6).
    rewrite <- app_assoc in H6.
    destruct (skipn_app_inv l body (S (S a)) _ ltac:(lia) H6) as [H7 H8].
    unfold c_comment_next. rewrite read_at by exact Ha. rewrite H2. cbn [Z.eqb negb Pos.eqb]. rewrite read_at by lia. rewrite H5. cbn [Z.eqb Pos.eqb].
    rewrite read_at by lia.
    assert (Hnc': ~ has_close (0 :: body ++ [42])).
    { intros (u & v & Huv). apply Hnc. destruct u as [|u0 u]; [discriminate|]. exists u, v. cbn [app] in Huv. inversion Huv as [[H0 H9]]. exact H9. }
    rewrite (ml_loop_run l body 0 (S (S a)) rest _ [47; 42] H6 Hnc' Hb) by (unfold clen, cur_at; cbn [content]; cbn [app length] in H8; lia).
    cbn [app length]. rewrite app_length. cbn [length]. do 3 f_equal. lia.
  Qed.

  Lemma c_comment_not symbol l a rest : (a <= length l)%nat -> skipn a l = 47 :: rest -> hdz rest <> 42 ->
    c_comment_next lc symbol (cur_at l a) = Some (symbol (cur_at l a)).
  Proof.
    intros Ha Hs Hr. destruct (skipn_cons_inv _ _ _ _ Hs) as (H1 & H2 & H3).
    unfold c_comment_next. rewrite read_at by exact Ha. rewrite H2. cbn [Z.eqb negb Pos.eqb]. rewrite read_at by lia.
    rewrite (at_hdz l (S a) rest H3). destruct (Z.eqb_spec (hdz rest) 42); [contradiction|]. reflexivity.
  Qed.

  (* ---------- CsvSymbolState: a separator is one character; line breaks go to the symbol tree ---------- *)
  Lemma csv_separator_run symbol l a x rest : (a <= length l)%nat -> skipn a l = x :: rest -> x <> LF -> x <> CR ->
    csv_symbol_next lc symbol (cur_at l a) = (mk Symbol [x] (lc (cur_at l (S a))), cur_at l (S a)).
  Proof.
    intros Ha Hs H1 H2. destruct (skipn_cons_inv _ _ _ _ Hs) as (_ & Hx & _). unfold csv_symbol_next. rewrite read_at by exact Ha. rewrite Hx.
    destruct (Z.eqb_spec x LF); [contradiction|]. destruct (Z.eqb_spec x CR); [contradiction|]. reflexivity.
  Qed.
  Lemma csv_eol_run symbol l a x rest : (a <= length l)%nat -> skipn a l = x :: rest -> (x = LF \/ x = CR) ->
    csv_symbol_next lc symbol (cur_at l a) = symbol (cur_at l a).
  Proof.
    intros Ha Hs Hx'. destruct (skipn_cons_inv _ _ _ _ Hs) as (_ & Hx & _). unfold csv_symbol_next. rewrite read_at by exact Ha. rewrite Hx, unread_at.
    destruct Hx' as [-> | ->]; reflexivity.
  Qed.
End Steps.

(* ---------- numbers ---------- *)
Section Numbers.
  Variable lc plc : cur -> Z * Z.

  Lemma all_digit_hd ds tl : all is_digit ds -> ds <> [] -> hdz (ds ++ tl) <> 45 /\ hdz (ds ++ tl) <> 46 /\ hdz (ds ++ tl) <> eof.
  Proof.
    intros Hd Hne. destruct ds as [|d ds]; [congruence|]. pose proof (Forall_inv Hd) as H. cbv beta in H. cbn [app hdz nth].
    unfold is_digit in H. apply andb_prop in H. destruct H as [H1 H2]. apply Z.leb_le in H1, H2. unfold eof. lia.
  Qed.

  Lemma length_neq_app (a b : str) : negb (Nat.eqb (length (a ++ b)) (length a)) = negb (Nat.eqb (length b) 0).
  Proof. rewrite app_length. destruct (Nat.eqb_spec (length a + length b) (length a)), (Nat.eqb_spec (length b) 0); try reflexivity; lia. Qed.

  Definition nonempty (s : str) : bool := negb (Nat.eqb (length s) 0).
  Lemma nonempty_true s : s <> [] -> nonempty s = true.
  Proof. destruct s; [congruence|reflexivity]. Qed.

  (* the part of GenericNumberState after the optional sign *)
  Definition number_rest (symbol : cur -> token * cur) (fuel : nat) (pos : Z * Z) (tok : str) (c1 : Z) (s2 : cur) : token * cur :=
    let '(c2, s3, tok2) := read_while is_digit fuel c1 s2 tok in
    let got := negb (Nat.eqb (length tok2) (length tok)) in
    let '(c3, s4, tok3, got2, dot) :=
      if c2 =? 46 then
        let '(c, s) := read s3 in
        let '(c', s', t') := read_while is_digit fuel c s (tok2 ++ [46]) in
        (c', s', t', got || negb (Nat.eqb (length t') (S (length tok2))), true)
      else (c2, s3, tok2, got, false) in
    let s5 := unread s4 in
    if got2 then (mk (if dot then Float else Integer) tok3 pos, s5)
    else symbol (unread_many (length tok3) s5).

  Lemma number_next_unfold symbol s0 :
    number_next lc symbol s0 =
    let '(c0, s1) := read s0 in
    let '(tok, c1, s2) := if c0 =? 45 then let '(c, s) := read s1 in ([45], c, s) else ([], c0, s1) in
    number_rest symbol (S (clen s0)) (lc s1) tok c1 s2.
  Proof. unfold number_next, number_rest. destruct (read s0) as [c0 s1]. destruct (c0 =? 45); [destruct (read s1)|]; reflexivity. Qed.

  (* integer part, optional fraction; j is the index of the first character after the sign *)
  Lemma number_rest_int symbol l j ds rest fuel pos tok : (j <= length l)%nat -> skipn j l = ds ++ rest -> all is_digit ds -> ds <> [] ->
    is_digit (hdz rest) = false -> hdz rest <> 46 -> (length l < fuel)%nat ->
    number_rest symbol fuel pos tok (at_ l j) (cur_at l (S j)) = (mk Integer (tok ++ ds) pos, cur_at l (j + length ds)).
  Proof.
    intros Hj Hs Hd Hne Hr1 Hr2 Hf. destruct (skipn_app_inv l ds j rest Hj Hs) as [H1 H2].
    unfold number_rest. rewrite (read_while_run is_digit l ds j rest fuel tok Hs Hd Hr1) by lia.
    rewrite (at_hdz l _ rest H1). destruct (Z.eqb_spec (hdz rest) 46); [contradiction|].
    rewrite length_neq_app. change (negb (Nat.eqb (length ds) 0)) with (nonempty ds). rewrite (nonempty_true ds Hne). rewrite unread_at. reflexivity.
  Qed.

  Lemma number_rest_float symbol l j ds fs rest fuel pos tok : (j <= length l)%nat -> skipn j l = (ds ++ 46 :: fs) ++ rest ->
    all is_digit ds -> all is_digit fs -> ds ++ fs <> [] -> is_digit (hdz rest) = false -> (length l < fuel)%nat ->
    number_rest symbol fuel pos tok (at_ l j) (cur_at l (S j)) = (mk Float (tok ++ ds ++ 46 :: fs) pos, cur_at l (j + length (ds ++ 46 :: fs))).
  Proof.
    intros Hj Hs Hd Hfs Hne Hr Hf. rewrite <- app_assoc in Hs. cbn [app] in Hs.
    destruct (skipn_app_inv l ds j _ Hj Hs) as [H1 H2]. destruct (skipn_cons_inv _ _ _ _ H1) as (H3 & H4 & H5).
    destruct (skipn_app_inv l fs (S (j + length ds)) rest ltac:(lia) H5) as [H6 H7].
    unfold number_rest. rewrite (read_while_run is_digit l ds j (46 :: fs ++ rest) fuel tok Hs Hd eq_refl) by lia.
    rewrite H4. cbn [Z.eqb Pos.eqb]. rewrite read_at by lia.
    rewrite (read_while_run is_digit l fs (S (j + length ds)) rest fuel _ H5 Hfs Hr) by lia.
    rewrite unread_at.
    assert (Hg: negb (Nat.eqb (length (tok ++ ds)) (length tok)) || negb (Nat.eqb (length (((tok ++ ds) ++ [46]) ++ fs)) (S (length (tok ++ ds)))) = true).
    { rewrite length_neq_app. rewrite !app_length. cbn [length].
      destruct ds as [|d ds]; [|reflexivity]. destruct fs as [|f fs]; [cbn [app] in Hne; congruence|]. cbn [length].
      apply orb_true_iff. right. destruct (Nat.eqb_spec (length tok + 0 + 1 + S (length fs)) (S (length tok + 0))); [lia|reflexivity]. }
    rewrite Hg. rewrite <- !app_assoc. cbn [app]. f_equal. f_equal. rewrite app_length. cbn [length]. lia.
  Qed.

  (* no digit at all: "-", ".", "-." fall back to the symbol state at the original position *)
  Lemma number_rest_none symbol l j rest fuel pos tok a : (j <= length l)%nat -> skipn j l = rest -> is_digit (hdz rest) = false -> hdz rest <> 46 ->
    (length l < fuel)%nat -> j = (a + length tok)%nat ->
    number_rest symbol fuel pos tok (at_ l j) (cur_at l (S j)) = symbol (cur_at l a).
  Proof.
    intros Hj Hs Hr1 Hr2 Hf Hja.
    unfold number_rest. rewrite (read_while_run is_digit l [] j rest fuel tok Hs (Forall_nil _) Hr1) by (cbn [length]; lia).
    cbn [length]. rewrite Nat.add_0_r, app_nil_r. rewrite (at_hdz l _ rest Hs). destruct (Z.eqb_spec (hdz rest) 46); [contradiction|].
    rewrite Nat.eqb_refl. cbn [negb]. rewrite unread_at. subst j. rewrite unread_many_at. reflexivity.
  Qed.

  Lemma number_rest_none_dot symbol l j rest fuel pos tok a : (j <= length l)%nat -> skipn j l = 46 :: rest -> is_digit (hdz rest) = false ->
    (length l < fuel)%nat -> j = (a + length tok)%nat ->
    number_rest symbol fuel pos tok (at_ l j) (cur_at l (S j)) = symbol (cur_at l a).
  Proof.
    intros Hj Hs Hr1 Hf Hja. destruct (skipn_cons_inv _ _ _ _ Hs) as (H3 & H4 & H5).
    unfold number_rest. rewrite (read_while_run is_digit l [] j (46 :: rest) fuel tok Hs (Forall_nil _) eq_refl) by (cbn [length]; lia).
    cbn [length]. rewrite Nat.add_0_r, app_nil_r. rewrite H4. cbn [Z.eqb Pos.eqb]. rewrite read_at by lia.
    rewrite (read_while_run is_digit l [] (S j) rest fuel _ H5 (Forall_nil _) Hr1) by (cbn [length]; lia).
    cbn [length]. rewrite Nat.add_0_r, app_nil_r. rewrite Nat.eqb_refl. rewrite app_length. cbn [length]. rewrite Nat.add_1_r, Nat.eqb_refl. cbn [negb orb].
    rewrite unread_at. subst j. replace (S (a + length tok)) with (a + S (length tok))%nat by lia. rewrite unread_many_at. reflexivity.
  Qed.
End Numbers.

(* ---------- ExpressionNumberState: mantissa, then an optional exponent ---------- *)
Section ExprNumbers.
  Variable lc plc : cur -> Z * Z.

  Definition is_e (c : Z) : bool := (c =? 101) || (c =? 69).
  Definition is_sign (c : Z) : bool := (c =? 45) || (c =? 43).
  (* would the rest be read as an exponent?  e, optional sign, digit *)
  Definition exp_start (r : str) : bool :=
    is_e (hdz r) && (is_digit (hdz (tl r)) || (is_sign (hdz (tl r)) && is_digit (hdz (tl (tl r))))).

  Lemma hdz_cons r c : hdz r = c -> c <> eof -> r = c :: tl r.
  Proof. destruct r as [|x r]; cbn; intros H1 H2; congruence. Qed.

  Lemma expr_number_plain symbol l a e tok : (a <= length l)%nat -> (e <= length l)%nat -> at_ l a <> 45 ->
    number_next lc symbol (cur_at l a) = (tok, cur_at l e) -> (ty tok = Integer \/ ty tok = Float) ->
    exp_start (skipn e l) = false ->
    expr_number_next lc plc symbol (cur_at l a) = (tok, cur_at l e).
  Proof.
    intros Ha He Hm Hn Hty Hx. unfold expr_number_next. rewrite peek_at. destruct (Z.eqb_spec (at_ l a) 45); [contradiction|].
    rewrite Hn.
    assert (Ht: negb (ttype_eqb (ty tok) Integer) && negb (ttype_eqb (ty tok) Float) = false) by (destruct Hty as [-> | ->]; reflexivity).
    rewrite Ht. rewrite peek_at. set (r := skipn e l) in *. rewrite (at_hdz l e r eq_refl).
    unfold exp_start in Hx. unfold is_e in Hx.
    destruct ((hdz r =? 101) || (hdz r =? 69)) eqn:Ee.
    2:{ apply orb_false_iff in Ee. destruct Ee as [-> ->]. reflexivity. }
    assert (Hr: r = hdz r :: tl r).
    { apply hdz_cons; [reflexivity|]. apply orb_prop in Ee. unfold eof. destruct Ee as [E|E]; apply Z.eqb_eq in E; lia. }
    assert (Hnn: negb (hdz r =? 101) && negb (hdz r =? 69) = false).
    { apply orb_prop in Ee. destruct Ee as [-> | ->]; [reflexivity|apply andb_false_r]. }
    rewrite Hnn. cbn [andb] in Hx. apply orb_false_iff in Hx. destruct Hx as [Hx1 Hx2].
    destruct (skipn_cons_inv l e _ _ Hr) as (H1 & H2 & H3). rewrite read_at by exact He. rewrite peek_at, (at_hdz l (S e) _ H3).
    fold (is_sign (hdz (tl r))). destruct (is_sign (hdz (tl r))) eqn:Es.
    - cbn [andb] in Hx2. rewrite read_at by lia. rewrite peek_at.
      assert (Hr2: tl r = hdz (tl r) :: tl (tl r)).
      { apply hdz_cons; [reflexivity|]. unfold is_sign in Es. apply orb_prop in Es. unfold eof. destruct Es as [E|E]; apply Z.eqb_eq in E; lia. }
      rewrite Hr2 in H3. destruct (skipn_cons_inv l (S e) _ _ H3) as (H4 & H5 & H6). rewrite (at_hdz l (S (S e)) _ H6), Hx2. cbn [negb length].
      replace (S (S e)) with (e + 2)%nat by lia. rewrite (unread_many_at l 2 e). reflexivity.
    - rewrite peek_at, (at_hdz l (S e) _ H3), Hx1. cbn [negb length]. replace (S e) with (e + 1)%nat by lia. rewrite (unread_many_at l 1 e). reflexivity.
  Qed.

  Lemma expr_number_exp symbol l a e tok ex sgn es rest : (a <= length l)%nat -> (e <= length l)%nat -> at_ l a <> 45 ->
    number_next lc symbol (cur_at l a) = (tok, cur_at l e) -> (ty tok = Integer \/ ty tok = Float) ->
    skipn e l = (ex :: sgn ++ es) ++ rest -> is_e ex = true -> (sgn = [] \/ sgn = [45] \/ sgn = [43]) -> all is_digit es -> es <> [] ->
    is_digit (hdz rest) = false ->
    expr_number_next lc plc symbol (cur_at l a) =
      (mk Float (value tok ++ ex :: sgn ++ es) (plc (cur_at l a)), cur_at l (e + length (ex :: sgn ++ es))).
  Proof.
    intros Ha He Hm Hn Hty Hs Hex Hsg Hes Hne Hr. unfold expr_number_next. rewrite peek_at. destruct (Z.eqb_spec (at_ l a) 45); [contradiction|].
    rewrite Hn.
    assert (Ht: negb (ttype_eqb (ty tok) Integer) && negb (ttype_eqb (ty tok) Float) = false) by (destruct Hty as [-> | ->]; reflexivity).
    rewrite Ht. cbn [app] in Hs. destruct (skipn_cons_inv l e _ _ Hs) as (H1 & H2 & H3). rewrite peek_at, H2.
    assert (Hnn: negb (ex =? 101) && negb (ex =? 69) = false).
    { unfold is_e in Hex. apply orb_prop in Hex. destruct Hex as [-> | ->]; [reflexivity|apply andb_false_r]. }
    rewrite Hnn. rewrite read_at by exact He. rewrite H2.
    assert (Hd0: exists d ds, es = d :: ds /\ is_digit d = true).
    { destruct es as [|d ds]; [congruence|]. exists d, ds. split; [reflexivity|]. exact (Forall_inv Hes). }
    destruct Hd0 as (d & ds & Hd & Hdd).
    assert (Hnosign: (d =? 45) || (d =? 43) = false).
    { unfold is_digit in Hdd. apply andb_prop in Hdd. destruct Hdd as [D1 D2]. apply Z.leb_le in D1, D2.
      destruct (Z.eqb_spec d 45); [lia|]. destruct (Z.eqb_spec d 43); [lia|]. reflexivity. }
    rewrite <- app_assoc in H3.
    destruct Hsg as [-> | [-> | ->]]; cbn [app length] in *.
    - rewrite peek_at. rewrite Hd in H3. destruct (skipn_cons_inv l (S e) _ _ H3) as (H4 & H5 & _). rewrite H5, Hnosign. rewrite peek_at, H5, Hdd. cbn [negb].
      rewrite <- Hd in H3. rewrite (peek_while_run is_digit l es (S e) rest _ [ex] H3 Hes Hr) by (unfold clen, cur_at; cbn [content]; destruct (skipn_app_inv l es (S e) rest ltac:(lia) H3); lia).
      cbn [app]. f_equal. f_equal. lia.
    - destruct (skipn_cons_inv l (S e) _ _ H3) as (H4 & H5 & H6). rewrite peek_at, H5. cbn [Z.eqb Pos.eqb orb]. rewrite read_at by lia. rewrite H5.
      rewrite peek_at. rewrite Hd in H6. destruct (skipn_cons_inv l (S (S e)) _ _ H6) as (H7 & H8 & _). rewrite H8, Hdd. cbn [negb].
      rewrite <- Hd in H6. rewrite (peek_while_run is_digit l es (S (S e)) rest _ [ex; 45] H6 Hes Hr) by (unfold clen, cur_at; cbn [content]; destruct (skipn_app_inv l es (S (S e)) rest ltac:(lia) H6); lia).
      cbn [app]. f_equal. f_equal. lia.
    - destruct (skipn_cons_inv l (S e) _ _ H3) as (H4 & H5 & H6). rewrite peek_at, H5. cbn [Z.eqb Pos.eqb orb]. rewrite read_at by lia. rewrite H5.
      rewrite peek_at. rewrite Hd in H6. destruct (skipn_cons_inv l (S (S e)) _ _ H6) as (H7 & H8 & _). rewrite H8, Hdd. cbn [negb].
      rewrite <- Hd in H6. rewrite (peek_while_run is_digit l es (S (S e)) rest _ [ex; 43] H6 Hes Hr) by (unfold clen, cur_at; cbn [content]; destruct (skipn_app_inv l es (S (S e)) rest ltac:(lia) H6); lia).
      cbn [app]. f_equal. f_equal. lia.
  Qed.

  (* a sign is handed to the symbol state *)
  Lemma expr_number_sign symbol l a : at_ l a = 45 -> expr_number_next lc plc symbol (cur_at l a) = symbol (cur_at l a).
  Proof. intros H. unfold expr_number_next. rewrite peek_at, H. reflexivity. Qed.

  (* a token that is neither Integer nor Float (the number state fell back to the symbol state) is returned as it is *)
  Lemma expr_number_other symbol l a r : at_ l a <> 45 -> number_next lc symbol (cur_at l a) = r ->
    ty (fst r) <> Integer -> ty (fst r) <> Float -> expr_number_next lc plc symbol (cur_at l a) = r.
  Proof.
    intros Hm Hn H1 H2. unfold expr_number_next. rewrite peek_at. destruct (Z.eqb_spec (at_ l a) 45); [contradiction|]. rewrite Hn. destruct r as [tok s1]. cbn [fst] in *.
    assert (E1: ttype_eqb (ty tok) Integer = false) by (destruct (ttype_eqb (ty tok) Integer) eqn:E; [apply ttype_eqb_eq in E; contradiction|reflexivity]).
    assert (E2: ttype_eqb (ty tok) Float = false) by (destruct (ttype_eqb (ty tok) Float) eqn:E; [apply ttype_eqb_eq in E; contradiction|reflexivity]).
    rewrite E1, E2. reflexivity.
  Qed.
End ExprNumbers.
