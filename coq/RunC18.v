(* Executable glue for C18.
   input  = L [I 0; ops]                      collection history; op = L [I code; name; I arg]
              codes: 0 Add(name, arg) 1 Length 2 Get(arg) 3 FindIndexByName 4 FindByName 5 Locate 6 Remove(arg) 7 RemoveByName 8 Clear 9 ClearValues
            output = L [L [result; snapshot] ...]  snapshot = L [L [name; I value] ...]
          | L [I 2; expression-input; existing]  variable discovery of an expression and automatic variables
            output = L [I 0; names; collection-after] | L [I code]
          | L [I 3; template-input; existing-keys]   variable discovery of a template, automatic variables on a map with existing keys
            output = L [I 0; names; created-keys] | L [I code]  (the keys a fresh map gets, in name order)
   The fourth element of kinds 0 and 2 is the host oracle for strings.ToUpper: L [L [s; upper s] ...].
   A panicking operation (index out of range) gives result L [I (-999)] and leaves the collection unchanged. *)
From Coq Require Import List ZArith Bool.
Import ListNotations.
Require Import Sx Tables TokModel ExprParser RunC02 Collections MustacheVars Mustache RunC10.
Open Scope Z_scope.

Definition enc_entry (e : entry) : sx := L [estr (fst e); I (snd e)].
Definition snapshot (c : coll) : sx := L (map enc_entry c).

Section WithUpper.
Variable up : str -> str.
Definition step18 (c : coll) (op : sx) : sx * coll :=
  let n := gstr (nth_sx 1 op) in
  let a := gz (nth_sx 2 op) in
  match gz (nth_sx 0 op) with
  | 0 => (L [], add c (n, a))
  | 1 => (enat (length c), c)
  | 2 => (match get c a with Collections.Done e => enc_entry e | Collections.Panic => L [I (-999)] end, c)
  | 3 => (I (find_index up c n), c)
  | 4 => (match find up c n with Some e => L [enc_entry e] | None => L [] end, c)
  | 5 => let '(c', e) := locate up c n in (enc_entry e, c')
  | 6 => match remove c a with Collections.Done c' => (L [], c') | Collections.Panic => (L [I (-999)], c) end
  | 7 => (L [], remove_by_name up c n)
  | 8 => (L [], clear c)
  | _ => (L [], clear_values c)
  end.
Fixpoint run18 (c : coll) (ops : list sx) : list sx :=
  match ops with [] => [] | o :: r => let '(res, c') := step18 c o in L [res; snapshot c'] :: run18 c' r end.

End WithUpper.

Definition dec_coll (s : sx) : coll := map (fun e => (gstr (nth_sx 0 e), gz (nth_sx 1 e))) (gl s).

Definition model_C18 (input : sx) : sx :=
  match gz (nth_sx 0 input) with
  | 0 => L (run18 (lookup_lower (gl (nth_sx 3 input))) [] (gl (nth_sx 1 input)))
  | 2 =>
      let e := nth_sx 1 input in
      let toks := gl (nth_sx 1 e) in
      match parse_tokens toks with
      | inr _ => L [I 1]
      | inl (ExprParser.Err er) => L [I (perr_code er)]
      | inl ExprParser.Fuel => L [I 9]
      | inl (ExprParser.Ok prog) =>
          let names := var_names toks prog [] in
          L [I 0; L (map estr names); snapshot (create_variables (lookup_lower (gl (nth_sx 3 input))) (dec_coll (nth_sx 2 input)) names)]
      end
  | _ =>
      let t := nth_sx 1 input in
      match model_C10 t with
      | L [I 0; _; L names] =>
          let lower := lookup_lower (gl (nth_sx 3 t)) in
          let existing := map gstr (gl (nth_sx 2 input)) in
          (* MustacheTemplate.CreateVariables (MustacheVars.mcreate) on the map with the existing keys;
             reported: the names that are keys of the map afterwards *)
          let m := mcreate lower (map (fun k => (k, [])) existing) (map gstr names) in
          let is_key (n : sx) := existsb (fun e => Mustache.str_eqb (fst e) (gstr n)) m in
          L [I 0; L names; L (filter is_key names)]
      | r => match r with L (I 0 :: _) => L [I 0; L []; L []] | _ => r end
      end
  end.
