(* The concrete tokenizer configurations built from the extracted tables satisfy the side conditions of the
   generic loop theorems (Instances.v), so C04 / C15 / termination hold for the four built-in tokenizers. *)
From Coq Require Import List ZArith Bool Lia.
Import ListNotations.
Require Import Base Cursor ScannerLink Trie TrieProofs TrieSpec States StatesProofs Tokenizer TokenizerProofs Instances CharMap CharMapProofs Quote Tables TokModel.
Open Scope Z_scope.

(* ---------- line/column link (C11) ---------- *)
Lemma Hlc_model : forall s, (p s < clen s)%nat -> lcf (snd (read s)) = plcf s.
Proof. exact cur_lc_after_read. Qed.

(* ---------- character classes ---------- *)
Lemma class_of_eof m : class_of m eof = false.
Proof.
  unfold class_of, map_lookup. destruct m as [m'|]; [|reflexivity].
  rewrite (lookup_outside Z m' eof) by (unfold eof; lia). reflexivity.
Qed.

(* ---------- symbol tables ---------- *)
Definition valid_regb (r : Base.str * ttype) : bool :=
  match fst r with [] => false | _ => true end && negb (ttype_eqb (snd r) Unknown) && negb (ttype_eqb (snd r) Eof).

Lemma valid_regb_ok regs : forallb valid_regb regs = true -> Forall valid_reg regs /\ Forall (fun r => snd r <> Eof) regs.
Proof.
  intros H. rewrite forallb_forall in H. split; apply Forall_forall; intros [a b] Hr; specialize (H (a, b) Hr); unfold valid_regb in H;
    cbn [fst snd] in *; apply andb_prop in H; destruct H as [H H3]; apply andb_prop in H; destruct H as [H1 H2].
  - unfold valid_reg. cbn [fst snd]. intros E; subst a; discriminate H1.
  - intros E. subst b. discriminate H3.
Qed.
Lemma valid_regb_known regs : forallb valid_regb regs = true -> Forall (fun r : Base.str * ttype => snd r <> Unknown) regs.
Proof.
  intros H. rewrite forallb_forall in H. apply Forall_forall; intros [a b] Hr; specialize (H (a, b) Hr); unfold valid_regb in H;
    cbn [fst snd] in *; apply andb_prop in H; destruct H as [H H3]; apply andb_prop in H; destruct H as [H1 H2].
  intros E; subst b; discriminate H2.
Qed.

Lemma last_type_in regs q : last_type regs q = Unknown \/ In (last_type regs q) (map snd regs).
Proof.
  induction regs as [|r regs IH]; [left; reflexivity|]. cbn [last_type map].
  destruct (registered regs q).
  - destruct IH as [IH|IH]; [left; exact IH|right; right; exact IH].
  - destruct (str_eqb (fst r) q); [right; left; reflexivity|left; reflexivity].
Qed.

Lemma build_types_ok regs : Forall valid_reg regs -> Forall (fun r => snd r <> Eof) regs -> forall path, node_type (build regs) path <> Eof.
Proof.
  intros Hv He path. unfold node_type. rewrite build_spec by exact Hv.
  destruct path as [|x q]; [discriminate|]. cbn [node_spec].
  destruct (has_ext regs (x :: q)); [|discriminate].
  destruct (registered regs (x :: q)).
  - cbn [tt]. destruct (last_type_in regs (x :: q)) as [H|H]; [rewrite H; discriminate|].
    apply in_map_iff in H. destruct H as (r & Hr1 & Hr2). rewrite Forall_forall in He. rewrite <- Hr1. apply He. exact Hr2.
  - unfold implicit. destruct (Nat.eqb _ _); cbn [tt]; discriminate.
Qed.

Lemma generic_regs_ok : forallb valid_regb (regs_of generic_symbols) = true. Proof. vm_compute. reflexivity. Qed.
Lemma expr_regs_ok : forallb valid_regb (regs_of expr_symbols) = true. Proof. vm_compute. reflexivity. Qed.
Lemma mustache_regs_ok : forallb valid_regb (regs_of mustache_symbols) = true. Proof. vm_compute. reflexivity. Qed.
Lemma csv_regs_ok : forallb valid_regb (regs_of csv_symbols) = true. Proof. vm_compute. reflexivity. Qed.

(* ---------- the C-comment state is only reachable on '/' ---------- *)
Definition impl_is (states : list (Z * Z)) (impl : Z) (role : Z) : bool :=
  match assoc states role with Some i => i =? impl | None => false end.

Lemma role_kind_ccomment states role : role_kind states role = Some KCComment -> impl_is states 11 role = true.
Proof.
  unfold role_kind, impl_is. destruct (assoc states role) as [i|]; [|discriminate].
  unfold kind_of_impl. intros H.
  destruct (Z.eqb_spec i 11); [reflexivity|].
  destruct i as [|i|i]; try discriminate. repeat (destruct i as [i|i|]; try discriminate); congruence.
Qed.

(* no role of the generic, mustache and csv tokenizers is filled by the C-comment state *)
Lemma no_ccomment states : forallb (fun e => negb (snd e =? 11)) states = true -> forall role, role_kind states role <> Some KCComment.
Proof.
  intros H role E. apply role_kind_ccomment in E. unfold impl_is in E.
  induction states as [|[a b] r IH]; cbn [assoc] in E; [discriminate|].
  cbn [forallb snd] in H. apply andb_prop in H. destruct H as [H1 H2].
  destruct (a =? role); [rewrite E in H1; discriminate|]. exact (IH H2 E).
Qed.

Definition opt_is (r : Z) (o : option Z) : bool := match o with Some x => x =? r | None => false end.

Lemma find_some (l : list (Z * Z * option Z)) c r : find Z l c = Some r -> exists e, In e l /\ snd e = Some r.
Proof.
  induction l as [|[[a b] x] l IH]; [discriminate|]. cbn [find].
  destruct ((a <=? c) && (c <=? b)).
  - intros ->. exists (a, b, Some r). split; [left; reflexivity|reflexivity].
  - intros H. destruct (IH H) as (e & He & Hs). exists e. split; [right; exact He|exact Hs].
Qed.

Lemma lookup_role_only (m : cmap Z) role c0 :
  forallb (fun k => negb (opt_is role (nth k (CharMap.table Z m) None)) || (Z.of_nat k =? c0)) (seq 0 256) = true ->
  forallb (fun e => negb (opt_is role (snd e))) (others Z m) = true ->
  forall ch, lookup Z m ch = Some role -> ch = c0.
Proof.
  intros Ht Ho ch. unfold lookup. destruct (Z.ltb_spec ch 0); [discriminate|]. destruct (Z.ltb_spec ch 256).
  - intros E. rewrite forallb_forall in Ht. specialize (Ht (Z.to_nat ch)). 
    assert (Hin: In (Z.to_nat ch) (seq 0 256)) by (apply in_seq; lia). specialize (Ht Hin).
    rewrite E in Ht. cbn [opt_is] in Ht. rewrite Z.eqb_refl in Ht. cbn [negb orb] in Ht.
    apply Z.eqb_eq in Ht. lia.
  - intros E. apply find_some in E. destruct E as (e & He & Hs). rewrite forallb_forall in Ho. specialize (Ho e He).
    rewrite Hs in Ho. cbn [opt_is] in Ho. rewrite Z.eqb_refl in Ho. discriminate Ho.
Qed.

(* expression tokenizer: the only role filled by the C-comment state is the comment role (6), and the character
   table sends only '/' to it *)
Lemma expr_ccomment_role role : impl_is expr_states 11 role = true -> role = 6.
Proof.
  unfold impl_is, expr_states. cbn [assoc].
  repeat match goal with |- context [?a =? role] => destruct (Z.eqb_spec a role); [subst role; cbn; try discriminate; try reflexivity|] end.
  discriminate.
Qed.

Lemma expr_comment_only_slash ch : table_of expr_states expr_chmap ch = Some KCComment -> ch = 47.
Proof.
  unfold table_of. destruct (map_lookup expr_chmap ch) as [role|] eqn:E; [|discriminate]. intros H.
  apply role_kind_ccomment, expr_ccomment_role in H. subst role.
  unfold map_lookup, expr_chmap in E.
  match type of E with lookup Z ?m ch = _ => apply (lookup_role_only m 6 47) in E end; [exact E| |]; vm_compute; reflexivity.
Qed.

(* ---------- the four configurations are well-formed ---------- *)
Lemma generic_states_no_cc : forallb (fun e => negb (snd e =? 11)) generic_states = true. Proof. vm_compute. reflexivity. Qed.
Lemma mustache_states_no_cc : forallb (fun e => negb (snd e =? 11)) mustache_states = true. Proof. vm_compute. reflexivity. Qed.
Lemma csv_states_no_cc : forallb (fun e => negb (snd e =? 11)) csv_states = true. Proof. vm_compute. reflexivity. Qed.

Lemma table_of_no_cc states m : forallb (fun e => negb (snd e =? 11)) states = true -> forall ch, table_of states m ch = Some KCComment -> ch = 47.
Proof.
  intros H ch E. unfold table_of in E. destruct (map_lookup m ch) as [role|]; [|discriminate].
  exfalso. exact (no_ccomment states H role E).
Qed.

Theorem generic_cfg_ok : cfg_ok generic_cfg /\ types_ok generic_cfg.
Proof.
  destruct (valid_regb_ok _ generic_regs_ok) as [Hv He]. split; [|exact (build_types_ok _ Hv He)].
  split; [exact (build_first_valid _ Hv)|]. split; [apply class_of_eof|]. split; [apply class_of_eof|].
  exact (table_of_no_cc _ _ generic_states_no_cc).
Qed.

Theorem expr_cfg_ok : cfg_ok expr_cfg /\ types_ok expr_cfg.
Proof.
  destruct (valid_regb_ok _ expr_regs_ok) as [Hv He]. split; [|exact (build_types_ok _ Hv He)].
  split; [exact (build_first_valid _ Hv)|]. split; [apply class_of_eof|]. split; [apply class_of_eof|].
  exact expr_comment_only_slash.
Qed.

Theorem mustache_cfg_ok : cfg_ok mustache_cfg /\ types_ok mustache_cfg.
Proof.
  destruct (valid_regb_ok _ mustache_regs_ok) as [Hv He]. split; [|exact (build_types_ok _ Hv He)].
  split; [exact (build_first_valid _ Hv)|]. split; [apply class_of_eof|]. split; [apply class_of_eof|].
  exact (table_of_no_cc _ _ mustache_states_no_cc).
Qed.

(* for EVERY choice of field separators and quote symbols *)
Theorem csv_cfg_ok seps quotes : cfg_ok (csv_cfg seps quotes) /\ types_ok (csv_cfg seps quotes).
Proof.
  destruct (valid_regb_ok _ csv_regs_ok) as [Hv He]. split; [|exact (build_types_ok _ Hv He)].
  split; [exact (build_first_valid _ Hv)|]. split; [apply class_of_eof|]. split; [reflexivity|].
  exact (table_of_no_cc _ _ csv_states_no_cc).
Qed.

(* ---------- the mustache tokenizer: text mode in front of the loop ---------- *)
Lemma special_type plc c : ty (fst (special_next plc c)) = Special.
Proof. unfold special_next. destruct (read c) as [ch c1]. destruct (special_loop _ _ _ _) as [c2 tok]. reflexivity. Qed.

Lemma cur_eq (a b : cur) : content a = content b -> p a = p b -> a = b.
Proof. destruct a, b; cbn; intros -> ->; reflexivity. Qed.

Theorem mustache_produce_ok : produce_ok bool plcf mustache_produce.
Proof.
  destruct mustache_cfg_ok as [Hcfg Hty].
  pose proof (produce_meets_spec lcf plcf mustache_cfg Hlc_model Hcfg Hty) as Htag.
  assert (Gtag: forall c, wf_str (content c) -> at_end c = false ->
           exists r c' m', (match produce lcf plcf mustache_cfg Datatypes.tt c with
                            | None => None
                            | Some (r, c', _) => Some (r, c', ttype_eqb (ty (rtok r)) Symbol && is_close (value (rtok r))) end) = Some (r, c', m') /\
             content c' = content c /\ (p c < p c' <= S (clen c))%nat /\ value (rtok r) = slice (content c) (p c) (npos c') /\
             (line (rtok r), col (rtok r)) = plcf c /\ ty (rtok r) <> Eof).
  { intros c Hwf He. destruct (Htag Datatypes.tt c Hwf He) as (r & c' & u & Hp & H). rewrite Hp. eexists. eexists. eexists. split; [reflexivity|exact H]. }
  intros m c Hwf He. unfold mustache_produce. destruct m; [|apply Gtag; assumption].
  assert (Hlt: (p c < clen c)%nat) by (unfold at_end in He; apply Nat.leb_gt in He; exact He).
  destruct (special_spec plcf c Hwf ltac:(lia)) as (Hc & Hp & Hcase).
  pose proof (special_type plcf c) as Hst.
  destruct (special_next plcf c) as [tok c1]. cbn [fst snd] in *.
  destruct (value tok) as [|v0 vs] eqn:Ev.
  - (* nothing before the next tag: the cursor did not move, the loop takes over *)
    destruct Hcase as [(H1 & _ & H3 & _)|[_ H2]].
    + exfalso. apply (f_equal (@length Z)) in H3. cbn [length] in H3. symmetry in H3.
      rewrite slice_length in H3; unfold npos, clen in *; rewrite Hc in *;
        destruct (Nat.le_gt_cases (p c1) (length (content c))); rewrite ?Nat.min_l in * by lia; rewrite ?Nat.min_r in * by lia; lia.
    + assert (Hsame: c1 = c).
      { apply cur_eq; [exact Hc|]. unfold npos, clen in *. rewrite Hc in H2. rewrite (Nat.min_l (p c)) in H2 by lia.
        destruct (Nat.le_gt_cases (p c1) (length (content c))); [rewrite Nat.min_l in H2 by lia; exact H2|rewrite Nat.min_r in H2 by lia; lia]. }
      rewrite Hsame. apply Gtag; assumption.
  - destruct Hcase as [(H1 & H2 & H3 & H4)|[H2 _]]; [|discriminate H2].
    eexists. eexists. eexists. split; [reflexivity|]. cbn [rtok]. split; [exact Hc|]. split; [lia|]. split; [rewrite Ev; exact H3|].
    split; [exact H4|]. rewrite Hst. discriminate.
Qed.

(* ---------- the theorems of the generic loop, for the four built-in tokenizers ---------- *)
Definition mode_of (k : tkind) : Type := match k with TMustache => bool | _ => unit end.

Definition raw_with (k : tkind) (s : Base.str) : option (list rawtok * cur) :=
  let c0 := {| content := s; p := 0 |} in
  match k with
  | TGeneric => raw unit (produce lcf plcf generic_cfg) (S (length s)) Datatypes.tt c0
  | TExpr => raw unit (produce lcf plcf expr_cfg) (S (length s)) Datatypes.tt c0
  | TCsv seps quotes => raw unit (produce lcf plcf (csv_cfg seps quotes)) (S (length s)) Datatypes.tt c0
  | TMustache => raw bool mustache_produce (S (length s)) true c0
  end.
Definition decode_of (k : tkind) : Base.str -> Z -> Base.str :=
  match k with TGeneric | TMustache => decode_generic | _ => decode_doubled end.

Lemma generic_pok : produce_ok unit plcf (produce lcf plcf generic_cfg).
Proof. destruct generic_cfg_ok. apply produce_meets_spec; auto using Hlc_model. Qed.
Lemma expr_pok : produce_ok unit plcf (produce lcf plcf expr_cfg).
Proof. destruct expr_cfg_ok. apply produce_meets_spec; auto using Hlc_model. Qed.
Lemma csv_pok seps quotes : produce_ok unit plcf (produce lcf plcf (csv_cfg seps quotes)).
Proof. destruct (csv_cfg_ok seps quotes). apply produce_meets_spec; auto using Hlc_model. Qed.

(* C04 *)
Theorem tokenize_lossless k s : wf_str s ->
  exists body e, tokenize_with k no_options s = Tokenizer.Ok (body ++ [e]) /\ concat (map value (body ++ [e])) = s /\
                 ty e = Eof /\ value e = [] /\ Forall (fun t => value t <> []) body.
Proof.
  intros Hwf. destruct k as [| |seps quotes|]; unfold tokenize_with.
  - exact (lossless unit plcf _ decode_generic generic_pok Datatypes.tt s Hwf).
  - exact (lossless unit plcf _ decode_doubled expr_pok Datatypes.tt s Hwf).
  - exact (lossless unit plcf _ decode_doubled (csv_pok seps quotes) Datatypes.tt s Hwf).
  - exact (lossless bool plcf _ decode_generic mustache_produce_ok true s Hwf).
Qed.

(* C15 *)
Theorem tokenize_options_are_post k o s : wf_str s ->
  exists rs cend, raw_with k s = Some (rs, cend) /\ tokenize_with k o s = Tokenizer.Ok (post (decode_of k) o Unknown rs (plcf cend)).
Proof.
  intros Hwf. destruct k as [| |seps quotes|]; unfold tokenize_with, raw_with, decode_of.
  - exact (options_are_post unit plcf _ decode_generic generic_pok o Datatypes.tt s Hwf).
  - exact (options_are_post unit plcf _ decode_doubled expr_pok o Datatypes.tt s Hwf).
  - exact (options_are_post unit plcf _ decode_doubled (csv_pok seps quotes) o Datatypes.tt s Hwf).
  - exact (options_are_post bool plcf _ decode_generic mustache_produce_ok o true s Hwf).
Qed.

(* C03, tokenizer part: termination (fuel |s|+2 suffices) and no state panics, for every option combination *)
Theorem tokenize_never_fails k o s : wf_str s -> exists ts, tokenize_with k o s = Tokenizer.Ok ts.
Proof. intros Hwf. destruct (tokenize_options_are_post k o s Hwf) as (rs & cend & _ & H). eauto. Qed.

(* ---------- C12 for the four tokenizers ---------- *)
Require Import TokPositions.
Require Scanner.

Lemma raw_with_ends k s : wf_str s -> forall rs cend, raw_with k s = Some (rs, cend) ->
  positioned plcf s 0 rs /\ content cend = s /\ (length s <= p cend)%nat.
Proof.
  intros Hwf rs cend Hr.
  assert (G: forall M (produce : M -> cur -> option (rawtok * cur * M)) m, produce_ok M plcf produce ->
             raw M produce (S (length s)) m {| content := s; p := 0 |} = Some (rs, cend) ->
             positioned plcf s 0 rs /\ content cend = s /\ (length s <= p cend)%nat).
  { intros M produce m Hok H. split.
    - exact (raw_positioned M plcf produce Hok _ m {| content := s; p := 0 |} rs cend Hwf ltac:(cbn; lia) H).
    - destruct (raw_total M plcf produce Hok (S (length s)) m {| content := s; p := 0 |} Hwf ltac:(unfold remaining, clen; cbn; lia))
        as (rs2 & ce2 & H1 & Hend & Hc & _). rewrite H in H1. inversion H1; subst rs2 ce2.
      split; [exact Hc|]. unfold at_end, clen in Hend. rewrite Hc in Hend. apply Nat.leb_le in Hend. exact Hend. }
  destruct k as [| |seps quotes|]; unfold raw_with in Hr.
  - exact (G unit _ Datatypes.tt generic_pok Hr).
  - exact (G unit _ Datatypes.tt expr_pok Hr).
  - exact (G unit _ Datatypes.tt (csv_pok seps quotes) Hr).
  - exact (G bool _ true mustache_produce_ok Hr).
Qed.

(* every emitted token stems from a raw token and reports that token's position; raw token number i starts at the
   offset given by the lengths of the raw tokens before it and reports the peeked position at that offset *)
Theorem tokenize_positions k o s : wf_str s ->
  exists rs cend ts, tokenize_with k o s = Tokenizer.Ok ts /\ raw_with k s = Some (rs, cend) /\
    aligned (plcf cend) rs ts /\ positioned plcf s 0 rs /\ content cend = s /\ (length s <= p cend)%nat.
Proof.
  intros Hwf. destruct (tokenize_options_are_post k o s Hwf) as (rs & cend & Hr & Ht).
  destruct (raw_with_ends k s Hwf rs cend Hr) as (Hp & Hc & Hl).
  exists rs, cend, (post (decode_of k) o Unknown rs (plcf cend)). repeat split; auto. apply post_aligned.
Qed.

(* the raw (option-free) stream: its values are non-empty, concatenate to the input, and none is an end-of-input token *)
Lemma raw_with_facts k s : wf_str s -> forall rs cend, raw_with k s = Some (rs, cend) ->
  concat (map (fun r => value (rtok r)) rs) = s /\ Forall (fun r => value (rtok r) <> [] /\ ty (rtok r) <> Eof) rs.
Proof.
  intros Hwf rs cend Hr.
  assert (G: forall M (produce : M -> cur -> option (rawtok * cur * M)) m, produce_ok M plcf produce ->
             raw M produce (S (length s)) m {| content := s; p := 0 |} = Some (rs, cend) ->
             concat (map (fun r => value (rtok r)) rs) = s /\ Forall (fun r => value (rtok r) <> [] /\ ty (rtok r) <> Eof) rs).
  { intros M produce m Hok H.
    destruct (raw_concat M plcf produce Hok (S (length s)) m {| content := s; p := 0 |} rs cend Hwf ltac:(cbn; lia) ltac:(unfold remaining, clen; cbn; lia) H) as [H1 H2].
    split; [|exact H2]. cbn [content p] in H1. change (clen {| content := s; p := 0 |}) with (length s) in H1. rewrite slice_full in H1. exact H1. }
  destruct k as [| |seps quotes|]; unfold raw_with in Hr.
  - exact (G unit _ Datatypes.tt generic_pok Hr).
  - exact (G unit _ Datatypes.tt expr_pok Hr).
  - exact (G unit _ Datatypes.tt (csv_pok seps quotes) Hr).
  - exact (G bool _ true mustache_produce_ok Hr).
Qed.
