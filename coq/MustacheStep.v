(* The mustache tokenizer run symbolically: text up to the next "{{" (MustacheSpecialState) and the text / tag mode
   flag of MustacheTokenizer, on top of the step theorem for character-table tokenizers (LexSeq.produce_step). *)
From Coq Require Import List ZArith Bool Lia.
Import ListNotations.
Require Import Base Cursor Trie TrieProofs TrieSpec States StatesProofs Tokenizer TokenizerProofs Instances Tables TokModel TokModelProofs LexStep LexGrammar LexSeq LexRoundtrip.
Open Scope Z_scope.

(* text: no "{{" starts inside it, and it is followed by "{{" or by the end of the input *)
Definition text_before (txt rest : Base.str) : Prop :=
  (forall u v, txt ++ rest = u ++ 123 :: 123 :: v -> (length txt <= length u)%nat) /\
  (rest = [] \/ exists r', rest = 123 :: 123 :: r').

Lemma special_loop_run l : forall txt i rest fuel tok,
  skipn i l = txt ++ rest -> text_before txt rest -> Forall (fun c => c <> eof) (txt ++ rest) -> (length txt < fuel)%nat -> (i <= length l)%nat ->
  exists c', special_loop fuel (at_ l i) (cur_at l (S i)) tok = (c', tok ++ txt) /\ lands c' l (i + length txt) /\
             (rest <> [] -> c' = cur_at l (i + length txt)).
Proof.
  induction txt as [|x txt IH]; intros i rest fuel tok Hs [Hno Hrest] Hne Hf Hi; (destruct fuel as [|fuel]; [cbn [length] in Hf; lia|]); cbn [special_loop length app] in *.
  - destruct Hrest as [-> | [r' ->]].
    + (* end of input *)
      assert (Hlen: (length l <= i)%nat) by (apply (f_equal (@length Z)) in Hs; rewrite skipn_length in Hs; cbn in Hs; lia).
      assert (E: at_ l i = eof) by (unfold at_; apply nth_overflow; exact Hlen). rewrite E. cbn [Z.eqb eof].
      eexists. split; [rewrite app_nil_r; reflexivity|]. split; [|congruence]. rewrite Nat.add_0_r. split; [reflexivity|]. unfold npos, clen, cur_at. cbn [content p]. lia.
    + destruct (skipn_cons_inv _ _ _ _ Hs) as (H1 & H2 & H3). destruct (skipn_cons_inv _ _ _ _ H3) as (H4 & H5 & H6).
      rewrite H2. change (123 =? eof) with false. rewrite peek_at, H5. cbn [Z.eqb Pos.eqb andb]. rewrite unread_at.
      eexists. split; [rewrite app_nil_r; reflexivity|]. rewrite Nat.add_0_r. split; [apply lands_at; lia|reflexivity].
  - destruct (skipn_cons_inv _ _ _ _ Hs) as (H1 & H2 & H3). pose proof (Forall_inv Hne) as Hx. cbv beta in Hx. rewrite H2.
    destruct (Z.eqb_spec x eof); [contradiction|].
    assert (Hnot: (x =? 123) && (peek (cur_at l (S i)) =? 123) = false).
    { destruct (Z.eqb_spec x 123) as [->|]; [|reflexivity]. rewrite peek_at. destruct (Z.eqb_spec (at_ l (S i)) 123) as [E|]; [|reflexivity].
      exfalso. rewrite (at_hdz l (S i) _ H3) in E. assert (Hr: txt ++ rest = 123 :: tl (txt ++ rest)) by (apply hdz_cons; [exact E|unfold eof; lia]).
      specialize (Hno [] (tl (txt ++ rest))). cbn [app length] in Hno. rewrite <- Hr in Hno. specialize (Hno eq_refl). lia. }
    rewrite Hnot. rewrite read_at by lia.
    destruct (IH (S i) rest fuel (tok ++ [x]) H3) as (c' & Hc & Hl & Hin).
    + split; [|exact Hrest]. intros u v E. specialize (Hno (x :: u) v). cbn [app length] in Hno. rewrite E in Hno. specialize (Hno eq_refl). lia.
    + exact (Forall_inv_tail Hne).
    + lia.
    + lia.
    + exists c'. rewrite Hc, <- app_assoc. split; [reflexivity|]. rewrite Nat.add_succ_r. cbn [Nat.add] in *. split; [exact Hl|exact Hin].
Qed.

Notation mcfg := mustache_cfg.
Notation mregs := (regs_of mustache_symbols).

Definition closes (t : ttype) (lx : Base.str) : bool := ttype_eqb t Symbol && TokModel.is_close lx.
Definition text_of (ls : list (ttype * Base.str)) : Base.str := concat (map snd ls).

(* the lexical grammar of templates: text outside tags, the generic tokenizer's lexemes inside; the flag says whether the
   tokenizer is in text mode (at the start, and after a closing "}}" / "}}}" until the next tag token) *)
Inductive mlex : bool -> list (ttype * Base.str) -> Prop :=
| ML_nil m : mlex m []
| ML_text txt r : txt <> [] -> text_before txt (text_of r) -> mlex true r -> mlex true ((Special, txt) :: r)
| ML_open t lx r : (exists r', lx ++ text_of r = 123 :: 123 :: r') -> lexeme mcfg mregs t lx (text_of r) -> mlex (closes t lx) r -> mlex true ((t, lx) :: r)
| ML_tag t lx r : lexeme mcfg mregs t lx (text_of r) -> mlex (closes t lx) r -> mlex false ((t, lx) :: r).

Lemma mustache_cc : forall ch, Instances.table mcfg ch = Some KCComment -> ch = 47.
Proof. exact (proj2 (proj2 (proj2 (proj1 mustache_cfg_ok)))). Qed.
Lemma mregs_valid : Forall valid_reg mregs.
Proof. exact (proj1 (valid_regb_ok _ mustache_regs_ok)). Qed.
Lemma mregs_types : Forall (fun r : Base.str * ttype => snd r <> Integer /\ snd r <> Float) mregs.
Proof. apply types_not_number. reflexivity. Qed.

(* a tag token: the generic loop body on the mustache configuration, then the mode flag *)
Lemma go_tag_step t lx rest l a : lexeme mcfg mregs t lx rest -> wf_str l -> (a <= length l)%nat -> skipn a l = lx ++ rest ->
  exists r c', produce lcf plcf mcfg Datatypes.tt (cur_at l a) = Some (r, c', Datatypes.tt) /\ ty (rtok r) = t /\ value (rtok r) = lx /\ lands c' l (a + length lx) /\
               first_char r = hdz lx /\ from_quote r = is_quote_kind (Instances.table mcfg (hdz lx)).
Proof. intros Hl Hwf Ha Hs. exact (produce_step lcf plcf mcfg mregs eq_refl mregs_valid mregs_types mustache_cc t lx rest Hl l a Hwf Ha Hs). Qed.

Lemma lexeme_nonempty_m t lx rest : lexeme mcfg mregs t lx rest -> lx <> [].
Proof. exact (lexeme_nonempty mcfg mregs t lx rest). Qed.

Lemma msymbol_type lx : symbol_type mregs lx <> Special.
Proof.
  unfold symbol_type. destruct (registered mregs lx); [|discriminate].
  destruct (last_type_in mregs lx) as [E|E]; [rewrite E; discriminate|]. intros F. rewrite F in E. cbn in E.
  repeat (destruct E as [E|E]; [discriminate|]). contradiction.
Qed.

Lemma lexeme_not_special t lx rest : lexeme mcfg mregs t lx rest -> t <> Special.
Proof.
  intros H. destruct H as [| | |t sg m rest Hsg Hm|t m rest Hm| | | | | | | | |]; try discriminate;
    try (destruct (is_keyword _ _); discriminate); try (destruct Hm; discriminate); try (destruct (_ =? 34); discriminate); apply msymbol_type.
Qed.

Theorem mproduce_step mode t lx r : mlex mode ((t, lx) :: r) -> forall l a, wf_str l -> (a <= length l)%nat -> skipn a l = lx ++ text_of r ->
  exists rt c', mustache_produce mode (cur_at l a) = Some (rt, c', if ttype_eqb t Special then true else closes t lx) /\
                ty (rtok rt) = t /\ value (rtok rt) = lx /\ lands c' l (a + length lx) /\
                (ttype_eqb t Special = true -> from_quote rt = false) /\
                (ttype_eqb t Special = false -> first_char rt = hdz lx /\ from_quote rt = is_quote_kind (Instances.table mcfg (hdz lx))) /\
                mlex (if ttype_eqb t Special then true else closes t lx) r.
Proof.
  intros Hm l a Hwf Ha Hs.
  assert (Hne: Forall (fun c => c <> eof) (lx ++ text_of r)) by (rewrite <- Hs; apply wf_not_eof, wf_skipn; exact Hwf).
  assert (Htag: forall c, c = cur_at l a -> lexeme mcfg mregs t lx (text_of r) -> t <> Special -> mlex (closes t lx) r ->
            exists rt c', (match produce lcf plcf mcfg Datatypes.tt c with None => None
                           | Some (r0, c'0, _) => Some (r0, c'0, ttype_eqb (ty (rtok r0)) Symbol && TokModel.is_close (value (rtok r0))) end)
                          = Some (rt, c', if ttype_eqb t Special then true else closes t lx) /\
              ty (rtok rt) = t /\ value (rtok rt) = lx /\ lands c' l (a + length lx) /\
              (ttype_eqb t Special = true -> from_quote rt = false) /\
              (ttype_eqb t Special = false -> first_char rt = hdz lx /\ from_quote rt = is_quote_kind (Instances.table mcfg (hdz lx))) /\
              mlex (if ttype_eqb t Special then true else closes t lx) r).
  { intros c -> Hl Hns Hr. destruct (go_tag_step t lx (text_of r) l a Hl Hwf Ha Hs) as (rt & c' & Hp & Hty & Hv & Hla & Hfc & Hfq).
    rewrite Hp. exists rt, c'.
    assert (Ens: ttype_eqb t Special = false) by (destruct (ttype_eqb t Special) eqn:E; [apply ttype_eqb_eq in E; contradiction|reflexivity]).
    rewrite Ens, Hty, Hv. split; [reflexivity|]. split; [reflexivity|]. split; [reflexivity|]. split; [exact Hla|].
    split; [discriminate|]. split; [intros _; split; assumption|exact Hr]. }
  inversion Hm as [|txt r0 Htne Htb Hr|t0 lx0 r0 Hopen Hl Hr|t0 lx0 r0 Hl Hr]; subst.
  - (* text *)
    unfold mustache_produce, special_next.
    destruct lx as [|x txt]; [congruence|]. destruct (skipn_cons_inv _ _ _ _ Hs) as (H1 & H2 & H3).
    rewrite read_at by exact Ha.
    assert (Hrun: exists c', special_loop (S (clen (cur_at l a))) (at_ l a) (cur_at l (S a)) [] = (c', x :: txt) /\ lands c' l (a + length (x :: txt))).
    { destruct (special_loop_run l (x :: txt) a (text_of r) (S (clen (cur_at l a))) [] Hs Htb Hne) as (c' & Hc & Hl & _).
      - destruct (skipn_app_inv l (x :: txt) a _ Ha Hs) as [_ Hb]. unfold clen, cur_at. cbn [content]. lia.
      - exact Ha.
      - exists c'. split; [exact Hc|exact Hl]. }
    destruct Hrun as (c' & Hc & Hl). rewrite Hc. cbn [value mk].
    eexists. exists c'. split; [reflexivity|]. cbn [rtok ty value mk from_quote first_char].
    split; [reflexivity|]. split; [reflexivity|]. split; [exact Hl|]. split; [reflexivity|]. split; [discriminate|exact Hr].
  - (* a tag token met in text mode: the text state reads nothing *)
    pose proof (lexeme_not_special _ _ _ Hl) as Hns.
    unfold mustache_produce, special_next.
    destruct Hopen as [r' Hr']. rewrite Hr' in Hs. destruct (skipn_cons_inv _ _ _ _ Hs) as (H1 & H2 & H3). destruct (skipn_cons_inv _ _ _ _ H3) as (H4 & H5 & H6).
    rewrite read_at by exact Ha. cbn [special_loop]. rewrite H2. change (123 =? eof) with false. rewrite peek_at, H5. cbn [Z.eqb Pos.eqb andb]. rewrite unread_at. cbn [value mk].
    rewrite <- Hr' in Hs. apply Htag; auto.
  - (* a tag token in tag mode *)
    pose proof (lexeme_not_special _ _ _ Hl) as Hns.
    unfold mustache_produce. apply Htag; auto.
Qed.

Lemma mlex_head_nonempty mode t lx r : mlex mode ((t, lx) :: r) -> lx <> [].
Proof. intros H. inversion H; subst; auto; eapply lexeme_nonempty_m; eassumption. Qed.

Lemma mlex_empty mode ls : mlex mode ls -> text_of ls = [] -> ls = [].
Proof.
  destruct ls as [|[t lx] ls]; [reflexivity|]. intros H E. apply mlex_head_nonempty in H. unfold text_of in E. cbn [map concat snd] in E.
  destruct lx; [congruence|discriminate].
Qed.

(* what the loop knows about a raw token of a template *)
Definition minfo (r : rawtok) : Prop :=
  (ty (rtok r) = Special -> from_quote r = false) /\
  (ty (rtok r) <> Special -> from_quote r = is_quote_kind (Instances.table mcfg (hdz (value (rtok r)))) /\ first_char r = hdz (value (rtok r))).

Lemma raw_mlex : forall ls mode l a n, wf_str l -> (a <= length l)%nat -> skipn a l = text_of ls -> mlex mode ls -> (length l - a < n)%nat ->
  exists rs cend, raw bool mustache_produce n mode (cur_at l a) = Some (rs, cend) /\ map (fun r => (ty (rtok r), value (rtok r))) rs = ls /\ Forall minfo rs.
Proof.
  induction ls as [|[t lx] ls IH]; intros mode l a n Hwf Ha Hs Hm Hn; (destruct n as [|n]; [lia|]); cbn [raw].
  - assert (Hend: at_end (cur_at l a) = true).
    { unfold at_end, clen, cur_at. cbn [content p]. apply Nat.leb_le. apply (f_equal (@length Z)) in Hs. rewrite skipn_length in Hs. cbn in Hs. lia. }
    rewrite Hend. eexists. eexists. split; [reflexivity|]. split; [reflexivity|constructor].
  - unfold text_of in Hs. cbn [map concat snd] in Hs. fold (text_of ls) in Hs.
    pose proof (mlex_head_nonempty _ _ _ _ Hm) as Hne.
    destruct (skipn_app_inv l lx a _ Ha Hs) as [Hs2 Hb].
    assert (Hlen: (1 <= length lx)%nat) by (destruct lx; [congruence|]; cbn [length]; lia).
    assert (Hend: at_end (cur_at l a) = false) by (unfold at_end, clen, cur_at; cbn [content p]; apply Nat.leb_gt; lia).
    rewrite Hend.
    destruct (mproduce_step mode t lx ls Hm l a Hwf Ha Hs) as (rt & c' & Hp & Hty & Hv & Hl & Hq1 & Hq2 & Hm').
    rewrite Hp.
    assert (Hinfo: minfo rt).
    { split.
      - intros E. apply Hq1. rewrite Hty in E. rewrite E. reflexivity.
      - intros E. rewrite Hty in E. assert (E2: ttype_eqb t Special = false) by (destruct (ttype_eqb t Special) eqn:X; [apply ttype_eqb_eq in X; contradiction|reflexivity]).
        destruct (Hq2 E2) as [H1 H2]. rewrite Hv. split; assumption. }
    destruct (Nat.lt_ge_cases (a + length lx) (length l)) as [Hin|Hout].
    + rewrite (lands_inside c' l _ Hl Hin).
      destruct (IH _ l (a + length lx)%nat n Hwf Hb Hs2 Hm' ltac:(lia)) as (rs & cend & Hr & Hmap & Hi). rewrite Hr.
      eexists. eexists. split; [reflexivity|]. cbn [map]. rewrite Hty, Hv, Hmap. split; [reflexivity|]. constructor; assumption.
    + assert (Hnil: ls = []).
      { apply (mlex_empty _ ls Hm'). etransitivity; [symmetry; exact Hs2|apply skipn_all2; exact Hout]. }
      subst ls. destruct n as [|n]; [lia|]. cbn [raw]. rewrite (lands_end c' l _ Hl Hout).
      eexists. eexists. split; [reflexivity|]. cbn [map]. rewrite Hty, Hv. split; [reflexivity|]. constructor; [assumption|constructor].
Qed.

(* the mustache tokenizer on a template that is a lexeme sequence: one raw token per lexeme, for every option set *)
Theorem mustache_tokenize_lexemes ls : wf_str (text_of ls) -> mlex true ls ->
  exists rs e, (forall o, tokenize_with TMustache o (text_of ls) = Tokenizer.Ok (post decode_generic o Unknown rs e)) /\
    map (fun r => (ty (rtok r), value (rtok r))) rs = ls /\ Forall minfo rs /\ Forall (fun r => ty (rtok r) <> Eof) rs.
Proof.
  intros Hwf Hm. set (s := text_of ls) in *.
  destruct (raw_mlex ls true s 0%nat (S (length s)) Hwf ltac:(lia) eq_refl Hm ltac:(lia)) as (rs & cend & Hr & Hmap & Hi).
  change (cur_at s 0) with {| content := s; p := 0 |} in Hr.
  destruct (raw_concat bool plcf mustache_produce mustache_produce_ok (S (length s)) true {| content := s; p := 0 |} rs cend Hwf ltac:(cbn; lia) ltac:(unfold remaining, clen; cbn; lia) Hr) as [_ Hne].
  exists rs, (plcf cend). split; [|split; [exact Hmap|split; [exact Hi|]]].
  - intros o. destruct (tokenize_options_are_post TMustache o s Hwf) as (rs' & cend' & Hr' & Ht). unfold raw_with in Hr'.
    rewrite Hr in Hr'. inversion Hr'; subst rs' cend'. exact Ht.
  - eapply Forall_impl; [|exact Hne]. intros x [_ H]. exact H.
Qed.

Print Assumptions mustache_tokenize_lexemes.
