From Coq Require Import List ZArith Bool Lia.
Import ListNotations.
Require Import Quote.
Open Scope Z_scope.

Lemma undouble_double q s : undouble q (double q s) = s.
Proof.
  induction s as [|c r IH]; [reflexivity|]. cbn [double]. destruct (Z.eqb_spec c q) as [->|Hne].
  - cbn [undouble]. rewrite Z.eqb_refl. simpl. rewrite IH. reflexivity.
  - (* c is not a quote: whatever follows, c is copied *)
    destruct (double q r) as [|d t] eqn:E.
    + destruct r; simpl in E; [reflexivity|]. destruct (z =? q); discriminate.
    + cbn [undouble]. rewrite (proj2 (Z.eqb_neq c q) Hne). cbn [andb]. change (c :: undouble q (d :: t) = c :: r). rewrite IH. reflexivity.
Qed.

Lemma removelast_app1 (l : str) x : removelast (l ++ [x]) = l.
Proof. apply removelast_last. Qed.

Lemma nth_error_last (l : str) x : nth_error (l ++ [x]) (length l) = Some x.
Proof. rewrite nth_error_app2 by lia. rewrite Nat.sub_diag. reflexivity. Qed.

Lemma decode_wrapped q b : decode q (q :: b ++ [q]) = Ok (undouble q b).
Proof.
  unfold decode, decode_at.
  assert (Hn: nth_error (q :: b ++ [q]) (pred (length (q :: b ++ [q]))) = Some q).
  { change (q :: b ++ [q]) with ((q :: b) ++ [q]). rewrite app_length. simpl length. rewrite Nat.add_comm. cbn [Nat.add pred].
    apply (nth_error_last (q :: b) q). }
  destruct b as [|x t].
  - cbn [app] in *. rewrite Z.eqb_refl. rewrite Hn. rewrite Z.eqb_refl. reflexivity.
  - cbn [app] in *. rewrite Z.eqb_refl. rewrite Hn. rewrite Z.eqb_refl. cbn [tl].
    change (x :: t ++ [q]) with ((x :: t) ++ [q]). rewrite removelast_app1. reflexivity.
Qed.

Theorem decode_encode q s : decode q (encode q s) = Ok s.
Proof. unfold encode. rewrite decode_wrapped, undouble_double. reflexivity. Qed.

Theorem gdecode_gencode q s : gdecode q (gencode q s) = Ok s.
Proof.
  unfold gdecode, gencode.
  assert (Hn: nth_error (q :: s ++ [q]) (pred (length (q :: s ++ [q]))) = Some q).
  { change (q :: s ++ [q]) with ((q :: s) ++ [q]). rewrite app_length. simpl length. rewrite Nat.add_comm. cbn [Nat.add pred].
    apply (nth_error_last (q :: s) q). }
  destruct s as [|x t].
  - cbn [app] in *. rewrite Hn. rewrite !Z.eqb_refl. reflexivity.
  - cbn [app] in *. rewrite Hn. rewrite !Z.eqb_refl. cbn [andb tl].
    change (x :: t ++ [q]) with ((x :: t) ++ [q]). rewrite removelast_app1. reflexivity.
Qed.

(* decoding never fails, on any input *)
Theorem decode_total q v : decode q v <> Panic.
Proof.
  unfold decode, decode_at. destruct v as [|a [|b t]]; try discriminate. destruct (a =? q); [|discriminate].
  destruct (nth_error (a :: b :: t) (pred (length (a :: b :: t)))) eqn:E.
  - destruct (z =? q); discriminate.
  - apply nth_error_None in E. simpl in E. lia.
Qed.

Theorem gdecode_total q v : gdecode q v <> Panic.
Proof.
  unfold gdecode. destruct v as [|a [|b t]]; try discriminate.
  destruct (nth_error (a :: b :: t) (pred (length (a :: b :: t)))) eqn:E.
  - destruct ((a =? q) && (z =? q)); discriminate.
  - apply nth_error_None in E. simpl in E. lia.
Qed.

(* the defect F7, as a refuted statement about the old index expression *)
Theorem byte_index_refuted : exists q v, decode_bytelen q v = Panic.
Proof. exists 39, [39; 233; 39]. reflexivity. Qed.

(* reading back: the encoded form placed in a stream is consumed as exactly one token *)
Lemma qbody_double q s rest : hd 0 rest <> q \/ rest = [] -> qbody q (double q s ++ q :: rest) = (double q s ++ [q], rest).
Proof.
  intros Hr. induction s as [|c r IH]; cbn [double app].
  - cbn [qbody]. rewrite Z.eqb_refl. destruct rest as [|d rest']; [reflexivity|].
    destruct (Z.eqb_spec d q) as [->|]; [|reflexivity]. destruct Hr as [Hr|Hr]; [simpl in Hr; congruence|discriminate].
  - destruct (Z.eqb_spec c q) as [->|Hne].
    + cbn [qbody app]. rewrite !Z.eqb_refl. rewrite IH. reflexivity.
    + cbn [qbody app]. destruct (Z.eqb_spec c q); [contradiction|]. rewrite IH. reflexivity.
Qed.

Theorem read_back q s rest : hd 0 rest <> q \/ rest = [] -> quote_next (encode q s ++ rest) = (encode q s, rest).
Proof.
  intros Hr. unfold quote_next, encode. cbn [app]. rewrite <- app_assoc. cbn [app]. rewrite qbody_double by auto. reflexivity.
Qed.

Corollary read_back_decodes q s rest : hd 0 rest <> q \/ rest = [] ->
  decode q (fst (quote_next (encode q s ++ rest))) = Ok s.
Proof. intros Hr. rewrite read_back by auto. apply decode_encode. Qed.

Example nonvacuous : decode 39 (encode 39 [39; 233; 39; 39; 26085]) = Ok [39; 233; 39; 39; 26085] /\ encode 39 [39] = [39; 39; 39; 39].
Proof. split; reflexivity. Qed.

Print Assumptions decode_encode.
Print Assumptions read_back.
