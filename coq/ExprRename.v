(* C01: the syntax tree and its value do not depend on WHERE in the text the tokens stand.  Constants and variables are
   identified by the position of their token; a text with other spacing, comments or letter case puts the same tokens at
   other positions.  The grammar and the evaluation are parametric in that numbering. *)
From Coq Require Import List ZArith Bool Lia.
Import ListNotations.
Require Import ExprParser ExprSound ExprComplete ExprTotal ExprEval.
Open Scope Z_scope.

Section Rename.
  Variable f : Z -> Z.

  Definition rt (t : tok) : tok := match t with TConst c => TConst (f c) | TVar n => TVar (f n) | _ => t end.
  Fixpoint re (e : expr) : expr :=
    match e with
    | EConst c => EConst (f c) | EVar n => EVar (f n)
    | EUn o a => EUn o (re a) | EBin o a b => EBin o (re a) (re b)
    | ECall n args => ECall (f n) (res args)
    end
  with res (es : exprs) : exprs := match es with ENil => ENil | ECons e r => ECons (re e) (res r) end.

  Lemma op_rt t : op0 (rt t) = op0 t /\ op2 (rt t) = op2 t /\ op3 (rt t) = op3 t /\ op4 (rt t) = op4 t /\ op5 (rt t) = op5 t.
  Proof. destruct t; repeat split; reflexivity. Qed.

  Theorem grammar_is_parametric :
    (forall ts e, D0 ts e -> D0 (map rt ts) (re e)) /\ (forall ts e, D1 ts e -> D1 (map rt ts) (re e)) /\
    (forall ts e, D2 ts e -> D2 (map rt ts) (re e)) /\ (forall ts e, D3 ts e -> D3 (map rt ts) (re e)) /\
    (forall ts e, D4 ts e -> D4 (map rt ts) (re e)) /\ (forall ts e, D5 ts e -> D5 (map rt ts) (re e)) /\
    (forall ts e, D6 ts e -> D6 (map rt ts) (re e)) /\ (forall ts e, DS ts e -> DS (map rt ts) (re e)) /\
    (forall ts e, DP ts e -> DP (map rt ts) (re e)) /\ (forall ts es, DA ts es -> DA (map rt ts) (res es)).
  Proof.
    apply D_mutind; intros; cbn [map re res rt]; repeat rewrite map_app; cbn [map rt]; repeat rewrite map_app; cbn [map rt];
      try (econstructor; eauto; fail);
      try (econstructor; eauto; rewrite ?(proj1 (op_rt t)), ?(proj1 (proj2 (op_rt t))), ?(proj1 (proj2 (proj2 (op_rt t)))), ?(proj1 (proj2 (proj2 (proj2 (op_rt t))))), ?(proj2 (proj2 (proj2 (proj2 (op_rt t))))); assumption).
  Qed.
End Rename.

Section EvalRename.
  Variable V : Type.
  Variable f : Z -> Z.
  Variable const const' : Z -> V.
  Variable var var' : Z -> outcome V.
  Variable bin : binop -> V -> V -> outcome V.
  Variable un : unop -> V -> outcome V.
  Variable callf callf' : Z -> list V -> outcome V.
  (* the token at position f i of the second text carries what the token at position i of the first text carries *)
  Hypothesis Hconst : forall i, const' (f i) = const i.
  Hypothesis Hvar : forall i, var' (f i) = var i.
  Hypothesis Hcall : forall i vs, callf' (f i) vs = callf i vs.

  Theorem value_is_parametric :
    (forall e, eval V const' var' bin un callf' (re f e) = eval V const var bin un callf e) /\
    (forall es, evals V const' var' bin un callf' (res f es) = evals V const var bin un callf es).
  Proof.
    apply expr_mutind.
    - intros c. change (re f (EConst c)) with (EConst (f c)). change (eval V const' var' bin un callf' (EConst (f c))) with (Val (const' (f c))). rewrite Hconst. reflexivity.
    - intros n. change (re f (EVar n)) with (EVar (f n)). change (eval V const' var' bin un callf' (EVar (f n))) with (var' (f n)). apply Hvar.
    - intros o a IH. change (re f (EUn o a)) with (EUn o (re f a)). change (eval V const' var' bin un callf' (EUn o (re f a))) with (obind (eval V const' var' bin un callf' (re f a)) (un o)). rewrite IH. reflexivity.
    - intros o a IHa b IHb. change (re f (EBin o a b)) with (EBin o (re f a) (re f b)). change (eval V const' var' bin un callf' (EBin o (re f a) (re f b))) with
        (obind (eval V const' var' bin un callf' (re f a)) (fun v1 => obind (eval V const' var' bin un callf' (re f b)) (fun v2 => bin o v1 v2))).
      rewrite IHa, IHb. reflexivity.
    - intros n args IH. change (re f (ECall n args)) with (ECall (f n) (res f args)). change (eval V const' var' bin un callf' (ECall (f n) (res f args))) with (obind (evals V const' var' bin un callf' (res f args)) (callf' (f n))). 
      rewrite IH. change (eval V const var bin un callf (ECall n args)) with (obind (evals V const var bin un callf args) (callf n)).
      destruct (evals V const var bin un callf args); cbn [obind]; auto.
    - reflexivity.
    - intros e IHe r IHr. change (res f (ECons e r)) with (ECons (re f e) (res f r)). change (evals V const' var' bin un callf' (ECons (re f e) (res f r))) with
        (obind (eval V const' var' bin un callf' (re f e)) (fun v => obind (evals V const' var' bin un callf' (res f r)) (fun vs => Val (v :: vs)))).
      rewrite IHe, IHr. reflexivity.
  Qed.

  (* two token sequences that differ only in the positions their constants and variables refer to: same acceptance,
     same tree up to the numbering, same value *)
  Variable intv : nat -> V.
  Variable as_nat : V -> option nat.
  Hypothesis as_nat_intv : forall k, as_nat (intv k) = Some k.

  Theorem calculator_is_parametric ts e : D0 ts e ->
    calculate V const' var' bin un callf' intv as_nat (map (rt f) ts) = calculate V const var bin un callf intv as_nat ts.
  Proof.
    intros HD. rewrite (calc_is_tree V const var bin un callf intv as_nat as_nat_intv ts e HD).
    pose proof (proj1 (grammar_is_parametric f) ts e HD) as HD'.
    rewrite (calc_is_tree V const' var' bin un callf' intv as_nat as_nat_intv _ _ HD'). rewrite (proj1 value_is_parametric e). reflexivity.
  Qed.
End EvalRename.

Print Assumptions calculator_is_parametric.
