(* Lexical completion step of the expression parser (ExpressionParser.completeLexicalAnalysis), driven by the
   operator table that the translator extracts from the Go source on every run (gen/Tables.v).
   A tokenizer token is (type code, value, upper-cased value); constants and identifiers are represented in the
   parser model by the position of their token, so payloads never enter the grammar proofs. *)
From Coq Require Import List ZArith Bool.
Import ListNotations.
Require Import Tables ExprParser.
Open Scope Z_scope.

Fixpoint zs_eqb (a b : list Z) : bool :=
  match a, b with [], [] => true | x :: a', y :: b' => (x =? y) && zs_eqb a' b' | _, _ => false end.

Fixpoint lookup_op (tbl : list (list Z * Z)) (s : list Z) : option Z :=
  match tbl with [] => None | (sp, c) :: r => if zs_eqb sp s then Some c else lookup_op r s end.

(* ExpressionTokenType code -> token of the parser model, by the generated constant names *)
Definition tok_of_code (c : Z) : option tok :=
  if c =? et_LeftBrace then Some TLP else if c =? et_RightBrace then Some TRP
  else if c =? et_LeftSquareBrace then Some TLB else if c =? et_RightSquareBrace then Some TRB
  else if c =? et_Plus then Some TPlus else if c =? et_Minus then Some TMinus
  else if c =? et_Star then Some TStar else if c =? et_Slash then Some TSlash else if c =? et_Procent then Some TPercent
  else if c =? et_Power then Some TPower else if c =? et_Equal then Some TEq else if c =? et_NotEqual then Some TNe
  else if c =? et_More then Some TGt else if c =? et_Less then Some TLt
  else if c =? et_EqualMore then Some TGe else if c =? et_EqualLess then Some TLe
  else if c =? et_ShiftLeft then Some TShl else if c =? et_ShiftRight then Some TShr
  else if c =? et_And then Some TAnd else if c =? et_Or then Some TOr else if c =? et_Xor then Some TXor
  else if c =? et_Not then Some TNot else if c =? et_Is then Some TIs else if c =? et_In then Some TIn
  else if c =? et_Null then Some TNull else if c =? et_Like then Some TLike else if c =? et_Comma then Some TComma
  else None.

Inductive lexr := LSkip | LTok (t : tok) | LErr.

Definition kw_TRUE : list Z := [84; 82; 85; 69].
Definition kw_FALSE : list Z := [70; 65; 76; 83; 69].

Definition lex_op (upper : list Z) : lexr :=
  match lookup_op operator_table upper with
  | Some c => match tok_of_code c with Some t => LTok t | None => LErr end
  | None => LErr
  end.

(* i = position of the token in the original token list *)
Definition lex_one (i : Z) (ty : Z) (value upper : list Z) : lexr :=
  if ty =? tt_Whitespace then LSkip
  else if ty =? tt_Keyword then
    if zs_eqb upper kw_TRUE || zs_eqb upper kw_FALSE then LTok (TConst i) else lex_op upper
  else if ty =? tt_Word then match value with [] => LErr | _ => LTok (TVar i) end
  else if (ty =? tt_Integer) || (ty =? tt_Float) || (ty =? tt_Quoted) then LTok (TConst i)
  else if ty =? tt_Symbol then lex_op upper
  else LErr.                                   (* includes Comment: the empty case leaves the type Unknown *)

Fixpoint lex_all (i : Z) (ts : list (Z * list Z * list Z)) : option (list tok) :=
  match ts with
  | [] => Some []
  | (ty, v, u) :: r =>
      match lex_one i ty v u with
      | LErr => None
      | LSkip => lex_all (i + 1) r
      | LTok t => match lex_all (i + 1) r with Some l => Some (t :: l) | None => None end
      end
  end.
