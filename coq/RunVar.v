(* Executable instance of the variant model for the correspondence runs of C06 / C07 (and the functions of C08):
   floats = Coq's SpecFloat (HostFloat.v), decimal integer strings computed exactly, every other host function
   (float / time formatting and parsing, math.Pow, ...) answered from an oracle table that the harness fills by calling
   the Go standard library / commons-gox converters directly for the arguments that occur in the case.
   value  = L [I type; payload]   0 Null () | 1 Integer n | 2 Long n | 3 Float bits | 4 Double bits | 5 String s |
            6 Boolean b | 7 DateTime unix-ns | 8 TimeSpan ns | 9 Object id | 10 Array (v ...)
   result = L [I 0; value] | L [I 1; I code] (1 CONV_NOT_SUPPORTED 2 OP_NOT_SUPPORTED 3 DIV_BY_ZERO 4 SHIFT_OUT_OF_RANGE
            5 INDEX_OUT_OF_RANGE) | L [I (-999)] panic
   oracle = L [L [I fn; key; answer] ...] *)
From Coq Require Import List ZArith Bool.
From Coq Require Import Floats.SpecFloat.
Import ListNotations.
Require Import Sx HostFloat Variant.
Open Scope Z_scope.

Section Exec.
  Variable orc : list sx.

  Fixpoint olook (l : list sx) (fn : Z) (key : sx) : option sx :=
    match l with
    | [] => None
    | e :: r => if (gz (nth_sx 0 e) =? fn) && sx_eqb (nth_sx 1 e) key then Some (nth_sx 2 e) else olook r fn key
    end.
  Definition ask (fn : Z) (key : sx) : sx := match olook orc fn key with Some a => a | None => L [I (-995)] end.  (* a miss shows *)

  Definition HF : hf :=
    {| F32 := spec_float; F64 := spec_float;
       add32 := fadd 23 8; sub32 := fsub 23 8; mul32 := fmul 23 8; div32 := fdiv 23 8; neg32 := fneg;
       eq32 := feq; lt32 := flt; le32 := fle;
       add64 := fadd 52 11; sub64 := fsub 52 11; mul64 := fmul 52 11; div64 := fdiv 52 11; neg64 := fneg;
       eq64 := feq; lt64 := flt; le64 := fle;
       of_int32 := of_int 23 8; of_int64 := of_int 52 11; trunc32 := trunc; trunc64 := trunc;
       widen := widen32; narrow := narrow64; zero32 := fzero; zero64 := fzero; one32 := fone 23 8; one64 := fone 52 11;
       pow64 := fun x y => b64_of_bits (gz (ask 9 (L [I (bits_of_b64 x); I (bits_of_b64 y)]))) |}.

  (* strconv.FormatInt(v, 10) *)
  Fixpoint digits (fuel : nat) (n : Z) (acc : list Z) : list Z :=
    match fuel with O => acc | S f => if n <? 10 then (48 + n) :: acc else digits f (n / 10) ((48 + n mod 10) :: acc) end.
  Definition int_to_string (z : Z) : list Z := if z <? 0 then 45 :: digits 25 (- z) [] else digits 25 z [].
  (* strconv.ParseInt(s, 10, 64): optional sign, at least one digit, digits only, in range *)
  Fixpoint parse_digits (s : list Z) (acc : Z) : option Z :=
    match s with [] => Some acc | c :: r => if (48 <=? c) && (c <=? 57) then parse_digits r (acc * 10 + (c - 48)) else None end.
  Definition string_to_int (s : list Z) : option Z :=
    let '(neg, body) := match s with 45 :: r => (true, r) | 43 :: r => (false, r) | _ => (false, s) end in
    match body with
    | [] => None
    | _ => match parse_digits body 0 with
           | Some n => let v := if neg then - n else n in if in64 v then Some v else None
           | None => None end
    end.

  Fixpoint enc_val (v : value HF) : sx :=
    match v with
    | VNull _ => L [I 0; L []] | VInt _ z => L [I 1; I z] | VLong _ z => L [I 2; I z]
    | VFloat _ f => L [I 3; I (bits_of_b32 f)] | VDouble _ f => L [I 4; I (bits_of_b64 f)]
    | VString _ s => L [I 5; estr s] | VBool _ b => L [I 6; eb b] | VDateTime _ t => L [I 7; I t] | VTimeSpan _ d => L [I 8; I d]
    | VObject _ o => L [I 9; I o] | VArray _ l => L [I 10; L (map enc_val l)]
    end.
  Fixpoint dec_val (fuel : nat) (s : sx) : value HF :=
    match fuel with O => VNull HF | S f =>
      let p := nth_sx 1 s in
      match gz (nth_sx 0 s) with
      | 1 => VInt HF (gz p) | 2 => VLong HF (gz p) | 3 => VFloat HF (b32_of_bits (gz p)) | 4 => VDouble HF (b64_of_bits (gz p))
      | 5 => VString HF (gstr p) | 6 => VBool HF (gb p) | 7 => VDateTime HF (gz p) | 8 => VTimeSpan HF (gz p) | 9 => VObject HF (gz p)
      | 10 => VArray HF (map (dec_val f) (gl p))
      | _ => VNull HF
      end
    end.
  Definition dval := dec_val 6.

  Definition cu := convert_unsafe HF int_to_string string_to_int
    (fun s => gz (ask 2 (estr s)))                                  (* IntegerConverter/LongConverter fallback *)
    (fun f => gstr (ask 1 (L [I 3; I (bits_of_b32 f)]))) (fun f => gstr (ask 1 (L [I 4; I (bits_of_b64 f)])))
    (fun s => b32_of_bits (gz (ask 4 (estr s)))) (fun s => b64_of_bits (gz (ask 5 (estr s))))
    (fun s => gb (ask 6 (estr s))) (fun s => gz (ask 7 (estr s))) (fun s => gz (ask 8 (estr s)))
    (fun t => gstr (ask 1 (L [I 7; I t]))) (fun o => gstr (ask 1 (L [I 9; I o])))
    (fun l => gstr (ask 1 (L [I 10; L (map enc_val l)]))).
  Definition cs := convert_safe HF.
  Definition mgr (safe : bool) := if safe then cs else cu.

  Definition vtype_of_code (z : Z) : vtype :=
    match z with 1 => TInteger | 2 => TLong | 3 => TFloat | 4 => TDouble | 5 => TString | 6 => TBoolean | 7 => TDateTime
               | 8 => TTimeSpan | 9 => TObject | 10 => TArray | _ => TNull end.

  Definition err_code (c : Variant.str) : Z :=
    if Variant.str_eqb c conv_err then 1 else if Variant.str_eqb c op_err then 2 else if Variant.str_eqb c div_err then 3
    else if Variant.str_eqb c shift_err then 4 else if Variant.str_eqb c index_err then 5 else 99.
  Definition enc_res (r : outcome (value HF)) : sx :=
    match r with Ok v => L [I 0; enc_val v] | Err c => L [I 1; I (err_code c)] | Panic => L [I (-999)] end.

  (* operator codes: 1 Add 2 Sub 3 Mul 4 Div 5 Mod 6 Pow 7 And 8 Or 9 Xor 10 Lsh 11 Rsh 12 Not 13 Negative 14 Equal 15 NotEqual
     16 More 17 Less 18 MoreEqual 19 LessEqual 20 In 21 GetElement *)
  Definition apply_op (safe : bool) (op : Z) (a b : value HF) : outcome (value HF) :=
    let c := mgr safe in
    match op with
    | 1 => add HF c a b | 2 => sub HF c a b | 3 => mul HF c a b | 4 => div HF c a b | 5 => modulo HF c a b | 6 => pow HF c a b
    | 7 => and_ HF c a b | 8 => or_ HF c a b | 9 => xor_ HF c a b | 10 => lsh HF c a b | 11 => rsh HF c a b
    | 12 => not_ HF a | 13 => negative HF a | 14 => equal HF c a b | 15 => not_equal HF c a b
    | 16 => more HF c a b | 17 => less HF c a b | 18 => more_equal HF c a b | 19 => less_equal HF c a b
    | 20 => in_ HF c a b | _ => get_element HF c a b
    end.

  (* a chain of conversions: stops at the first error *)
  Fixpoint convert_chain (safe : bool) (v : value HF) (ts : list Z) : list sx :=
    match ts with
    | [] => []
    | t :: r => let res := mgr safe v (vtype_of_code t) in
                enc_res res :: match res with Ok w => convert_chain safe w r | _ => [] end
    end.
End Exec.

(* C06: input = L [I manager; I op; a; b; oracle]  (manager 0 type-unsafe, 1 type-safe) *)
Definition model_C06 (input : sx) : sx :=
  let orc := gl (nth_sx 4 input) in
  enc_res orc (apply_op orc (gb (nth_sx 0 input)) (gz (nth_sx 1 input)) (dval orc (nth_sx 2 input)) (dval orc (nth_sx 3 input))).

(* C07: input = L [I manager; v; L [I target ...]; oracle] *)
Definition model_C07 (input : sx) : sx :=
  let orc := gl (nth_sx 3 input) in
  L (convert_chain orc (gb (nth_sx 0 input)) (dval orc (nth_sx 1 input)) (map gz (gl (nth_sx 2 input)))).
