(* S-expressions: the one wire format between the Go harness and the executable models.
   A case is  L [input; observed];  every property has  model_Cxx : sx -> sx  mapping the input
   part to the observables the implementation must show.  The harness prints cases either as Coq
   terms (evaluated here by vm_compute) or as text lines parsed by the OCaml driver. *)
From Coq Require Import List ZArith Bool.
Import ListNotations.
Open Scope Z_scope.

Inductive sx := I (z : Z) | L (l : list sx).

Fixpoint sx_eqb (a b : sx) {struct a} : bool :=
  match a, b with
  | I x, I y => x =? y
  | L xs, L ys =>
      (fix go (xs ys : list sx) {struct xs} : bool :=
         match xs, ys with
         | [], [] => true
         | x :: xs', y :: ys' => sx_eqb x y && go xs' ys'
         | _, _ => false
         end) xs ys
  | _, _ => false
  end.

(* decoders; a malformed case decodes to defaults and is reported by the shape check of each model *)
Definition gz (s : sx) : Z := match s with I z => z | L _ => 0 end.
Definition gl (s : sx) : list sx := match s with L l => l | I _ => [] end.
Definition gstr (s : sx) : list Z := map gz (gl s).
Definition gb (s : sx) : bool := negb (gz s =? 0).
Definition gnat (s : sx) : nat := Z.to_nat (gz s).
Definition nth_sx (n : nat) (s : sx) : sx := nth n (gl s) (L []).

(* encoders *)
Definition ez (z : Z) : sx := I z.
Definition eb (b : bool) : sx := I (if b then 1 else 0).
Definition estr (s : list Z) : sx := L (map I s).
Definition enat (n : nat) : sx := I (Z.of_nat n).
Definition eopt {A} (f : A -> sx) (o : option A) : sx := match o with None => L [] | Some a => L [f a] end.

(* evaluation of a batch of cases: indices (as Z) of the cases on which model and implementation differ *)
Definition check_case (model : sx -> sx) (c : sx) : bool :=
  match c with L [input; observed] => sx_eqb (model input) observed | _ => false end.

Fixpoint mismatches_from (model : sx -> sx) (i : Z) (cs : list sx) : list Z :=
  match cs with
  | [] => []
  | c :: r => if check_case model c then mismatches_from model (i + 1) r else i :: mismatches_from model (i + 1) r
  end.
Definition mismatches (model : sx -> sx) (cs : list sx) : list Z := mismatches_from model 0 cs.
