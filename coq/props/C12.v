(* C12 — Every token reports the line and column of its first character. *)
From Coq Require Import List ZArith Bool Lia.
Import ListNotations.
Require Import Base Cursor ScannerLink Tokenizer TokModel TokModelProofs TokPositions.
Require Scanner.
Open Scope Z_scope.

(* For each tokenizer, each option combination and EVERY input: the emitted tokens ts are aligned with the raw
   stream rs (a subsequence of it in order, each emitted token carrying the position of the raw token it stems
   from - also when it was rewritten and when it follows skipped tokens - plus at most one end-of-input token at
   the peeked position of the end cursor), and raw token number i reports the peeked position of the cursor at
   the offset where it starts (the sum of the lengths of the raw tokens before it). *)
Theorem C12_tokens_report_their_own_position : forall (k : tkind) (o : options) (s : Base.str), wf_str s ->
  exists rs cend ts, tokenize_with k o s = Tokenizer.Ok ts /\ raw_with k s = Some (rs, cend) /\
    aligned (plcf cend) rs ts /\ positioned plcf s 0 rs /\ content cend = s /\ (length s <= p cend)%nat.
Proof. exact tokenize_positions. Qed.

(* the peeked position at offset k is the line/column of character k as the scanner counts them in a forward
   scan: what a fresh scanner reports after reading k+1 characters (Scanner.lc, C11) *)
Theorem C12_position_is_forward_scan : forall (s : Base.str) (k : nat), (k < length s)%nat ->
  plcf {| content := s; p := k |} = Scanner.lc s (S k).
Proof. exact plc_is_forward_scan. Qed.

(* the end-of-input token sits one column past the last character, on the same line *)
Theorem C12_eof_one_column_past_the_end : forall c : cur, wf_str (content c) -> (clen c <= p c)%nat ->
  plcf c = (fst (Scanner.lc (content c) (length (content c))), snd (Scanner.lc (content c) (length (content c))) + 1).
Proof. exact plc_at_end. Qed.

(* non-vacuity: a string that follows a skipped comment on the second line reports its own column *)
Example C12_nonvacuous :
  exists ts, tokenize_with TExpr {| skipUnknown := false; skipWhitespaces := false; skipComments := true; skipEof := false;
                                    mergeWhitespaces := false; unifyNumbers := false; decodeStrings := true |}
                           [97; 10; 47; 42; 99; 42; 47; 39; 120; 39] = Tokenizer.Ok ts
  /\ map (fun t => (ty t, line t, col t)) ts = [(Word, 1, 1); (Whitespace, 2, 0); (Quoted, 2, 6); (Eof, 2, 9)].
Proof. eexists. split; vm_compute; reflexivity. Qed.

Print Assumptions C12_tokens_report_their_own_position.
Print Assumptions C12_position_is_forward_scan.
Print Assumptions C12_eof_one_column_past_the_end.

(* State space: the objects this property's model stands for have exactly the fields the model accounts for (StateSpace.v;
   gen/StateSpaceGen.v is regenerated from the Go sources on every run). A new field - a cache, a memo, a counter - is state
   the model does not have, so the theorems above would no longer be about the object. *)
From Coq Require Import String.
Require Import StateSpaceGen StateSpace.
Open Scope string_scope.
Theorem C12_state_space :
  fields_of "io.StringScanner" = fields ["content"; "position"; "line"; "column"] /\
  fields_of "tokenizers.AbstractTokenizer" = fields ["Overrides"; "mp"; "skipUnknown"; "skipWhitespaces"; "skipComments"; "skipEof"; "mergeWhitespaces"; "unifyNumbers"; "decodeStrings"; "commentState"; "numberState"; "quoteState"; "symbolState"; "whitespaceState"; "wordState"; "Scanner"; "NextTokenValue"; "LastTokenType"] /\
  fields_of "tokenizers.Token" = fields ["typ"; "value"; "line"; "column"].
Proof. vm_compute. repeat split; reflexivity. Qed.
Print Assumptions C12_state_space.
