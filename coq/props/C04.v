(* C04 — Tokenization is lossless: token values concatenate to the input.
   tokenize_with k = TokenizeBuffer of the generic / expression / CSV (any separators and quote symbols) / mustache
   tokenizer, built from the character tables, state assignments, symbol registrations and keywords that the
   translator extracts from the Go constructors on every run. *)
From Coq Require Import List ZArith Bool Lia.
Import ListNotations.
Require Import Base Cursor Tokenizer TokModel TokModelProofs.
Open Scope Z_scope.

(* For every built-in tokenizer and EVERY input string, with no option enabled: tokenization succeeds, the stream
   is body ++ [e] where e is the single end-of-input token (empty value), every token of body is non-empty, and
   the values concatenate to exactly the input - nothing invented, dropped or replaced, up to the very end. *)
Theorem C04_lossless : forall (k : tkind) (s : Base.str), wf_str s ->
  exists body e, tokenize_with k no_options s = Tokenizer.Ok (body ++ [e]) /\ concat (map value (body ++ [e])) = s /\
                 ty e = Eof /\ value e = [] /\ Forall (fun t => value t <> []) body.
Proof. exact tokenize_lossless. Qed.

(* the side conditions of the loop theorems hold for the configurations built from the extracted tables *)
Theorem C04_configurations_well_formed :
  (Instances.cfg_ok generic_cfg /\ Instances.types_ok generic_cfg) /\ (Instances.cfg_ok expr_cfg /\ Instances.types_ok expr_cfg) /\
  (Instances.cfg_ok mustache_cfg /\ Instances.types_ok mustache_cfg) /\
  (forall seps quotes, Instances.cfg_ok (csv_cfg seps quotes) /\ Instances.types_ok (csv_cfg seps quotes)).
Proof. exact (conj generic_cfg_ok (conj expr_cfg_ok (conj mustache_cfg_ok csv_cfg_ok))). Qed.

(* non-vacuity: a sign, a dot and a slash that do not start a number or comment, at the very end of the input *)
Example C04_nonvacuous :
  (exists ts, tokenize_with TExpr no_options [49; 43; 46] = Tokenizer.Ok ts /\ map value ts = [[49]; [43]; [46]; []]) /\
  (exists ts, tokenize_with TGeneric no_options [45; 46] = Tokenizer.Ok ts /\ map value ts = [[45]; [46]; []]) /\
  (exists ts, tokenize_with TExpr no_options [49; 47] = Tokenizer.Ok ts /\ map value ts = [[49]; [47]; []]).
Proof. repeat split; eexists; split; vm_compute; reflexivity. Qed.

Print Assumptions C04_lossless.
Print Assumptions C04_configurations_well_formed.

(* State space: the objects this property's model stands for have exactly the fields the model accounts for (StateSpace.v;
   gen/StateSpaceGen.v is regenerated from the Go sources on every run). A new field - a cache, a memo, a counter - is state
   the model does not have, so the theorems above would no longer be about the object. *)
From Coq Require Import String.
Require Import StateSpaceGen StateSpace.
Open Scope string_scope.
Theorem C04_state_space :
  fields_of "tokenizers.AbstractTokenizer" = fields ["Overrides"; "mp"; "skipUnknown"; "skipWhitespaces"; "skipComments"; "skipEof"; "mergeWhitespaces"; "unifyNumbers"; "decodeStrings"; "commentState"; "numberState"; "quoteState"; "symbolState"; "whitespaceState"; "wordState"; "Scanner"; "NextTokenValue"; "LastTokenType"] /\
  fields_of "io.StringScanner" = fields ["content"; "position"; "line"; "column"] /\
  fields_of "tokenizers/generic.SymbolNode" = fields ["parent"; "character"; "children"; "tokenType"; "valid"; "ancestry"] /\
  fields_of "tokenizers/generic.GenericSymbolState" = fields ["symbols"] /\
  fields_of "tokenizers.Token" = fields ["typ"; "value"; "line"; "column"].
Proof. vm_compute. repeat split; reflexivity. Qed.
Print Assumptions C04_state_space.
