(* C10 — Mustache rendering equals the reference semantics; malformed input is rejected.
   Token level: a template is the token sequence the mustache tokenizer delivers (text = Special tokens, braces and
   operators = Symbol tokens, names = Word tokens); tnode is the reference syntax tree with every spelling
   (# / #if / ^ / #unless, closed by name / if / unless, two or three braces on either tag independently, comments with
   arbitrary bodies); flat prints a tree to tokens, shape is the parsed form, render_spec the reference semantics.
   Whitespace tokens inside tags are skipped by the lexical analysis (lex_tok, TWhitespace) and are exercised by the
   correspondence; the string level (tokenizer in front) rests on C04/C15 for the mustache tokenizer. *)
From Coq Require Import List ZArith Bool Lia.
Import ListNotations.
Require Import Mustache MustacheSpec MustacheReject.
Open Scope Z_scope.

(* lexical analysis + section parsing of ANY well-formed template (any nesting depth, any mix, any spelling) yields exactly its tree *)
Theorem C10_well_formed_templates_parse_to_their_tree : forall ts, wfs ts -> ts <> TNil ->
  match lex_all lex0 (flats ts) [] with Ok ms => mparse ms | Err e => Err e | Panic => Panic | Fuel => Fuel end = Ok (shapes ts).
Proof. exact template_parses. Qed.

(* the renderer is the reference semantics: text verbatim, variable -> value or nothing, escaped variable -> escaped value,
   section body iff its variable is present and non-empty, inverted section iff not; names matched through `lower`
   (case-insensitively); for EVERY variable list *)
Theorem C10_rendering_is_the_reference_semantics : forall lower escape vars,
  (forall t, render_node lower escape vars (shape t) = render_spec lower escape vars t) /\
  (forall ts, render lower escape vars (shapes ts) = renders_spec lower escape vars ts).
Proof. exact render_ok. Qed.

(* rejection with an error code *)
Theorem C10_unclosed_tag_is_rejected : forall ts b3, wfs ts ->
  rejected (lex_then_parse (flats ts ++ [opn b3])) /\ forall n, rejected (lex_then_parse (flats ts ++ [opn b3; word n])).
Proof. exact unclosed_tag. Qed.
Theorem C10_mismatched_brace_counts_are_rejected : forall ts b3 n rest, wfs ts ->
  rejected (lex_then_parse (flats ts ++ [opn b3; word n; cls (negb b3)] ++ rest)).
Proof. exact mismatched_braces. Qed.
Theorem C10_unopened_section_is_rejected : forall ts v rest, rejected (mparse (mflats ts ++ {| mk := KSectionEnd; mv := v |} :: rest)).
Proof. exact unopened_section. Qed.
Theorem C10_unclosed_section_is_rejected : forall ts k n body, is_sec k = true -> rejected (mparse (mflats ts ++ {| mk := k; mv := n |} :: mflats body)).
Proof. exact unclosed_section. Qed.
Theorem C10_mismatched_section_is_rejected : forall ts k n body m rest, is_sec k = true -> str_eqb m n = false -> m <> [] ->
  rejected (mparse (mflats ts ++ {| mk := k; mv := n |} :: mflats body ++ {| mk := KSectionEnd; mv := m |} :: rest)).
Proof. exact mismatched_section. Qed.

(* non-vacuity: nested sections in different spellings, a comment, a variable named "if" *)
Example C10_nonvacuous :
  let t := TCons (TText [120]) (TCons (TSec false true HashIf [97] (TCons (TInv true false Caret [105; 102] (TCons (TEVar [98]) TNil) ByUnless) (TCons (TComment false [word [99]]) TNil)) ByName) TNil) in
  wfs t /\ render (fun s => s) (fun s => 33 :: s) [([97], [49]); ([98], [50])] (shapes t) = [120; 33; 50].
Proof. split; [cbn; repeat split; try discriminate; repeat constructor|vm_compute; reflexivity]. Qed.

Print Assumptions C10_well_formed_templates_parse_to_their_tree.
Print Assumptions C10_rendering_is_the_reference_semantics.
Print Assumptions C10_unclosed_tag_is_rejected.
Print Assumptions C10_mismatched_brace_counts_are_rejected.
Print Assumptions C10_unopened_section_is_rejected.
Print Assumptions C10_unclosed_section_is_rejected.
Print Assumptions C10_mismatched_section_is_rejected.
