(* C10 — Mustache rendering equals the reference semantics; malformed input is rejected.
   Token level: a template is the token sequence the mustache tokenizer delivers (text = Special tokens, braces and
   operators = Symbol tokens, names = Word tokens); tnode is the reference syntax tree with every spelling
   (# / #if / ^ / #unless, closed by name / if / unless, two or three braces on either tag independently, comments with
   arbitrary bodies); flat prints a tree to tokens, shape is the parsed form, render_spec the reference semantics.
   Whitespace tokens inside tags are skipped by the lexical analysis (lex_tok, TWhitespace).
   String level (theorems C10_template_text_...): parse_template = mustache tokenizer with the parser's options + lexical analysis +
   section parser; for every text that is a sequence of template lexemes (MustacheStep.mlex: text outside tags up to the
   next "{{", the generic tokenizer's lexemes inside tags, the text/tag mode flag) the tokenizer returns exactly those
   lexemes and the token-level theorems hold of the text. *)
From Coq Require Import List ZArith Bool Lia.
Import ListNotations.
Require Import Mustache MustacheSpec MustacheReject.
Require Base Tokenizer TokModel LexGrammar ExprString MustacheStep MustacheString.
Open Scope Z_scope.

(* lexical analysis + section parsing of ANY well-formed template (any nesting depth, any mix, any spelling) yields exactly its tree *)
Theorem C10_well_formed_templates_parse_to_their_tree : forall ts, wfs ts -> ts <> TNil ->
  match lex_all lex0 (flats ts) [] with Ok ms => mparse ms | Err e => Err e | Panic => Panic | Fuel => Fuel end = Ok (shapes ts).
Proof. exact template_parses. Qed.

(* the renderer is the reference semantics: text verbatim, variable -> value or nothing, escaped variable -> escaped value,
   section body iff its variable is present and non-empty, inverted section iff not; names matched through `lower`
   (case-insensitively); for EVERY variable list *)
Theorem C10_rendering_is_the_reference_semantics : forall lower escape vars,
  (forall t, render_node lower escape vars (shape t) = render_spec lower escape vars t) /\
  (forall ts, render lower escape vars (shapes ts) = renders_spec lower escape vars ts).
Proof. exact render_ok. Qed.

(* rejection with an error code *)
Theorem C10_unclosed_tag_is_rejected : forall ts b3, wfs ts ->
  rejected (lex_then_parse (flats ts ++ [opn b3])) /\ forall n, rejected (lex_then_parse (flats ts ++ [opn b3; word n])).
Proof. exact unclosed_tag. Qed.
Theorem C10_mismatched_brace_counts_are_rejected : forall ts b3 n rest, wfs ts ->
  rejected (lex_then_parse (flats ts ++ [opn b3; word n; cls (negb b3)] ++ rest)).
Proof. exact mismatched_braces. Qed.
Theorem C10_unopened_section_is_rejected : forall ts v rest, rejected (mparse (mflats ts ++ {| mk := KSectionEnd; mv := v |} :: rest)).
Proof. exact unopened_section. Qed.
Theorem C10_unclosed_section_is_rejected : forall ts k n body, is_sec k = true -> rejected (mparse (mflats ts ++ {| mk := k; mv := n |} :: mflats body)).
Proof. exact unclosed_section. Qed.
Theorem C10_mismatched_section_is_rejected : forall ts k n body m rest, is_sec k = true -> str_eqb m n = false -> m <> [] ->
  rejected (mparse (mflats ts ++ {| mk := k; mv := n |} :: mflats body ++ {| mk := KSectionEnd; mv := m |} :: rest)).
Proof. exact mismatched_section. Qed.

(* non-vacuity: nested sections in different spellings, a comment, a variable named "if" *)
Example C10_nonvacuous :
  let t := TCons (TText [120]) (TCons (TSec false true HashIf [97] (TCons (TInv true false Caret [105; 102] (TCons (TEVar [98]) TNil) ByUnless) (TCons (TComment false [word [99]]) TNil)) ByName) TNil) in
  wfs t /\ render (fun s => s) (fun s => 33 :: s) [([97], [49]); ([98], [50])] (shapes t) = [120; 33; 50].
Proof. split; [cbn; repeat split; try discriminate; repeat constructor|vm_compute; reflexivity]. Qed.

(* ---- at string level ---- *)
Theorem C10_template_text_is_tokenized_as_its_lexemes : forall ls : list (Base.ttype * Base.str),
  Base.wf_str (MustacheStep.text_of ls) -> MustacheStep.mlex true ls -> MustacheString.plain_tags ls -> MustacheString.spaced Base.Unknown (map fst ls) ->
  exists ts, TokModel.tokenize_with TokModel.TMustache ExprString.parser_opts (MustacheStep.text_of ls) = Tokenizer.Ok ts /\
             map (fun t => (Base.ty t, Base.value t)) ts = ls.
Proof. exact MustacheString.template_text_is_tokenized_as_its_lexemes. Qed.
Theorem C10_template_text_is_parsed_as_its_tokens : forall ls : list (Base.ttype * Base.str),
  Base.wf_str (MustacheStep.text_of ls) -> MustacheStep.mlex true ls -> MustacheString.plain_tags ls -> MustacheString.spaced Base.Unknown (map fst ls) ->
  Forall MustacheString.blank_ok ls ->
  MustacheString.parse_template (MustacheStep.text_of ls) = lex_then_parse (MustacheString.strip ls).
Proof. exact MustacheString.parse_template_of_text. Qed.
Theorem C10_template_text_parses_to_its_tree : forall (ls : list (Base.ttype * Base.str)) ts,
  Base.wf_str (MustacheStep.text_of ls) -> MustacheStep.mlex true ls -> MustacheString.plain_tags ls -> MustacheString.spaced Base.Unknown (map fst ls) ->
  Forall MustacheString.blank_ok ls -> MustacheString.strip ls = flats ts -> wfs ts -> ts <> TNil ->
  MustacheString.parse_template (MustacheStep.text_of ls) = Ok (shapes ts).
Proof. exact MustacheString.template_text_parses_to_its_tree. Qed.
(* non-vacuity:  Hi {{#if a}}{{{b}}}{{/if}}!  is such a text *)
Example C10_template_text_premises_satisfiable :
  MustacheStep.mlex true MustacheString.sample_template /\
  MustacheString.parse_template (MustacheStep.text_of MustacheString.sample_template) = Ok (shapes MustacheString.sample_tree).
Proof. exact (conj MustacheString.sample_template_is_lexemes MustacheString.sample_template_parses). Qed.

Print Assumptions C10_well_formed_templates_parse_to_their_tree.
Print Assumptions C10_rendering_is_the_reference_semantics.
Print Assumptions C10_unclosed_tag_is_rejected.
Print Assumptions C10_mismatched_brace_counts_are_rejected.
Print Assumptions C10_unopened_section_is_rejected.
Print Assumptions C10_unclosed_section_is_rejected.
Print Assumptions C10_mismatched_section_is_rejected.
Print Assumptions C10_template_text_is_tokenized_as_its_lexemes.
Print Assumptions C10_template_text_is_parsed_as_its_tokens.
Print Assumptions C10_template_text_parses_to_its_tree.

(* State space: the objects this property's model stands for have exactly the fields the model accounts for (StateSpace.v;
   gen/StateSpaceGen.v is regenerated from the Go sources on every run). A new field - a cache, a memo, a counter - is state
   the model does not have, so the theorems above would no longer be about the object. *)
From Coq Require Import String.
Require Import StateSpaceGen StateSpace.
Open Scope string_scope.
Theorem C10_state_space :
  fields_of "mustache.MustacheTemplate" = fields ["defaultVariables"; "parser"; "autoVariables"] /\
  fields_of "mustache/parsers.MustacheParser" = fields ["tokenizer"; "template"; "originalTokens"; "initialTokens"; "currentTokenIndex"; "variableNames"; "resultTokens"] /\
  fields_of "mustache/tokenizers.MustacheTokenizer" = fields ["embedded *tokenizers.AbstractTokenizer"; "special"; "specialState"].
Proof. vm_compute. repeat split; reflexivity. Qed.
Print Assumptions C10_state_space.
