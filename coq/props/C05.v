(* C05 — Reused instances give history-independent results.
   The tokenizer instance as a state machine (Instance.v): fields NextTokenValue (cached), LastTokenType (last), the
   private mode (text/tag flag of the mustache tokenizer) and the scanner; operations SetReader, HasNextToken,
   NextToken.  M, produce, decode, options are arbitrary; `enter` is what ReadNextToken does to the mode on entry
   and `relast` what the tokenizer does to LastTokenType afterwards. *)
From Coq Require Import List ZArith Bool Lia.
Import ListNotations.
Require Import Base Cursor Tokenizer Instances Instance TokModel RunC05 InstanceLink.
Open Scope Z_scope.

(* After SetReader, whatever state i the instance was left in by ANY earlier history (cached look-ahead, aborted
   iteration, stale mode) and whatever state i' a fresh instance is in, EVERY sequence of HasNextToken / NextToken
   calls observes exactly the same results. *)
Theorem C05_reused_instance_equals_fresh :
  forall (M : Type) plc (produce : M -> cur -> option (rawtok * cur * M)) decode o enter relast (i i' : inst M) s calls,
    (forall m m', enter m Unknown = enter m' Unknown) ->
    observe M plc produce decode o enter relast calls (set_reader M i s) =
    observe M plc produce decode o enter relast calls (set_reader M i' s).
Proof. exact reuse_equals_fresh. Qed.

(* However HasNextToken and NextToken are interleaved, the i-th NextToken returns the i-th token of the instance's
   token stream and nil afterwards. *)
Theorem C05_has_next_queries_do_not_matter :
  forall (M : Type) plc (produce : M -> cur -> option (rawtok * cur * M)) decode o enter relast m0 (i : inst M) s ts calls,
    (forall m m', enter m Unknown = enter m' Unknown) ->
    stream M plc produce decode o enter relast m0 {| content := s; p := 0 |} Unknown ts ->
    observe M plc produce decode o enter relast calls (set_reader M i s) = Tokenizer.Ok (expected (nexts calls) ts).
Proof. exact history_independent. Qed.

(* The stream of the instance IS what TokenizeBuffer returns on a fresh tokenizer: for the generic, expression and CSV
   tokenizers (any separators / quotes), any options, any input, any earlier history of the instance (i is an
   arbitrary instance state) and any interleaving of HasNextToken / NextToken, the i-th NextToken returns the i-th
   token of TokenizeBuffer(s), then nil. *)
Theorem C05_reused_tokenizer_returns_the_tokens_of_a_fresh_one : forall k, plain_kind k -> forall o s ts, tokenize_with k o s = Tokenizer.Ok ts ->
  forall calls,
  match k with
  | TGeneric => forall i, observe unit plcf (produce lcf plcf generic_cfg) decode_generic o enter_plain relast_plain calls (set_reader unit i s) = Tokenizer.Ok (expected (nexts calls) ts)
  | TExpr => forall i, observe unit plcf (produce lcf plcf expr_cfg) decode_doubled o enter_plain relast_plain calls (set_reader unit i s) = Tokenizer.Ok (expected (nexts calls) ts)
  | TCsv seps quotes => forall i, observe unit plcf (produce lcf plcf (csv_cfg seps quotes)) decode_doubled o enter_plain relast_plain calls (set_reader unit i s) = Tokenizer.Ok (expected (nexts calls) ts)
  | TMustache => True
  end.
Proof. exact builtin_reuse. Qed.

(* The mustache tokenizer (text/tag mode carried between calls): for every input there is ONE token list that every
   earlier history and every interleaving observes. *)
Theorem C05_mustache_tokenizer_history_independent : forall o s, wf_str s ->
  exists ts, forall (i : inst bool) calls,
    observe bool plcf mustache_produce decode_generic o enter_mustache relast_mustache calls (set_reader bool i s) = Tokenizer.Ok (expected (nexts calls) ts).
Proof. exact mustache_history_independence. Qed.

(* the premise holds for the four built-in tokenizers: the plain ones have no mode, the mustache tokenizer
   re-enters text mode whenever LastTokenType is Unknown *)
Theorem C05_builtin_tokenizers_reinitialise :
  (forall m m' : unit, enter_plain m Unknown = enter_plain m' Unknown) /\
  (forall m m' : bool, enter_mustache m Unknown = enter_mustache m' Unknown).
Proof. split; [intros [] []; reflexivity | intros m m'; reflexivity]. Qed.

(* non-vacuity: '<=' after '<>' on one expression-tokenizer instance, with an abandoned look-ahead in between *)
Example C05_nonvacuous :
  run_tokenizer_history TExpr no_options
    [ Sx.L [Sx.estr [97; 60; 62; 98]; Sx.L [Sx.I 1; Sx.I 0]]; Sx.L [Sx.estr [60; 61]; Sx.L [Sx.I 0; Sx.I 1; Sx.I 1; Sx.I 1]] ]
  = [ Sx.L [Sx.L [Sx.I 1; Sx.L [Sx.I 9; Sx.estr [97]; Sx.I 1; Sx.I 1]]; Sx.L [Sx.I 0; Sx.I 1]];
      Sx.L [Sx.L [Sx.I 0; Sx.I 1]; Sx.L [Sx.I 1; Sx.L [Sx.I 7; Sx.estr [60; 61]; Sx.I 1; Sx.I 1]];
            Sx.L [Sx.I 1; Sx.L [Sx.I 1; Sx.estr []; Sx.I 1; Sx.I 3]]; Sx.L [Sx.I 1]] ].
Proof. vm_compute. reflexivity. Qed.

Print Assumptions C05_reused_instance_equals_fresh.
Print Assumptions C05_has_next_queries_do_not_matter.
Print Assumptions C05_reused_tokenizer_returns_the_tokens_of_a_fresh_one.
Print Assumptions C05_mustache_tokenizer_history_independent.
Print Assumptions C05_builtin_tokenizers_reinitialise.

(* State space: the objects this property's model stands for have exactly the fields the model accounts for (StateSpace.v;
   gen/StateSpaceGen.v is regenerated from the Go sources on every run). A new field - a cache, a memo, a counter - is state
   the model does not have, so the theorems above would no longer be about the object. *)
From Coq Require Import String.
Require Import StateSpaceGen StateSpace.
Open Scope string_scope.
Theorem C05_state_space :
  fields_of "tokenizers.AbstractTokenizer" = fields ["Overrides"; "mp"; "skipUnknown"; "skipWhitespaces"; "skipComments"; "skipEof"; "mergeWhitespaces"; "unifyNumbers"; "decodeStrings"; "commentState"; "numberState"; "quoteState"; "symbolState"; "whitespaceState"; "wordState"; "Scanner"; "NextTokenValue"; "LastTokenType"] /\
  fields_of "io.StringScanner" = fields ["content"; "position"; "line"; "column"] /\
  fields_of "tokenizers/generic.SymbolNode" = fields ["parent"; "character"; "children"; "tokenType"; "valid"; "ancestry"] /\
  fields_of "calculator/parsers.ExpressionParser" = fields ["tokenizer"; "expression"; "originalTokens"; "initialTokens"; "currentTokenIndex"; "variableNames"; "resultTokens"] /\
  fields_of "calculator.ExpressionCalculator" = fields ["defaultVariables"; "defaultFunctions"; "variantOperations"; "parser"; "autoVariables"] /\
  fields_of "mustache/parsers.MustacheParser" = fields ["tokenizer"; "template"; "originalTokens"; "initialTokens"; "currentTokenIndex"; "variableNames"; "resultTokens"] /\
  fields_of "mustache.MustacheTemplate" = fields ["defaultVariables"; "parser"; "autoVariables"] /\
  fields_of "mustache/tokenizers.MustacheTokenizer" = fields ["embedded *tokenizers.AbstractTokenizer"; "special"; "specialState"] /\
  fields_of "csv.CsvTokenizer" = fields ["embedded *tokenizers.AbstractTokenizer"; "fieldSeparators"; "quoteSymbols"; "endOfLine"].
Proof. vm_compute. repeat split; reflexivity. Qed.
Require Import StateSpaceAll.
(* ... and the library as a whole has no struct field and no package-level variable beyond the accounted ones: no hidden
   state through which one call, instance or goroutine could reach another *)
Theorem C05_no_hidden_state : go_structs = enc_structs /\ go_package_vars = enc_vars.
Proof. exact (conj structs_accounted package_vars_accounted). Qed.
Print Assumptions C05_no_hidden_state.
Print Assumptions C05_state_space.
