(* C19 — Evaluation is pure and repeatable, also under concurrent use (PARTIAL: see below).
   In the model, evaluation IS a function of the compiled program, the variable values and the function table
   (ExprEval.run / eval, Mustache.render): it returns a result and nothing else, so equal inputs give equal results any
   number of times and in any order - there is no state to modify.  That the Go evaluators modify nothing (compiled
   program, constants, variable values, function table) is shown on the implementation by snapshots before and after
   every evaluation.  The concurrency clause is proved for the logic part: threads whose steps read a shared store and
   write only private state obtain, under EVERY interleaving, the results of their sequential runs.  What no Gallina
   model can exhibit - Go data races and memory visibility - is exercised by the harness under the race detector. *)
From Coq Require Import List Arith Lia.
Import ListNotations.
Require Import Interleave.

Theorem C19_every_interleaving_gives_the_sequential_results_partial :
  forall (St Pr : Type) (step : St -> Pr -> Pr) (d : Pr) (s : St) (sched : list nat) (ps : list Pr) (i : nat), (i < length ps)%nat ->
    nth i (run St Pr step d s ps sched) d = iter St Pr step (count i sched) s (nth i ps d).
Proof. exact interleaving_independent. Qed.

Theorem C19_schedules_agree_partial :
  forall (St Pr : Type) (step : St -> Pr -> Pr) (d : Pr) (s : St) (ps : list Pr) (sched1 sched2 : list nat) (i : nat),
    (i < length ps)%nat -> count i sched1 = count i sched2 ->
    nth i (run St Pr step d s ps sched1) d = nth i (run St Pr step d s ps sched2) d.
Proof. exact schedules_agree. Qed.

(* non-vacuity: three threads, an unfair schedule *)
Example C19_nonvacuous :
  run nat nat (fun s p => s + p) 0 5 [1; 10; 100] [2; 0; 2; 2; 1; 0] = [11; 15; 115].
Proof. reflexivity. Qed.

Print Assumptions C19_every_interleaving_gives_the_sequential_results_partial.
Print Assumptions C19_schedules_agree_partial.
