(* C19 — Evaluation is pure and repeatable, also under concurrent use (PARTIAL: see below).
   In the model, evaluation IS a function of the compiled program, the variable values and the function table
   (ExprEval.run / eval, Mustache.render): it returns a result and nothing else, so equal inputs give equal results any
   number of times and in any order - there is no state to modify.  That the Go evaluators modify nothing (compiled
   program, constants, variable values, function table) is shown on the implementation by snapshots before and after
   every evaluation.  The concurrency clause is proved for the logic part: threads whose steps read a shared store and
   write only private state obtain, under EVERY interleaving, the results of their sequential runs.  What no Gallina
   model can exhibit - Go data races and memory visibility - is exercised by the harness under the race detector. *)
From Coq Require Import List Arith Lia.
Import ListNotations.
Require Import Interleave.

Theorem C19_every_interleaving_gives_the_sequential_results_partial :
  forall (St Pr : Type) (step : St -> Pr -> Pr) (d : Pr) (s : St) (sched : list nat) (ps : list Pr) (i : nat), (i < length ps)%nat ->
    nth i (run St Pr step d s ps sched) d = iter St Pr step (count i sched) s (nth i ps d).
Proof. exact interleaving_independent. Qed.

Theorem C19_schedules_agree_partial :
  forall (St Pr : Type) (step : St -> Pr -> Pr) (d : Pr) (s : St) (ps : list Pr) (sched1 sched2 : list nat) (i : nat),
    (i < length ps)%nat -> count i sched1 = count i sched2 ->
    nth i (run St Pr step d s ps sched1) d = nth i (run St Pr step d s ps sched2) d.
Proof. exact schedules_agree. Qed.

(* non-vacuity: three threads, an unfair schedule *)
Example C19_nonvacuous :
  run nat nat (fun s p => s + p) 0 5 [1; 10; 100] [2; 0; 2; 2; 1; 0] = [11; 15; 115].
Proof. reflexivity. Qed.

Print Assumptions C19_every_interleaving_gives_the_sequential_results_partial.
Print Assumptions C19_schedules_agree_partial.

(* State space: the objects this property's model stands for have exactly the fields the model accounts for (StateSpace.v;
   gen/StateSpaceGen.v is regenerated from the Go sources on every run). A new field - a cache, a memo, a counter - is state
   the model does not have, so the theorems above would no longer be about the object. *)
From Coq Require Import String.
Require Import StateSpaceGen StateSpace.
Open Scope string_scope.
Theorem C19_state_space :
  fields_of "calculator.ExpressionCalculator" = fields ["defaultVariables"; "defaultFunctions"; "variantOperations"; "parser"; "autoVariables"] /\
  fields_of "calculator/parsers.ExpressionParser" = fields ["tokenizer"; "expression"; "originalTokens"; "initialTokens"; "currentTokenIndex"; "variableNames"; "resultTokens"] /\
  fields_of "calculator.CalculationStack" = fields ["values"] /\
  fields_of "variants.Variant" = fields ["typ"; "value"] /\
  fields_of "variants.AbstractVariantOperations" = fields ["Overrides"] /\
  fields_of "variants.TypeUnsafeVariantOperations" = fields ["embedded *AbstractVariantOperations"] /\
  fields_of "variants.TypeSafeVariantOperations" = fields ["embedded *AbstractVariantOperations"] /\
  fields_of "calculator/variables.VariableCollection" = fields ["variables"] /\
  fields_of "calculator/variables.Variable" = fields ["name"; "value"] /\
  fields_of "calculator/functions.FunctionCollection" = fields ["functions"] /\
  fields_of "calculator/functions.DelegatedFunction" = fields ["name"; "calculator"] /\
  fields_of "mustache.MustacheTemplate" = fields ["defaultVariables"; "parser"; "autoVariables"] /\
  fields_of "mustache/parsers.MustacheParser" = fields ["tokenizer"; "template"; "originalTokens"; "initialTokens"; "currentTokenIndex"; "variableNames"; "resultTokens"].
Proof. vm_compute. repeat split; reflexivity. Qed.
Require Import StateSpaceAll.
(* ... and the library as a whole has no struct field and no package-level variable beyond the accounted ones: no hidden
   state through which one call, instance or goroutine could reach another *)
Theorem C19_no_hidden_state : go_structs = enc_structs /\ go_package_vars = enc_vars.
Proof. exact (conj structs_accounted package_vars_accounted). Qed.
Print Assumptions C19_no_hidden_state.
Print Assumptions C19_state_space.
