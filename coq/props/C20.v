(* C20 — Variants hold what they were given: typed access, copies and equality.
   The model is the VALUE model the property describes: a variant register holds a value, a list held by a variant is
   its own.  That the Go implementation (pointers, slices, backing arrays with spare capacity) behaves like this value
   model is established by the correspondence on operation histories, not by these theorems (see level_note). *)
From Coq Require Import List ZArith Bool Lia.
Import ListNotations.
Require Import VariantValue VariantValueProofs.
Open Scope Z_scope.

Theorem C20_typed_access : forall z s,
  from_host 0 z s = Int z /\ from_host 1 z s = Int z /\ from_host 2 z s = Long z /\ from_host 3 z s = Long z /\ from_host 4 z s = Long z /\
  from_host 5 z s = Flt z /\ from_host 6 z s = Dbl z /\ from_host 8 z s = Str s /\ from_host 9 z s = Time z /\ from_host 10 z s = Span z /\
  from_host 11 z s = Null /\ from_host 12 z s = Obj z /\ from_host 7 z s = Bool (negb (z =? 0)).
Proof. exact typed_access. Qed.

(* indexed writes past the end grow the array with nulls; inside, they replace exactly one element *)
Theorem C20_indexed_write_grows_with_nulls : forall l i x j, nth_error (set_nth l i x) j =
  if Nat.eqb j i then Some x else if Nat.ltb j (length l) then nth_error l j else if Nat.ltb j i then Some Null else None.
Proof. exact set_nth_spec. Qed.

(* equality is symmetric for all values (arrays of any nesting included) and reflexive for NaN-free values:
   a clone (the same value) equals its original *)
Theorem C20_equality_is_symmetric : forall n a b, (vsize a < n)%nat -> equals a b = equals b a.
Proof. exact equals_sym. Qed.
Theorem C20_clone_equals_original : forall n a, (vsize a < n)%nat -> nan_free a = true -> equals a a = true.
Proof. exact equals_refl. Qed.

(* own copy: after v[i] was built from the caller's list, NO sequence of writes, appends and truncations of the
   caller's lists changes it *)
Theorem C20_own_copy_of_the_list : forall m i k ops, Forall (fun o => list_op o = true) ops ->
  reg (fold_left step ops (step m (OFromList i k))) i = reg (step m (OFromList i k)) i.
Proof. exact own_copy. Qed.

(* mutating a clone (or anything else) never changes the original: every operation sequence that does not target v[i] leaves it unchanged *)
Theorem C20_mutating_a_clone_never_changes_the_original : forall m c i ops, c <> i -> Forall (fun o => target o <> Some i) ops ->
  reg (fold_left step ops (step m (OCopy c i))) i = reg m i.
Proof. exact clone_isolated. Qed.

Example C20_nonvacuous :
  let m0 := {| regs := [Null; Null]; lists := [[Int 1; Int 2]] |} in
  let m := fold_left step [OFromList 0 0; OListWrite 0 0 (Int 9); OCopy 1 0; OSetByIndex 1 3 (Str [97]); OListAppend 0 (Int 5)] m0 in
  reg m 0 = Arr [Int 1; Int 2] /\ reg m 1 = Arr [Int 1; Int 2; Null; Str [97]] /\ equals (reg m 0) (reg m 1) = false.
Proof. vm_compute. repeat split. Qed.

Print Assumptions C20_typed_access.
Print Assumptions C20_indexed_write_grows_with_nulls.
Print Assumptions C20_equality_is_symmetric.
Print Assumptions C20_clone_equals_original.
Print Assumptions C20_own_copy_of_the_list.
Print Assumptions C20_mutating_a_clone_never_changes_the_original.
