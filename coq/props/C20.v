(* C20 — Variants hold what they were given: typed access, copies and equality.
   Two layers.  The VALUE machine is what the property describes: a variant register holds a value, a list held by a
   variant is its own.  The HEAP machine (VariantHeap.v) is what Variant.go does: variant objects at addresses, a list
   held as a slice (backing array, length, spare capacity), append that writes into spare capacity or reallocates with an
   unspecified amount of slack, constructors that allocate or write in place, Assign that shares the slice.  The first
   group of theorems is about the value machine; the second shows that the heap machine, for every amount of slack and
   every history that keeps the discipline of DESIGN.md 4.3 (a handle that shares its list through Assign is not written
   in place), IS the value machine when read as values - so the first group holds of it.  The correspondence runs the
   heap machine (with the slack measured from the Go runtime) against Variant.go, histories that break the discipline
   included. *)
From Coq Require Import List ZArith Bool Lia.
Import ListNotations.
Require Import VariantValue VariantValueProofs VariantHeap VariantHeapProofs RunC20 VariantHeapRun.
Open Scope Z_scope.

Theorem C20_typed_access : forall z s,
  from_host 0 z s = Int z /\ from_host 1 z s = Int z /\ from_host 2 z s = Long z /\ from_host 3 z s = Long z /\ from_host 4 z s = Long z /\
  from_host 5 z s = Flt z /\ from_host 6 z s = Dbl z /\ from_host 8 z s = Str s /\ from_host 9 z s = Time z /\ from_host 10 z s = Span z /\
  from_host 11 z s = Null /\ from_host 12 z s = Obj z /\ from_host 7 z s = Bool (negb (z =? 0)).
Proof. exact typed_access. Qed.

(* indexed writes past the end grow the array with nulls; inside, they replace exactly one element *)
Theorem C20_indexed_write_grows_with_nulls : forall l i x j, nth_error (set_nth l i x) j =
  if Nat.eqb j i then Some x else if Nat.ltb j (length l) then nth_error l j else if Nat.ltb j i then Some Null else None.
Proof. exact set_nth_spec. Qed.

(* equality is symmetric for all values (arrays of any nesting included) and reflexive for NaN-free values:
   a clone (the same value) equals its original *)
Theorem C20_equality_is_symmetric : forall n a b, (vsize a < n)%nat -> equals a b = equals b a.
Proof. exact equals_sym. Qed.
Theorem C20_clone_equals_original : forall n a, (vsize a < n)%nat -> nan_free a = true -> equals a a = true.
Proof. exact equals_refl. Qed.

(* own copy: after v[i] was built from the caller's list, NO sequence of writes, appends and truncations of the
   caller's lists changes it *)
Theorem C20_own_copy_of_the_list : forall m i k ops, Forall (fun o => list_op o = true) ops ->
  reg (fold_left step ops (step m (OFromList i k))) i = reg (step m (OFromList i k)) i.
Proof. exact own_copy. Qed.

(* mutating a clone (or anything else) never changes the original: every operation sequence that does not target v[i] leaves it unchanged *)
Theorem C20_mutating_a_clone_never_changes_the_original : forall m c i ops, c <> i -> Forall (fun o => target o <> Some i) ops ->
  reg (fold_left step ops (step m (OCopy c i))) i = reg m i.
Proof. exact clone_isolated. Qed.

(* ---- the heap machine ---- *)
(* one step: the invariant (separation of backing arrays: registers from caller lists, registers from each other unless
   linked by Assign, caller lists from each other) and the abstraction are kept by every allowed operation *)
Theorem C20_heap_step_refines_value_step : forall slack m lk v o,
  inv m lk -> rel m v -> allowed (length (hregs m)) (length (hlists m)) lk o = true ->
  inv (hstep slack m o) (lk_next lk o) /\ rel (hstep slack m o) (step v (erase o)).
Proof. exact hstep_refines. Qed.

(* histories: from nr empty variants and any caller lists (backing array + length), after every disciplined history the
   heap machine read as values is the value machine - for every amount of spare capacity append may leave *)
Theorem C20_heap_machine_is_the_value_machine : forall slack ops nr ls,
  Forall (fun p : list val * nat => (snd p <= length (fst p))%nat) ls ->
  disc nr (length ls) (fun _ => false) ops = true ->
  abs (fold_left (hstep slack) ops (hinit nr ls)) = fold_left step (map erase ops) (vinit nr ls).
Proof. exact heap_history_is_value_history. Qed.

(* what the correspondence executes: the observations of the heap run are those of the value run *)
Theorem C20_heap_run_is_value_run : forall slack ops, disc 4 2 (fun _ => false) ops = true ->
  hrun20 slack (hinit 4 lists20) ops = run20 (vinit 4 lists20) (map erase ops).
Proof. exact heap_model_is_value_model. Qed.
Theorem C20_heap_decoder_agrees : forall s, erase (dec_hop s) = dec_op20 s.
Proof. exact dec_hop_erase. Qed.

(* the two history statements of the property, on the heap *)
Theorem C20_heap_mutating_a_clone_never_changes_the_original : forall slack nr ls pre c i fl ops,
  Forall (fun p : list val * nat => (snd p <= length (fst p))%nat) ls ->
  c <> i -> Forall (fun o => target (erase o) <> Some i) ops ->
  disc nr (length ls) (fun _ => false) (pre ++ HCopy c i fl :: ops) = true ->
  reg (abs (fold_left (hstep slack) (pre ++ HCopy c i fl :: ops) (hinit nr ls))) i = reg (abs (fold_left (hstep slack) pre (hinit nr ls))) i.
Proof. exact heap_clone_isolated. Qed.
Theorem C20_heap_own_copy_of_the_list : forall slack nr ls pre i k inplace ops,
  Forall (fun p : list val * nat => (snd p <= length (fst p))%nat) ls ->
  Forall (fun o => list_op (erase o) = true) ops ->
  disc nr (length ls) (fun _ => false) (pre ++ HFromList i k inplace :: ops) = true ->
  reg (abs (fold_left (hstep slack) (pre ++ HFromList i k inplace :: ops) (hinit nr ls))) i =
  reg (abs (fold_left (hstep slack) (pre ++ [HFromList i k inplace]) (hinit nr ls))) i.
Proof. exact heap_own_copy. Qed.

(* the premise is satisfiable by a history that uses every operation, and it is needed: without the discipline the two
   machines differ *)
Example C20_heap_premise_satisfiable :
  disc 4 2 (fun _ => false)
    [HListAppend 0 (Int 1); HListAppend 0 (Int 2); HFromList 0 0 false; HCopy 1 0 2; HListWrite 0 0 (Int 9); HCopy 2 0 0;
     HSetByIndex 2 5 (Str [97]); HNew 1 (Int 3) true; HSetLength 2 9; HListTruncate 0; HListAppend 0 (Int 4); HSetElem 2 3 (Int 8)] = true.
Proof. exact disciplined_sample. Qed.
Example C20_heap_discipline_is_needed :
  let ops := [HListAppend 0 (Int 1); HFromList 0 0 false; HCopy 1 0 2; HSetByIndex 0 0 (Int 7)] in
  disc 4 2 (fun _ => false) ops = false /\
  hrun20 (fun _ => O) (hinit 4 lists20) ops <> run20 (vinit 4 lists20) (map erase ops).
Proof. exact undisciplined_history_differs. Qed.

Example C20_nonvacuous :
  let m0 := {| regs := [Null; Null]; lists := [[Int 1; Int 2]] |} in
  let m := fold_left step [OFromList 0 0; OListWrite 0 0 (Int 9); OCopy 1 0; OSetByIndex 1 3 (Str [97]); OListAppend 0 (Int 5)] m0 in
  reg m 0 = Arr [Int 1; Int 2] /\ reg m 1 = Arr [Int 1; Int 2; Null; Str [97]] /\ equals (reg m 0) (reg m 1) = false.
Proof. vm_compute. repeat split. Qed.

Print Assumptions C20_typed_access.
Print Assumptions C20_indexed_write_grows_with_nulls.
Print Assumptions C20_equality_is_symmetric.
Print Assumptions C20_clone_equals_original.
Print Assumptions C20_own_copy_of_the_list.
Print Assumptions C20_mutating_a_clone_never_changes_the_original.
Print Assumptions C20_heap_step_refines_value_step.
Print Assumptions C20_heap_machine_is_the_value_machine.
Print Assumptions C20_heap_run_is_value_run.
Print Assumptions C20_heap_decoder_agrees.
Print Assumptions C20_heap_mutating_a_clone_never_changes_the_original.
Print Assumptions C20_heap_own_copy_of_the_list.

(* State space: the objects this property's model stands for have exactly the fields the model accounts for (StateSpace.v;
   gen/StateSpaceGen.v is regenerated from the Go sources on every run). A new field - a cache, a memo, a counter - is state
   the model does not have, so the theorems above would no longer be about the object. *)
From Coq Require Import String.
Require Import StateSpaceGen StateSpace.
Open Scope string_scope.
Theorem C20_state_space :
  fields_of "variants.Variant" = fields ["typ"; "value"].
Proof. vm_compute. repeat split; reflexivity. Qed.
Print Assumptions C20_state_space.
