(* C06 — Variant operators implement the arithmetic of the first operand's type.
   H : hf is the host's floating point (an arbitrary record of operations); convert is the manager's Convert.
   The operator definitions (Variant.v) ARE the shape the property describes: every binary operator is
     arith a b f = if a or b is Null then Null else convert b (type a) >>= f a       (f = the host operation of type a),
   with =, <> and NOT handling Null themselves.  Proved below: Null propagation through all 17 such operators at once,
   totality (no failed type assertion) for a well-typed manager, the undefined operations are errors, list
   semantics of indexing, and mutual consistency of the comparisons.  Host-level facts about IEEE arithmetic are
   not re-proved: the executable instance is Coq's SpecFloat and is compared with Go on the boundary matrix. *)
From Coq Require Import List ZArith Bool Lia.
Import ListNotations.
Require Import Variant VariantProofs.
Open Scope Z_scope.

Section C06.
  Variable H : hf.
  Variable convert : value H -> vtype -> outcome (value H).

  Theorem C06_null_propagates : forall a b, is_null H a = true \/ is_null H b = true ->
    add H convert a b = Ok (VNull H) /\ sub H convert a b = Ok (VNull H) /\ mul H convert a b = Ok (VNull H) /\
    div H convert a b = Ok (VNull H) /\ modulo H convert a b = Ok (VNull H) /\ pow H convert a b = Ok (VNull H) /\
    and_ H convert a b = Ok (VNull H) /\ or_ H convert a b = Ok (VNull H) /\ xor_ H convert a b = Ok (VNull H) /\
    lsh H convert a b = Ok (VNull H) /\ rsh H convert a b = Ok (VNull H) /\ less H convert a b = Ok (VNull H) /\
    more H convert a b = Ok (VNull H) /\ less_equal H convert a b = Ok (VNull H) /\ more_equal H convert a b = Ok (VNull H) /\
    in_ H convert a b = Ok (VNull H) /\ get_element H convert a b = Ok (VNull H).
  Proof. exact (null_propagates H convert). Qed.

  Theorem C06_not_and_negative_of_null : negative H (VNull H) = Ok (VNull H) /\ not_ H (VNull H) = Ok (VBool H true).
  Proof. exact (negative_null H). Qed.

  Hypothesis Hwt : well_typed H convert.                                  (* proved for both managers: C07 *)
  Hypothesis Hnp : forall v t, convert v t <> Panic.
  Hypothesis Hid : forall v, convert v (type_of H v) = Ok v.              (* both managers return the value itself *)

  Theorem C06_add_never_fails_a_type_assertion : forall a b, type_of H a <> TObject -> add H convert a b <> Panic.
  Proof. exact (add_no_panic H convert Hwt Hnp). Qed.

  Theorem C06_division_by_zero_is_an_error : forall x,
    div H convert (VInt H x) (VInt H 0) = Err div_err /\ modulo H convert (VLong H x) (VLong H 0) = Err div_err.
  Proof. exact (div_by_zero_is_error H convert Hid). Qed.

  Theorem C06_negative_shift_is_an_error : forall x n, n < 0 ->
    lsh H convert (VInt H x) (VInt H n) = Err shift_err /\ rsh H convert (VLong H x) (VInt H n) = Err shift_err.
  Proof. exact (negative_shift_is_error H convert Hid). Qed.

  Theorem C06_index_out_of_range_is_an_error : forall l i, (i < 0 \/ Z.of_nat (length l) <= i) ->
    get_element H convert (VArray H l) (VInt H i) = Err index_err.
  Proof. exact (index_out_of_range_is_error H convert Hid). Qed.

  Theorem C06_indexing_is_list_indexing : forall l i e, nth_error l i = Some e ->
    get_element H convert (VArray H l) (VInt H (Z.of_nat i)) = Ok e.
  Proof. exact (element_is_nth H convert Hid). Qed.

  Theorem C06_integer_comparisons_are_consistent : forall x y,
    less H convert (VInt H x) (VInt H y) = more H convert (VInt H y) (VInt H x) /\
    less_equal H convert (VInt H x) (VInt H y) = Ok (VBool H ((x <? y) || (x =? y))) /\
    not_equal H convert (VInt H x) (VInt H y) = Ok (VBool H (negb (x =? y))) /\
    equal H convert (VInt H x) (VInt H y) = Ok (VBool H (x =? y)).
  Proof. exact (int_cmp_consistent H convert Hid). Qed.
End C06.

Print Assumptions C06_null_propagates.
Print Assumptions C06_not_and_negative_of_null.
Print Assumptions C06_add_never_fails_a_type_assertion.
Print Assumptions C06_division_by_zero_is_an_error.
Print Assumptions C06_negative_shift_is_an_error.
Print Assumptions C06_index_out_of_range_is_an_error.
Print Assumptions C06_indexing_is_list_indexing.
Print Assumptions C06_integer_comparisons_are_consistent.

(* the premises Hwt, Hnp, Hid are met by both managers, whatever the host oracles are *)
Theorem C06_premises_hold_for_both_managers :
  forall (H : hf) int_to_string string_to_int string_to_int_fallback f32_to_string f64_to_string string_to_f32 string_to_f64
         string_to_bool string_to_time string_to_span time_to_string obj_to_string arr_to_string,
  let unsafe := convert_unsafe H int_to_string string_to_int string_to_int_fallback f32_to_string f64_to_string string_to_f32 string_to_f64
                               string_to_bool string_to_time string_to_span time_to_string obj_to_string arr_to_string in
  (well_typed H unsafe /\ well_typed H (convert_safe H)) /\
  (forall v t, unsafe v t <> Panic /\ convert_safe H v t <> Panic) /\
  (forall v, unsafe v (type_of H v) = Ok v /\ convert_safe H v (type_of H v) = Ok v).
Proof.
  intros. split; [split; [apply unsafe_well_typed|apply safe_well_typed]|]. split.
  - exact (managers_never_panic H int_to_string string_to_int string_to_int_fallback f32_to_string f64_to_string string_to_f32 string_to_f64 string_to_bool string_to_time string_to_span time_to_string obj_to_string arr_to_string).
  - exact (managers_identity H int_to_string string_to_int string_to_int_fallback f32_to_string f64_to_string string_to_f32 string_to_f64 string_to_bool string_to_time string_to_span time_to_string obj_to_string arr_to_string).
Qed.
Print Assumptions C06_premises_hold_for_both_managers.

(* State space: the objects this property's model stands for have exactly the fields the model accounts for (StateSpace.v;
   gen/StateSpaceGen.v is regenerated from the Go sources on every run). A new field - a cache, a memo, a counter - is state
   the model does not have, so the theorems above would no longer be about the object. *)
From Coq Require Import String.
Require Import StateSpaceGen StateSpace.
Open Scope string_scope.
Theorem C06_state_space :
  fields_of "variants.Variant" = fields ["typ"; "value"] /\
  fields_of "variants.AbstractVariantOperations" = fields ["Overrides"] /\
  fields_of "variants.TypeUnsafeVariantOperations" = fields ["embedded *AbstractVariantOperations"] /\
  fields_of "variants.TypeSafeVariantOperations" = fields ["embedded *AbstractVariantOperations"].
Proof. vm_compute. repeat split; reflexivity. Qed.
Print Assumptions C06_state_space.
