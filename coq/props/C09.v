(* C09 — CSV text round-trips through the tokenizer for any table and configuration.
   FULL STATEMENT, proved (C09_csv_roundtrip): for every valid configuration (separators and quote symbols in
   [0, U+FFFE], none a CR or LF, no separator a quote), every table (one or more rows of one or more fields), every way
   of writing each field - raw when all its characters are plain (in range, no separator, quote, CR, LF), or
   quote-encoded with any configured quote - every separator per gap and each of the four line endings LF, CR, CRLF,
   LFCR:   csv_read seps quotes (write_table eol t) = Some (table_fields t)
   where csv_read = the CSV tokenizer with string decoding on, regrouped into rows and fields (Csv.v).
   Also proved, for EVERY configuration: what the character table and the word characters of the CSV tokenizer are for
   every character (from the C17 theorem), that the configuration is well-formed, lossless, never fails, and that
   decoding never re-segments; and the read-back of a quoted field (C14). *)
From Coq Require Import List ZArith Bool Lia.
Import ListNotations.
Require Import Base Cursor Tokenizer Instances TokModel TokModelProofs Quote QuoteProofs Csv CsvConfig CsvRoundtrip CsvObject CsvObjectProofs CsvObjectRoundtrip.
Open Scope Z_scope.

Theorem C09_csv_roundtrip : forall seps quotes : list Z,
  valid_chars seps -> valid_chars quotes -> Forall (fun s => mem s quotes = false) seps ->
  forall (eol : Base.str) (t : table), eol_ok eol -> table_ok seps quotes t -> wf_str (write_table eol t) ->
  csv_read seps quotes (write_table eol t) = Some (table_fields t).
Proof. exact csv_roundtrip. Qed.

(* the character table and the word characters of the CSV tokenizer, for every character and configuration *)
Theorem C09_csv_character_table : forall seps quotes, valid_chars seps -> valid_chars quotes ->
  (forall c, Instances.table (csv_cfg seps quotes) c = csv_kind seps quotes c) /\
  (forall c, Instances.wordchar (csv_cfg seps quotes) c = csv_plain seps quotes c).
Proof. intros seps quotes Hs Hq. exact (conj (csv_table_is seps quotes Hs Hq) (csv_wordchar_is seps quotes Hs Hq)). Qed.

(* non-vacuity: a table with quoted separators, line breaks, doubled quotes, empty and non-ASCII fields meets the premises *)
Example C09_premises_satisfiable :
  let t : table := (((Raw, [97]), [(44, (Enc 34, [98; 44; 10; 34; 99])); (59, (Raw, []))]),
                    [((Raw, []), [(44, (Enc 39, [34]))]); ((Raw, [233]), [])]) in
  valid_chars [44; 59] /\ valid_chars [34; 39] /\ Forall (fun s => mem s [34; 39] = false) [44; 59] /\ eol_ok [13; 10] /\
  table_ok [44; 59] [34; 39] t /\ wf_str (write_table [13; 10] t) /\
  table_fields t = [[[97]; [98; 44; 10; 34; 99]; []]; [[]; [34]]; [[233]]].
Proof.
  cbv zeta. repeat split; try (repeat constructor; cbn; try lia; try discriminate; fail); try (right; right; left; reflexivity).
  all: try (unfold wf_str; cbn; repeat (constructor; [lia|]); constructor).
  all: repeat constructor; try reflexivity.
Qed.

Theorem C09_csv_configuration_well_formed : forall seps quotes,
  Instances.cfg_ok (csv_cfg seps quotes) /\ Instances.types_ok (csv_cfg seps quotes).
Proof. exact csv_cfg_ok. Qed.

Theorem C09_csv_tokenization_lossless : forall seps quotes (s : Base.str), wf_str s ->
  exists body e, tokenize_with (TCsv seps quotes) no_options s = Tokenizer.Ok (body ++ [e]) /\
                 concat (map value (body ++ [e])) = s /\ ty e = Eof /\ value e = [] /\ Forall (fun t => value t <> []) body.
Proof. intros seps quotes. exact (tokenize_lossless (TCsv seps quotes)). Qed.

Theorem C09_decoding_never_resegments : forall seps quotes o (s : Base.str), wf_str s ->
  exists rs cend, raw_with (TCsv seps quotes) s = Some (rs, cend) /\
                  tokenize_with (TCsv seps quotes) o s = Tokenizer.Ok (post decode_doubled o Unknown rs (plcf cend)).
Proof. intros seps quotes. exact (tokenize_options_are_post (TCsv seps quotes)). Qed.

Theorem C09_quoted_field_reads_back : forall (q : Z) (field rest : Quote.str), hd 0 rest <> q \/ rest = [] ->
  quote_next (encode q field ++ rest) = (encode q field, rest) /\ decode q (fst (quote_next (encode q field ++ rest))) = Quote.Ok field.
Proof. intros q f rest H. split; [exact (read_back q f rest H) | exact (read_back_decodes q f rest H)]. Qed.

(* non-vacuity / the four line endings: each is one end-of-line token; separators and line breaks inside quoted
   fields are data; a doubled quote decodes to one quote; empty fields stay empty *)
Example C09_nonvacuous :
  csv_read [44; 59] [34; 39] [97; 44; 34; 98; 44; 10; 34; 34; 99; 34; 59; 13; 10; 44; 39; 34; 39; 10; 13; 233; 13; 120; 10; 121]
  = Some [[[97]; [98; 44; 10; 34; 99]; []]; [[]; [34]]; [[233]]; [[120]]; [[121]]].
Proof. vm_compute. reflexivity. Qed.

(* ---- the tokenizer as an OBJECT: whatever sequence of SetFieldSeparators / SetQuoteSymbols calls it went through
        (accepted or refused: a refused call leaves it as it was), its configuration is a valid one, so the round trip
        holds for every CSV tokenizer object a program can build through the API ---- *)
Theorem C09_every_reachable_configuration_is_valid : forall ops, Forall in_range ops -> cfg_valid (fold_left cstep ops cinit).
Proof. exact reachable_configurations_are_valid. Qed.
Theorem C09_refused_setter_call_leaves_no_trace : forall o op,
  (match op with SetSeps l => accepted l (o_quotes o) | SetQuotes l => accepted l (o_seps o) end) = false -> cstep o op = o.
Proof. exact refused_call_leaves_no_trace. Qed.
Theorem C09_csv_roundtrip_for_every_object : forall ops eol t, Forall in_range ops ->
  let o := fold_left cstep ops cinit in
  eol_ok eol -> table_ok (o_seps o) (o_quotes o) t -> wf_str (write_table eol t) ->
  csv_read (o_seps o) (o_quotes o) (write_table eol t) = Some (table_fields t).
Proof. exact csv_roundtrip_for_every_object. Qed.
Example C09_object_history :
  fold_left cstep [SetSeps [59; 44]; SetQuotes [39]; SetSeps [39]; SetQuotes [13]; SetSeps [124]; SetQuotes [44; 34]] cinit
  = {| o_seps := [124]; o_quotes := [44; 34] |}.
Proof. exact object_history. Qed.

Print Assumptions C09_csv_roundtrip.
Print Assumptions C09_every_reachable_configuration_is_valid.
Print Assumptions C09_refused_setter_call_leaves_no_trace.
Print Assumptions C09_csv_roundtrip_for_every_object.
Print Assumptions C09_csv_character_table.
Print Assumptions C09_csv_configuration_well_formed.
Print Assumptions C09_csv_tokenization_lossless.
Print Assumptions C09_decoding_never_resegments.
Print Assumptions C09_quoted_field_reads_back.

(* State space: the objects this property's model stands for have exactly the fields the model accounts for (StateSpace.v;
   gen/StateSpaceGen.v is regenerated from the Go sources on every run). A new field - a cache, a memo, a counter - is state
   the model does not have, so the theorems above would no longer be about the object. *)
From Coq Require Import String.
Require Import StateSpaceGen StateSpace.
Open Scope string_scope.
Theorem C09_state_space :
  fields_of "csv.CsvTokenizer" = fields ["embedded *tokenizers.AbstractTokenizer"; "fieldSeparators"; "quoteSymbols"; "endOfLine"] /\
  fields_of "csv.CsvWordState" = fields ["embedded *generic.GenericWordState"] /\
  fields_of "csv.CsvQuoteState" = fields [] /\
  fields_of "csv.CsvSymbolState" = fields ["embedded *generic.GenericSymbolState"] /\
  fields_of "tokenizers.AbstractTokenizer" = fields ["Overrides"; "mp"; "skipUnknown"; "skipWhitespaces"; "skipComments"; "skipEof"; "mergeWhitespaces"; "unifyNumbers"; "decodeStrings"; "commentState"; "numberState"; "quoteState"; "symbolState"; "whitespaceState"; "wordState"; "Scanner"; "NextTokenValue"; "LastTokenType"] /\
  fields_of "io.StringScanner" = fields ["content"; "position"; "line"; "column"].
Proof. vm_compute. repeat split; reflexivity. Qed.
Print Assumptions C09_state_space.
