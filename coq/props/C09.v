(* C09 — CSV text round-trips through the tokenizer for any table and configuration.
   FULL STATEMENT (not proved as one theorem): for every valid configuration (separators, quotes), every non-empty
   table of fields over characters <= U+FFFE, every choice of raw / quote-encoded writing (raw only when the field has
   no separator, quote, CR, LF), separator per gap and line ending in {LF, CR, CRLF, LFCR}:
     csv_read seps quotes (write ...) = Some table.
   Proved here (the ingredients, marked _partial) - for EVERY separator and quote configuration:
   the CSV tokenizer configuration is well-formed, tokenization is lossless and never fails, decoding is a
   post-processing that never re-segments, and a quote-encoded field placed in a stream is read back as exactly one
   token that decodes to the field (C14).  The composed statement is decided on generated tables by correspondence
   of the complete token list with the tokenizer model and by the direct oracle (regrouped tokens = table). *)
From Coq Require Import List ZArith Bool Lia.
Import ListNotations.
Require Import Base Cursor Tokenizer Instances TokModel TokModelProofs Quote QuoteProofs Csv.
Open Scope Z_scope.

Theorem C09_csv_configuration_well_formed_partial : forall seps quotes,
  Instances.cfg_ok (csv_cfg seps quotes) /\ Instances.types_ok (csv_cfg seps quotes).
Proof. exact csv_cfg_ok. Qed.

Theorem C09_csv_tokenization_lossless_partial : forall seps quotes (s : Base.str), wf_str s ->
  exists body e, tokenize_with (TCsv seps quotes) no_options s = Tokenizer.Ok (body ++ [e]) /\
                 concat (map value (body ++ [e])) = s /\ ty e = Eof /\ value e = [] /\ Forall (fun t => value t <> []) body.
Proof. intros seps quotes. exact (tokenize_lossless (TCsv seps quotes)). Qed.

Theorem C09_decoding_never_resegments_partial : forall seps quotes o (s : Base.str), wf_str s ->
  exists rs cend, raw_with (TCsv seps quotes) s = Some (rs, cend) /\
                  tokenize_with (TCsv seps quotes) o s = Tokenizer.Ok (post decode_doubled o Unknown rs (plcf cend)).
Proof. intros seps quotes. exact (tokenize_options_are_post (TCsv seps quotes)). Qed.

Theorem C09_quoted_field_reads_back_partial : forall (q : Z) (field rest : Quote.str), hd 0 rest <> q \/ rest = [] ->
  quote_next (encode q field ++ rest) = (encode q field, rest) /\ decode q (fst (quote_next (encode q field ++ rest))) = Quote.Ok field.
Proof. intros q f rest H. split; [exact (read_back q f rest H) | exact (read_back_decodes q f rest H)]. Qed.

(* non-vacuity / the four line endings: each is one end-of-line token; separators and line breaks inside quoted
   fields are data; a doubled quote decodes to one quote; empty fields stay empty *)
Example C09_nonvacuous :
  csv_read [44; 59] [34; 39] [97; 44; 34; 98; 44; 10; 34; 34; 99; 34; 59; 13; 10; 44; 39; 34; 39; 10; 13; 233; 13; 120; 10; 121]
  = Some [[[97]; [98; 44; 10; 34; 99]; []]; [[]; [34]]; [[233]]; [[120]]; [[121]]].
Proof. vm_compute. reflexivity. Qed.

Print Assumptions C09_csv_configuration_well_formed_partial.
Print Assumptions C09_csv_tokenization_lossless_partial.
Print Assumptions C09_decoding_never_resegments_partial.
Print Assumptions C09_quoted_field_reads_back_partial.
