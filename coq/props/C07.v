(* C07 — Variant conversions deliver the requested type and round-trip losslessly. *)
From Coq Require Import List ZArith Bool Lia.
Import ListNotations.
Require Import Sx Variant VariantProofs RunVar HostLaws.
Open Scope Z_scope.

Section C07.
  Variable H : hf.
  Variable int_to_string : Z -> str.  Variable string_to_int : str -> option Z.  Variable string_to_int_fallback : str -> Z.
  Variable f32_to_string : F32 H -> str.  Variable f64_to_string : F64 H -> str.
  Variable string_to_f32 : str -> F32 H.  Variable string_to_f64 : str -> F64 H.
  Variable string_to_bool : str -> bool.  Variable string_to_time : str -> Z.  Variable string_to_span : str -> Z.
  Variable time_to_string : Z -> str.  Variable obj_to_string : Z -> str.
  Variable arr_to_string : list (value H) -> str.

  Notation unsafe := (convert_unsafe H int_to_string string_to_int string_to_int_fallback f32_to_string f64_to_string
                                     string_to_f32 string_to_f64 string_to_bool string_to_time string_to_span time_to_string obj_to_string arr_to_string).
  Notation step2 := (step2 H int_to_string string_to_int string_to_int_fallback f32_to_string f64_to_string
                           string_to_f32 string_to_f64 string_to_bool string_to_time string_to_span time_to_string obj_to_string arr_to_string).

  (* a successful conversion returns a value of exactly the requested type, or the unchanged value when Object
     or its own type was requested - for both managers *)
  Theorem C07_requested_type_unsafe : forall v t w, unsafe v t = Ok w -> type_of H w = t \/ ((t = TObject \/ t = type_of H v) /\ w = v).
  Proof. exact (unsafe_well_typed H int_to_string string_to_int string_to_int_fallback f32_to_string f64_to_string string_to_f32 string_to_f64 string_to_bool string_to_time string_to_span time_to_string obj_to_string arr_to_string). Qed.
  Theorem C07_requested_type_safe : forall v t w, convert_safe H v t = Ok w -> type_of H w = t \/ ((t = TObject \/ t = type_of H v) /\ w = v).
  Proof. exact (safe_well_typed H). Qed.

  (* the type-safe manager permits only the numeric widenings (besides Null, Object and the value's own type) ... *)
  Theorem C07_type_safe_whitelist : forall v t w, convert_safe H v t = Ok w ->
    t = TNull \/ t = TObject \/ t = type_of H v \/
    (type_of H v = TInteger /\ (t = TLong \/ t = TFloat \/ t = TDouble)) \/
    (type_of H v = TLong /\ (t = TFloat \/ t = TDouble)) \/ (type_of H v = TFloat /\ t = TDouble).
  Proof. exact (safe_whitelist H int_to_string string_to_int string_to_int_fallback f32_to_string f64_to_string string_to_f32 string_to_f64 string_to_bool string_to_time string_to_span time_to_string obj_to_string). Qed.
  (* ... and wherever it succeeds it agrees with the type-unsafe manager *)
  Theorem C07_type_safe_agrees_with_unsafe : forall v t w, convert_safe H v t = Ok w -> unsafe v t = Ok w.
  Proof. exact (safe_agrees_unsafe H int_to_string string_to_int string_to_int_fallback f32_to_string f64_to_string string_to_f32 string_to_f64 string_to_bool string_to_time string_to_span time_to_string obj_to_string arr_to_string). Qed.

  (* round trips that need no host law *)
  Theorem C07_integer_long_roundtrip : forall z, step2 (VInt H z) TLong TInteger = Ok (VInt H z) /\ step2 (VLong H z) TInteger TLong = Ok (VLong H z).
  Proof. exact (int_long_roundtrip H int_to_string string_to_int string_to_int_fallback f32_to_string f64_to_string string_to_f32 string_to_f64 string_to_bool string_to_time string_to_span time_to_string obj_to_string arr_to_string). Qed.
  Theorem C07_boolean_integer_roundtrip : forall b, step2 (VBool H b) TInteger TBoolean = Ok (VBool H b) /\ step2 (VBool H b) TLong TBoolean = Ok (VBool H b).
  Proof. exact (bool_int_roundtrip H int_to_string string_to_int string_to_int_fallback f32_to_string f64_to_string string_to_f32 string_to_f64 string_to_bool string_to_time string_to_span time_to_string obj_to_string arr_to_string). Qed.
  Theorem C07_timespan_roundtrip_in_milliseconds : forall z, - two63 <= z * ms < two63 ->
    step2 (VInt H z) TTimeSpan TInteger = Ok (VInt H z) /\ step2 (VLong H z) TTimeSpan TLong = Ok (VLong H z).
  Proof. exact (int_timespan_roundtrip H int_to_string string_to_int string_to_int_fallback f32_to_string f64_to_string string_to_f32 string_to_f64 string_to_bool string_to_time string_to_span time_to_string obj_to_string arr_to_string). Qed.
  Theorem C07_datetime_roundtrip_in_unix_seconds : forall z,
    step2 (VInt H z) TDateTime TInteger = Ok (VInt H z) /\ step2 (VLong H z) TDateTime TLong = Ok (VLong H z).
  Proof. exact (int_datetime_roundtrip H int_to_string string_to_int string_to_int_fallback f32_to_string f64_to_string string_to_f32 string_to_f64 string_to_bool string_to_time string_to_span time_to_string obj_to_string arr_to_string). Qed.

  (* round trips under explicit laws of the host (premises; see the trusted base) *)
  Hypothesis parse_format : forall z, in64 z = true -> string_to_int (int_to_string z) = Some z.
  Hypothesis bool_strings : (string_to_bool [116; 114; 117; 101] = true) /\ (string_to_bool [102; 97; 108; 115; 101] = false).
  Hypothesis trunc_of_int64 : forall z, - 2 ^ 53 <= z <= 2 ^ 53 -> trunc64 H (of_int64 H z) = z.
  Variable ok32 : F32 H -> Prop.   (* the float32 values the host can produce *)
  Hypothesis narrow_widen : forall f, ok32 f -> narrow H (widen H f) = f.
  Hypothesis bool_floats : (eq32 H (one32 H) (zero32 H) = false) /\ (eq32 H (zero32 H) (zero32 H) = true) /\ (eq64 H (one64 H) (zero64 H) = false) /\ (eq64 H (zero64 H) (zero64 H) = true).

  Theorem C07_integer_string_roundtrip : forall z, in64 z = true -> step2 (VInt H z) TString TInteger = Ok (VInt H z) /\ step2 (VLong H z) TString TLong = Ok (VLong H z).
  Proof. exact (int_string_roundtrip H int_to_string string_to_int string_to_int_fallback f32_to_string f64_to_string string_to_f32 string_to_f64 string_to_bool string_to_time string_to_span time_to_string obj_to_string arr_to_string parse_format). Qed.
  Theorem C07_boolean_string_roundtrip : forall b, step2 (VBool H b) TString TBoolean = Ok (VBool H b).
  Proof. exact (bool_string_roundtrip H int_to_string string_to_int string_to_int_fallback f32_to_string f64_to_string string_to_f32 string_to_f64 string_to_bool string_to_time string_to_span time_to_string obj_to_string arr_to_string bool_strings). Qed.
  Theorem C07_integer_double_roundtrip : forall z, - 2 ^ 53 <= z <= 2 ^ 53 ->
    step2 (VInt H z) TDouble TInteger = Ok (VInt H z) /\ step2 (VLong H z) TDouble TLong = Ok (VLong H z).
  Proof. exact (int_double_roundtrip H int_to_string string_to_int string_to_int_fallback f32_to_string f64_to_string string_to_f32 string_to_f64 string_to_bool string_to_time string_to_span time_to_string obj_to_string arr_to_string trunc_of_int64). Qed.
  Theorem C07_float_double_roundtrip : forall f, ok32 f -> step2 (VFloat H f) TDouble TFloat = Ok (VFloat H f).
  Proof. exact (float_double_roundtrip H int_to_string string_to_int string_to_int_fallback f32_to_string f64_to_string string_to_f32 string_to_f64 string_to_bool string_to_time string_to_span time_to_string obj_to_string arr_to_string ok32 narrow_widen). Qed.
  Theorem C07_boolean_float_roundtrip : forall b, step2 (VBool H b) TFloat TBoolean = Ok (VBool H b) /\ step2 (VBool H b) TDouble TBoolean = Ok (VBool H b).
  Proof. exact (bool_float_roundtrip H int_to_string string_to_int string_to_int_fallback f32_to_string f64_to_string string_to_f32 string_to_f64 string_to_bool string_to_time string_to_span time_to_string obj_to_string arr_to_string bool_floats). Qed.
End C07.

(* the host laws that are not assumptions: for the executable instance the correspondence runs, decimal formatting
   and parsing of integers round-trip for every int64 (proved, HostLaws.v) and the floating-point constants behave
   as stated (computed); so these round trips hold outright, whatever the host oracle table says *)
Theorem C07_decimal_format_then_parse_is_identity : forall z, in64 z = true -> string_to_int (int_to_string z) = Some z.
Proof. exact parse_format_instance. Qed.
Theorem C07_integer_string_roundtrip_closed : forall orc z, in64 z = true ->
  bind (cu orc (VInt (HF orc) z) TString) (fun w => cu orc w TInteger) = Ok (VInt (HF orc) z) /\
  bind (cu orc (VLong (HF orc) z) TString) (fun w => cu orc w TLong) = Ok (VLong (HF orc) z).
Proof. exact int_string_roundtrip_instance. Qed.
Theorem C07_boolean_float_roundtrip_closed : forall orc b,
  bind (cu orc (VBool (HF orc) b) TFloat) (fun w => cu orc w TBoolean) = Ok (VBool (HF orc) b) /\
  bind (cu orc (VBool (HF orc) b) TDouble) (fun w => cu orc w TBoolean) = Ok (VBool (HF orc) b).
Proof. exact bool_float_roundtrip_instance. Qed.

Print Assumptions C07_requested_type_unsafe.
Print Assumptions C07_requested_type_safe.
Print Assumptions C07_type_safe_whitelist.
Print Assumptions C07_type_safe_agrees_with_unsafe.
Print Assumptions C07_integer_long_roundtrip.
Print Assumptions C07_boolean_integer_roundtrip.
Print Assumptions C07_timespan_roundtrip_in_milliseconds.
Print Assumptions C07_datetime_roundtrip_in_unix_seconds.
Print Assumptions C07_integer_string_roundtrip.
Print Assumptions C07_boolean_string_roundtrip.
Print Assumptions C07_integer_double_roundtrip.
Print Assumptions C07_float_double_roundtrip.
Print Assumptions C07_boolean_float_roundtrip.
Print Assumptions C07_decimal_format_then_parse_is_identity.
Print Assumptions C07_integer_string_roundtrip_closed.
Print Assumptions C07_boolean_float_roundtrip_closed.

(* State space: the objects this property's model stands for have exactly the fields the model accounts for (StateSpace.v;
   gen/StateSpaceGen.v is regenerated from the Go sources on every run). A new field - a cache, a memo, a counter - is state
   the model does not have, so the theorems above would no longer be about the object. *)
From Coq Require Import String.
Require Import StateSpaceGen StateSpace.
Open Scope string_scope.
Theorem C07_state_space :
  fields_of "variants.Variant" = fields ["typ"; "value"] /\
  fields_of "variants.AbstractVariantOperations" = fields ["Overrides"] /\
  fields_of "variants.TypeUnsafeVariantOperations" = fields ["embedded *AbstractVariantOperations"] /\
  fields_of "variants.TypeSafeVariantOperations" = fields ["embedded *AbstractVariantOperations"].
Proof. vm_compute. repeat split; reflexivity. Qed.
Print Assumptions C07_state_space.
