(* C02 — The parser accepts exactly the expression grammar and rejects everything else.
   Token level: ts is the sequence of expression tokens after lexical completion; D0 is the grammar of
   DESIGN.md 5.2 as a derivation relation indexed by the syntax tree; compile is the post-order. *)
From Coq Require Import List ZArith Bool Lia.
Import ListNotations.
Require Import Base Tokenizer TokModel ExprParser ExprSound ExprComplete ExprTotal ExprLex ExprLexOk ExprString.
Require Tables LexGrammar ExprSpacing.
Open Scope Z_scope.

(* every sentence of the grammar is accepted and compiled to the post-order of its syntax tree *)
Theorem C02_sentences_are_accepted : forall (ts : list tok) (e : expr), D0 ts e -> parse_top ts = Ok (compile e).
Proof. exact parse_top_complete. Qed.

(* whatever is accepted is a sentence, compiled to the post-order of one of its trees: no token is skipped,
   substituted or ignored (the derivation consumes exactly ts) *)
Theorem C02_accepted_are_sentences : forall (ts : list tok) (prog : list rinstr),
  ts <> [] -> parse_top ts = Ok prog -> exists e, D0 ts e /\ prog = compile e.
Proof. exact parse_top_sound. Qed.

(* every other non-empty token sequence is rejected with an error code *)
Theorem C02_everything_else_is_rejected_with_a_code : forall ts : list tok,
  ts <> [] -> (forall e, ~ D0 ts e) -> exists c, parse_top ts = Err c.
Proof. exact parse_top_rejects. Qed.

(* the parser terminates on every token sequence with fuel 20 * (length + 1) *)
Theorem C02_parser_terminates : forall ts : list tok, parse_top ts <> Fuel.
Proof. exact parse_top_total. Qed.

(* the grammar fixes the compiled program: two derivations of one sentence compile alike *)
Theorem C02_grammar_is_unambiguous : forall ts e e', D0 ts e -> D0 ts e' -> compile e = compile e'.
Proof. exact grammar_unambiguous. Qed.

(* lexical completion, on the operator table extracted from the source on this run: every operator and keyword
   of the language (upper-cased) becomes its own token and the table spells nothing else *)
Theorem C02_operator_table_is_the_language : forall s t, In (s, t) spec_operators -> lex_op s = LTok t.
Proof. exact lex_op_spec. Qed.
Theorem C02_operator_table_spells_nothing_else :
  forallb (fun e => existsb (fun s => zs_eqb (fst s) (fst e)) spec_operators) Tables.operator_table = true.
Proof. exact operator_table_sound. Qed.

(* ---- at string level ----
   parse_string = the expression tokenizer with the parser's options (TokModel) + lexical completion (ExprLex) + the
   parser.  A source item is an operator or bracket of the language, a keyword operator in any letter case, an
   identifier, an integer or a quoted string; print writes the items with single blanks.  ParseString of the printed
   text sees exactly the token sequence toks_from 0 items (constants and variables carry their token position), so the
   three theorems above hold of the text. *)
Theorem C02_text_is_parsed_as_its_tokens : forall items, items <> [] -> Forall item_ok items -> wf_str (print items) ->
  parse_string (print items) = Some (parse_top (toks_from 0 items)).
Proof. exact parse_string_of_print. Qed.
Theorem C02_sentences_are_accepted_as_text : forall items e, items <> [] -> Forall item_ok items -> wf_str (print items) ->
  D0 (toks_from 0 items) e -> parse_string (print items) = Some (ExprParser.Ok (compile e)).
Proof. exact sentences_are_accepted_as_text. Qed.
Theorem C02_non_sentences_are_rejected_as_text : forall items, items <> [] -> Forall item_ok items -> wf_str (print items) ->
  (forall e, ~ D0 (toks_from 0 items) e) -> exists c, parse_string (print items) = Some (ExprParser.Err c).
Proof. exact non_sentences_are_rejected_as_text. Qed.
(* ... and with ANY spacing: between two items stand whitespace runs and block comments (gi pairs every item with the
   fillers that follow it), or nothing where the grammar relation of C13 says the neighbours cannot merge *)
Theorem C02_spaced_text_is_parsed_as_its_tokens : forall gi, gi <> [] -> ExprSpacing.gi_ok gi ->
  LexGrammar.lexemes TokModel.expr_cfg (TokModel.regs_of Tables.expr_symbols) (ExprSpacing.glexs gi) -> wf_str (concat (map snd (ExprSpacing.glexs gi))) ->
  parse_string (concat (map snd (ExprSpacing.glexs gi))) = Some (parse_top (ExprSpacing.toks_at 0 gi)).
Proof. exact ExprSpacing.parse_string_spaced. Qed.
Theorem C02_spaced_sentences_are_accepted : forall gi e, gi <> [] -> ExprSpacing.gi_ok gi ->
  LexGrammar.lexemes TokModel.expr_cfg (TokModel.regs_of Tables.expr_symbols) (ExprSpacing.glexs gi) -> wf_str (concat (map snd (ExprSpacing.glexs gi))) ->
  D0 (ExprSpacing.toks_at 0 gi) e -> parse_string (concat (map snd (ExprSpacing.glexs gi))) = Some (ExprParser.Ok (compile e)).
Proof. exact ExprSpacing.spaced_sentences_are_accepted. Qed.
Theorem C02_spaced_non_sentences_are_rejected : forall gi, gi <> [] -> ExprSpacing.gi_ok gi ->
  LexGrammar.lexemes TokModel.expr_cfg (TokModel.regs_of Tables.expr_symbols) (ExprSpacing.glexs gi) -> wf_str (concat (map snd (ExprSpacing.glexs gi))) ->
  (forall e, ~ D0 (ExprSpacing.toks_at 0 gi) e) -> exists c, parse_string (concat (map snd (ExprSpacing.glexs gi))) = Some (ExprParser.Err c).
Proof. exact ExprSpacing.spaced_non_sentences_are_rejected. Qed.
Example C02_spaced_text_premises_satisfiable :
  ExprSpacing.gi_ok ExprSpacing.spaced_sample /\
  LexGrammar.lexemes TokModel.expr_cfg (TokModel.regs_of Tables.expr_symbols) (ExprSpacing.glexs ExprSpacing.spaced_sample) /\
  wf_str (concat (map snd (ExprSpacing.glexs ExprSpacing.spaced_sample))).
Proof. exact ExprSpacing.spaced_sample_ok. Qed.

(* non-vacuity:  a + 12 * ( b NoT iN 'x''y' )  meets the premises *)
Example C02_text_premises_satisfiable : Forall item_ok sample_items /\ wf_str (print sample_items).
Proof. exact sample_items_ok. Qed.

(* non-vacuity: a sentence with every bracket kind, a call with a trailing comma, postfix tests *)
Example C02_nonvacuous :
  parse_top [TVar 1; TLP; TVar 2; TComma; TRP; TLB; TConst 1; TRB; TIs; TNot; TNull; TAnd; TNot; TLP; TConst 2; TRP; TNot; TIn; TVar 3]
  = Ok [RVar 2; RArgc 1; RFunc 1; RConst 1; RBin OElem; RUn UIsNotNull; RConst 2; RVar 3; RBin ONotIn; RUn UNot; RBin OAnd]
  /\ parse_top [TVar 1; TLB; TConst 1; TRP] = Err EMissBracket /\ parse_top [TVar 1; TVar 2; TNull] = Err EErrorNear.
Proof. vm_compute. repeat split. Qed.

Print Assumptions C02_sentences_are_accepted.
Print Assumptions C02_accepted_are_sentences.
Print Assumptions C02_everything_else_is_rejected_with_a_code.
Print Assumptions C02_parser_terminates.
Print Assumptions C02_grammar_is_unambiguous.
Print Assumptions C02_text_is_parsed_as_its_tokens.
Print Assumptions C02_sentences_are_accepted_as_text.
Print Assumptions C02_non_sentences_are_rejected_as_text.
Print Assumptions C02_spaced_text_is_parsed_as_its_tokens.
Print Assumptions C02_spaced_sentences_are_accepted.
Print Assumptions C02_spaced_non_sentences_are_rejected.
Print Assumptions C02_operator_table_is_the_language.
Print Assumptions C02_operator_table_spells_nothing_else.

(* State space: the objects this property's model stands for have exactly the fields the model accounts for (StateSpace.v;
   gen/StateSpaceGen.v is regenerated from the Go sources on every run). A new field - a cache, a memo, a counter - is state
   the model does not have, so the theorems above would no longer be about the object. *)
From Coq Require Import String.
Require Import StateSpaceGen StateSpace.
Open Scope string_scope.
Theorem C02_state_space :
  fields_of "calculator/parsers.ExpressionParser" = fields ["tokenizer"; "expression"; "originalTokens"; "initialTokens"; "currentTokenIndex"; "variableNames"; "resultTokens"].
Proof. vm_compute. repeat split; reflexivity. Qed.
Print Assumptions C02_state_space.
