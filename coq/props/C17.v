(* C17 — Character-class maps answer with the latest covering registration. *)
From Coq Require Import List ZArith Bool Lia.
Import ListNotations.
Require Import CharMap CharMapProofs.
Open Scope Z_scope.

(* After ANY history of AddInterval / AddDefaultInterval / Clear that does not panic (a history panics only
   on start > end or on a range wholly above U+FFFE), starting from a new map, looking up any character
   0 <= c <= 0xFFFE returns the reference of the most recent registration since the last Clear whose
   (clamped) range contains c - nothing if there is none or that registration carried the empty reference.
   Uniform below and above U+0100 and for ranges spanning the boundary: spec_lookup does not mention 0x100. *)
Theorem C17_lookup_is_latest_covering_registration :
  forall (R : Type) (ops : list (op R)) (m' : cmap R) (c : Z),
    Forall (valid_op R) ops -> run R (empty R) ops = Done R m' -> 0 <= c <= 65534 ->
    lookup R m' c = spec_lookup R ops c.
Proof. exact charmap_from_empty. Qed.

Theorem C17_nothing_below_zero : forall (R : Type) (m : cmap R) (c : Z), c < 0 -> lookup R m c = None.
Proof. exact lookup_outside. Qed.

Theorem C17_nothing_above_fffe : forall (R : Type) (ops : list (op R)) (m' : cmap R) (c : Z),
  run R (empty R) ops = Done R m' -> 65534 < c -> lookup R m' c = None.
Proof. intros R ops m' c H Hc. apply (lookup_above R ops (empty R) m' c); auto. constructor. Qed.

(* non-vacuity: a history spanning the 0x100 boundary, re-registering and disabling ranges *)
Example C17_nonvacuous :
  exists m', run Z (empty Z) [Add Z 97 8192 (Some 1); Add Z 255 257 (Some 2); Add Z 256 256 None; Default Z (Some 3); Clear Z; Add Z 0 65535 (Some 4)] = Done Z m'
    /\ lookup Z m' 300 = Some 4 /\ lookup Z m' 65534 = Some 4 /\ lookup Z m' 65535 = None.
Proof. eexists. vm_compute. repeat split. Qed.

Print Assumptions C17_lookup_is_latest_covering_registration.
Print Assumptions C17_nothing_below_zero.
Print Assumptions C17_nothing_above_fffe.

(* State space: the objects this property's model stands for have exactly the fields the model accounts for (StateSpace.v;
   gen/StateSpaceGen.v is regenerated from the Go sources on every run). A new field - a cache, a memo, a counter - is state
   the model does not have, so the theorems above would no longer be about the object. *)
From Coq Require Import String.
Require Import StateSpaceGen StateSpace.
Open Scope string_scope.
Theorem C17_state_space :
  fields_of "tokenizers/utilities.CharReferenceMap" = fields ["initialInterval"; "otherIntervals"] /\
  fields_of "tokenizers/utilities.CharReferenceInterval" = fields ["start"; "end"; "reference"] /\
  fields_of "tokenizers/generic.GenericWordState" = fields ["mp"] /\
  fields_of "tokenizers/generic.GenericWhitespaceState" = fields ["mp"].
Proof. vm_compute. repeat split; reflexivity. Qed.
Print Assumptions C17_state_space.
