(* C16 — Symbol tables return the longest registered symbol with its own type. *)
From Coq Require Import List ZArith Bool Lia.
Import ListNotations.
Require Import Base Cursor Trie TrieProofs TrieSpec TrieLongest.
Open Scope Z_scope.

(* For ANY list of registrations (non-empty symbols, any token type - Unknown included, which the code once took for
   "not yet registered": F34; any lengths, shared prefixes, any order, repeated registrations) and ANY input with at least one character left, the token returned by the
   symbol state built from them:
   - has as text a non-empty prefix of the remaining input, and exactly that many characters are consumed;
   - its text is a registered symbol or a single character (a proper prefix of a registered symbol that was not
     itself registered is never returned as a multi-character token);
   - no longer registered symbol is a prefix of the remaining input (longest match);
   - its type is the type given by the last registration of that text, or Symbol for an unregistered character. *)
Theorem C16_longest_registered_symbol_with_its_type :
  forall (lc : cur -> Z * Z) (regs : list reg), Forall valid_reg regs ->
  forall s0 : cur, wf_str (content s0) -> (p s0 < clen s0)%nat ->
    let tok := fst (symbol_next lc (build regs) s0) in
    let input := skipn (p s0) (content s0) in
    is_prefix (value tok) input = true /\ value tok <> [] /\
    p (snd (symbol_next lc (build regs) s0)) = (p s0 + length (value tok))%nat /\
    (registered regs (value tok) = true \/ length (value tok) = 1%nat) /\
    (forall q, q <> [] -> registered regs q = true -> is_prefix q input = true -> (length q <= length (value tok))%nat) /\
    ty tok = (if registered regs (value tok) then last_type regs (value tok) else Symbol).
Proof. exact symbol_longest. Qed.

(* the table built from a registration list is characterised denotationally: a path exists iff it is a prefix of
   a registered symbol; it is valid with the last registered type iff registered (single characters implicitly
   valid as Symbol).  Registering further symbols therefore never alters text or type of existing ones:
   node_spec of an already registered path only changes when that very path is registered again. *)
Theorem C16_table_is_its_registrations : forall regs, Forall valid_reg regs -> forall q, node (build regs) q = node_spec regs q.
Proof. exact build_spec. Qed.

Theorem C16_further_registrations_keep_existing_types : forall regs r q,
  registered regs q = true -> str_eqb (fst r) q = false -> last_type (regs ++ [r]) q = last_type regs q.
Proof. intros regs r q _ H. rewrite last_type_app, H. reflexivity. Qed.

(* non-vacuity: shared prefixes, an unregistered proper prefix ("ab" of "abc"), own types *)
Example C16_nonvacuous :
  let regs := [([97; 98; 99], Keyword); ([97], Word); ([98; 98], Eol)] in
  let run i := let '(t, s) := symbol_next (fun _ => (0, 0)) (build regs) {| content := i; p := 0 |} in (ty t, value t, p s) in
  run [97; 98; 100] = (Word, [97], 1%nat) /\ run [97; 98; 99; 100] = (Keyword, [97; 98; 99], 3%nat) /\
  run [98; 97] = (Symbol, [98], 1%nat) /\ run [98; 98] = (Eol, [98; 98], 2%nat).
Proof. vm_compute. repeat split. Qed.

(* a symbol registered with the type Unknown keeps it when longer symbols with the same first character follow *)
Example C16_unknown_is_a_type_like_any_other :
  let regs := [([64], Unknown); ([64; 61], Special); ([64; 64], Word)] in
  let run i := let '(t, s) := symbol_next (fun _ => (0, 0)) (build regs) {| content := i; p := 0 |} in (ty t, value t, p s) in
  Forall valid_reg regs /\ run [64; 97] = (Unknown, [64], 1%nat) /\ run [64; 61] = (Special, [64; 61], 2%nat).
Proof. split; [repeat constructor; discriminate|]. vm_compute. repeat split. Qed.

Print Assumptions C16_longest_registered_symbol_with_its_type.
Print Assumptions C16_table_is_its_registrations.
Print Assumptions C16_further_registrations_keep_existing_types.

(* State space: the objects this property's model stands for have exactly the fields the model accounts for (StateSpace.v;
   gen/StateSpaceGen.v is regenerated from the Go sources on every run). A new field - a cache, a memo, a counter - is state
   the model does not have, so the theorems above would no longer be about the object. *)
From Coq Require Import String.
Require Import StateSpaceGen StateSpace.
Open Scope string_scope.
Theorem C16_state_space :
  fields_of "tokenizers/generic.SymbolNode" = fields ["parent"; "character"; "children"; "tokenType"; "valid"; "ancestry"] /\
  fields_of "tokenizers/generic.SymbolRootNode" = fields ["embedded *SymbolNode"] /\
  fields_of "tokenizers/generic.GenericSymbolState" = fields ["symbols"].
Proof. vm_compute. repeat split; reflexivity. Qed.
Print Assumptions C16_state_space.
