(* C15 — Tokenizer options only drop or rewrite whole tokens, never re-segment. *)
From Coq Require Import List ZArith Bool Lia.
Import ListNotations.
Require Import Base Cursor Tokenizer TokModel TokModelProofs PostFacts.
Open Scope Z_scope.

(* For each of the four tokenizers, each of the 128 option combinations and EVERY input: the token stream is `post`
   (a token-by-token filter / rewrite, Tokenizer.v) of the option-free raw stream rs - which does not depend on the
   options at all - followed by the end-of-input rule.  The cut of the text into tokens is therefore option-independent. *)
Theorem C15_options_are_post_processing : forall (k : tkind) (o : options) (s : Base.str), wf_str s ->
  exists rs cend, raw_with k s = Some (rs, cend) /\ tokenize_with k o s = Tokenizer.Ok (post (decode_of k) o Unknown rs (plcf cend)).
Proof. exact tokenize_options_are_post. Qed.

(* the raw stream cuts the input: non-empty values that concatenate to it, no end-of-input token inside *)
Theorem C15_raw_stream_cuts_the_input : forall k s, wf_str s -> forall rs cend, raw_with k s = Some (rs, cend) ->
  concat (map (fun r => value (rtok r)) rs) = s /\ Forall (fun r => value (rtok r) <> [] /\ ty (rtok r) <> Eof) rs.
Proof. exact raw_with_facts. Qed.

(* what each option guarantees about post (for any raw stream rs, any previous token type) *)
Theorem C15_skip_unknown : forall decode o e, skipUnknown o = true -> forall rs last, Forall (fun t => ty t <> Unknown) (post decode o last rs e).
Proof. exact post_no_unknown. Qed.
Theorem C15_skip_comments : forall decode o e, skipComments o = true -> forall rs last, Forall (fun t => ty t <> Comment) (post decode o last rs e).
Proof. exact post_no_comment. Qed.
Theorem C15_skip_eof : forall decode o e, skipEof o = true -> forall rs last, Forall (fun r => ty (rtok r) <> Eof) rs -> Forall (fun t => ty t <> Eof) (post decode o last rs e).
Proof. exact post_no_eof. Qed.
Theorem C15_skip_whitespaces : forall decode o e, skipWhitespaces o = true -> forall rs last, no_adjacent_ws last (post decode o last rs e).
Proof. exact post_no_adjacent_ws. Qed.
Theorem C15_merge_whitespaces : forall decode o e, mergeWhitespaces o = true -> forall rs last, Forall (fun t => ty t = Whitespace -> value t = [32]) (post decode o last rs e).
Proof. exact post_ws_single. Qed.
Theorem C15_unify_numbers : forall decode o e, unifyNumbers o = true -> forall rs last, Forall (fun t => is_numeric (ty t) = false) (post decode o last rs e).
Proof. exact post_unified. Qed.
(* with every option off the raw tokens are untouched *)
Theorem C15_no_options_untouched : forall decode rs last e, last <> Eof -> Forall (fun r => ty (rtok r) <> Eof) rs ->
  post decode no_options last rs e = map rtok rs ++ [mk Eof [] e].
Proof. intros decode. exact (TokenizerProofs.post_no_options decode). Qed.

(* non-vacuity: skipped comment between whitespace, decoded string, unified number, on the expression tokenizer *)
Example C15_nonvacuous :
  exists ts, tokenize_with TExpr {| skipUnknown := true; skipWhitespaces := true; skipComments := true; skipEof := true;
                                    mergeWhitespaces := true; unifyNumbers := true; decodeStrings := true |}
                           [97; 32; 47; 42; 99; 42; 47; 32; 39; 120; 39; 39; 39; 49; 46; 53] = Tokenizer.Ok ts
  /\ map (fun t => (ty t, value t)) ts = [(Word, [97]); (Whitespace, [32]); (Quoted, [120; 39]); (Number, [49; 46; 53])].
Proof. eexists. split; vm_compute; reflexivity. Qed.

Print Assumptions C15_options_are_post_processing.
Print Assumptions C15_raw_stream_cuts_the_input.
Print Assumptions C15_skip_unknown.
Print Assumptions C15_skip_comments.
Print Assumptions C15_skip_eof.
Print Assumptions C15_skip_whitespaces.
Print Assumptions C15_merge_whitespaces.
Print Assumptions C15_unify_numbers.
Print Assumptions C15_no_options_untouched.

(* State space: the objects this property's model stands for have exactly the fields the model accounts for (StateSpace.v;
   gen/StateSpaceGen.v is regenerated from the Go sources on every run). A new field - a cache, a memo, a counter - is state
   the model does not have, so the theorems above would no longer be about the object. *)
From Coq Require Import String.
Require Import StateSpaceGen StateSpace.
Open Scope string_scope.
Theorem C15_state_space :
  fields_of "tokenizers.AbstractTokenizer" = fields ["Overrides"; "mp"; "skipUnknown"; "skipWhitespaces"; "skipComments"; "skipEof"; "mergeWhitespaces"; "unifyNumbers"; "decodeStrings"; "commentState"; "numberState"; "quoteState"; "symbolState"; "whitespaceState"; "wordState"; "Scanner"; "NextTokenValue"; "LastTokenType"].
Proof. vm_compute. repeat split; reflexivity. Qed.
Print Assumptions C15_state_space.
