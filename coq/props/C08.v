(* C08 — Built-in functions compute what their names denote.
   Generic in the host float record H, the operations manager `convert` and every host function (math1 = the
   elementary / rounding function selected by the calculator code, abs, calendar, clock, random source). *)
From Coq Require Import List ZArith Bool Lia.
Import ListNotations.
Require Import Variant VariantProofs Functions FunctionsProofs RunC08 FunctionTableOk TokModel.
Open Scope Z_scope.

(* the registration table extracted from the source on this run: every name of the property, in any letter case,
   resolves to the calculator that computes what the name denotes *)
Theorem C08_names_resolve : forall n c, In (n, c) spec_functions -> find_fn n = Some c.
Proof. exact find_fn_spec. Qed.
Theorem C08_lookup_ignores_letter_case : forall n, find_fn (upper n) = find_fn n.
Proof. exact find_fn_any_case. Qed.

Section C08.
  Variable H : hf.
  Variable convert : value H -> vtype -> outcome (value H).
  Variable math1 : Z -> F64 H -> F64 H.
  Variable abs32 : F32 H -> F32 H.  Variable abs64 : F64 H -> F64 H.
  Variable make_date : list Z -> Z.  Variable weekday : Z -> Z.
  Variable now_ticks : Z.  Variable now_ns : Z.  Variable rnd32 : F32 H.
  Variable const_e : F32 H.  Variable const_pi : F32 H.
  Notation call := (delegated H convert math1 abs32 abs64 make_date weekday now_ticks now_ns rnd32 const_e const_pi).

  (* a failing function is an error, never a crash (and, by the shape of the outcome type, never "no result, no error") *)
  Theorem C08_failures_are_errors : forall code ps, call code ps <> Panic.
  Proof. exact (delegated_never_panics H convert math1 abs32 abs64 make_date weekday now_ticks now_ns rnd32 const_e const_pi). Qed.

  Theorem C08_wrong_argument_count_is_an_error : forall code n ps, fixed_arity code = Some n -> length ps <> n -> call code ps = Err param_err.
  Proof. exact (wrong_count_is_error H convert math1 abs32 abs64 make_date weekday now_ticks now_ns rnd32 const_e const_pi). Qed.
  Theorem C08_too_few_arguments_is_an_error : forall code ps, (code = 6 \/ code = 7 \/ code = 8) -> (length ps < 2)%nat -> call code ps = Err param_err.
  Proof. exact (too_few_is_error H convert math1 abs32 abs64 make_date weekday now_ticks now_ns rnd32 const_e const_pi). Qed.

  Theorem C08_if_selects : forall c a b w, convert c TBoolean = Ok (VBool H w) -> call 9 [c; a; b] = Ok (if w then a else b).
  Proof. exact (if_selects H convert math1 abs32 abs64 make_date weekday now_ticks now_ns rnd32 const_e const_pi). Qed.
  Theorem C08_choose_selects : forall ps i v, (3 <= length ps)%nat -> Z.of_nat (length ps) < two63 ->
    convert (nth 0 ps (VNull H)) TInteger = Ok (VInt H (Z.of_nat i)) -> nth_error ps i = Some v -> call 10 ps = Ok v.
  Proof. exact (choose_selects H convert math1 abs32 abs64 make_date weekday now_ticks now_ns rnd32 const_e const_pi). Qed.
  Theorem C08_choose_out_of_range_is_an_error : forall ps i, (3 <= length ps)%nat -> Z.of_nat (length ps) < two63 - 1 ->
    convert (nth 0 ps (VNull H)) TInteger = Ok (VInt H i) -> (i < 0 \/ Z.of_nat (length ps) <= i) -> - two63 <= i < two63 - 1 ->
    exists c, call 10 ps = Err c.
  Proof. exact (choose_out_of_range H convert math1 abs32 abs64 make_date weekday now_ticks now_ns rnd32 const_e const_pi). Qed.

  Theorem C08_abs_is_type_preserving_and_exact : forall z, - two63 < z < two63 ->
    call 14 [VInt H z] = Ok (VInt H (Z.abs z)) /\ call 14 [VLong H z] = Ok (VLong H (Z.abs z)).
  Proof. exact (abs_exact H convert math1 abs32 abs64 make_date weekday now_ticks now_ns rnd32 const_e const_pi). Qed.
  Theorem C08_abs_of_floats : forall f g, call 14 [VFloat H f] = Ok (VFloat H (abs32 f)) /\ call 14 [VDouble H g] = Ok (VDouble H (abs64 g)).
  Proof. exact (abs_float H convert math1 abs32 abs64 make_date weekday now_ticks now_ns rnd32 const_e const_pi). Qed.

  (* Ceil/Floor/Round, Sqrt/Exp/Log/Log10 and the six trigonometric functions: the host's IEEE double function on the converted argument *)
  Theorem C08_elementary_functions_are_the_host_functions : forall code v f, 15 <= code <= 28 -> code <> 24 ->
    convert v TDouble = Ok (VDouble H f) -> call code [v] = Ok (VDouble H (math1 code f)).
  Proof. exact (math_is_host H convert math1 abs32 abs64 make_date weekday now_ticks now_ns rnd32 const_e const_pi). Qed.
  Theorem C08_trunc_is_a_long : forall v f, convert v TDouble = Ok (VDouble H f) -> call 24 [v] = Ok (VLong H (trunc64 H f)).
  Proof. exact (trunc_is_long H convert math1 abs32 abs64 make_date weekday now_ticks now_ns rnd32 const_e const_pi). Qed.

  Theorem C08_array_holds_its_arguments : forall ps, call 32 ps = Ok (VArray H ps).
  Proof. exact (array_holds_its_arguments H convert math1 abs32 abs64 make_date weekday now_ticks now_ns rnd32 const_e const_pi). Qed.
  Theorem C08_empty_and_null : forall v, call 29 [v] = Ok (VBool H (is_null H v)) /\ call 30 [] = Ok (VNull H).
  Proof. exact (empty_and_null H convert math1 abs32 abs64 make_date weekday now_ticks now_ns rnd32 const_e const_pi). Qed.

  (* Min / Max range over ALL arguments (integers, a manager that returns a value unchanged for its own type) *)
  Hypothesis Hid : forall v, convert v (type_of H v) = Ok v.
  Theorem C08_min_max_over_all_arguments : forall a b l,
    call 6 (map (VInt H) (a :: b :: l)) = Ok (VInt H (zmin a (b :: l))) /\ call 7 (map (VInt H) (a :: b :: l)) = Ok (VInt H (zmax a (b :: l))).
  Proof. exact (min_max_over_all_arguments H convert math1 abs32 abs64 make_date weekday now_ticks now_ns rnd32 const_e const_pi Hid). Qed.
End C08.

Print Assumptions C08_names_resolve.
Print Assumptions C08_lookup_ignores_letter_case.
Print Assumptions C08_failures_are_errors.
Print Assumptions C08_wrong_argument_count_is_an_error.
Print Assumptions C08_too_few_arguments_is_an_error.
Print Assumptions C08_if_selects.
Print Assumptions C08_choose_selects.
Print Assumptions C08_choose_out_of_range_is_an_error.
Print Assumptions C08_abs_is_type_preserving_and_exact.
Print Assumptions C08_abs_of_floats.
Print Assumptions C08_elementary_functions_are_the_host_functions.
Print Assumptions C08_trunc_is_a_long.
Print Assumptions C08_array_holds_its_arguments.
Print Assumptions C08_empty_and_null.
Print Assumptions C08_min_max_over_all_arguments.

(* State space: the objects this property's model stands for have exactly the fields the model accounts for (StateSpace.v;
   gen/StateSpaceGen.v is regenerated from the Go sources on every run). A new field - a cache, a memo, a counter - is state
   the model does not have, so the theorems above would no longer be about the object. *)
From Coq Require Import String.
Require Import StateSpaceGen StateSpace.
Open Scope string_scope.
Theorem C08_state_space :
  fields_of "calculator/functions.DefaultFunctionCollection" = fields ["embedded *FunctionCollection"] /\
  fields_of "calculator/functions.FunctionCollection" = fields ["functions"] /\
  fields_of "calculator/functions.DelegatedFunction" = fields ["name"; "calculator"] /\
  fields_of "variants.Variant" = fields ["typ"; "value"].
Proof. vm_compute. repeat split; reflexivity. Qed.
Print Assumptions C08_state_space.
