(* C14 — Quote encoding and decoding are inverse and total for all Unicode text. *)
From Coq Require Import List ZArith Bool Lia.
Import ListNotations.
Require Import Quote QuoteProofs.
Open Scope Z_scope.

(* expression and CSV quote states (identical code): for every string and every quote character *)
Theorem C14_decode_encode : forall (q : Z) (s : str), decode q (encode q s) = Ok s.
Proof. exact decode_encode. Qed.

(* generic quote state *)
Theorem C14_generic_decode_encode : forall (q : Z) (s : str), gdecode q (gencode q s) = Ok s.
Proof. exact gdecode_gencode. Qed.

(* decoding never fails (no index out of range), on any input: lone quotes, empty, unterminated, non-ASCII *)
Theorem C14_decode_total : forall (q : Z) (v : str), decode q v <> Panic.
Proof. exact decode_total. Qed.
Theorem C14_generic_decode_total : forall (q : Z) (v : str), gdecode q v <> Panic.
Proof. exact gdecode_total. Qed.

(* the encoded form placed in a stream (followed by anything that does not start with the quote character) is read
   back by the expression / CSV token reader as exactly one token: the encoded form, whose decoding is s *)
Theorem C14_encoded_form_is_one_token : forall (q : Z) (s rest : str), hd 0 rest <> q \/ rest = [] ->
  quote_next (encode q s ++ rest) = (encode q s, rest) /\ decode q (fst (quote_next (encode q s ++ rest))) = Ok s.
Proof. intros q s rest H. split; [exact (read_back q s rest H) | exact (read_back_decodes q s rest H)]. Qed.

(* the repaired defect, kept as a refutation of the old index expression: indexing the runes with the UTF-8 byte
   length panics on non-ASCII text *)
Theorem C14_byte_length_index_refuted : exists q v, decode_bytelen q v = Panic.
Proof. exact byte_index_refuted. Qed.

Example C14_nonvacuous : decode 39 (encode 39 [39; 233; 39; 39; 26085]) = Ok [39; 233; 39; 39; 26085] /\ encode 39 [39] = [39; 39; 39; 39]
  /\ quote_next (encode 34 [34; 128512] ++ [44; 34]) = ([34; 34; 34; 128512; 34], [44; 34]).
Proof. repeat split; reflexivity. Qed.

Print Assumptions C14_decode_encode.
Print Assumptions C14_generic_decode_encode.
Print Assumptions C14_decode_total.
Print Assumptions C14_generic_decode_total.
Print Assumptions C14_encoded_form_is_one_token.
Print Assumptions C14_byte_length_index_refuted.

(* State space: the objects this property's model stands for have exactly the fields the model accounts for (StateSpace.v;
   gen/StateSpaceGen.v is regenerated from the Go sources on every run). A new field - a cache, a memo, a counter - is state
   the model does not have, so the theorems above would no longer be about the object. *)
From Coq Require Import String.
Require Import StateSpaceGen StateSpace.
Open Scope string_scope.
Theorem C14_state_space :
  fields_of "calculator/tokenizers.ExpressionQuoteState" = fields [] /\
  fields_of "tokenizers/generic.GenericQuoteState" = fields [] /\
  fields_of "csv.CsvQuoteState" = fields [].
Proof. vm_compute. repeat split; reflexivity. Qed.
Print Assumptions C14_state_space.
