(* C11 — The string scanner is a faithful cursor with position-only line/column.
   This file only restates the property theorems; every proof is `exact <lemma>`. *)
From Coq Require Import List ZArith Bool Lia.
Import ListNotations.
Require Import Scanner ScannerProofs.
Open Scope Z_scope.

(* After ANY sequence of read / unread / unread-many / peek / reset on ANY content, the content is
   unchanged, the cursor is within [0, len+1] and (line, column) is what a fresh forward scan to the
   cursor position reports (lc = rescan from the start).  LF, CR, CRLF and LFCR are just contents. *)
Theorem C11_line_column_depend_only_on_position : forall (l : list Z) (ops : list op),
  let s := fold_left step ops (init l) in
  content s = l /\ (p s <= S (length l))%nat /\ (line s, col s) = lc l (p s).
Proof. exact scanner_inv. Qed.

(* read returns the next character or -1 and advances by one, saturating after the end-of-input slot *)
Theorem C11_read_is_cursor : forall s, (p s <= S (length (content s)))%nat ->
  fst (read s) = (if Nat.ltb (p s) (length (content s)) then nth (p s) (content s) eof else eof) /\
  p (snd (read s)) = min (S (p s)) (S (length (content s))).
Proof. exact read_spec. Qed.

(* unread steps back exactly one read and is a no-op at the start (pred 0 = 0) *)
Theorem C11_unread_steps_back_one : forall s, p (unread s) = pred (p s).
Proof. exact unread_spec. Qed.

Theorem C11_unread_many : forall n s, p (unread_many n s) = (p s - n)%nat.
Proof. exact unread_many_spec. Qed.

(* peeks never move the cursor: a peek is a pure function of the state (step s OPeek = s by definition),
   and it shows what the next read returns *)
Theorem C11_peek_is_next_read : forall s,
  step s OPeek = s /\ peek s = (if Nat.ltb (p s) (length (content s)) then nth (p s) (content s) eof else eof).
Proof. intros s. split; [reflexivity | exact (peek_value s)]. Qed.

Theorem C11_reset_returns_to_start : forall s, reset s = init (content s).
Proof. intros s. reflexivity. Qed.

(* the peeked line and column are those reported after the next read *)
Theorem C11_peeked_position_is_position_after_read : forall s, Inv s -> (p s < length (content s))%nat ->
  (peek_line s, peek_column s) = (line (snd (read s)), col (snd (read s))).
Proof. exact peek_linecol. Qed.

(* on the end-of-input slot: one column past the last character (DESIGN 4.3) *)
Theorem C11_peek_at_end : forall s, (length (content s) <= p s)%nat -> Forall (fun c => 0 <= c) (content s) ->
  peek_line s = line s /\ peek_column s = col s + 1.
Proof. exact peek_at_end. Qed.

(* non-vacuity: a reachable state with every kind of line break satisfies Inv and the premises *)
Example C11_nonvacuous :
  let s := fold_left step [ORead; ORead; ORead; OUnread; ORead; ORead; OPeek; OUnreadMany 2; ORead] (init [97; 13; 10; 10; 13; 98]) in
  Inv s /\ (p s < length (content s))%nat /\ (line s, col s) = (2, 0).
Proof. vm_compute. repeat split; lia. Qed.

Print Assumptions C11_line_column_depend_only_on_position.
Print Assumptions C11_read_is_cursor.
Print Assumptions C11_unread_steps_back_one.
Print Assumptions C11_unread_many.
Print Assumptions C11_peek_is_next_read.
Print Assumptions C11_reset_returns_to_start.
Print Assumptions C11_peeked_position_is_position_after_read.
Print Assumptions C11_peek_at_end.

(* State space: the objects this property's model stands for have exactly the fields the model accounts for (StateSpace.v;
   gen/StateSpaceGen.v is regenerated from the Go sources on every run). A new field - a cache, a memo, a counter - is state
   the model does not have, so the theorems above would no longer be about the object. *)
From Coq Require Import String.
Require Import StateSpaceGen StateSpace.
Open Scope string_scope.
Theorem C11_state_space :
  fields_of "io.StringScanner" = fields ["content"; "position"; "line"; "column"].
Proof. vm_compute. repeat split; reflexivity. Qed.
Print Assumptions C11_state_space.
