(* C18 — Variables are discovered exactly and names resolve case-insensitively.
   up = strings.ToUpper (arbitrary); a collection is the ordered list of its entries. *)
From Coq Require Import List ZArith Bool Lia.
Import ListNotations.
Require Import Collections CollectionsProofs ExprParser.
Open Scope Z_scope.

(* the reported names are exactly the identifiers in variable position, in written order (rvars of the compiled program =
   the variables of the syntax tree; function names, keywords and constants never appear in evars) *)
Theorem C18_parser_reports_exactly_the_variables : forall ts e, D0 ts e -> exists prog, parse_top ts = Ok prog /\ rvars prog = evars e.
Proof. exact parser_reports_exactly_the_variables. Qed.

Section C18.
  Variable up : str -> str.

  (* resolution is case-insensitive and the FIRST entry added wins *)
  Theorem C18_first_added_wins : forall c n,
    (find up c n = None /\ forall e, In e c -> same up (fst e) n = false) \/
    (exists k e, find up c n = Some e /\ find_index up c n = Z.of_nat k /\ nth_error c k = Some e /\ same up (fst e) n = true /\
                 forall j e', (j < k)%nat -> nth_error c j = Some e' -> same up (fst e') n = false).
  Proof. exact (find_first_wins up). Qed.
  Theorem C18_adding_never_hides_an_entry : forall c e n,
    find up (add c e) n = match find up c n with Some x => Some x | None => if same up (fst e) n then Some e else None end.
  Proof. exact (find_after_add up). Qed.
  Theorem C18_locate_adds_iff_missing : forall c n,
    (exists e, find up c n = Some e /\ locate up c n = (c, e)) \/ (find up c n = None /\ locate up c n = (add c (n, 0), (n, 0))).
  Proof. exact (locate_spec up). Qed.
  Theorem C18_remove_is_list_deletion : forall c i, 0 <= i < Z.of_nat (length c) ->
    exists c', remove c i = Done c' /\ length c' = pred (length c) /\
      (forall j, (j < Z.to_nat i)%nat -> nth_error c' j = nth_error c j) /\ (forall j, (Z.to_nat i <= j)%nat -> nth_error c' j = nth_error c (S j)).
  Proof. exact remove_spec. Qed.
  Theorem C18_clear_and_clear_values : forall c, clear c = [] /\ map fst (clear_values c) = map fst c /\ Forall (fun e => snd e = 0) (clear_values c).
  Proof. exact clear_spec. Qed.

  (* automatic variables: existing entries and values are kept, new entries are empty, every reported name resolves,
     and no second entry for a name (ignoring case) is ever created *)
  Theorem C18_automatic_variables : forall names c,
    (exists ext, create_variables up c names = c ++ ext /\ Forall (fun e => snd e = 0) ext) /\
    (forall n, In n names -> find up (create_variables up c names) n <> None).
  Proof. exact (create_variables_spec up). Qed.
  Theorem C18_one_entry_per_name : forall names c, no_dup_names up c -> no_dup_names up (create_variables up c names).
  Proof. exact (create_variables_no_dup up). Qed.
End C18.

(* non-vacuity *)
Example C18_nonvacuous :
  let up := map (fun c => if (97 <=? c) && (c <=? 122) then c - 32 else c) in
  let c := create_variables up [([66], 5)] [[97]; [98]; [65]] in
  c = [([66], 5); ([97], 0)] /\ find up c [65] = Some ([97], 0) /\ find_index up c [98] = 0.
Proof. vm_compute. repeat split. Qed.

Print Assumptions C18_parser_reports_exactly_the_variables.
Print Assumptions C18_first_added_wins.
Print Assumptions C18_adding_never_hides_an_entry.
Print Assumptions C18_locate_adds_iff_missing.
Print Assumptions C18_remove_is_list_deletion.
Print Assumptions C18_clear_and_clear_values.
Print Assumptions C18_automatic_variables.
Print Assumptions C18_one_entry_per_name.
