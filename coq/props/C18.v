(* C18 — Variables are discovered exactly and names resolve case-insensitively.
   up = strings.ToUpper (arbitrary); a collection is the ordered list of its entries. *)
From Coq Require Import List ZArith Bool Lia.
Import ListNotations.
Require Import Collections CollectionsProofs ExprParser MustacheVars MustacheVarsProofs.
From Coq Require Import Permutation.
Open Scope Z_scope.

(* the reported names are exactly the identifiers in variable position, in written order (rvars of the compiled program =
   the variables of the syntax tree; function names, keywords and constants never appear in evars) *)
Theorem C18_parser_reports_exactly_the_variables : forall ts e, D0 ts e -> exists prog, parse_top ts = Ok prog /\ rvars prog = evars e.
Proof. exact parser_reports_exactly_the_variables. Qed.

Section C18.
  Variable up : str -> str.

  (* resolution is case-insensitive and the FIRST entry added wins *)
  Theorem C18_first_added_wins : forall c n,
    (find up c n = None /\ forall e, In e c -> same up (fst e) n = false) \/
    (exists k e, find up c n = Some e /\ find_index up c n = Z.of_nat k /\ nth_error c k = Some e /\ same up (fst e) n = true /\
                 forall j e', (j < k)%nat -> nth_error c j = Some e' -> same up (fst e') n = false).
  Proof. exact (find_first_wins up). Qed.
  Theorem C18_adding_never_hides_an_entry : forall c e n,
    find up (add c e) n = match find up c n with Some x => Some x | None => if same up (fst e) n then Some e else None end.
  Proof. exact (find_after_add up). Qed.
  Theorem C18_locate_adds_iff_missing : forall c n,
    (exists e, find up c n = Some e /\ locate up c n = (c, e)) \/ (find up c n = None /\ locate up c n = (add c (n, 0), (n, 0))).
  Proof. exact (locate_spec up). Qed.
  Theorem C18_remove_is_list_deletion : forall c i, 0 <= i < Z.of_nat (length c) ->
    exists c', remove c i = Done c' /\ length c' = pred (length c) /\
      (forall j, (j < Z.to_nat i)%nat -> nth_error c' j = nth_error c j) /\ (forall j, (Z.to_nat i <= j)%nat -> nth_error c' j = nth_error c (S j)).
  Proof. exact remove_spec. Qed.
  Theorem C18_clear_and_clear_values : forall c, clear c = [] /\ map fst (clear_values c) = map fst c /\ Forall (fun e => snd e = 0) (clear_values c).
  Proof. exact clear_spec. Qed.

  (* automatic variables: existing entries and values are kept, new entries are empty, every reported name resolves,
     and no second entry for a name (ignoring case) is ever created *)
  Theorem C18_automatic_variables : forall names c,
    (exists ext, create_variables up c names = c ++ ext /\ Forall (fun e => snd e = 0) ext) /\
    (forall n, In n names -> find up (create_variables up c names) n <> None).
  Proof. exact (create_variables_spec up). Qed.
  Theorem C18_one_entry_per_name : forall names c, no_dup_names up c -> no_dup_names up (create_variables up c names).
  Proof. exact (create_variables_no_dup up). Qed.
End C18.

(* the mustache variable map (a Go map: the iteration order is not specified, so every statement is made for all
   permutations of the entries); low = strings.ToLower (arbitrary); names are the non-empty words the parser reports *)
Section C18_map.
  Variable low : str -> str.
  (* whether a name resolves never depends on the iteration order *)
  Theorem C18_map_found_any_order : forall m m' n, Permutation m m' -> mfound low m n = mfound low m' n.
  Proof. exact (mfound_perm low). Qed.
  (* GetVariable returns an entry whose key equals the name ignoring case, exactly when one exists *)
  Theorem C18_map_lookup_ignores_case : forall m n,
    (mget low m n = None /\ mfound low m n = false) \/
    (exists e, mget low m n = Some e /\ In e m /\ n <> [] /\ msame low (fst e) n = true /\ mfound low m n = true).
  Proof. exact (mget_found low). Qed.
  (* with keys that are distinct ignoring case the lookup is a function of the map, not of the iteration order *)
  Theorem C18_map_lookup_any_order : forall m m' n, case_distinct low m -> Permutation m m' -> mget low m' n = mget low m n.
  Proof. exact (mget_perm low). Qed.
  (* automatic variables: entries and values already there are kept, what is added is empty and is a reported name,
     every reported name resolves, no second key ignoring case is created, and the resulting map is the same set of
     entries whatever iteration orders were met *)
  Theorem C18_map_automatic_variables : forall names, Forall (fun n => n <> []) names -> forall m,
    (exists ext, mcreate low m names = m ++ ext /\ Forall (fun e => snd e = [] /\ In (fst e) names) ext) /\
    (forall n, In n names -> mfound low (mcreate low m names) n = true) /\
    (case_distinct low m -> case_distinct low (mcreate low m names)) /\
    (forall m', Permutation m m' -> Permutation (mcreate low m names) (mcreate low m' names)).
  Proof.
    intros names Hn m. split; [exact (mcreate_ext low names Hn m)|]. split; [exact (mcreate_resolves low names Hn m)|].
    split; [exact (mcreate_case_distinct low names Hn m)|]. exact (mcreate_perm low names Hn m).
  Qed.
End C18_map.
(* the premise "distinct ignoring case" is necessary: known finding K1 *)
Theorem C18_map_lookup_order_dependent_refuted : exists m m' n, Permutation m m' /\ mget ascii_low m n <> mget ascii_low m' n.
Proof. exact mget_order_dependent_refuted. Qed.
Example C18_map_nonvacuous :
  let m := mcreate ascii_low [([66], [53])] [[97]; [98]; [65]] in
  m = [([66], [53]); ([97], [])] /\ mget ascii_low m [65] = Some ([97], []) /\ Forall (fun n : str => n <> []) [[97]; [98]; [65]].
Proof. vm_compute. repeat split; repeat constructor; discriminate. Qed.

(* non-vacuity *)
Example C18_nonvacuous :
  let up := map (fun c => if (97 <=? c) && (c <=? 122) then c - 32 else c) in
  let c := create_variables up [([66], 5)] [[97]; [98]; [65]] in
  c = [([66], 5); ([97], 0)] /\ find up c [65] = Some ([97], 0) /\ find_index up c [98] = 0.
Proof. vm_compute. repeat split. Qed.

Print Assumptions C18_parser_reports_exactly_the_variables.
Print Assumptions C18_first_added_wins.
Print Assumptions C18_adding_never_hides_an_entry.
Print Assumptions C18_locate_adds_iff_missing.
Print Assumptions C18_remove_is_list_deletion.
Print Assumptions C18_clear_and_clear_values.
Print Assumptions C18_automatic_variables.
Print Assumptions C18_one_entry_per_name.
Print Assumptions C18_map_found_any_order.
Print Assumptions C18_map_lookup_ignores_case.
Print Assumptions C18_map_lookup_any_order.
Print Assumptions C18_map_automatic_variables.
Print Assumptions C18_map_lookup_order_dependent_refuted.

(* State space: the objects this property's model stands for have exactly the fields the model accounts for (StateSpace.v;
   gen/StateSpaceGen.v is regenerated from the Go sources on every run). A new field - a cache, a memo, a counter - is state
   the model does not have, so the theorems above would no longer be about the object. *)
From Coq Require Import String.
Require Import StateSpaceGen StateSpace.
Open Scope string_scope.
Theorem C18_state_space :
  fields_of "calculator/variables.VariableCollection" = fields ["variables"] /\
  fields_of "calculator/variables.Variable" = fields ["name"; "value"] /\
  fields_of "calculator/functions.FunctionCollection" = fields ["functions"] /\
  fields_of "calculator/functions.DelegatedFunction" = fields ["name"; "calculator"] /\
  fields_of "calculator/parsers.ExpressionParser" = fields ["tokenizer"; "expression"; "originalTokens"; "initialTokens"; "currentTokenIndex"; "variableNames"; "resultTokens"] /\
  fields_of "calculator.ExpressionCalculator" = fields ["defaultVariables"; "defaultFunctions"; "variantOperations"; "parser"; "autoVariables"] /\
  fields_of "mustache/parsers.MustacheParser" = fields ["tokenizer"; "template"; "originalTokens"; "initialTokens"; "currentTokenIndex"; "variableNames"; "resultTokens"] /\
  fields_of "mustache.MustacheTemplate" = fields ["defaultVariables"; "parser"; "autoVariables"].
Proof. vm_compute. repeat split; reflexivity. Qed.
Print Assumptions C18_state_space.
