(* C13 — Lexeme sequences tokenize back to themselves with the right classes.
   FULL STATEMENT (not proved as one theorem; see DESIGN.md 5.7): for the generic and the expression tokenizer,
     Forall2 well_formed ls classes -> pairwise cannot_merge ls ->
     tokenize_with k no_options (concat ls) = Ok (zip classes ls ++ [Eof]).
   What is proved here (names carry _partial where they are a part of that statement):
   - the segmentation facts that hold for every input: values concatenate to the input, non-empty (C04), each token
     is produced by the state its first character is handed to;
   - the character classes of both lexical grammars, for EVERY character, on the extracted tables (identifiers may
     start with any configured letter, Latin or not; digits, sign, dot, quotes, comment openers, whitespace);
   - the longest registered multi-character symbol always wins, with the registered set of the extracted tables;
   - keywords are exactly the language's ten, recognised in any letter case, with the spelling kept;
   - a sign is a symbol in expressions and part of the number generically.
   The sequence-level statement itself is exercised by the correspondence and the direct oracle on generated lexeme
   sequences of every class (missing as a theorem: "each state stops exactly at the end of its lexeme"). *)
From Coq Require Import List ZArith Bool Lia.
Import ListNotations.
Require Import Base Cursor Trie TrieSpec TrieLongest States Tokenizer Instances Tables TokModel TokModelProofs LexFacts.
Open Scope Z_scope.

Theorem C13_expression_character_classes_partial : forall c, Instances.table expr_cfg c = expr_class c.
Proof. exact expr_dispatch. Qed.
Theorem C13_generic_character_classes_partial : forall c, Instances.table generic_cfg c = generic_class c.
Proof. exact generic_dispatch. Qed.

Theorem C13_expression_longest_symbol_wins_partial : forall s0, wf_str (content s0) -> (p s0 < clen s0)%nat ->
  let regs := regs_of expr_symbols in
  let tok := fst (symbol_next lcf (build regs) s0) in
  let input := skipn (p s0) (content s0) in
  is_prefix (value tok) input = true /\ value tok <> [] /\
  p (snd (symbol_next lcf (build regs) s0)) = (p s0 + length (value tok))%nat /\
  (registered regs (value tok) = true \/ length (value tok) = 1%nat) /\
  (forall q, q <> [] -> registered regs q = true -> is_prefix q input = true -> (length q <= length (value tok))%nat) /\
  ty tok = (if registered regs (value tok) then last_type regs (value tok) else Symbol).
Proof. exact expr_symbol_longest. Qed.
Theorem C13_generic_longest_symbol_wins_partial : forall s0, wf_str (content s0) -> (p s0 < clen s0)%nat ->
  let regs := regs_of generic_symbols in
  let tok := fst (symbol_next lcf (build regs) s0) in
  let input := skipn (p s0) (content s0) in
  is_prefix (value tok) input = true /\ value tok <> [] /\
  p (snd (symbol_next lcf (build regs) s0)) = (p s0 + length (value tok))%nat /\
  (registered regs (value tok) = true \/ length (value tok) = 1%nat) /\
  (forall q, q <> [] -> registered regs q = true -> is_prefix q input = true -> (length q <= length (value tok))%nat) /\
  ty tok = (if registered regs (value tok) then last_type regs (value tok) else Symbol).
Proof. exact generic_symbol_longest. Qed.
Theorem C13_expression_symbols_are_the_language_partial : forall q, registered (regs_of expr_symbols) q =
  existsb (str_eqb q) [[60; 61]; [62; 61]; [60; 62]; [33; 61]; [62; 62]; [60; 60]].
Proof. exact expr_symbols_are. Qed.

Theorem C13_keywords_are_the_language_partial :
  forallb (fun k => existsb (str_eqb k) spec_keywords) keywords = true /\ forallb (fun k => existsb (str_eqb k) keywords) spec_keywords = true.
Proof. exact keywords_are_the_language. Qed.
Theorem C13_keywords_any_case_partial : forall s, keyword_in keywords (upper s) = keyword_in keywords s.
Proof. exact keyword_case_insensitive. Qed.
Theorem C13_keywords_keep_their_spelling_partial : forall lc plc wc kw s,
  value (fst (expr_word_next lc plc wc kw s)) = value (fst (word_next lc wc s)) /\
  ty (fst (expr_word_next lc plc wc kw s)) = (if kw (value (fst (word_next lc wc s))) then Keyword else ty (fst (word_next lc wc s))).
Proof. exact keyword_spelling_kept. Qed.

Theorem C13_sign_is_a_symbol_in_expressions_partial : forall lc plc symbol s, peek s = 45 -> expr_number_next lc plc symbol s = symbol s.
Proof. exact expr_sign_is_symbol. Qed.

(* segmentation facts for every input (from C04): nothing is lost, every token non-empty *)
Theorem C13_segmentation_partial : forall (k : tkind) (s : Base.str), wf_str s ->
  exists body e, tokenize_with k no_options s = Tokenizer.Ok (body ++ [e]) /\ concat (map value (body ++ [e])) = s /\
                 ty e = Eof /\ value e = [] /\ Forall (fun t => value t <> []) body.
Proof. exact tokenize_lossless. Qed.

(* non-vacuity: one sequence with every class of the expression grammar *)
Example C13_nonvacuous :
  exists ts, tokenize_with TExpr no_options
    [120; 49; 60; 61; 49; 46; 53; 69; 43; 51; 32; 110; 79; 116; 39; 97; 39; 39; 98; 39; 47; 42; 99; 42; 47; 45; 55; 233] = Tokenizer.Ok ts /\
  map (fun t => (ty t, value t)) ts =
    [(Word, [120; 49]); (Symbol, [60; 61]); (Float, [49; 46; 53; 69; 43; 51]); (Whitespace, [32]); (Keyword, [110; 79; 116]);
     (Quoted, [39; 97; 39; 39; 98; 39]); (Comment, [47; 42; 99; 42; 47]); (Symbol, [45]); (Integer, [55]); (Word, [233]); (Eof, [])].
Proof. eexists. split; vm_compute; reflexivity. Qed.

Print Assumptions C13_expression_character_classes_partial.
Print Assumptions C13_generic_character_classes_partial.
Print Assumptions C13_expression_longest_symbol_wins_partial.
Print Assumptions C13_generic_longest_symbol_wins_partial.
Print Assumptions C13_expression_symbols_are_the_language_partial.
Print Assumptions C13_keywords_are_the_language_partial.
Print Assumptions C13_keywords_any_case_partial.
Print Assumptions C13_keywords_keep_their_spelling_partial.
Print Assumptions C13_sign_is_a_symbol_in_expressions_partial.
Print Assumptions C13_segmentation_partial.
