(* C13 — Lexeme sequences tokenize back to themselves with the right classes.
   FULL STATEMENT, proved (C13_generic_lexemes_roundtrip / C13_expression_lexemes_roundtrip): for the generic and the
   expression tokenizer, any sequence ls of (class, lexeme) pairs in which every lexeme is well formed for its class and
   written so that it cannot merge with what follows (LexGrammar.lexeme: the lexical grammar, as a relation between a
   class, a lexeme and the rest of the input - no cursor, no state machine) is tokenized, with no options, into exactly
   those lexemes with exactly those classes, followed by the end-of-input token.  Any length, any order.
   The grammar refers to the configuration for "which state is a character handed to" and "is it a word / whitespace
   character"; the theorems below say what those are for EVERY character on the tables extracted from the Go
   constructors on this run (identifiers may start with any configured letter, Latin or not), what the registered
   multi-character symbols and keywords are, that the longest registered symbol wins, that keywords are recognised in
   any letter case and keep their spelling, and that a sign is a symbol in expressions and part of the number
   generically.  Proof (LexStep.v, LexSeq.v): every tokenizer state is run symbolically on "lexeme ++ rest" and shown to
   return the lexeme and to stop on the first character of the rest; the sequence follows by induction. *)
From Coq Require Import List ZArith Bool Lia.
Import ListNotations.
Require Import Base Cursor Trie TrieSpec TrieLongest States Tokenizer Instances Tables TokModel TokModelProofs LexFacts LexStep LexGrammar LexSeq LexRoundtrip.
Open Scope Z_scope.

(* ---- the property ---- *)
Theorem C13_generic_lexemes_roundtrip : forall ls : list (ttype * Base.str),
  wf_str (concat (map snd ls)) -> lexemes generic_cfg (regs_of generic_symbols) ls ->
  exists ts, tokenize_with TGeneric no_options (concat (map snd ls)) = Tokenizer.Ok ts /\
             map (fun t => (ty t, value t)) ts = ls ++ [(Eof, [])].
Proof. exact generic_lexemes_roundtrip. Qed.
Theorem C13_expression_lexemes_roundtrip : forall ls : list (ttype * Base.str),
  wf_str (concat (map snd ls)) -> lexemes expr_cfg (regs_of expr_symbols) ls ->
  exists ts, tokenize_with TExpr no_options (concat (map snd ls)) = Tokenizer.Ok ts /\
             map (fun t => (ty t, value t)) ts = ls ++ [(Eof, [])].
Proof. exact expr_lexemes_roundtrip. Qed.

(* one lexeme, one token: the state the first character is handed to returns exactly the lexeme and stops on the
   first character of the rest - for any configuration whose symbols come from registrations *)
Theorem C13_each_state_stops_at_the_end_of_its_lexeme : forall lc plc cfg regs,
  symbols cfg = build regs -> Forall valid_reg regs -> Forall (fun r => snd r <> Integer /\ snd r <> Float) regs ->
  (forall ch, Instances.table cfg ch = Some KCComment -> ch = 47) ->
  forall t lx rest, lexeme cfg regs t lx rest -> forall l a, wf_str l -> (a <= length l)%nat -> skipn a l = lx ++ rest ->
  exists r c', produce lc plc cfg Datatypes.tt (cur_at l a) = Some (r, c', Datatypes.tt) /\ ty (rtok r) = t /\ value (rtok r) = lx /\
               lands c' l (a + length lx) /\ first_char r = hdz lx /\ from_quote r = is_quote_kind (Instances.table cfg (hdz lx)).
Proof. exact produce_step. Qed.

(* ---- what the configuration-dependent parts of the grammar are, on the extracted tables ---- *)
Theorem C13_word_characters : (forall c, wordchar generic_cfg c = generic_wordchar_spec c) /\ (forall c, wordchar expr_cfg c = expr_wordchar_spec c) /\
  (forall c, wschar generic_cfg c = wschar_spec c /\ wschar expr_cfg c = wschar_spec c).
Proof. exact (conj generic_wordchars_are (conj expr_wordchars_are wschars_are)). Qed.

Theorem C13_expression_character_classes : forall c, Instances.table expr_cfg c = expr_class c.
Proof. exact expr_dispatch. Qed.
Theorem C13_generic_character_classes : forall c, Instances.table generic_cfg c = generic_class c.
Proof. exact generic_dispatch. Qed.

Theorem C13_expression_longest_symbol_wins : forall s0, wf_str (content s0) -> (p s0 < clen s0)%nat ->
  let regs := regs_of expr_symbols in
  let tok := fst (symbol_next lcf (build regs) s0) in
  let input := skipn (p s0) (content s0) in
  is_prefix (value tok) input = true /\ value tok <> [] /\
  p (snd (symbol_next lcf (build regs) s0)) = (p s0 + length (value tok))%nat /\
  (registered regs (value tok) = true \/ length (value tok) = 1%nat) /\
  (forall q, q <> [] -> registered regs q = true -> is_prefix q input = true -> (length q <= length (value tok))%nat) /\
  ty tok = (if registered regs (value tok) then last_type regs (value tok) else Symbol).
Proof. exact expr_symbol_longest. Qed.
Theorem C13_generic_longest_symbol_wins : forall s0, wf_str (content s0) -> (p s0 < clen s0)%nat ->
  let regs := regs_of generic_symbols in
  let tok := fst (symbol_next lcf (build regs) s0) in
  let input := skipn (p s0) (content s0) in
  is_prefix (value tok) input = true /\ value tok <> [] /\
  p (snd (symbol_next lcf (build regs) s0)) = (p s0 + length (value tok))%nat /\
  (registered regs (value tok) = true \/ length (value tok) = 1%nat) /\
  (forall q, q <> [] -> registered regs q = true -> is_prefix q input = true -> (length q <= length (value tok))%nat) /\
  ty tok = (if registered regs (value tok) then last_type regs (value tok) else Symbol).
Proof. exact generic_symbol_longest. Qed.
Theorem C13_expression_symbols_are_the_language : forall q, registered (regs_of expr_symbols) q =
  existsb (str_eqb q) [[60; 61]; [62; 61]; [60; 62]; [33; 61]; [62; 62]; [60; 60]].
Proof. exact expr_symbols_are. Qed.

Theorem C13_keywords_are_the_language :
  forallb (fun k => existsb (str_eqb k) spec_keywords) keywords = true /\ forallb (fun k => existsb (str_eqb k) keywords) spec_keywords = true.
Proof. exact keywords_are_the_language. Qed.
Theorem C13_keywords_any_case : forall s, keyword_in keywords (upper s) = keyword_in keywords s.
Proof. exact keyword_case_insensitive. Qed.
Theorem C13_keywords_keep_their_spelling : forall lc plc wc kw s,
  value (fst (expr_word_next lc plc wc kw s)) = value (fst (word_next lc wc s)) /\
  ty (fst (expr_word_next lc plc wc kw s)) = (if kw (value (fst (word_next lc wc s))) then Keyword else ty (fst (word_next lc wc s))).
Proof. exact keyword_spelling_kept. Qed.

Theorem C13_sign_is_a_symbol_in_expressions : forall lc plc symbol s, peek s = 45 -> expr_number_next lc plc symbol s = symbol s.
Proof. exact expr_sign_is_symbol. Qed.

(* segmentation facts for every input (from C04): nothing is lost, every token non-empty *)
Theorem C13_segmentation : forall (k : tkind) (s : Base.str), wf_str s ->
  exists body e, tokenize_with k no_options s = Tokenizer.Ok (body ++ [e]) /\ concat (map value (body ++ [e])) = s /\
                 ty e = Eof /\ value e = [] /\ Forall (fun t => value t <> []) body.
Proof. exact tokenize_lossless. Qed.

(* non-vacuity: a sequence with every class of the expression grammar meets the premises of the theorem *)
Example C13_premises_satisfiable : lexemes expr_cfg (regs_of expr_symbols) sample /\ wf_str (concat (map snd sample)).
Proof. split; [exact sample_is_lexemes|]. unfold wf_str. repeat (constructor; [lia|]). constructor. Qed.
(* ... and computed directly: *)
Example C13_nonvacuous :
  exists ts, tokenize_with TExpr no_options
    [120; 49; 60; 61; 49; 46; 53; 69; 43; 51; 32; 110; 79; 116; 39; 97; 39; 39; 98; 39; 47; 42; 99; 42; 47; 45; 55; 233] = Tokenizer.Ok ts /\
  map (fun t => (ty t, value t)) ts =
    [(Word, [120; 49]); (Symbol, [60; 61]); (Float, [49; 46; 53; 69; 43; 51]); (Whitespace, [32]); (Keyword, [110; 79; 116]);
     (Quoted, [39; 97; 39; 39; 98; 39]); (Comment, [47; 42; 99; 42; 47]); (Symbol, [45]); (Integer, [55]); (Word, [233]); (Eof, [])].
Proof. eexists. split; vm_compute; reflexivity. Qed.

Print Assumptions C13_generic_lexemes_roundtrip.
Print Assumptions C13_expression_lexemes_roundtrip.
Print Assumptions C13_each_state_stops_at_the_end_of_its_lexeme.
Print Assumptions C13_word_characters.
Print Assumptions C13_expression_character_classes.
Print Assumptions C13_generic_character_classes.
Print Assumptions C13_expression_longest_symbol_wins.
Print Assumptions C13_generic_longest_symbol_wins.
Print Assumptions C13_expression_symbols_are_the_language.
Print Assumptions C13_keywords_are_the_language.
Print Assumptions C13_keywords_any_case.
Print Assumptions C13_keywords_keep_their_spelling.
Print Assumptions C13_sign_is_a_symbol_in_expressions.
Print Assumptions C13_segmentation.

(* State space: the objects this property's model stands for have exactly the fields the model accounts for (StateSpace.v;
   gen/StateSpaceGen.v is regenerated from the Go sources on every run). A new field - a cache, a memo, a counter - is state
   the model does not have, so the theorems above would no longer be about the object. *)
From Coq Require Import String.
Require Import StateSpaceGen StateSpace.
Open Scope string_scope.
Theorem C13_state_space :
  fields_of "tokenizers.AbstractTokenizer" = fields ["Overrides"; "mp"; "skipUnknown"; "skipWhitespaces"; "skipComments"; "skipEof"; "mergeWhitespaces"; "unifyNumbers"; "decodeStrings"; "commentState"; "numberState"; "quoteState"; "symbolState"; "whitespaceState"; "wordState"; "Scanner"; "NextTokenValue"; "LastTokenType"] /\
  fields_of "tokenizers/generic.SymbolNode" = fields ["parent"; "character"; "children"; "tokenType"; "valid"; "ancestry"] /\
  fields_of "tokenizers/generic.GenericSymbolState" = fields ["symbols"] /\
  fields_of "tokenizers/generic.GenericWordState" = fields ["mp"] /\
  fields_of "tokenizers/generic.GenericWhitespaceState" = fields ["mp"] /\
  fields_of "tokenizers/generic.GenericNumberState" = fields [] /\
  fields_of "io.StringScanner" = fields ["content"; "position"; "line"; "column"].
Proof. vm_compute. repeat split; reflexivity. Qed.
Print Assumptions C13_state_space.
