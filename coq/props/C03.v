(* C03 — Untrusted input never crashes the library: a result or an error, always.
   Every layer is modelled with explicit outcomes Panic (a Go run-time failure: failed type assertion, division by zero,
   negative shift, index out of range, empty-stack pop, nil dereference) and Fuel (a loop that does not terminate within
   the stated bound).  The theorems say these outcomes are unreachable, for every input. *)
From Coq Require Import List ZArith Bool Lia.
Import ListNotations.
Require Import Base Cursor Tokenizer TokModel TokModelProofs Quote QuoteProofs Mustache MustacheTotal.
Require Variant VariantProofs VariantNoPanic Functions FunctionsProofs ExprParser ExprTotal ExprEval CalcNoPanic.
Open Scope Z_scope.

(* tokenizing with any built-in tokenizer, under any option combination, terminates (fuel |s|+2) without a state panicking *)
Theorem C03_tokenizers_never_fail : forall (k : tkind) (o : options) (s : Base.str), wf_str s -> exists ts, tokenize_with k o s = Tokenizer.Ok ts.
Proof. exact tokenize_never_fails. Qed.

(* decoding a quoted string never indexes out of range *)
Theorem C03_decoding_never_fails : forall q v, decode q v <> Quote.Panic /\ gdecode q v <> Quote.Panic.
Proof. intros q v. split; [apply decode_total|apply gdecode_total]. Qed.

(* templates: lexical analysis and section parsing of ANY token sequence give a tree or an error code; rendering is a total function *)
Theorem C03_template_parsing_never_fails : forall ts,
  ((exists ms, lex_all lex0 ts [] = Mustache.Ok ms) \/ (exists e, lex_all lex0 ts [] = Mustache.Err e)) /\
  (forall ms, (exists ns, mparse ms = Mustache.Ok ns) \/ (exists e, mparse ms = Mustache.Err e)).
Proof. intros ts. split; [apply lex_all_total|intros ms; apply mparse_total]. Qed.

(* parsing ANY token sequence terminates *)
Theorem C03_expression_parsing_terminates : forall ts, ExprParser.parse_top ts <> ExprParser.Fuel.
Proof. exact ExprTotal.parse_top_total. Qed.

Section Operators.
  Import Variant VariantProofs VariantNoPanic.
  Variable H : hf.
  Variable convert : value H -> vtype -> outcome (value H).
  Hypothesis Hwt : well_typed H convert.                  (* both managers: C06_premises_hold_for_both_managers *)
  Hypothesis Hnp : forall v t, convert v t <> Panic.

  (* no operator crashes, for EVERY pair of operands: division by zero, negative shifts, out-of-range indexes and
     operands of any type surface as errors (or values), never as a Go panic *)
  Theorem C03_operators_never_panic : forall a b,
    add H convert a b <> Panic /\ sub H convert a b <> Panic /\ mul H convert a b <> Panic /\ div H convert a b <> Panic /\
    modulo H convert a b <> Panic /\ pow H convert a b <> Panic /\ and_ H convert a b <> Panic /\ or_ H convert a b <> Panic /\
    xor_ H convert a b <> Panic /\ lsh H convert a b <> Panic /\ rsh H convert a b <> Panic /\ not_ H a <> Panic /\ negative H a <> Panic /\
    equal H convert a b <> Panic /\ not_equal H convert a b <> Panic /\ more H convert a b <> Panic /\ less H convert a b <> Panic /\
    more_equal H convert a b <> Panic /\ less_equal H convert a b <> Panic /\ in_ H convert a b <> Panic /\ get_element H convert a b <> Panic.
  Proof.
    intros a b.
    exact (conj (add_np H convert Hwt Hnp a b) (conj (sub_np H convert Hwt Hnp a b) (conj (mul_np H convert Hwt Hnp a b) (conj (div_np H convert Hwt Hnp a b)
          (conj (mod_np H convert Hwt Hnp a b) (conj (pow_np H convert Hwt Hnp a b) (conj (and_np H convert Hwt Hnp a b) (conj (or_np H convert Hwt Hnp a b)
          (conj (xor_np H convert Hwt Hnp a b) (conj (lsh_np H convert Hwt Hnp a b) (conj (rsh_np H convert Hwt Hnp a b)
          (conj (proj1 (not_negative_np H a)) (conj (proj2 (not_negative_np H a))
          (conj (proj1 (equal_np H convert Hwt Hnp a b)) (conj (proj2 (equal_np H convert Hwt Hnp a b)) (conj (more_np H convert Hwt Hnp a b) (conj (less_np H convert Hwt Hnp a b)
          (conj (more_equal_np H convert Hwt Hnp a b) (conj (less_equal_np H convert Hwt Hnp a b) (conj (in_np H convert Hwt Hnp a b) (get_element_np H convert Hwt Hnp a b))))))))))))))))))))).
  Qed.
End Operators.

(* a failing function surfaces as an error *)
Theorem C03_functions_never_panic :
  forall H convert math1 abs32 abs64 make_date weekday now_ticks now_ns rnd32 const_e const_pi code ps,
    Functions.delegated H convert math1 abs32 abs64 make_date weekday now_ticks now_ns rnd32 const_e const_pi code ps <> Variant.Panic.
Proof. exact FunctionsProofs.delegated_never_panics. Qed.

Section Calculator.
  Import ExprParser ExprEval CalcNoPanic.
  Variable V : Type.
  Variable const : Z -> V.  Variable var : Z -> outcome V.  Variable bin : binop -> V -> V -> outcome V.
  Variable un : unop -> V -> outcome V.  Variable callf : Z -> list V -> outcome V.
  Variable intv : nat -> V.  Variable as_nat : V -> option nat.
  Hypothesis as_nat_intv : forall k, as_nat (intv k) = Some k.
  Hypothesis var_np : forall n, var n <> Panic.
  Hypothesis bin_np : forall o a b, bin o a b <> Panic.
  Hypothesis un_np : forall o a, un o a <> Panic.
  Hypothesis call_np : forall f args, callf f args <> Panic.

  (* setting and evaluating ANY token sequence yields a value or an error code: the stack machine never pops an empty
     stack, never reads a non-integer argument count, never runs out of fuel *)
  Theorem C03_calculator_never_crashes : forall ts,
    calculate V const var bin un callf intv as_nat ts <> Fuel /\
    forall r, calculate V const var bin un callf intv as_nat ts = Ok r -> r <> Panic.
  Proof. exact (calculator_never_crashes V const var bin un callf intv as_nat as_nat_intv var_np bin_np un_np call_np). Qed.
End Calculator.

Print Assumptions C03_tokenizers_never_fail.
Print Assumptions C03_decoding_never_fails.
Print Assumptions C03_template_parsing_never_fails.
Print Assumptions C03_expression_parsing_terminates.
Print Assumptions C03_operators_never_panic.
Print Assumptions C03_functions_never_panic.
Print Assumptions C03_calculator_never_crashes.

(* State space: the objects this property's model stands for have exactly the fields the model accounts for (StateSpace.v;
   gen/StateSpaceGen.v is regenerated from the Go sources on every run). A new field - a cache, a memo, a counter - is state
   the model does not have, so the theorems above would no longer be about the object. *)
From Coq Require Import String.
Require Import StateSpaceGen StateSpace.
Open Scope string_scope.
Theorem C03_state_space :
  fields_of "calculator.ExpressionCalculator" = fields ["defaultVariables"; "defaultFunctions"; "variantOperations"; "parser"; "autoVariables"] /\
  fields_of "calculator/parsers.ExpressionParser" = fields ["tokenizer"; "expression"; "originalTokens"; "initialTokens"; "currentTokenIndex"; "variableNames"; "resultTokens"] /\
  fields_of "mustache.MustacheTemplate" = fields ["defaultVariables"; "parser"; "autoVariables"] /\
  fields_of "mustache/parsers.MustacheParser" = fields ["tokenizer"; "template"; "originalTokens"; "initialTokens"; "currentTokenIndex"; "variableNames"; "resultTokens"] /\
  fields_of "variants.Variant" = fields ["typ"; "value"] /\
  fields_of "tokenizers.AbstractTokenizer" = fields ["Overrides"; "mp"; "skipUnknown"; "skipWhitespaces"; "skipComments"; "skipEof"; "mergeWhitespaces"; "unifyNumbers"; "decodeStrings"; "commentState"; "numberState"; "quoteState"; "symbolState"; "whitespaceState"; "wordState"; "Scanner"; "NextTokenValue"; "LastTokenType"] /\
  fields_of "io.StringScanner" = fields ["content"; "position"; "line"; "column"].
Proof. vm_compute. repeat split; reflexivity. Qed.
Require Import StateSpaceAll.
(* ... and the library as a whole has no struct field and no package-level variable beyond the accounted ones: no hidden
   state through which one call, instance or goroutine could reach another *)
Theorem C03_no_hidden_state : go_structs = enc_structs /\ go_package_vars = enc_vars.
Proof. exact (conj structs_accounted package_vars_accounted). Qed.
Print Assumptions C03_no_hidden_state.
Print Assumptions C03_state_space.
