(* C01 — Expression value follows precedence, associativity and operand order.
   V, const, var, bin, un, callf are ARBITRARY: the theorems hold whatever the variant operations, the variable
   values and the functions do.  calculate = lexed tokens -> parser -> stack machine of ExpressionCalculator;
   eval = direct evaluation of the syntax tree (left operand, right operand, apply).  as_nat/intv model the
   argument-count constant that the parser pushes before a function token. *)
From Coq Require Import List ZArith Bool Lia.
Import ListNotations.
Require Import ExprParser ExprSound ExprComplete ExprTotal ExprEval ExprFacts.
Require Base ExprString ExprRename ExprSpacing LexGrammar TokModel Instances.

Section C01.
  Variable V : Type.
  Variable const : Z -> V.
  Variable var : Z -> outcome V.
  Variable bin : binop -> V -> V -> outcome V.
  Variable un : unop -> V -> outcome V.
  Variable callf : Z -> list V -> outcome V.
  Variable intv : nat -> V.
  Variable as_nat : V -> option nat.
  Hypothesis as_nat_intv : forall k, as_nat (intv k) = Some k.

  (* for every well-formed expression (sentence with tree e) the calculator's result is the value of the tree *)
  Theorem C01_calculator_result_is_tree_value : forall ts e, D0 ts e ->
    calculate V const var bin un callf intv as_nat ts = Ok (eval V const var bin un callf e).
  Proof. exact (calc_is_tree V const var bin un callf intv as_nat as_nat_intv). Qed.

  (* and conversely every result the calculator produces is the value of a syntax tree of the input *)
  Theorem C01_calculator_only_evaluates_trees : forall ts r, ts <> [] ->
    calculate V const var bin un callf intv as_nat ts = Ok r -> exists e, D0 ts e /\ r = eval V const var bin un callf e.
  Proof. exact (calc_only_trees V const var bin un callf intv as_nat as_nat_intv). Qed.

  (* the stack machine on a compiled tree: pushes exactly the tree's value, never pops an empty stack *)
  Theorem C01_stack_machine_runs_postorder : forall e rest stk,
    run V const var bin un callf intv as_nat (compile e ++ rest) stk =
    obind (eval V const var bin un callf e) (fun v => run V const var bin un callf intv as_nat rest (v :: stk)).
  Proof. exact (proj1 (run_app V const var bin un callf intv as_nat as_nat_intv)). Qed.

  (* each binary node applies its operation to its operands in written order *)
  Theorem C01_operands_in_written_order : forall o a b va vb,
    eval V const var bin un callf a = Val va -> eval V const var bin un callf b = Val vb ->
    eval V const var bin un callf (EBin o a b) = bin o va vb.
  Proof. exact (bin_operands_in_order V const var bin un callf). Qed.

  (* function calls receive exactly their written arguments, in order *)
  Theorem C01_calls_receive_written_arguments : forall f args vs,
    Forall2 (fun e v => eval V const var bin un callf e = Val v) (list_of args) vs ->
    eval V const var bin un callf (ECall f args) = callf f vs.
  Proof. exact (call_args_in_order V const var bin un callf). Qed.
  (* at string level: SetExpression + Evaluate on the text of a printed item sequence (ExprString.v: the expression
     tokenizer with the parser's options, lexical completion, parser, stack machine) is the value of its syntax tree;
     constants and variables are identified by the position of their token in the text, so const / var read the text *)
  Definition calculate_text (s : Base.str) : option (res (outcome V)) :=
    match ExprString.parse_string s with
    | Some (Ok prog) => Some (Ok (run V const var bin un callf intv as_nat prog []))
    | Some (Err c) => Some (Err c)
    | Some Fuel => Some Fuel
    | None => None
    end.
  Theorem C01_text_evaluates_to_the_value_of_its_tree : forall items e, items <> [] -> Forall ExprString.item_ok items ->
    Base.wf_str (ExprString.print items) -> D0 (ExprString.toks_from 0 items) e ->
    calculate_text (ExprString.print items) = Some (Ok (eval V const var bin un callf e)).
  Proof.
    intros items e H1 H2 H3 HD. unfold calculate_text. rewrite (ExprString.parse_string_of_print items H1 H2 H3).
    pose proof (calc_is_tree V const var bin un callf intv as_nat as_nat_intv _ _ HD) as Hc. unfold calculate in Hc.
    destruct (parse_top (ExprString.toks_from 0 items)) as [prog| |]; try discriminate. inversion Hc as [Hr]. reflexivity.
  Qed.
  (* ... and with ARBITRARY spacing: any whitespace runs and block comments between the items (or nothing, where
     neighbours cannot merge) - the text only has to be a lexeme sequence of the expression grammar *)
  Theorem C01_spaced_text_evaluates_to_the_value_of_its_tree : forall gi e, gi <> [] -> ExprSpacing.gi_ok gi ->
    LexGrammar.lexemes TokModel.expr_cfg (TokModel.regs_of Tables.expr_symbols) (ExprSpacing.glexs gi) ->
    Base.wf_str (concat (map snd (ExprSpacing.glexs gi))) -> D0 (ExprSpacing.toks_at 0 gi) e ->
    calculate_text (concat (map snd (ExprSpacing.glexs gi))) = Some (Ok (eval V const var bin un callf e)).
  Proof.
    intros gi e H1 H2 H3 H4 HD. unfold calculate_text. rewrite (ExprSpacing.parse_string_spaced gi H1 H2 H3 H4).
    pose proof (calc_is_tree V const var bin un callf intv as_nat as_nat_intv _ _ HD) as Hc. unfold calculate in Hc.
    destruct (parse_top (ExprSpacing.toks_at 0 gi)) as [prog| |]; try discriminate. inversion Hc as [Hr]. reflexivity.
  Qed.
End C01.

(* whitespace, comments and the resulting token positions never change the result: two spacings of the same items give
   token sequences that differ only in the numbering of constants and variables (ExprSpacing.spacing_only_renumbers),
   the grammar is parametric in that numbering, and so is the value as long as position f i of the second text carries what
   position i of the first carries *)
Theorem C01_spacing_only_renumbers_the_tokens : forall gi gi', Forall ExprString.item_ok (map fst gi) -> map fst gi = map fst gi' ->
  ExprSpacing.toks_at 0 gi' = map (ExprRename.rt (ExprSpacing.ren (ExprSpacing.pos_at 0 gi) (ExprSpacing.pos_at 0 gi'))) (ExprSpacing.toks_at 0 gi).
Proof. exact ExprSpacing.spacing_only_renumbers. Qed.
Theorem C01_result_does_not_depend_on_the_numbering : forall (V : Type) (f : Z -> Z) const const' var var' bin un callf callf' intv as_nat,
  (forall i, const' (f i) = const i) -> (forall i, var' (f i) = var i) -> (forall i vs, callf' (f i) vs = callf i vs) ->
  (forall k, as_nat (intv k) = Some k) -> forall ts e, D0 ts e ->
  calculate V const' var' bin un callf' intv as_nat (map (ExprRename.rt f) ts) = calculate V const var bin un callf intv as_nat ts.
Proof. intros V f c c' v v' b u cf cf' iv an H1 H2 H3 H4 ts e HD. exact (ExprRename.calculator_is_parametric V f c c' v v' b u cf cf' H1 H2 H3 iv an H4 ts e HD). Qed.
(* non-vacuity:  a  +12/* c */ *b  meets the premises and parses to tokens at positions 0, 2, 3, 5, 6 *)
Example C01_spaced_text_premises_satisfiable :
  ExprSpacing.gi_ok ExprSpacing.spaced_sample /\
  LexGrammar.lexemes TokModel.expr_cfg (TokModel.regs_of Tables.expr_symbols) (ExprSpacing.glexs ExprSpacing.spaced_sample) /\
  Base.wf_str (concat (map snd (ExprSpacing.glexs ExprSpacing.spaced_sample))).
Proof. exact ExprSpacing.spaced_sample_ok. Qed.

(* redundant parentheses never change the tree (hence, by the theorems above, never the result) *)
Theorem C01_parentheses_add_no_node : forall ts e, D0 ts e -> D0 (TLP :: ts ++ [TRP]) e.
Proof. intros ts e H. exact (proj2 (paren_same_tree ts e H)). Qed.

(* every binary operator is left-associative (the five binary levels of the precedence table) *)
Theorem C01_left_associative :
  (forall x y z ex ey ez t1 o1 t2 o2, D0 x ex -> D1 y ey -> D1 z ez -> op0 t1 = Some o1 -> op0 t2 = Some o2 -> D0 ((x ++ t1 :: y) ++ t2 :: z) (EBin o2 (EBin o1 ex ey) ez)) /\
  (forall x y z ex ey ez t1 o1 t2 o2, D2 x ex -> D3 y ey -> D3 z ez -> op2 t1 = Some o1 -> op2 t2 = Some o2 -> D2 ((x ++ t1 :: y) ++ t2 :: z) (EBin o2 (EBin o1 ex ey) ez)) /\
  (forall x y z ex ey ez t1 o1 t2 o2, D3 x ex -> D4 y ey -> D4 z ez -> op3 t1 = Some o1 -> op3 t2 = Some o2 -> D3 ((x ++ t1 :: y) ++ t2 :: z) (EBin o2 (EBin o1 ex ey) ez)) /\
  (forall x y z ex ey ez t1 o1 t2 o2, D4 x ex -> D5 y ey -> D5 z ez -> op4 t1 = Some o1 -> op4 t2 = Some o2 -> D4 ((x ++ t1 :: y) ++ t2 :: z) (EBin o2 (EBin o1 ex ey) ez)) /\
  (forall x y z ex ey ez t1 o1 t2 o2, D5 x ex -> D6 y ey -> D6 z ez -> op5 t1 = Some o1 -> op5 t2 = Some o2 -> D5 ((x ++ t1 :: y) ++ t2 :: z) (EBin o2 (EBin o1 ex ey) ez)).
Proof. exact (conj left_assoc0 (conj left_assoc2 (conj left_assoc3 (conj left_assoc4 left_assoc5)))). Qed.

(* non-vacuity: a sentence using precedence, left associativity, a call and redundant parentheses *)
Example C01_nonvacuous :
  parse_top [TVar 1; TMinus; TVar 2; TMinus; TLP; TVar 3; TRP; TStar; TVar 4; TLP; TVar 5; TComma; TConst 6; TRP]
  = Ok [RVar 1; RVar 2; RBin OSub; RVar 3; RVar 5; RConst 6; RArgc 2; RFunc 4; RBin OMul; RBin OSub].
Proof. vm_compute. reflexivity. Qed.

Print Assumptions C01_calculator_result_is_tree_value.
Print Assumptions C01_text_evaluates_to_the_value_of_its_tree.
Print Assumptions C01_spaced_text_evaluates_to_the_value_of_its_tree.
Print Assumptions C01_spacing_only_renumbers_the_tokens.
Print Assumptions C01_result_does_not_depend_on_the_numbering.
Print Assumptions C01_calculator_only_evaluates_trees.
Print Assumptions C01_stack_machine_runs_postorder.
Print Assumptions C01_operands_in_written_order.
Print Assumptions C01_calls_receive_written_arguments.
Print Assumptions C01_parentheses_add_no_node.
Print Assumptions C01_left_associative.

(* State space: the objects this property's model stands for have exactly the fields the model accounts for (StateSpace.v;
   gen/StateSpaceGen.v is regenerated from the Go sources on every run). A new field - a cache, a memo, a counter - is state
   the model does not have, so the theorems above would no longer be about the object. *)
From Coq Require Import String.
Require Import StateSpaceGen StateSpace.
Open Scope string_scope.
Theorem C01_state_space :
  fields_of "calculator.ExpressionCalculator" = fields ["defaultVariables"; "defaultFunctions"; "variantOperations"; "parser"; "autoVariables"] /\
  fields_of "calculator/parsers.ExpressionParser" = fields ["tokenizer"; "expression"; "originalTokens"; "initialTokens"; "currentTokenIndex"; "variableNames"; "resultTokens"] /\
  fields_of "calculator.CalculationStack" = fields ["values"] /\
  fields_of "calculator/variables.VariableCollection" = fields ["variables"] /\
  fields_of "calculator/variables.Variable" = fields ["name"; "value"].
Proof. vm_compute. repeat split; reflexivity. Qed.
Print Assumptions C01_state_space.
