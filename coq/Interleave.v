(* C19, concurrency as logic: threads whose steps READ a shared store and WRITE only their own private state.
   Every interleaving gives every thread the result of running its steps alone.  What this model cannot exhibit: Go data
   races and memory visibility - those are exercised by the harness under the race detector. *)
From Coq Require Import List Arith Lia.
Import ListNotations.

Section Interleave.
  Variable St Pr : Type.
  Variable step : St -> Pr -> Pr.                 (* one evaluation step of a thread: reads the shared store s *)
  Variable d : Pr.

  Fixpoint upd (l : list Pr) (i : nat) (x : Pr) : list Pr :=
    match l, i with [], _ => [] | _ :: r, O => x :: r | y :: r, S j => y :: upd r j x end.

  (* a schedule is the sequence of thread numbers that take a step *)
  Definition run (s : St) (ps : list Pr) (sched : list nat) : list Pr :=
    fold_left (fun ps i => upd ps i (step s (nth i ps d))) sched ps.

  Fixpoint iter (n : nat) (s : St) (p : Pr) : Pr := match n with O => p | S m => iter m s (step s p) end.
  Definition count (i : nat) (sched : list nat) : nat := length (filter (Nat.eqb i) sched).

  Lemma upd_same l i x : (i < length l)%nat -> nth i (upd l i x) d = x.
  Proof. revert i. induction l as [|y l IH]; intros [|i] H; cbn in *; try lia; [reflexivity|apply IH; lia]. Qed.
  Lemma upd_other l i j x : i <> j -> nth j (upd l i x) d = nth j l d.
  Proof. revert i j. induction l as [|y l IH]; intros [|i] [|j] H; cbn; try reflexivity; try congruence. apply IH. congruence. Qed.
  Lemma upd_length l i x : length (upd l i x) = length l.
  Proof. revert i. induction l as [|y l IH]; intros [|i]; cbn; auto. Qed.

  (* each thread ends with the result of its own steps run alone, whatever the schedule *)
  Theorem interleaving_independent s sched : forall ps i, (i < length ps)%nat ->
    nth i (run s ps sched) d = iter (count i sched) s (nth i ps d).
  Proof.
    induction sched as [|j sched IH]; intros ps i Hi; [reflexivity|]. unfold run in *. cbn [fold_left].
    rewrite IH by (rewrite upd_length; exact Hi). unfold count. cbn [filter].
    destruct (Nat.eqb_spec i j) as [->|Hne].
    - cbn [length iter]. rewrite upd_same by exact Hi. reflexivity.
    - rewrite upd_other by congruence. reflexivity.
  Qed.

  (* in particular two schedules with the same number of steps per thread give the same results *)
  Corollary schedules_agree s ps sched1 sched2 i : (i < length ps)%nat -> count i sched1 = count i sched2 ->
    nth i (run s ps sched1) d = nth i (run s ps sched2) d.
  Proof. intros Hi Hc. rewrite !interleaving_independent by exact Hi. rewrite Hc. reflexivity. Qed.
End Interleave.
