(* C20, the implementation layer: variants as Go has them - objects on a heap, a list held as a slice (backing
   array, length, spare capacity) - and the operations of variants/Variant.go on that heap.  Elements are stored in the
   backing arrays by value: an element object is created fresh for every write; the one operation that writes an element
   object in place (HSetElem) is a write to its slot, see there.
   VariantHeapProofs.v shows that under the discipline of DESIGN.md 4.3 this layer refines the value model
   (VariantValue.v): every register and every caller list holds, after every history, the value the value model says. *)
From Coq Require Import List ZArith Bool Lia.
Import ListNotations.
Require Import VariantValue.
Open Scope Z_scope.

(* a variant object: a scalar (anything but an array) or a slice = backing array id + length *)
Inductive hcell := HVal (v : val) | HArr (b : nat) (len : nat).

Record heap := { cell : nat -> hcell; back : nat -> list val; nc : nat; nb : nat }.

Definition updf {A} (f : nat -> A) (k : nat) (x : A) : nat -> A := fun i => if Nat.eqb i k then x else f i.

Definition alloc_cell (h : heap) (c : hcell) : nat * heap :=
  (nc h, {| cell := updf (cell h) (nc h) c; back := back h; nc := S (nc h); nb := nb h |}).
Definition alloc_back (h : heap) (l : list val) : nat * heap :=
  (nb h, {| cell := cell h; back := updf (back h) (nb h) l; nc := nc h; nb := S (nb h) |}).
Definition set_cell (h : heap) (a : nat) (c : hcell) : heap :=
  {| cell := updf (cell h) a c; back := back h; nc := nc h; nb := nb h |}.
Definition set_back (h : heap) (b : nat) (l : list val) : heap :=
  {| cell := cell h; back := updf (back h) b l; nc := nc h; nb := nb h |}.

Fixpoint replace_nth (l : list val) (i : nat) (x : val) : list val :=
  match l, i with [], _ => [] | _ :: r, O => x :: r | y :: r, S j => y :: replace_nth r j x end.

Section Ops.
  (* Go's append over-allocates: slack n is the spare capacity a reallocation at length n adds (unspecified) *)
  Variable slack : nat -> nat.

  (* append(s, e) *)
  Definition happend (h : heap) (b len : nat) (e : val) : heap * (nat * nat) :=
    if Nat.ltb len (length (back h b)) then (set_back h b (replace_nth (back h b) len e), (b, S len))
    else let '(b', h') := alloc_back h (firstn len (back h b) ++ e :: repeat Null (slack len)) in (h', (b', S len)).

  (* make([]*Variant, len(v)); copy *)
  Definition hcopy (h : heap) (b len : nat) : heap * (nat * nat) :=
    let '(b', h') := alloc_back h (firstn len (back h b)) in (h', (b', len)).

  Record hmach := { hp : heap; hregs : list nat; hlists : list (nat * nat) }.
  Definition hreg (m : hmach) (i : nat) : nat := nth i (hregs m) O.
  Definition hlst (m : hmach) (k : nat) : nat * nat := nth k (hlists m) (O, O).

  (* flavours: which Go API an operation goes through *)
  Inductive hop :=
  | HNew (i : nat) (v : val) (inplace : bool)                (* v[i] = NewVariant(host)  |  v[i].SetAsX(host) *)
  | HFromList (i k : nat) (inplace : bool)                   (* v[i] = VariantFromArray(l[k]) | v[i].SetAsArray(l[k]) *)
  | HCopy (i j : nat) (fl : nat)                             (* 0 Clone / NewVariant(v[j]) (new object), 1 v[i].SetAsObject(v[j]), 2 v[i].Assign(v[j]) *)
  | HSetByIndex (i idx : nat) (v : val)
  | HSetLength (i n : nat)
  | HListWrite (k idx : nat) (v : val)
  | HListAppend (k : nat) (v : val)
  | HListTruncate (k : nat)
  | HSetElem (i idx : nat) (v : val).                       (* v[i].GetByIndex(idx).SetAsX(host): the element object in that slot is set in place *)

  Definition set_hreg (m : hmach) (i : nat) (a : nat) (h : heap) : hmach := {| hp := h; hregs := upd (hregs m) i a; hlists := hlists m |}.
  Definition set_hlst (m : hmach) (k : nat) (s : nat * nat) (h : heap) : hmach := {| hp := h; hregs := hregs m; hlists := upd (hlists m) k s |}.
  Definition with_heap (m : hmach) (h : heap) : hmach := {| hp := h; hregs := hregs m; hlists := hlists m |}.

  (* the loop "for len(a) <= index { a = append(a, &Variant{Null}) }" *)
  Fixpoint pad (fuel : nat) (h : heap) (b len : nat) (upto : nat) : heap * (nat * nat) :=
    match fuel with O => (h, (b, len)) | S f =>
      if Nat.ltb len upto then
        let '(h2, (b2, len2)) := happend h b len Null in pad f h2 b2 len2 upto
      else (h, (b, len))
    end.

  Definition hstep (m : hmach) (o : hop) : hmach :=
    let h := hp m in
    match o with
    | HNew i v inplace =>
        if inplace then with_heap m (set_cell h (hreg m i) (HVal v))
        else let '(a, h1) := alloc_cell h (HVal v) in set_hreg m i a h1
    | HFromList i k inplace =>
        let '(lb, ll) := hlst m k in
        let '(h1, (b, n)) := hcopy h lb ll in
        if inplace then with_heap m (set_cell h1 (hreg m i) (HArr b n))
        else let '(a, h2) := alloc_cell h1 (HArr b n) in set_hreg m i a h2
    | HCopy i j fl =>
        let src := cell h (hreg m j) in
        match fl with
        | 2%nat => with_heap m (set_cell h (hreg m i) src)                         (* Assign: type and payload, the slice included *)
        | _ =>
            let '(h1, c) := match src with
                            | HArr b n => let '(h1, (b', n')) := hcopy h b n in (h1, HArr b' n')
                            | HVal v => (h, HVal v) end in
            match fl with
            | 1%nat => with_heap m (set_cell h1 (hreg m i) c)
            | _ => let '(a, h2) := alloc_cell h1 c in set_hreg m i a h2
            end
        end
    | HSetByIndex i idx v =>
        match cell h (hreg m i) with
        | HArr b n =>
            let '(h1, (b1, n1)) := pad (S idx) h b n (S idx) in
            let h2 := set_back h1 b1 (replace_nth (back h1 b1) idx v) in
            with_heap m (set_cell h2 (hreg m i) (HArr b1 n1))
        | HVal _ => m
        end
    | HSetLength i n =>
        match cell h (hreg m i) with
        | HArr b len => let '(h1, (b1, n1)) := pad n h b len n in with_heap m (set_cell h1 (hreg m i) (HArr b1 n1))
        | HVal _ => m
        end
    | HListWrite k idx v =>
        let '(lb, ll) := hlst m k in
        if Nat.ltb idx ll then with_heap m (set_back h lb (replace_nth (back h lb) idx v)) else m
    | HListAppend k v =>
        let '(lb, ll) := hlst m k in
        let '(h2, s) := happend h lb ll v in set_hlst m k s h2
    | HListTruncate k => let '(lb, _) := hlst m k in set_hlst m k (lb, O) h
    | HSetElem i idx v =>
        (* elements are stored by value, so setting the element object in place is a write to its slot; this is what Go
           does as long as the element object is referenced from this backing array only (an object put into two arrays
           by a list copy is shared by both in Go and not here).  The cell is rewritten with the slice it already
           holds - a no-op that lets one lemma cover every in-place update *)
        match cell h (hreg m i) with
        | HArr b n => if Nat.ltb idx n then with_heap m (set_cell (set_back h b (replace_nth (back h b) idx v)) (hreg m i) (HArr b n)) else m
        | HVal _ => m
        end
    end.

  (* what a variant object holds, as a value *)
  Definition slice_val (h : heap) (b n : nat) : list val := firstn n (back h b).
  Definition obj_val (h : heap) (a : nat) : val := match cell h a with HVal v => v | HArr b n => Arr (slice_val h b n) end.
End Ops.

(* the machine the value model sees: what every register and caller list holds *)
Definition abs (m : hmach) : mach :=
  {| regs := map (obj_val (hp m)) (hregs m); lists := map (fun s => slice_val (hp m) (fst s) (snd s)) (hlists m) |}.

(* the initial machine: nr empty variants; caller lists given as a backing array and a length *)
Definition hinit (nr : nat) (ls : list (list val * nat)) : hmach :=
  {| hp := {| cell := fun _ => HVal Null; back := fun b => fst (nth b ls ([], O)); nc := nr; nb := length ls |};
     hregs := seq 0 nr; hlists := map (fun k => (k, snd (nth k ls ([], O)))) (seq 0 (length ls)) |}.
Definition vinit (nr : nat) (ls : list (list val * nat)) : mach :=
  {| regs := repeat Null nr; lists := map (fun p => firstn (snd p) (fst p)) ls |}.

