(* Theorems about the mustache variable map (MustacheVars.v): what GetVariable / CreateVariables guarantee for EVERY
   iteration order a Go map may choose. *)
From Coq Require Import List ZArith Bool Lia Permutation.
Import ListNotations.
Require Import Collections CollectionsProofs MustacheVars.

Lemma existsb_perm {A} (f : A -> bool) l l' : Permutation l l' -> existsb f l = existsb f l'.
Proof.
  induction 1 as [|x l l' _ IH|x y l|l l' l'' _ IH1 _ IH2]; cbn [existsb]; try congruence.
  destruct (f x), (f y); reflexivity.
Qed.

Lemma FOP_snoc {A} (R : A -> A -> Prop) l x : ForallOrdPairs R l -> Forall (fun a => R a x) l -> ForallOrdPairs R (l ++ [x]).
Proof.
  induction 1 as [|a l Ha Hl IH]; intros HF; cbn [app].
  - constructor; constructor.
  - inversion HF as [|? ? Hax HF']; subst. constructor.
    + apply Forall_app; split; [exact Ha | constructor; [exact Hax | constructor]].
    + apply IH; exact HF'.
Qed.

Section MVarsProofs.
  Variable low : str -> str.
  Notation msame := (msame low).
  Notation mmatch := (mmatch low).
  Notation mget := (mget low).
  Notation mfound := (mfound low).
  Notation mcreate_step := (mcreate_step low).
  Notation mcreate := (mcreate low).
  Notation case_distinct := (case_distinct low).

  Lemma msame_refl a : msame a a = true. Proof. apply str_eqb_refl. Qed.
  Lemma msame_sym a b : msame a b = msame b a.
  Proof.
    unfold MustacheVars.msame. destruct (str_eqb (low a) (low b)) eqn:E.
    - apply str_eqb_eq in E. rewrite E. symmetry; apply str_eqb_refl.
    - destruct (str_eqb (low b) (low a)) eqn:E'; [|reflexivity]. apply str_eqb_eq in E'. rewrite E' in E. rewrite str_eqb_refl in E. discriminate.
  Qed.
  Lemma msame_trans a b c : msame a c = true -> msame b c = true -> msame a b = true.
  Proof.
    unfold MustacheVars.msame. intros H1 H2. apply str_eqb_eq in H1. apply str_eqb_eq in H2. rewrite H1, H2. apply str_eqb_refl.
  Qed.
  Lemma msame_false_exact a b : msame a b = false -> str_eqb a b = false.
  Proof.
    intros H. destruct (str_eqb a b) eqn:E; [|reflexivity]. apply str_eqb_eq in E. subst. rewrite msame_refl in H. discriminate.
  Qed.

  (* whether a name is found does not depend on the iteration order *)
  Theorem mfound_perm m m' n : Permutation m m' -> mfound m n = mfound m' n.
  Proof. apply existsb_perm. Qed.

  Lemma mfound_false m n : n <> [] -> mfound m n = false -> Forall (fun e => msame (fst e) n = false) m.
  Proof.
    intros Hn. unfold MustacheVars.mfound. induction m as [|e m IH]; cbn [existsb]; intros H; [constructor|].
    apply orb_false_iff in H. destruct H as [H1 H2]. constructor; [|apply IH; exact H2].
    unfold MustacheVars.mmatch in H1. destruct n; [contradiction Hn; reflexivity | exact H1].
  Qed.

  Lemma mset_absent m k v : Forall (fun e => str_eqb (fst e) k = false) m -> mset m k v = m ++ [(k, v)].
  Proof.
    induction 1 as [|[k' v'] m Hk _ IH]; cbn [mset app]; [reflexivity|]. cbn [fst] in Hk. rewrite Hk, IH. reflexivity.
  Qed.

  Lemma mcreate_step_spec m n : n <> [] ->
    (mfound m n = true /\ mcreate_step m n = m) \/
    (mfound m n = false /\ Forall (fun e => msame (fst e) n = false) m /\ mcreate_step m n = m ++ [(n, [])]).
  Proof.
    intros Hn. unfold MustacheVars.mcreate_step. destruct (mfound m n) eqn:E; [left; auto|right].
    pose proof (mfound_false m n Hn E) as HF. repeat split; [exact HF|].
    apply mset_absent. eapply Forall_impl; [|exact HF]. intros e He. apply msame_false_exact. exact He.
  Qed.

  (* the resulting map, as a set of entries, does not depend on the iteration orders met on the way *)
  Lemma mcreate_step_perm m m' n : n <> [] -> Permutation m m' -> Permutation (mcreate_step m n) (mcreate_step m' n).
  Proof.
    intros Hn HP.
    destruct (mcreate_step_spec m n Hn) as [[F E]|[F [_ E]]], (mcreate_step_spec m' n Hn) as [[F' E']|[F' [_ E']]];
      rewrite E, E'; rewrite (mfound_perm m m' n HP) in F.
    - exact HP.
    - congruence.
    - congruence.
    - apply Permutation_app_tail; exact HP.
  Qed.
  Theorem mcreate_perm names : Forall (fun n => n <> []) names -> forall m m', Permutation m m' -> Permutation (mcreate m names) (mcreate m' names).
  Proof.
    induction 1 as [|n r Hn _ IH]; intros m m' HP; cbn [MustacheVars.mcreate fold_left]; [exact HP|].
    apply IH. apply mcreate_step_perm; assumption.
  Qed.

  (* existing entries and values are kept, in place; what is added has the empty value *)
  Theorem mcreate_ext names : Forall (fun n => n <> []) names ->
    forall m, exists ext, mcreate m names = m ++ ext /\ Forall (fun e => snd e = [] /\ In (fst e) names) ext.
  Proof.
    induction 1 as [|n r Hn _ IH]; intros m; cbn [MustacheVars.mcreate fold_left].
    - exists []. rewrite app_nil_r. split; [reflexivity|constructor].
    - destruct (IH (mcreate_step m n)) as [ext [E F]]. unfold MustacheVars.mcreate in E. rewrite E.
      assert (F' : Forall (fun e => snd e = [] /\ In (fst e) (n :: r)) ext).
      { eapply Forall_impl; [|exact F]. intros e [He1 He2]. split; [exact He1|right; exact He2]. }
      destruct (mcreate_step_spec m n Hn) as [[_ S]|[_ [_ S]]]; rewrite S.
      + exists ext. split; [reflexivity|exact F'].
      + exists ((n, []) :: ext). rewrite <- app_assoc. split; [reflexivity|]. constructor; [split; [reflexivity|left; reflexivity]|exact F'].
  Qed.

  Lemma mfound_app m ext n : mfound m n = true -> mfound (m ++ ext) n = true.
  Proof. unfold MustacheVars.mfound. rewrite existsb_app. intros ->. reflexivity. Qed.

  (* every reported name resolves afterwards, in whatever order the map is iterated *)
  Theorem mcreate_resolves names : Forall (fun n => n <> []) names -> forall m n, In n names -> mfound (mcreate m names) n = true.
  Proof.
    induction 1 as [|a r Ha Hr IH]; intros m n HIn; [contradiction|]. cbn [MustacheVars.mcreate fold_left].
    destruct HIn as [->|HIn]; [|apply IH; exact HIn].
    destruct (mcreate_ext r Hr (mcreate_step m n)) as [ext [E _]]. unfold MustacheVars.mcreate in E. rewrite E. apply mfound_app.
    destruct (mcreate_step_spec m n Ha) as [[F S]|[_ [_ S]]]; rewrite S; [exact F|].
    unfold MustacheVars.mfound. rewrite existsb_app. cbn [existsb fst]. unfold MustacheVars.mmatch. cbn [fst].
    destruct n; [contradiction Ha; reflexivity|]. rewrite msame_refl. rewrite orb_true_r. reflexivity.
  Qed.

  (* no second key for a name, ignoring case, is ever created *)
  Theorem mcreate_case_distinct names : Forall (fun n => n <> []) names -> forall m, case_distinct m -> case_distinct (mcreate m names).
  Proof.
    induction 1 as [|n r Hn _ IH]; intros m Hm; cbn [MustacheVars.mcreate fold_left]; [exact Hm|]. apply IH.
    destruct (mcreate_step_spec m n Hn) as [[_ S]|[_ [HF S]]]; rewrite S; [exact Hm|].
    apply FOP_snoc; [exact Hm|]. eapply Forall_impl; [|exact HF]. intros e He. exact He.
  Qed.

  Lemma case_distinct_unique m : case_distinct m -> forall a b, In a m -> In b m -> msame (fst a) (fst b) = true -> a = b.
  Proof.
    induction 1 as [|x l Hx _ IH]; intros a b Ha Hb Hs; [contradiction|].
    rewrite Forall_forall in Hx.
    destruct Ha as [<-|Ha], Hb as [<-|Hb]; [reflexivity| | |apply IH; assumption].
    - rewrite (Hx b Hb) in Hs. discriminate.
    - rewrite msame_sym in Hs. rewrite (Hx a Ha) in Hs. discriminate.
  Qed.

  (* with case-distinct keys GetVariable is a function of the map: the same entry for every iteration order *)
  Theorem mget_perm m m' n : case_distinct m -> Permutation m m' -> mget m' n = mget m n.
  Proof.
    intros Hd HP. unfold MustacheVars.mget.
    destruct (List.find (mmatch n) m) as [x|] eqn:E.
    - destruct (find_some _ _ E) as [Hx Hfx].
      destruct (List.find (mmatch n) m') as [y|] eqn:E'.
      + destruct (find_some _ _ E') as [Hy Hfy]. f_equal.
        apply (case_distinct_unique m Hd); [apply (Permutation_in _ (Permutation_sym HP)); exact Hy|exact Hx|].
        unfold MustacheVars.mmatch in Hfx, Hfy. destruct n; [discriminate|]. eapply msame_trans; eassumption.
      + pose proof (find_none _ _ E' x (Permutation_in _ HP Hx)) as H. rewrite H in Hfx. discriminate.
    - destruct (List.find (mmatch n) m') as [y|] eqn:E'; [|reflexivity].
      destruct (find_some _ _ E') as [Hy Hfy].
      pose proof (find_none _ _ E y (Permutation_in _ (Permutation_sym HP) Hy)) as H. rewrite H in Hfy. discriminate.
  Qed.

  (* GetVariable finds an entry exactly when CreateVariables would not add the name; the entry matches ignoring case *)
  Theorem mget_found m n : (mget m n = None /\ mfound m n = false) \/ (exists e, mget m n = Some e /\ In e m /\ n <> [] /\ msame (fst e) n = true /\ mfound m n = true).
  Proof.
    unfold MustacheVars.mget, MustacheVars.mfound. destruct (List.find (mmatch n) m) as [e|] eqn:E.
    - right. destruct (find_some _ _ E) as [Hi Hf]. exists e. repeat split; try assumption.
      + intros ->. discriminate.
      + unfold MustacheVars.mmatch in Hf. destruct n; [discriminate|exact Hf].
      + apply existsb_exists. exists e; split; assumption.
    - left. split; [reflexivity|]. destruct (existsb (mmatch n) m) eqn:X; [|reflexivity].
      apply existsb_exists in X. destruct X as [x [Hx Hfx]]. rewrite (find_none _ _ E x Hx) in Hfx. discriminate.
  Qed.
End MVarsProofs.

(* the premise of mget_perm is necessary: with two keys equal ignoring case the entry returned depends on the iteration
   order (known finding K1) *)
Definition ascii_low : str -> str := map (fun c => if (65 <=? c)%Z && (c <=? 90)%Z then (c + 32)%Z else c).
Theorem mget_order_dependent_refuted :
  exists m m' n, Permutation m m' /\ mget ascii_low m n <> mget ascii_low m' n.
Proof.
  exists [([65%Z], [49%Z]); ([97%Z], [50%Z])], [([97%Z], [50%Z]); ([65%Z], [49%Z])], [97%Z].
  split; [apply perm_swap|]. vm_compute. discriminate.
Qed.
