(* The four built-in tokenizers as executable configurations of the generic loop (Tokenizer.v / Instances.v),
   built from the tables that the translator extracts from the Go constructors on every run (gen/Tables.v):
   character-state ranges, state implementations per role, word / whitespace character ranges, symbol
   registrations, keywords.  Character classes go through the CharReferenceMap model (CharMap.v), line/column
   through the scanner model (ScannerLink.v), string decoding through Quote.v. *)
From Coq Require Import List ZArith Bool.
Import ListNotations.
Require Import Base Cursor ScannerLink Trie States Tokenizer Instances CharMap Quote Tables.
Open Scope Z_scope.

Definition lcf : cur -> Z * Z := cur_lc.
Definition plcf : cur -> Z * Z := cur_plc.

(* ---- character-class maps: a SetCharacterState / SetWordChars call sequence run through the map model ---- *)
Definition range_ops (l : list (Z * Z * Z)) : list (op Z) :=
  map (fun e : Z * Z * Z => let '(a, b, r) := e in Add Z a b (if r =? 0 then None else Some r)) l.
Definition ranges_map (l : list (Z * Z * Z)) : CharMap.result Z := run Z (empty Z) (range_ops l).
Definition map_lookup (m : CharMap.result Z) (c : Z) : option Z := match m with CharMap.Done _ m' => lookup Z m' c | CharMap.Panic _ => None end.
Definition bool_ranges (l : list (Z * Z * bool)) : list (Z * Z * Z) :=
  map (fun e : Z * Z * bool => let '(a, b, en) := e in (a, b, if en : bool then 1 else 0)) l.
Definition class_of (m : CharMap.result Z) (c : Z) : bool := match map_lookup m c with Some _ => true | None => false end.

(* ---- which implementation fills each state role ---- *)
Definition kind_of_impl (z : Z) : option skind :=
  match z with
  | 1 => Some KSymbol | 2 => Some KNumber | 3 => Some KExprNumber | 4 => Some KWord | 5 => Some KExprWord | 6 => Some KWs
  | 7 => Some KQuote | 8 => Some KExprQuote | 9 => Some KCsvQuote | 10 => Some KHashComment | 11 => Some KCComment
  | 13 => Some KCsvSymbol | 14 => Some KWord | _ => None
  end.
Fixpoint assoc (l : list (Z * Z)) (k : Z) : option Z :=
  match l with [] => None | (a, b) :: r => if a =? k then Some b else assoc r k end.
Definition role_kind (states : list (Z * Z)) (role : Z) : option skind :=
  match assoc states role with Some i => kind_of_impl i | None => None end.
Definition table_of (states : list (Z * Z)) (m : CharMap.result Z) (c : Z) : option skind :=
  match map_lookup m c with Some role => role_kind states role | None => None end.

(* ---- symbols and keywords ---- *)
Definition regs_of (l : list (list Z * Z)) : list (str * ttype) := map (fun e => (fst e, ttype_of_code (snd e))) l.

(* strings.ToUpper restricted to what can matter for a comparison with an ASCII keyword: ASCII letters, and the two
   non-ASCII letters whose upper case is ASCII (dotless i U+0131 -> I, long s U+017F -> S) *)
Definition upper_char (c : Z) : Z :=
  if (97 <=? c) && (c <=? 122) then c - 32 else if c =? 305 then 73 else if c =? 383 then 83 else c.
Definition upper (s : str) : str := map upper_char s.
Definition keyword_in (kws : list (list Z)) (s : str) : bool := existsb (fun k => str_eqb k (upper s)) kws.

(* ---- the maps, evaluated once (they are functions of gen/Tables.v only) ---- *)
Definition generic_chmap := Eval vm_compute in ranges_map generic_chartable.
Definition expr_chmap := Eval vm_compute in ranges_map expr_chartable.
Definition mustache_chmap := Eval vm_compute in ranges_map mustache_chartable.
Definition generic_wordmap := Eval vm_compute in ranges_map (bool_ranges generic_wordchars).
Definition expr_wordmap := Eval vm_compute in ranges_map (bool_ranges expr_wordchars).
Definition generic_wsmap := Eval vm_compute in ranges_map (bool_ranges generic_wschars).

Definition generic_cfg : config :=
  Build_config (table_of generic_states generic_chmap) (class_of generic_wordmap) (class_of generic_wsmap)
     (build (regs_of generic_symbols)) (fun _ => false).
Definition expr_cfg : config :=
  Build_config (table_of expr_states expr_chmap) (class_of expr_wordmap) (class_of generic_wsmap)
     (build (regs_of expr_symbols)) (keyword_in keywords).
Definition mustache_cfg : config :=
  Build_config (table_of mustache_states mustache_chmap) (class_of generic_wordmap) (class_of generic_wsmap)
     (build (regs_of mustache_symbols)) (fun _ => false).

(* CsvTokenizer.AssignStates and NewCsvWordState for given field separators and quote symbols *)
Definition csv_chartable (seps quotes : list Z) : list (Z * Z * Z) :=
  [(0, 65535, 3); (13, 13, 1); (10, 10, 1)] ++ map (fun c => (c, c, 1)) seps ++ map (fun c => (c, c, 5)) quotes.
Definition csv_wordchars (seps quotes : list Z) : list (Z * Z * bool) :=
  [(0, 65535, true); (13, 13, false); (10, 10, false)] ++ map (fun c => (c, c, false)) seps ++ map (fun c => (c, c, false)) quotes.
Definition csv_cfg (seps quotes : list Z) : config :=
  let chm := ranges_map (csv_chartable seps quotes) in
  let wm := ranges_map (bool_ranges (csv_wordchars seps quotes)) in
  Build_config (table_of csv_states chm) (class_of wm) (fun _ => false)
     (build (regs_of csv_symbols)) (fun _ => false).

(* ---- string decoding of the quote state of each tokenizer (total: C14) ---- *)
Definition undo {A} (o : Quote.outcome A) (d : A) : A := match o with Quote.Ok a => a | Quote.Panic => d end.
Definition decode_generic (v : str) (q : Z) : str := undo (Quote.gdecode q v) v.
Definition decode_doubled (v : str) (q : Z) : str := undo (Quote.decode q v) v.

(* ---- the mustache tokenizer: text mode (special) in front of the loop ---- *)
Definition is_close (v : str) : bool := str_eqb v [125; 125] || str_eqb v [125; 125; 125].
Definition mustache_produce (special : bool) (c : cur) : option (rawtok * cur * bool) :=
  let go_tag (c1 : cur) :=
    match produce lcf plcf mustache_cfg Datatypes.tt c1 with
    | None => None
    | Some (r, c', _) => Some (r, c', ttype_eqb (ty (rtok r)) Symbol && is_close (value (rtok r)))
    end in
  if special then
    let '(tok, c1) := special_next plcf c in
    match value tok with
    | [] => go_tag c1
    | _ => Some ({| rtok := tok; from_quote := false; first_char := peek c |}, c1, true)
    end
  else go_tag c.

(* ---- TokenizeBuffer for each tokenizer ---- *)
Inductive tkind := TGeneric | TExpr | TCsv (seps quotes : list Z) | TMustache.

Definition tokenize_with (k : tkind) (o : options) (s : str) : res (list token) :=
  match k with
  | TGeneric => tokenize_buffer unit plcf (produce lcf plcf generic_cfg) decode_generic o Datatypes.tt s
  | TExpr => tokenize_buffer unit plcf (produce lcf plcf expr_cfg) decode_doubled o Datatypes.tt s
  | TCsv seps quotes => tokenize_buffer unit plcf (produce lcf plcf (csv_cfg seps quotes)) decode_doubled o Datatypes.tt s
  | TMustache => tokenize_buffer bool plcf mustache_produce decode_generic o true s
  end.
