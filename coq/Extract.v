(* Extraction of the executable models for the thorough-tier correspondence driver.
   ExtrOcamlBasic only (bool, option, list, prod, unit, sumbool -> OCaml's own); Z, N, positive and nat
   stay the extracted inductives.  No Extract Constant. *)
Require Import Sx RunC11 RunC17 RunC16 RunC14 RunC02 RunC01 RunTok RunC05 RunVar RunC08 RunC10 RunC18 RunC20 RunC19 RunC03.
Require Extraction.
Require Import ExtrOcamlBasic.
From Coq Require Import ZArith.
Extraction Language OCaml.
Extraction "model.ml" sx_eqb check_case Z.add Z.mul Z.opp Z.div_eucl Z.ltb model_C11 model_C17 model_C16 model_C14 model_C02 model_C01 model_TOK model_C05 model_C06 model_C07 model_C08 model_C10 model_C18 model_C20 model_C19 model_C03.
