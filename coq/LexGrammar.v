(* C13, specification side: the lexical grammar of the generic and of the expression tokenizer, as a relation
     lexeme t lx rest  =  "lx is a well-formed lexeme of class t, and written before `rest` it cannot merge with it".
   Which state a first character is handed to comes from the configuration (the extracted character table); the
   theorems in LexFacts.v say what those tables are for every character.  Nothing here mentions a cursor. *)
From Coq Require Import List ZArith Bool Lia.
Import ListNotations.
Require Import Base Cursor Trie TrieSpec States Instances LexStep.
Require Quote.
Open Scope Z_scope.

Definition not_eol : Z -> bool := fun c => negb ((c =? eof) || (c =? LF) || (c =? CR)).

(* digits, optionally a dot and more digits; at least one digit *)
Inductive mantissa : ttype -> str -> Prop :=
| M_int ds : all is_digit ds -> ds <> [] -> mantissa Integer ds
| M_float ds fs : all is_digit ds -> all is_digit fs -> ds ++ fs <> [] -> mantissa Float (ds ++ 46 :: fs).
(* what may follow a mantissa without being absorbed: no digit, and no dot after an integer *)
Definition after_mantissa (t : ttype) (rest : str) : Prop := is_digit (hdz rest) = false /\ (t = Integer -> hdz rest <> 46).
(* e or E, optional sign, digits *)
Inductive exponent : str -> Prop :=
| X_exp ex sgn es : is_e ex = true -> (sgn = [] \/ sgn = [45] \/ sgn = [43]) -> all is_digit es -> es <> [] -> exponent (ex :: sgn ++ es).

Section Grammar.
  Variable cfg : config.                       (* character table, word / whitespace characters, keywords *)
  Variable regs : list (str * ttype).          (* the registered multi-character symbols *)

  Definition starts (k : skind) (c : Z) : Prop := Instances.table cfg c = Some k.

  (* the longest registered symbol wins: lx is registered or a single character, and no registered symbol that is a
     prefix of the remaining input is longer *)
  Definition longest (lx rest : str) : Prop :=
    (registered regs lx = true \/ length lx = 1%nat) /\
    forall q, q <> [] -> registered regs q = true -> is_prefix q (lx ++ rest) = true -> (length q <= length lx)%nat.
  Definition symbol_type (lx : str) : ttype := if registered regs lx then last_type regs lx else Symbol.

  (* characters that end up in the symbol state: symbol characters; the sign in expressions; a slash that does not
     open a comment; a dot or a generic sign that no digit follows *)
  Definition reaches_symbol (x : Z) (after : str) : Prop :=
    starts KSymbol x
    \/ (starts KExprNumber x /\ x = 45)
    \/ (starts KCComment x /\ hdz after <> 42)
    \/ ((starts KNumber x \/ starts KExprNumber x) /\ x = 46 /\ is_digit (hdz after) = false)
    \/ (starts KNumber x /\ x = 45 /\ is_digit (hdz after) = false /\ (hdz after = 46 -> is_digit (hdz (tl after)) = false)).

  Inductive lexeme : ttype -> str -> str -> Prop :=
  (* identifiers and keywords: a configured start character, then word characters; the spelling is kept *)
  | L_word x r rest : starts KWord x -> all (wordchar cfg) (x :: r) -> wordchar cfg (hdz rest) = false ->
      lexeme Word (x :: r) rest
  | L_expr_word x r rest : starts KExprWord x -> all (wordchar cfg) (x :: r) -> wordchar cfg (hdz rest) = false ->
      lexeme (if is_keyword cfg (x :: r) then Keyword else Word) (x :: r) rest
  | L_space x r rest : starts KWs x -> all (wschar cfg) (x :: r) -> wschar cfg (hdz rest) = false ->
      lexeme Whitespace (x :: r) rest
  (* numbers: generically the sign belongs to the number ... *)
  | L_number t sg m rest : (sg = [] \/ sg = [45]) -> mantissa t m -> starts KNumber (hdz (sg ++ m)) -> after_mantissa t rest ->
      lexeme t (sg ++ m) rest
  (* ... in expressions it does not, and a mantissa may carry an exponent *)
  | L_expr_number t m rest : mantissa t m -> starts KExprNumber (hdz m) -> after_mantissa t rest -> exp_start rest = false ->
      lexeme t m rest
  | L_expr_scientific t m ex rest : mantissa t m -> starts KExprNumber (hdz m) -> exponent ex -> is_digit (hdz rest) = false ->
      lexeme Float (m ++ ex) rest
  (* quoted strings: generically up to the next quote character; in expressions a doubled quote is data, and a string
     in double quotes is an identifier *)
  | L_quoted q body rest : starts KQuote q -> Forall (fun c => c <> q) body ->
      lexeme Quoted (q :: body ++ [q]) rest
  | L_expr_quoted q body rest : starts KExprQuote q -> hdz rest <> q ->
      lexeme (if q =? 34 then Word else Quoted) (Quote.encode q body) rest
  (* comments: to the end of the line; or from slash-star to the first star-slash *)
  | L_line_comment x r rest : starts KHashComment x -> all not_eol (x :: r) -> not_eol (hdz rest) = false ->
      lexeme Comment (x :: r) rest
  | L_block_comment body rest : starts KCComment 47 -> ~ has_close (body ++ [42]) ->
      lexeme Comment ([47; 42] ++ body ++ [42; 47]) rest
  (* symbols *)
  | L_symbol x r rest : reaches_symbol x (r ++ rest) -> longest (x :: r) rest ->
      lexeme (symbol_type (x :: r)) (x :: r) rest
  (* CSV: quoted fields with doubled quotes, one-character separators, line breaks from the symbol tree *)
  | L_csv_quoted q body rest : starts KCsvQuote q -> hdz rest <> q ->
      lexeme Quoted (Quote.encode q body) rest
  | L_csv_separator x rest : starts KCsvSymbol x -> x <> LF -> x <> CR ->
      lexeme Symbol [x] rest
  | L_csv_eol x r rest : starts KCsvSymbol x -> (x = LF \/ x = CR) -> longest (x :: r) rest ->
      lexeme (symbol_type (x :: r)) (x :: r) rest.

  (* a sequence of lexemes, each written so that it cannot merge with what follows *)
  Fixpoint lexemes (ls : list (ttype * str)) : Prop :=
    match ls with
    | [] => True
    | (t, lx) :: r => lexeme t lx (concat (map snd r)) /\ lexemes r
    end.
End Grammar.
