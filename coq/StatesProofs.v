(* Every state returns exactly the characters it consumes (the per-state core of C04). *)
Require Import Base Cursor Trie States.

Section Proofs.
  Variable lc : cur -> Z * Z.
  Variable plc : cur -> Z * Z.
  Hypothesis Hlc : forall s, (p s < clen s)%nat -> lc (snd (read s)) = plc s.

  Lemma pos_mk t v x : pos_of (mk t v x) = x.
  Proof. destruct x; reflexivity. Qed.

  Lemma read_step s : (p s < clen s)%nat -> read s = (at_ (content s) (p s), {| content := content s; p := S (p s) |}).
  Proof. intros H. unfold read. destruct (Nat.ltb_spec (clen s) (p s)); [lia|]. destruct (Nat.ltb_spec (p s) (clen s)); [reflexivity|lia]. Qed.

  Lemma read_end s : p s = clen s -> read s = (eof, {| content := content s; p := S (p s) |}).
  Proof. intros H. unfold read. destruct (Nat.ltb_spec (clen s) (p s)); [lia|]. destruct (Nat.ltb_spec (p s) (clen s)); [lia|reflexivity]. Qed.

  Lemma win_eof_p l p0 c s tok : wf_str l -> win l p0 c s tok -> c = eof -> p s = S (length l).
  Proof.
    intros Hwf (Hc & Hp0 & Hle & Htok & Hch) He. rewrite He in Hch. symmetry in Hch. apply (at_eof_iff l _ Hwf) in Hch. lia.
  Qed.

  (* ---------- class_next ---------- *)
  Lemma class_next_spec cls t : cls eof = false -> slice_or_stay plc (class_next lc cls t).
  Proof.
    intros Hcls s0 Hwf Hle. unfold class_next.
    destruct (Nat.eq_dec (p s0) (clen s0)) as [Hend|Hne].
    - (* started on the end-of-input slot: declines *)
      rewrite (read_end s0 Hend). cbn [read_while]. rewrite Hcls. rewrite Z.eqb_refl. cbn [fst snd mk value content p].
      unfold npos, clen in *. cbn [content p]. split; [reflexivity|]. split; [lia|]. right. split; [reflexivity|]. lia.
    - assert (Hlt: (p s0 < clen s0)%nat) by lia.
      pose proof (win_start s0 Hlt) as Hw. pose proof (Hlc s0 Hlt) as Hpos. destruct (read s0) as [c s1] eqn:Er. cbn [fst snd] in Hw, Hpos.
      pose proof (read_while_win cls (content s0) (p s0) Hwf Hcls (S (clen s0)) c s1 [] Hw) as Hrw.
      destruct (read_while cls (S (clen s0)) c s1 []) as [[c' s2] tok].
      destruct Hrw as (Hw2 & Hlen & Hpp & Hgrow & Hstop).
      pose proof Hw2 as (Hc2 & Hp2 & Hle2 & Htok & Hch).
      destruct (Z.eqb_spec c' eof) as [He|Hn]; cbn [fst snd mk value].
      + pose proof (win_eof_p _ _ _ _ _ Hwf Hw2 He) as Hp. unfold clen in *. split; [exact Hc2|]. split; [lia|].
        left. unfold npos, clen. rewrite Hc2. rewrite Hp. split; [lia|]. split; [lia|]. rewrite Nat.min_r by lia. split; [rewrite Htok, Hp; reflexivity|]. rewrite pos_mk. exact Hpos.
      + pose proof (win_not_eof _ _ _ _ _ Hwf Hw2 Hn) as Hlt2.
        destruct (win_close _ _ _ _ _ Hw2) as (Hc3 & Htok3 & Hb3).
        unfold clen in *. split; [exact Hc3|]. split; [unfold unread; cbn [p]; lia|].
        destruct (Nat.eq_dec (p (unread s2)) (p s0)) as [Hsame|Hdiff].
        * right. split; [rewrite Htok3, Hsame; apply slice_nil|]. unfold npos, clen. rewrite Hc3, Hsame. reflexivity.
        * left. split; [lia|]. split; [lia|]. unfold npos, clen. rewrite Hc3. rewrite Nat.min_l by (unfold unread; cbn [p]; lia). split; [exact Htok3|]. rewrite pos_mk. exact Hpos.
  Qed.

  Lemma class_next_nonempty cls t s0 : cls eof = false -> wf_str (content s0) -> (p s0 < clen s0)%nat -> cls (peek s0) = true ->
    value (fst (class_next lc cls t s0)) <> [].
  Proof.
    intros Hcls Hwf Hlt Hpk. unfold class_next.
    pose proof (win_start s0 Hlt) as Hw. rewrite (read_step s0 Hlt) in *. cbn [fst snd] in Hw.
    pose proof (read_while_win cls (content s0) (p s0) Hwf Hcls (S (clen s0)) _ _ [] Hw) as Hrw.
    destruct (read_while cls (S (clen s0)) (at_ (content s0) (p s0)) {| content := content s0; p := S (p s0) |} []) as [[c' s2] tok].
    destruct Hrw as (_ & _ & _ & Hgrow & _). unfold peek in Hpk. specialize (Hgrow Hpk ltac:(lia)).
    cbn [fst mk value]. destruct (c' =? eof); cbn [fst mk value]; intros E; rewrite E in Hgrow; simpl in Hgrow; lia.
  Qed.

  (* ---------- quote states ---------- *)
  (* result of a quote loop: the token is content[p0, npos) *)
  Definition closed (l : str) (p0 : nat) (s : cur) (tok : str) : Prop :=
    content s = l /\ (p0 < p s <= S (length l))%nat /\ tok = slice l p0 (min (p s) (length l)).

  Lemma win_to_closed_eof l p0 c s tok : wf_str l -> win l p0 c s tok -> c = eof -> closed l p0 s tok.
  Proof.
    intros Hwf Hw He. pose proof (win_eof_p _ _ _ _ _ Hwf Hw He) as Hp. destruct Hw as (Hc & Hp0 & Hle & Htok & Hch).
    repeat split; auto; try lia. rewrite Hp in *. rewrite Nat.min_r by lia. exact Htok.
  Qed.

  Lemma win_take l p0 c s tok : wf_str l -> win l p0 c s tok -> c <> eof -> closed l p0 s (tok ++ [c]) /\ (p s <= length l)%nat.
  Proof.
    intros Hwf Hw Hne. pose proof (win_not_eof _ _ _ _ _ Hwf Hw Hne) as Hlt. destruct Hw as (Hc & Hp0 & Hle & Htok & Hch).
    split; [|lia]. repeat split; auto; try lia. rewrite Nat.min_l by lia. subst tok c. rewrite slice_snoc by lia. f_equal. lia.
  Qed.

  Lemma gquote_loop_closed l p0 q : wf_str l -> forall fuel c s tok, win l p0 c s tok -> (S (length l) - p s < fuel)%nat ->
    closed l p0 (fst (gquote_loop fuel q c s tok)) (snd (gquote_loop fuel q c s tok)).
  Proof.
    intros Hwf. induction fuel as [|f IH]; intros c s tok Hw Hf; [lia|]. cbn [gquote_loop].
    destruct (Z.eqb_spec c eof) as [He|Hne]; [apply (win_to_closed_eof _ _ _ _ _ Hwf Hw He)|].
    destruct (win_take _ _ _ _ _ Hwf Hw Hne) as [Hcl Hpl].
    destruct (Z.eqb_spec c q); [exact Hcl|].
    destruct (read_win l p0 c s tok Hwf Hw Hne) as [Hr Hps]. destruct (read s) as [c' s']. cbn [fst snd] in *. apply IH; [exact Hr|lia].
  Qed.

  Lemma two_reads s0 : wf_str (content s0) -> (p s0 < clen s0)%nat ->
    win (content s0) (p s0) (fst (read (snd (read s0)))) (snd (read (snd (read s0)))) [fst (read s0)] /\
    p (snd (read (snd (read s0)))) = S (S (p s0)).
  Proof.
    intros Hwf Hlt. pose proof (win_start s0 Hlt) as Hw.
    assert (Hne: fst (read s0) <> eof).
    { rewrite (read_step s0 Hlt). cbn [fst]. intros E. apply (at_eof_iff _ _ Hwf) in E. unfold clen in *. lia. }
    destruct (read_win _ _ _ _ _ Hwf Hw Hne) as [Hr Hp]. split; [exact Hr|]. rewrite Hp. rewrite (read_step s0 Hlt). reflexivity.
  Qed.

  Lemma closed_spec (next : cur -> token * cur) :
    (forall s0, wf_str (content s0) -> (p s0 < clen s0)%nat ->
       closed (content s0) (p s0) (snd (next s0)) (value (fst (next s0))) /\ pos_of (fst (next s0)) = plc s0) ->
    slice_spec plc next.
  Proof.
    intros H s0 Hwf Hlt. destruct (H s0 Hwf Hlt) as ((Hc & Hp & Hv) & Hpos). unfold npos, clen in *. rewrite Hc. repeat split; auto; lia.
  Qed.

  Theorem gquote_spec : slice_spec plc (gquote_next lc).
  Proof.
    apply closed_spec. intros s0 Hwf Hlt. unfold gquote_next. pose proof (Hlc s0 Hlt) as Hpos.
    destruct (two_reads s0 Hwf Hlt) as [Hw Hp]. destruct (read s0) as [q s1]. cbn [fst snd] in *. destruct (read s1) as [c s2]. cbn [fst snd] in *.
    pose proof (gquote_loop_closed (content s0) (p s0) q Hwf (S (clen s0)) c s2 [q] Hw ltac:(unfold clen; lia)) as Hcl.
    destruct (gquote_loop (S (clen s0)) q c s2 [q]) as [s3 tok]. cbn [fst snd mk value]. split; [exact Hcl|]. rewrite pos_mk. exact Hpos.
  Qed.

  Lemma dquote_loop_closed l p0 q : wf_str l -> forall fuel c s tok, win l p0 c s tok -> (S (length l) - p s < fuel)%nat ->
    closed l p0 (fst (dquote_loop fuel q c s tok)) (snd (dquote_loop fuel q c s tok)).
  Proof.
    intros Hwf. induction fuel as [|f IH]; intros c s tok Hw Hf; [lia|]. cbn [dquote_loop].
    destruct (Z.eqb_spec c eof) as [He|Hne]; [apply (win_to_closed_eof _ _ _ _ _ Hwf Hw He)|].
    destruct (win_take _ _ _ _ _ Hwf Hw Hne) as [Hcl Hpl].
    destruct (read_win l p0 c s tok Hwf Hw Hne) as [Hr Hps].
    destruct (Z.eqb_spec c q) as [Hq|Hnq].
    - destruct (Z.eqb_spec (peek s) q) as [Hpk|Hnpk]; [|exact Hcl].
      (* doubled quote: the second one is data as well *)
      assert (Hc1: fst (read s) = peek s).
      { destruct Hw as (Hc & _). unfold read, peek, clen. rewrite Hc. destruct (Nat.ltb_spec (length l) (p s)); [lia|].
        destruct (Nat.ltb_spec (p s) (length l)); [reflexivity|]. cbn [fst]. symmetry. apply at_eof_iff; auto; lia. }
      destruct (read s) as [c1 s1]. cbn [fst snd] in *.
      assert (Hne1: c1 <> eof).
      { rewrite Hc1, Hpk. intros E. rewrite <- Hq in E. contradiction. }
      destruct (read_win l p0 c1 s1 (tok ++ [c]) Hwf Hr Hne1) as [Hr2 Hps2].
      destruct (read s1) as [c2 s2]. cbn [fst snd] in *. apply IH; [exact Hr2|lia].
    - destruct (read s) as [c' s']. cbn [fst snd] in *. apply IH; [exact Hr|lia].
  Qed.

  Theorem dquote_spec f : slice_spec plc (dquote_next lc f).
  Proof.
    apply closed_spec. intros s0 Hwf Hlt. unfold dquote_next. pose proof (Hlc s0 Hlt) as Hpos.
    destruct (two_reads s0 Hwf Hlt) as [Hw Hp]. destruct (read s0) as [q s1]. cbn [fst snd] in *. destruct (read s1) as [c s2]. cbn [fst snd] in *.
    pose proof (dquote_loop_closed (content s0) (p s0) q Hwf (S (clen s0)) c s2 [q] Hw ltac:(unfold clen; lia)) as Hcl.
    destruct (dquote_loop (S (clen s0)) q c s2 [q]) as [s3 tok]. cbn [fst snd mk value]. split; [exact Hcl|]. rewrite pos_mk. exact Hpos.
  Qed.

  (* ---------- GenericNumberState ---------- *)
  Lemma is_digit_eof : is_digit eof = false. Proof. reflexivity. Qed.

  Theorem number_spec symbol : slice_spec plc symbol -> slice_spec plc (number_next lc symbol).
  Proof.
    intros Hsym s0 Hwf Hlt. unfold number_next. pose proof (Hlc s0 Hlt) as Hpos.
    set (l := content s0) in *. set (p0 := p s0) in *.
    pose proof (win_start s0 Hlt) as H0. destruct (read s0) as [c0 s1]. cbn [fst snd] in H0, Hpos. fold l p0 in H0.
    assert (H1: let '(tok, c1, s2) := (if c0 =? 45 then let '(c, s) := read s1 in ([45], c, s) else ([], c0, s1)) in win l p0 c1 s2 tok).
    { destruct (Z.eqb_spec c0 45) as [E|E]; [|exact H0].
      destruct (read_win l p0 c0 s1 [] Hwf H0 ltac:(rewrite E; unfold eof; lia)) as [Hr _]. destruct (read s1) as [c s]. subst c0. exact Hr. }
    destruct (if c0 =? 45 then let '(c, s) := read s1 in ([45], c, s) else ([], c0, s1)) as [[tok c1] s2].
    pose proof (read_while_win is_digit l p0 Hwf is_digit_eof (S (clen s0)) c1 s2 tok H1) as H2.
    destruct (read_while is_digit (S (clen s0)) c1 s2 tok) as [[c2 s3] tok2].
    destruct H2 as (Hw2 & Hl2 & _ & _ & _).
    set (got := negb (Nat.eqb (length tok2) (length tok))).
    assert (H3: let '(c3, s4, tok3, got2, dot) :=
              (if c2 =? 46 then let '(c, s) := read s3 in let '(c', s', t') := read_while is_digit (S (clen s0)) c s (tok2 ++ [46]) in
                                (c', s', t', got || negb (Nat.eqb (length t') (S (length tok2))), true)
               else (c2, s3, tok2, got, false)) in
            win l p0 c3 s4 tok3 /\ (got2 = true -> (0 < length tok3)%nat)).
    { destruct (Z.eqb_spec c2 46) as [E|E].
      - destruct (read_win l p0 c2 s3 tok2 Hwf Hw2 ltac:(rewrite E; unfold eof; lia)) as [Hr _]. destruct (read s3) as [c s]. cbn [fst snd] in Hr. subst c2.
        pose proof (read_while_win is_digit l p0 Hwf is_digit_eof (S (clen s0)) c s (tok2 ++ [46]) Hr) as H4.
        destruct (read_while is_digit (S (clen s0)) c s (tok2 ++ [46])) as [[c' s'] t'].
        destruct H4 as (Hw4 & Hl4 & _). split; auto. intros _. rewrite app_length in Hl4. simpl in Hl4. lia.
      - split; auto. unfold got. intros Hg. apply negb_true_iff, Nat.eqb_neq in Hg. lia. }
    destruct (if c2 =? 46 then _ else _) as [[[[c3 s4] tok3] got2] dot].
    destruct H3 as (Hw4 & Hgot). pose proof Hw4 as (Hc4 & Hp4 & Hle4 & Htok4 & Hch4).
    destruct (win_close _ _ _ _ _ Hw4) as (Hc5 & Htok5 & Hb5).
    assert (Hlen3: length tok3 = (p (unread s4) - p0)%nat) by (rewrite Htok5; apply slice_length; lia).
    destruct got2.
    - cbn [fst snd mk value]. specialize (Hgot eq_refl). unfold npos, clen. rewrite Hc5. fold l. rewrite Nat.min_l by lia.
      split; [reflexivity|]. split; [fold p0; lia|]. split; [exact Htok5|]. rewrite pos_mk. exact Hpos.
    - destruct (unread_many_spec (length tok3) (unread s4)) as [Hp Hc].
      assert (Hback: unread_many (length tok3) (unread s4) = s0).
      { destruct (unread_many (length tok3) (unread s4)) as [cc pp] eqn:E. cbn [p content] in *. destruct s0 as [c00 p00]. cbn [content p] in *.
        subst l p0. f_equal; [rewrite Hc; exact Hc5|lia]. }
      rewrite Hback. apply Hsym; auto.
  Qed.

  (* ---------- CsvSymbolState ---------- *)
  Theorem csv_symbol_spec symbol : slice_spec plc symbol -> slice_spec plc (csv_symbol_next lc symbol).
  Proof.
    intros Hsym s0 Hwf Hlt. unfold csv_symbol_next. pose proof (Hlc s0 Hlt) as Hpos. rewrite (read_step s0 Hlt) in *. cbn [snd] in Hpos.
    destruct (negb (at_ (content s0) (p s0) =? LF) && negb (at_ (content s0) (p s0) =? CR)).
    - cbn [fst snd mk value content p]. unfold npos, clen in *. cbn [content p]. rewrite Nat.min_l by lia.
      split; [reflexivity|]. split; [lia|]. split; [rewrite <- (slice_snoc _ (p s0) (p s0)) by lia; rewrite slice_nil; reflexivity|]. rewrite pos_mk. exact Hpos.
    - assert (Hb: unread {| content := content s0; p := S (p s0) |} = s0) by (destruct s0; reflexivity). rewrite Hb. apply Hsym; auto.
  Qed.

  (* ---------- ExpressionNumberState ---------- *)
  (* a cursor that still points into the text: its consumed part is content[p0, p) *)
  Definition inside (l : str) (p0 : nat) (s : cur) (tok : str) : Prop :=
    content s = l /\ (p0 <= p s <= length l)%nat /\ tok = slice l p0 (p s).

  Lemma inside_read l p0 s tok : wf_str l -> inside l p0 s tok -> peek s <> eof ->
    inside l p0 (snd (read s)) (tok ++ [fst (read s)]) /\ fst (read s) = peek s /\ p (snd (read s)) = S (p s).
  Proof.
    intros Hwf (Hc & Hp & Htok) Hne. unfold peek in Hne. rewrite Hc in Hne.
    assert (Hlt: (p s < length l)%nat).
    { destruct (Nat.le_gt_cases (length l) (p s)); auto. exfalso. apply Hne. apply at_eof_iff; auto. }
    rewrite (read_step s) by (unfold clen; rewrite Hc; exact Hlt). cbn [fst snd]. unfold peek. rewrite Hc.
    split; [|split; reflexivity]. repeat split; cbn [content p]; auto; try lia. rewrite Htok. apply slice_snoc; lia.
  Qed.

  Lemma peek_while_inside cls l p0 : wf_str l -> cls eof = false -> forall fuel s tok, inside l p0 s tok ->
    inside l p0 (fst (peek_while cls fuel s tok)) (snd (peek_while cls fuel s tok)) /\
    (p s <= p (fst (peek_while cls fuel s tok)))%nat.
  Proof.
    intros Hwf Hcls. induction fuel as [|f IH]; intros s tok Hi; cbn [peek_while]; [cbn [fst snd]; split; [exact Hi|lia]|].
    destruct (cls (peek s)) eqn:E; [|cbn [fst snd]; split; [exact Hi|lia]].
    assert (Hne: peek s <> eof) by (intros E2; rewrite E2 in E; congruence).
    destruct (inside_read l p0 s tok Hwf Hi Hne) as (Hr & _ & Hp). destruct (read s) as [c s']. cbn [fst snd] in *.
    destruct (IH s' (tok ++ [c]) Hr) as [H1 H2]. split; [exact H1|]. lia.
  Qed.

  Theorem expr_number_spec symbol : slice_spec plc symbol -> slice_spec plc (expr_number_next lc plc symbol).
  Proof.
    intros Hsym s0 Hwf Hlt. unfold expr_number_next.
    destruct (peek s0 =? 45); [apply Hsym; auto|].
    pose proof (number_spec symbol Hsym s0 Hwf Hlt) as Hnum.
    destruct (number_next lc symbol s0) as [tok s1] eqn:En. cbn [fst snd] in Hnum. destruct Hnum as (Hc1 & Hp1 & Hv1 & Hpos1).
    destruct (negb (ttype_eqb (ty tok) Integer) && negb (ttype_eqb (ty tok) Float)); [cbn [fst snd]; auto|].
    destruct (negb (peek s1 =? 101) && negb (peek s1 =? 69)) eqn:Ee; [cbn [fst snd]; auto|].
    (* an exponent marker follows: so the number state stopped inside the text *)
    set (l := content s0) in *. set (p0 := p s0) in *.
    assert (Hpe: peek s1 <> eof).
    { intros E. rewrite E in Ee. discriminate. }
    assert (Hin1: (p s1 < length l)%nat).
    { unfold peek in Hpe. rewrite Hc1 in Hpe. destruct (Nat.le_gt_cases (length l) (p s1)); auto. exfalso. apply Hpe. apply at_eof_iff; auto. }
    assert (Hi1: inside l p0 s1 (value tok)).
    { unfold npos, clen in Hv1. rewrite Hc1 in Hv1. fold l in Hv1. rewrite Nat.min_l in Hv1 by lia. repeat split; auto; lia. }
    destruct (inside_read l p0 s1 (value tok) Hwf Hi1 Hpe) as (Hi2 & He & Hp2).
    destruct (read s1) as [e s2]. cbn [fst snd] in *.
    assert (H3: let '(tv, s3) := (if (peek s2 =? 45) || (peek s2 =? 43) then let '(sg, s) := read s2 in ([e; sg], s) else ([e], s2)) in
                inside l p0 s3 (value tok ++ tv) /\ p s3 = (p s1 + length tv)%nat).
    { destruct ((peek s2 =? 45) || (peek s2 =? 43)) eqn:Es.
      - assert (Hne: peek s2 <> eof). { intros E. rewrite E in Es. discriminate. }
        destruct (inside_read l p0 s2 _ Hwf Hi2 Hne) as (Hi3 & _ & Hp3). destruct (read s2) as [sg s3]. cbn [fst snd] in *.
        rewrite <- app_assoc in Hi3. split; [exact Hi3|]. simpl. lia.
      - split; [exact Hi2|]. simpl. lia. }
    destruct (if (peek s2 =? 45) || (peek s2 =? 43) then _ else _) as [tv s3]. destruct H3 as [Hi3 Hp3].
    destruct (is_digit (peek s3)) eqn:Ed; cbn [negb].
    - pose proof (peek_while_inside is_digit l p0 Hwf is_digit_eof (S (clen s0)) s3 (value tok ++ tv) Hi3) as [Hi4 Hmono].
      assert (Hgen: forall fuel s a b, peek_while is_digit fuel s (a ++ b) = (fst (peek_while is_digit fuel s b), a ++ snd (peek_while is_digit fuel s b))).
      { induction fuel as [|f IH]; intros s a b; cbn [peek_while]; [reflexivity|]. destruct (is_digit (peek s)); [|reflexivity].
        destruct (read s) as [c s']. rewrite <- app_assoc. apply IH. }
      rewrite Hgen in Hi4, Hmono. cbn [fst snd] in Hi4, Hmono.
      destruct (peek_while is_digit (S (clen s0)) s3 tv) as [s4 tv']. cbn [fst snd mk value] in *.
      destruct Hi4 as (Hc4 & Hp4 & Hv4).
      unfold npos, clen. rewrite Hc4. fold l. rewrite Nat.min_l by lia. split; [reflexivity|]. split; [fold p0; lia|]. split; [exact Hv4|]. apply pos_mk.
    - (* no digits in the exponent: give the marker back *)
      destruct (unread_many_spec (length tv) s3) as [Hp Hc]. destruct Hi3 as (Hc3 & _ & _).
      assert (Hback: unread_many (length tv) s3 = s1).
      { destruct (unread_many (length tv) s3) as [cc pp]. destruct s1 as [c11 p11]. cbn [content p] in *. f_equal; [congruence|lia]. }
      rewrite Hback. cbn [fst snd]. auto.
  Qed.

  (* ---------- CCommentState ---------- *)
  Lemma ml_loop_closed l p0 : wf_str l -> forall fuel last c s tok, win l p0 c s tok -> (S (length l) - p s < fuel)%nat ->
    closed l p0 (fst (ml_loop fuel last c s tok)) (snd (ml_loop fuel last c s tok)).
  Proof.
    intros Hwf. induction fuel as [|f IH]; intros last c s tok Hw Hf; [lia|]. cbn [ml_loop].
    destruct (Z.eqb_spec c eof) as [He|Hne]; [apply (win_to_closed_eof _ _ _ _ _ Hwf Hw He)|].
    destruct (win_take _ _ _ _ _ Hwf Hw Hne) as [Hcl Hpl].
    destruct ((last =? 42) && (c =? 47)); [exact Hcl|].
    destruct (read_win l p0 c s tok Hwf Hw Hne) as [Hr Hps]. destruct (read s) as [c' s']. cbn [fst snd] in *. apply IH; [exact Hr|lia].
  Qed.

  Theorem c_comment_spec symbol : slice_spec plc symbol -> forall s0, wf_str (content s0) -> (p s0 < clen s0)%nat -> peek s0 = 47 ->
    exists r, c_comment_next lc symbol s0 = Some r /\
      content (snd r) = content s0 /\ (p s0 < p (snd r) <= S (clen s0))%nat /\ value (fst r) = slice (content s0) (p s0) (npos (snd r)) /\
      pos_of (fst r) = plc s0.
  Proof.
    intros Hsym s0 Hwf Hlt Hpk. unfold c_comment_next. pose proof (Hlc s0 Hlt) as Hpos.
    destruct (two_reads s0 Hwf Hlt) as [Hw Hp2].
    assert (Hc1: fst (read s0) = 47) by (rewrite (read_step s0 Hlt); exact Hpk).
    destruct (read s0) as [c1 s1] eqn:Er1. cbn [fst snd] in *. subst c1. cbn [Z.eqb negb Pos.eqb].
    destruct (read s1) as [c2 s2] eqn:Er2. cbn [fst snd] in *.
    destruct (Z.eqb_spec c2 42) as [E2|E2].
    - (* a comment *)
      destruct (read_win _ _ _ _ _ Hwf Hw ltac:(rewrite E2; unfold eof; lia)) as [Hr3 Hp3].
      destruct (read s2) as [c3 s3]. cbn [fst snd] in *. subst c2.
      pose proof (ml_loop_closed (content s0) (p s0) Hwf (S (clen s0)) 0 c3 s3 [47; 42] Hr3 ltac:(unfold clen; lia)) as Hcl.
      destruct (ml_loop (S (clen s0)) 0 c3 s3 [47; 42]) as [s4 tok]. cbn [fst snd] in Hcl.
      eexists. split; [reflexivity|]. cbn [fst snd mk value]. destruct Hcl as (Hc & Hp & Hv). unfold npos, clen in *. rewrite Hc. rewrite pos_mk. repeat split; auto; lia.
    - (* just a slash: both characters go back and the symbol state takes over *)
      assert (Hback: unread (unread s2) = s0).
      { destruct Hw as (Hc & _). destruct s2 as [c22 p22]. destruct s0 as [c00 p00]. unfold unread. cbn [content p] in *. f_equal; [exact Hc|lia]. }
      rewrite Hback. eexists. split; [reflexivity|]. apply Hsym; auto.
  Qed.

  (* ---------- MustacheSpecialState ---------- *)
  Lemma special_loop_spec l p0 : wf_str l -> forall fuel c s tok, win l p0 c s tok -> (S (length l) - p s < fuel)%nat ->
    let r := special_loop fuel c s tok in
    content (fst r) = l /\ (p0 <= p (fst r) <= S (length l))%nat /\ snd r = slice l p0 (min (p (fst r)) (length l)).
  Proof.
    intros Hwf. induction fuel as [|f IH]; intros c s tok Hw Hf; [lia|]. cbn [special_loop].
    destruct (Z.eqb_spec c eof) as [He|Hne].
    - destruct (win_to_closed_eof _ _ _ _ _ Hwf Hw He) as (H1 & H2 & H3). cbn [fst snd]. repeat split; auto; lia.
    - pose proof (win_not_eof _ _ _ _ _ Hwf Hw Hne) as Hlt.
      destruct ((c =? 123) && (peek s =? 123)).
      + destruct (win_close _ _ _ _ _ Hw) as (H1 & H2 & H3). cbn [fst snd]. split; [exact H1|]. split; [lia|]. rewrite Nat.min_l by lia. exact H2.
      + destruct (read_win l p0 c s tok Hwf Hw Hne) as [Hr Hps]. destruct (read s) as [c' s']. cbn [fst snd] in *. apply IH; [exact Hr|lia].
  Qed.

  Theorem special_spec : slice_or_stay plc (special_next plc).
  Proof.
    intros s0 Hwf Hle. unfold special_next.
    destruct (Nat.eq_dec (p s0) (clen s0)) as [Hend|Hne].
    - rewrite (read_end s0 Hend). cbn [special_loop]. rewrite Z.eqb_refl. cbn [fst snd mk value content p].
      unfold npos, clen in *. cbn [content p]. split; [reflexivity|]. split; [lia|]. right. split; [reflexivity|]. lia.
    - assert (Hlt: (p s0 < clen s0)%nat) by lia.
      pose proof (win_start s0 Hlt) as Hw. destruct (read s0) as [c s1]. cbn [fst snd] in Hw.
      pose proof (special_loop_spec (content s0) (p s0) Hwf (S (clen s0)) c s1 [] Hw) as Hs.
      destruct Hw as (_ & Hp1 & _). specialize (Hs ltac:(unfold clen; lia)).
      destruct (special_loop (S (clen s0)) c s1 []) as [s2 tok]. cbn [fst snd mk value] in *. destruct Hs as (Hc & Hp & Hv).
      unfold clen in *. split; [exact Hc|]. split; [lia|].
      destruct (Nat.eq_dec (p s2) (p s0)) as [Hsame|Hdiff].
      + right. unfold npos, clen. rewrite Hc, Hsame. split; [|reflexivity]. rewrite Hv, Hsame. rewrite Nat.min_l by lia. apply slice_nil.
      + left. split; [lia|]. split; [lia|]. unfold npos, clen. rewrite Hc. split; [exact Hv|]. apply pos_mk.
  Qed.

  (* ExpressionWordState: only the type and the recorded position differ from the word state *)
  Theorem expr_word_spec wordchar is_keyword : wordchar eof = false -> slice_or_stay plc (expr_word_next lc plc wordchar is_keyword).
  Proof.
    intros Hw s0 Hwf Hle. unfold expr_word_next. pose proof (class_next_spec wordchar Word Hw s0 Hwf Hle) as H.
    unfold word_next. destruct (class_next lc wordchar Word s0) as [tok s1]. cbn [fst snd] in *.
    destruct (is_keyword (value tok)); [|exact H]. cbn [fst snd mk value] in *. destruct H as (H1 & H2 & [(H3 & H4 & H5 & H6)|H3]); split; auto; split; auto.
    left. repeat split; auto. apply pos_mk.
  Qed.
End Proofs.

Print Assumptions expr_number_spec.
Print Assumptions c_comment_spec.
Print Assumptions special_spec.
