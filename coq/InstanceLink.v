(* C05: the token stream of an instance (Instance.stream, a relation) is the list TokenizeBuffer returns on a fresh
   tokenizer - for every tokenizer without a private mode (enter = identity, LastTokenType as set by the loop), hence
   for the generic, expression and CSV tokenizers.  Together with Instance.history_independent: whatever a tokenizer
   instance processed before, and however HasNextToken / NextToken are interleaved, the i-th NextToken returns the
   i-th token of TokenizeBuffer on a fresh instance, then nil. *)
From Coq Require Import List ZArith Bool Lia.
Import ListNotations.
Require Import Base Cursor Tokenizer TokenizerProofs Instances Instance TokModel TokModelProofs RunC05.
Open Scope Z_scope.

Section Link.
  Variable M : Type.
  Variable plc : cur -> Z * Z.
  Variable produce : M -> cur -> option (rawtok * cur * M).
  Variable decode : Base.str -> Z -> Base.str.
  Variable o : options.

  Definition enter_id (m : M) (_ : ttype) : M := m.
  Definition relast_id (_ : option token) (_ l' : ttype) : ttype := l'.

  Notation rn := (rn M plc produce decode o enter_id relast_id).
  Notation stream := (stream M plc produce decode o enter_id relast_id).

  Lemma rn_is_read_next m c l : rn m c l = read_next M plc produce decode o m c l.
  Proof. unfold Instance.rn, enter_id, relast_id. destruct (read_next M plc produce decode o m c l) as [[[[t c'] m'] l']| |]; reflexivity. Qed.

  (* the loop returns no token only at the end of the input *)
  Lemma inner_none : forall fuel m c last c' m', inner M plc produce decode fuel o m c last = Ok (None, c', m') -> at_end c' = true.
  Proof.
    induction fuel as [|fuel IH]; intros m c last c' m' H; [discriminate|]. cbn [inner] in H.
    destruct (at_end c) eqn:E; [inversion H; subst; exact E|].
    destruct (produce m c) as [[[r c1] m1]|]; [|discriminate].
    repeat match type of H with (if ?b then _ else _) = _ => destruct b end; try discriminate; eauto.
  Qed.

  (* once exhausted, exhausted for ever *)
  Lemma read_next_none m c l c' m' l' : read_next M plc produce decode o m c l = Ok (None, c', m', l') ->
    l' = Eof /\ read_next M plc produce decode o m' c' Eof = Ok (None, c', m', Eof).
  Proof.
    unfold read_next. intros H. destruct (inner M plc produce decode (S (remaining c)) o m c l) as [[[t c1] m1]| |] eqn:E; try discriminate.
    destruct t as [t|].
    - inversion H.
    - destruct (negb (ttype_eqb l Eof) && negb (skipEof o)); inversion H; subst. split; [reflexivity|].
      apply inner_none in E. cbn [inner]. rewrite E. reflexivity.
  Qed.

  Theorem tokenize_is_stream : forall fuel m c last ts, tokenize M plc produce decode fuel o m c last = Ok ts -> stream m c last ts.
  Proof.
    induction fuel as [|fuel IH]; intros m c last ts H; [discriminate|]. cbn [tokenize] in H.
    destruct (read_next M plc produce decode o m c last) as [[[[t c'] m'] l']| |] eqn:E; try discriminate.
    destruct t as [t|].
    - destruct (tokenize M plc produce decode fuel o m' c' l') as [ts'| |] eqn:Et; try discriminate. inversion H; subst.
      eapply stream_tok; [rewrite rn_is_read_next; exact E|apply IH; exact Et].
    - inversion H; subst. destruct (read_next_none _ _ _ _ _ _ E) as [-> H2].
      eapply stream_end; rewrite rn_is_read_next; eassumption.
  Qed.

  (* C05 for a tokenizer without private mode *)
  Theorem reused_instance_streams_like_fresh m0 (i : inst M) s ts calls :
    (forall m m' : M, m = m') ->                       (* no private mode *)
    tokenize_buffer M plc produce decode o m0 s = Ok ts ->
    observe M plc produce decode o enter_id relast_id calls (set_reader M i s) = Ok (expected (nexts calls) ts).
  Proof.
    intros Hm H. apply (history_independent M plc produce decode o enter_id relast_id m0 i s ts calls); [intros m m'; unfold enter_id; apply Hm|].
    apply tokenize_is_stream with (fuel := S (S (length s))). exact H.
  Qed.
End Link.

(* the three character-table tokenizers: whatever the instance did before (state i), any interleaving of
   HasNextToken and NextToken after SetReader(s) observes the tokens of TokenizeBuffer(s) on a fresh tokenizer *)
Definition plain_kind (k : tkind) : Prop := match k with TMustache => False | _ => True end.

Theorem builtin_reuse k : plain_kind k -> forall o s ts, tokenize_with k o s = Tokenizer.Ok ts ->
  forall calls,
  match k with
  | TGeneric => forall i, observe unit plcf (produce lcf plcf generic_cfg) decode_generic o enter_plain relast_plain calls (set_reader unit i s) = Tokenizer.Ok (expected (nexts calls) ts)
  | TExpr => forall i, observe unit plcf (produce lcf plcf expr_cfg) decode_doubled o enter_plain relast_plain calls (set_reader unit i s) = Tokenizer.Ok (expected (nexts calls) ts)
  | TCsv seps quotes => forall i, observe unit plcf (produce lcf plcf (csv_cfg seps quotes)) decode_doubled o enter_plain relast_plain calls (set_reader unit i s) = Tokenizer.Ok (expected (nexts calls) ts)
  | TMustache => True
  end.
Proof.
  intros Hk o s ts H calls. destruct k as [| |seps quotes|]; [| | |exact I]; intros i; unfold tokenize_with in H;
    exact (reused_instance_streams_like_fresh unit plcf _ _ o Datatypes.tt i s ts calls (fun m m' => match m, m' with Datatypes.tt, Datatypes.tt => eq_refl end) H).
Qed.

(* and such a token list always exists (C03/C04): the premise is never vacuous *)
Corollary builtin_reuse_total k o s : wf_str s -> exists ts, tokenize_with k o s = Tokenizer.Ok ts.
Proof. apply tokenize_never_fails. Qed.

Print Assumptions builtin_reuse.

(* ---------- every instance has a token stream (so the premise of history_independent is never vacuous), for any
   tokenizer - the mustache tokenizer with its text/tag mode included ---------- *)
Section Total.
  Variable M : Type.
  Variable plc : cur -> Z * Z.
  Variable produce : M -> cur -> option (rawtok * cur * M).
  Variable decode : Base.str -> Z -> Base.str.
  Variable o : options.
  Variable enter : M -> ttype -> M.
  Variable relast : option token -> ttype -> ttype -> ttype.
  Hypothesis Hok : produce_ok M plc produce.
  Hypothesis Henter_eof : forall m, enter m Eof = m.
  Hypothesis Hrel_none : forall l l', relast None l l' = l'.
  Hypothesis Hrel_eof : forall t l l', ty t = Eof -> relast (Some t) l l' = l'.

  Notation rn := (rn M plc produce decode o enter relast).
  Notation stream := (stream M plc produce decode o enter relast).

  Lemma inner_some_advances : forall fuel m c last t c' m', wf_str (content c) ->
    inner M plc produce decode fuel o m c last = Ok (Some t, c', m') -> content c' = content c /\ (remaining c' < remaining c)%nat.
  Proof.
    induction fuel as [|fuel IH]; intros m c last t c' m' Hwf H; [discriminate|]. cbn [inner] in H.
    destruct (at_end c) eqn:E; [discriminate|].
    destruct (Hok m c Hwf E) as (r & c1 & m1 & Hp & Hc & Hpp & _). rewrite Hp in H.
    pose proof (remaining_shrinks c c1 Hc ltac:(lia) E) as Hs.
    assert (Hrec: forall l0, inner M plc produce decode fuel o m1 c1 l0 = Ok (Some t, c', m') -> content c' = content c /\ (remaining c' < remaining c)%nat).
    { intros l0 H0. destruct (IH m1 c1 l0 t c' m' ltac:(rewrite Hc; exact Hwf) H0) as [H1 H2]. split; [congruence|lia]. }
    repeat match type of H with (if ?b then _ else _) = _ => destruct b end; try (eapply Hrec; exact H); inversion H; subst; split; auto.
  Qed.

  Lemma inner_total : forall n m c last, wf_str (content c) -> (remaining c < n)%nat ->
    exists x c' m', inner M plc produce decode n o m c last = Ok (x, c', m') /\ content c' = content c.
  Proof.
    intros n m c last Hwf Hn. destruct (raw_total M plc produce Hok n m c Hwf Hn) as (rs & cend & Hr & _).
    destruct (inner_spec M plc produce decode Hok o n m c last rs cend Hwf Hn Hr) as (c' & m' & Hi & _ & _ & Hc & _). eauto.
  Qed.

  Lemma exhausted m c : at_end c = true -> rn m c Eof = Ok (None, c, m, Eof).
  Proof.
    intros E. unfold Instance.rn, read_next. rewrite Henter_eof. cbn [inner]. rewrite E. cbn [ttype_eqb negb andb]. rewrite Hrel_none. reflexivity.
  Qed.

  Theorem stream_exists : forall n m c l, wf_str (content c) -> (remaining c < n)%nat -> exists ts, stream m c l ts.
  Proof.
    induction n as [|n IH]; intros m c l Hwf Hn; [lia|].
    destruct (inner_total (S (remaining c)) (enter m l) c l Hwf ltac:(lia)) as (x & c' & m' & Hi & Hc).
    destruct x as [t|].
    - destruct (inner_some_advances _ _ _ _ _ _ _ Hwf Hi) as [_ Hlt].
      destruct (IH m' c' (relast (Some t) l (ty t)) ltac:(rewrite Hc; exact Hwf) ltac:(lia)) as [ts Hts].
      exists (t :: ts). eapply stream_tok; [|exact Hts]. unfold Instance.rn, read_next. rewrite Hi. reflexivity.
    - pose proof (inner_none M plc produce decode o _ _ _ _ _ _ Hi) as He.
      destruct (negb (ttype_eqb l Eof) && negb (skipEof o)) eqn:Ee.
      + exists [mk Eof [] (plc c')]. eapply stream_tok.
        * unfold Instance.rn, read_next. rewrite Hi, Ee. reflexivity.
        * cbn [ty mk]. rewrite Hrel_eof by reflexivity. eapply stream_end; apply exhausted; exact He.
      + exists []. eapply stream_end.
        * unfold Instance.rn, read_next. rewrite Hi, Ee. rewrite Hrel_none. reflexivity.
        * apply exhausted. exact He.
  Qed.

  (* C05: one token list per input, the same for every earlier history and every interleaving of the two calls *)
  Theorem history_independence_total (m0 : M) (s : Base.str) : wf_str s -> (forall m m', enter m Unknown = enter m' Unknown) ->
    exists ts, forall (i : inst M) calls, observe M plc produce decode o enter relast calls (set_reader M i s) = Ok (expected (nexts calls) ts).
  Proof.
    intros Hwf He. destruct (stream_exists (S (length s)) m0 {| content := s; p := 0 |} Unknown Hwf ltac:(unfold remaining, clen; cbn; lia)) as [ts Hts].
    exists ts. intros i calls. exact (history_independent M plc produce decode o enter relast m0 i s ts calls He Hts).
  Qed.
End Total.

Theorem mustache_history_independence o s : wf_str s ->
  exists ts, forall (i : inst bool) calls,
    observe bool plcf mustache_produce decode_generic o enter_mustache relast_mustache calls (set_reader bool i s) = Tokenizer.Ok (expected (nexts calls) ts).
Proof.
  intros Hwf.
  refine (history_independence_total bool plcf mustache_produce decode_generic o enter_mustache relast_mustache mustache_produce_ok _ _ _ true s Hwf _).
  - intros m. reflexivity.
  - intros l l'. reflexivity.
  - intros t l l' Ht. unfold relast_mustache. rewrite Ht. reflexivity.
  - intros m m'. reflexivity.
Qed.

Print Assumptions mustache_history_independence.
