(* Reference syntax trees for templates, their token sequences in every spelling, and the proof that the
   lexical state machine + section parser recover exactly the tree (C10, token level). *)
From Coq Require Import List ZArith Bool Lia.
Import ListNotations.
Require Import Mustache.
Open Scope Z_scope.

Inductive spell_sec := PlainHash | HashIf.
Inductive spell_inv := Caret | HashUnless.
Inductive closer := ByName | ByIf | ByUnless.

Inductive tnode :=
 | TText (s : str) | TVar (n : str) | TEVar (n : str) | TComment (b3 : bool) (body : list token)
 | TSec (b3 b3' : bool) (sp : spell_sec) (n : str) (body : tnodes) (cl : closer)
 | TInv (b3 b3' : bool) (sp : spell_inv) (n : str) (body : tnodes) (cl : closer)
with tnodes := TNil | TCons (t : tnode) (r : tnodes).

Scheme tnode_ind' := Induction for tnode Sort Prop
with tnodes_ind' := Induction for tnodes Sort Prop.
Combined Scheme tnode_mutind from tnode_ind', tnodes_ind'.

Definition sym (v : str) := {| ty := TSymbol; value := v |}.
Definition word (v : str) := {| ty := TWord; value := v |}.
Definition opn (b3 : bool) := sym (if b3 then s_open3 else s_open2).
Definition cls (b3 : bool) := sym (if b3 then s_close3 else s_close2).
Definition closer_tokens (cl : closer) (n : str) : list token :=
  match cl with ByName => [word n] | ByIf => [word s_if] | ByUnless => [word s_unless] end.

Definition open_sec b3 sp n : list token := [opn b3; sym s_hash] ++ (match sp with PlainHash => [] | HashIf => [word s_if] end) ++ [word n; cls b3].
Definition open_inv b3 sp n : list token := (match sp with Caret => [opn b3; sym s_caret] | HashUnless => [opn b3; sym s_hash; word s_unless] end) ++ [word n; cls b3].
Definition close_toks b3 cl n : list token := [opn b3; sym s_slash] ++ closer_tokens cl n ++ [cls b3].

Fixpoint flat (t : tnode) : list token :=
  match t with
  | TText s => [{| ty := TSpecial; value := s |}]
  | TVar n => [opn false; word n; cls false]
  | TEVar n => [opn true; word n; cls true]
  | TComment b3 body => [opn b3; sym s_bang] ++ body ++ [cls b3]
  | TSec b3 b3' sp n body cl => open_sec b3 sp n ++ flats body ++ close_toks b3' cl n
  | TInv b3 b3' sp n body cl => open_inv b3 sp n ++ flats body ++ close_toks b3' cl n
  end
with flats (ts : tnodes) : list token := match ts with TNil => [] | TCons t r => flat t ++ flats r end.

(* the section-end value the lexer produces for a closer *)
Definition end_value (cl : closer) (n : str) : str :=
  match cl with ByName => if str_eqb n s_if || str_eqb n s_unless then [] else n | _ => [] end.

Fixpoint mflat (t : tnode) : list mtoken :=
  match t with
  | TText s => [{| mk := KValue; mv := s |}]
  | TVar n => [{| mk := KVariable; mv := n |}]
  | TEVar n => [{| mk := KEscaped; mv := n |}]
  | TComment _ _ => [{| mk := KComment; mv := [] |}]
  | TSec _ _ _ n body cl => {| mk := KSection; mv := n |} :: mflats body ++ [{| mk := KSectionEnd; mv := end_value cl n |}]
  | TInv _ _ _ n body cl => {| mk := KInverted; mv := n |} :: mflats body ++ [{| mk := KSectionEnd; mv := end_value cl n |}]
  end
with mflats (ts : tnodes) : list mtoken := match ts with TNil => [] | TCons t r => mflat t ++ mflats r end.

Fixpoint shape (t : tnode) : mnode :=
  match t with
  | TText s => Leaf KValue s | TVar n => Leaf KVariable n | TEVar n => Leaf KEscaped n | TComment _ _ => Leaf KComment []
  | TSec _ _ _ n body _ => Sec KSection n (shapes body)
  | TInv _ _ _ n body _ => Sec KInverted n (shapes body)
  end
with shapes (ts : tnodes) : list mnode := match ts with TNil => [] | TCons t r => shape t :: shapes r end.

(* well-formedness: names are non-empty words; comment bodies contain no closing braces *)
Fixpoint wf (t : tnode) : Prop :=
  match t with
  | TText _ => True
  | TVar n | TEVar n => n <> []
  | TComment _ body => Forall (fun t => is_close (value t) = false) body
  | TSec _ _ _ n body _ | TInv _ _ _ n body _ => n <> [] /\ wfs body
  end
with wfs (ts : tnodes) : Prop := match ts with TNil => True | TCons t r => wf t /\ wfs r end.

Lemma str_eqb_refl a : str_eqb a a = true.
Proof. induction a; simpl; auto. rewrite Z.eqb_refl. auto. Qed.

Lemma str_eqb_eq a b : str_eqb a b = true -> a = b.
Proof. revert b. induction a as [|x a IH]; intros [|y b]; simpl; intros H; try reflexivity; try discriminate.
  apply andb_prop in H. destruct H as [H1 H2]. apply Z.eqb_eq in H1. apply IH in H2. subst. reflexivity. Qed.

Ltac seq := repeat (rewrite ?str_eqb_refl; cbn [lex_all lex_tok close_tag ty value st closing op1 op2 var sym word opn cls is_close
                                                negb andb orb app s_open2 s_open3 s_close2 s_close3 s_bang s_slash s_hash s_caret s_if s_unless str_eqb Z.eqb Pos.eqb]).

(* skipping a comment body *)
Lemma lex_comment_body l body rest acc : st l = SComment -> Forall (fun t => is_close (value t) = false) body ->
  lex_all l (body ++ rest) acc = lex_all l rest acc.
Proof.
  intros Hs Hb. induction Hb as [|t body Ht Hb IH]; [reflexivity|]. cbn [app lex_all]. unfold lex_tok. rewrite Hs. rewrite Ht. cbn [negb]. exact IH.
Qed.

Ltac crunch := cbn [lex_all lex_tok close_tag ty value st closing op1 op2 var sym word opn cls is_close mk mv
                    negb andb orb app flat mflat closer_tokens end_value lex0 open_sec open_inv close_toks
                    s_open2 s_open3 s_close2 s_close3 s_bang s_slash s_hash s_caret s_if s_unless str_eqb Z.eqb Pos.eqb].

Lemma nonempty_neq n : n <> [] -> str_eqb n [] = false.
Proof. destruct n; [congruence|reflexivity]. Qed.

(* one tag at a time: the lexer, started in the clean Value state, emits exactly the expected token and is clean again *)
Lemma lex_var n rest acc : lex_all lex0 ([opn false; word n; cls false] ++ rest) acc = lex_all lex0 rest (acc ++ [{| mk := KVariable; mv := n |}]).
Proof. crunch. reflexivity. Qed.
Lemma lex_evar n rest acc : lex_all lex0 ([opn true; word n; cls true] ++ rest) acc = lex_all lex0 rest (acc ++ [{| mk := KEscaped; mv := n |}]).
Proof. crunch. reflexivity. Qed.

Lemma lex_comment b3 body rest acc : Forall (fun t => is_close (value t) = false) body ->
  lex_all lex0 (([opn b3; sym s_bang] ++ body ++ [cls b3]) ++ rest) acc = lex_all lex0 rest (acc ++ [{| mk := KComment; mv := [] |}]).
Proof.
  intros Hb. destruct b3; crunch; rewrite <- app_assoc; (rewrite lex_comment_body; [|reflexivity|exact Hb]); crunch; reflexivity.
Qed.

Lemma lex_open_sec b3 sp n rest acc :
  lex_all lex0 (open_sec b3 sp n ++ rest) acc
  = lex_all lex0 rest (acc ++ [{| mk := KSection; mv := n |}]).
Proof.
  destruct b3, sp; crunch; try reflexivity; unfold s_if, s_unless in *;
  destruct (str_eqb n [105; 102]) eqn:E1; destruct (str_eqb n [117; 110; 108; 101; 115; 115]) eqn:E2; crunch; try reflexivity;
  try (apply str_eqb_eq in E1; subst n; reflexivity); try (apply str_eqb_eq in E2; subst n; reflexivity).
Qed.

Lemma lex_open_inv b3 sp n rest acc :
  lex_all lex0 (open_inv b3 sp n ++ rest) acc
  = lex_all lex0 rest (acc ++ [{| mk := KInverted; mv := n |}]).
Proof.
  destruct b3, sp; crunch; try reflexivity; unfold s_if, s_unless in *;
  destruct (str_eqb n [105; 102]) eqn:E1; destruct (str_eqb n [117; 110; 108; 101; 115; 115]) eqn:E2; crunch; try reflexivity;
  try (apply str_eqb_eq in E1; subst n; reflexivity); try (apply str_eqb_eq in E2; subst n; reflexivity).
Qed.

Lemma lex_close b3 cl n rest acc :
  lex_all lex0 (close_toks b3 cl n ++ rest) acc
  = lex_all lex0 rest (acc ++ [{| mk := KSectionEnd; mv := end_value cl n |}]).
Proof.
  destruct b3, cl; crunch; try reflexivity; unfold s_if, s_unless in *;
  destruct (str_eqb n [105; 102]) eqn:E1; destruct (str_eqb n [117; 110; 108; 101; 115; 115]) eqn:E2; crunch; reflexivity.
Qed.

Theorem lex_flat :
  (forall t, wf t -> forall rest acc, lex_all lex0 (flat t ++ rest) acc = lex_all lex0 rest (acc ++ mflat t)) /\
  (forall ts, wfs ts -> forall rest acc, lex_all lex0 (flats ts ++ rest) acc = lex_all lex0 rest (acc ++ mflats ts)).
Proof.
  apply tnode_mutind.
  - intros s _ rest acc. reflexivity.
  - intros n _ rest acc. apply lex_var.
  - intros n _ rest acc. apply lex_evar.
  - intros b3 body Hb rest acc. apply lex_comment. exact Hb.
  - intros b3 b3' sp n body IH cl [Hn Hw] rest acc. cbn [flat mflat].
    rewrite <- !app_assoc. rewrite lex_open_sec. rewrite IH by exact Hw. rewrite lex_close. f_equal. cbn [app]. rewrite <- !app_assoc. reflexivity.
  - intros b3 b3' sp n body IH cl [Hn Hw] rest acc. cbn [flat mflat].
    rewrite <- !app_assoc. rewrite lex_open_inv. rewrite IH by exact Hw. rewrite lex_close. f_equal. cbn [app]. rewrite <- !app_assoc. reflexivity.
  - intros _ rest acc. cbn [flats mflats app]. rewrite app_nil_r. reflexivity.
  - intros t IHt r IHr [Ht Hr] rest acc. cbn [flats mflats]. rewrite <- app_assoc. rewrite IHt by exact Ht. rewrite IHr by exact Hr. rewrite app_assoc. reflexivity.
Qed.

(* ---------- the section parser recovers the tree ---------- *)
Lemma end_matches cl n : str_eqb (end_value cl n) n || str_eqb (end_value cl n) [] = true.
Proof. destruct cl; cbn [end_value]; try (destruct n; reflexivity). destruct (str_eqb n s_if || str_eqb n s_unless); [destruct n; reflexivity|]. rewrite str_eqb_refl. reflexivity. Qed.

Lemma mflats_nonempty_or ts : mflats ts = [] \/ exists m r, mflats ts = m :: r.
Proof. destruct (mflats ts); eauto. Qed.

Theorem parse_flat :
  (forall t, forall fuel e rest acc, (length (mflat t ++ rest) < fuel)%nat ->
     exists fuel', (length rest < fuel')%nat /\ parse_seq fuel e (mflat t ++ rest) acc = parse_seq fuel' e rest (acc ++ [shape t])) /\
  (forall ts, forall fuel e rest acc, (length (mflats ts ++ rest) < fuel)%nat ->
     exists fuel', (length rest < fuel')%nat /\ parse_seq fuel e (mflats ts ++ rest) acc = parse_seq fuel' e rest (acc ++ shapes ts)).
Proof.
  apply tnode_mutind.
  - intros s fuel e rest acc Hf. destruct fuel as [|f]; [simpl in Hf; lia|]. exists f. split; [simpl in Hf; lia|]. destruct e; reflexivity.
  - intros n fuel e rest acc Hf. destruct fuel as [|f]; [simpl in Hf; lia|]. exists f. split; [simpl in Hf; lia|]. destruct e; reflexivity.
  - intros n fuel e rest acc Hf. destruct fuel as [|f]; [simpl in Hf; lia|]. exists f. split; [simpl in Hf; lia|]. destruct e; reflexivity.
  - intros b3 body fuel e rest acc Hf. destruct fuel as [|f]; [simpl in Hf; lia|]. exists f. split; [simpl in Hf; lia|]. destruct e; reflexivity.
  - (* section *)
    intros b3 b3' sp n body IH cl fuel e rest acc Hf. cbn [mflat shape] in *. destruct fuel as [|f]; [simpl in Hf; lia|].
    set (E := {| mk := KSectionEnd; mv := end_value cl n |}) in *.
    assert (Hlen: (S (length (mflats body) + S (length rest)) < S f)%nat).
    { revert Hf. simpl. rewrite !app_length. simpl. lia. }
    destruct (IH f (Some n) (E :: rest) []) as (f' & Hf' & Heq); [rewrite app_length; cbn [length]; lia|].
    exists f. split; [lia|].
    cbn [app parse_seq mk mv is_sec]. rewrite <- app_assoc. cbn [app].
    assert (Hne: exists x y, mflats body ++ E :: rest = x :: y) by (destruct (mflats body); cbn [app]; eauto).
    destruct Hne as (x & y & Hxy). rewrite Hxy. rewrite <- Hxy. rewrite Heq.
    destruct f' as [|f'']; [cbn [length] in Hf'; lia|]. cbn [parse_seq mk mv E app]. rewrite end_matches.
    destruct e; reflexivity.
  - (* inverted section *)
    intros b3 b3' sp n body IH cl fuel e rest acc Hf. cbn [mflat shape] in *. destruct fuel as [|f]; [simpl in Hf; lia|].
    set (E := {| mk := KSectionEnd; mv := end_value cl n |}) in *.
    assert (Hlen: (S (length (mflats body) + S (length rest)) < S f)%nat).
    { revert Hf. simpl. rewrite !app_length. simpl. lia. }
    destruct (IH f (Some n) (E :: rest) []) as (f' & Hf' & Heq); [rewrite app_length; cbn [length]; lia|].
    exists f. split; [lia|].
    cbn [app parse_seq mk mv is_sec]. rewrite <- app_assoc. cbn [app].
    assert (Hne: exists x y, mflats body ++ E :: rest = x :: y) by (destruct (mflats body); cbn [app]; eauto).
    destruct Hne as (x & y & Hxy). rewrite Hxy. rewrite <- Hxy. rewrite Heq.
    destruct f' as [|f'']; [cbn [length] in Hf'; lia|]. cbn [parse_seq mk mv E app]. rewrite end_matches.
    destruct e; reflexivity.
  - intros fuel e rest acc Hf. exists fuel. split; [exact Hf|]. cbn [mflats shapes app]. rewrite app_nil_r. reflexivity.
  - intros t IHt r IHr fuel e rest acc Hf. cbn [mflats shapes] in *. rewrite <- app_assoc in *.
    destruct (IHt fuel e (mflats r ++ rest) acc Hf) as (f1 & H1 & E1). rewrite E1.
    destruct (IHr f1 e rest (acc ++ [shape t]) H1) as (f2 & H2 & E2). exists f2. split; [exact H2|]. rewrite E2. rewrite <- app_assoc. reflexivity.
Qed.

(* C10, token level: lexical analysis followed by syntax analysis of a well-formed template is its tree *)
Theorem template_parses ts : wfs ts -> ts <> TNil ->
  match lex_all lex0 (flats ts) [] with Ok ms => mparse ms | Err e => Err e | Panic => Panic | Fuel => Fuel end = Ok (shapes ts).
Proof.
  intros Hw Hne. pose proof (proj2 lex_flat ts Hw [] []) as Hl. rewrite app_nil_r in Hl. rewrite Hl. cbn [lex_all st lex0 app].
  unfold mparse. destruct (mflats ts) as [|m r] eqn:Em.
  - exfalso. destruct ts as [|t r]; [congruence|]. cbn [mflats] in Em. destruct t; discriminate.
  - rewrite <- Em. destruct (proj2 parse_flat ts (S (length (mflats ts))) None [] []) as (f' & Hf' & Heq); [rewrite app_nil_r; lia|].
    rewrite app_nil_r in Heq. rewrite Heq. destruct f'; [simpl in Hf'; lia|]. reflexivity.
Qed.

Print Assumptions template_parses.

(* ---------- rendering: the tree-walking renderer equals the reference semantics ---------- *)
Section RenderSpec.
  Variable lower : str -> str.
  Variable escape : str -> str.
  Notation get_var := (get_var lower).
  Notation defined := (defined lower).

  Fixpoint render_spec (vars : list (str * str)) (t : tnode) : str :=
    match t with
    | TText s => s
    | TVar n => match get_var vars n with Some x => x | None => [] end
    | TEVar n => match get_var vars n with Some x => escape x | None => [] end
    | TComment _ _ => []
    | TSec _ _ _ n body _ => if defined vars n then renders_spec vars body else []
    | TInv _ _ _ n body _ => if defined vars n then [] else renders_spec vars body
    end
  with renders_spec (vars : list (str * str)) (ts : tnodes) : str :=
    match ts with TNil => [] | TCons t r => render_spec vars t ++ renders_spec vars r end.

  Theorem render_ok vars :
    (forall t, render_node lower escape vars (shape t) = render_spec vars t) /\
    (forall ts, render lower escape vars (shapes ts) = renders_spec vars ts).
  Proof.
    apply tnode_mutind; try reflexivity.
    - intros b3 b3' sp n body IH cl. cbn [shape render_node render_spec]. unfold render in IH. rewrite IH. reflexivity.
    - intros b3 b3' sp n body IH cl. cbn [shape render_node render_spec]. unfold render in IH. rewrite IH. reflexivity.
    - intros t IHt r IHr. cbn [shapes renders_spec]. unfold render in *. rewrite IHt, IHr. reflexivity.
  Qed.
End RenderSpec.

Print Assumptions render_ok.
