(* C09: CSV text round-trips through the tokenizer, for every table, every valid configuration of separators and
   quote symbols, every way of writing the fields and each of the four line endings.
   Writing side (the specification): a field is written raw or quote-encoded, fields are joined by separators, rows
   by a line ending.  Reading side: Csv.csv_read = the CSV tokenizer with string decoding + regrouping. *)
From Coq Require Import List ZArith Bool Lia.
Import ListNotations.
Require Import Base Cursor Trie TrieSpec States Tokenizer TokenizerProofs Instances Tables TokModel TokModelProofs LexStep LexGrammar LexSeq CsvConfig Csv.
Require Quote QuoteProofs.
Open Scope Z_scope.

(* ---------- writing a table ---------- *)
Inductive how := Raw | Enc (q : Z).
Definition cell := (how * Base.str)%type.
Definition write_cell (c : cell) : Base.str := match fst c with Raw => snd c | Enc q => Quote.encode q (snd c) end.
Definition row := (cell * list (Z * cell))%type.                       (* first cell, then (separator, cell) ... *)
Definition write_rest (scs : list (Z * cell)) : Base.str := flat_map (fun sc => fst sc :: write_cell (snd sc)) scs.
Definition write_row (r : row) : Base.str := write_cell (fst r) ++ write_rest (snd r).
Definition table := (row * list row)%type.
Definition write_table (eol : Base.str) (t : table) : Base.str := write_row (fst t) ++ flat_map (fun r => eol ++ write_row r) (snd t).
Definition row_fields (r : row) : list Base.str := snd (fst r) :: map (fun sc => snd (snd sc)) (snd r).
Definition table_fields (t : table) : list (list Base.str) := row_fields (fst t) :: map row_fields (snd t).

Definition eol_ok (eol : Base.str) : Prop := eol = [10] \/ eol = [13] \/ eol = [13; 10] \/ eol = [10; 13].

(* ---------- regrouping depends on types and values only ---------- *)
Fixpoint regroup2 (ts : list (ttype * Base.str)) (field : Base.str) (row : list Base.str) : list (list Base.str) :=
  match ts with
  | [] => [rev (field :: row)]
  | (t, v) :: r =>
      match t with
      | Word | Quoted => regroup2 r v row
      | Symbol => regroup2 r [] (field :: row)
      | Eol => rev (field :: row) :: regroup2 r [] []
      | _ => regroup2 r field row
      end
  end.
Lemma regroup_regroup2 ts : forall f r, regroup ts f r = regroup2 (map (fun t => (ty t, value t)) ts) f r.
Proof. induction ts as [|t ts IH]; intros f r; [reflexivity|]. cbn [regroup map regroup2]. destruct (ty t); rewrite ?IH; reflexivity. Qed.

(* ---------- decoding as a post-processing ---------- *)
Definition dec (decode : Base.str -> Z -> Base.str) (r : rawtok) : token :=
  if from_quote r then mk (ty (rtok r)) (decode (value (rtok r)) (first_char r)) (line (rtok r), col (rtok r)) else rtok r.
Lemma post_decode_only decode : forall rs last e, last <> Eof -> Forall (fun r => ty (rtok r) <> Eof) rs ->
  post decode decode_only last rs e = map (dec decode) rs ++ [mk Eof [] e].
Proof.
  induction rs as [|r rs IH]; intros last e Hl Hf; cbn [Tokenizer.post map app].
  - cbn [decode_only skipEof negb]. rewrite andb_true_r.
    destruct (ttype_eqb last Eof) eqn:E; [apply ttype_eqb_eq in E; contradiction|reflexivity].
  - cbn [decode_only skipUnknown decodeStrings skipComments skipWhitespaces mergeWhitespaces unifyNumbers]. rewrite !andb_false_r, andb_true_r. cbn [andb].
    unfold dec at 1. inversion Hf as [|? ? Hr Hrs]; subst.
    destruct (from_quote r); cbn [ty mk]; rewrite IH; auto.
Qed.

Section Csv.
  Variable seps quotes : list Z.
  Hypothesis Hseps : valid_chars seps.
  Hypothesis Hquotes : valid_chars quotes.
  Hypothesis Hdisjoint : Forall (fun s => mem s quotes = false) seps.

  Notation cfg := (csv_cfg seps quotes).
  Notation regs := (regs_of csv_symbols).
  Notation plain := (csv_plain seps quotes).

  Definition cell_ok (c : cell) : Prop := match fst c with Raw => all plain (snd c) | Enc q => mem q quotes = true end.
  Definition row_ok (r : row) : Prop := cell_ok (fst r) /\ Forall (fun sc => mem (fst sc) seps = true /\ cell_ok (snd sc)) (snd r).
  Definition table_ok (t : table) : Prop := row_ok (fst t) /\ Forall row_ok (snd t).

  (* ---------- the lexemes of a written table ---------- *)
  Definition cell_lex (c : cell) : list (ttype * Base.str) :=
    match fst c with Raw => match snd c with [] => [] | f => [(Word, f)] end | Enc q => [(Quoted, Quote.encode q (snd c))] end.
  Definition rest_lex (scs : list (Z * cell)) : list (ttype * Base.str) := flat_map (fun sc => (Symbol, [fst sc]) :: cell_lex (snd sc)) scs.
  Definition row_lex (r : row) : list (ttype * Base.str) := cell_lex (fst r) ++ rest_lex (snd r).
  Definition rows_lex (eol : Base.str) (rows : list row) : list (ttype * Base.str) := flat_map (fun r => (Eol, eol) :: row_lex r) rows.
  Definition table_lex (eol : Base.str) (t : table) : list (ttype * Base.str) := row_lex (fst t) ++ rows_lex eol (snd t).

  Notation text ls := (concat (map snd ls)).

  Lemma text_app (a b : list (ttype * Base.str)) : text (a ++ b) = text a ++ text b.
  Proof. rewrite map_app, concat_app. reflexivity. Qed.
  Lemma text_cell c : text (cell_lex c) = write_cell c.
  Proof. destruct c as [[|q] f]; unfold cell_lex, write_cell; cbn [fst snd]; [destruct f; [reflexivity|cbn; rewrite app_nil_r; reflexivity]|cbn; rewrite app_nil_r; reflexivity]. Qed.
  Lemma text_rest scs : text (rest_lex scs) = write_rest scs.
  Proof. induction scs as [|[s c] scs IH]; [reflexivity|]. cbn [rest_lex write_rest flat_map fst snd]. rewrite text_app. fold (rest_lex scs) (write_rest scs). rewrite IH. cbn [map concat snd app]. rewrite text_cell. reflexivity. Qed.
  Lemma text_row r : text (row_lex r) = write_row r.
  Proof. unfold row_lex, write_row. rewrite text_app, text_cell, text_rest. reflexivity. Qed.
  Lemma text_rows eol rows : text (rows_lex eol rows) = flat_map (fun r => eol ++ write_row r) rows.
  Proof. induction rows as [|r rows IH]; [reflexivity|]. cbn [rows_lex flat_map]. rewrite text_app. fold (rows_lex eol rows). rewrite IH. cbn [map concat snd]. rewrite text_row. rewrite <- app_assoc. reflexivity. Qed.
  Lemma text_table eol t : text (table_lex eol t) = write_table eol t.
  Proof. unfold table_lex, write_table. rewrite text_app, text_row, text_rows. reflexivity. Qed.

  (* lexemes in front of a tail *)
  Fixpoint lex_before (tail : Base.str) (ls : list (ttype * Base.str)) : Prop :=
    match ls with [] => True | (t, lx) :: r => lexeme cfg regs t lx (text r ++ tail) /\ lex_before tail r end.
  Lemma lex_before_nil ls : lex_before [] ls -> lexemes cfg regs ls.
  Proof. induction ls as [|[t lx] ls IH]; [auto|]. cbn [lex_before lexemes]. rewrite app_nil_r. intros [H1 H2]. auto. Qed.
  Lemma lex_before_app a b tail : lex_before (text b ++ tail) a -> lex_before tail b -> lex_before tail (a ++ b).
  Proof.
    induction a as [|[t lx] a IH]; cbn [app lex_before]; [auto|]. intros [H1 H2] Hb. split; [|apply IH; assumption].
    rewrite text_app, <- app_assoc. exact H1.
  Qed.

  (* ---------- what may follow a cell ---------- *)
  Definition after_cell (c : Z) : Prop := plain c = false /\ mem c quotes = false.

  Lemma mem_in c l : mem c l = true <-> In c l.
  Proof. unfold mem. rewrite existsb_exists. split; [intros (x & Hx & E); apply Z.eqb_eq in E; subst; exact Hx|intros H; exists c; split; [exact H|apply Z.eqb_refl]]. Qed.
  Lemma valid_mem c l : valid_chars l -> mem c l = true -> 0 <= c <= 65534 /\ c <> 13 /\ c <> 10.
  Proof. intros Hv Hm. apply mem_in in Hm. unfold valid_chars in Hv. rewrite Forall_forall in Hv. exact (Hv c Hm). Qed.
  Lemma not_mem_lf l : valid_chars l -> mem 10 l = false /\ mem 13 l = false.
  Proof. intros Hv. split; (destruct (mem _ l) eqn:E; [apply (valid_mem _ l Hv) in E; lia|reflexivity]). Qed.
  Lemma sep_not_quote s : mem s seps = true -> mem s quotes = false.
  Proof. intros H. apply mem_in in H. rewrite Forall_forall in Hdisjoint. exact (Hdisjoint s H). Qed.

  Lemma after_eof : after_cell eof.
  Proof. split; [reflexivity|]. destruct (mem eof quotes) eqn:E; [apply (valid_mem _ _ Hquotes) in E; unfold eof in E; lia|reflexivity]. Qed.
  Lemma after_sep s : mem s seps = true -> after_cell s.
  Proof. intros H. split; [|apply sep_not_quote; exact H]. unfold csv_plain. rewrite H. cbn [negb]. rewrite andb_false_r. reflexivity. Qed.
  Lemma after_break c : c = 10 \/ c = 13 -> after_cell c.
  Proof.
    intros H. destruct (not_mem_lf quotes Hquotes) as [H1 H2]. split; [|destruct H as [-> | ->]; assumption].
    unfold csv_plain. destruct H as [-> | ->]; cbn [Z.eqb Pos.eqb negb]; rewrite ?andb_false_r; reflexivity.
  Qed.

  Lemma plain_kind c : plain c = true -> starts cfg KWord c.
  Proof.
    unfold starts. rewrite (csv_table_is seps quotes Hseps Hquotes). unfold csv_plain, csv_kind, csv_role. intros H.
    destruct ((0 <=? c) && (c <=? 65534)); [|discriminate]. cbn [andb] in H.
    destruct (mem c quotes); [discriminate|]. destruct (mem c seps); [discriminate|]. destruct (c =? 10); [discriminate|]. destruct (c =? 13); [discriminate|]. reflexivity.
  Qed.
  Lemma quote_kind q : mem q quotes = true -> starts cfg KCsvQuote q.
  Proof.
    intros H. unfold starts. rewrite (csv_table_is seps quotes Hseps Hquotes). unfold csv_kind, csv_role. destruct (valid_mem _ _ Hquotes H) as (Hr & _ & _).
    replace ((0 <=? q) && (q <=? 65534)) with true by (symmetry; apply andb_true_intro; split; apply Z.leb_le; lia). rewrite H. reflexivity.
  Qed.
  Lemma sep_kind s : mem s seps = true -> starts cfg KCsvSymbol s.
  Proof.
    intros H. unfold starts. rewrite (csv_table_is seps quotes Hseps Hquotes). unfold csv_kind, csv_role. destruct (valid_mem _ _ Hseps H) as (Hr & _ & _).
    replace ((0 <=? s) && (s <=? 65534)) with true by (symmetry; apply andb_true_intro; split; apply Z.leb_le; lia). rewrite (sep_not_quote s H), H. reflexivity.
  Qed.
  Lemma break_kind c : c = 10 \/ c = 13 -> starts cfg KCsvSymbol c.
  Proof.
    intros H. unfold starts. rewrite (csv_table_is seps quotes Hseps Hquotes). unfold csv_kind, csv_role.
    destruct (not_mem_lf quotes Hquotes) as [H1 H2]. destruct (not_mem_lf seps Hseps) as [H3 H4].
    destruct H as [-> | ->]; cbn [Z.leb Z.compare Pos.compare Pos.compare_cont andb]; rewrite ?H1, ?H2, ?H3, ?H4; reflexivity.
  Qed.

  Lemma cell_lexemes c tail : cell_ok c -> after_cell (hdz tail) -> lex_before tail (cell_lex c).
  Proof.
    destruct c as [[|q] f]; unfold cell_ok, cell_lex; cbn [fst snd]; intros Hc [Ha1 Ha2].
    - destruct f as [|x f]; [exact I|]. cbn [lex_before map concat app]. split; [|exact I].
      apply L_word.
      + apply plain_kind. exact (Forall_inv Hc).
      + eapply Forall_impl; [|exact Hc]. intros a Ha. cbv beta in *. rewrite (csv_wordchar_is seps quotes Hseps Hquotes). exact Ha.
      + rewrite (csv_wordchar_is seps quotes Hseps Hquotes). exact Ha1.
    - cbn [lex_before map concat app]. split; [|exact I]. apply L_csv_quoted; [apply quote_kind; exact Hc|].
      intros E. rewrite E in Ha2. congruence.
  Qed.

  Lemma hdz_rest scs tail : Forall (fun sc => mem (fst sc) seps = true /\ cell_ok (snd sc)) scs -> after_cell (hdz tail) ->
    after_cell (hdz (text (rest_lex scs) ++ tail)).
  Proof. intros H Ht. destruct scs as [|[s c] scs]; [exact Ht|]. cbn. apply after_sep. exact (proj1 (Forall_inv H)). Qed.

  Lemma rest_lexemes : forall scs tail, Forall (fun sc => mem (fst sc) seps = true /\ cell_ok (snd sc)) scs -> after_cell (hdz tail) ->
    lex_before tail (rest_lex scs).
  Proof.
    induction scs as [|[s c] scs IH]; intros tail H Ht; [exact I|]. destruct (Forall_inv H) as [Hs Hc]. pose proof (Forall_inv_tail H) as H'. cbn [fst snd] in *.
    cbn [rest_lex flat_map fst snd]. fold (rest_lex scs). cbn [app lex_before]. split.
    - destruct (valid_mem _ _ Hseps Hs) as (_ & H13 & H10). apply L_csv_separator; [apply sep_kind; exact Hs|exact H10|exact H13].
    - apply lex_before_app; [|apply IH; assumption]. apply cell_lexemes; [exact Hc|]. apply hdz_rest; assumption.
  Qed.

  Lemma row_lexemes r tail : row_ok r -> after_cell (hdz tail) -> lex_before tail (row_lex r).
  Proof.
    intros [Hc Hr] Ht. unfold row_lex. apply lex_before_app; [|apply rest_lexemes; assumption].
    apply cell_lexemes; [exact Hc|]. apply hdz_rest; assumption.
  Qed.

  (* the first character of a written row: a field character, a quote, a separator - or the row is empty *)
  Definition startc (c : Z) : Prop := plain c = true \/ mem c quotes = true \/ mem c seps = true.
  Lemma startc_not_break c : startc c -> c <> 10 /\ c <> 13.
  Proof.
    intros [H|[H|H]].
    - unfold csv_plain in H. repeat (apply andb_prop in H; destruct H as [H ?]).
      split; intros ->; discriminate.
    - destruct (valid_mem _ _ Hquotes H) as (_ & ? & ?). split; assumption.
    - destruct (valid_mem _ _ Hseps H) as (_ & ? & ?). split; assumption.
  Qed.
  Lemma row_first r tail : row_ok r -> startc (hdz (text (row_lex r) ++ tail)) \/ hdz (text (row_lex r) ++ tail) = hdz tail.
  Proof.
    intros [Hc Hr]. destruct r as [[[|q] f] scs]; unfold row_lex, cell_ok, cell_lex in *; cbn [fst snd] in *.
    - destruct f as [|x f].
      + cbn [app]. destruct scs as [|[s c] scs]; [right; reflexivity|]. left. right. right. cbn. exact (proj1 (Forall_inv Hr)).
      + left. left. cbn. exact (Forall_inv Hc).
    - left. right. left. cbn. exact Hc.
  Qed.

  (* ---------- line endings ---------- *)
  Definition eol_follow (eol : Base.str) (c : Z) : Prop := (eol = [10] -> c <> 13) /\ (eol = [13] -> c <> 10).

  Lemma eol_lexeme eol rest : eol_ok eol -> eol_follow eol (hdz rest) -> lexeme cfg regs Eol eol rest.
  Proof.
    intros He [Hf1 Hf2].
    assert (Hlong: longest regs eol rest).
    { split; [left; destruct He as [-> | [-> | [-> | ->]]]; reflexivity|].
      intros q Hq Hreg Hpre. unfold registered in Hreg. apply existsb_exists in Hreg. destruct Hreg as (r & Hin & Heq). apply str_eqb_eq in Heq. subst q.
      cbn in Hin. apply is_prefix_spec in Hpre. destruct Hpre as [r0 Hr0].
      destruct He as [-> | [-> | [-> | ->]]]; destruct Hin as [<- | [<- | [<- | [<- | []]]]]; cbn [fst length app] in *; try lia; exfalso; inversion Hr0; subst.
      - apply (Hf1 eq_refl). reflexivity.
      - apply (Hf2 eq_refl). reflexivity. }
    destruct He as [-> | [-> | [-> | ->]]].
    - change Eol with (symbol_type regs [10]). apply L_csv_eol; [apply break_kind|left; reflexivity|exact Hlong]; auto.
    - change Eol with (symbol_type regs [13]). apply L_csv_eol; [apply break_kind|right; reflexivity|exact Hlong]; auto.
    - change Eol with (symbol_type regs [13; 10]). apply L_csv_eol; [apply break_kind|right; reflexivity|exact Hlong]; auto.
    - change Eol with (symbol_type regs [10; 13]). apply L_csv_eol; [apply break_kind|left; reflexivity|exact Hlong]; auto.
  Qed.

  Lemma eol_hd eol : eol_ok eol -> (hdz eol = 10 \/ hdz eol = 13) /\ eol_follow eol (hdz eol) /\ eol <> [].
  Proof. intros [-> | [-> | [-> | ->]]]; cbn; (split; [auto|split; [split; intros E; inversion E; discriminate|discriminate]]). Qed.

  Lemma hdz_rows eol rows : eol_ok eol -> hdz (text (rows_lex eol rows)) = eof \/ hdz (text (rows_lex eol rows)) = hdz eol.
  Proof.
    intros He. destruct rows as [|r rows]; [left; reflexivity|]. right. cbn [rows_lex flat_map map concat snd].
    destruct (eol_hd eol He) as (_ & _ & Hne). destruct eol; [congruence|reflexivity].
  Qed.

  Lemma rows_lexemes eol : eol_ok eol -> forall rows, Forall row_ok rows -> lex_before [] (rows_lex eol rows).
  Proof.
    intros He. induction rows as [|r rows IH]; intros H; [exact I|]. pose proof (Forall_inv H) as Hr. pose proof (Forall_inv_tail H) as H'.
    cbn [rows_lex flat_map]. fold (rows_lex eol rows). cbn [app lex_before]. rewrite app_nil_r.
    destruct (eol_hd eol He) as (Hh & Hself & _).
    assert (Hafter: after_cell (hdz (text (rows_lex eol rows) ++ []))).
    { rewrite app_nil_r. destruct (hdz_rows eol rows He) as [E|E]; rewrite E; [apply after_eof|apply after_break; exact Hh]. }
    split.
    - apply eol_lexeme; [exact He|]. rewrite text_app.
      destruct (row_first r (text (rows_lex eol rows)) Hr) as [Hs|Hs].
      + apply startc_not_break in Hs. destruct Hs. split; intros _; assumption.
      + rewrite Hs. destruct (hdz_rows eol rows He) as [E|E]; rewrite E; [split; intros _; unfold eof; discriminate|exact Hself].
    - apply lex_before_app; [|apply IH; exact H']. apply row_lexemes; [exact Hr|exact Hafter].
  Qed.

  Theorem table_lexemes eol t : eol_ok eol -> table_ok t -> lexemes cfg regs (table_lex eol t).
  Proof.
    intros He [Hr Hrows]. apply lex_before_nil. unfold table_lex. apply lex_before_app; [|apply rows_lexemes; assumption].
    assert (Ha: after_cell (hdz (text (rows_lex eol (snd t))))).
    { destruct (hdz_rows eol (snd t) He) as [E|E]; rewrite E; [apply after_eof|apply after_break; exact (proj1 (eol_hd eol He))]. }
    apply row_lexemes; [exact Hr|]. rewrite app_nil_r. exact Ha.
  Qed.

  (* ---------- reading: decode, then regroup ---------- *)
  Definition dcell (c : cell) : list (ttype * Base.str) :=
    match fst c with Raw => match snd c with [] => [] | f => [(Word, f)] end | Enc q => [(Quoted, snd c)] end.
  Definition drest (scs : list (Z * cell)) : list (ttype * Base.str) := flat_map (fun sc => (Symbol, [fst sc]) :: dcell (snd sc)) scs.
  Definition drow (r : row) : list (ttype * Base.str) := dcell (fst r) ++ drest (snd r).
  Definition drows (eol : Base.str) (rows : list row) : list (ttype * Base.str) := flat_map (fun r => (Eol, eol) :: drow r) rows.

  (* decoding applies exactly to the tokens whose first character the table hands to the quote state *)
  Definition decl (p : ttype * Base.str) : ttype * Base.str :=
    (fst p, if is_quote_kind (Instances.table cfg (hdz (snd p))) then decode_doubled (snd p) (hdz (snd p)) else snd p).

  Lemma decl_cell c : cell_ok c -> map decl (cell_lex c) = dcell c.
  Proof.
    destruct c as [[|q] f]; unfold cell_ok, cell_lex, dcell; cbn [fst snd]; intros Hc.
    - destruct f as [|x f]; [reflexivity|]. cbn [map]. unfold decl. cbn [fst snd hdz nth]. rewrite (plain_kind x (Forall_inv Hc)). reflexivity.
    - cbn [map]. unfold decl. cbn [fst snd]. change (hdz (Quote.encode q f)) with q. rewrite (quote_kind q Hc). cbn [is_quote_kind].
      unfold decode_doubled. rewrite QuoteProofs.decode_encode. reflexivity.
  Qed.
  Lemma decl_rest scs : Forall (fun sc => mem (fst sc) seps = true /\ cell_ok (snd sc)) scs -> map decl (rest_lex scs) = drest scs.
  Proof.
    induction scs as [|[s c] scs IH]; intros H; [reflexivity|]. destruct (Forall_inv H) as [Hs Hc]. cbn [fst snd] in *.
    change (rest_lex ((s, c) :: scs)) with ((@pair ttype Base.str Symbol [s] :: cell_lex c) ++ rest_lex scs).
    change (drest ((s, c) :: scs)) with ((@pair ttype Base.str Symbol [s] :: dcell c) ++ drest scs).
    rewrite map_app. rewrite (IH (Forall_inv_tail H)). cbn [map]. rewrite (decl_cell c Hc).
    unfold decl at 1. cbn [fst snd hdz nth]. rewrite (sep_kind s Hs). reflexivity.
  Qed.
  Lemma decl_row r : row_ok r -> map decl (row_lex r) = drow r.
  Proof. intros [Hc Hr]. unfold row_lex, drow. rewrite map_app, (decl_cell _ Hc), (decl_rest _ Hr). reflexivity. Qed.
  Lemma decl_rows eol rows : eol_ok eol -> Forall row_ok rows -> map decl (rows_lex eol rows) = drows eol rows.
  Proof.
    intros He. induction rows as [|r rows IH]; intros H; [reflexivity|].
    change (rows_lex eol (r :: rows)) with ((@pair ttype Base.str Eol eol :: row_lex r) ++ rows_lex eol rows).
    change (drows eol (r :: rows)) with ((@pair ttype Base.str Eol eol :: drow r) ++ drows eol rows).
    rewrite map_app, (IH (Forall_inv_tail H)). cbn [map]. rewrite (decl_row r (Forall_inv H)).
    unfold decl at 1. cbn [fst snd]. destruct (eol_hd eol He) as (Hh & _ & _). rewrite (break_kind (hdz eol) Hh). reflexivity.
  Qed.

  (* regrouping the decoded stream *)
  Lemma rg_cell c rest row : regroup2 (dcell c ++ rest) [] row = regroup2 rest (snd c) row.
  Proof. destruct c as [[|q] f]; unfold dcell; cbn [fst snd]; [destruct f; reflexivity|reflexivity]. Qed.

  Fixpoint go (scs : list (Z * cell)) (field : Base.str) (row : list Base.str) : Base.str * list Base.str :=
    match scs with [] => (field, row) | sc :: r => go r (snd (snd sc)) (field :: row) end.
  Lemma rg_rest : forall scs rest field row, regroup2 (drest scs ++ rest) field row = regroup2 rest (fst (go scs field row)) (snd (go scs field row)).
  Proof.
    induction scs as [|[s c] scs IH]; intros rest field row; [reflexivity|].
    change (drest ((s, c) :: scs)) with ((@pair ttype Base.str Symbol [s] :: dcell c) ++ drest scs).
    cbn [app regroup2]. rewrite <- app_assoc, rg_cell. rewrite IH. reflexivity.
  Qed.
  Lemma go_rev : forall scs field row, rev (fst (go scs field row) :: snd (go scs field row)) = rev row ++ field :: map (fun sc => snd (snd sc)) scs.
  Proof.
    induction scs as [|[s c] scs IH]; intros field row; [reflexivity|]. cbn [go map snd]. rewrite IH. cbn [rev]. rewrite <- app_assoc. reflexivity.
  Qed.
  Lemma rg_row r rest : exists f' r', regroup2 (drow r ++ rest) [] [] = regroup2 rest f' r' /\ rev (f' :: r') = row_fields r.
  Proof.
    unfold drow. rewrite <- app_assoc, rg_cell, rg_rest. eexists. eexists. split; [reflexivity|]. rewrite go_rev. reflexivity.
  Qed.
  Lemma rg_rows eol : forall rows f' r', regroup2 (drows eol rows ++ [@pair ttype Base.str Eof []]) f' r' = rev (f' :: r') :: map row_fields rows.
  Proof.
    induction rows as [|r rows IH]; intros f' r'; [reflexivity|].
    change (drows eol (r :: rows)) with ((@pair ttype Base.str Eol eol :: drow r) ++ drows eol rows).
    cbn [app regroup2]. f_equal. rewrite <- app_assoc.
    destruct (rg_row r (drows eol rows ++ [@pair ttype Base.str Eof []])) as (f2 & r2 & H1 & H2). rewrite H1, IH, H2. reflexivity.
  Qed.

  (* ---------- C09 ---------- *)
  Theorem csv_roundtrip eol t : eol_ok eol -> table_ok t -> wf_str (write_table eol t) ->
    csv_read seps quotes (write_table eol t) = Some (table_fields t).
  Proof.
    intros He Ht Hwf. pose proof (table_lexemes eol t He Ht) as Hls.
    destruct (csv_cfg_ok seps quotes) as [Hc Hty].
    rewrite <- text_table in *.
    destruct (lexemes_tokenize_options lcf plcf decode_doubled cfg regs Hlc_model Hc Hty eq_refl
                (proj1 (valid_regb_ok _ csv_regs_ok)) ltac:(repeat constructor; discriminate) (table_lex eol t) Hwf Hls) as (rs & e & Htok & Hm & Hq & Hne).
    unfold csv_read. change (tokenize_with (TCsv seps quotes) decode_only (text (table_lex eol t))) with (tokenize_cfg lcf plcf decode_doubled cfg decode_only (text (table_lex eol t))).
    rewrite Htok. f_equal. rewrite post_decode_only by (auto; discriminate). rewrite regroup_regroup2, map_app. cbn [map mk ty value].
    assert (Hd: map (fun t0 => (ty t0, value t0)) (map (dec decode_doubled) rs) = map decl (table_lex eol t)).
    { rewrite <- Hm, !map_map. apply map_ext_in. intros r Hr. rewrite Forall_forall in Hq. destruct (Hq r Hr) as [H1 H2].
      unfold dec, decl. cbn [fst snd]. rewrite H2, H1. destruct (is_quote_kind _); reflexivity. }
    rewrite Hd. unfold table_lex. destruct Ht as [Hr0 Hrows]. rewrite map_app, (decl_row _ Hr0), (decl_rows eol _ He Hrows). rewrite <- app_assoc.
    destruct (rg_row (fst t) (drows eol (snd t) ++ [@pair ttype Base.str Eof []])) as (f' & r' & H1 & H2). rewrite H1, rg_rows, H2. reflexivity.
  Qed.
End Csv.

Print Assumptions csv_roundtrip.
