From Coq Require Import List ZArith Bool Lia.
Import ListNotations.
Open Scope Z_scope.

Definition str := list Z.

(* strings.ReplaceAll(s, q, qq): every quote is doubled *)
Fixpoint double (q : Z) (s : str) : str :=
  match s with [] => [] | c :: r => if c =? q then q :: q :: double q r else c :: double q r end.

(* strings.ReplaceAll(s, qq, q): leftmost, non-overlapping *)
Fixpoint undouble (q : Z) (s : str) : str :=
  match s with
  | c :: ((d :: r) as t) => if (c =? q) && (d =? q) then q :: undouble q r else c :: undouble q t
  | _ => s end.

Inductive outcome (A : Type) := Ok (a : A) | Panic.
Arguments Ok {A}. Arguments Panic {A}.

Definition last_index_ok (runes : str) (i : nat) : option Z := nth_error runes i.

(* ExpressionQuoteState / CsvQuoteState *)
Definition encode (q : Z) (s : str) : str := q :: double q s ++ [q].

(* decode with the index expression as a parameter: idx runes = len(runes)-1 after the repair,
   the UTF-8 byte length - 1 before it *)
Definition decode_at (idx : str -> nat) (q : Z) (v : str) : outcome str :=
  match v with
  | first :: _ :: _ =>
      if first =? q then
        match nth_error v (idx v) with
        | None => Panic                                        (* index out of range *)
        | Some lastc => if lastc =? q then Ok (undouble q (removelast (tl v))) else Ok v
        end
      else Ok v
  | _ => Ok v
  end.
Definition decode := decode_at (fun v => pred (length v)).

(* GenericQuoteState *)
Definition gencode (q : Z) (s : str) : str := q :: s ++ [q].
Definition gdecode (q : Z) (v : str) : outcome str :=
  match v with
  | first :: _ :: _ =>
      match nth_error v (pred (length v)) with
      | None => Panic
      | Some lastc => if (first =? q) && (lastc =? q) then Ok (removelast (tl v)) else Ok v
      end
  | _ => Ok v end.

(* the token reader of the expression and CSV quote states, on the characters after the opening quote:
   returns (characters consumed including the closing quote, rest) *)
Fixpoint qbody (q : Z) (s : str) : str * str :=
  match s with
  | [] => ([], [])
  | c :: r =>
      if c =? q then
        match r with
        | d :: r' => if d =? q then let '(b, rest) := qbody q r' in (q :: q :: b, rest) else ([q], r)
        | [] => ([q], [])
        end
      else let '(b, rest) := qbody q r in (c :: b, rest)
  end.
Definition quote_next (s : str) : str * str :=
  match s with [] => ([], []) | q :: r => let '(b, rest) := qbody q r in (q :: b, rest) end.

(* UTF-8 byte length, to state the old defect *)
Definition utf8_width (c : Z) : nat := if c <? 128 then 1 else if c <? 2048 then 2 else if c <? 65536 then 3 else 4.
Definition utf8_len (s : str) : nat := fold_right (fun c n => (utf8_width c + n)%nat) 0%nat s.
Definition decode_bytelen := decode_at (fun v => pred (utf8_len v)).

(* the token reader of GenericQuoteState: stops at the first quote *)
Fixpoint gbody (q : Z) (s : str) : str * str :=
  match s with
  | [] => ([], [])
  | c :: r => if c =? q then ([q], r) else let '(b, rest) := gbody q r in (c :: b, rest)
  end.
Definition gquote_next (s : str) : str * str :=
  match s with [] => ([], []) | q :: r => let '(b, rest) := gbody q r in (q :: b, rest) end.
