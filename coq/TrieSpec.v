(* Characterisation of the trie built from a registration list, and the longest-match theorem (C16). *)
Require Import Base Cursor Trie TrieProofs.

Fixpoint is_prefix (a b : str) : bool :=
  match a, b with [], _ => true | x :: a', y :: b' => (x =? y) && is_prefix a' b' | _ :: _, [] => false end.

Lemma is_prefix_spec a b : is_prefix a b = true <-> exists r, b = a ++ r.
Proof.
  revert b. induction a as [|x a IH]; intros b; simpl.
  - split; [intros _; exists b; reflexivity|auto].
  - destruct b as [|y b]; [split; [discriminate|intros [r H]; discriminate]|].
    split.
    + intros H. apply andb_prop in H. destruct H as [H1 H2]. apply Z.eqb_eq in H1. apply IH in H2. destruct H2 as [r ->]. subst. exists r. reflexivity.
    + intros [r H]. inversion H; subst. rewrite Z.eqb_refl. simpl. apply IH. exists r. reflexivity.
Qed.

Lemma node_set t path i q : node (set_node t path i) q = if str_eqb path q then Some i else node t q.
Proof. reflexivity. Qed.

Lemma str_eqb_refl a : str_eqb a a = true. Proof. apply str_eqb_eq. reflexivity. Qed.
Lemma str_eqb_sym a b : str_eqb a b = str_eqb b a.
Proof. destruct (str_eqb a b) eqn:E. - apply str_eqb_eq in E. subst. symmetry. apply str_eqb_refl.
  - destruct (str_eqb b a) eqn:E'; auto. apply str_eqb_eq in E'. subst. rewrite str_eqb_refl in E. discriminate. Qed.

Lemma node_ensure t path q : node (ensure t path) q =
  if str_eqb path q then (match node t path with Some i => Some i | None => Some {| valid := false; tt := Unknown |} end) else node t q.
Proof.
  unfold ensure. destruct (node t path) as [i|] eqn:E.
  - destruct (str_eqb path q) eqn:Eq; auto. apply str_eqb_eq in Eq. subst. auto.
  - rewrite node_set. reflexivity.
Qed.

(* the effect of AddDescendantLine on an arbitrary lookup *)
Definition fresh : info := {| valid := false; tt := Unknown |}.
Definition keep (o : option info) : option info := match o with Some i => Some i | None => Some fresh end.

Lemma node_descend : forall rest t path ty q,
  node (descend t path rest ty) q =
    if str_eqb (path ++ rest) q then Some {| valid := true; tt := ty |}
    else if is_prefix path q && is_prefix q (path ++ rest) && negb (str_eqb path q) then keep (node t q)
    else node t q.
Proof.
  induction rest as [|c r IH]; intros t path ty q; cbn [descend].
  - rewrite app_nil_r, node_set. destruct (str_eqb path q) eqn:E; [reflexivity|].
    destruct (is_prefix path q && is_prefix q path) eqn:E2; [|reflexivity].
    (* mutual prefixes are equal *)
    exfalso. apply andb_prop in E2. destruct E2 as [H1 H2]. apply is_prefix_spec in H1. apply is_prefix_spec in H2.
    destruct H1 as [r1 ->]. destruct H2 as [r2 H2]. rewrite <- app_assoc in H2.
    assert (r1 ++ r2 = []). { apply (f_equal (@length Z)) in H2. rewrite !app_length in H2. destruct r1; destruct r2; simpl in *; auto; lia. }
    apply app_eq_nil in H. destruct H as [-> _]. rewrite app_nil_r, str_eqb_refl in E. discriminate.
  - rewrite IH. rewrite <- app_assoc. cbn [app].
    destruct (str_eqb (path ++ c :: r) q) eqn:Efull; [reflexivity|].
    rewrite node_ensure.
    destruct (str_eqb (path ++ [c]) q) eqn:Ec.
    + (* q is the child just ensured *)
      apply str_eqb_eq in Ec. subst q.
      assert (H1: is_prefix (path ++ [c]) (path ++ [c]) = true) by (apply is_prefix_spec; exists []; rewrite app_nil_r; reflexivity).
      assert (H2: is_prefix (path ++ [c]) (path ++ c :: r) = true) by (apply is_prefix_spec; exists r; rewrite <- app_assoc; reflexivity).
      assert (H3: is_prefix path (path ++ [c]) = true) by (apply is_prefix_spec; exists [c]; reflexivity).
      assert (H4: str_eqb path (path ++ [c]) = false).
      { destruct (str_eqb path (path ++ [c])) eqn:E; auto. apply str_eqb_eq in E. apply (f_equal (@length Z)) in E. rewrite app_length in E. simpl in E. lia. }
      rewrite H2, H3, H4. cbn [andb negb]. rewrite andb_false_r.
      destruct (node t (path ++ [c])); reflexivity.
    + (* other lookups: the side conditions for path++[c] and for path agree except at q = path, which is not below path++[c] *)
      destruct (is_prefix (path ++ [c]) q && is_prefix q (path ++ c :: r) && negb false) eqn:E1.
      * apply andb_prop in E1. destruct E1 as [E1 _]. apply andb_prop in E1. destruct E1 as [Ea Eb].
        assert (Hp: is_prefix path q = true).
        { apply is_prefix_spec in Ea. destruct Ea as [x ->]. apply is_prefix_spec. exists ([c] ++ x). rewrite <- app_assoc. reflexivity. }
        assert (Hn: str_eqb path q = false).
        { destruct (str_eqb path q) eqn:E; auto. apply str_eqb_eq in E. subst q. apply is_prefix_spec in Ea. destruct Ea as [x Hx].
          apply (f_equal (@length Z)) in Hx. rewrite !app_length in Hx. simpl in Hx. lia. }
        rewrite Hp, Eb, Hn. reflexivity.
      * destruct (is_prefix path q && is_prefix q (path ++ c :: r) && negb (str_eqb path q)) eqn:E2; [|reflexivity].
        exfalso. apply andb_prop in E2. destruct E2 as [E2 En]. apply andb_prop in E2. destruct E2 as [Ea Eb].
        apply negb_true_iff in En.
        (* q extends path strictly and is a prefix of path ++ c :: r, so it starts with path ++ [c] *)
        apply is_prefix_spec in Ea. destruct Ea as [x ->]. destruct x as [|x0 x]; [rewrite app_nil_r, str_eqb_refl in En; discriminate|].
        pose proof Eb as Eb'. apply is_prefix_spec in Eb'. destruct Eb' as [y Hy]. rewrite <- app_assoc in Hy. apply app_inv_head in Hy. inversion Hy; subst x0.
        assert (Ha: is_prefix (path ++ [c]) (path ++ c :: x) = true) by (apply is_prefix_spec; exists x; rewrite <- app_assoc; reflexivity).
        rewrite Ha, Eb in E1. discriminate.
Qed.

(* the effect of one registration on an arbitrary lookup *)
Definition implicit (q : str) : info := if (length q =? 1)%nat then {| valid := true; tt := Symbol |} else fresh.

Lemma is_prefix_nil_r q : is_prefix q [] = true -> q = [].
Proof. destruct q; [reflexivity|discriminate]. Qed.

Lemma node_add t v0 rest ty q :
  (forall i, node t [v0] = Some i -> valid i = true) ->
  node (add t (v0 :: rest) ty) q =
    if str_eqb (v0 :: rest) q then Some {| valid := true; tt := ty |}
    else if is_prefix q (v0 :: rest) && negb (str_eqb q []) then
      match node t q with Some i => Some i | None => Some (implicit q) end
    else node t q.
Proof.
  intros Hty. unfold add.
  set (t1 := ensure t [v0]).
  assert (Ht1: forall x, node t1 x = if str_eqb [v0] x then keep (node t [v0]) else node t x).
  { intros x. unfold t1. rewrite node_ensure. reflexivity. }
  set (t2 := match node t1 [v0] with
             | Some i => if negb (valid i) then set_node t1 [v0] {| valid := true; tt := Symbol |} else t1
             | None => t1 end).
  assert (Ht2: forall x, node t2 x = if str_eqb [v0] x then (match node t [v0] with Some i => Some i | None => Some {| valid := true; tt := Symbol |} end) else node t x).
  { intros x. unfold t2. rewrite (Ht1 [v0]). rewrite str_eqb_refl. destruct (node t [v0]) as [i|] eqn:E; cbn [keep].
    - rewrite (Hty i eq_refl). cbn [negb].
      rewrite Ht1. try rewrite E. reflexivity.
    - cbn [fresh valid negb]. rewrite node_set. rewrite Ht1. try rewrite E.
      destruct (str_eqb [v0] x); reflexivity. }
  rewrite node_descend. cbn [app].
  destruct (str_eqb (v0 :: rest) q) eqn:Efull; [reflexivity|].
  rewrite Ht2.
  destruct (str_eqb [v0] q) eqn:E0.
  - (* q = [v0], a proper prefix *)
    apply str_eqb_eq in E0. subst q. cbn [negb andb]. rewrite andb_false_r.
    replace (is_prefix [v0] (v0 :: rest)) with true by (simpl; rewrite Z.eqb_refl; reflexivity).
    cbn [str_eqb negb andb]. unfold implicit. cbn. destruct (node t [v0]); reflexivity.
  - cbn [negb]. rewrite andb_true_r.
    destruct q as [|x q'].
    + (* the root path *) cbn [is_prefix str_eqb andb negb]. reflexivity.
    + cbn [str_eqb negb]. rewrite andb_true_r.
      destruct (is_prefix (x :: q') (v0 :: rest)) eqn:Ep.
      * (* a proper prefix of length >= 2 *)
        assert (Hx: x = v0) by (simpl in Ep; apply andb_prop in Ep; destruct Ep as [Ep _]; apply Z.eqb_eq in Ep; auto). subst x.
        replace (is_prefix [v0] (v0 :: q')) with true by (simpl; rewrite Z.eqb_refl; reflexivity). cbn [andb].
        unfold keep, implicit.
        destruct q' as [|y q'']; [simpl in E0; rewrite Z.eqb_refl in E0; discriminate|].
        cbn [length Nat.eqb]. destruct (node t (v0 :: y :: q'')); reflexivity.
      * rewrite andb_false_r. reflexivity.
Qed.

(* ---------- the trie built from a registration list, described denotationally ---------- *)
Definition reg := (str * ttype)%type.
Definition registered (regs : list reg) (q : str) : bool := existsb (fun r => str_eqb (fst r) q) regs.
Definition has_ext (regs : list reg) (q : str) : bool := existsb (fun r => is_prefix q (fst r)) regs.
Fixpoint last_type (regs : list reg) (q : str) : ttype :=
  match regs with [] => Unknown | r :: rest => if registered rest q then last_type rest q else if str_eqb (fst r) q then snd r else Unknown end.

Definition node_spec (regs : list reg) (q : str) : option info :=
  match q with
  | [] => None
  | _ => if has_ext regs q then
           Some (if registered regs q then {| valid := true; tt := last_type regs q |} else implicit q)
         else None
  end.

(* a registration is a non-empty symbol with any token type (the empty symbol makes Go panic) *)
Definition valid_reg (r : reg) : Prop := fst r <> [].

Lemma registered_app regs r q : registered (regs ++ [r]) q = registered regs q || str_eqb (fst r) q.
Proof. unfold registered. rewrite existsb_app. simpl. rewrite orb_false_r. reflexivity. Qed.
Lemma has_ext_app regs r q : has_ext (regs ++ [r]) q = has_ext regs q || is_prefix q (fst r).
Proof. unfold has_ext. rewrite existsb_app. simpl. rewrite orb_false_r. reflexivity. Qed.
Lemma last_type_app regs r q : last_type (regs ++ [r]) q = if str_eqb (fst r) q then snd r else last_type regs q.
Proof.
  induction regs as [|x regs IH]; cbn [app last_type].
  - cbn [registered existsb]. destruct (str_eqb (fst r) q); reflexivity.
  - rewrite registered_app, IH.
    destruct (str_eqb (fst r) q) eqn:E; [rewrite orb_true_r; reflexivity|]. rewrite orb_false_r. reflexivity.
Qed.
Lemma registered_has_ext regs q : registered regs q = true -> has_ext regs q = true.
Proof.
  unfold registered, has_ext. rewrite !existsb_exists. intros [r [Hin H]]. exists r. split; auto.
  apply str_eqb_eq in H. rewrite H. apply is_prefix_spec. exists []. rewrite app_nil_r. reflexivity.
Qed.
Lemma last_type_known regs q : Forall (fun r : reg => snd r <> Unknown) regs -> registered regs q = true -> last_type regs q <> Unknown.
Proof.
  induction regs as [|r regs IH]; intros Hv H; [discriminate|]. inversion Hv; subst. cbn [last_type].
  cbn [registered existsb] in H. fold (registered regs q) in H.
  destruct (registered regs q) eqn:E; [auto|]. rewrite orb_false_r in H. rewrite H. assumption.
Qed.

Theorem build_spec regs : Forall valid_reg regs -> forall q, node (build regs) q = node_spec regs q.
Proof.
  induction regs as [|r regs IH] using rev_ind; intros Hv q.
  - destruct q; reflexivity.
  - apply Forall_app in Hv. destruct Hv as [Hv Hr]. inversion Hr as [|? ? Hne _]; subst. specialize (IH Hv).
    unfold build. rewrite fold_left_app. cbn [fold_left]. fold (build regs).
    destruct r as [sym ty]. unfold valid_reg in Hne. cbn [fst snd] in *. destruct sym as [|v0 rest]; [congruence|].
    rewrite node_add.
    2:{ intros i Hi. rewrite IH in Hi. cbn [node_spec] in Hi. destruct (has_ext regs [v0]); [|discriminate]. inversion Hi; subst.
        destruct (registered regs [v0]) eqn:E; reflexivity. }
    rewrite IH. unfold node_spec. rewrite registered_app, has_ext_app, last_type_app. cbn [fst snd].
    destruct (str_eqb (v0 :: rest) q) eqn:Efull.
    + apply str_eqb_eq in Efull. subst q. rewrite orb_true_r.
      replace (is_prefix (v0 :: rest) (v0 :: rest)) with true by (symmetry; apply is_prefix_spec; exists []; rewrite app_nil_r; reflexivity).
      rewrite orb_true_r. reflexivity.
    + rewrite orb_false_r. destruct q as [|x q']; [cbn; reflexivity|].
      cbn [str_eqb negb]. rewrite andb_true_r.
      destruct (is_prefix (x :: q') (v0 :: rest)) eqn:Ep.
      * rewrite orb_true_r. destruct (has_ext regs (x :: q')) eqn:Eh; [reflexivity|].
        destruct (registered regs (x :: q')) eqn:Er; [apply registered_has_ext in Er; congruence|]. reflexivity.
      * rewrite orb_false_r. reflexivity.
Qed.

Corollary build_first_valid regs : Forall valid_reg regs -> first_valid (build regs).
Proof.
  intros Hv c i H. rewrite build_spec in H by auto. cbn [node_spec] in H. destruct (has_ext regs [c]); [|discriminate].
  inversion H. destruct (registered regs [c]); reflexivity.
Qed.

Print Assumptions build_spec.
