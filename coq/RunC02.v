(* Executable glue for C02 (and the parsing half of C01/C18): tokenizer tokens -> lexical completion -> parser.
   input  = L [text; tokens; env; tree]      token = L [I type; value; upper; oracle]  (oracle: number value of
            Integer/Float tokens as computed by the host converter; ignored otherwise); env, tree: unused here
   output = L [I 0; rpn; names] | L [I code]  code: 1 UNKNOWN_SYMBOL 2 UNEXPECTED_END 3 ERROR_AT 4 ERROR_NEAR
            5 MISSED_CLOSE_PARENTHESIS 6 MISSED_CLOSE_SQUARE_BRACKET 7 INTERNAL (9 = out of fuel, never)
   rpn entry = L [I expression-token-type; I variant-type; payload] *)
From Coq Require Import List ZArith Bool.
Import ListNotations.
Require Import Sx Tables ExprParser ExprLex.
Open Scope Z_scope.

Definition dec_tok (s : sx) : Z * list Z * list Z := (gz (nth_sx 0 s), gstr (nth_sx 1 s), gstr (nth_sx 2 s)).

Definition perr_code (e : perr) : Z :=
  match e with EUnexpectedEnd => 2 | EErrorAt => 3 | EErrorNear => 4 | EMissParen => 5 | EMissBracket => 6 | EInternal => 7 end.

Definition binop_code (o : binop) : Z :=
  match o with
  | OAnd => et_And | OOr => et_Or | OXor => et_Xor | OEq => et_Equal | ONe => et_NotEqual | OGt => et_More | OLt => et_Less
  | OGe => et_EqualMore | OLe => et_EqualLess | OAdd => et_Plus | OSub => et_Minus | OLike => et_Like | ONotLike => et_NotLike
  | ONotIn => et_NotIn | OMul => et_Star | ODiv => et_Slash | OMod => et_Procent | OPow => et_Power | OIn => et_In
  | OShl => et_ShiftLeft | OShr => et_ShiftRight | OElem => et_Element end.
Definition unop_code (o : unop) : Z :=
  match o with UNot => et_Not | UNeg => et_Unary | UIsNull => et_IsNull | UIsNotNull => et_IsNotNull end.

(* the constant carried by token i *)
Definition const_payload (toks : list sx) (i : Z) : sx * sx :=
  let t := nth (Z.to_nat i) toks (L []) in
  let ty := gz (nth_sx 0 t) in
  if ty =? tt_Keyword then (I vt_Boolean, I (if zs_eqb (gstr (nth_sx 2 t)) kw_TRUE then 1 else 0))
  else if ty =? tt_Integer then (I vt_Integer, nth_sx 3 t)
  else if ty =? tt_Float then (I vt_Float, nth_sx 3 t)
  else (I vt_String, nth_sx 1 t).
Definition name_of (toks : list sx) (i : Z) : sx := nth_sx 1 (nth (Z.to_nat i) toks (L [])).

Definition enc_instr (toks : list sx) (r : rinstr) : sx :=
  match r with
  | RConst i => let '(t, p) := const_payload toks i in L [I et_Constant; t; p]
  | RVar i => L [I et_Variable; I vt_String; name_of toks i]
  | RArgc k => L [I et_Constant; I vt_Integer; enat k]
  | RFunc i => L [I et_Function; I vt_String; name_of toks i]
  | RBin o => L [I (binop_code o); I vt_Null; L []]
  | RUn o => L [I (unop_code o); I vt_Null; L []]
  end.

(* ExpressionParser.VariableNames: names of the variable tokens in order of first occurrence (exact comparison) *)
Fixpoint mem_str (s : list Z) (l : list (list Z)) : bool := match l with [] => false | x :: r => zs_eqb x s || mem_str s r end.
Fixpoint var_names (toks : list sx) (prog : list rinstr) (seen : list (list Z)) : list (list Z) :=
  match prog with
  | [] => rev seen
  | RVar i :: r => let n := gstr (name_of toks i) in if mem_str n seen then var_names toks r seen else var_names toks r (n :: seen)
  | _ :: r => var_names toks r seen
  end.

(* performParsing *)
Definition parse_tokens (toks : list sx) : res (list rinstr) + unit :=
  match toks with
  | [] => inl (Ok [])
  | _ => match lex_all 0 (map dec_tok toks) with
         | None => inr tt
         | Some [] => inl (Err EUnexpectedEnd)
         | Some ts => inl (parse_top ts)
         end
  end.

Definition model_C02 (input : sx) : sx :=
  let toks := gl (nth_sx 1 input) in
  match parse_tokens toks with
  | inr _ => L [I 1]
  | inl (Err e) => L [I (perr_code e)]
  | inl Fuel => L [I 9]
  | inl (Ok prog) => L [I 0; L (map (enc_instr toks) prog); L (map estr (var_names toks prog []))]
  end.
