(* CSV: regrouping of the token stream into rows and fields (the reading side of the round trip of C09). *)
From Coq Require Import List ZArith Bool.
Import ListNotations.
Require Import Base Cursor Tokenizer TokModel.
Open Scope Z_scope.

(* fields are the values between separator symbols, rows the runs between end-of-line tokens *)
Fixpoint regroup (ts : list token) (field : Base.str) (row : list Base.str) : list (list Base.str) :=
  match ts with
  | [] => [rev (field :: row)]
  | t :: r =>
      match ty t with
      | Word | Quoted => regroup r (value t) row
      | Symbol => regroup r [] (field :: row)
      | Eol => rev (field :: row) :: regroup r [] []
      | _ => regroup r field row
      end
  end.

Definition decode_only : options :=
  {| skipUnknown := false; skipWhitespaces := false; skipComments := false; skipEof := false;
     mergeWhitespaces := false; unifyNumbers := false; decodeStrings := true |}.

Definition csv_read (seps quotes : list Z) (text : Base.str) : option (list (list Base.str)) :=
  match tokenize_with (TCsv seps quotes) decode_only text with
  | Ok ts => Some (regroup ts [] [])
  | _ => None
  end.
