(* Model of the variable map of mustache/MustacheTemplate.go: GetVariable and CreateVariables.
   A Go map[string]string is a list of (key, value) entries with pairwise different keys whose ITERATION ORDER IS NOT
   SPECIFIED: every statement about a lookup is made for all permutations of the entry list.
     GetVariable(vars, name):  nil for a nil map or the empty name; otherwise the first entry met, in iteration order,
                               whose key equals the name after strings.ToLower on both sides.
     CreateVariables(vars):    for every reported name, in order: unless GetVariable finds it, vars[name] = the empty string.
   low = strings.ToLower (arbitrary function). *)
From Coq Require Import List ZArith Bool Lia Permutation.
Import ListNotations.
Require Import Collections.

Section MVars.
  Variable low : str -> str.
  Definition mentry := (str * str)%type.
  Definition mmap := list mentry.
  Definition msame (a b : str) : bool := str_eqb (low a) (low b).
  Definition mmatch (n : str) (e : mentry) : bool := match n with [] => false | _ => msame (fst e) n end.
  (* GetVariable in the iteration order `m` *)
  Definition mget (m : mmap) (n : str) : option mentry := List.find (mmatch n) m.
  Definition mfound (m : mmap) (n : str) : bool := existsb (mmatch n) m.
  (* vars[name] = "" : replaces the value of an equal key, otherwise a new entry *)
  Fixpoint mset (m : mmap) (k v : str) : mmap :=
    match m with [] => [(k, v)] | (k', v') :: r => if str_eqb k' k then (k', v) :: r else (k', v') :: mset r k v end.
  Definition mcreate_step (m : mmap) (n : str) : mmap := if mfound m n then m else mset m n [].
  Definition mcreate (m : mmap) (names : list str) : mmap := fold_left mcreate_step names m.
  (* no two keys that are equal ignoring case *)
  Definition case_distinct (m : mmap) : Prop := ForallOrdPairs (fun a b => msame (fst a) (fst b) = false) m.
End MVars.
