(* C13 for the two built-in tokenizers: the sequence theorem of LexSeq.v instantiated with the configurations built
   from the extracted tables, the word / whitespace character sets of those configurations for EVERY character,
   and a checker for the "longest symbol" side condition. *)
From Coq Require Import List ZArith Bool Lia.
Import ListNotations.
Require Import Base Cursor Trie TrieProofs TrieSpec TrieLongest States Tokenizer Instances CharMap CharMapProofs Tables TokModel TokModelProofs LexFacts LexStep LexGrammar LexSeq.
Open Scope Z_scope.

Lemma types_not_number regs : forallb (fun r : Base.str * ttype => negb (ttype_eqb (snd r) Integer) && negb (ttype_eqb (snd r) Float)) regs = true ->
  Forall (fun r => snd r <> Integer /\ snd r <> Float) regs.
Proof.
  intros H. rewrite forallb_forall in H. apply Forall_forall. intros r Hr. specialize (H r Hr). apply andb_prop in H. destruct H as [H1 H2].
  split; intros E; rewrite E in *; discriminate.
Qed.

Theorem generic_lexemes_roundtrip ls : wf_str (concat (map snd ls)) -> lexemes generic_cfg (regs_of generic_symbols) ls ->
  exists ts, tokenize_with TGeneric no_options (concat (map snd ls)) = Tokenizer.Ok ts /\
             map (fun t => (ty t, value t)) ts = ls ++ [(Eof, [])].
Proof.
  intros Hwf Hls. destruct generic_cfg_ok as [Hc Ht].
  exact (lexemes_tokenize lcf plcf decode_generic generic_cfg (regs_of generic_symbols) Hlc_model Hc Ht eq_refl
           (proj1 (valid_regb_ok _ generic_regs_ok)) (types_not_number (regs_of generic_symbols) eq_refl) ls Hwf Hls).
Qed.

Theorem expr_lexemes_roundtrip ls : wf_str (concat (map snd ls)) -> lexemes expr_cfg (regs_of expr_symbols) ls ->
  exists ts, tokenize_with TExpr no_options (concat (map snd ls)) = Tokenizer.Ok ts /\
             map (fun t => (ty t, value t)) ts = ls ++ [(Eof, [])].
Proof.
  intros Hwf Hls. destruct expr_cfg_ok as [Hc Ht].
  exact (lexemes_tokenize lcf plcf decode_doubled expr_cfg (regs_of expr_symbols) Hlc_model Hc Ht eq_refl
           (proj1 (valid_regb_ok _ expr_regs_ok)) (types_not_number (regs_of expr_symbols) eq_refl) ls Hwf Hls).
Qed.

(* ---- the start characters are the character classes of LexFacts.v ---- *)
Lemma expr_starts k c : starts expr_cfg k c <-> expr_class c = Some k.
Proof. unfold starts. rewrite expr_dispatch. reflexivity. Qed.
Lemma generic_starts k c : starts generic_cfg k c <-> generic_class c = Some k.
Proof. unfold starts. rewrite generic_dispatch. reflexivity. Qed.

(* ---- word and whitespace characters of both tokenizers, for every character ---- *)
Definition generic_wordchar_spec (c : Z) : bool :=
  in_range 97 122 c || in_range 65 90 c || in_range 48 57 c || (c =? 45) || (c =? 95) || in_range 192 255 c || in_range 256 65534 c.
Definition expr_wordchar_spec (c : Z) : bool :=
  in_range 97 122 c || in_range 65 90 c || in_range 48 57 c || (c =? 95) || in_range 192 255 c || in_range 256 65534 c.
Definition wschar_spec (c : Z) : bool := in_range 0 32 c.

Lemma bool_latin1 (f g : Z -> bool) :
  forallb (fun k => Bool.eqb (f (Z.of_nat k)) (g (Z.of_nat k))) (seq 0 256) = true -> forall c, 0 <= c < 256 -> f c = g c.
Proof.
  intros H c Hc. rewrite forallb_forall in H. specialize (H (Z.to_nat c)).
  assert (Hin: In (Z.to_nat c) (seq 0 256)) by (apply in_seq; lia). specialize (H Hin).
  rewrite Z2Nat.id in H by lia. apply Bool.eqb_prop in H. exact H.
Qed.

Ltac class_by_ranges m spec :=
  let c := fresh "c" in intros c;
  destruct (Z.ltb_spec c 0);
  [ unfold class_of, map_lookup, m; rewrite lookup_outside by lia; unfold spec, in_range;
    repeat (match goal with |- context [?a <=? ?b] => destruct (Z.leb_spec a b); try lia end);
    repeat (match goal with |- context [?a =? ?b] => destruct (Z.eqb_spec a b); try lia end); reflexivity
  | destruct (Z.ltb_spec c 256);
    [ apply (bool_latin1 (class_of m) spec); [vm_compute; reflexivity|lia]
    | unfold class_of, map_lookup, m, lookup;
      destruct (Z.ltb_spec c 0); [lia|]; destruct (Z.ltb_spec c 256); [lia|]; cbn [others find];
      unfold spec, in_range;
      repeat (match goal with |- context [?a <=? ?b] => destruct (Z.leb_spec a b); try lia end);
      repeat (match goal with |- context [?a =? ?b] => destruct (Z.eqb_spec a b); try lia end); reflexivity ] ].

Theorem generic_wordchars_are : forall c, wordchar generic_cfg c = generic_wordchar_spec c.
Proof. change (forall c, class_of generic_wordmap c = generic_wordchar_spec c). class_by_ranges generic_wordmap generic_wordchar_spec. Qed.
Theorem expr_wordchars_are : forall c, wordchar expr_cfg c = expr_wordchar_spec c.
Proof. change (forall c, class_of expr_wordmap c = expr_wordchar_spec c). class_by_ranges expr_wordmap expr_wordchar_spec. Qed.
Theorem wschars_are : forall c, wschar generic_cfg c = wschar_spec c /\ wschar expr_cfg c = wschar_spec c.
Proof.
  assert (G: forall c, class_of generic_wsmap c = wschar_spec c) by (class_by_ranges generic_wsmap wschar_spec).
  intros c. split; apply G.
Qed.

(* ---- a checker for "the longest registered symbol" ---- *)
Definition longestb (regs : list reg) (lx rest : Base.str) : bool :=
  (registered regs lx || Nat.eqb (length lx) 1) &&
  forallb (fun r : reg => negb (is_prefix (fst r) (lx ++ rest)) || Nat.leb (length (fst r)) (length lx)) regs.
Lemma longestb_ok regs lx rest : longestb regs lx rest = true -> longest regs lx rest.
Proof.
  unfold longestb, longest. intros H. apply andb_prop in H. destruct H as [H1 H2]. split.
  - apply orb_prop in H1. destruct H1 as [H1|H1]; [left; exact H1|right; apply Nat.eqb_eq; exact H1].
  - intros q Hq Hr Hp. unfold registered in Hr. apply existsb_exists in Hr. destruct Hr as (r & Hin & Heq). apply str_eqb_eq in Heq. subst q.
    rewrite forallb_forall in H2. specialize (H2 r Hin). rewrite Hp in H2. cbn [negb orb] in H2. apply Nat.leb_le. exact H2.
Qed.

(* ---- non-vacuity: a sequence with every class of the expression grammar meets the premises ---- *)
Definition sample : list (ttype * Base.str) :=
  [(Word, [120; 49]); (Symbol, [60; 61]); (Float, [49; 46; 53; 69; 43; 51]); (Whitespace, [32]); (Keyword, [110; 79; 116]);
   (Quoted, [39; 97; 39; 39; 98; 39]); (Comment, [47; 42; 99; 42; 47]); (Symbol, [45]); (Integer, [55]); (Word, [233]);
   (Symbol, [47]); (Word, [34; 97; 34])].

Ltac digits := repeat (constructor; [reflexivity|]); try constructor.

Example sample_is_lexemes : lexemes expr_cfg (regs_of expr_symbols) sample.
Proof.
  unfold sample. cbn [lexemes map snd concat app].
  split; [|split; [|split; [|split; [|split; [|split; [|split; [|split; [|split; [|split; [|split; [|split; [|exact I]]]]]]]]]]]].
  - apply (L_expr_word expr_cfg _ 120 [49]); [reflexivity|digits|reflexivity].
  - apply (L_symbol expr_cfg (regs_of expr_symbols) 60 [61]); [left; reflexivity|apply longestb_ok; reflexivity].
  - apply (L_expr_scientific expr_cfg _ Float [49; 46; 53] [69; 43; 51]).
    + apply (M_float [49] [53]); [digits|digits|discriminate].
    + reflexivity.
    + apply (X_exp 69 [43] [51]); [reflexivity|auto|digits|discriminate].
    + reflexivity.
  - apply (L_space expr_cfg _ 32 []); [reflexivity|digits|reflexivity].
  - apply (L_expr_word expr_cfg _ 110 [79; 116]); [reflexivity|digits|reflexivity].
  - apply (L_expr_quoted expr_cfg _ 39 [97; 39; 98]); [reflexivity|cbn; discriminate].
  - apply (L_block_comment expr_cfg _ [99]); [reflexivity|].
    intros (u & v & H). destruct u as [|u0 [|u1 [|u2 u]]]; cbn in H; try discriminate; destruct u; discriminate.
  - apply (L_symbol expr_cfg (regs_of expr_symbols) 45 []); [right; left; split; reflexivity|apply longestb_ok; reflexivity].
  - apply (L_expr_number expr_cfg _ Integer [55]); [apply M_int; [digits|discriminate]|reflexivity|split; [reflexivity|intros _; cbn; discriminate]|reflexivity].
  - apply (L_expr_word expr_cfg _ 233 []); [reflexivity|digits|reflexivity].
  - apply (L_symbol expr_cfg (regs_of expr_symbols) 47 []); [right; right; left; split; [reflexivity|cbn; discriminate]|apply longestb_ok; reflexivity].
  - apply (L_expr_quoted expr_cfg _ 34 [97]); [reflexivity|cbn; unfold eof; discriminate].
Qed.

Example sample_roundtrip :
  exists ts, tokenize_with TExpr no_options (concat (map snd sample)) = Tokenizer.Ok ts /\ map (fun t => (ty t, value t)) ts = sample ++ [(Eof, [])].
Proof. apply expr_lexemes_roundtrip; [|exact sample_is_lexemes]. unfold wf_str. repeat (constructor; [lia|]). constructor. Qed.

Print Assumptions generic_lexemes_roundtrip.
Print Assumptions expr_lexemes_roundtrip.
