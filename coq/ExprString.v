(* C02 / C01 at string level: ParseString in the model = expression tokenizer (with the parser's options) + lexical
   completion + parser.  For every sequence of source items (operators and brackets in any spelling of the
   language, keywords in any letter case, identifiers, integers, quoted strings) printed with single blanks, ParseString
   sees exactly the token sequence the token-level theorems of C02 speak about - so those theorems hold of the text. *)
From Coq Require Import List ZArith Bool Lia.
Import ListNotations.
Require Import Base Cursor Trie TrieSpec States Tokenizer TokenizerProofs Instances Tables TokModel TokModelProofs.
Require Import LexFacts LexStep LexGrammar LexSeq LexRoundtrip CsvRoundtrip ExprParser ExprLex ExprLexOk.
Require Quote QuoteProofs.
Open Scope Z_scope.

(* ExpressionParser.tokenizeExpression *)
Definition parser_opts : options :=
  {| skipUnknown := false; skipWhitespaces := true; skipComments := true; skipEof := true;
     mergeWhitespaces := false; unifyNumbers := false; decodeStrings := true |}.

Definition tok_triple (t : token) : Z * list Z * list Z := (ttype_code (ty t), value t, upper (value t)).

(* ParseString on a trimmed, non-empty text: None = the lexical completion reports an error *)
Definition parse_string (s : Base.str) : option (ExprParser.res (list rinstr)) :=
  match tokenize_with TExpr parser_opts s with
  | Tokenizer.Ok ts =>
      match lex_all 0 (map tok_triple ts) with
      | None => None
      | Some [] => Some (ExprParser.Err EUnexpectedEnd)
      | Some l => Some (parse_top l)
      end
  | _ => None
  end.

(* ---------- source items ---------- *)
Inductive item :=
| ISym (sp : Base.str) (t : tok)        (* bracket, comma or operator symbol *)
| IKw (sp : Base.str) (t : tok)         (* keyword operator, any letter case *)
| IVar (name : Base.str)
| IInt (ds : Base.str)
| IStr (body : Base.str).               (* written in single quotes, quotes doubled *)

Definition spec_symbols : list (Base.str * tok) :=
  [ ([40], TLP); ([41], TRP); ([91], TLB); ([93], TRB); ([43], TPlus); ([45], TMinus); ([42], TStar); ([47], TSlash);
    ([37], TPercent); ([94], TPower); ([61], TEq); ([60; 62], TNe); ([33; 61], TNe); ([62], TGt); ([60], TLt);
    ([62; 61], TGe); ([60; 61], TLe); ([60; 60], TShl); ([62; 62], TShr); ([44], TComma) ].
Definition spec_keyword_ops : list (Base.str * tok) :=
  [ ([65; 78; 68], TAnd); ([79; 82], TOr); ([88; 79; 82], TXor); ([78; 79; 84], TNot); ([73; 83], TIs); ([73; 78], TIn);
    ([78; 85; 76; 76], TNull); ([76; 73; 75; 69], TLike) ].

Definition identifier (name : Base.str) : Prop :=
  exists x r, name = x :: r /\ expr_class x = Some KExprWord /\ all expr_wordchar_spec (x :: r).

Definition item_ok (it : item) : Prop :=
  match it with
  | ISym sp t => In (sp, t) spec_symbols
  | IKw sp t => In (upper sp, t) spec_keyword_ops /\ identifier sp
  | IVar name => identifier name /\ keyword_in keywords name = false
  | IInt ds => all is_digit ds /\ ds <> []
  | IStr body => True
  end.

Definition item_lexeme (it : item) : ttype * Base.str :=
  match it with
  | ISym sp _ => (Symbol, sp) | IKw sp _ => (Keyword, sp) | IVar n => (Word, n) | IInt ds => (Integer, ds)
  | IStr body => (Quoted, Quote.encode 39 body)
  end.
(* the token after decoding *)
Definition item_token (it : item) : ttype * Base.str :=
  match it with IStr body => (Quoted, body) | _ => item_lexeme it end.
(* the parser token; i = position among the tokenizer's tokens *)
Definition item_tok (i : Z) (it : item) : tok :=
  match it with ISym _ t | IKw _ t => t | IVar _ => TVar i | IInt _ | IStr _ => TConst i end.

Definition blank : ttype * Base.str := (Whitespace, [32]).
Fixpoint lexs (items : list item) : list (ttype * Base.str) :=
  match items with [] => [] | it :: r => match r with [] => [item_lexeme it] | _ => item_lexeme it :: blank :: lexs r end end.
Fixpoint dtoks (items : list item) : list (ttype * Base.str) :=
  match items with [] => [] | it :: r => match r with [] => [item_token it] | _ => item_token it :: blank :: dtoks r end end.
Fixpoint toks_from (i : Z) (items : list item) : list tok :=
  match items with [] => [] | it :: r => item_tok i it :: toks_from (i + 2) r end.
Definition print (items : list item) : Base.str := concat (map snd (lexs items)).

Notation ecfg := expr_cfg.
Notation eregs := (regs_of expr_symbols).

(* ---------- each item is a lexeme in front of a blank or the end ---------- *)
Definition follows (rest : Base.str) : Prop := rest = [] \/ exists r', rest = 32 :: r'.

Lemma follows_hdz rest : follows rest -> hdz rest = eof \/ hdz rest = 32.
Proof. intros [-> | [r' ->]]; [left|right]; reflexivity. Qed.

Lemma wordchar_stops rest : follows rest -> wordchar ecfg (hdz rest) = false.
Proof. intros H. rewrite expr_wordchars_are. destruct (follows_hdz rest H) as [-> | ->]; reflexivity. Qed.

Lemma class_word_first x : expr_class x = Some KExprWord -> 32 < x.
Proof.
  unfold expr_class, in_range. intros H.
  destruct (Z.leb_spec 97 x); [lia|]. destruct (Z.leb_spec 65 x); [lia|]. cbn [andb orb] in H.
  destruct (Z.eqb_spec x 95); [lia|]. destruct (Z.leb_spec 192 x); [lia|]. cbn [andb orb] in H.
  repeat match type of H with (if ?b then _ else _) = _ => destruct b; try discriminate end.
Qed.

Lemma identifier_lexeme name rest : identifier name -> follows rest ->
  lexeme ecfg eregs (if keyword_in keywords name then Keyword else Word) name rest.
Proof.
  intros (x & r & -> & Hx & Hall) Hf.
  apply (L_expr_word ecfg eregs x r rest).
  - apply expr_starts. exact Hx.
  - eapply Forall_impl; [|exact Hall]. intros c Hc. cbv beta in *. rewrite expr_wordchars_are. exact Hc.
  - apply wordchar_stops. exact Hf.
Qed.

Lemma digit_class c : is_digit c = true -> expr_class c = Some KExprNumber.
Proof.
  unfold is_digit. intros H. apply andb_prop in H. destruct H as [H1 H2]. apply Z.leb_le in H1, H2.
  unfold expr_class, in_range.
  destruct (Z.leb_spec 97 c); [lia|]. destruct (Z.leb_spec 65 c); [destruct (Z.leb_spec c 90); [lia|]|]; cbn [andb orb];
    (destruct (Z.eqb_spec c 95); [lia|]); (destruct (Z.leb_spec 192 c); [lia|]); cbn [andb orb];
    (destruct (Z.leb_spec 48 c); [|lia]); (destruct (Z.leb_spec c 57); [|lia]); reflexivity.
Qed.

Lemma int_lexeme ds rest : all is_digit ds -> ds <> [] -> follows rest -> lexeme ecfg eregs Integer ds rest.
Proof.
  intros Hd Hne Hf. apply (L_expr_number ecfg eregs Integer ds rest).
  - apply M_int; assumption.
  - apply expr_starts. destruct ds as [|d ds]; [congruence|]. apply digit_class. exact (Forall_inv Hd).
  - unfold after_mantissa. destruct (follows_hdz rest Hf) as [E|E]; rewrite E; split; try reflexivity; intros _; unfold eof; discriminate.
  - unfold exp_start. destruct (follows_hdz rest Hf) as [E|E]; rewrite E; reflexivity.
Qed.

Lemma str_lexeme body rest : follows rest -> lexeme ecfg eregs Quoted (Quote.encode 39 body) rest.
Proof.
  intros Hf. change Quoted with (if 39 =? 34 then Word else Quoted). apply L_expr_quoted.
  - apply expr_starts. reflexivity.
  - destruct (follows_hdz rest Hf) as [E|E]; rewrite E; unfold eof; discriminate.
Qed.

(* no registered symbol contains a blank: nothing longer can match in front of a blank or the end *)
Lemma longest_before_blank lx rest : (registered eregs lx = true \/ length lx = 1%nat) -> (length lx <= 2)%nat -> lx <> [] -> follows rest ->
  longest eregs lx rest.
Proof.
  intros Hr Hl Hne Hf. split; [exact Hr|]. intros q Hq Hreg Hpre.
  rewrite expr_symbols_are in Hreg. apply existsb_exists in Hreg. destruct Hreg as (s & Hin & Hs). apply str_eqb_eq in Hs. subst s.
  assert (Hq2: length q = 2%nat) by (cbn in Hin; repeat (destruct Hin as [<- | Hin]; [reflexivity|]); contradiction).
  destruct lx as [|a [|b [|c lx]]]; [congruence| |cbn [length]; lia|cbn [length] in Hl; lia].
  (* one character in front of a blank or the end: a two-character symbol would have to contain the blank *)
  exfalso. apply is_prefix_spec in Hpre. destruct Hpre as [r0 Hr0]. cbn [app] in Hr0.
  destruct Hf as [-> | [r' ->]].
  - apply (f_equal (@length Z)) in Hr0. rewrite app_length, Hq2 in Hr0. cbn in Hr0. lia.
  - cbn in Hin. repeat (destruct Hin as [<- | Hin]; [cbn in Hr0; inversion Hr0|]); contradiction.
Qed.

Lemma sym_lexeme sp t rest : In (sp, t) spec_symbols -> follows rest -> lexeme ecfg eregs Symbol sp rest.
Proof.
  intros Hin Hf.
  assert (Hshape: exists x r, sp = x :: r /\ (length sp <= 2)%nat /\ (registered eregs sp = true \/ length sp = 1%nat) /\ symbol_type eregs sp = Symbol /\
            (expr_class x = Some KSymbol \/ (x = 45 /\ r = []) \/ (x = 47 /\ r = []))).
  { cbn in Hin. repeat (destruct Hin as [E | Hin]; [inversion E; subst; eexists; eexists; split; [reflexivity|]; split; [cbn; lia|]; split; [first [left; reflexivity | right; reflexivity]|]; split; [reflexivity|]; first [left; reflexivity | right; left; split; reflexivity | right; right; split; reflexivity]|]). contradiction. }
  destruct Hshape as (x & r & -> & Hl & Hreg & Hty & Hcls).
  rewrite <- Hty. apply L_symbol.
  - destruct Hcls as [Hc | [[-> ->] | [-> ->]]].
    + left. apply expr_starts. exact Hc.
    + right. left. split; [apply expr_starts; reflexivity|reflexivity].
    + right. right. left. split; [apply expr_starts; reflexivity|]. cbn [app]. destruct (follows_hdz rest Hf) as [E|E]; rewrite E; unfold eof; discriminate.
  - apply longest_before_blank; auto. discriminate.
Qed.

Lemma kwop_is_keyword u t : In (u, t) spec_keyword_ops -> In u keywords.
Proof. intros H. cbn in H. repeat (destruct H as [E | H]; [inversion E; subst; cbn; tauto|]). contradiction. Qed.

Lemma item_is_lexeme it rest : item_ok it -> follows rest -> lexeme ecfg eregs (fst (item_lexeme it)) (snd (item_lexeme it)) rest.
Proof.
  destruct it as [sp t|sp t|name|ds|body]; cbn [item_ok item_lexeme fst snd]; intros Hok Hf.
  - apply (sym_lexeme sp t); assumption.
  - destruct Hok as [Hin Hid]. pose proof (identifier_lexeme sp rest Hid Hf) as H.
    assert (Hk: keyword_in keywords sp = true).
    { unfold keyword_in. apply existsb_exists. exists (upper sp). split; [|apply str_eqb_eq; reflexivity].
      exact (kwop_is_keyword _ _ Hin). }
    rewrite Hk in H. exact H.
  - destruct Hok as [Hid Hk]. pose proof (identifier_lexeme name rest Hid Hf) as H. rewrite Hk in H. exact H.
  - destruct Hok as [Hd Hne]. apply int_lexeme; assumption.
  - apply str_lexeme. exact Hf.
Qed.

(* the first character of an item is no whitespace *)
Lemma item_first it tl : item_ok it -> wschar ecfg (hdz (snd (item_lexeme it) ++ tl)) = false.
Proof.
  intros Hok. rewrite (proj2 (wschars_are _)). unfold wschar_spec, in_range.
  assert (H: 32 < hdz (snd (item_lexeme it) ++ tl)).
  { destruct it as [sp t|sp t|name|ds|body]; cbn [item_ok item_lexeme fst snd] in *.
    - cbn in Hok. repeat (destruct Hok as [E | Hok]; [inversion E; subst; cbn; lia|]). contradiction.
    - destruct Hok as [_ (x & r & -> & Hx & _)]. cbn. apply class_word_first. exact Hx.
    - destruct Hok as [(x & r & -> & Hx & _) _]. cbn. apply class_word_first. exact Hx.
    - destruct Hok as [Hd Hne]. destruct ds as [|d ds]; [congruence|]. cbn. pose proof (Forall_inv Hd) as H. cbv beta in H.
      unfold is_digit in H. apply andb_prop in H. destruct H as [H1 _]. apply Z.leb_le in H1. lia.
    - cbn. lia. }
  destruct (Z.leb_spec 0 (hdz (snd (item_lexeme it) ++ tl))); [|reflexivity]. destruct (Z.leb_spec (hdz (snd (item_lexeme it) ++ tl)) 32); [lia|reflexivity].
Qed.

Theorem printed_items_are_lexemes : forall items, Forall item_ok items -> lexemes ecfg eregs (lexs items).
Proof.
  induction items as [|it r IH]; intros H; [exact I|]. pose proof (Forall_inv H) as Hit. pose proof (Forall_inv_tail H) as Hr.
  destruct r as [|it2 r2].
  - cbn [lexs]. pose proof (item_is_lexeme it [] Hit (or_introl eq_refl)) as Hl. destruct (item_lexeme it) as [t lx] eqn:E.
    cbn [lexemes map concat]. split; [exact Hl|exact I].
  - change (lexs (it :: it2 :: r2)) with (item_lexeme it :: blank :: lexs (it2 :: r2)).
    destruct (item_lexeme it) as [t lx] eqn:E. unfold blank at 1. cbn [lexemes]. split; [|split; [|apply IH; exact Hr]].
    + pose proof (item_is_lexeme it (concat (map snd (blank :: lexs (it2 :: r2)))) Hit (or_intror (ex_intro _ _ eq_refl))) as Hl.
      rewrite E in Hl. exact Hl.
    + unfold blank. apply (L_space ecfg eregs 32 []).
      * apply expr_starts. reflexivity.
      * repeat constructor.
      * pose proof (Forall_inv Hr) as Hit2. destruct r2 as [|it3 r3].
        -- cbn [lexs map concat snd]. apply item_first. exact Hit2.
        -- change (lexs (it2 :: it3 :: r3)) with (item_lexeme it2 :: blank :: lexs (it3 :: r3)). cbn [map concat]. apply item_first. exact Hit2.
Qed.

(* ---------- the parser's options keep every token of such a text (blanks included, no end-of-input token) ---------- *)
Fixpoint kept (last : ttype) (rs : list rawtok) : Prop :=
  match rs with
  | [] => True
  | r :: rs' => ty (rtok r) <> Comment /\ ~ (ty (rtok r) = Whitespace /\ last = Whitespace) /\ kept (ty (rtok r)) rs'
  end.

Lemma post_parser_opts decode : forall rs last e, kept last rs -> post decode parser_opts last rs e = map (dec decode) rs.
Proof.
  induction rs as [|r rs IH]; intros last e Hk; cbn [Tokenizer.post map].
  - cbn [parser_opts skipEof negb]. rewrite andb_false_r. reflexivity.
  - destruct Hk as (Hc & Hw & Hk).
    cbn [parser_opts skipUnknown decodeStrings skipComments skipWhitespaces mergeWhitespaces unifyNumbers]. rewrite !andb_false_r, !andb_true_r. cbn [andb].
    unfold dec at 1.
    assert (Hcom: forall t, ty t = ty (rtok r) -> ttype_eqb (ty t) Comment = false).
    { intros t Ht. destruct (ttype_eqb (ty t) Comment) eqn:E; [|reflexivity]. apply ttype_eqb_eq in E. congruence. }
    assert (Hws: forall t, ty t = ty (rtok r) -> ttype_eqb (ty t) Whitespace && ttype_eqb last Whitespace = false).
    { intros t Ht. destruct (ttype_eqb (ty t) Whitespace) eqn:E1; [|reflexivity]. destruct (ttype_eqb last Whitespace) eqn:E2; [|reflexivity].
      apply ttype_eqb_eq in E1, E2. exfalso. apply Hw. split; congruence. }
    destruct (from_quote r).
    + rewrite (Hcom (mk (ty (rtok r)) _ _) eq_refl), (Hws (mk (ty (rtok r)) _ _) eq_refl). cbn [ty mk]. rewrite IH by exact Hk. reflexivity.
    + rewrite (Hcom (rtok r) eq_refl), (Hws (rtok r) eq_refl). rewrite IH by exact Hk. reflexivity.
Qed.

Definition types_of (rs : list rawtok) : list ttype := map (fun r => ty (rtok r)) rs.
Lemma kept_types : forall rs last, (fix go (last : ttype) (l : list ttype) : Prop :=
    match l with [] => True | t :: l' => t <> Comment /\ ~ (t = Whitespace /\ last = Whitespace) /\ go t l' end) last (types_of rs) -> kept last rs.
Proof. induction rs as [|r rs IH]; intros last H; [exact I|]. cbn in H. destruct H as (H1 & H2 & H3). cbn [kept]. auto. Qed.

Lemma item_type_plain it : fst (item_lexeme it) <> Comment /\ fst (item_lexeme it) <> Whitespace.
Proof. destruct it; cbn; split; discriminate. Qed.

Lemma lexs_kept : forall items last, last <> Whitespace ->
  (fix go (last : ttype) (l : list ttype) : Prop :=
    match l with [] => True | t :: l' => t <> Comment /\ ~ (t = Whitespace /\ last = Whitespace) /\ go t l' end) last (map fst (lexs items)).
Proof.
  induction items as [|it r IH]; intros last Hl; [exact I|]. destruct (item_type_plain it) as [H1 H2].
  destruct r as [|it2 r2].
  - cbn [lexs map]. split; [exact H1|]. split; [intros [E _]; contradiction|exact I].
  - change (lexs (it :: it2 :: r2)) with (item_lexeme it :: blank :: lexs (it2 :: r2)). cbn [map fst blank].
    split; [exact H1|]. split; [intros [E _]; contradiction|]. split; [discriminate|]. split; [intros [_ E]; contradiction|].
    (* after a blank comes an item: never a blank *)
    destruct (item_type_plain it2) as [H3 H4].
    destruct r2 as [|it3 r3].
    + cbn [lexs map]. split; [exact H3|]. split; [intros [E _]; contradiction|exact I].
    + specialize (IH (fst (item_lexeme it)) H2). change (lexs (it2 :: it3 :: r3)) with (item_lexeme it2 :: blank :: lexs (it3 :: r3)) in *. cbn [map fst blank] in *.
      destruct IH as (_ & _ & IH). split; [exact H3|]. split; [intros [E _]; contradiction|]. exact IH.
Qed.

(* ---------- lexical completion of the decoded stream ---------- *)
Definition triple (p : ttype * Base.str) : Z * list Z * list Z := (ttype_code (fst p), snd p, upper (snd p)).

Lemma lex_one_blank i : lex_one i (ttype_code Whitespace) [32] (upper [32]) = LSkip.
Proof. reflexivity. Qed.

Lemma symbols_lex : forallb (fun e : Base.str * tok => lexr_eqb (lex_op (upper (fst e))) (LTok (snd e))) spec_symbols = true.
Proof. vm_compute. reflexivity. Qed.
Lemma keyword_ops_lex : forallb (fun e : Base.str * tok => lexr_eqb (lex_op (fst e)) (LTok (snd e)) && negb (zs_eqb (fst e) kw_TRUE || zs_eqb (fst e) kw_FALSE)) spec_keyword_ops = true.
Proof. vm_compute. reflexivity. Qed.

Lemma lex_one_item i it : item_ok it -> lex_one i (ttype_code (fst (item_token it))) (snd (item_token it)) (upper (snd (item_token it))) = LTok (item_tok i it).
Proof.
  destruct it as [sp t|sp t|name|ds|body]; cbn [item_ok item_token item_lexeme item_tok fst snd]; intros Hok.
  - pose proof symbols_lex as G. rewrite forallb_forall in G. specialize (G (sp, t) Hok). apply lexr_eqb_eq in G. cbn [fst snd] in G.
    unfold lex_one. change (ttype_code Symbol =? tt_Whitespace) with false. change (ttype_code Symbol =? tt_Keyword) with false.
    change (ttype_code Symbol =? tt_Word) with false. change ((ttype_code Symbol =? tt_Integer) || (ttype_code Symbol =? tt_Float) || (ttype_code Symbol =? tt_Quoted)) with false.
    change (ttype_code Symbol =? tt_Symbol) with true. cbv iota. exact G.
  - destruct Hok as [Hin _]. pose proof keyword_ops_lex as G. rewrite forallb_forall in G. specialize (G (upper sp, t) Hin). cbn [fst snd] in G.
    apply andb_prop in G. destruct G as [G1 G2]. apply lexr_eqb_eq in G1. apply negb_true_iff in G2.
    unfold lex_one. change (ttype_code Keyword =? tt_Whitespace) with false. change (ttype_code Keyword =? tt_Keyword) with true. cbv iota.
    rewrite G2. exact G1.
  - destruct Hok as [(x & r & -> & _) _]. reflexivity.
  - reflexivity.
  - reflexivity.
Qed.

Lemma lex_all_items : forall items i, Forall item_ok items -> lex_all i (map triple (dtoks items)) = Some (toks_from i items).
Proof.
  induction items as [|it r IH]; intros i H; [reflexivity|]. pose proof (Forall_inv H) as Hit. pose proof (Forall_inv_tail H) as Hr.
  destruct r as [|it2 r2].
  - cbn [dtoks map lex_all triple toks_from]. rewrite (lex_one_item i it Hit). reflexivity.
  - change (dtoks (it :: it2 :: r2)) with (item_token it :: blank :: dtoks (it2 :: r2)). cbn [map lex_all triple toks_from].
    rewrite (lex_one_item i it Hit). cbn [blank fst snd]. rewrite lex_one_blank. replace (i + 1 + 1) with (i + 2) by lia. rewrite (IH (i + 2) Hr). reflexivity.
Qed.

(* decoding turns the lexeme stream into the token stream *)
Definition edecl (p : ttype * Base.str) : ttype * Base.str :=
  (fst p, if is_quote_kind (Instances.table ecfg (hdz (snd p))) then decode_doubled (snd p) (hdz (snd p)) else snd p).

Lemma edecl_blank : edecl blank = blank. Proof. reflexivity. Qed.
Lemma edecl_item it : item_ok it -> edecl (item_lexeme it) = item_token it.
Proof.
  destruct it as [sp t|sp t|name|ds|body]; cbn [item_ok item_token item_lexeme]; intros Hok; unfold edecl; cbn [fst snd].
  - cbn in Hok. repeat (destruct Hok as [E | Hok]; [inversion E; subst; reflexivity|]). contradiction.
  - destruct Hok as [_ (x & r & -> & Hx & _)]. cbn [hdz nth]. rewrite expr_dispatch, Hx. reflexivity.
  - destruct Hok as [(x & r & -> & Hx & _) _]. cbn [hdz nth]. rewrite expr_dispatch, Hx. reflexivity.
  - destruct Hok as [Hd Hne]. destruct ds as [|d ds]; [congruence|]. cbn [hdz nth]. rewrite expr_dispatch, (digit_class d (Forall_inv Hd)). reflexivity.
  - change (hdz (Quote.encode 39 body)) with 39. change (is_quote_kind (Instances.table ecfg 39)) with true. cbv iota.
    unfold decode_doubled. rewrite QuoteProofs.decode_encode. reflexivity.
Qed.
Lemma edecl_lexs : forall items, Forall item_ok items -> map edecl (lexs items) = dtoks items.
Proof.
  induction items as [|it r IH]; intros H; [reflexivity|]. pose proof (Forall_inv H) as Hit. pose proof (Forall_inv_tail H) as Hr.
  destruct r as [|it2 r2].
  - cbn [lexs dtoks map]. rewrite (edecl_item it Hit). reflexivity.
  - change (lexs (it :: it2 :: r2)) with (item_lexeme it :: blank :: lexs (it2 :: r2)). change (dtoks (it :: it2 :: r2)) with (item_token it :: blank :: dtoks (it2 :: r2)).
    cbn [map]. rewrite (edecl_item it Hit), edecl_blank, (IH Hr). reflexivity.
Qed.

(* ---------- ParseString of a printed item sequence = the parser on its token sequence ---------- *)
Theorem parse_string_of_print items : items <> [] -> Forall item_ok items -> wf_str (print items) ->
  parse_string (print items) = Some (parse_top (toks_from 0 items)).
Proof.
  intros Hne Hok Hwf. pose proof (printed_items_are_lexemes items Hok) as Hls.
  destruct expr_cfg_ok as [Hc Hty].
  destruct (lexemes_tokenize_options lcf plcf decode_doubled ecfg eregs Hlc_model Hc Hty eq_refl
              (proj1 (valid_regb_ok _ expr_regs_ok)) (types_not_number eregs eq_refl) (lexs items) Hwf Hls) as (rs & e & Htok & Hm & Hq & Hnoeof).
  unfold parse_string. change (tokenize_with TExpr parser_opts (print items)) with (tokenize_cfg lcf plcf decode_doubled ecfg parser_opts (print items)).
  unfold print. rewrite Htok.
  assert (Hk: kept Unknown rs).
  { apply kept_types. unfold types_of. replace (map (fun r => ty (rtok r)) rs) with (map fst (lexs items)) by (rewrite <- Hm, map_map; reflexivity).
    apply lexs_kept. discriminate. }
  rewrite (post_parser_opts decode_doubled rs Unknown e Hk).
  assert (Hd: map tok_triple (map (dec decode_doubled) rs) = map triple (dtoks items)).
  { rewrite <- (edecl_lexs items Hok), <- Hm, !map_map. apply map_ext_in. intros r Hr. rewrite Forall_forall in Hq. destruct (Hq r Hr) as [H1 H2].
    unfold tok_triple, triple, dec, edecl. cbn [fst snd]. rewrite H2, H1. destruct (is_quote_kind _); reflexivity. }
  rewrite Hd, (lex_all_items items 0 Hok).
  destruct items as [|it r]; [congruence|]. reflexivity.
Qed.

(* the token-level theorems of C02, at string level *)
Require Import ExprSound ExprComplete ExprTotal.

Corollary sentences_are_accepted_as_text items e : items <> [] -> Forall item_ok items -> wf_str (print items) ->
  D0 (toks_from 0 items) e -> parse_string (print items) = Some (ExprParser.Ok (compile e)).
Proof. intros H1 H2 H3 HD. rewrite (parse_string_of_print items H1 H2 H3). f_equal. apply parse_top_complete. exact HD. Qed.

Corollary non_sentences_are_rejected_as_text items : items <> [] -> Forall item_ok items -> wf_str (print items) ->
  (forall e, ~ D0 (toks_from 0 items) e) -> exists c, parse_string (print items) = Some (ExprParser.Err c).
Proof.
  intros H1 H2 H3 HD. rewrite (parse_string_of_print items H1 H2 H3).
  destruct (parse_top_rejects (toks_from 0 items)) as [c Hc]; [destruct items; [congruence|discriminate]|exact HD|]. exists c. rewrite Hc. reflexivity.
Qed.

(* non-vacuity:  a + 12 * ( b NoT iN 'x''y' )  *)
Example sample_items : list item :=
  [IVar [97]; ISym [43] TPlus; IInt [49; 50]; ISym [42] TStar; ISym [40] TLP; IVar [98]; IKw [78; 111; 84] TNot; IKw [105; 78] TIn; IStr [120; 39; 121]; ISym [41] TRP].
Ltac ident := eexists; eexists; split; [reflexivity|split; [reflexivity|repeat constructor]].
Example sample_items_ok : Forall item_ok sample_items /\ wf_str (print sample_items).
Proof.
  split.
  - unfold sample_items. repeat (apply Forall_cons); try apply Forall_nil; cbn [item_ok].
    + split; [ident|reflexivity].
    + cbn; tauto.
    + split; [repeat constructor|discriminate].
    + cbn; tauto.
    + cbn; tauto.
    + split; [ident|reflexivity].
    + split; [cbn; tauto|ident].
    + split; [cbn; tauto|ident].
    + exact I.
    + cbn; tauto.
  - unfold wf_str. cbn. repeat (constructor; [lia|]). constructor.
Qed.
Example sample_items_parse :
  parse_string (print sample_items) = Some (parse_top [TVar 0; TPlus; TConst 4; TStar; TLP; TVar 10; TNot; TIn; TConst 16; TRP]).
Proof. destruct sample_items_ok as [H1 H2]. rewrite (parse_string_of_print sample_items ltac:(discriminate) H1 H2). reflexivity. Qed.

Print Assumptions parse_string_of_print.
