From Coq Require Import List ZArith Bool Lia.
Import ListNotations.
Require Import CharMap.
Open Scope Z_scope.

Section Proofs.
  Variable R : Type.
  Notation cmap := (cmap R).

  Definition wf (m : cmap) : Prop := length (table R m) = 256%nat.

  Lemma fill_length t i a b r : length (fill R t i a b r) = length t.
  Proof. revert i. induction t; intros i; simpl; auto. Qed.

  Lemma fill_nth t : forall i a b r k, (k < length t)%nat ->
    nth k (fill R t i a b r) None = if (a <=? i + Z.of_nat k) && (i + Z.of_nat k <=? b) then r else nth k t None.
  Proof.
    induction t as [|x t IH]; intros i a b r k Hk; [simpl in Hk; lia|].
    destruct k as [|k]; cbn [fill nth].
    - replace (i + Z.of_nat 0) with i by lia. reflexivity.
    - rewrite IH by (simpl in Hk; lia). replace (i + 1 + Z.of_nat k) with (i + Z.of_nat (S k)) by lia. reflexivity.
  Qed.

  (* one registration: lookup afterwards is "this registration if it covers c, else what was there" *)
  Lemma add_lookup m a b r m' c : wf m -> 0 <= a -> add_interval R m a b r = Done R m' -> 0 <= c <= 65534 ->
    wf m' /\ lookup R m' c = match covers R (Add R a b r) c with Some x => x | None => lookup R m c end.
  Proof.
    intros Hwf Ha H Hc. unfold add_interval in H. destruct (Z.ltb_spec b a); [discriminate|].
    set (b' := if 65535 <=? b then 65534 else b) in *.
    assert (Hb': b' = if 65535 <=? b then 65534 else b) by reflexivity.
    unfold covers. rewrite <- Hb'.
    destruct (Z.leb_spec 256 b') as [Hhi|Hlo].
    - set (a' := if a <? 256 then 256 else a) in *. destruct (Z.ltb_spec b' a'); [discriminate|]. inversion H; subst m'; clear H.
      split; [unfold wf; simpl; rewrite fill_length; exact Hwf|].
      unfold lookup. destruct (Z.ltb_spec c 0); [lia|]. cbn [table others].
      destruct (Z.ltb_spec c 256).
      + rewrite fill_nth by (rewrite Hwf; lia). rewrite Z2Nat.id by lia. cbn [Z.add]. destruct ((a <=? c) && (c <=? b')); reflexivity.
      + cbn [find]. subst a'. destruct (Z.ltb_spec a 256).
        * replace (a <=? c) with true by (symmetry; apply Z.leb_le; lia). replace (256 <=? c) with true by (symmetry; apply Z.leb_le; lia). cbn [andb]. destruct (c <=? b'); reflexivity.
        * destruct ((a <=? c) && (c <=? b')); reflexivity.
    - inversion H; subst m'; clear H. split; [unfold wf; simpl; rewrite fill_length; exact Hwf|].
      unfold lookup. destruct (Z.ltb_spec c 0); [lia|]. cbn [table others].
      destruct (Z.ltb_spec c 256).
      + rewrite fill_nth by (rewrite Hwf; lia). rewrite Z2Nat.id by lia. cbn [Z.add]. destruct ((a <=? c) && (c <=? b')); reflexivity.
      + replace (c <=? b') with false by (symmetry; apply Z.leb_gt; lia). rewrite andb_false_r. reflexivity.
  Qed.

  Lemma wf_empty : wf (empty R). Proof. reflexivity. Qed.

  Lemma lookup_empty c : lookup R (empty R) c = None.
  Proof.
    unfold lookup. destruct (c <? 0); auto. destruct (Z.ltb_spec c 256); auto. cbn [table empty].
    apply nth_repeat.
  Qed.

  Definition valid_op (o : op R) : Prop := match o with Add _ a b _ => 0 <= a | _ => True end.

  Lemma apply_lookup m o m' c : wf m -> valid_op o -> apply R m o = Done R m' -> 0 <= c <= 65534 ->
    wf m' /\ lookup R m' c = match covers R o c with Some x => x | None => lookup R m c end.
  Proof.
    intros Hwf Hv H Hc. destruct o as [a b r|r|]; cbn [apply] in H.
    - eapply add_lookup; eauto.
    - unfold add_default in H. destruct (add_lookup m 0 65534 r m' c Hwf ltac:(lia) H Hc) as [H1 H2]. split; auto.
    - inversion H; subst. split; [apply wf_empty|]. cbn [covers]. apply lookup_empty.
  Qed.

  (* C17: after any history, lookup = the most recent covering registration *)
  Theorem charmap_refines ops : forall m m' c, wf m -> Forall valid_op ops -> run R m ops = Done R m' -> 0 <= c <= 65534 ->
    lookup R m' c = match latest R (rev ops) c with
                    | x => if existsb (fun o => match covers R o c with Some _ => true | None => false end) ops then x else lookup R m c end.
  Proof.
    induction ops as [|o ops IH] using rev_ind; intros m m' c Hwf Hv H Hc.
    - simpl in *. inversion H; subst. reflexivity.
    - (* split the run at the last operation *)
      assert (Hsplit: exists m1, run R m ops = Done R m1 /\ apply R m1 o = Done R m').
      { clear IH Hwf Hv. revert m H. induction ops as [|o' ops IHo]; intros m H; cbn [app run] in *.
        - destruct (apply R m o) eqn:E; [|discriminate]. exists m. split; [reflexivity|]. rewrite E. exact H.
        - destruct (apply R m o') eqn:E; [|discriminate]. apply IHo in H. exact H. }
      destruct Hsplit as (m1 & Hr1 & Ha).
      apply Forall_app in Hv. destruct Hv as [Hv1 Hv2]. assert (Hvo: valid_op o) by (inversion Hv2; auto).
      assert (Hwf1: wf m1).
      { clear - Hr1 Hwf Hv1. revert m Hr1 Hwf. induction ops as [|o' ops IHo]; intros m Hr1 Hwf; cbn [run] in *; [inversion Hr1; subst; auto|].
        destruct (apply R m o') eqn:E; [|discriminate]. assert (Hvo': valid_op o') by (inversion Hv1; auto).
        assert (Hv1': Forall valid_op ops) by (inversion Hv1; auto).
        eapply IHo; eauto. destruct (apply_lookup m o' m0 0 Hwf Hvo' E ltac:(lia)) as [Hw _]. exact Hw. }
      destruct (apply_lookup m1 o m' c Hwf1 Hvo Ha Hc) as [_ Hl]. rewrite Hl.
      rewrite rev_app_distr. cbn [rev app latest]. rewrite existsb_app. cbn [existsb].
      destruct (covers R o c) as [x|] eqn:Ec.
      + rewrite orb_true_r. reflexivity.
      + rewrite orb_false_r. apply IH; auto.
  Qed.

  Corollary charmap_from_empty ops m' c : Forall valid_op ops -> run R (empty R) ops = Done R m' -> 0 <= c <= 65534 ->
    lookup R m' c = spec_lookup R ops c.
  Proof.
    intros Hv H Hc. rewrite (charmap_refines ops (empty R) m' c wf_empty Hv H Hc). unfold spec_lookup.
    destruct (existsb _ ops) eqn:E; [reflexivity|]. rewrite lookup_empty.
    (* no operation covers c: latest is None *)
    assert (G: forall l, existsb (fun o => match covers R o c with Some _ => true | None => false end) l = false -> latest R l c = None).
    { induction l as [|o l IHl]; simpl; intros H0; [reflexivity|]. apply orb_false_iff in H0. destruct H0 as [H0 H1].
      destruct (covers R o c); [discriminate|]. auto. }
    symmetry. apply G.
    assert (Hrev: forall (f : op R -> bool) l, existsb f (rev l) = existsb f l).
    { intros f l. induction l as [|x l IHl]; [reflexivity|]. simpl. rewrite existsb_app, IHl. simpl. rewrite orb_false_r. apply orb_comm. }
    rewrite Hrev. exact E.
  Qed.

  Theorem lookup_outside m c : c < 0 -> lookup R m c = None.
  Proof. intros H. unfold lookup. destruct (Z.ltb_spec c 0); [reflexivity|lia]. Qed.
End Proofs.

Print Assumptions charmap_from_empty.

(* characters above U+FFFE are never mapped: every stored interval ends at or below 0xFFFE *)
Section Upper.
  Variable R : Type.
  Definition others_ok (m : cmap R) : Prop := Forall (fun e => snd (fst e) <= 65534) (others R m).
  Lemma find_above l c : Forall (fun e : Z * Z * option R => snd (fst e) <= 65534) l -> 65534 < c -> find R l c = None.
  Proof.
    induction l as [|[[a b] r] l IH]; intros H Hc; [reflexivity|]. inversion H as [|x y Hx Hy]; subst. simpl in *.
    destruct (Z.leb_spec a c); destruct (Z.leb_spec c b); simpl; try lia; apply IH; auto.
  Qed.
  Lemma add_others_ok m a b r m' : others_ok m -> add_interval R m a b r = Done R m' -> others_ok m'.
  Proof.
    unfold add_interval, others_ok. intros H. destruct (b <? a); [discriminate|].
    destruct (Z.leb_spec 65535 b).
    - simpl. destruct (a <? 256); simpl; [intros E; inversion E; subst; constructor; simpl; auto; lia|].
      destruct (65534 <? a); [discriminate|]. intros E; inversion E; subst. constructor; simpl; auto; lia.
    - destruct (Z.leb_spec 256 b).
      + destruct (a <? 256); [destruct (b <? 256); [discriminate|]|destruct (b <? a); [discriminate|]]; intros E; inversion E; subst; constructor; simpl; auto; lia.
      + intros E; inversion E; subst; simpl; auto.
  Qed.
  Theorem lookup_above ops : forall m m' c, others_ok m -> run R m ops = Done R m' -> 65534 < c -> lookup R m' c = None.
  Proof.
    induction ops as [|o ops IH]; intros m m' c Hm Hr Hc; simpl in Hr.
    - inversion Hr; subst. unfold lookup. destruct (Z.ltb_spec c 0); [reflexivity|]. destruct (Z.ltb_spec c 256); [lia|]. apply find_above; auto.
    - destruct (apply R m o) as [m1|] eqn:E; [|discriminate]. apply (IH m1 m' c); auto.
      destruct o as [a b r|r|]; simpl in E.
      + eapply add_others_ok; eauto.
      + unfold add_default in E. eapply add_others_ok; eauto.
      + inversion E; subst. constructor.
  Qed.
End Upper.
