(* The registration table extracted from DefaultFunctionCollection.go maps every function name of the property to
   the calculator that computes what the name denotes, in any letter case. Proved by computation on gen/Tables.v. *)
From Coq Require Import List ZArith Bool.
Import ListNotations.
Require Import Variant Tables TokModel LexFacts RunC08.
Open Scope Z_scope.

(* name (as registered) -> calculator code: 1 ticks 2 timespan 3 now 4 date 5 dayofweek 6 min 7 max 8 sum 9 if 10 choose 11 e 12 pi
   13 rnd 14 abs 15 acos 16 asin 17 atan 18 exp 19 log 20 log10 21 ceil 22 floor 23 round 24 trunc 25 cos 26 sin 27 tan 28 sqrt
   29 empty 30 null 31 contains 32 array *)
Definition spec_functions : list (list Z * Z) := [
  ([84;105;99;107;115], 1); ([84;105;109;101;83;112;97;110], 2); ([78;111;119], 3); ([68;97;116;101], 4); ([68;97;121;79;102;87;101;101;107], 5);
  ([77;105;110], 6); ([77;97;120], 7); ([83;117;109], 8); ([73;102], 9); ([67;104;111;111;115;101], 10); ([69], 11); ([80;105], 12);
  ([82;110;100], 13); ([82;97;110;100;111;109], 13); ([65;98;115], 14); ([65;99;111;115], 15); ([65;115;105;110], 16); ([65;116;97;110], 17);
  ([69;120;112], 18); ([76;111;103], 19); ([76;110], 19); ([76;111;103;49;48], 20); ([67;101;105;108], 21); ([67;101;105;108;105;110;103], 21);
  ([70;108;111;111;114], 22); ([82;111;117;110;100], 23); ([84;114;117;110;99], 24); ([84;114;117;110;99;97;116;101], 24);
  ([67;111;115], 25); ([83;105;110], 26); ([84;97;110], 27); ([83;113;114;116], 28); ([69;109;112;116;121], 29); ([78;117;108;108], 30);
  ([67;111;110;116;97;105;110;115], 31); ([65;114;114;97;121], 32) ].

Definition opt_eqb (a : option Z) (b : Z) : bool := match a with Some x => x =? b | None => false end.

Lemma function_table_ok : forallb (fun e => opt_eqb (find_fn (fst e)) (snd e)) spec_functions = true.
Proof. vm_compute. reflexivity. Qed.

Theorem find_fn_spec n c : In (n, c) spec_functions -> find_fn n = Some c.
Proof.
  intros H. pose proof function_table_ok as G. rewrite forallb_forall in G. specialize (G (n, c) H). cbn [fst snd] in G.
  unfold opt_eqb in G. destruct (find_fn n) as [x|]; [|discriminate]. apply Z.eqb_eq in G. subst. reflexivity.
Qed.

(* lookup ignores letter case *)
Theorem find_fn_any_case n : find_fn (upper n) = find_fn n.
Proof. unfold find_fn. rewrite upper_idempotent_on_case. reflexivity. Qed.
