(* The state space the models account for: every struct type of the library with its fields, and every package-level
   variable. gen/StateSpaceGen.v is regenerated from the Go sources on every run; the lemmas below are proved by computation,
   so a field or a package-level variable the models do not know - a cache, a memo, a counter, a shared constant: state that
   can carry history from one call to the next - is a failed obligation of every property whose model stands for that object.
   The third component says which part of the model represents the struct. *)
From Coq Require Import List ZArith String Ascii Bool.
Import ListNotations.
Require Import StateSpaceGen.
Open Scope string_scope.

Definition zs (s : string) : list Z := map (fun a => Z.of_nat (nat_of_ascii a)) (list_ascii_of_string s).

Definition accounted_structs : list (string * list string * string) := [
  ("calculator.CalculationStack", ["values"], "ExprEval.v: the operand stack (list of values) of the RPN machine");
  ("calculator.ExpressionCalculator", ["defaultVariables"; "defaultFunctions"; "variantOperations"; "parser"; "autoVariables"], "ExprEval.v / RunC01.v / RunC19.v: variables, functions, operation manager, parser (its result tokens) and the auto-variables flag are the inputs of calculate; nothing else is kept between calls");
  ("calculator/functions.DefaultFunctionCollection", ["embedded *FunctionCollection"], "Functions.v: the extracted registration table (default_functions)");
  ("calculator/functions.DelegatedFunction", ["name"; "calculator"], "Functions.v: name and calculator code");
  ("calculator/functions.FunctionCollection", ["functions"], "Collections.v: ordered list of entries");
  ("calculator/parsers.ExpressionParser", ["tokenizer"; "expression"; "originalTokens"; "initialTokens"; "currentTokenIndex"; "variableNames"; "resultTokens"], "ExprParser.v: token list, cursor, variable names, result tokens - all rebuilt by every parse (Clear)");
  ("calculator/parsers.ExpressionToken", ["typ"; "value"; "line"; "column"], "ExprParser.v: etok (type, value, line, column)");
  ("calculator/tokenizers.ExpressionNumberState", ["embedded *generic.GenericNumberState"], "stateless beyond what it embeds");
  ("calculator/tokenizers.ExpressionQuoteState", [], "Quote.v: stateless");
  ("calculator/tokenizers.ExpressionSymbolState", ["embedded *generic.GenericSymbolState"], "stateless beyond what it embeds");
  ("calculator/tokenizers.ExpressionTokenizer", ["embedded *tokenizers.AbstractTokenizer"], "stateless beyond what it embeds");
  ("calculator/tokenizers.ExpressionWordState", ["embedded *generic.GenericWordState"], "stateless beyond what it embeds");
  ("calculator/variables.Variable", ["name"; "value"], "Collections.v: entry (name, value)");
  ("calculator/variables.VariableCollection", ["variables"], "Collections.v: ordered list of entries");
  ("csv.CsvQuoteState", [], "stateless beyond what it embeds");
  ("csv.CsvSymbolState", ["embedded *generic.GenericSymbolState"], "stateless beyond what it embeds");
  ("csv.CsvTokenizer", ["embedded *tokenizers.AbstractTokenizer"; "fieldSeparators"; "quoteSymbols"; "endOfLine"], "CsvObject.v: separators, quotes, end-of-line characters + the tokenizer configuration");
  ("csv.CsvWordState", ["embedded *generic.GenericWordState"], "stateless beyond what it embeds");
  ("io.StringScanner", ["content"; "position"; "line"; "column"], "Scanner.v: content, position, line, column");
  ("mustache.MustacheTemplate", ["defaultVariables"; "parser"; "autoVariables"], "Mustache.v / MustacheVars.v: default variable map, parser, auto-variables flag");
  ("mustache/parsers.MustacheParser", ["tokenizer"; "template"; "originalTokens"; "initialTokens"; "currentTokenIndex"; "variableNames"; "resultTokens"], "Mustache.v: token list, cursor, variable names, result tokens - all rebuilt by every parse (Clear)");
  ("mustache/parsers.MustacheToken", ["typ"; "value"; "tokens"; "line"; "column"], "Mustache.v: token tree (type, value, sub-tokens, line, column)");
  ("mustache/tokenizers.MustacheSpecialState", [], "stateless beyond what it embeds");
  ("mustache/tokenizers.MustacheTokenizer", ["embedded *tokenizers.AbstractTokenizer"; "special"; "specialState"], "MustacheStep.v: the special flag (inside a tag) and the special state");
  ("tokenizers.AbstractTokenizer", ["Overrides"; "mp"; "skipUnknown"; "skipWhitespaces"; "skipComments"; "skipEof"; "mergeWhitespaces"; "unifyNumbers"; "decodeStrings"; "commentState"; "numberState"; "quoteState"; "symbolState"; "whitespaceState"; "wordState"; "Scanner"; "NextTokenValue"; "LastTokenType"], "Tokenizer.v / TokModel.v / Instance.v: character map, seven option flags, the state roles, scanner, next token, last token type");
  ("tokenizers.Token", ["typ"; "value"; "line"; "column"], "Tokenizer.v: token (type, value, line, column)");
  ("tokenizers/generic.CCommentState", ["embedded *CppCommentState"], "stateless beyond what it embeds");
  ("tokenizers/generic.CppCommentState", [], "stateless beyond what it embeds");
  ("tokenizers/generic.GenericCommentState", [], "stateless beyond what it embeds");
  ("tokenizers/generic.GenericNumberState", [], "stateless beyond what it embeds");
  ("tokenizers/generic.GenericQuoteState", [], "stateless beyond what it embeds");
  ("tokenizers/generic.GenericSymbolState", ["symbols"], "Trie.v: the trie root");
  ("tokenizers/generic.GenericTokenizer", ["embedded *tokenizers.AbstractTokenizer"], "stateless beyond what it embeds");
  ("tokenizers/generic.GenericWhitespaceState", ["mp"], "CharMap.v: character set");
  ("tokenizers/generic.GenericWordState", ["mp"], "CharMap.v: character set");
  ("tokenizers/generic.SymbolNode", ["parent"; "character"; "children"; "tokenType"; "valid"; "ancestry"], "Trie.v: parent, character, children, token type, valid flag, cached ancestry (a function of parent and character)");
  ("tokenizers/generic.SymbolRootNode", ["embedded *SymbolNode"], "stateless beyond what it embeds");
  ("tokenizers/utilities.CharReferenceInterval", ["start"; "end"; "reference"], "CharMap.v: start, end, reference");
  ("tokenizers/utilities.CharReferenceMap", ["initialInterval"; "otherIntervals"], "CharMap.v: 256-entry table + interval list, latest first");
  ("tokenizers/utilities._TCharValidator", [], "stateless beyond what it embeds");
  ("variants.AbstractVariantOperations", ["Overrides"], "Variant.v: the manager is its conversion function (Overrides); no data");
  ("variants.TypeSafeVariantOperations", ["embedded *AbstractVariantOperations"], "stateless beyond what it embeds");
  ("variants.TypeUnsafeVariantOperations", ["embedded *AbstractVariantOperations"], "stateless beyond what it embeds");
  ("variants.Variant", ["typ"; "value"], "VariantValue.v / VariantHeap.v: type tag and payload")
].

Definition accounted_package_vars : list (string * string) := [
  ("calculator/parsers.operatorTypes", "Tables.operator_table (read-only)");
  ("calculator/parsers.operators", "Tables.operator_table (read-only)");
  ("calculator/tokenizers.Keywords", "Tables.keywords (read-only)");
  ("tokenizers/utilities.CharValidator", "stateless validator object");
  ("variants.Empty", "the shared Null constant: never handed out for writing (C06/C08/C20 probe it on every case)")
].

Definition enc_structs := map (fun e => (zs (fst (fst e)), map zs (snd (fst e)))) accounted_structs.
Definition enc_vars := map (fun e => zs (fst e)) accounted_package_vars.

Fixpoint lz_eqb (a b : list Z) : bool :=
  match a, b with [], [] => true | x :: a', y :: b' => Z.eqb x y && lz_eqb a' b' | _, _ => false end.
Definition fields_of (name : string) : option (list (list Z)) :=
  option_map snd (find (fun e => lz_eqb (fst e) (zs name)) go_structs).
Definition fields (l : list string) : option (list (list Z)) := Some (map zs l).

