(* C18: the collections behave as ordered lists with case-insensitive, first-added-wins lookup; automatic variables
   add exactly one entry per missing name; the parser reports exactly the identifiers in variable position. *)
From Coq Require Import List ZArith Bool Lia.
Import ListNotations.
Require Import Collections ExprParser ExprSound ExprComplete ExprTotal.
Open Scope Z_scope.

Lemma str_eqb_refl a : str_eqb a a = true.
Proof. induction a; simpl; [reflexivity|]. rewrite Z.eqb_refl. exact IHa. Qed.
Lemma str_eqb_eq a b : str_eqb a b = true -> a = b.
Proof.
  revert b. induction a as [|x a IH]; intros [|y b]; simpl; intros H; try reflexivity; try discriminate.
  apply andb_prop in H. destruct H as [H1 H2]. apply Z.eqb_eq in H1. apply IH in H2. subst. reflexivity.
Qed.

Lemma nth_firstn {A} (l : list A) : forall k j, (j < k)%nat -> nth_error (firstn k l) j = nth_error l j.
Proof. induction l as [|x l IH]; intros k j H; destruct k, j; cbn; try reflexivity; try lia. apply IH. lia. Qed.
Lemma nth_skipn {A} (l : list A) : forall k j, nth_error (skipn k l) j = nth_error l (k + j).
Proof. induction l as [|x l IH]; intros k j; destruct k; cbn; try reflexivity; [destruct j; reflexivity|apply IH]. Qed.

Section CP.
  Variable up : str -> str.
  Notation same := (same up).
  Notation find_index := (find_index up).
  Notation find := (find up).

  Lemma same_refl a : same a a = true. Proof. apply str_eqb_refl. Qed.
  Lemma same_sym a b : same a b = same b a.
  Proof. unfold Collections.same. destruct (str_eqb (up a) (up b)) eqn:E; [apply str_eqb_eq in E; rewrite E; symmetry; apply str_eqb_refl|].
    destruct (str_eqb (up b) (up a)) eqn:E2; [apply str_eqb_eq in E2; rewrite E2 in E; rewrite str_eqb_refl in E; discriminate|reflexivity]. Qed.
  Lemma same_trans a b c : same a b = true -> same b c = true -> same a c = true.
  Proof. unfold Collections.same. intros H1 H2. apply str_eqb_eq in H1. apply str_eqb_eq in H2. rewrite H1, H2. apply str_eqb_refl. Qed.

  (* FindIndexByName: the FIRST entry whose name matches ignoring case; -1 iff there is none *)
  Lemma find_index_from_spec c n i0 : 0 <= i0 ->
    (find_index_from up c n i0 = -1 /\ forall e, In e c -> same (fst e) n = false) \/
    (exists k e, find_index_from up c n i0 = i0 + Z.of_nat k /\ nth_error c k = Some e /\ same (fst e) n = true /\
                 forall j e', (j < k)%nat -> nth_error c j = Some e' -> same (fst e') n = false).
  Proof.
    revert i0. induction c as [|[m v] r IH]; intros i0 Hi; cbn [find_index_from].
    - left. split; [reflexivity|]. intros e [].
    - destruct (same m n) eqn:E.
      + right. exists 0%nat, (m, v). rewrite Z.add_0_r. repeat split; auto. intros j e' Hj. lia.
      + destruct (IH (i0 + 1) ltac:(lia)) as [[H1 H2]|(k & e & H1 & H2 & H3 & H4)].
        * left. split; [exact H1|]. intros e [<-|He]; [exact E|apply H2; exact He].
        * right. exists (S k), e. split; [rewrite H1; lia|]. split; [exact H2|]. split; [exact H3|].
          intros j e' Hj Hn. destruct j as [|j]; cbn in Hn; [inversion Hn; subst; exact E|]. apply (H4 j e'); [lia|exact Hn].
  Qed.

  Theorem find_first_wins c n :
    (find c n = None /\ forall e, In e c -> same (fst e) n = false) \/
    (exists k e, find c n = Some e /\ find_index c n = Z.of_nat k /\ nth_error c k = Some e /\ same (fst e) n = true /\
                 forall j e', (j < k)%nat -> nth_error c j = Some e' -> same (fst e') n = false).
  Proof.
    unfold Collections.find, Collections.find_index.
    destruct (find_index_from_spec c n 0 ltac:(lia)) as [[H1 H2]|(k & e & H1 & H2 & H3 & H4)].
    - left. rewrite H1. split; [reflexivity|exact H2].
    - right. exists k, e. rewrite H1. cbn [Z.add]. destruct (Z.ltb_spec (Z.of_nat k) 0); [lia|]. rewrite Nat2Z.id. repeat split; auto.
  Qed.

  (* adding at the end never hides an earlier entry: the first one added wins *)
  Theorem find_after_add c e n : find (add c e) n = match find c n with Some x => Some x | None => if same (fst e) n then Some e else None end.
  Proof.
    destruct (find_first_wins c n) as [[H1 H2]|(k & x & H1 & Hi & H2 & H3 & H4)]; rewrite H1.
    - destruct (find_first_wins (add c e) n) as [[G1 G2]|(k' & x' & G1 & _ & G2 & G3 & G4)]; rewrite G1.
      + specialize (G2 e ltac:(unfold add; apply in_or_app; right; left; reflexivity)). rewrite G2. reflexivity.
      + unfold add in *. destruct (Nat.lt_ge_cases k' (length c)) as [Hl|Hl].
        * rewrite nth_error_app1 in G2 by exact Hl. apply nth_error_In in G2. rewrite (H2 _ G2) in G3. discriminate.
        * rewrite nth_error_app2 in G2 by exact Hl. destruct (k' - length c)%nat as [|q] eqn:Eq; cbn in G2; [inversion G2; subst; rewrite G3; reflexivity|destruct q; discriminate].
    - destruct (find_first_wins (add c e) n) as [[G1 G2]|(k' & x' & G1 & _ & G2 & G3 & G4)]; rewrite G1.
      + exfalso. assert (Hin: In x (add c e)) by (unfold add; apply in_or_app; left; eapply nth_error_In; eauto). rewrite (G2 _ Hin) in H3. discriminate.
      + unfold add in *. assert (Hk: (k < length c)%nat) by (apply nth_error_Some; congruence).
        destruct (Nat.lt_trichotomy k k') as [Hlt|[->|Hgt]].
        * exfalso. assert (Hx: nth_error (c ++ [e]) k = Some x) by (rewrite nth_error_app1 by exact Hk; exact H2). rewrite (G4 k x Hlt Hx) in H3. discriminate.
        * rewrite nth_error_app1 in G2 by exact Hk. congruence.
        * exfalso. assert (Hk': (k' < length c)%nat) by lia. rewrite nth_error_app1 in G2 by exact Hk'. rewrite (H4 k' x' Hgt G2) in G3. discriminate.
  Qed.

  (* Locate adds an empty entry iff the name is missing, and returns the entry that is then found *)
  Theorem locate_spec c n :
    (exists e, find c n = Some e /\ locate up c n = (c, e)) \/ (find c n = None /\ locate up c n = (add c (n, 0), (n, 0))).
  Proof. unfold locate. destruct (find c n) as [e|]; [left; eauto|right; auto]. Qed.

  (* removing by index is list deletion; outside 0 <= i < length it fails *)
  Theorem remove_spec c i : 0 <= i < Z.of_nat (length c) ->
    exists c', remove c i = Done c' /\ length c' = pred (length c) /\
      (forall j, (j < Z.to_nat i)%nat -> nth_error c' j = nth_error c j) /\ (forall j, (Z.to_nat i <= j)%nat -> nth_error c' j = nth_error c (S j)).
  Proof.
    intros Hi. unfold remove. destruct (Z.ltb_spec i 0); [lia|]. destruct (Z.leb_spec (Z.of_nat (length c)) i); [lia|]. cbn [orb].
    set (k := Z.to_nat i). assert (Hk: (k < length c)%nat) by (subst k; lia).
    eexists. split; [reflexivity|]. split.
    - rewrite app_length, firstn_length, skipn_length. lia.
    - split; intros j Hj.
      + rewrite nth_error_app1 by (rewrite firstn_length; lia). rewrite nth_firstn by lia. reflexivity.
      + rewrite nth_error_app2 by (rewrite firstn_length; lia). rewrite firstn_length, Nat.min_l by lia. rewrite nth_skipn. f_equal. lia.
  Qed.
  Theorem remove_out_of_range c i : (i < 0 \/ Z.of_nat (length c) <= i) -> remove c i = Panic.
  Proof. intros Hi. unfold remove. destruct (Z.ltb_spec i 0); [reflexivity|]. destruct (Z.leb_spec (Z.of_nat (length c)) i); [reflexivity|lia]. Qed.

  Theorem clear_spec c : clear c = [] /\ map fst (clear_values c) = map fst c /\ Forall (fun e => snd e = 0) (clear_values c).
  Proof.
    split; [reflexivity|]. unfold clear_values. split; [rewrite map_map; reflexivity|]. apply Forall_forall. intros e He. apply in_map_iff in He. destruct He as (x & <- & _). reflexivity.
  Qed.

  (* ---- automatic variables ---- *)
  Definition no_dup_names (c : coll) : Prop := forall i j a b, nth_error c i = Some a -> nth_error c j = Some b -> same (fst a) (fst b) = true -> i = j.

  Lemma create_prefix names : forall c, exists ext, create_variables up c names = c ++ ext /\ Forall (fun e => snd e = 0) ext.
  Proof.
    induction names as [|n r IH]; intros c; cbn [create_variables]; [exists []; rewrite app_nil_r; auto|].
    destruct (find c n).
    - apply IH.
    - destruct (IH (add c (n, 0))) as (ext & H1 & H2). exists ((n, 0) :: ext). unfold add in H1. rewrite <- app_assoc in H1. split; [exact H1|]. constructor; auto.
  Qed.

  Lemma find_some_app c ext n e : find c n = Some e -> find (c ++ ext) n = Some e.
  Proof.
    revert c. induction ext as [|x ext IH]; intros c H; [rewrite app_nil_r; exact H|].
    replace (c ++ x :: ext) with ((c ++ [x]) ++ ext) by (rewrite <- app_assoc; reflexivity). apply IH.
    change (c ++ [x]) with (add c x). rewrite find_after_add, H. reflexivity.
  Qed.

  (* existing entries and their values are kept (the old collection is a prefix), new entries are empty, every name resolves *)
  Theorem create_variables_spec names c :
    (exists ext, create_variables up c names = c ++ ext /\ Forall (fun e => snd e = 0) ext) /\
    (forall n, In n names -> find (create_variables up c names) n <> None).
  Proof.
    split; [apply create_prefix|]. revert c. induction names as [|m r IH]; intros c n Hin; [destruct Hin|]. cbn [create_variables].
    destruct Hin as [->|Hin]; [|apply IH; exact Hin].
    destruct (find c n) as [e|] eqn:E.
    - destruct (create_prefix r c) as (ext & -> & _). rewrite (find_some_app c ext n e E). discriminate.
    - destruct (create_prefix r (add c (n, 0))) as (ext & -> & _).
      assert (F: find (add c (n, 0)) n = Some (n, 0)) by (rewrite find_after_add, E; cbn [fst]; rewrite same_refl; reflexivity).
      rewrite (find_some_app _ ext n _ F). discriminate.
  Qed.

  (* exactly one entry per name ignoring case: no duplicates are ever introduced *)
  Lemma add_missing_no_dup c n : no_dup_names c -> find c n = None -> no_dup_names (add c (n, 0)).
  Proof.
    intros Hnd Hf i j a b Ha Hb Hs. unfold add in *.
    destruct (find_first_wins c n) as [[_ Hnone]|(k & e & H1 & _)]; [|congruence].
    assert (Hlast: forall q x, nth_error (c ++ [(n, 0)]) q = Some x -> (q < length c)%nat \/ (q = length c /\ x = (n, 0))).
    { intros q x Hq. destruct (Nat.lt_ge_cases q (length c)) as [Hl|Hl]; [left; exact Hl|]. right.
      rewrite nth_error_app2 in Hq by exact Hl. destruct (q - length c)%nat as [|z] eqn:Ez; cbn in Hq; [inversion Hq; split; [lia|reflexivity]|destruct z; discriminate]. }
    destruct (Hlast i a Ha) as [Hi|[Hi ->]]; destruct (Hlast j b Hb) as [Hj|[Hj ->]].
    - rewrite nth_error_app1 in Ha, Hb by assumption. eapply Hnd; eauto.
    - exfalso. rewrite nth_error_app1 in Ha by assumption. apply nth_error_In in Ha. cbn [fst] in Hs. rewrite (Hnone _ Ha) in Hs. discriminate.
    - exfalso. rewrite nth_error_app1 in Hb by assumption. apply nth_error_In in Hb. cbn [fst] in Hs. rewrite same_sym in Hs. rewrite (Hnone _ Hb) in Hs. discriminate.
    - lia.
  Qed.
  Theorem create_variables_no_dup names : forall c, no_dup_names c -> no_dup_names (create_variables up c names).
  Proof.
    induction names as [|n r IH]; intros c Hnd; cbn [create_variables]; [exact Hnd|].
    destruct (find c n) eqn:E; [apply IH; exact Hnd|]. apply IH. apply add_missing_no_dup; assumption.
  Qed.
End CP.

(* ---- the parser reports exactly the identifiers in variable position, in written order ---- *)
Fixpoint rvars (p : list rinstr) : list Z := match p with [] => [] | RVar n :: r => n :: rvars r | _ :: r => rvars r end.
Fixpoint evars (e : expr) : list Z :=
  match e with
  | EConst _ => [] | EVar n => [n] | EUn _ a => evars a | EBin _ a b => evars a ++ evars b
  | ECall _ args => evarss args                                   (* the function name is not a variable *)
  end
with evarss (es : exprs) : list Z := match es with ENil => [] | ECons e r => evars e ++ evarss r end.

Lemma rvars_app a b : rvars (a ++ b) = rvars a ++ rvars b.
Proof. induction a as [|x a IH]; [reflexivity|]. destruct x; cbn; rewrite IH; reflexivity. Qed.

Scheme expr_ind2 := Induction for expr Sort Prop
with exprs_ind2 := Induction for exprs Sort Prop.
Combined Scheme expr_mutind2 from expr_ind2, exprs_ind2.

Lemma rvars_compile : (forall e, rvars (compile e) = evars e) /\ (forall es, rvars (compiles es) = evarss es).
Proof.
  apply expr_mutind2; intros; cbn [compile compiles evars evarss rvars]; rewrite ?rvars_app; cbn [rvars]; rewrite ?app_nil_r; try congruence; reflexivity.
Qed.

Theorem parser_reports_exactly_the_variables ts e : D0 ts e -> exists prog, parse_top ts = Ok prog /\ rvars prog = evars e.
Proof. intros HD. exists (compile e). split; [apply parse_top_complete; exact HD|apply (proj1 rvars_compile)]. Qed.
