(* C13, per-class facts on the configurations built from the extracted tables: which state every character is
   handed to (the lexical grammar's character classes), longest-symbol-wins for the registered symbols, keyword
   recognition in any letter case with the spelling kept, the sign rule. *)
From Coq Require Import List ZArith Bool Lia.
Import ListNotations.
Require Import Base Cursor Trie TrieProofs TrieSpec TrieLongest States Tokenizer Instances CharMap CharMapProofs Tables TokModel TokModelProofs.
Open Scope Z_scope.

(* ---- character classes of the lexical grammars (the specification side) ---- *)
Definition in_range (a b c : Z) : bool := (a <=? c) && (c <=? b).
Definition expr_class (c : Z) : option skind :=
  if in_range 97 122 c || in_range 65 90 c || (c =? 95) || in_range 192 255 c then Some KExprWord
  else if in_range 48 57 c || (c =? 45) || (c =? 46) then Some KExprNumber
  else if (c =? 34) || (c =? 39) then Some KExprQuote
  else if c =? 47 then Some KCComment
  else if in_range 0 32 c then Some KWs
  else if in_range 0 65534 c then Some KSymbol else None.
Definition generic_class (c : Z) : option skind :=
  if in_range 97 122 c || in_range 65 90 c || in_range 192 255 c || in_range 256 65534 c then Some KWord
  else if in_range 48 57 c || (c =? 45) || (c =? 46) then Some KNumber
  else if (c =? 34) || (c =? 39) then Some KQuote
  else if c =? 35 then Some KHashComment
  else if in_range 0 32 c then Some KWs
  else if in_range 0 255 c then Some KSymbol else None.

Definition skind_code (k : option skind) : Z :=
  match k with None => 0 | Some KSymbol => 1 | Some KNumber => 2 | Some KExprNumber => 3 | Some KWord => 4 | Some KExprWord => 5 | Some KWs => 6
             | Some KQuote => 7 | Some KExprQuote => 8 | Some KCsvQuote => 9 | Some KHashComment => 10 | Some KCComment => 11 | Some KCsvSymbol => 12 end.
Lemma skind_code_inj a b : skind_code a = skind_code b -> a = b.
Proof. destruct a as [[]|], b as [[]|]; cbn; intros H; try reflexivity; discriminate. Qed.

(* the Latin-1 part by exhaustive computation, the rest from the shape of the interval list *)
Lemma latin1_by_computation (f g : Z -> option skind) :
  forallb (fun k => skind_code (f (Z.of_nat k)) =? skind_code (g (Z.of_nat k))) (seq 0 256) = true ->
  forall c, 0 <= c < 256 -> f c = g c.
Proof.
  intros H c Hc. rewrite forallb_forall in H. specialize (H (Z.to_nat c)).
  assert (Hin: In (Z.to_nat c) (seq 0 256)) by (apply in_seq; lia). specialize (H Hin).
  rewrite Z2Nat.id in H by lia. apply Z.eqb_eq in H. apply skind_code_inj. exact H.
Qed.

Theorem expr_dispatch : forall c, Instances.table expr_cfg c = expr_class c.
Proof.
  intros c. destruct (Z.ltb_spec c 0) as [Hn|Hn].
  - unfold expr_cfg, Instances.table, table_of, map_lookup, expr_chmap. rewrite lookup_outside by lia.
    unfold expr_class, in_range. repeat (match goal with |- context [?a <=? ?b] => destruct (Z.leb_spec a b); try lia end);
      repeat (match goal with |- context [?a =? ?b] => destruct (Z.eqb_spec a b); try lia end); reflexivity.
  - destruct (Z.ltb_spec c 256) as [Hl|Hl].
    + apply (latin1_by_computation (Instances.table expr_cfg) expr_class); [vm_compute; reflexivity|lia].
    + unfold expr_cfg, Instances.table, table_of, map_lookup, expr_chmap, lookup.
      destruct (Z.ltb_spec c 0); [lia|]. destruct (Z.ltb_spec c 256); [lia|]. cbn [others find].
      unfold expr_class, in_range.
      repeat (match goal with |- context [?a <=? ?b] => destruct (Z.leb_spec a b); try lia end);
      repeat (match goal with |- context [?a =? ?b] => destruct (Z.eqb_spec a b); try lia end); reflexivity.
Qed.

Theorem generic_dispatch : forall c, Instances.table generic_cfg c = generic_class c.
Proof.
  intros c. destruct (Z.ltb_spec c 0) as [Hn|Hn].
  - unfold generic_cfg, Instances.table, table_of, map_lookup, generic_chmap. rewrite lookup_outside by lia.
    unfold generic_class, in_range. repeat (match goal with |- context [?a <=? ?b] => destruct (Z.leb_spec a b); try lia end);
      repeat (match goal with |- context [?a =? ?b] => destruct (Z.eqb_spec a b); try lia end); reflexivity.
  - destruct (Z.ltb_spec c 256) as [Hl|Hl].
    + apply (latin1_by_computation (Instances.table generic_cfg) generic_class); [vm_compute; reflexivity|lia].
    + unfold generic_cfg, Instances.table, table_of, map_lookup, generic_chmap, lookup.
      destruct (Z.ltb_spec c 0); [lia|]. destruct (Z.ltb_spec c 256); [lia|]. cbn [others find].
      unfold generic_class, in_range.
      repeat (match goal with |- context [?a <=? ?b] => destruct (Z.leb_spec a b); try lia end);
      repeat (match goal with |- context [?a =? ?b] => destruct (Z.eqb_spec a b); try lia end); reflexivity.
Qed.

(* ---- the longest registered multi-character symbol always wins (C16 on the extracted registrations) ---- *)
Theorem expr_symbol_longest s0 : wf_str (content s0) -> (p s0 < clen s0)%nat ->
  let regs := regs_of expr_symbols in
  let tok := fst (symbol_next lcf (build regs) s0) in
  let input := skipn (p s0) (content s0) in
  is_prefix (value tok) input = true /\ value tok <> [] /\
  p (snd (symbol_next lcf (build regs) s0)) = (p s0 + length (value tok))%nat /\
  (registered regs (value tok) = true \/ length (value tok) = 1%nat) /\
  (forall q, q <> [] -> registered regs q = true -> is_prefix q input = true -> (length q <= length (value tok))%nat) /\
  ty tok = (if registered regs (value tok) then last_type regs (value tok) else Symbol).
Proof. apply symbol_longest. exact (proj1 (valid_regb_ok _ expr_regs_ok)). Qed.

Theorem generic_symbol_longest s0 : wf_str (content s0) -> (p s0 < clen s0)%nat ->
  let regs := regs_of generic_symbols in
  let tok := fst (symbol_next lcf (build regs) s0) in
  let input := skipn (p s0) (content s0) in
  is_prefix (value tok) input = true /\ value tok <> [] /\
  p (snd (symbol_next lcf (build regs) s0)) = (p s0 + length (value tok))%nat /\
  (registered regs (value tok) = true \/ length (value tok) = 1%nat) /\
  (forall q, q <> [] -> registered regs q = true -> is_prefix q input = true -> (length q <= length (value tok))%nat) /\
  ty tok = (if registered regs (value tok) then last_type regs (value tok) else Symbol).
Proof. apply symbol_longest. exact (proj1 (valid_regb_ok _ generic_regs_ok)). Qed.

(* the registered multi-character symbols are exactly the language's *)
Lemma expr_symbols_are : forall q, registered (regs_of expr_symbols) q =
  existsb (str_eqb q) [[60; 61]; [62; 61]; [60; 62]; [33; 61]; [62; 62]; [60; 60]].
Proof.
  intros q. unfold registered. cbn [regs_of expr_symbols map existsb fst].
  rewrite !(str_eqb_sym q). reflexivity.
Qed.

(* ---- keywords: recognised in any letter case, spelling kept ---- *)
Definition spec_keywords : list (list Z) :=
  [[65; 78; 68]; [79; 82]; [78; 79; 84]; [88; 79; 82]; [76; 73; 75; 69]; [73; 83]; [73; 78]; [78; 85; 76; 76]; [84; 82; 85; 69]; [70; 65; 76; 83; 69]].
Lemma keywords_are_the_language : forallb (fun k => existsb (str_eqb k) spec_keywords) keywords = true /\
                                  forallb (fun k => existsb (str_eqb k) keywords) spec_keywords = true.
Proof. split; vm_compute; reflexivity. Qed.

Lemma keyword_spelling_kept lc plc wc kw s :
  value (fst (expr_word_next lc plc wc kw s)) = value (fst (word_next lc wc s)) /\
  ty (fst (expr_word_next lc plc wc kw s)) = (if kw (value (fst (word_next lc wc s))) then Keyword else ty (fst (word_next lc wc s))).
Proof. unfold expr_word_next. destruct (word_next lc wc s) as [tok s1]. cbn [fst]. destruct (kw (value tok)); split; reflexivity. Qed.

Lemma upper_char_idem c : upper_char (upper_char c) = upper_char c.
Proof.
  assert (G: forall d, (d < 97 \/ 122 < d) -> d <> 305 -> d <> 383 -> upper_char d = d).
  { intros d H1 H2 H3. unfold upper_char. destruct (Z.leb_spec 97 d); destruct (Z.leb_spec d 122); cbn [andb]; try lia;
      destruct (Z.eqb_spec d 305); try lia; destruct (Z.eqb_spec d 383); try lia; reflexivity. }
  unfold upper_char at 2 3.
  destruct (Z.leb_spec 97 c); destruct (Z.leb_spec c 122); cbn [andb]; try (apply G; lia);
    destruct (Z.eqb_spec c 305); try (apply G; lia); destruct (Z.eqb_spec c 383); try (apply G; lia).
Qed.

Lemma upper_idempotent_on_case s : upper (upper s) = upper s.
Proof. unfold upper. rewrite map_map. apply map_ext. exact upper_char_idem. Qed.

(* a keyword is recognised whatever the letter case of its ASCII letters *)
Lemma keyword_case_insensitive s : keyword_in keywords (upper s) = keyword_in keywords s.
Proof. unfold keyword_in. rewrite upper_idempotent_on_case. reflexivity. Qed.

(* ---- the sign: a symbol in expressions ---- *)
Lemma expr_sign_is_symbol lc plc symbol s : peek s = 45 -> expr_number_next lc plc symbol s = symbol s.
Proof. intros H. unfold expr_number_next. rewrite H. reflexivity. Qed.

(* ... but part of the number generically *)
Example generic_sign_in_number :
  exists ts, tokenize_with TGeneric no_options [45; 49; 50; 32; 45; 46; 53] = Tokenizer.Ok ts /\
             map (fun t => (ty t, value t)) ts = [(Integer, [45; 49; 50]); (Whitespace, [32]); (Float, [45; 46; 53]); (Eof, [])].
Proof. eexists. split; vm_compute; reflexivity. Qed.
Example expr_sign_is_symbol_example :
  exists ts, tokenize_with TExpr no_options [45; 49; 50] = Tokenizer.Ok ts /\
             map (fun t => (ty t, value t)) ts = [(Symbol, [45]); (Integer, [49; 50]); (Eof, [])].
Proof. eexists. split; vm_compute; reflexivity. Qed.
