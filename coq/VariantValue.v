(* C20: the value model of variants.  A variant holds a value; a list held by a variant is its own (values have no
   identity), which is exactly what the property demands of the implementation.  Operations over a small machine with
   variant registers and caller-owned lists; equality as Variant.Equals. *)
From Coq Require Import List ZArith Bool Lia.
From Coq Require Import Floats.SpecFloat.
Import ListNotations.
Require Import HostFloat.
Open Scope Z_scope.

Inductive val :=
| Null | Int (z : Z) | Long (z : Z) | Flt (bits : Z) | Dbl (bits : Z) | Str (s : list Z) | Bool (b : bool)
| Time (ns : Z) | Span (ns : Z) | Obj (id : Z) | Arr (l : list val).

(* host kinds of NewVariant / SetAsObject: 0 int 1 int32 2 uint 3 uint32 4 int64 5 float32 6 float64 7 bool 8 string 9 time.Time
   10 time.Duration 11 nil 12 any other Go value *)
Definition from_host (kind : Z) (z : Z) (s : list Z) : val :=
  match kind with
  | 0 | 1 => Int z | 2 | 3 | 4 => Long z | 5 => Flt z | 6 => Dbl z | 7 => Bool (negb (z =? 0)) | 8 => Str s | 9 => Time z | 10 => Span z
  | 11 => Null | _ => Obj z
  end.
Definition type_code (v : val) : Z :=
  match v with Null => 0 | Int _ => 1 | Long _ => 2 | Flt _ => 3 | Dbl _ => 4 | Str _ => 5 | Bool _ => 6 | Time _ => 7 | Span _ => 8 | Obj _ => 9 | Arr _ => 10 end.

(* indexed write past the end grows the array with nulls *)
Fixpoint set_nth (l : list val) (i : nat) (x : val) : list val :=
  match i, l with
  | O, [] => [x] | O, _ :: r => x :: r
  | S j, [] => Null :: set_nth [] j x | S j, y :: r => y :: set_nth r j x
  end.
Fixpoint grow (l : list val) (n : nat) : list val :=
  match n, l with O, _ => l | S m, [] => Null :: grow [] m | S m, y :: r => y :: grow r m end.

(* Variant.Equals *)
Fixpoint str_eq (a b : list Z) : bool := match a, b with [], [] => true | x :: a', y :: b' => (x =? y) && str_eq a' b' | _, _ => false end.
Fixpoint equals (a b : val) {struct a} : bool :=
  match a, b with
  | Null, Null => true
  | Int x, Int y | Long x, Long y | Time x, Time y | Span x, Span y | Obj x, Obj y => x =? y
  | Flt x, Flt y => SFeqb (b32_of_bits x) (b32_of_bits y)        (* Go's == on floats: NaN equals nothing, +0 == -0 *)
  | Dbl x, Dbl y => SFeqb (b64_of_bits x) (b64_of_bits y)
  | Str x, Str y => str_eq x y
  | Bool x, Bool y => Bool.eqb x y
  | Arr xs, Arr ys =>
      (fix go (xs ys : list val) {struct xs} : bool :=
         match xs, ys with [], [] => true | x :: xs', y :: ys' => equals x y && go xs' ys' | _, _ => false end) xs ys
  | _, _ => false
  end.

(* no NaN anywhere inside *)
Fixpoint nan_free (v : val) : bool :=
  match v with
  | Flt x => SFeqb (b32_of_bits x) (b32_of_bits x) | Dbl x => SFeqb (b64_of_bits x) (b64_of_bits x)
  | Arr l => (fix go (l : list val) := match l with [] => true | x :: r => nan_free x && go r end) l
  | _ => true
  end.

(* ---- the machine: variant registers and caller-owned lists ---- *)
Record mach := { regs : list val; lists : list (list val) }.
Definition reg (m : mach) (i : nat) : val := nth i (regs m) Null.
Definition lst (m : mach) (k : nat) : list val := nth k (lists m) [].
Fixpoint upd {A} (l : list A) (i : nat) (x : A) : list A := match l, i with [], _ => [] | _ :: r, O => x :: r | y :: r, S j => y :: upd r j x end.
Definition set_reg (m : mach) (i : nat) (v : val) : mach := {| regs := upd (regs m) i v; lists := lists m |}.
Definition set_lst (m : mach) (k : nat) (l : list val) : mach := {| regs := regs m; lists := upd (lists m) k l |}.

Inductive op :=
| ONew (i : nat) (v : val)                 (* v[i] = NewVariant(host) / v[i].SetAsX(host) *)
| OFromList (i k : nat)                    (* v[i] = VariantFromArray(l[k]) / v[i].SetAsArray(l[k]) / v[i].SetAsObject(l[k]) *)
| OCopy (i j : nat)                        (* v[i] = v[j].Clone() / v[i].SetAsObject(v[j]) / v[i].Assign(v[j]) *)
| OSetByIndex (i : nat) (idx : nat) (v : val)
| OSetLength (i : nat) (n : nat)
| OListWrite (k : nat) (idx : nat) (v : val)
| OListAppend (k : nat) (v : val)
| OListTruncate (k : nat)                  (* l[k] = l[k][:0] : the buffer is reused *)
| OSetElem (i : nat) (idx : nat) (v : val). (* v[i].GetByIndex(idx).SetAsX(host): an element of v[i]'s own list is set in place *)

Definition step (m : mach) (o : op) : mach :=
  match o with
  | ONew i v => set_reg m i v
  | OFromList i k => set_reg m i (Arr (lst m k))
  | OCopy i j => set_reg m i (reg m j)
  | OSetByIndex i idx v => match reg m i with Arr l => set_reg m i (Arr (set_nth l idx v)) | _ => m end
  | OSetLength i n => match reg m i with Arr l => set_reg m i (Arr (grow l n)) | _ => m end
  | OListWrite k idx v => if Nat.ltb idx (length (lst m k)) then set_lst m k (upd (lst m k) idx v) else m
  | OListAppend k v => set_lst m k (lst m k ++ [v])
  | OListTruncate k => set_lst m k []
  | OSetElem i idx v => match reg m i with Arr l => if Nat.ltb idx (length l) then set_reg m i (Arr (set_nth l idx v)) else m | _ => m end
  end.
