(* C08: what the default functions compute, over the variant model; generic in the host float record, the
   operations manager and every host function. *)
From Coq Require Import List ZArith Bool Lia.
Import ListNotations.
Require Import Variant VariantProofs Functions.
Open Scope Z_scope.

Section FP.
  Variable H : hf.
  Variable convert : value H -> vtype -> outcome (value H).
  Variable math1 : Z -> F64 H -> F64 H.
  Variable abs32 : F32 H -> F32 H.  Variable abs64 : F64 H -> F64 H.
  Variable make_date : list Z -> Z.  Variable weekday : Z -> Z.
  Variable now_ticks : Z.  Variable now_ns : Z.  Variable rnd32 : F32 H.
  Variable const_e : F32 H.  Variable const_pi : F32 H.

  Notation calc := (calculate H convert math1 abs32 abs64 make_date weekday now_ticks now_ns rnd32 const_e const_pi).
  Notation deleg := (delegated H convert math1 abs32 abs64 make_date weekday now_ticks now_ns rnd32 const_e const_pi).

  (* a failing calculator surfaces as an error, never as a crash *)
  Theorem delegated_never_panics code ps : deleg code ps <> Panic.
  Proof. unfold delegated. destruct (calc code ps); discriminate. Qed.

  (* wrong argument counts are errors: the fixed-arity functions *)
  Definition fixed_arity (code : Z) : option nat :=
    match code with
    | 1 | 3 | 11 | 12 | 13 | 30 => Some 0%nat
    | 5 | 14 | 24 | 29 => Some 1%nat
    | 31 => Some 2%nat | 9 => Some 3%nat
    | _ => if (15 <=? code) && (code <=? 28) then Some 1%nat else None
    end.
  Theorem wrong_count_is_error code n ps : fixed_arity code = Some n -> length ps <> n -> deleg code ps = Err param_err.
  Proof.
    intros Hf Hl. unfold delegated, calculate, check_count.
    assert (E: Nat.eqb (length ps) n = false) by (apply Nat.eqb_neq; exact Hl).
    unfold fixed_arity in Hf.
    destruct code as [|c|c]; try discriminate;
      repeat (destruct c as [c|c|]; try discriminate; try (injection Hf as <-; rewrite E; reflexivity)).
  Qed.
  Theorem too_few_is_error code ps : (code = 6 \/ code = 7 \/ code = 8) -> (length ps < 2)%nat -> deleg code ps = Err param_err.
  Proof.
    intros Hc Hl. unfold delegated, calculate, at_least. assert (E: (length ps <? 2)%nat = true) by (apply Nat.ltb_lt; exact Hl).
    destruct Hc as [->|[->| ->]]; rewrite E; reflexivity.
  Qed.

  (* If and Choose select *)
  Theorem if_selects c a b w : convert c TBoolean = Ok (VBool H w) -> deleg 9 [c; a; b] = Ok (if w then a else b).
  Proof. intros Hc. unfold delegated, calculate, check_count. cbn. rewrite Hc. cbn. destruct w; reflexivity. Qed.

  (* a Go slice never has 2^63 elements; stated as a premise *)
  Theorem choose_selects ps i v : (3 <= length ps)%nat -> Z.of_nat (length ps) < two63 ->
    convert (nth 0 ps (VNull H)) TInteger = Ok (VInt H (Z.of_nat i)) -> nth_error ps i = Some v -> deleg 10 ps = Ok v.
  Proof.
    intros Hl Hb Hc Hn. unfold delegated, calculate, f_choose, at_least.
    assert (E: (length ps <? 3)%nat = false) by (apply Nat.ltb_ge; exact Hl). rewrite E.
    unfold to_integer. rewrite Hc. cbn [bind as_integer].
    assert (Hi: (i < length ps)%nat) by (apply nth_error_Some; congruence).
    assert (Hw: wrap64 (Z.of_nat i + 1) = Z.of_nat i + 1) by (apply wrap64_small; unfold two63 in *; lia).
    rewrite Hw. destruct (Z.ltb_spec (Z.of_nat (length ps)) (Z.of_nat i + 1)); [lia|].
    unfold nth_param. destruct (Z.ltb_spec (Z.of_nat i) 0); [lia|]. destruct (Z.leb_spec (Z.of_nat (length ps)) (Z.of_nat i)); [lia|]. cbn [orb]. rewrite Nat2Z.id, Hn. reflexivity.
  Qed.

  (* a selector beyond the arguments is an error, a negative one a recovered failure: never a value *)
  Theorem choose_out_of_range ps i : (3 <= length ps)%nat -> Z.of_nat (length ps) < two63 - 1 ->
    convert (nth 0 ps (VNull H)) TInteger = Ok (VInt H i) -> (i < 0 \/ Z.of_nat (length ps) <= i) -> - two63 <= i < two63 - 1 ->
    exists c, deleg 10 ps = Err c.
  Proof.
    intros Hl Hb Hc Hi Hr. unfold delegated, calculate, f_choose, at_least.
    assert (E: (length ps <? 3)%nat = false) by (apply Nat.ltb_ge; exact Hl). rewrite E.
    unfold to_integer. rewrite Hc. cbn [bind as_integer].
    assert (Hw: wrap64 (i + 1) = i + 1) by (apply wrap64_small; unfold two63 in *; lia). rewrite Hw.
    destruct (Z.ltb_spec (Z.of_nat (length ps)) (i + 1)); [eauto|].
    unfold nth_param. destruct (Z.ltb_spec i 0); [cbn [orb]; eauto|]. exfalso. lia.
  Qed.

  (* Abs is type-preserving and exact on integers and longs (the most negative value wraps, as in Go) *)
  Theorem abs_integer z : deleg 14 [VInt H z] = Ok (VInt H (if z <? 0 then wrap64 (- z) else z)) /\
                          deleg 14 [VLong H z] = Ok (VLong H (if z <? 0 then wrap64 (- z) else z)).
  Proof. split; reflexivity. Qed.
  Theorem abs_exact z : - two63 < z < two63 -> deleg 14 [VInt H z] = Ok (VInt H (Z.abs z)) /\ deleg 14 [VLong H z] = Ok (VLong H (Z.abs z)).
  Proof.
    intros Hz. destruct (abs_integer z) as [A B]. rewrite A, B.
    destruct (Z.ltb_spec z 0); [rewrite wrap64_small by (unfold two63 in *; lia); rewrite Z.abs_neq by lia|rewrite Z.abs_eq by lia]; split; reflexivity.
  Qed.
  Theorem abs_float f g : deleg 14 [VFloat H f] = Ok (VFloat H (abs32 f)) /\ deleg 14 [VDouble H g] = Ok (VDouble H (abs64 g)).
  Proof. split; reflexivity. Qed.

  (* elementary and rounding functions: the host function of IEEE double arithmetic on the converted argument, result Double *)
  Theorem math_is_host code v f : 15 <= code <= 28 -> code <> 24 -> convert v TDouble = Ok (VDouble H f) ->
    deleg code [v] = Ok (VDouble H (math1 code f)).
  Proof.
    intros Hc Hn Hv. unfold delegated, calculate.
    assert (E: (15 <=? code) && (code <=? 28) = true) by (apply andb_true_intro; split; apply Z.leb_le; lia).
    destruct code as [|c|c]; try lia.
    repeat (destruct c as [c|c|]; try lia); cbn [check_count length Nat.eqb nth f_math]; unfold f_math; rewrite Hv; reflexivity.
  Qed.
  Theorem trunc_is_long v f : convert v TDouble = Ok (VDouble H f) -> deleg 24 [v] = Ok (VLong H (trunc64 H f)).
  Proof. intros Hv. unfold delegated, calculate. cbn [check_count length Nat.eqb nth]. rewrite Hv. reflexivity. Qed.

  (* Array, Null, Empty, constants *)
  Theorem array_holds_its_arguments ps : deleg 32 ps = Ok (VArray H ps).
  Proof. reflexivity. Qed.
  Theorem empty_and_null v : deleg 29 [v] = Ok (VBool H (is_null H v)) /\ deleg 30 [] = Ok (VNull H).
  Proof. split; reflexivity. Qed.
  Theorem constants : deleg 11 [] = Ok (VFloat H const_e) /\ deleg 12 [] = Ok (VFloat H const_pi).
  Proof. split; reflexivity. Qed.

  (* Sum folds Add over all arguments from the left; Min/Max fold the manager's comparison over all arguments *)
  Theorem sum_is_left_fold p0 rest : deleg 8 (p0 :: rest) = match (if (length (p0 :: rest) <? 2)%nat then Err param_err else sum_all H convert p0 rest) with Panic => Err calc_failed | r => r end.
  Proof. reflexivity. Qed.

  Hypothesis Hid : forall v, convert v (type_of H v) = Ok v.
  Fixpoint zmin (a : Z) (l : list Z) : Z := match l with [] => a | x :: r => zmin (Z.min a x) r end.
  Fixpoint zmax (a : Z) (l : list Z) : Z := match l with [] => a | x :: r => zmax (Z.max a x) r end.
  Lemma more_int x y : more H convert (VInt H x) (VInt H y) = Ok (VBool H (x >? y)).
  Proof. unfold more, arith. cbn [is_null orb type_of]. pose proof (Hid (VInt H y)) as E. cbn [type_of] in E. rewrite E. reflexivity. Qed.
  Lemma less_int x y : less H convert (VInt H x) (VInt H y) = Ok (VBool H (x <? y)).
  Proof. unfold less, arith. cbn [is_null orb type_of]. pose proof (Hid (VInt H y)) as E. cbn [type_of] in E. rewrite E. reflexivity. Qed.
  Lemma pick_min a l : pick H (more H convert) (VInt H a) (map (VInt H) l) = Ok (VInt H (zmin a l)).
  Proof.
    revert a. induction l as [|x l IH]; intros a; [reflexivity|]. cbn [map pick]. rewrite more_int. cbn [bind as_bool].
    cbn [zmin]. destruct (Z.gtb_spec a x); [rewrite Z.min_r by lia|rewrite Z.min_l by lia]; apply IH.
  Qed.
  Lemma pick_max a l : pick H (less H convert) (VInt H a) (map (VInt H) l) = Ok (VInt H (zmax a l)).
  Proof.
    revert a. induction l as [|x l IH]; intros a; [reflexivity|]. cbn [map pick]. rewrite less_int. cbn [bind as_bool].
    cbn [zmax]. destruct (Z.ltb_spec a x); [rewrite Z.max_r by lia|rewrite Z.max_l by lia]; apply IH.
  Qed.
  (* Min / Max range over ALL arguments *)
  Theorem min_max_over_all_arguments a b l :
    deleg 6 (map (VInt H) (a :: b :: l)) = Ok (VInt H (zmin a (b :: l))) /\ deleg 7 (map (VInt H) (a :: b :: l)) = Ok (VInt H (zmax a (b :: l))).
  Proof.
    split; unfold delegated, calculate, at_least; cbn [map length Nat.ltb Nat.leb nth tl].
    - change (VInt H b :: map (VInt H) l) with (map (VInt H) (b :: l)). rewrite pick_min. reflexivity.
    - change (VInt H b :: map (VInt H) l) with (map (VInt H) (b :: l)). rewrite pick_max. reflexivity.
  Qed.
End FP.
