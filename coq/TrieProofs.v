Require Import Base Cursor Trie.

(* ---------- symbol_next returns exactly the characters it consumes (C04 for the symbol state) ---------- *)
Definition J (l : str) (p0 : nat) (path : str) (s : cur) : Prop :=
  content s = l /\ (p0 < p s <= length l)%nat /\ path = slice l p0 (p s).

Lemma removelast_slice l a b : (a < b <= length l)%nat -> removelast (slice l a b) = slice l a (pred b).
Proof.
  intros H. destruct b as [|b]; [lia|]. cbn [pred].
  rewrite <- (slice_snoc l a b) by lia. apply removelast_last.
Qed.

Lemma firstn1_app (a b : str) : a <> [] -> firstn 1 (a ++ b) = firstn 1 a.
Proof. destruct a; [congruence|reflexivity]. Qed.

Lemma deepest_J t l p0 : wf_str l -> forall fuel path s, J l p0 path s ->
  J l p0 (fst (deepest t fuel path s)) (snd (deepest t fuel path s)) /\
  (forall c0, firstn 1 path = [c0] -> firstn 1 (fst (deepest t fuel path s)) = [c0]).
Proof.
  intros Hwf. induction fuel as [|f IH]; intros path s HJ; cbn [deepest].
  - simpl. split; [exact HJ|auto].
  - destruct HJ as (Hc & Hp & Hpath). unfold read, clen. rewrite Hc.
    destruct (Nat.ltb_spec (length l) (p s)); [lia|].
    destruct (Nat.ltb_spec (p s) (length l)) as [Hlt|Hge].
    + assert (Hne: at_ l (p s) <> eof) by (intros E; apply (at_eof_iff l _ Hwf) in E; lia).
      destruct (Z.eqb_spec (at_ l (p s)) eof); [contradiction|]. cbn [negb].
      destruct (node t (path ++ [at_ l (p s)])) eqn:En.
      * specialize (IH (path ++ [at_ l (p s)]) {| content := l; p := S (p s) |}).
        destruct IH as (H1 & H2).
        { repeat split; simpl; auto; try lia. subst path. rewrite slice_snoc by lia. reflexivity. }
        split; [exact H1|]. intros c0 Hc0. apply H2. rewrite firstn1_app; auto. intros E. rewrite E in Hc0. discriminate.
      * simpl. split; [repeat split; simpl; auto; lia|auto].
    + cbn [negb Z.eqb eof]. simpl. split; [repeat split; simpl; auto; lia|auto].
Qed.

Lemma climb_J t l p0 c0 : (forall i, node t [c0] = Some i -> valid i = true) -> node t [c0] <> None ->
  forall fuel path s, J l p0 path s -> firstn 1 path = [c0] ->
  J l p0 (fst (climb t fuel path s)) (snd (climb t fuel path s)) /\ firstn 1 (fst (climb t fuel path s)) = [c0].
Proof.
  intros Hfv Hex. induction fuel as [|f IH]; intros path s HJ Hhd; cbn [climb]; [auto|].
  destruct path as [|x path']; [discriminate|].
  destruct (node t (x :: path')) as [i|] eqn:En; [|auto]. destruct (valid i) eqn:Ev; [auto|].
  destruct HJ as (Hc & Hp & Hpath).
  assert (Hlen: length (x :: path') = (p s - p0)%nat) by (rewrite Hpath; apply slice_length; lia).
  assert (Hx: x = c0) by (simpl in Hhd; congruence).
  destruct path' as [|y path''].
  { (* a first-level node is always valid *) subst x. rewrite (Hfv _ En) in Ev. discriminate. }
  apply IH.
  - unfold J, unread. cbn [content p]. split; [exact Hc|]. cbn [length] in Hlen. split; [lia|].
    rewrite Hpath. apply removelast_slice. lia.
  - subst x. reflexivity.
Qed.

Theorem symbol_slice lc plc t : (forall s, (p s < clen s)%nat -> lc (snd (read s)) = plc s) -> first_valid t -> slice_spec plc (symbol_next lc t).
Proof.
  intros Hlc Hfv s0 Hwf Hlt. unfold symbol_next. specialize (Hlc s0 Hlt).
  pose proof (win_start s0 Hlt) as Hw. destruct (read s0) as [c0 s1] eqn:Er. cbn [fst snd] in Hw.
  destruct Hw as (Hc1 & Hp1 & Hle1 & _ & Hch).
  assert (Hp1': p s1 = S (p s0)).
  { unfold read in Er. destruct (Nat.ltb_spec (clen s0) (p s0)); [lia|]. destruct (Nat.ltb_spec (p s0) (clen s0)); [|lia]. inversion Er. reflexivity. }
  assert (HJ1: J (content s0) (p s0) [c0] s1).
  { repeat split; auto; try (unfold clen in *; lia). rewrite Hp1'. rewrite <- (slice_snoc _ (p s0) (p s0)) by (unfold clen in *; lia).
    rewrite slice_nil. simpl. f_equal. rewrite Hch, Hp1'. reflexivity. }
  destruct (node t [c0]) as [i0|] eqn:En.
  - destruct (deepest_J t (content s0) (p s0) Hwf (S (clen s0)) [c0] s1 HJ1) as (HJ2 & Hk).
    specialize (Hk c0 eq_refl).
    destruct (deepest t (S (clen s0)) [c0] s1) as [path s2]. cbn [fst snd] in *.
    assert (Hhd: firstn 1 path = [c0]) by exact Hk.
    destruct (climb_J t (content s0) (p s0) c0 (fun i H => Hfv c0 i H) ltac:(rewrite En; discriminate) (S (length path)) path s2 HJ2 Hhd) as [HJ3 _].
    destruct (climb t (S (length path)) path s2) as [path' s3]. cbn [fst snd] in *.
    destruct HJ3 as (Hc3 & Hp3 & Hpath3). unfold clen, npos, clen. rewrite Hc3. rewrite Nat.min_l by lia. cbn [snd] in Hlc. split; [reflexivity|]. split; [lia|]. split; [exact Hpath3|]. unfold pos_of, mk. cbn [line col fst snd]. rewrite <- Hlc. destruct (lc s1); reflexivity.
  - cbn [fst snd mk value] in *. unfold clen, npos, clen in *. destruct HJ1 as (H1 & H2 & H3). rewrite H1. rewrite Nat.min_l by lia. split; [reflexivity|]. split; [lia|]. split; [exact H3|]. unfold pos_of. cbn [line col fst snd]. rewrite <- Hlc. destruct (lc s1); reflexivity.
Qed.

(* stronger form used by C16: the symbol state never leaves the end-of-input slot consumed *)
Lemma symbol_slice_strong lc t : first_valid t -> forall s, wf_str (content s) -> (p s < clen s)%nat ->
    content (snd (symbol_next lc t s)) = content s /\ (p s < p (snd (symbol_next lc t s)) <= clen s)%nat /\
    value (fst (symbol_next lc t s)) = slice (content s) (p s) (p (snd (symbol_next lc t s))).
Proof.
  intros Hfv s0 Hwf Hlt. unfold symbol_next.
  pose proof (win_start s0 Hlt) as Hw. destruct (read s0) as [c0 s1] eqn:Er. cbn [fst snd] in Hw.
  destruct Hw as (Hc1 & Hp1 & Hle1 & _ & Hch).
  assert (Hp1': p s1 = S (p s0)).
  { unfold read in Er. destruct (Nat.ltb_spec (clen s0) (p s0)); [lia|]. destruct (Nat.ltb_spec (p s0) (clen s0)); [|lia]. inversion Er. reflexivity. }
  assert (HJ1: J (content s0) (p s0) [c0] s1).
  { repeat split; auto; try (unfold clen in *; lia). rewrite Hp1'. rewrite <- (slice_snoc _ (p s0) (p s0)) by (unfold clen in *; lia).
    rewrite slice_nil. simpl. f_equal. rewrite Hch, Hp1'. reflexivity. }
  destruct (node t [c0]) as [i0|] eqn:En.
  - destruct (deepest_J t (content s0) (p s0) Hwf (S (clen s0)) [c0] s1 HJ1) as (HJ2 & Hk).
    specialize (Hk c0 eq_refl).
    destruct (deepest t (S (clen s0)) [c0] s1) as [path s2]. cbn [fst snd] in *.
    destruct (climb_J t (content s0) (p s0) c0 (fun i H => Hfv c0 i H) ltac:(rewrite En; discriminate) (S (length path)) path s2 HJ2 Hk) as [HJ3 _].
    destruct (climb t (S (length path)) path s2) as [path' s3]. cbn [fst snd] in *.
    destruct HJ3 as (Hc3 & Hp3 & Hpath3). unfold clen. repeat split; auto; lia.
  - cbn [fst snd mk value]. unfold clen in *. destruct HJ1 as (H1 & H2 & H3). repeat split; auto; lia.
Qed.

Print Assumptions symbol_slice.
