(* Model of calculator/variables/VariableCollection.go and calculator/functions/FunctionCollection.go: an ordered list
   of (name, value) entries, names compared through `up` (strings.ToUpper); and of ExpressionCalculator.CreateVariables. *)
From Coq Require Import List ZArith Bool Lia.
Import ListNotations.
Open Scope Z_scope.

Definition str := list Z.
Fixpoint str_eqb (a b : str) : bool :=
  match a, b with [], [] => true | x :: a', y :: b' => (x =? y) && str_eqb a' b' | _, _ => false end.

Section Coll.
  Variable up : str -> str.                 (* strings.ToUpper *)
  Definition entry := (str * Z)%type.       (* name, value (0 = the Null variant) *)
  Definition coll := list entry.

  Inductive out (A : Type) := Done (a : A) | Panic.
  Arguments Done {A}. Arguments Panic {A}.

  Definition same (a b : str) : bool := str_eqb (up a) (up b).

  Definition add (c : coll) (e : entry) : coll := c ++ [e].
  Fixpoint find_index_from (c : coll) (n : str) (i : Z) : Z :=
    match c with [] => -1 | (m, _) :: r => if same m n then i else find_index_from r n (i + 1) end.
  Definition find_index (c : coll) (n : str) : Z := find_index_from c n 0.
  Definition get (c : coll) (i : Z) : out entry :=
    if i <? 0 then Panic else match nth_error c (Z.to_nat i) with Some e => Done e | None => Panic end.   (* index out of range *)
  Definition find (c : coll) (n : str) : option entry :=
    let i := find_index c n in if i <? 0 then None else nth_error c (Z.to_nat i).
  Definition locate (c : coll) (n : str) : coll * entry :=
    match find c n with Some e => (c, e) | None => (c ++ [(n, 0)], (n, 0)) end.
  (* append(c[:index], c[index+1:]...) : panics unless 0 <= index < len *)
  Definition remove (c : coll) (i : Z) : out coll :=
    if (i <? 0) || (Z.of_nat (length c) <=? i) then Panic else Done (firstn (Z.to_nat i) c ++ skipn (S (Z.to_nat i)) c).
  Definition remove_by_name (c : coll) (n : str) : coll :=
    let i := find_index c n in if i <? 0 then c else firstn (Z.to_nat i) c ++ skipn (S (Z.to_nat i)) c.
  Definition clear (c : coll) : coll := [].
  Definition clear_values (c : coll) : coll := map (fun e => (fst e, 0)) c.

  (* ExpressionCalculator.CreateVariables: one empty variable for every name that is not found *)
  Fixpoint create_variables (c : coll) (names : list str) : coll :=
    match names with
    | [] => c
    | n :: r => create_variables (match find c n with Some _ => c | None => add c (n, 0) end) r
    end.
End Coll.
Arguments Done {A}. Arguments Panic {A}.
