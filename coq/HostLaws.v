(* C07: the host laws that the round-trip theorems take as premises, discharged for the executable instance used by
   the correspondence runs (RunVar.v): decimal formatting / parsing of integers (proved here for every int64), the
   floating-point constants of the SpecFloat instance (by computation). *)
From Coq Require Import List ZArith Bool Lia.
Import ListNotations.
Require Import Sx Variant HostFloat RunVar.
Open Scope Z_scope.

Lemma parse_digit d r a : 0 <= d <= 9 -> parse_digits ((48 + d) :: r) a = parse_digits r (a * 10 + d).
Proof.
  intros H. cbn [parse_digits]. destruct (Z.leb_spec 48 (48 + d)); [|lia]. destruct (Z.leb_spec (48 + d) 57); [|lia]. cbn [andb]. f_equal. lia.
Qed.

(* the digits written for n, most significant first, read back as n on top of whatever was read before *)
Lemma digits_spec : forall fuel n acc, 0 <= n < 10 ^ Z.of_nat fuel -> (0 < fuel)%nat ->
  exists ds, digits fuel n acc = ds ++ acc /\ ds <> [] /\ (exists d0 r0, ds = (48 + d0) :: r0 /\ 0 <= d0 <= 9) /\
             forall r a, parse_digits (ds ++ r) a = parse_digits r (a * 10 ^ Z.of_nat (length ds) + n).
Proof.
  induction fuel as [|fuel IH]; intros n acc Hn Hf; [lia|]. cbn [digits].
  destruct (Z.ltb_spec n 10) as [Hs|Hb].
  - exists [48 + n]. split; [reflexivity|]. split; [discriminate|]. split; [exists n, []; split; [reflexivity|lia]|].
    intros r a. cbn [app length]. rewrite parse_digit by lia. f_equal.
  - assert (Hf': (0 < fuel)%nat).
    { destruct fuel; [|lia]. cbn in Hn. lia. }
    assert (Hq: 0 <= n / 10 < 10 ^ Z.of_nat fuel).
    { split; [apply Z.div_pos; lia|]. apply Z.div_lt_upper_bound; [lia|]. rewrite Nat2Z.inj_succ, Z.pow_succ_r in Hn by lia. lia. }
    destruct (IH (n / 10) ((48 + n mod 10) :: acc) Hq Hf') as (ds & Hd & Hne & (d0 & r0 & Hd0 & Hr0) & Hp).
    exists (ds ++ [48 + n mod 10]). split; [rewrite Hd, <- app_assoc; reflexivity|]. split; [destruct ds; discriminate|].
    split; [exists d0, (r0 ++ [48 + n mod 10]); split; [rewrite Hd0; reflexivity|exact Hr0]|].
    intros r a. rewrite <- app_assoc. rewrite Hp. cbn [app]. rewrite parse_digit by (pose proof (Z.mod_pos_bound n 10); lia).
    f_equal. rewrite app_length. cbn [length]. rewrite Nat.add_1_r, Nat2Z.inj_succ, Z.pow_succ_r by lia.
    pose proof (Z.div_mod n 10 ltac:(lia)). lia.
Qed.

Lemma not_sign_branch {A} (d : Z) (r : list Z) (f g : list Z -> A) (h : A) : d <> 45 -> d <> 43 ->
  match d :: r with 45 :: r' => f r' | 43 :: r' => g r' | _ => h end = h.
Proof.
  intros H1 H2. destruct d as [|p|p]; try reflexivity.
  do 6 (destruct p as [p|p|]; try reflexivity); congruence.
Qed.

Lemma pow25 : two63 < 10 ^ Z.of_nat 25. Proof. unfold two63. vm_compute. reflexivity. Qed.

(* strconv.ParseInt(strconv.FormatInt(z, 10), 10, 64) = z for every int64 *)
Theorem parse_format_instance : forall z, in64 z = true -> string_to_int (int_to_string z) = Some z.
Proof.
  intros z Hz. unfold in64 in Hz. apply andb_prop in Hz. destruct Hz as [H1 H2]. apply Z.leb_le in H1. apply Z.ltb_lt in H2.
  pose proof pow25 as P. unfold int_to_string. destruct (Z.ltb_spec z 0) as [Hneg|Hpos].
  - destruct (digits_spec 25 (- z) [] ltac:(lia) ltac:(lia)) as (ds & Hd & Hne & _ & Hp). rewrite Hd, app_nil_r.
    unfold string_to_int. destruct ds as [|d ds]; [congruence|].
    specialize (Hp [] 0). rewrite app_nil_r in Hp. rewrite Hp. cbn [parse_digits]. replace (0 * _ + - z) with (- z) by lia.
    rewrite Z.opp_involutive. unfold in64. destruct (Z.leb_spec (- two63) z); [|lia]. destruct (Z.ltb_spec z two63); [|lia]. reflexivity.
  - destruct (digits_spec 25 z [] ltac:(lia) ltac:(lia)) as (ds & Hd & Hne & (d0 & r0 & Hd0 & Hr0) & Hp). rewrite Hd, app_nil_r.
    unfold string_to_int. rewrite Hd0.
    rewrite (not_sign_branch (48 + d0) r0 (fun r => (true, r)) (fun r => (false, r)) (false, (48 + d0) :: r0)) by lia.
    rewrite <- Hd0. destruct ds as [|d ds]; [congruence|].
    specialize (Hp [] 0). rewrite app_nil_r in Hp. rewrite Hp. cbn [parse_digits]. replace (0 * _ + z) with z by lia.
    unfold in64. destruct (Z.leb_spec (- two63) z); [|lia]. destruct (Z.ltb_spec z two63); [|lia]. reflexivity.
Qed.

(* the floating-point constants of the SpecFloat instance *)
Lemma bool_floats_instance orc :
  (eq32 (HF orc) (one32 (HF orc)) (zero32 (HF orc)) = false) /\ (eq32 (HF orc) (zero32 (HF orc)) (zero32 (HF orc)) = true) /\
  (eq64 (HF orc) (one64 (HF orc)) (zero64 (HF orc)) = false) /\ (eq64 (HF orc) (zero64 (HF orc)) (zero64 (HF orc)) = true).
Proof. repeat split; vm_compute; reflexivity. Qed.

Print Assumptions parse_format_instance.

Require Import VariantProofs.

(* the round trips that depend only on discharged laws, closed for the executable instance (any oracle table) *)
Theorem int_string_roundtrip_instance orc z : in64 z = true ->
  bind (cu orc (VInt (HF orc) z) TString) (fun w => cu orc w TInteger) = Ok (VInt (HF orc) z) /\
  bind (cu orc (VLong (HF orc) z) TString) (fun w => cu orc w TLong) = Ok (VLong (HF orc) z).
Proof.
  intros Hz. unfold cu.
  match goal with |- bind (convert_unsafe ?HH ?x1 ?x2 ?x3 ?x4 ?x5 ?x6 ?x7 ?x8 ?x9 ?x10 ?x11 ?x12 ?x13 _ _) _ = _ /\ _ =>
    exact (int_string_roundtrip HH x1 x2 x3 x4 x5 x6 x7 x8 x9 x10 x11 x12 x13 parse_format_instance z Hz) end.
Qed.
Theorem bool_float_roundtrip_instance orc b :
  bind (cu orc (VBool (HF orc) b) TFloat) (fun w => cu orc w TBoolean) = Ok (VBool (HF orc) b) /\
  bind (cu orc (VBool (HF orc) b) TDouble) (fun w => cu orc w TBoolean) = Ok (VBool (HF orc) b).
Proof.
  unfold cu.
  match goal with |- bind (convert_unsafe ?HH ?x1 ?x2 ?x3 ?x4 ?x5 ?x6 ?x7 ?x8 ?x9 ?x10 ?x11 ?x12 ?x13 _ _) _ = _ /\ _ =>
    exact (bool_float_roundtrip HH x1 x2 x3 x4 x5 x6 x7 x8 x9 x10 x11 x12 x13 (bool_floats_instance orc) b) end.
Qed.
Print Assumptions int_string_roundtrip_instance.
