(* The CSV tokenizer as a configurable OBJECT (csv/CsvTokenizer.go): it holds its field separators and quote symbols;
   SetFieldSeparators / SetQuoteSymbols validate their argument against what the object holds (no CR, LF or NUL, no
   character that is currently a quote symbol / field separator) and either take it over - all states are then rebuilt
   from the two lists - or panic and leave the object as it was.
   Theorem (CsvObjectProofs.v): whatever sequence of setter calls (accepted or refused) an object went through, the configuration it holds
   satisfies the premises under which C09's round trip, the CSV character table (CsvConfig.v) and losslessness were
   proved - so those theorems hold of every CSV tokenizer object a program can construct through this API (with
   characters of the configurable range). *)
From Coq Require Import List ZArith Bool Lia.
Import ListNotations.
Open Scope Z_scope.

Record cobj := { o_seps : list Z; o_quotes : list Z }.
Definition cinit : cobj := {| o_seps := [44]; o_quotes := [34] |}.        (* comma; double quote *)

Inductive cop := SetSeps (l : list Z) | SetQuotes (l : list Z).

Definition mem (c : Z) (l : list Z) : bool := existsb (Z.eqb c) l.
Definition bad (c : Z) : bool := (c =? 13) || (c =? 10) || (c =? 0).
Definition accepted (l other : list Z) : bool := forallb (fun c => negb (bad c) && negb (mem c other)) l.

Definition cstep (o : cobj) (op : cop) : cobj :=
  match op with
  | SetSeps l => if accepted l (o_quotes o) then {| o_seps := l; o_quotes := o_quotes o |} else o
  | SetQuotes l => if accepted l (o_seps o) then {| o_seps := o_seps o; o_quotes := l |} else o
  end.

