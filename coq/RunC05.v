(* Executable glue for C05: one instance, a history of inputs, any interleaving of HasNextToken / NextToken.
   input  = L [I 0; I tokenizer; cfg; I option-bits; L [step ...]]   step = L [text; L [call ...]]  call 0 = HasNextToken, 1 = NextToken
            (each step: SetReader(text) on the SAME instance, then the calls)
          | L [I 1; L [expression-input ...]]     expressions set one after another on the SAME parser (inputs as for C02)
   output = L [L [obs ...] ...]  per step; obs = L [I 0; I bool] | L [I 1; token] | L [I 1] (nil) | L [I (-999)]
          | L [result ...]  per expression, as for C02
          | L [I 2; L [template-input ...]]      templates set one after another on the SAME template object (inputs as for C10) *)
From Coq Require Import List ZArith Bool.
Import ListNotations.
Require Import Sx Base Cursor Tokenizer Instance Instances TokModel RunTok RunC02 RunC10.
Open Scope Z_scope.

Section Run.
  Variable M : Type.
  Variable produce : M -> cur -> option (rawtok * cur * M).
  Variable decode : Base.str -> Z -> Base.str.
  Variable o : options.
  Variable enter : M -> ttype -> M.
  Variable relast : option token -> ttype -> ttype -> ttype.

  Notation inst := (inst M).
  Fixpoint run_calls (calls : list bool) (i : inst) : list sx * inst :=
    match calls with
    | [] => ([], i)
    | false :: r =>
        match has_next M plcf produce decode o enter relast i with
        | Ok (b, i') => let '(l, i'') := run_calls r i' in (L [I 0; eb b] :: l, i'')
        | _ => ([L [I (-999)]], i)
        end
    | true :: r =>
        match next M plcf produce decode o enter relast i with
        | Ok (t, i') => let '(l, i'') := run_calls r i' in (L (I 1 :: match t with Some t => [enc_token t] | None => [] end) :: l, i'')
        | _ => ([L [I (-999)]], i)
        end
    end.

  Fixpoint run_steps (steps : list sx) (i : inst) : list sx :=
    match steps with
    | [] => []
    | st :: r =>
        let i1 := set_reader M i (gstr (nth_sx 0 st)) in
        let '(obs, i2) := run_calls (map gb (gl (nth_sx 1 st))) i1 in
        L obs :: run_steps r i2
    end.
End Run.

Definition enter_plain (m : unit) (_ : ttype) : unit := m.
Definition relast_plain (_ : option token) (_ l' : ttype) : ttype := l'.
(* MustacheTokenizer.ReadNextToken: "initial state" check; text tokens bypass the loop; Symbol after an Unknown token *)
Definition enter_mustache (m : bool) (l : ttype) : bool := if ttype_eqb l Unknown then true else m.
Definition relast_mustache (t : option token) (old l' : ttype) : ttype :=
  match t with
  | Some t => if ttype_eqb (ty t) Special then old else if ttype_eqb (ty t) Unknown then Symbol else l'
  | None => l'
  end.

Definition fresh (M : Type) (m0 : M) : inst M := {| cached := None; last := Unknown; mode := m0; cursor := {| content := []; p := 0 |} |}.

Definition run_tokenizer_history (k : tkind) (o : options) (steps : list sx) : list sx :=
  match k with
  | TGeneric => run_steps unit (produce lcf plcf generic_cfg) decode_generic o enter_plain relast_plain steps (fresh unit Datatypes.tt)
  | TExpr => run_steps unit (produce lcf plcf expr_cfg) decode_doubled o enter_plain relast_plain steps (fresh unit Datatypes.tt)
  | TCsv seps quotes => run_steps unit (produce lcf plcf (csv_cfg seps quotes)) decode_doubled o enter_plain relast_plain steps (fresh unit Datatypes.tt)
  | TMustache => run_steps bool mustache_produce decode_generic o enter_mustache relast_mustache steps (fresh bool true)
  end.

Definition model_C05 (input : sx) : sx :=
  match gz (nth_sx 0 input) with
  | 0 =>
      let k := match gz (nth_sx 1 input) with
               | 0 => TGeneric | 1 => TExpr
               | 2 => TCsv (gstr (nth_sx 0 (nth_sx 2 input))) (gstr (nth_sx 1 (nth_sx 2 input)))
               | _ => TMustache end in
      L (run_tokenizer_history k (opts_of_bits (gz (nth_sx 3 input))) (gl (nth_sx 4 input)))
  | 1 => L (map model_C02 (gl (nth_sx 1 input)))
  | _ => L (map model_C10 (gl (nth_sx 1 input)))
  end.
