(* Executable glue for the tokenizer properties (C04, C15, C12, C13, C09, C05, tokenizer part of C03).
   input  = L [I tokenizer; I option-bits; text; L [separators; quotes]]
            or, for the CSV tokenizer, L [separators; quotes; L [call ...]] with call = L [I 0; chars] (SetFieldSeparators) |
            L [I 1; chars] (SetQuoteSymbols): the configuration is then what the OBJECT model (CsvObject.v) holds after that
            history of setter calls, refused ones included - the harness makes exactly these calls
            tokenizer 0 generic | 1 expression | 2 csv | 3 mustache
            option bits: 1 skipUnknown 2 skipWhitespaces 4 skipComments 8 skipEof 16 mergeWhitespaces 32 unifyNumbers 64 decodeStrings
   output = L [L [I type; value; I line; I column] ...]   |  L [I (-999)] (a state panicked)  |  L [I (-997)] (out of fuel) *)
From Coq Require Import List ZArith Bool.
Import ListNotations.
Require Import Sx Base Cursor Tokenizer TokModel CsvObject.
Open Scope Z_scope.

Definition opts_of_bits (b : Z) : options :=
  {| skipUnknown := Z.testbit b 0; skipWhitespaces := Z.testbit b 1; skipComments := Z.testbit b 2; skipEof := Z.testbit b 3;
     mergeWhitespaces := Z.testbit b 4; unifyNumbers := Z.testbit b 5; decodeStrings := Z.testbit b 6 |}.

Definition tkind_of (input : sx) : tkind :=
  match gz (nth_sx 0 input) with
  | 0 => TGeneric | 1 => TExpr
  | 2 => match gl (nth_sx 3 input) with
         | [_; _; h] =>
             let o := fold_left cstep (map (fun c => if gz (nth_sx 0 c) =? 0 then SetSeps (gstr (nth_sx 1 c)) else SetQuotes (gstr (nth_sx 1 c))) (gl h)) cinit in
             TCsv (o_seps o) (o_quotes o)
         | _ => TCsv (gstr (nth_sx 0 (nth_sx 3 input))) (gstr (nth_sx 1 (nth_sx 3 input)))
         end
  | _ => TMustache
  end.

Definition enc_token (t : token) : sx := L [I (ttype_code (ty t)); estr (value t); I (line t); I (col t)].

Definition enc_tokens (r : res (list token)) : sx :=
  match r with
  | Ok ts => L (map enc_token ts)
  | Panic => L [I (-999)]
  | Fuel => L [I (-997)]
  end.

Definition model_TOK (input : sx) : sx :=
  enc_tokens (tokenize_with (tkind_of input) (opts_of_bits (gz (nth_sx 1 input))) (gstr (nth_sx 2 input))).
