(* C09 for every CSV tokenizer OBJECT: the round trip, stated for whatever configuration a sequence of setter calls left. *)
From Coq Require Import List ZArith Bool Lia.
Import ListNotations.
Require Import Base CsvConfig Csv CsvRoundtrip CsvObject CsvObjectProofs.
Open Scope Z_scope.

Theorem csv_roundtrip_for_every_object ops eol t :
  Forall in_range ops ->
  let o := fold_left cstep ops cinit in
  eol_ok eol -> table_ok (o_seps o) (o_quotes o) t -> wf_str (write_table eol t) ->
  csv_read (o_seps o) (o_quotes o) (write_table eol t) = Some (table_fields t).
Proof.
  intros Hr o He Ht Hwf. destruct (reachable_configurations_are_valid ops Hr) as (Hs & Hq & Hd).
  exact (csv_roundtrip (o_seps o) (o_quotes o) Hs Hq Hd eol t He Ht Hwf).
Qed.

(* a history with a refused call in it: the quote symbol cannot become a separator, a line break cannot become a quote *)
Example object_history :
  fold_left cstep [SetSeps [59; 44]; SetQuotes [39]; SetSeps [39]; SetQuotes [13]; SetSeps [124]; SetQuotes [44; 34]] cinit
  = {| o_seps := [124]; o_quotes := [44; 34] |}.
Proof. reflexivity. Qed.
