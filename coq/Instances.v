(* Character-table dispatch (AbstractTokenizer.GetCharacterState + the unknown-character fallback) and the
   proof that any well-formed configuration gives a produce function meeting Tokenizer's requirements.
   The four built-in tokenizers are such configurations (tables come from gen/Tables.v in the real build). *)
Require Import Base Cursor Trie TrieProofs States StatesProofs Tokenizer TokenizerProofs.

Inductive skind := KSymbol | KNumber | KExprNumber | KWord | KExprWord | KWs | KQuote | KExprQuote | KCsvQuote
                 | KHashComment | KCComment | KCsvSymbol.

Record config := { table : Z -> option skind; wordchar : Z -> bool; wschar : Z -> bool; symbols : trie; is_keyword : str -> bool }.

Section Dispatch.
  Variable lc : cur -> Z * Z.
  Variable plc : cur -> Z * Z.
  Variable cfg : config.

  Definition sym := symbol_next lc (symbols cfg).

  Definition state_run (k : skind) (s : cur) : option (token * cur) :=
    match k with
    | KSymbol => Some (sym s)
    | KNumber => Some (number_next lc sym s)
    | KExprNumber => Some (expr_number_next lc plc sym s)
    | KWord => Some (word_next lc (wordchar cfg) s)
    | KExprWord => Some (expr_word_next lc plc (wordchar cfg) (is_keyword cfg) s)
    | KWs => Some (ws_next lc (wschar cfg) s)
    | KQuote => Some (gquote_next lc s)
    | KExprQuote => Some (expr_quote_next lc s)
    | KCsvQuote => Some (csv_quote_next lc s)
    | KHashComment => Some (hash_comment_next lc s)
    | KCComment => c_comment_next lc sym s
    | KCsvSymbol => Some (csv_symbol_next lc sym s)
    end.

  Definition is_quote_kind (k : option skind) : bool :=
    match k with Some KQuote | Some KExprQuote | Some KCsvQuote => true | _ => false end.

  (* one iteration of the loop body up to "Check for unknown characters and endless loops" *)
  Definition produce (_ : unit) (c : cur) : option (rawtok * cur * unit) :=
    let ch := peek c in
    let st := table cfg ch in
    let r := match st with Some k => state_run k c | None => Some (mk Unknown [] (0, 0), c) end in
    match r with
    | None => None
    | Some (tok, c') =>
        match value tok with
        | [] => let '(chr, c'') := read c' in
                Some ({| rtok := mk Unknown [chr] (plc c); from_quote := is_quote_kind st; first_char := ch |}, c'', Datatypes.tt)
        | _ => Some ({| rtok := tok; from_quote := is_quote_kind st; first_char := ch |}, c', Datatypes.tt)
        end
    end.

  Definition cfg_ok : Prop :=
    first_valid (symbols cfg) /\ wordchar cfg eof = false /\ wschar cfg eof = false /\
    (forall ch, table cfg ch = Some KCComment -> ch = 47).

  Hypothesis Hlc : forall s, (p s < clen s)%nat -> lc (snd (read s)) = plc s.
  Hypothesis Hcfg : cfg_ok.

  Definition types_ok : Prop := forall path, node_type (symbols cfg) path <> Eof.
  Hypothesis Htypes : types_ok.

  Ltac break_lets :=
    repeat match goal with
           | |- context [let '(_, _) := ?x in _] => destruct x
           | |- context [if ?b then _ else _] => destruct b
           | |- context [match ?x with Some _ => _ | None => _ end] => destruct x
           end.

  Lemma sym_type s : ty (fst (sym s)) <> Eof.
  Proof. unfold sym, symbol_next. break_lets; cbn [fst mk ty]; try apply Htypes; discriminate. Qed.

  Lemma class_type cls t s : ty (fst (class_next lc cls t s)) = t.
  Proof. unfold class_next. break_lets; reflexivity. Qed.

  Lemma number_type s : ty (fst (number_next lc sym s)) <> Eof.
  Proof. unfold number_next. break_lets; cbn [fst mk ty]; try apply sym_type; discriminate. Qed.

  (* token types the states can produce: never Eof *)
  Lemma state_types k s r : state_run k s = Some r -> ty (fst r) <> Eof.
  Proof.
    destruct k; cbn [state_run]; intros H;
      try (match type of H with Some _ = Some _ => inversion H; subst; clear H end).
    - apply sym_type.
    - apply number_type.
    - unfold expr_number_next. pose proof (number_type s) as Hn. pose proof (sym_type s) as Hs. break_lets; cbn [fst mk ty] in *; auto; discriminate.
    - unfold word_next. rewrite class_type. discriminate.
    - unfold expr_word_next, word_next. pose proof (class_type (wordchar cfg) Word s) as Hc. break_lets; cbn [fst mk ty] in *; [discriminate|rewrite Hc; discriminate].
    - unfold ws_next. rewrite class_type. discriminate.
    - unfold gquote_next. break_lets; discriminate.
    - unfold expr_quote_next, dquote_next. break_lets; discriminate.
    - unfold csv_quote_next, dquote_next. break_lets; discriminate.
    - unfold hash_comment_next. rewrite class_type. discriminate.
    - unfold c_comment_next in H. pose proof sym_type as Hs.
      destruct (read s) as [c1 s1]. destruct (negb (c1 =? 47)); [discriminate|]. destruct (read s1) as [c2 s2].
      destruct (c2 =? 42).
      + destruct (read s2) as [c3 s3]. destruct (ml_loop _ _ _ _ _). inversion H; subst. discriminate.
      + inversion H; subst. apply Hs.
    - unfold csv_symbol_next. pose proof sym_type as Hs. break_lets; cbn [fst mk ty]; [discriminate|apply Hs].
  Qed.

  Lemma sym_spec : slice_spec plc sym.
  Proof. apply symbol_slice; [exact Hlc|apply Hcfg]. Qed.

  (* a state either returns a non-empty slice at the peeked position, or declines without moving *)
  Lemma state_run_spec k s : wf_str (content s) -> (p s < clen s)%nat -> table cfg (peek s) = Some k ->
    exists r, state_run k s = Some r /\ content (snd r) = content s /\ (p (snd r) <= S (clen s))%nat /\
      (((p s < p (snd r))%nat /\ value (fst r) = slice (content s) (p s) (npos (snd r)) /\ pos_of (fst r) = plc s)
       \/ (value (fst r) = [] /\ npos (snd r) = npos s)).
  Proof.
    intros Hwf Hlt Htab. destruct Hcfg as (Hfv & Hwc & Hws & Hcc).
    assert (Hfull: forall next, slice_spec plc next -> exists r, Some (next s) = Some r /\ content (snd r) = content s /\ (p (snd r) <= S (clen s))%nat /\
              (((p s < p (snd r))%nat /\ value (fst r) = slice (content s) (p s) (npos (snd r)) /\ pos_of (fst r) = plc s) \/ (value (fst r) = [] /\ npos (snd r) = npos s))).
    { intros next Hn. destruct (Hn s Hwf Hlt) as (H1 & H2 & H3 & H4). eexists. split; [reflexivity|]. split; [exact H1|]. split; [lia|]. left. repeat split; auto; lia. }
    assert (Hstay: forall next, slice_or_stay plc next -> exists r, Some (next s) = Some r /\ content (snd r) = content s /\ (p (snd r) <= S (clen s))%nat /\
              (((p s < p (snd r))%nat /\ value (fst r) = slice (content s) (p s) (npos (snd r)) /\ pos_of (fst r) = plc s) \/ (value (fst r) = [] /\ npos (snd r) = npos s))).
    { intros next Hn. destruct (Hn s Hwf ltac:(lia)) as (H1 & H2 & [(H3 & H4 & H5 & H6)|H3]); eexists; (split; [reflexivity|]); (split; [exact H1|]); (split; [exact H2|]); [left|right]; auto. }
    destruct k; cbn [state_run].
    - apply Hfull, sym_spec.
    - apply Hfull, (number_spec lc plc Hlc), sym_spec.
    - apply Hfull, (expr_number_spec lc plc Hlc), sym_spec.
    - apply Hstay, (class_next_spec lc plc Hlc); exact Hwc.
    - apply Hstay, (expr_word_spec lc plc Hlc); exact Hwc.
    - apply Hstay, (class_next_spec lc plc Hlc); exact Hws.
    - apply Hfull, (gquote_spec lc plc Hlc).
    - apply Hfull, (dquote_spec lc plc Hlc).
    - apply Hfull, (dquote_spec lc plc Hlc).
    - apply Hstay, (class_next_spec lc plc Hlc). reflexivity.
    - destruct (c_comment_spec lc plc Hlc sym sym_spec s Hwf Hlt (Hcc _ Htab)) as (r & Hr & H1 & H2 & H3 & H4).
      exists r. split; [exact Hr|]. split; [exact H1|]. split; [lia|]. left. repeat split; auto; lia.
    - apply Hfull, (csv_symbol_spec lc plc Hlc), sym_spec.
  Qed.

  Theorem produce_meets_spec : produce_ok unit plc produce.
  Proof.
    intros m c Hwf Hend. unfold at_end in Hend. apply Nat.leb_gt in Hend.
    assert (Hlt: (p c < clen c)%nat) by lia.
    unfold produce.
    (* the unknown-character fallback reads exactly one character *)
    assert (Hfb: forall c', content c' = content c -> p c' = p c ->
              exists r c'' , (let '(chr, c2) := read c' in Some ({| rtok := mk Unknown [chr] (plc c); from_quote := is_quote_kind (table cfg (peek c)); first_char := peek c |}, c2, Datatypes.tt)) = Some (r, c'', Datatypes.tt) /\
                content c'' = content c /\ (p c < p c'' <= S (clen c))%nat /\ value (rtok r) = slice (content c) (p c) (npos c'') /\
                (line (rtok r), col (rtok r)) = plc c /\ ty (rtok r) <> Eof).
    { intros c' Hc Hp. rewrite (read_step c') by (unfold clen; rewrite Hc, Hp; exact Hlt).
      eexists. eexists. split; [reflexivity|]. cbn [content p rtok mk value ty line col]. unfold npos, clen in *. cbn [content p]. rewrite Hc, Hp.
      split; [reflexivity|]. split; [lia|]. split.
      - rewrite Nat.min_l by lia. rewrite <- (slice_snoc _ (p c) (p c)) by lia. rewrite slice_nil. reflexivity.
      - split; [destruct (plc c); reflexivity|discriminate]. }
    destruct (table cfg (peek c)) as [k|] eqn:Et.
    - destruct (state_run_spec k c Hwf Hlt Et) as (r & Hr & Hc & Hp & Hcase). rewrite Hr. destruct r as [tok c']. cbn [fst snd] in *.
      destruct (value tok) as [|v0 vs] eqn:Ev.
      + (* empty token: the cursor did not move *)
        assert (Hsame: p c' = p c).
        { destruct Hcase as [(H1 & H2 & _)|[_ H2]].
          - exfalso. apply (f_equal (@length Z)) in H2. simpl in H2. rewrite slice_length in H2; unfold npos, clen in *; rewrite Hc in *; destruct (Nat.le_gt_cases (p c') (length (content c))); rewrite ?Nat.min_l in * by lia; rewrite ?Nat.min_r in * by lia; lia.
          - unfold npos, clen in *. rewrite Hc in *. rewrite (Nat.min_l (p c)) in H2 by lia. destruct (Nat.le_gt_cases (p c') (length (content c))); [rewrite Nat.min_l in H2 by lia; exact H2|rewrite Nat.min_r in H2 by lia; lia]. }
        destruct (Hfb c' Hc Hsame) as (r & c'' & H1 & H2). exists r, c'', Datatypes.tt. split; [exact H1|exact H2].
      + destruct Hcase as [(H1 & H2 & H3)|[H2 _]]; [|congruence].
        eexists. eexists. exists Datatypes.tt. split; [reflexivity|]. cbn [rtok]. split; [exact Hc|]. split; [lia|]. split; [rewrite Ev; exact H2|].
        split; [exact H3|]. apply (state_types k c (tok, c') Hr).
    - cbn [value mk]. destruct (Hfb c eq_refl eq_refl) as (r & c'' & H1 & H2). exists r, c'', Datatypes.tt. split; [exact H1|exact H2].
  Qed.
End Dispatch.

(* C04, C15 and termination for every well-formed character-table configuration *)
Section Configs.
  Variable lc plc : cur -> Z * Z.
  Variable decode : str -> Z -> str.
  Hypothesis Hlc : forall s, (p s < clen s)%nat -> lc (snd (read s)) = plc s.
  Variable cfg : config.
  Hypothesis Hcfg : cfg_ok cfg.
  Hypothesis Htypes : types_ok cfg.

  Definition tokenize_cfg (o : options) (s : str) := tokenize_buffer unit plc (produce lc plc cfg) decode o Datatypes.tt s.

  Theorem cfg_lossless s : wf_str s ->
    exists body e, tokenize_cfg no_options s = Ok (body ++ [e]) /\ concat (map value (body ++ [e])) = s /\
                   ty e = Eof /\ value e = [] /\ Forall (fun t => value t <> []) body.
  Proof. apply lossless. apply produce_meets_spec; auto. Qed.

  Theorem cfg_options_are_post o s : wf_str s ->
    exists rs cend, raw unit (produce lc plc cfg) (S (length s)) Datatypes.tt {| content := s; p := 0 |} = Some (rs, cend) /\
                    tokenize_cfg o s = Ok (post decode o Unknown rs (plc cend)).
  Proof. apply options_are_post. apply produce_meets_spec; auto. Qed.

  Theorem cfg_total o s : wf_str s -> exists ts, tokenize_cfg o s = Ok ts.
  Proof. apply tokenize_total. apply produce_meets_spec; auto. Qed.
End Configs.

Print Assumptions cfg_lossless.
Print Assumptions cfg_options_are_post.
