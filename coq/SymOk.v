(* The symbolic instance used by the C01 correspondence satisfies the premise of the C01 theorems, so
   calc_is_tree applies to it: what the harness compares with the implementation IS the value of the tree. *)
From Coq Require Import List ZArith Bool Lia.
Import ListNotations.
Require Import Sx Tables ExprParser ExprSound ExprComplete ExprTotal ExprEval RunC02 RunC01.
Open Scope Z_scope.

Lemma s_as_nat_int k : s_as_nat (s_int k) = Some k.
Proof.
  unfold s_as_nat, s_int, enat. rewrite Z.eqb_refl. cbn [andb].
  destruct (Z.leb_spec 0 (Z.of_nat k)); [|lia]. rewrite Nat2Z.id. reflexivity.
Qed.

Theorem symbolic_run_is_tree_value toks env ts e : D0 ts e ->
  calculate sx (s_const toks) (s_var toks env) s_bin s_un (s_call toks) s_int s_as_nat ts
  = Ok (eval sx (s_const toks) (s_var toks env) s_bin s_un (s_call toks) e).
Proof. apply calc_is_tree. exact s_as_nat_int. Qed.
