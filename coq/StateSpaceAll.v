(* The whole state space at once: used by the properties about purity and history independence (C05, C19, C03). *)
From Coq Require Import List ZArith String.
Import ListNotations.
Require Import StateSpaceGen StateSpace.

(* the library has exactly the struct types, fields and package-level variables the models account for *)
Lemma structs_accounted : go_structs = enc_structs.
Proof. vm_compute. reflexivity. Qed.
Lemma package_vars_accounted : go_package_vars = enc_vars.
Proof. vm_compute. reflexivity. Qed.
