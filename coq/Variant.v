(* Model of variants/Variant.go values, variants/AbstractVariantOperations.go (21 operators, after repairs
   F16-F19) and the two conversion managers (after F20-F22). Floating point is behind the record hf. *)
From Coq Require Import List ZArith Bool Lia.
Import ListNotations.
Open Scope Z_scope.

Definition str := list Z.

(* ---------- host integers: Go int and int64 on amd64 ---------- *)
Definition two63 : Z := 9223372036854775808.
Definition two64 : Z := 18446744073709551616.
Definition wrap64 (z : Z) : Z := ((z + two63) mod two64) - two63.
Definition in64 (z : Z) : bool := (- two63 <=? z) && (z <? two63).

Inductive outcome (A : Type) := Ok (a : A) | Err (code : str) | Panic.
Arguments Ok {A}. Arguments Err {A}. Arguments Panic {A}.
Definition bind {A B} (r : outcome A) (f : A -> outcome B) : outcome B :=
  match r with Ok a => f a | Err c => Err c | Panic => Panic end.

(* partial host primitives: exactly where Go panics *)
Definition go_quot (a b : Z) : outcome Z := if b =? 0 then Panic else Ok (wrap64 (Z.quot a b)).
Definition go_rem (a b : Z) : outcome Z := if b =? 0 then Panic else Ok (Z.rem a b).
Definition go_shl (a n : Z) : outcome Z := if n <? 0 then Panic else Ok (if 64 <=? n then 0 else wrap64 (a * 2 ^ n)).
Definition go_shr (a n : Z) : outcome Z := if n <? 0 then Panic else Ok (if 64 <=? n then (if a <? 0 then -1 else 0) else a / 2 ^ n).
(* bitwise operators on two's complement: Z.land etc. already agree with Go on signed 64-bit values *)

(* ---------- host floats ---------- *)
Record hf := {
  F32 : Type; F64 : Type;
  add32 : F32 -> F32 -> F32; sub32 : F32 -> F32 -> F32; mul32 : F32 -> F32 -> F32; div32 : F32 -> F32 -> F32; neg32 : F32 -> F32;
  eq32 : F32 -> F32 -> bool; lt32 : F32 -> F32 -> bool; le32 : F32 -> F32 -> bool;
  add64 : F64 -> F64 -> F64; sub64 : F64 -> F64 -> F64; mul64 : F64 -> F64 -> F64; div64 : F64 -> F64 -> F64; neg64 : F64 -> F64;
  eq64 : F64 -> F64 -> bool; lt64 : F64 -> F64 -> bool; le64 : F64 -> F64 -> bool;
  of_int32 : Z -> F32; of_int64 : Z -> F64; trunc32 : F32 -> Z; trunc64 : F64 -> Z;       (* int(math.Trunc(x)), in range *)
  widen : F32 -> F64; narrow : F64 -> F32; zero32 : F32; zero64 : F64; one32 : F32; one64 : F64;
  pow64 : F64 -> F64 -> F64                                                                (* math.Pow, an oracle *)
}.

Section Variants.
  Variable H : hf.
  (* string conversions of the commons-gox converters: exact for integers, oracles for the rest *)
  Variable int_to_string : Z -> str.           (* strconv.FormatInt(v, 10) *)
  Variable string_to_int : str -> option Z.    (* strconv.ParseInt(s, 10, 64), None on error *)
  Variable string_to_int_fallback : str -> Z.  (* LongConverter.ToLong through ParseFloat *)
  Variable f32_to_string : F32 H -> str.  Variable f64_to_string : F64 H -> str.
  Variable string_to_f32 : str -> F32 H.  Variable string_to_f64 : str -> F64 H.
  Variable string_to_bool : str -> bool.  Variable string_to_time : str -> Z.  Variable string_to_span : str -> Z.
  Variable time_to_string : Z -> str.  Variable obj_to_string : Z -> str.

  Inductive vtype := TNull | TInteger | TLong | TFloat | TDouble | TString | TBoolean | TDateTime | TTimeSpan | TObject | TArray.
  Definition vtype_eqb (a b : vtype) : bool :=
    match a, b with TNull, TNull | TInteger, TInteger | TLong, TLong | TFloat, TFloat | TDouble, TDouble | TString, TString
                  | TBoolean, TBoolean | TDateTime, TDateTime | TTimeSpan, TTimeSpan | TObject, TObject | TArray, TArray => true | _, _ => false end.

  Inductive value :=
  | VNull | VInt (z : Z) | VLong (z : Z) | VFloat (f : F32 H) | VDouble (f : F64 H) | VString (s : str) | VBool (b : bool)
  | VDateTime (unix_ns : Z) | VTimeSpan (ns : Z) | VObject (id : Z) | VArray (l : list value).

  Definition type_of (v : value) : vtype :=
    match v with VNull => TNull | VInt _ => TInteger | VLong _ => TLong | VFloat _ => TFloat | VDouble _ => TDouble | VString _ => TString
               | VBool _ => TBoolean | VDateTime _ => TDateTime | VTimeSpan _ => TTimeSpan | VObject _ => TObject | VArray _ => TArray end.

  Variable arr_to_string : list value -> str.   (* elements' String() joined by commas: an oracle *)

  Definition conv_err : str := [67; 79; 78; 86].   (* CONV_NOT_SUPPORTED, abbreviated *)
  Definition op_err : str := [79; 80].             (* OP_NOT_SUPPORTED *)
  Definition div_err : str := [68; 73; 86].        (* DIV_BY_ZERO *)
  Definition shift_err : str := [83; 72].          (* SHIFT_OUT_OF_RANGE *)
  Definition index_err : str := [73; 68; 88].      (* INDEX_OUT_OF_RANGE *)

  Definition ms : Z := 1000000.      (* time.Millisecond in ns *)
  Definition sec : Z := 1000000000.

  Definition to_string (v : value) : str :=
    match v with
    | VNull => [] | VInt z | VLong z => int_to_string z | VFloat f => f32_to_string f | VDouble f => f64_to_string f
    | VString s => s | VBool b => if b then [116; 114; 117; 101] else [102; 97; 108; 115; 101]
    | VDateTime t => time_to_string t | VTimeSpan d => int_to_string (Z.quot d ms) | VObject o => obj_to_string o
    | VArray l => arr_to_string l
    end.

  Definition parse_int (s : str) : Z := match string_to_int s with Some z => z | None => string_to_int_fallback s end.

  (* TypeUnsafeVariantOperations.Convert *)
  Definition convert_unsafe (v : value) (t : vtype) : outcome value :=
    if vtype_eqb t TNull then Ok VNull
    else if vtype_eqb t (type_of v) || vtype_eqb t TObject then Ok v
    else if vtype_eqb t TString then Ok (VString (to_string v))
    else match v, t with
    | VNull, TInteger => Ok (VInt 0) | VNull, TLong => Ok (VLong 0) | VNull, TFloat => Ok (VFloat (zero32 H)) | VNull, TDouble => Ok (VDouble (zero64 H))
    | VNull, TBoolean => Ok (VBool false) | VNull, TDateTime => Ok (VDateTime (-62135596800 * sec)) | VNull, TTimeSpan => Ok (VTimeSpan 0)
    | VNull, TArray => Ok (VArray [])
    | VInt z, TLong => Ok (VLong z) | VInt z, TFloat => Ok (VFloat (of_int32 H z)) | VInt z, TDouble => Ok (VDouble (of_int64 H z))
    | VInt z, TDateTime => Ok (VDateTime (z * sec)) | VInt z, TTimeSpan => Ok (VTimeSpan (wrap64 (z * ms))) | VInt z, TBoolean => Ok (VBool (negb (z =? 0)))
    | VLong z, TInteger => Ok (VInt z) | VLong z, TFloat => Ok (VFloat (of_int32 H z)) | VLong z, TDouble => Ok (VDouble (of_int64 H z))
    | VLong z, TDateTime => Ok (VDateTime (z * sec)) | VLong z, TTimeSpan => Ok (VTimeSpan (wrap64 (z * ms))) | VLong z, TBoolean => Ok (VBool (negb (z =? 0)))
    | VFloat f, TInteger => Ok (VInt (trunc32 H f)) | VFloat f, TLong => Ok (VLong (trunc32 H f)) | VFloat f, TDouble => Ok (VDouble (widen H f))
    | VFloat f, TBoolean => Ok (VBool (negb (eq32 H f (zero32 H))))
    | VDouble f, TInteger => Ok (VInt (trunc64 H f)) | VDouble f, TLong => Ok (VLong (trunc64 H f)) | VDouble f, TFloat => Ok (VFloat (narrow H f))
    | VDouble f, TBoolean => Ok (VBool (negb (eq64 H f (zero64 H))))
    | VDateTime t, TInteger => Ok (VInt (t / sec)) | VDateTime t, TLong => Ok (VLong (t / sec))
    | VTimeSpan d, TInteger => Ok (VInt (Z.quot d ms)) | VTimeSpan d, TLong => Ok (VLong (Z.quot d ms))
    | VString s, TInteger => Ok (VInt (parse_int s)) | VString s, TLong => Ok (VLong (parse_int s))
    | VString s, TFloat => Ok (VFloat (string_to_f32 s)) | VString s, TDouble => Ok (VDouble (string_to_f64 s))
    | VString s, TDateTime => Ok (VDateTime (string_to_time s)) | VString s, TTimeSpan => Ok (VTimeSpan (string_to_span s))
    | VString s, TBoolean => Ok (VBool (string_to_bool s))
    | VBool b, TInteger => Ok (VInt (if b then 1 else 0)) | VBool b, TLong => Ok (VLong (if b then 1 else 0))
    | VBool b, TFloat => Ok (VFloat (if b then one32 H else zero32 H)) | VBool b, TDouble => Ok (VDouble (if b then one64 H else zero64 H))
    | _, _ => Err conv_err
    end.

  (* TypeSafeVariantOperations.Convert (F21: no pass-through for Object sources) *)
  Definition convert_safe (v : value) (t : vtype) : outcome value :=
    if vtype_eqb t TNull then Ok VNull
    else if vtype_eqb t (type_of v) || vtype_eqb t TObject then Ok v
    else match v, t with
    | VInt z, TLong => Ok (VLong z) | VInt z, TFloat => Ok (VFloat (of_int32 H z)) | VInt z, TDouble => Ok (VDouble (of_int64 H z))
    | VLong z, TFloat => Ok (VFloat (of_int32 H z)) | VLong z, TDouble => Ok (VDouble (of_int64 H z))
    | VFloat f, TDouble => Ok (VDouble (widen H f))
    | _, _ => Err conv_err
    end.

  Section Ops.
    Variable convert : value -> vtype -> outcome value.     (* the manager in use *)

    Definition is_null (v : value) := match v with VNull => true | _ => false end.

    (* "Null short-circuit, convert the second operand to the first operand's type, switch on that type" *)
    Definition arith (a b : value) (f : value -> value -> outcome value) : outcome value :=
      if is_null a || is_null b then Ok VNull
      else bind (convert b (type_of a)) (fun b' => f a b').

    Fixpoint str_ltb (a b : str) : bool :=
      match a, b with [], [] => false | [], _ :: _ => true | _ :: _, [] => false
                    | x :: a', y :: b' => (x <? y) || ((x =? y) && str_ltb a' b') end.
    Fixpoint str_eqb (a b : str) : bool :=
      match a, b with [], [] => true | x :: a', y :: b' => (x =? y) && str_eqb a' b' | _, _ => false end.

    Definition add := fun a b => arith a b (fun a b => match a, b with
      | VInt x, VInt y => Ok (VInt (wrap64 (x + y))) | VLong x, VLong y => Ok (VLong (wrap64 (x + y)))
      | VFloat x, VFloat y => Ok (VFloat (add32 H x y)) | VDouble x, VDouble y => Ok (VDouble (add64 H x y))
      | VTimeSpan x, VTimeSpan y => Ok (VTimeSpan (wrap64 (x + y))) | VString x, VString y => Ok (VString (x ++ y))
      | VInt _, _ | VLong _, _ | VFloat _, _ | VDouble _, _ | VTimeSpan _, _ | VString _, _ => Panic   (* failed type assertion *)
      | _, _ => Err op_err end).
    Definition sub := fun a b => arith a b (fun a b => match a, b with
      | VInt x, VInt y => Ok (VInt (wrap64 (x - y))) | VLong x, VLong y => Ok (VLong (wrap64 (x - y)))
      | VFloat x, VFloat y => Ok (VFloat (sub32 H x y)) | VDouble x, VDouble y => Ok (VDouble (sub64 H x y))
      | VTimeSpan x, VTimeSpan y => Ok (VTimeSpan (wrap64 (x - y)))
      | VDateTime x, VDateTime y => Ok (VTimeSpan (Z.max (- two63) (Z.min (two63 - 1) (x - y))))       (* time.Sub saturates *)
      | VInt _, _ | VLong _, _ | VFloat _, _ | VDouble _, _ | VTimeSpan _, _ | VDateTime _, _ => Panic
      | _, _ => Err op_err end).
    Definition mul := fun a b => arith a b (fun a b => match a, b with
      | VInt x, VInt y => Ok (VInt (wrap64 (x * y))) | VLong x, VLong y => Ok (VLong (wrap64 (x * y)))
      | VFloat x, VFloat y => Ok (VFloat (mul32 H x y)) | VDouble x, VDouble y => Ok (VDouble (mul64 H x y))
      | VInt _, _ | VLong _, _ | VFloat _, _ | VDouble _, _ => Panic
      | _, _ => Err op_err end).
    Definition div := fun a b => arith a b (fun a b => match a, b with
      | VInt x, VInt y => if y =? 0 then Err div_err else bind (go_quot x y) (fun z => Ok (VInt z))
      | VLong x, VLong y => if y =? 0 then Err div_err else bind (go_quot x y) (fun z => Ok (VLong z))
      | VFloat x, VFloat y => Ok (VFloat (div32 H x y)) | VDouble x, VDouble y => Ok (VDouble (div64 H x y))
      | VInt _, _ | VLong _, _ | VFloat _, _ | VDouble _, _ => Panic
      | _, _ => Err op_err end).
    Definition modulo := fun a b => arith a b (fun a b => match a, b with
      | VInt x, VInt y => if y =? 0 then Err div_err else bind (go_rem x y) (fun z => Ok (VInt z))
      | VLong x, VLong y => if y =? 0 then Err div_err else bind (go_rem x y) (fun z => Ok (VLong z))
      | VInt _, _ | VLong _, _ => Panic
      | _, _ => Err op_err end).

    Definition as_double (v : value) : outcome (F64 H) := match v with VDouble f => Ok f | _ => Panic end.
    Definition pow (a b : value) : outcome value :=
      if is_null a || is_null b then Ok VNull
      else match type_of a with
           | TInteger | TLong | TFloat | TDouble =>
               bind (convert a TDouble) (fun a' => bind (convert b TDouble) (fun b' =>
               bind (as_double a') (fun x => bind (as_double b') (fun y => Ok (VDouble (pow64 H x y))))))
           | _ => Err op_err end.

    Definition logic (fi : Z -> Z -> Z) (fb : bool -> bool -> bool) := fun a b => arith a b (fun a b => match a, b with
      | VInt x, VInt y => Ok (VInt (fi x y)) | VLong x, VLong y => Ok (VLong (fi x y)) | VBool x, VBool y => Ok (VBool (fb x y))
      | VInt _, _ | VLong _, _ | VBool _, _ => Panic
      | _, _ => Err op_err end).
    Definition and_ := logic Z.land andb.
    Definition or_ := logic Z.lor orb.
    Definition xor_ := logic Z.lxor xorb.

    Definition as_int (v : value) : outcome Z := match v with VInt z => Ok z | _ => Panic end.
    Definition shift (f : Z -> Z -> outcome Z) (a b : value) : outcome value :=
      if is_null a || is_null b then Ok VNull
      else bind (convert b TInteger) (fun b' => bind (as_int b') (fun n =>
           if n <? 0 then Err shift_err
           else match a with
                | VInt x => bind (f x n) (fun z => Ok (VInt z)) | VLong x => bind (f x n) (fun z => Ok (VLong z))
                | _ => Err op_err end)).
    Definition lsh := shift go_shl.
    Definition rsh := shift go_shr.

    Definition not_ (a : value) : outcome value :=
      match a with VNull => Ok (VBool true) | VInt x => Ok (VInt (Z.lnot x)) | VLong x => Ok (VLong (Z.lnot x)) | VBool b => Ok (VBool (negb b)) | _ => Err op_err end.
    Definition negative (a : value) : outcome value :=
      match a with VNull => Ok VNull | VInt x => Ok (VInt (wrap64 (- x))) | VLong x => Ok (VLong (wrap64 (- x)))
                 | VFloat f => Ok (VFloat (neg32 H f)) | VDouble f => Ok (VDouble (neg64 H f)) | _ => Err op_err end.

    (* comparisons: eq / lt / le on equal types after conversion; gt and ge are the mirrored host operators *)
    Definition compare_with (ci : Z -> Z -> bool) (c32 : F32 H -> F32 H -> bool) (c64 : F64 H -> F64 H -> bool)
                            (cs : str -> str -> bool) (cb : option (bool -> bool -> bool)) (cobj : option (Z -> option Z -> bool)) :=
      fun a b => match a, b with
      | VInt x, VInt y | VLong x, VLong y | VTimeSpan x, VTimeSpan y | VDateTime x, VDateTime y => Ok (VBool (ci x y))
      | VFloat x, VFloat y => Ok (VBool (c32 x y)) | VDouble x, VDouble y => Ok (VBool (c64 x y))
      | VString x, VString y => Ok (VBool (cs x y))
      | VBool x, VBool y => match cb with Some f => Ok (VBool (f x y)) | None => Err op_err end
      | VObject x, y => match cobj with Some f => Ok (VBool (f x (match y with VObject o => Some o | _ => None end))) | None => Err op_err end
      | VInt _, _ | VLong _, _ | VTimeSpan _, _ | VDateTime _, _ | VFloat _, _ | VDouble _, _ | VString _, _ | VBool _, _ => Panic
      | _, _ => Err op_err end.

    Definition equal (a b : value) : outcome value :=
      if is_null a && is_null b then Ok (VBool true) else if is_null a || is_null b then Ok (VBool false)
      else bind (convert b (type_of a)) (compare_with Z.eqb (eq32 H) (eq64 H) str_eqb (Some Bool.eqb) (Some (fun x y => match y with Some y => x =? y | None => false end)) a).
    Definition not_equal (a b : value) : outcome value :=
      if is_null a && is_null b then Ok (VBool false) else if is_null a || is_null b then Ok (VBool true)
      else bind (convert b (type_of a)) (compare_with (fun x y => negb (x =? y)) (fun x y => negb (eq32 H x y)) (fun x y => negb (eq64 H x y))
                                                      (fun x y => negb (str_eqb x y)) (Some (fun x y => negb (Bool.eqb x y))) (Some (fun x y => match y with Some y => negb (x =? y) | None => true end)) a).
    Definition less := fun a b => arith a b (compare_with Z.ltb (lt32 H) (lt64 H) str_ltb None None).
    Definition more := fun a b => arith a b (compare_with Z.gtb (fun x y => lt32 H y x) (fun x y => lt64 H y x) (fun x y => str_ltb y x) None None).
    Definition less_equal := fun a b => arith a b (compare_with Z.leb (le32 H) (le64 H) (fun x y => negb (str_ltb y x)) None None).
    Definition more_equal := fun a b => arith a b (compare_with Z.geb (fun x y => le32 H y x) (fun x y => le64 H y x) (fun x y => negb (str_ltb x y)) None None).

    (* In(container, element); GetElement(container, index) *)
    Fixpoint in_list (v : value) (l : list value) : outcome value :=
      match l with [] => Ok (VBool false)
      | e :: r => bind (equal v e) (fun q => match q with VBool true => Ok (VBool true) | _ => in_list v r end) end.
    Definition in_ (a b : value) : outcome value :=
      if is_null a || is_null b then Ok VNull
      else match a with VArray l => in_list b l | _ => equal a b end.
    Definition get_element (a b : value) : outcome value :=
      if is_null a || is_null b then Ok VNull
      else bind (convert b TInteger) (fun b' => bind (as_int b') (fun i =>
           match a with
           | VArray l => if (i <? 0) || (Z.of_nat (length l) <=? i) then Err index_err else match nth_error l (Z.to_nat i) with Some e => Ok e | None => Panic end
           | VString s => if (i <? 0) || (Z.of_nat (length s) <=? i) then Err index_err else match nth_error s (Z.to_nat i) with Some c => Ok (VString [c]) | None => Panic end
           | _ => Err op_err end)).
  End Ops.
End Variants.
