(* C20: the heap layer (VariantHeap.v) refines the value model (VariantValue.v).
   Discipline (DESIGN.md 4.3, the same the harness generator keeps): register and list indices are in range; a
   register that shares its list with another one through Assign is not grown or written by index until it is given a
   new value; a register is never given an array as a host value. *)
From Coq Require Import List ZArith Bool Lia.
Import ListNotations.
Require Import VariantValue VariantHeap.

Definition erase (o : hop) : op :=
  match o with
  | HNew i v _ => ONew i v | HFromList i k _ => OFromList i k | HCopy i j _ => OCopy i j
  | HSetByIndex i idx v => OSetByIndex i idx v | HSetLength i n => OSetLength i n
  | HListWrite k idx v => OListWrite k idx v | HListAppend k v => OListAppend k v | HListTruncate k => OListTruncate k
  | HSetElem i idx v => OSetElem i idx v
  end.

Definition is_arr (v : val) : bool := match v with Arr _ => true | _ => false end.
Definition lk_set (lk : nat -> bool) (i : nat) (b : bool) : nat -> bool := fun x => if Nat.eqb x i then b else lk x.

Definition lk_next (lk : nat -> bool) (o : hop) : nat -> bool :=
  match o with
  | HNew i _ _ | HFromList i _ _ => lk_set lk i false
  | HCopy i j fl => if Nat.eqb fl 2 then (if Nat.eqb i j then lk else lk_set (lk_set lk i true) j true) else lk_set lk i false
  | _ => lk
  end.
Definition allowed (nr nl : nat) (lk : nat -> bool) (o : hop) : bool :=
  match o with
  | HNew i v _ => Nat.ltb i nr && negb (is_arr v)
  | HFromList i k _ => Nat.ltb i nr && Nat.ltb k nl
  | HCopy i j _ => Nat.ltb i nr && Nat.ltb j nr
  | HSetByIndex i _ _ | HSetLength i _ | HSetElem i _ _ => Nat.ltb i nr && negb (lk i)
  | HListWrite k _ _ | HListAppend k _ | HListTruncate k => Nat.ltb k nl
  end.
Fixpoint disc (nr nl : nat) (lk : nat -> bool) (ops : list hop) : bool :=
  match ops with [] => true | o :: r => allowed nr nl lk o && disc nr nl (lk_next lk o) r end.

(* ---------- lists of values ---------- *)
Lemma replace_nth_length l i x : length (replace_nth l i x) = length l.
Proof. revert i. induction l as [|y l IH]; intros [|i]; cbn; auto. Qed.

Lemma firstn_replace_nth_ge l i x n : (n <= i)%nat -> firstn n (replace_nth l i x) = firstn n l.
Proof.
  revert i n. induction l as [|y l IH]; intros [|i] [|n] H; cbn; try reflexivity; try lia. f_equal. apply IH. lia.
Qed.

Lemma firstn_replace_nth_lt l i x n : (i < n)%nat -> firstn n (replace_nth l i x) = replace_nth (firstn n l) i x.
Proof.
  revert i n. induction l as [|y l IH]; intros [|i] [|n] H; cbn; try reflexivity; try lia. f_equal. apply IH. lia.
Qed.

Lemma replace_nth_app_last l e x : replace_nth (l ++ e :: x) (length l) e = l ++ e :: x.
Proof. induction l as [|y l IH]; cbn; [reflexivity|]. f_equal. exact IH. Qed.

Lemma replace_at_end l junk e rest : length l = length l -> replace_nth (l ++ junk :: rest) (length l) e = l ++ e :: rest.
Proof. intros _. induction l as [|y l IH]; cbn; [reflexivity|]. f_equal. exact IH. Qed.

Lemma firstn_app_exact {A} (l r : list A) : firstn (length l) (l ++ r) = l.
Proof. rewrite firstn_app, Nat.sub_diag, firstn_all. cbn. apply app_nil_r. Qed.

Lemma firstn_succ_nth (l : list val) n d : (n < length l)%nat -> firstn (S n) l = firstn n l ++ [nth n l d].
Proof.
  revert n. induction l as [|y l IH]; intros [|n] H; cbn in *; try lia; [reflexivity|]. f_equal. apply IH. lia.
Qed.

(* set_nth and grow of the value model, in terms of padding and replacing *)
Lemma grow_spec l n : grow l n = l ++ repeat Null (n - length l).
Proof.
  revert l. induction n as [|n IH]; intros l; [destruct l; cbn; rewrite ?app_nil_r; reflexivity|].
  destruct l as [|y l]; cbn [grow length Nat.sub].
  - rewrite (IH []). cbn. rewrite Nat.sub_0_r. reflexivity.
  - rewrite IH. reflexivity.
Qed.

Lemma set_nth_spec' l i x : set_nth l i x = replace_nth (l ++ repeat Null (S i - length l)) i x.
Proof.
  revert l. induction i as [|i IH]; intros l.
  - destruct l as [|y l]; [reflexivity|]. cbn [set_nth length]. replace (1 - S (length l))%nat with 0%nat by lia. cbn. rewrite app_nil_r. reflexivity.
  - destruct l as [|y l]; cbn [set_nth length].
    + rewrite (IH []). cbn [length app]. replace (S (S i) - 0)%nat with (S (S i - 0)) by lia. cbn [repeat replace_nth]. reflexivity.
    + rewrite IH. replace (S (S i) - S (length l))%nat with (S i - length l)%nat by lia. reflexivity.
Qed.

(* ---------- frame facts ---------- *)
Lemma updf_same {A} (f : nat -> A) k x : updf f k x k = x.
Proof. unfold updf. rewrite Nat.eqb_refl. reflexivity. Qed.
Lemma updf_other {A} (f : nat -> A) k x i : i <> k -> updf f k x i = f i.
Proof. intros H. unfold updf. destruct (Nat.eqb_spec i k); [contradiction|reflexivity]. Qed.

Lemma obj_frame h h' a : cell h' a = cell h a ->
  (forall b n, cell h a = HArr b n -> firstn n (back h' b) = firstn n (back h b)) -> obj_val h' a = obj_val h a.
Proof.
  intros Hc Hb. unfold obj_val, slice_val. rewrite Hc. destruct (cell h a) as [v|b n] eqn:E; [reflexivity|]. rewrite (Hb b n eq_refl). reflexivity.
Qed.

Section Refine.
  Variable slack : nat -> nat.
  Notation hstep := (hstep slack).
  Notation happend := (happend slack).
  Notation pad := (pad slack).

  (* ---------- append and the padding loop ---------- *)
  Lemma happend_spec h b n e h' b' n' : (b < nb h)%nat -> (n <= length (back h b))%nat -> happend h b n e = (h', (b', n')) ->
    n' = S n /\ firstn n' (back h' b') = firstn n (back h b) ++ [e] /\ (b' < nb h')%nat /\ (n' <= length (back h' b'))%nat /\
    cell h' = cell h /\ nc h' = nc h /\ (nb h <= nb h')%nat /\
    (forall b2, (b2 < nb h)%nat -> b2 <> b -> back h' b2 = back h b2) /\
    firstn n (back h' b) = firstn n (back h b) /\ (b' = b \/ b' = nb h).
  Proof.
    intros Hb Hn. unfold VariantHeap.happend. destruct (Nat.ltb_spec n (length (back h b))) as [Hlt|Hge].
    - intros E. inversion E; subst h' b' n'. cbn [cell back nc nb set_back].
      split; [reflexivity|]. rewrite updf_same. split.
      + rewrite (firstn_succ_nth _ n Null) by (rewrite replace_nth_length; exact Hlt).
        rewrite firstn_replace_nth_ge by lia. f_equal. f_equal.
        clear - Hlt. revert n Hlt. induction (back h b) as [|y l IH]; intros [|n] H; cbn in *; try lia; [reflexivity|]. apply IH. lia.
      + split; [exact Hb|]. split; [rewrite replace_nth_length; lia|]. split; [reflexivity|]. split; [reflexivity|]. split; [lia|].
        split; [intros b2 _ H2; apply updf_other; exact H2|]. split; [apply firstn_replace_nth_ge; lia|left; reflexivity].
    - intros E. inversion E; subst h' b' n'. cbn [cell back nc nb alloc_back].
      split; [reflexivity|]. rewrite updf_same.
      assert (Hlen: length (firstn n (back h b)) = n) by (rewrite firstn_length; lia).
      split.
      + rewrite <- Hlen at 1. change (firstn n (back h b) ++ e :: repeat Null (slack n)) with (firstn n (back h b) ++ [e] ++ repeat Null (slack n)).
        rewrite app_assoc. replace (S (length (firstn n (back h b)))) with (length (firstn n (back h b) ++ [e])) by (rewrite app_length; cbn; lia).
        apply firstn_app_exact.
      + split; [lia|]. split; [rewrite app_length; cbn [length]; rewrite Hlen; lia|]. split; [reflexivity|]. split; [reflexivity|]. split; [lia|].
        split; [intros b2 H2 _; apply updf_other; lia|]. split; [rewrite updf_other by lia; reflexivity|right; reflexivity].
  Qed.

  Lemma pad_spec : forall fuel h b n upto h' b' n', (b < nb h)%nat -> (n <= length (back h b))%nat -> (upto - n <= fuel)%nat ->
    pad fuel h b n upto = (h', (b', n')) ->
    n' = Nat.max n upto /\ firstn n' (back h' b') = firstn n (back h b) ++ repeat Null (upto - n) /\ (b' < nb h')%nat /\ (n' <= length (back h' b'))%nat /\
    cell h' = cell h /\ nc h' = nc h /\ (nb h <= nb h')%nat /\
    (forall b2, (b2 < nb h)%nat -> b2 <> b -> back h' b2 = back h b2) /\
    firstn n (back h' b) = firstn n (back h b) /\ (b' = b \/ (nb h <= b')%nat).
  Proof.
    induction fuel as [|fuel IH]; intros h b n upto h' b' n' Hb Hn Hf E; cbn [VariantHeap.pad] in E.
    - inversion E; subst h' b' n'. replace (upto - n)%nat with 0%nat by lia. cbn [repeat]. rewrite app_nil_r.
      repeat split; auto; try lia.
    - destruct (Nat.ltb_spec n upto) as [Hlt|Hge].
      + destruct (happend h b n Null) as [h2 [b2 n2]] eqn:Ea.
        destruct (happend_spec h b n Null h2 b2 n2 Hb Hn Ea) as (A1 & A2 & A3 & A4 & A5 & A6 & A7 & A8 & A9 & A10). subst n2.
        destruct (IH h2 b2 (S n) upto h' b' n' A3 A4 ltac:(lia) E) as (B1 & B2 & B3 & B4 & B5 & B6 & B7 & B8 & B9 & B10).
        split; [lia|]. split.
        { rewrite B2, A2. rewrite <- app_assoc. f_equal. replace (upto - n)%nat with (S (upto - S n)) by lia. reflexivity. }
        split; [exact B3|]. split; [exact B4|]. split; [congruence|]. split; [congruence|]. split; [lia|].
        split.
        { intros b3 H3 H3'. destruct A10 as [-> | ->].
          - rewrite B8 by (try lia; exact H3'). apply A8; assumption.
          - rewrite B8 by lia. apply A8; assumption. }
        split.
        { destruct A10 as [E2|E2].
          - subst b2. transitivity (firstn n (firstn (S n) (back h' b))).
            + rewrite firstn_firstn. f_equal. lia.
            + rewrite B9. rewrite firstn_firstn. replace (Nat.min n (S n)) with n by lia. exact A9.
          - subst b2. rewrite B8 by lia. exact A9. }
        destruct A10 as [-> | ->]; destruct B10 as [-> | B10]; auto; right; lia.
      + inversion E; subst h' b' n'. replace (upto - n)%nat with 0%nat by lia. cbn [repeat]. rewrite app_nil_r.
        repeat split; auto; try lia.
  Qed.

  Lemma hcopy_spec h b n h' b' n' : hcopy h b n = (h', (b', n')) ->
    n' = n /\ b' = nb h /\ back h' b' = firstn n (back h b) /\ cell h' = cell h /\ nc h' = nc h /\ nb h' = S (nb h) /\
    (forall b2, (b2 < nb h)%nat -> back h' b2 = back h b2).
  Proof.
    unfold hcopy. cbn. intros E. inversion E; subst. cbn. rewrite updf_same. repeat split; auto.
    intros b2 H2. apply updf_other. lia.
  Qed.

  (* ---------- invariant and abstraction ---------- *)
  Record inv (m : hmach) (lk : nat -> bool) : Prop := mk_inv {
    i_fresh : forall i, (i < length (hregs m))%nat -> (hreg m i < nc (hp m))%nat;
    i_nodup : forall i j, (i < length (hregs m))%nat -> (j < length (hregs m))%nat -> hreg m i = hreg m j -> i = j;
    i_scalar : forall i x, (i < length (hregs m))%nat -> cell (hp m) (hreg m i) = HVal x -> is_arr x = false;
    i_arr : forall i b n, (i < length (hregs m))%nat -> cell (hp m) (hreg m i) = HArr b n -> (b < nb (hp m))%nat /\ (n <= length (back (hp m) b))%nat;
    i_lst : forall k, (k < length (hlists m))%nat -> (fst (hlst m k) < nb (hp m))%nat /\ (snd (hlst m k) <= length (back (hp m) (fst (hlst m k))))%nat;
    i_rl : forall i k b n, (i < length (hregs m))%nat -> (k < length (hlists m))%nat -> cell (hp m) (hreg m i) = HArr b n -> b <> fst (hlst m k);
    i_rr : forall i j b n n', (i < length (hregs m))%nat -> (j < length (hregs m))%nat -> i <> j ->
           cell (hp m) (hreg m i) = HArr b n -> cell (hp m) (hreg m j) = HArr b n' -> lk i = true /\ lk j = true;
    i_ll : forall k k', (k < length (hlists m))%nat -> (k' < length (hlists m))%nat -> k <> k' -> fst (hlst m k) <> fst (hlst m k')
  }.
  Definition rel (m : hmach) (v : mach) : Prop :=
    length (hregs m) = length (regs v) /\ length (hlists m) = length (lists v) /\
    (forall i, (i < length (hregs m))%nat -> obj_val (hp m) (hreg m i) = reg v i) /\
    (forall k, (k < length (hlists m))%nat -> slice_val (hp m) (fst (hlst m k)) (snd (hlst m k)) = lst v k).

  Lemma upd_length {A} (l : list A) i x : length (upd l i x) = length l.
  Proof. revert i. induction l as [|y l IH]; intros [|i]; cbn; auto. Qed.
  Lemma nth_upd_same {A} (l : list A) i x d : (i < length l)%nat -> nth i (upd l i x) d = x.
  Proof. revert i. induction l as [|y l IH]; intros [|i] H; cbn in *; try lia; auto. apply IH. lia. Qed.
  Lemma nth_upd_other {A} (l : list A) i j x d : i <> j -> nth j (upd l i x) d = nth j l d.
  Proof. revert i j. induction l as [|y l IH]; intros [|i] [|j] H; cbn; auto; try lia. Qed.
  Lemma upd_same {A} (l : list A) i d : upd l i (nth i l d) = l.
  Proof. revert i. induction l as [|y l IH]; intros [|i]; cbn; auto. f_equal. apply IH. Qed.

  (* register i is given an object (its own, updated in place, or a fresh one) that owns its list *)
  Lemma reg_assign m lk lk' v i a' hf c' X :
    inv m lk -> rel m v -> (i < length (hregs m))%nat ->
    (a' = hreg m i \/ (nc (hp m) <= a')%nat) -> (a' < nc hf)%nat -> (nc (hp m) <= nc hf)%nat -> (nb (hp m) <= nb hf)%nat ->
    cell hf a' = c' ->
    (forall a, (a < nc (hp m))%nat -> a <> a' -> cell hf a = cell (hp m) a) ->
    (forall b2, (b2 < nb (hp m))%nat -> ~ (exists n, cell (hp m) (hreg m i) = HArr b2 n /\ lk i = false) -> back hf b2 = back (hp m) b2) ->
    match c' with
    | HVal x => X = x /\ is_arr x = false
    | HArr b' n' => (b' < nb hf)%nat /\ (n' <= length (back hf b'))%nat /\ X = Arr (firstn n' (back hf b')) /\
                    ((exists n, cell (hp m) (hreg m i) = HArr b' n /\ lk i = false) \/ (nb (hp m) <= b')%nat)
    end ->
    (forall x, x <> i -> lk' x = lk x) ->
    let m' := {| hp := hf; hregs := upd (hregs m) i a'; hlists := hlists m |} in
    inv m' lk' /\ rel m' (set_reg v i X).
  Proof.
    intros Hinv Hrel Hi Ha Hlt Hnc Hnb Hc Hco Hbk Hval Hlk m'.
    destruct Hrel as (Rl1 & Rl2 & Rr & Rls).
    assert (Hlen: length (hregs m') = length (hregs m)) by (cbn; apply upd_length).
    assert (Hri: hreg m' i = a') by (unfold hreg; cbn; apply nth_upd_same; exact Hi).
    assert (Hrj: forall j, j <> i -> hreg m' j = hreg m j) by (intros j Hj; unfold hreg; cbn; apply nth_upd_other; congruence).
    (* other registers keep their cell *)
    assert (Hcj: forall j, (j < length (hregs m))%nat -> j <> i -> cell hf (hreg m j) = cell (hp m) (hreg m j)).
    { intros j Hj Hji. apply Hco; [exact (i_fresh m lk Hinv j Hj)|].
      destruct Ha as [-> | Ha]; [intros E; apply Hji; exact (i_nodup m lk Hinv j i Hj Hi E)|pose proof (i_fresh m lk Hinv j Hj); lia]. }
    (* ... and their backing arrays *)
    assert (Hbj: forall j b n, (j < length (hregs m))%nat -> j <> i -> cell (hp m) (hreg m j) = HArr b n -> back hf b = back (hp m) b).
    { intros j b n Hj Hji E. apply Hbk; [exact (proj1 (i_arr m lk Hinv j b n Hj E))|].
      intros (n0 & E0 & Hl0). destruct (i_rr m lk Hinv i j b n0 n Hi Hj ltac:(congruence) E0 E) as [H1 _]. congruence. }
    assert (Hbl: forall k, (k < length (hlists m))%nat -> back hf (fst (hlst m k)) = back (hp m) (fst (hlst m k))).
    { intros k Hk. apply Hbk; [exact (proj1 (i_lst m lk Hinv k Hk))|]. intros (n0 & E0 & _). exact (i_rl m lk Hinv i k _ n0 Hi Hk E0 eq_refl). }
    split.
    - constructor; cbn [hp hregs hlists m']; fold (hreg m'); fold (hlst m'); rewrite ?upd_length.
      + intros j Hj. destruct (Nat.eq_dec j i) as [->|Hji]; [rewrite Hri; exact Hlt|]. rewrite (Hrj j Hji). pose proof (i_fresh m lk Hinv j Hj). lia.
      + intros j j2 Hj Hj2 E. destruct (Nat.eq_dec j i) as [->|Hji]; destruct (Nat.eq_dec j2 i) as [->|Hj2i]; auto.
        * rewrite Hri, (Hrj j2 Hj2i) in E. destruct Ha as [-> | Ha]; [symmetry; exact (i_nodup m lk Hinv j2 i Hj2 Hi (eq_sym E))|pose proof (i_fresh m lk Hinv j2 Hj2); lia].
        * rewrite Hri, (Hrj j Hji) in E. destruct Ha as [-> | Ha]; [exact (i_nodup m lk Hinv j i Hj Hi E)|pose proof (i_fresh m lk Hinv j Hj); lia].
        * rewrite (Hrj j Hji), (Hrj j2 Hj2i) in E. exact (i_nodup m lk Hinv j j2 Hj Hj2 E).
      + intros j x Hj E. destruct (Nat.eq_dec j i) as [->|Hji].
        * rewrite Hri, Hc in E. rewrite E in Hval. exact (proj2 Hval).
        * rewrite (Hrj j Hji), (Hcj j Hj Hji) in E. exact (i_scalar m lk Hinv j x Hj E).
      + intros j b n Hj E. destruct (Nat.eq_dec j i) as [->|Hji].
        * rewrite Hri, Hc in E. rewrite E in Hval. destruct Hval as (H1 & H2 & _). auto.
        * rewrite (Hrj j Hji), (Hcj j Hj Hji) in E. destruct (i_arr m lk Hinv j b n Hj E) as [H1 H2]. rewrite (Hbj j b n Hj Hji E). split; lia.
      + intros k Hk. change (hlst m' k) with (hlst m k). destruct (i_lst m lk Hinv k Hk) as [H1 H2]. rewrite (Hbl k Hk). split; lia.
      + intros j k b n Hj Hk E. change (hlst m' k) with (hlst m k). destruct (Nat.eq_dec j i) as [->|Hji].
        * rewrite Hri, Hc in E. rewrite E in Hval. destruct Hval as (_ & _ & _ & [(n0 & E0 & _)|Hf]).
          -- exact (i_rl m lk Hinv i k b n0 Hi Hk E0).
          -- pose proof (proj1 (i_lst m lk Hinv k Hk)). lia.
        * rewrite (Hrj j Hji), (Hcj j Hj Hji) in E. exact (i_rl m lk Hinv j k b n Hj Hk E).
      + intros j j2 b n n2 Hj Hj2 Hne E E2.
        destruct (Nat.eq_dec j i) as [->|Hji]; destruct (Nat.eq_dec j2 i) as [->|Hj2i]; try congruence.
        * exfalso. rewrite Hri, Hc in E. rewrite E in Hval. rewrite (Hrj j2 Hj2i), (Hcj j2 Hj2 Hj2i) in E2.
          destruct Hval as (_ & _ & _ & [(n0 & E0 & Hl0)|Hf]).
          -- destruct (i_rr m lk Hinv i j2 b n0 n2 Hi Hj2 ltac:(congruence) E0 E2) as [H1 _]. congruence.
          -- pose proof (proj1 (i_arr m lk Hinv j2 b n2 Hj2 E2)). lia.
        * exfalso. rewrite Hri, Hc in E2. rewrite E2 in Hval. rewrite (Hrj j Hji), (Hcj j Hj Hji) in E.
          destruct Hval as (_ & _ & _ & [(n0 & E0 & Hl0)|Hf]).
          -- destruct (i_rr m lk Hinv i j b n0 n Hi Hj ltac:(congruence) E0 E) as [H1 _]. congruence.
          -- pose proof (proj1 (i_arr m lk Hinv j b n Hj E)). lia.
        * rewrite (Hrj j Hji), (Hcj j Hj Hji) in E. rewrite (Hrj j2 Hj2i), (Hcj j2 Hj2 Hj2i) in E2.
          rewrite (Hlk j Hji), (Hlk j2 Hj2i). exact (i_rr m lk Hinv j j2 b n n2 Hj Hj2 Hne E E2).
      + intros k k2 Hk Hk2 Hne. exact (i_ll m lk Hinv k k2 Hk Hk2 Hne).
    - unfold rel. cbn [hp hregs hlists m' regs lists set_reg]. rewrite !upd_length. split; [exact Rl1|]. split; [exact Rl2|]. split.
      + intros j Hj. fold (hreg m'). unfold reg. cbn [regs set_reg]. destruct (Nat.eq_dec j i) as [->|Hji].
        * rewrite Hri. rewrite nth_upd_same by lia. unfold obj_val, slice_val. rewrite Hc. destruct c' as [x|b' n']; [exact (eq_sym (proj1 Hval))|].
          destruct Hval as (_ & _ & -> & _). reflexivity.
        * rewrite (Hrj j Hji). rewrite nth_upd_other by congruence. change (nth j (regs v) Null) with (reg v j). rewrite <- (Rr j Hj). apply obj_frame; [exact (Hcj j Hj Hji)|].
          intros b n E. rewrite (Hbj j b n Hj Hji E). reflexivity.
      + intros k Hk. change (hlst m' k) with (hlst m k). change (lst (set_reg v i X) k) with (lst v k). rewrite <- (Rls k Hk). unfold slice_val. rewrite (Hbl k Hk). reflexivity.
  Qed.

  (* v[i].Assign(v[j]): register i's object takes j's type and payload - for an array, the very same slice *)
  Lemma assign_step m lk lk' v i j :
    inv m lk -> rel m v -> (i < length (hregs m))%nat -> (j < length (hregs m))%nat ->
    (forall x, x <> i -> x <> j -> lk' x = lk x) -> (i <> j -> lk' i = true /\ lk' j = true) -> (i = j -> lk' i = lk i) ->
    let m' := with_heap m (set_cell (hp m) (hreg m i) (cell (hp m) (hreg m j))) in
    inv m' lk' /\ rel m' (set_reg v i (reg v j)).
  Proof.
    intros Hinv Hrel Hi Hj Hlk1 Hlk2 Hlk3 m'. destruct Hrel as (Rl1 & Rl2 & Rr & Rls).
    set (sg := fun x => if Nat.eqb x i then j else x).
    assert (Hsl: forall x, (x < length (hregs m))%nat -> (sg x < length (hregs m))%nat) by (intros x Hx; unfold sg; destruct (Nat.eqb x i); assumption).
    assert (Hc: forall x, (x < length (hregs m))%nat -> cell (hp m') (hreg m x) = cell (hp m) (hreg m (sg x))).
    { intros x Hx. cbn. unfold updf, sg. destruct (Nat.eqb_spec x i) as [->|Hxi]; [rewrite Nat.eqb_refl; reflexivity|].
      destruct (Nat.eqb_spec (hreg m x) (hreg m i)) as [E|E]; [exfalso; apply Hxi; exact (i_nodup m lk Hinv x i Hx Hi E)|reflexivity]. }
    assert (Hlkt: forall x y, (x < length (hregs m))%nat -> (y < length (hregs m))%nat -> x <> y ->
               (sg x = sg y \/ (lk (sg x) = true /\ lk (sg y) = true)) -> lk' x = true /\ lk' y = true).
    { intros x y Hx Hy Hxy H. unfold sg in H.
      destruct (Nat.eqb_spec x i) as [->|Hxi]; destruct (Nat.eqb_spec y i) as [->|Hyi]; try congruence.
      - destruct (Nat.eq_dec y j) as [->|Hyj]; [apply Hlk2; congruence|]. destruct H as [H|[H1 H2]]; [congruence|].
        destruct (Nat.eq_dec i j) as [Eij|Nij]; [subst j; rewrite Hlk3, (Hlk1 y) by congruence; auto|].
        rewrite (Hlk1 y) by congruence. split; [apply Hlk2; exact Nij|exact H2].
      - destruct (Nat.eq_dec x j) as [->|Hxj]; [split; apply Hlk2; congruence|]. destruct H as [H|[H1 H2]]; [congruence|].
        destruct (Nat.eq_dec i j) as [Eij|Nij]; [subst j; rewrite Hlk3, (Hlk1 x) by congruence; auto|].
        rewrite (Hlk1 x) by congruence. split; [exact H1|apply Hlk2; exact Nij].
      - destruct H as [H|[H1 H2]]; [congruence|].
        assert (Hq: forall z, z <> i -> lk z = true -> lk' z = true).
        { intros z Hzi Hz. destruct (Nat.eq_dec z j) as [->|Hzj]; [apply Hlk2; congruence|]. rewrite Hlk1 by assumption. exact Hz. }
        split; apply Hq; assumption. }
    split.
    - constructor; change (hregs m') with (hregs m); change (hlists m') with (hlists m); change (hreg m') with (hreg m); change (hlst m') with (hlst m);
        change (nc (hp m')) with (nc (hp m)); change (nb (hp m')) with (nb (hp m)); change (back (hp m')) with (back (hp m)).
      + exact (i_fresh m lk Hinv).
      + exact (i_nodup m lk Hinv).
      + intros x y Hx E. rewrite (Hc x Hx) in E. exact (i_scalar m lk Hinv (sg x) y (Hsl x Hx) E).
      + intros x b n Hx E. rewrite (Hc x Hx) in E. exact (i_arr m lk Hinv (sg x) b n (Hsl x Hx) E).
      + exact (i_lst m lk Hinv).
      + intros x k b n Hx Hk E. rewrite (Hc x Hx) in E. exact (i_rl m lk Hinv (sg x) k b n (Hsl x Hx) Hk E).
      + intros x y b n n2 Hx Hy Hxy E E2. rewrite (Hc x Hx) in E. rewrite (Hc y Hy) in E2. apply (Hlkt x y Hx Hy Hxy).
        destruct (Nat.eq_dec (sg x) (sg y)) as [Es|Ns]; [left; exact Es|right]. exact (i_rr m lk Hinv (sg x) (sg y) b n n2 (Hsl x Hx) (Hsl y Hy) Ns E E2).
      + exact (i_ll m lk Hinv).
    - unfold rel. change (hregs m') with (hregs m); change (hlists m') with (hlists m). cbn [regs lists set_reg]. rewrite upd_length.
      split; [exact Rl1|]. split; [exact Rl2|]. split.
      + intros x Hx. change (hreg m') with (hreg m).
        assert (E: obj_val (hp m') (hreg m x) = obj_val (hp m) (hreg m (sg x))).
        { unfold obj_val. rewrite (Hc x Hx). reflexivity. }
        rewrite E, (Rr (sg x) (Hsl x Hx)). unfold reg, sg. cbn [regs set_reg].
        destruct (Nat.eqb_spec x i) as [->|Hxi]; [rewrite nth_upd_same by lia; reflexivity|rewrite nth_upd_other by congruence; reflexivity].
      + intros k Hk. exact (Rls k Hk).
  Qed.

  (* caller list k is replaced by a slice of its own (possibly rewritten) backing array or of a fresh one *)
  Lemma lst_assign m lk v k hf b' n' L :
    inv m lk -> rel m v -> (k < length (hlists m))%nat ->
    cell hf = cell (hp m) -> nc hf = nc (hp m) -> (nb (hp m) <= nb hf)%nat ->
    (forall b2, (b2 < nb (hp m))%nat -> b2 <> fst (hlst m k) -> back hf b2 = back (hp m) b2) ->
    (b' < nb hf)%nat -> (n' <= length (back hf b'))%nat -> firstn n' (back hf b') = L ->
    (b' = fst (hlst m k) \/ (nb (hp m) <= b')%nat) ->
    let m' := {| hp := hf; hregs := hregs m; hlists := upd (hlists m) k (b', n') |} in
    inv m' lk /\ rel m' (set_lst v k L).
  Proof.
    intros Hinv Hrel Hk Hc Hnc Hnb Hbk Hb' Hn' HL Hown m'. destruct Hrel as (Rl1 & Rl2 & Rr & Rls).
    assert (Hlk: hlst m' k = (b', n')) by (unfold hlst; cbn; apply nth_upd_same; exact Hk).
    assert (Hlo: forall k2, k2 <> k -> hlst m' k2 = hlst m k2) by (intros k2 H2; unfold hlst; cbn; apply nth_upd_other; congruence).
    assert (Hbr: forall x b n, (x < length (hregs m))%nat -> cell (hp m) (hreg m x) = HArr b n -> back hf b = back (hp m) b).
    { intros x b n Hx E. apply Hbk; [exact (proj1 (i_arr m lk Hinv x b n Hx E))|exact (i_rl m lk Hinv x k b n Hx Hk E)]. }
    assert (Hbo: forall k2, (k2 < length (hlists m))%nat -> k2 <> k -> back hf (fst (hlst m k2)) = back (hp m) (fst (hlst m k2))).
    { intros k2 H2 Hne. apply Hbk; [exact (proj1 (i_lst m lk Hinv k2 H2))|exact (i_ll m lk Hinv k2 k H2 Hk Hne)]. }
    split.
    - constructor; change (hregs m') with (hregs m); change (hreg m') with (hreg m); cbn [hp hlists m']; fold (hlst m'); rewrite ?upd_length; rewrite ?Hc, ?Hnc.
      + exact (i_fresh m lk Hinv).
      + exact (i_nodup m lk Hinv).
      + exact (i_scalar m lk Hinv).
      + intros x b n Hx E. destruct (i_arr m lk Hinv x b n Hx E) as [H1 H2]. rewrite (Hbr x b n Hx E). split; lia.
      + intros k2 H2. destruct (Nat.eq_dec k2 k) as [->|Hne]; [rewrite Hlk; cbn; auto|]. rewrite (Hlo k2 Hne), (Hbo k2 H2 Hne).
        destruct (i_lst m lk Hinv k2 H2). split; lia.
      + intros x k2 b n Hx H2 E. destruct (Nat.eq_dec k2 k) as [->|Hne]; [|rewrite (Hlo k2 Hne); exact (i_rl m lk Hinv x k2 b n Hx H2 E)].
        rewrite Hlk. cbn [fst]. destruct Hown as [-> | Hf]; [exact (i_rl m lk Hinv x k b n Hx Hk E)|pose proof (proj1 (i_arr m lk Hinv x b n Hx E)); lia].
      + exact (i_rr m lk Hinv).
      + intros k1 k2 H1 H2 Hne. destruct (Nat.eq_dec k1 k) as [->|N1]; destruct (Nat.eq_dec k2 k) as [->|N2]; try congruence.
        * rewrite Hlk, (Hlo k2 N2). cbn [fst]. destruct Hown as [-> | Hf]; [exact (i_ll m lk Hinv k k2 Hk H2 Hne)|pose proof (proj1 (i_lst m lk Hinv k2 H2)); lia].
        * rewrite Hlk, (Hlo k1 N1). cbn [fst]. destruct Hown as [-> | Hf]; [exact (i_ll m lk Hinv k1 k H1 Hk Hne)|pose proof (proj1 (i_lst m lk Hinv k1 H1)); lia].
        * rewrite (Hlo k1 N1), (Hlo k2 N2). exact (i_ll m lk Hinv k1 k2 H1 H2 Hne).
    - unfold rel. change (hregs m') with (hregs m); change (hreg m') with (hreg m). cbn [hp hlists m' regs lists set_lst]. fold (hlst m'). rewrite !upd_length.
      split; [exact Rl1|]. split; [exact Rl2|]. split.
      + intros x Hx. change (reg (set_lst v k L) x) with (reg v x). rewrite <- (Rr x Hx). apply obj_frame; [rewrite Hc; reflexivity|].
        intros b n E. rewrite (Hbr x b n Hx E). reflexivity.
      + intros k2 H2. unfold lst. cbn [lists set_lst]. destruct (Nat.eq_dec k2 k) as [->|Hne].
        * rewrite Hlk, nth_upd_same by lia. exact HL.
        * rewrite (Hlo k2 Hne), nth_upd_other by congruence. change (nth k2 (lists v) []) with (lst v k2). rewrite <- (Rls k2 H2). unfold slice_val. rewrite (Hbo k2 H2 Hne). reflexivity.
  Qed.

  Lemma replace_nth_upd l i x : replace_nth l i x = upd l i x.
  Proof. revert i. induction l as [|y l IH]; intros [|i]; cbn; try reflexivity. f_equal. apply IH. Qed.

  (* the two ways an API gives register i its new content: written into its object, or a new object *)
  Lemma reg_put m lk lk' v i h1 c' X (inplace : bool) :
    inv m lk -> rel m v -> (i < length (hregs m))%nat ->
    cell h1 = cell (hp m) -> nc h1 = nc (hp m) -> (nb (hp m) <= nb h1)%nat ->
    (forall b2, (b2 < nb (hp m))%nat -> ~ (exists n, cell (hp m) (hreg m i) = HArr b2 n /\ lk i = false) -> back h1 b2 = back (hp m) b2) ->
    match c' with
    | HVal x => X = x /\ is_arr x = false
    | HArr b' n' => (b' < nb h1)%nat /\ (n' <= length (back h1 b'))%nat /\ X = Arr (firstn n' (back h1 b')) /\
                    ((exists n, cell (hp m) (hreg m i) = HArr b' n /\ lk i = false) \/ (nb (hp m) <= b')%nat)
    end ->
    (forall x, x <> i -> lk' x = lk x) ->
    let m' := if inplace then with_heap m (set_cell h1 (hreg m i) c') else let '(a, h2) := alloc_cell h1 c' in set_hreg m i a h2 in
    inv m' lk' /\ rel m' (set_reg v i X).
  Proof.
    intros Hinv Hrel Hi Hc Hnc Hnb Hbk Hval Hlk. destruct inplace; cbn zeta.
    - replace (with_heap m (set_cell h1 (hreg m i) c')) with {| hp := set_cell h1 (hreg m i) c'; hregs := upd (hregs m) i (hreg m i); hlists := hlists m |}
        by (unfold with_heap, hreg; rewrite upd_same; reflexivity).
      apply (reg_assign m lk lk' v i (hreg m i) (set_cell h1 (hreg m i) c') c' X Hinv Hrel Hi); cbn [set_cell cell back nc nb]; auto; try lia.
      + rewrite Hnc. exact (i_fresh m lk Hinv i Hi).
      + apply updf_same.
      + intros a _ Ha. rewrite updf_other by exact Ha. rewrite Hc. reflexivity.
    - cbn [alloc_cell]. unfold set_hreg.
      apply (reg_assign m lk lk' v i (nc h1) _ c' X Hinv Hrel Hi); cbn [cell back nc nb]; auto; try lia.
      + apply updf_same.
      + intros a Ha Hne. rewrite updf_other by exact Hne. rewrite Hc. reflexivity.
  Qed.

  Lemma scalar_not_arr m lk v i x : inv m lk -> rel m v -> (i < length (hregs m))%nat -> cell (hp m) (hreg m i) = HVal x -> reg v i = x /\ is_arr x = false.
  Proof.
    intros Hinv (_ & _ & Rr & _) Hi E. split; [|exact (i_scalar m lk Hinv i x Hi E)]. rewrite <- (Rr i Hi). unfold obj_val. rewrite E. reflexivity.
  Qed.
  Lemma array_reg m lk v i b n : inv m lk -> rel m v -> (i < length (hregs m))%nat -> cell (hp m) (hreg m i) = HArr b n ->
    reg v i = Arr (firstn n (back (hp m) b)) /\ length (firstn n (back (hp m) b)) = n /\ (b < nb (hp m))%nat /\ (n <= length (back (hp m) b))%nat.
  Proof.
    intros Hinv (_ & _ & Rr & _) Hi E. destruct (i_arr m lk Hinv i b n Hi E) as [H1 H2]. split; [|split; [rewrite firstn_length; lia|auto]].
    rewrite <- (Rr i Hi). unfold obj_val, slice_val. rewrite E. reflexivity.
  Qed.

  (* ---------- one step ---------- *)
  Theorem hstep_refines m lk v o :
    inv m lk -> rel m v -> allowed (length (hregs m)) (length (hlists m)) lk o = true ->
    inv (hstep m o) (lk_next lk o) /\ rel (hstep m o) (step v (erase o)).
  Proof.
    intros Hinv Hrel Hal. pose proof Hrel as (Rl1 & Rl2 & Rr & Rls).
    assert (Hset: forall i x, x <> i -> lk_set lk i false x = lk x) by (intros i x Hx; unfold lk_set; destruct (Nat.eqb_spec x i); [contradiction|reflexivity]).
    destruct o as [i x inplace|i k inplace|i j fl|i idx x|i n0|k idx x|k x|k|i idx x]; cbn [allowed] in Hal; cbn [erase step lk_next]; unfold VariantHeap.hstep.
    - (* HNew *)
      apply andb_prop in Hal. destruct Hal as [Hi Hx]. apply Nat.ltb_lt in Hi. apply negb_true_iff in Hx.
      pose proof (reg_put m lk (lk_set lk i false) v i (hp m) (HVal x) x inplace Hinv Hrel Hi eq_refl eq_refl (le_n _) (fun _ _ _ => eq_refl) (conj eq_refl Hx) (Hset i)) as H.
      destruct inplace; exact H.
    - (* HFromList *)
      apply andb_prop in Hal. destruct Hal as [Hi Hk]. apply Nat.ltb_lt in Hi. apply Nat.ltb_lt in Hk.
      destruct (hlst m k) as [lb ll] eqn:El. destruct (hcopy (hp m) lb ll) as [h1 [b n]] eqn:Ec.
      destruct (hcopy_spec _ _ _ _ _ _ Ec) as (C1 & C2 & C3 & C4 & C5 & C6 & C7). subst n.
      pose proof (i_lst m lk Hinv k Hk) as [L1 L2]. rewrite El in L1, L2. cbn [fst snd] in L1, L2.
      assert (Hv: lst v k = firstn ll (back (hp m) lb)) by (rewrite <- (Rls k Hk), El; reflexivity).
      assert (Hval: (b < nb h1)%nat /\ (ll <= length (back h1 b))%nat /\ Arr (lst v k) = Arr (firstn ll (back h1 b)) /\
                    ((exists n, cell (hp m) (hreg m i) = HArr b n /\ lk i = false) \/ (nb (hp m) <= b)%nat)).
      { rewrite C3. split; [lia|]. split; [rewrite firstn_length; lia|]. split; [|right; lia].
        rewrite firstn_firstn, Nat.min_id. f_equal. exact Hv. }
      pose proof (reg_put m lk (lk_set lk i false) v i h1 (HArr b ll) (Arr (lst v k)) inplace Hinv Hrel Hi C4 C5 ltac:(lia) (fun b2 H2 _ => C7 b2 H2) Hval (Hset i)) as H.
      destruct inplace; exact H.
    - (* HCopy *)
      apply andb_prop in Hal. destruct Hal as [Hi Hj]. apply Nat.ltb_lt in Hi. apply Nat.ltb_lt in Hj.
      assert (Hcl: forall inplace : bool,
        let m' := let '(h1, c) := match cell (hp m) (hreg m j) with
                            | HArr b n => let '(h1, (b', n')) := hcopy (hp m) b n in (h1, HArr b' n')
                            | HVal v => (hp m, HVal v) end in
                  if inplace then with_heap m (set_cell h1 (hreg m i) c) else let '(a, h2) := alloc_cell h1 c in set_hreg m i a h2 in
        inv m' (lk_set lk i false) /\ rel m' (set_reg v i (reg v j))).
      { intros inplace. destruct (cell (hp m) (hreg m j)) as [x|b n] eqn:Ej.
        - destruct (scalar_not_arr m lk v j x Hinv Hrel Hj Ej) as [E1 E2].
          exact (reg_put m lk (lk_set lk i false) v i (hp m) (HVal x) (reg v j) inplace Hinv Hrel Hi eq_refl eq_refl (le_n _) (fun _ _ _ => eq_refl) (conj E1 E2) (Hset i)).
        - destruct (array_reg m lk v j b n Hinv Hrel Hj Ej) as (E1 & E2 & E3 & E4).
          destruct (hcopy (hp m) b n) as [h1 [b' n']] eqn:Ec.
          destruct (hcopy_spec _ _ _ _ _ _ Ec) as (C1 & C2 & C3 & C4 & C5 & C6 & C7). subst n'.
          refine (reg_put m lk (lk_set lk i false) v i h1 (HArr b' n) (reg v j) inplace Hinv Hrel Hi C4 C5 ltac:(lia) (fun b2 H2 _ => C7 b2 H2) _ (Hset i)).
          rewrite C3. split; [lia|]. split; [rewrite firstn_length; lia|]. split; [|right; lia].
          rewrite firstn_firstn, Nat.min_id. exact E1. }
      destruct fl as [|[|[|fl]]].
      + exact (Hcl false).
      + exact (Hcl true).
      + cbn [Nat.eqb]. apply (assign_step m lk _ v i j Hinv Hrel Hi Hj).
        * intros x Hxi Hxj. destruct (Nat.eqb_spec i j) as [_|_]; [reflexivity|]. unfold lk_set.
          destruct (Nat.eqb_spec x j); [contradiction|]. destruct (Nat.eqb_spec x i); [contradiction|reflexivity].
        * intros Hne. destruct (Nat.eqb_spec i j) as [E|_]; [contradiction|]. unfold lk_set. rewrite !Nat.eqb_refl.
          destruct (Nat.eqb i j); split; reflexivity.
        * intros E. destruct (Nat.eqb_spec i j) as [_|N]; [reflexivity|contradiction].
      + exact (Hcl false).
    - (* HSetByIndex *)
      apply andb_prop in Hal. destruct Hal as [Hi Hl]. apply Nat.ltb_lt in Hi. apply negb_true_iff in Hl.
      destruct (cell (hp m) (hreg m i)) as [x0|b n] eqn:Ei.
      + destruct (scalar_not_arr m lk v i x0 Hinv Hrel Hi Ei) as [E1 E2]. rewrite E1. destruct x0; try discriminate E2; split; assumption.
      + destruct (array_reg m lk v i b n Hinv Hrel Hi Ei) as (E1 & E2 & E3 & E4). rewrite E1.
        destruct (pad (S idx) (hp m) b n (S idx)) as [h1 [b1 n1]] eqn:Ep.
        assert (Hfu: (S idx - n <= S idx)%nat) by lia.
        destruct (pad_spec _ _ _ _ _ _ _ _ E3 E4 Hfu Ep) as (P1 & P2 & P3 & P4 & P5 & P6 & P7 & P8 & P9 & P10).
        set (h2 := set_back h1 b1 (replace_nth (back h1 b1) idx x)).
        refine (reg_put m lk lk v i h2 (HArr b1 n1) _ true Hinv Hrel Hi P5 P6 P7 _ _ (fun _ _ => eq_refl)).
        * intros b2 H2 Hno. unfold h2. cbn [back set_back].
          assert (b2 <> b) by (intros ->; apply Hno; exists n; auto).
          rewrite updf_other by (destruct P10 as [-> | P10]; [assumption|lia]). apply P8; assumption.
        * unfold h2. cbn [back nb set_back]. rewrite updf_same. split; [exact P3|]. split; [rewrite replace_nth_length; exact P4|]. split.
          -- f_equal. rewrite firstn_replace_nth_lt by lia. rewrite P2. rewrite set_nth_spec', E2. reflexivity.
          -- destruct P10 as [-> | P10]; [left; exists n; auto|right; exact P10].
    - (* HSetLength *)
      apply andb_prop in Hal. destruct Hal as [Hi Hl]. apply Nat.ltb_lt in Hi. apply negb_true_iff in Hl.
      destruct (cell (hp m) (hreg m i)) as [x0|b n] eqn:Ei.
      + destruct (scalar_not_arr m lk v i x0 Hinv Hrel Hi Ei) as [E1 E2]. rewrite E1. destruct x0; try discriminate E2; split; assumption.
      + destruct (array_reg m lk v i b n Hinv Hrel Hi Ei) as (E1 & E2 & E3 & E4). rewrite E1.
        destruct (pad n0 (hp m) b n n0) as [h1 [b1 n1]] eqn:Ep.
        assert (Hfu: (n0 - n <= n0)%nat) by lia.
        destruct (pad_spec _ _ _ _ _ _ _ _ E3 E4 Hfu Ep) as (P1 & P2 & P3 & P4 & P5 & P6 & P7 & P8 & P9 & P10).
        refine (reg_put m lk lk v i h1 (HArr b1 n1) _ true Hinv Hrel Hi P5 P6 P7 _ _ (fun _ _ => eq_refl)).
        * intros b2 H2 Hno. apply P8; [exact H2|]. intros ->; apply Hno; exists n; auto.
        * split; [exact P3|]. split; [exact P4|]. split.
          -- f_equal. rewrite P2, grow_spec, E2. reflexivity.
          -- destruct P10 as [-> | P10]; [left; exists n; auto|right; exact P10].
    - (* HListWrite *)
      apply Nat.ltb_lt in Hal. destruct (hlst m k) as [lb ll] eqn:El.
      pose proof (i_lst m lk Hinv k Hal) as [L1 L2]. rewrite El in L1, L2. cbn [fst snd] in L1, L2.
      assert (Hv: lst v k = firstn ll (back (hp m) lb)) by (rewrite <- (Rls k Hal), El; reflexivity).
      assert (Hlen: length (lst v k) = ll) by (rewrite Hv, firstn_length; lia). rewrite Hlen.
      destruct (Nat.ltb_spec idx ll) as [Hlt|Hge]; [|split; assumption].
      replace (with_heap m (set_back (hp m) lb (replace_nth (back (hp m) lb) idx x)))
        with {| hp := set_back (hp m) lb (replace_nth (back (hp m) lb) idx x); hregs := hregs m; hlists := upd (hlists m) k (lb, ll) |}
        by (unfold with_heap; rewrite <- El; unfold hlst; rewrite upd_same; reflexivity).
      apply lst_assign; cbn [set_back cell back nc nb]; auto; rewrite ?El; cbn [fst].
      + intros b2 _ H2. apply updf_other. exact H2.
      + rewrite updf_same, replace_nth_length. exact L2.
      + rewrite updf_same, firstn_replace_nth_lt by exact Hlt. rewrite <- Hv. apply replace_nth_upd.
      + left; reflexivity.
    - (* HListAppend *)
      apply Nat.ltb_lt in Hal. destruct (hlst m k) as [lb ll] eqn:El.
      pose proof (i_lst m lk Hinv k Hal) as [L1 L2]. rewrite El in L1, L2. cbn [fst snd] in L1, L2.
      assert (Hv: lst v k = firstn ll (back (hp m) lb)) by (rewrite <- (Rls k Hal), El; reflexivity).
      destruct (happend (hp m) lb ll x) as [h2 [b' n']] eqn:Ea.
      destruct (happend_spec _ _ _ _ _ _ _ L1 L2 Ea) as (A1 & A2 & A3 & A4 & A5 & A6 & A7 & A8 & A9 & A10).
      unfold set_hlst. apply lst_assign; auto; rewrite ?El; cbn [fst].
      + exact A8.
      + rewrite A2, Hv. reflexivity.
      + destruct A10 as [-> | ->]; [left; reflexivity|right; lia].
    - (* HListTruncate *)
      apply Nat.ltb_lt in Hal. destruct (hlst m k) as [lb ll] eqn:El.
      pose proof (i_lst m lk Hinv k Hal) as [L1 L2]. rewrite El in L1, L2. cbn [fst snd] in L1, L2.
      unfold set_hlst. apply lst_assign; auto; rewrite ?El; cbn [fst]; auto. lia.
    - (* HSetElem *)
      apply andb_prop in Hal. destruct Hal as [Hi Hl]. apply Nat.ltb_lt in Hi. apply negb_true_iff in Hl.
      destruct (cell (hp m) (hreg m i)) as [x0|b n] eqn:Ei.
      + destruct (scalar_not_arr m lk v i x0 Hinv Hrel Hi Ei) as [E1 E2]. rewrite E1. destruct x0; try discriminate E2; split; assumption.
      + destruct (array_reg m lk v i b n Hinv Hrel Hi Ei) as (E1 & E2 & E3 & E4). rewrite E1, E2.
        destruct (Nat.ltb_spec idx n) as [Hlt|Hge]; [|split; assumption].
        set (h2 := set_back (hp m) b (replace_nth (back (hp m) b) idx x)).
        refine (reg_put m lk lk v i h2 (HArr b n) _ true Hinv Hrel Hi eq_refl eq_refl (le_n _) _ _ (fun _ _ => eq_refl)).
        * intros b2 H2 Hno. unfold h2. cbn [back set_back]. apply updf_other. intros ->. apply Hno. exists n; auto.
        * unfold h2. cbn [back nb set_back]. rewrite updf_same. split; [exact E3|]. split; [rewrite replace_nth_length; exact E4|]. split.
          -- f_equal. rewrite firstn_replace_nth_lt by lia. rewrite set_nth_spec', E2. replace (S idx - n)%nat with 0%nat by lia. cbn [repeat]. rewrite app_nil_r. reflexivity.
          -- left; exists n; auto.
  Qed.

  Lemma hstep_lengths m o : length (hregs (hstep m o)) = length (hregs m) /\ length (hlists (hstep m o)) = length (hlists m).
  Proof.
    destruct o; unfold VariantHeap.hstep;
      repeat match goal with
             | |- context [match ?e with _ => _ end] => destruct e
             end; cbn [with_heap set_hreg set_hlst hregs hlists alloc_cell]; rewrite ?upd_length; auto.
  Qed.

  (* ---------- histories ---------- *)
  Theorem heap_refines_values : forall ops m lk v, inv m lk -> rel m v -> disc (length (hregs m)) (length (hlists m)) lk ops = true ->
    rel (fold_left hstep ops m) (fold_left step (map erase ops) v).
  Proof.
    induction ops as [|o ops IH]; intros m lk v Hinv Hrel Hd; [exact Hrel|]. cbn [disc] in Hd. apply andb_prop in Hd. destruct Hd as [Ha Hd].
    destruct (hstep_refines m lk v o Hinv Hrel Ha) as [Hinv' Hrel']. cbn [fold_left map].
    apply (IH _ (lk_next lk o) _ Hinv' Hrel'). destruct (hstep_lengths m o) as [-> ->]. exact Hd.
  Qed.

  (* every register and every caller list, read off the heap, is what the value machine says *)
  Corollary heap_registers_are_values ops m lk v i : inv m lk -> rel m v -> disc (length (hregs m)) (length (hlists m)) lk ops = true ->
    (i < length (hregs m))%nat ->
    obj_val (hp (fold_left hstep ops m)) (hreg (fold_left hstep ops m) i) = reg (fold_left step (map erase ops) v) i.
  Proof.
    intros Hinv Hrel Hd Hi. destruct (heap_refines_values ops m lk v Hinv Hrel Hd) as (_ & _ & Rr & _). apply Rr.
    clear - Hi. revert m Hi. induction ops as [|o ops IH]; intros m Hi; [exact Hi|]. cbn [fold_left]. apply IH. rewrite (proj1 (hstep_lengths m o)). exact Hi.
  Qed.

  Lemma nth_map_seq {A} (f : nat -> A) n k d : (k < n)%nat -> nth k (map f (seq 0 n)) d = f k.
  Proof. intros H. rewrite (nth_indep _ d (f O)) by (rewrite map_length, seq_length; exact H). rewrite map_nth, seq_nth by exact H. reflexivity. Qed.
  Lemma nth_map_in {A B} (f : A -> B) l k d d' : (k < length l)%nat -> nth k (map f l) d' = f (nth k l d).
  Proof. intros H. rewrite (nth_indep _ d' (f d)) by (rewrite map_length; exact H). apply map_nth. Qed.

  Lemma hinit_ok nr ls : Forall (fun p => (snd p <= length (fst p))%nat) ls ->
    inv (hinit nr ls) (fun _ => false) /\ rel (hinit nr ls) (vinit nr ls).
  Proof.
    intros Hls.
    assert (Hr: forall i, (i < nr)%nat -> hreg (hinit nr ls) i = i) by (intros i Hi; unfold hreg, hinit; cbn [hregs]; rewrite seq_nth by exact Hi; reflexivity).
    assert (Hl: forall k, (k < length ls)%nat -> hlst (hinit nr ls) k = (k, snd (nth k ls ([], O)))).
    { intros k Hk. unfold hlst, hinit; cbn [hlists]. apply (nth_map_seq (fun k => (k, snd (nth k ls ([], O))))). exact Hk. }
    split.
    - constructor; cbn [hinit hregs hlists hp cell back nc nb]; rewrite ?seq_length, ?map_length, ?seq_length;
        fold (hinit nr ls).
      + intros i Hi. rewrite (Hr i Hi). exact Hi.
      + intros i j Hi Hj. rewrite (Hr i Hi), (Hr j Hj). auto.
      + intros i x _ E. inversion E. reflexivity.
      + intros i b n _ E. discriminate E.
      + intros k Hk. rewrite (Hl k Hk). cbn [fst snd]. split; [exact Hk|]. rewrite Forall_forall in Hls. apply (Hls (nth k ls ([], O))). apply nth_In. exact Hk.
      + intros i k b n _ _ E. discriminate E.
      + intros i j b n n2 _ _ _ E. discriminate E.
      + intros k k2 Hk Hk2 Hne. rewrite (Hl k Hk), (Hl k2 Hk2). cbn [fst]. exact Hne.
    - unfold rel. cbn [hinit vinit hregs hlists regs lists]. rewrite !seq_length, !map_length, seq_length, repeat_length.
      split; [reflexivity|]. split; [reflexivity|]. fold (hinit nr ls). split.
      + intros i Hi. unfold obj_val. cbn [hinit hp cell]. unfold reg. cbn [regs]. symmetry. apply nth_repeat.
      + intros k Hk. rewrite (Hl k Hk). cbn [fst snd]. unfold slice_val, lst. cbn [hinit hp back lists].
        rewrite (nth_map_in (fun p : list val * nat => firstn (snd p) (fst p)) ls k ([], O)) by exact Hk. reflexivity.
  Qed.


  Lemma rel_abs m v : rel m v -> abs m = v.
  Proof.
    intros (R1 & R2 & Rr & Rl). destruct v as [rs ls]. unfold abs. cbn [regs lists] in *. f_equal.
    - apply (nth_ext _ _ Null Null); [rewrite map_length; exact R1|]. rewrite map_length. intros i Hi.
      rewrite (nth_map_in (obj_val (hp m)) (hregs m) i O) by exact Hi. exact (Rr i Hi).
    - apply (nth_ext _ _ [] []); [rewrite map_length; exact R2|]. rewrite map_length. intros k Hk.
      rewrite (nth_map_in (fun s => slice_val (hp m) (fst s) (snd s)) (hlists m) k (O, O)) by exact Hk. exact (Rl k Hk).
  Qed.

  (* after every prefix of a disciplined history, the heap machine, read as values, IS the value machine *)
  Theorem heap_history_is_value_history ops nr ls : Forall (fun p => (snd p <= length (fst p))%nat) ls ->
    disc nr (length ls) (fun _ => false) ops = true ->
    abs (fold_left hstep ops (hinit nr ls)) = fold_left step (map erase ops) (vinit nr ls).
  Proof.
    intros Hls Hd. destruct (hinit_ok nr ls Hls) as [Hinv Hrel]. apply rel_abs. apply (heap_refines_values ops _ (fun _ => false) _ Hinv Hrel).
    cbn [hinit hregs hlists]. rewrite seq_length, map_length, seq_length. exact Hd.
  Qed.
End Refine.
