(* Executable IEEE-754 binary32 / binary64 for the correspondence runs: Coq's own specification of floating-point
   operations (Coq.Floats.SpecFloat: plain computable Gallina over sign / mantissa / exponent triples, no proof
   terms inside values, no axioms), with bit-pattern conversion.  Round to nearest even, as Go's arithmetic. *)
From Coq Require Import ZArith Bool.
From Coq Require Import Floats.SpecFloat.
Open Scope Z_scope.

Section Fmt.
  Variable mw ew : Z.                    (* mantissa and exponent field widths: 23/8 and 52/11 *)
  Definition prec := mw + 1.
  Definition emax := 2 ^ (ew - 1).
  Definition bias := emax - 1.

  Definition of_bits (x : Z) : spec_float :=
    let s := Z.testbit x (mw + ew) in
    let e := (x / 2 ^ mw) mod 2 ^ ew in
    let m := x mod 2 ^ mw in
    if e =? 0 then (if m =? 0 then S754_zero s else S754_finite s (Z.to_pos m) (emin prec emax))
    else if e =? 2 ^ ew - 1 then (if m =? 0 then S754_infinity s else S754_nan)
    else S754_finite s (Z.to_pos (m + 2 ^ mw)) (e - bias - mw).

  Definition sign_bit (s : bool) : Z := if s then 2 ^ (mw + ew) else 0.
  Definition to_bits (f : spec_float) : Z :=
    match f with
    | S754_zero s => sign_bit s
    | S754_infinity s => sign_bit s + (2 ^ ew - 1) * 2 ^ mw
    | S754_nan => (2 ^ ew - 1) * 2 ^ mw + 2 ^ (mw - 1)          (* canonical quiet NaN *)
    | S754_finite s m e =>
        if 2 ^ mw <=? Zpos m then sign_bit s + (e + bias + mw) * 2 ^ mw + (Zpos m - 2 ^ mw)
        else sign_bit s + Zpos m
    end.

  Definition fadd := SFadd prec emax.
  Definition fsub := SFsub prec emax.
  Definition fmul := SFmul prec emax.
  Definition fdiv := SFdiv prec emax.
  Definition fneg := SFopp.
  Definition feq := SFeqb.
  Definition flt := SFltb.
  Definition fle := SFleb.
  Definition of_int (z : Z) : spec_float := binary_normalize prec emax z 0 false.

  (* int64(math.Trunc(x)) on amd64: out of range and NaN give the "integer indefinite" value -2^63 *)
  Definition trunc (f : spec_float) : Z :=
    match f with
    | S754_zero _ => 0
    | S754_finite s m e =>
        let a := if 0 <=? e then Zpos m * 2 ^ e else Zpos m / 2 ^ (- e) in
        let v := if s then - a else a in
        if (- 9223372036854775808 <=? v) && (v <? 9223372036854775808) then v else - 9223372036854775808
    | _ => - 9223372036854775808
    end.
  Definition fzero := S754_zero false.
  Definition fone := of_int 1.
End Fmt.

Definition b32_of_bits := of_bits 23 8.
Definition bits_of_b32 := to_bits 23 8.
Definition b64_of_bits := of_bits 52 11.
Definition bits_of_b64 := to_bits 52 11.

(* float32 -> float64 is exact; float64 -> float32 rounds to nearest even *)
Definition reround (p e : Z) (f : spec_float) : spec_float :=
  match f with
  | S754_finite s m ex => binary_normalize p e (if s then Zneg m else Zpos m) ex s
  | _ => f
  end.
Definition widen32 (f : spec_float) : spec_float := reround (prec 52) (emax 11) f.
Definition narrow64 (f : spec_float) : spec_float := reround (prec 23) (emax 8) f.
