(* Executable glue for C19: one compiled expression / template evaluated repeatedly under several variable sets.
   input  = L [I kind; base; L [env ...]; I rounds]     kind 0 / 2: base is a C01 input, kind 1: base is a C10 input
   output = L [result ...]  rounds x environments, each computed from the base alone (the model is a function: evaluating
            leaves nothing behind) *)
From Coq Require Import List ZArith Bool.
Import ListNotations.
Require Import Sx RunC01 RunC10.
Open Scope Z_scope.

Definition with_env (base : sx) (env : sx) : sx :=
  match base with L (a :: b :: _ :: r) => L (a :: b :: env :: r) | _ => base end.

Fixpoint repeat_list {A} (n : nat) (l : list A) : list A := match n with O => [] | S m => l ++ repeat_list m l end.

Definition model_C19 (input : sx) : sx :=
  let base := nth_sx 1 input in
  let envs := gl (nth_sx 2 input) in
  let rounds := gnat (nth_sx 3 input) in
  let one := if gz (nth_sx 0 input) =? 1 then (fun e => model_C10 (with_env base e)) else (fun e => model_C01 (with_env base e)) in
  L (repeat_list rounds (map one envs)).
