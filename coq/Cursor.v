(* Abstract cursor over a rune array plus one end-of-input slot (what the tokenizer states see of IScanner),
   the window invariant used to prove that states return exactly the characters they consume. *)
Require Import Base.

Record cur := { content : str; p : nat }.          (* p = position + 1 = slots consumed, 0 .. len+1 *)
Definition clen (s : cur) := length (content s).

Definition read (s : cur) : Z * cur :=
  if Nat.ltb (clen s) (p s) then (eof, s)
  else if Nat.ltb (p s) (clen s) then (at_ (content s) (p s), {| content := content s; p := S (p s) |})
  else (eof, {| content := content s; p := S (p s) |}).
Definition unread (s : cur) : cur := {| content := content s; p := pred (p s) |}.
Fixpoint unread_many (n : nat) (s : cur) : cur := match n with O => s | S n => unread_many n (unread s) end.
Definition peek (s : cur) : Z := at_ (content s) (p s).
Definition at_end (s : cur) : bool := Nat.leb (clen s) (p s).
Definition remaining (s : cur) : nat := (clen s - p s)%nat.

(* generic "append while the predicate holds" loop; c is the last character read *)
Fixpoint read_while (pred : Z -> bool) (fuel : nat) (c : Z) (s : cur) (tok : str) : Z * cur * str :=
  match fuel with O => (c, s, tok) | S f =>
    if pred c then let '(c', s') := read s in read_while pred f c' s' (tok ++ [c]) else (c, s, tok) end.

(* window invariant: tok = content[p0, p-1) and c is the character in slot p (index p-1), or EOF *)
Definition win (l : str) (p0 : nat) (c : Z) (s : cur) (tok : str) : Prop :=
  content s = l /\ (p0 < p s)%nat /\ (p s <= S (length l))%nat /\ tok = slice l p0 (pred (p s)) /\ c = at_ l (pred (p s)).

Lemma unread_many_spec n s : p (unread_many n s) = (p s - n)%nat /\ content (unread_many n s) = content s.
Proof. revert s. induction n as [|n IH]; intros s; simpl; [split; [lia|auto]|]. destruct (IH (unread s)) as [H1 H2]. rewrite H1, H2. simpl. split; [lia|auto]. Qed.

Lemma read_content s : content (snd (read s)) = content s.
Proof. unfold read. destruct (Nat.ltb _ _); auto. destruct (Nat.ltb _ _); auto. Qed.

Lemma win_not_eof l p0 c s tok : wf_str l -> win l p0 c s tok -> c <> eof -> (pred (p s) < length l)%nat.
Proof.
  intros Hwf (Hc & Hp0 & Hle & Htok & Hch) Hne.
  destruct (Nat.le_gt_cases (length l) (pred (p s))) as [H|H]; auto. apply (at_eof_iff l _ Hwf) in H. congruence.
Qed.

Lemma win_start s0 : (p s0 < clen s0)%nat -> win (content s0) (p s0) (fst (read s0)) (snd (read s0)) [].
Proof.
  intros Hlt. unfold read. destruct (Nat.ltb_spec (clen s0) (p s0)); [lia|].
  destruct (Nat.ltb_spec (p s0) (clen s0)); [|lia]. unfold win, clen in *. simpl. repeat split; auto; try lia.
  rewrite slice_nil. reflexivity.
Qed.

Lemma read_win l p0 c s tok : wf_str l -> win l p0 c s tok -> c <> eof ->
  win l p0 (fst (read s)) (snd (read s)) (tok ++ [c]) /\ p (snd (read s)) = S (p s).
Proof.
  intros Hwf Hw Hne. pose proof (win_not_eof _ _ _ _ _ Hwf Hw Hne) as Hlt.
  destruct Hw as (Hc & Hp0 & Hle & Htok & Hch). unfold read, clen. rewrite Hc.
  destruct (Nat.ltb_spec (length l) (p s)); [lia|].
  destruct (Nat.ltb_spec (p s) (length l)); unfold win; simpl; repeat split; auto; try lia;
    try (subst tok c; rewrite slice_snoc by lia; f_equal; lia);
    try (symmetry; apply at_eof_iff; auto; lia).
Qed.

(* the loop keeps the window, only grows the token, and with enough fuel stops on a character outside the predicate *)
Lemma read_while_win (pred : Z -> bool) l p0 : wf_str l -> pred eof = false -> forall fuel c s tok,
  win l p0 c s tok ->
  let '(c', s', tok') := read_while pred fuel c s tok in
  win l p0 c' s' tok' /\ (length tok <= length tok')%nat /\ (p s <= p s')%nat /\
  (pred c = true -> (0 < fuel)%nat -> (length tok < length tok')%nat) /\
  ((S (length l) - p s < fuel)%nat -> pred c' = false).
Proof.
  intros Hwf Heof. induction fuel as [|f IH]; intros c s tok Hw; cbn [read_while].
  - destruct Hw as (Hc & Hp0 & Hle & Htok & Hch). repeat split; auto; try lia; intros; try lia; auto.
  - destruct (pred c) eqn:Hd.
    + assert (Hne: c <> eof) by (intros ->; congruence).
      destruct (read_win l p0 c s tok Hwf Hw Hne) as [Hr Hps].
      pose proof (win_not_eof _ _ _ _ _ Hwf Hw Hne) as Hlt.
      destruct (read s) as [c' s'] eqn:Er. cbn [fst snd] in *.
      specialize (IH c' s' (tok ++ [c]) Hr).
      destruct (read_while pred f c' s' (tok ++ [c])) as [[c2 s2] tok2].
      destruct IH as (Hw2 & Hl & Hp & _ & Hf). rewrite app_length in Hl. simpl in Hl.
      split; [exact Hw2|]. split; [lia|]. split; [lia|]. split; [intros; lia|].
      intros H. apply Hf. lia.
    + split; [exact Hw|]. split; [lia|]. split; [lia|]. split; [intros; discriminate|]. intros _. exact Hd.
Qed.

(* closing the window: after unreading the look-ahead the token is content[p0, p) *)
Lemma win_close l p0 c s tok : win l p0 c s tok ->
  content (unread s) = l /\ tok = slice l p0 (p (unread s)) /\ (p0 <= p (unread s) <= length l)%nat.
Proof. intros (Hc & Hp0 & Hle & Htok & Hch). unfold unread. simpl. repeat split; auto; lia. Qed.

(* position with the end-of-input slot folded onto the end *)
Definition npos (s : cur) : nat := min (p s) (clen s).

(* specification shared by all states: the token is exactly the consumed characters, and at least one.
   A state may leave the end-of-input slot consumed (p = len+1); npos folds that onto len. *)
Definition pos_of (t : token) : Z * Z := (line t, col t).

Definition slice_spec (plc : cur -> Z * Z) (next : cur -> token * cur) : Prop :=
  forall s, wf_str (content s) -> (p s < clen s)%nat ->
    content (snd (next s)) = content s /\ (p s < p (snd (next s)) <= S (clen s))%nat /\
    value (fst (next s)) = slice (content s) (p s) (npos (snd (next s))) /\
    pos_of (fst (next s)) = plc s.

(* states that may decline (word / whitespace / special started on a foreign character): empty token, position restored *)
Definition slice_or_stay (plc : cur -> Z * Z) (next : cur -> token * cur) : Prop :=
  forall s, wf_str (content s) -> (p s <= clen s)%nat ->
    content (snd (next s)) = content s /\ (p (snd (next s)) <= S (clen s))%nat /\
    (((p s < p (snd (next s)))%nat /\ (p s < clen s)%nat /\ value (fst (next s)) = slice (content s) (p s) (npos (snd (next s)))
       /\ pos_of (fst (next s)) = plc s)
     \/ (value (fst (next s)) = [] /\ npos (snd (next s)) = npos s)).

Lemma slice_to_end l a b : (length l <= b)%nat -> slice l a b = slice l a (length l).
Proof.
  intros H. unfold slice. rewrite !firstn_all2; auto; rewrite skipn_length; lia.
Qed.
