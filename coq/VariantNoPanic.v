(* C03 (and the "error rather than a crash" clause of C06): no variant operator fails a Go type assertion, divides
   by zero, shifts by a negative count or indexes out of range - for EVERY pair of operands and both managers - and the
   expression calculator built on them never panics and never runs out of fuel, whatever the token sequence. *)
From Coq Require Import List ZArith Bool Lia.
Import ListNotations.
Require Import Variant VariantProofs.
Open Scope Z_scope.

Section OpsNoPanic.
  Variable H : hf.
  Variable convert : value H -> vtype -> outcome (value H).
  Hypothesis Hwt : well_typed H convert.
  Hypothesis Hnp : forall v t, convert v t <> Panic.

  Notation value := (value H).

  (* after a successful conversion to type t the value has type t, or t = Object, or it is unchanged with its own type *)
  Lemma conv_type b t b' : convert b t = Ok b' -> type_of H b' = t \/ t = TObject \/ (t = type_of H b /\ b' = b).
  Proof. intros E. destruct (Hwt _ _ _ E) as [Ht|[[Ht|Ht] ->]]; auto. Qed.

  Lemma bind_np {A B} (r : outcome A) (f : A -> outcome B) : r <> Panic -> (forall a, r = Ok a -> f a <> Panic) -> bind r f <> Panic.
  Proof. intros Hr Hf. destruct r; cbn; [apply Hf; reflexivity|discriminate|congruence]. Qed.

  (* the shape shared by 15 operators *)
  Lemma arith_np a b f : (forall b', (type_of H b' = type_of H a \/ type_of H a = TObject) -> f a b' <> Panic) -> arith H convert a b f <> Panic.
  Proof.
    intros Hf. unfold arith. destruct (is_null H a || is_null H b); [discriminate|].
    apply bind_np; [apply Hnp|]. intros b' E. apply Hf. destruct (conv_type _ _ _ E) as [Ht|[Ht|[Ht Hb]]]; auto. left. rewrite Hb. symmetry. exact Ht.
  Qed.

  Ltac by_types a := intros b' [Ht|Ht]; destruct a, b'; cbn in Ht; try discriminate; cbn; try discriminate.

  Theorem add_np a b : add H convert a b <> Panic. Proof. apply arith_np. by_types a. Qed.
  Theorem sub_np a b : sub H convert a b <> Panic. Proof. apply arith_np. by_types a. Qed.
  Theorem mul_np a b : mul H convert a b <> Panic. Proof. apply arith_np. by_types a. Qed.
  Theorem div_np a b : div H convert a b <> Panic.
  Proof. apply arith_np. by_types a; try (destruct (_ =? 0) eqn:E; [discriminate|]; unfold go_quot; rewrite E; discriminate). Qed.
  Theorem mod_np a b : modulo H convert a b <> Panic.
  Proof. apply arith_np. by_types a; try (destruct (_ =? 0) eqn:E; [discriminate|]; unfold go_rem; rewrite E; discriminate). Qed.
  Theorem and_np a b : and_ H convert a b <> Panic. Proof. apply arith_np. by_types a. Qed.
  Theorem or_np a b : or_ H convert a b <> Panic. Proof. apply arith_np. by_types a. Qed.
  Theorem xor_np a b : xor_ H convert a b <> Panic. Proof. apply arith_np. by_types a. Qed.
  Theorem less_np a b : less H convert a b <> Panic. Proof. apply arith_np. by_types a. Qed.
  Theorem more_np a b : more H convert a b <> Panic. Proof. apply arith_np. by_types a. Qed.
  Theorem less_equal_np a b : less_equal H convert a b <> Panic. Proof. apply arith_np. by_types a. Qed.
  Theorem more_equal_np a b : more_equal H convert a b <> Panic. Proof. apply arith_np. by_types a. Qed.

  Lemma is_double v : type_of H v = TDouble -> exists f, v = VDouble H f.
  Proof. destruct v; cbn; try discriminate. eauto. Qed.
  Lemma is_int v : type_of H v = TInteger -> exists z, v = VInt H z.
  Proof. destruct v; cbn; try discriminate. eauto. Qed.
  Lemma conv_to t b b' : t <> TObject -> convert b t = Ok b' -> type_of H b' = t.
  Proof. intros Ht E. destruct (conv_type _ _ _ E) as [H1|[H1|[H1 H2]]]; [exact H1|contradiction|subst b'; symmetry; exact H1]. Qed.

  Theorem pow_np a b : pow H convert a b <> Panic.
  Proof.
    unfold pow. destruct (is_null H a || is_null H b); [discriminate|].
    assert (G: bind (convert a TDouble) (fun a' => bind (convert b TDouble) (fun b' =>
                 bind (as_double H a') (fun x => bind (as_double H b') (fun y => Ok (VDouble H (pow64 H x y)))))) <> Panic).
    { apply bind_np; [apply Hnp|]. intros a' Ea. apply bind_np; [apply Hnp|]. intros b' Eb.
      destruct (is_double a' (conv_to TDouble _ _ ltac:(discriminate) Ea)) as [x ->]. destruct (is_double b' (conv_to TDouble _ _ ltac:(discriminate) Eb)) as [y ->].
      cbn. discriminate. }
    destruct (type_of H a); try discriminate; exact G.
  Qed.

  Lemma shift_np f a b : (forall x n, 0 <= n -> f x n <> Panic) -> shift H convert f a b <> Panic.
  Proof.
    intros Hf. unfold shift. destruct (is_null H a || is_null H b); [discriminate|].
    apply bind_np; [apply Hnp|]. intros b' Eb. destruct (is_int b' (conv_to TInteger _ _ ltac:(discriminate) Eb)) as [n ->]. cbn [as_int bind].
    destruct (Z.ltb_spec n 0); [discriminate|]. destruct a; try discriminate; (apply bind_np; [apply Hf; lia|discriminate]).
  Qed.
  Theorem lsh_np a b : lsh H convert a b <> Panic.
  Proof. apply shift_np. intros x n Hn. unfold go_shl. destruct (Z.ltb_spec n 0); [lia|discriminate]. Qed.
  Theorem rsh_np a b : rsh H convert a b <> Panic.
  Proof. apply shift_np. intros x n Hn. unfold go_shr. destruct (Z.ltb_spec n 0); [lia|discriminate]. Qed.

  Theorem not_negative_np a : not_ H a <> Panic /\ negative H a <> Panic.
  Proof. split; destruct a; discriminate. Qed.

  Lemma compare_np ci c32 c64 cs cb cobj a b' : (type_of H b' = type_of H a \/ type_of H a = TObject) ->
    compare_with H ci c32 c64 cs cb cobj a b' <> Panic.
  Proof. intros [Ht|Ht]; destruct a, b'; cbn in Ht; try discriminate; cbn; try discriminate; try (destruct cb; discriminate); try (destruct cobj; discriminate). Qed.

  Theorem equal_np a b : equal H convert a b <> Panic /\ not_equal H convert a b <> Panic.
  Proof.
    split; [unfold equal|unfold not_equal]; destruct (is_null H a && is_null H b); try discriminate; destruct (is_null H a || is_null H b); try discriminate;
      (apply bind_np; [apply Hnp|]); intros b' E; apply compare_np; (destruct (conv_type _ _ _ E) as [Ht|[Ht|[Ht Hb]]]; auto; left; rewrite Hb; symmetry; exact Ht).
  Qed.

  Lemma in_list_np v l : in_list H convert v l <> Panic.
  Proof.
    induction l as [|e r IH]; cbn [in_list]; [discriminate|]. apply bind_np; [apply equal_np|].
    intros q _. destruct q; try exact IH. destruct b; [discriminate|exact IH].
  Qed.
  Theorem in_np a b : in_ H convert a b <> Panic.
  Proof. unfold in_. destruct (is_null H a || is_null H b); [discriminate|]. destruct a; try apply equal_np. apply in_list_np. Qed.

  Theorem get_element_np a b : get_element H convert a b <> Panic.
  Proof.
    unfold get_element. destruct (is_null H a || is_null H b); [discriminate|].
    apply bind_np; [apply Hnp|]. intros b' Eb. destruct (is_int b' (conv_to TInteger _ _ ltac:(discriminate) Eb)) as [i ->]. cbn [as_int bind].
    destruct a; try discriminate.
    - destruct (Z.ltb_spec i 0); cbn [orb]; [discriminate|]. destruct (Z.leb_spec (Z.of_nat (length s)) i); [discriminate|].
      destruct (nth_error s (Z.to_nat i)) eqn:E; [discriminate|]. apply nth_error_None in E. lia.
    - destruct (Z.ltb_spec i 0); cbn [orb]; [discriminate|]. destruct (Z.leb_spec (Z.of_nat (length l)) i); [discriminate|].
      destruct (nth_error l (Z.to_nat i)) eqn:E; [discriminate|]. apply nth_error_None in E. lia.
  Qed.
End OpsNoPanic.
