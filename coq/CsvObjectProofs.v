(* Proofs about the CSV tokenizer object of CsvObject.v. *)
From Coq Require Import List ZArith Bool Lia.
Import ListNotations.
Require Import CsvConfig CsvObject.
Open Scope Z_scope.

Lemma mem_is_mem c l : CsvObject.mem c l = CsvConfig.mem c l.
Proof. reflexivity. Qed.
Notation mem := CsvConfig.mem.

(* the arguments a caller passes: characters of the configurable range (a range endpoint above U+FFFE makes the
   character map panic - C17 - and is a different matter) *)
Definition in_range (op : cop) : Prop :=
  match op with SetSeps l | SetQuotes l => Forall (fun c => 0 <= c <= 65534) l end.

Definition cfg_valid (o : cobj) : Prop :=
  valid_chars (o_seps o) /\ valid_chars (o_quotes o) /\ Forall (fun s => mem s (o_quotes o) = false) (o_seps o).

Lemma accepted_valid l other : Forall (fun c => 0 <= c <= 65534) l -> accepted l other = true ->
  valid_chars l /\ Forall (fun c => mem c other = false) l.
Proof.
  unfold accepted, valid_chars. intros Hr H. rewrite forallb_forall in H. rewrite Forall_forall in Hr.
  split; apply Forall_forall; intros c Hc; specialize (H c Hc); specialize (Hr c Hc); apply andb_prop in H; destruct H as [H1 H2];
    unfold bad in H1; apply negb_true_iff in H1; apply orb_false_elim in H1; destruct H1 as [H1 H0]; apply orb_false_elim in H1; destruct H1 as [H13 H10].
  - split; [exact Hr|]. split; [apply Z.eqb_neq; exact H13|apply Z.eqb_neq; exact H10].
  - apply negb_true_iff in H2. exact H2.
Qed.

Lemma mem_sym_disjoint (a b : list Z) : Forall (fun c => mem c a = false) b -> Forall (fun s => mem s b = false) a.
Proof.
  intros H. apply Forall_forall. intros s Hs. destruct (mem s b) eqn:E; [|reflexivity].
  unfold mem in E. apply existsb_exists in E. destruct E as [x [Hx Ex]]. apply Z.eqb_eq in Ex. subst x.
  rewrite Forall_forall in H. specialize (H s Hx). unfold mem in H.
  assert (existsb (Z.eqb s) a = true) by (apply existsb_exists; exists s; split; [exact Hs|apply Z.eqb_refl]). congruence.
Qed.

Lemma cstep_valid o op : in_range op -> cfg_valid o -> cfg_valid (cstep o op).
Proof.
  intros Hr (Hs & Hq & Hd). destruct op as [l|l]; cbn [cstep in_range] in *.
  - destruct (accepted l (o_quotes o)) eqn:E; [|repeat split; assumption].
    destruct (accepted_valid l _ Hr E) as [H1 H2]. repeat split; cbn [o_seps o_quotes]; assumption.
  - destruct (accepted l (o_seps o)) eqn:E; [|repeat split; assumption].
    destruct (accepted_valid l _ Hr E) as [H1 H2]. repeat split; cbn [o_seps o_quotes]; try assumption. apply mem_sym_disjoint. exact H2.
Qed.

Lemma cinit_valid : cfg_valid cinit.
Proof. repeat split; repeat constructor; cbn; lia. Qed.

Theorem reachable_configurations_are_valid ops : Forall in_range ops -> cfg_valid (fold_left cstep ops cinit).
Proof.
  intros H. assert (G: forall o, cfg_valid o -> cfg_valid (fold_left cstep ops o)).
  { induction H as [|op ops Hop _ IH]; intros o Ho; [exact Ho|]. cbn [fold_left]. apply IH. apply cstep_valid; assumption. }
  apply G. exact cinit_valid.
Qed.

(* a refused call leaves no trace *)
Theorem refused_call_leaves_no_trace o op :
  (match op with SetSeps l => accepted l (o_quotes o) | SetQuotes l => accepted l (o_seps o) end) = false -> cstep o op = o.
Proof. destruct op; cbn [cstep]; intros ->; reflexivity. Qed.

(* the two lists are independent: an accepted call changes exactly the list it names *)
Theorem accepted_call_sets_its_list o op :
  (match op with SetSeps l => accepted l (o_quotes o) | SetQuotes l => accepted l (o_seps o) end) = true ->
  cstep o op = match op with SetSeps l => {| o_seps := l; o_quotes := o_quotes o |} | SetQuotes l => {| o_seps := o_seps o; o_quotes := l |} end.
Proof. destruct op; cbn [cstep]; intros ->; reflexivity. Qed.
