From Coq Require Import List ZArith Bool Lia.
Import ListNotations.

(* ---------- tokens ---------- *)
Inductive binop := OAnd | OOr | OXor | OEq | ONe | OGt | OLt | OGe | OLe
  | OAdd | OSub | OLike | ONotLike | ONotIn | OMul | ODiv | OMod | OPow | OIn | OShl | OShr | OElem.
Inductive unop := UNot | UNeg | UIsNull | UIsNotNull.

Inductive tok :=
 | TConst (c : Z) | TVar (n : Z)
 | TLP | TRP | TLB | TRB | TComma
 | TPlus | TMinus | TStar | TSlash | TPercent | TPower
 | TEq | TNe | TGt | TLt | TGe | TLe | TShl | TShr
 | TAnd | TOr | TXor | TNot | TIs | TIn | TNull | TLike.

(* ---------- abstract syntax ---------- *)
Inductive expr :=
 | EConst (c : Z) | EVar (n : Z)
 | EUn (o : unop) (e : expr)
 | EBin (o : binop) (a b : expr)
 | ECall (n : Z) (args : exprs)
with exprs := ENil | ECons (e : expr) (es : exprs).

Fixpoint elen (es : exprs) : nat := match es with ENil => 0 | ECons _ r => S (elen r) end.

(* ---------- compiled program ---------- *)
Inductive rinstr := RConst (c : Z) | RVar (n : Z) | RArgc (k : nat) | RFunc (n : Z) | RBin (o : binop) | RUn (o : unop).

Fixpoint compile (e : expr) : list rinstr :=
  match e with
  | EConst c => [RConst c] | EVar n => [RVar n]
  | EUn o a => compile a ++ [RUn o]
  | EBin o a b => compile a ++ compile b ++ [RBin o]
  | ECall n args => compiles args ++ [RArgc (elen args); RFunc n]
  end
with compiles (es : exprs) : list rinstr :=
  match es with ENil => [] | ECons e r => compile e ++ compiles r end.

(* ---------- grammar as a derivation relation ---------- *)
Definition op0 (t : tok) : option binop := match t with TAnd => Some OAnd | TOr => Some OOr | TXor => Some OXor | _ => None end.
Definition op2 (t : tok) : option binop := match t with TEq => Some OEq | TNe => Some ONe | TGt => Some OGt | TLt => Some OLt | TGe => Some OGe | TLe => Some OLe | _ => None end.
Definition op3 (t : tok) : option binop := match t with TPlus => Some OAdd | TMinus => Some OSub | TLike => Some OLike | _ => None end.
Definition op4 (t : tok) : option binop := match t with TStar => Some OMul | TSlash => Some ODiv | TPercent => Some OMod | _ => None end.
Definition op5 (t : tok) : option binop := match t with TPower => Some OPow | TIn => Some OIn | TShl => Some OShl | TShr => Some OShr | _ => None end.

Inductive D0 : list tok -> expr -> Prop :=
 | D0_1 ts e : D1 ts e -> D0 ts e
 | D0_op ts1 a t o ts2 b : D0 ts1 a -> op0 t = Some o -> D1 ts2 b -> D0 (ts1 ++ t :: ts2) (EBin o a b)
with D1 : list tok -> expr -> Prop :=
 | D1_2 ts e : D2 ts e -> D1 ts e
 | D1_not ts e : D2 ts e -> D1 (TNot :: ts) (EUn UNot e)
with D2 : list tok -> expr -> Prop :=
 | D2_3 ts e : D3 ts e -> D2 ts e
 | D2_op ts1 a t o ts2 b : D2 ts1 a -> op2 t = Some o -> D3 ts2 b -> D2 (ts1 ++ t :: ts2) (EBin o a b)
with D3 : list tok -> expr -> Prop :=
 | D3_4 ts e : D4 ts e -> D3 ts e
 | D3_op ts1 a t o ts2 b : D3 ts1 a -> op3 t = Some o -> D4 ts2 b -> D3 (ts1 ++ t :: ts2) (EBin o a b)
 | D3_notlike ts1 a ts2 b : D3 ts1 a -> D4 ts2 b -> D3 (ts1 ++ TNot :: TLike :: ts2) (EBin ONotLike a b)
 | D3_notin ts1 a ts2 b : D3 ts1 a -> D4 ts2 b -> D3 (ts1 ++ TNot :: TIn :: ts2) (EBin ONotIn a b)
 | D3_isnull ts1 a : D3 ts1 a -> D3 (ts1 ++ [TIs; TNull]) (EUn UIsNull a)
 | D3_isnotnull ts1 a : D3 ts1 a -> D3 (ts1 ++ [TIs; TNot; TNull]) (EUn UIsNotNull a)
with D4 : list tok -> expr -> Prop :=
 | D4_5 ts e : D5 ts e -> D4 ts e
 | D4_op ts1 a t o ts2 b : D4 ts1 a -> op4 t = Some o -> D5 ts2 b -> D4 (ts1 ++ t :: ts2) (EBin o a b)
with D5 : list tok -> expr -> Prop :=
 | D5_6 ts e : D6 ts e -> D5 ts e
 | D5_op ts1 a t o ts2 b : D5 ts1 a -> op5 t = Some o -> D6 ts2 b -> D5 (ts1 ++ t :: ts2) (EBin o a b)
with D6 : list tok -> expr -> Prop :=
 | D6_s ts e : DS ts e -> D6 ts e
 | D6_idx ts e ti i : DS ts e -> D0 ti i -> D6 (ts ++ TLB :: ti ++ [TRB]) (EBin OElem e i)
with DS : list tok -> expr -> Prop :=   (* optionally signed primary *)
 | DS_p ts e : DP ts e -> DS ts e
 | DS_plus ts e : DP ts e -> DS (TPlus :: ts) e
 | DS_minus ts e : DP ts e -> DS (TMinus :: ts) (EUn UNeg e)
with DP : list tok -> expr -> Prop :=
 | DP_const c : DP [TConst c] (EConst c)
 | DP_var n : DP [TVar n] (EVar n)
 | DP_paren ts e : D0 ts e -> DP (TLP :: ts ++ [TRP]) e
 | DP_call n ts es : DA ts es -> DP (TVar n :: TLP :: ts) (ECall n es)
with DA : list tok -> exprs -> Prop :=   (* argument list including the closing parenthesis *)
 | DA_nil : DA [TRP] ENil
 | DA_last ts e : D0 ts e -> DA (ts ++ [TRP]) (ECons e ENil)
 | DA_cons ts e tr es : D0 ts e -> DA tr es -> DA (ts ++ TComma :: tr) (ECons e es).
(* note: DA_cons with tr = [TRP] is the accepted trailing comma "f(a,)" *)

Scheme D0_ind' := Minimality for D0 Sort Prop
with D1_ind' := Minimality for D1 Sort Prop
with D2_ind' := Minimality for D2 Sort Prop
with D3_ind' := Minimality for D3 Sort Prop
with D4_ind' := Minimality for D4 Sort Prop
with D5_ind' := Minimality for D5 Sort Prop
with D6_ind' := Minimality for D6 Sort Prop
with DS_ind' := Minimality for DS Sort Prop
with DP_ind' := Minimality for DP Sort Prop
with DA_ind' := Minimality for DA Sort Prop.
Combined Scheme D_mutind from D0_ind', D1_ind', D2_ind', D3_ind', D4_ind', D5_ind', D6_ind', DS_ind', DP_ind', DA_ind'.

(* ---------- the parser (mirrors ExpressionParser.go) ---------- *)
Inductive perr := EUnexpectedEnd | EErrorAt | EErrorNear | EMissParen | EMissBracket | EInternal.
Inductive res (A : Type) := Ok (a : A) | Err (e : perr) | Fuel.
Arguments Ok {A}. Arguments Err {A}. Arguments Fuel {A}.

Definition pst := (list rinstr * list tok)%type.   (* emitted so far, remaining tokens *)

Inductive nt := N0 | N0L | N1 | N2 | N2L | N3 | N3L | N4 | N4L | N5 | N5L | N6 | NS | NP | NArgs (k : nat) (fn : Z).

Definition bind {A B} (r : res A) (f : A -> res B) : res B :=
  match r with Ok a => f a | Err e => Err e | Fuel => Fuel end.

Definition binloop (opf : tok -> option binop) (sub : pst -> res pst) (again : pst -> res pst) (st : pst) : res pst :=
  match snd st with
  | t :: rest => match opf t with
      | Some o => bind (sub (fst st, rest)) (fun st' => again (fst st' ++ [RBin o], snd st'))
      | None => Ok st end
  | [] => Ok st
  end.

Definition pstep (rec : nt -> pst -> res pst) (k : nt) (st : pst) : res pst :=
  let acc := fst st in let ts := snd st in
  match k with
  | N0 => match ts with [] => Err EUnexpectedEnd | _ => bind (rec N1 st) (rec N0L) end
  | N0L => binloop op0 (rec N1) (rec N0L) st
  | N1 => match ts with
          | [] => Err EUnexpectedEnd
          | TNot :: rest => bind (rec N2 (acc, rest)) (fun st' => Ok (fst st' ++ [RUn UNot], snd st'))
          | _ => rec N2 st end
  | N2 => match ts with [] => Err EUnexpectedEnd | _ => bind (rec N3 st) (rec N2L) end
  | N2L => binloop op2 (rec N3) (rec N2L) st
  | N3 => match ts with [] => Err EUnexpectedEnd | _ => bind (rec N4 st) (rec N3L) end
  | N3L => match ts with
           | t :: rest =>
             match op3 t with
             | Some o => bind (rec N4 (acc, rest)) (fun st' => rec N3L (fst st' ++ [RBin o], snd st'))
             | None =>
               match ts with
               | TNot :: TLike :: rest2 => bind (rec N4 (acc, rest2)) (fun st' => rec N3L (fst st' ++ [RBin ONotLike], snd st'))
               | TIs :: TNull :: rest2 => rec N3L (acc ++ [RUn UIsNull], rest2)
               | TIs :: TNot :: TNull :: rest3 => rec N3L (acc ++ [RUn UIsNotNull], rest3)
               | TNot :: TIn :: rest2 => bind (rec N4 (acc, rest2)) (fun st' => rec N3L (fst st' ++ [RBin ONotIn], snd st'))
               | _ => Ok st
               end
             end
           | [] => Ok st end
  | N4 => match ts with [] => Err EUnexpectedEnd | _ => bind (rec N5 st) (rec N4L) end
  | N4L => binloop op4 (rec N5) (rec N4L) st
  | N5 => match ts with [] => Err EUnexpectedEnd | _ => bind (rec N6 st) (rec N5L) end
  | N5L => binloop op5 (rec N6) (rec N5L) st
  | N6 =>
    match ts with [] => Err EUnexpectedEnd | _ =>
    bind (rec NS st) (fun st2 =>
      match snd st2 with
      | TLB :: r => bind (rec N0 (fst st2, r)) (fun st' =>
                      match snd st' with [] => Err EUnexpectedEnd
                      | TRB :: r' => Ok (fst st' ++ [RBin OElem], r') | _ => Err EMissBracket end)
      | _ => Ok st2 end) end
  | NS =>
    match ts with
    | TPlus :: r => rec NP (acc, r)
    | TMinus :: r => bind (rec NP (acc, r)) (fun st1 => Ok (fst st1 ++ [RUn UNeg], snd st1))
    | _ => rec NP st
    end
  | NP =>
    match ts with
    | [] => Err EUnexpectedEnd
    | TVar f :: TLP :: rest2 => rec (NArgs 0 f) (acc, rest2)
    | TConst c :: rest1 => Ok (acc ++ [RConst c], rest1)
    | TVar v :: rest1 => Ok (acc ++ [RVar v], rest1)
    | TLP :: rest1 => bind (rec N0 (acc, rest1)) (fun st' =>
                    match snd st' with [] => Err EUnexpectedEnd
                    | TRP :: r => Ok (fst st', r) | _ => Err EMissParen end)
    | _ => Err EErrorAt
    end
  | NArgs k f =>   (* positioned just after '(' or ',' ; k arguments parsed so far *)
    match ts with
    | [] => Err EUnexpectedEnd
    | TRP :: r => Ok (acc ++ [RArgc k; RFunc f], r)
    | _ => bind (rec N0 st) (fun st' =>
             match snd st' with
             | [] => Err EUnexpectedEnd
             | TComma :: r => rec (NArgs (S k) f) (fst st', r)
             | TRP :: r => Ok (fst st' ++ [RArgc (S k); RFunc f], r)
             | _ => Err EMissParen end)
    end
  end.

Fixpoint parse (n : nat) : nt -> pst -> res pst :=
  match n with O => fun _ _ => Fuel | S n => pstep (parse n) end.

Definition fuel_for (ts : list tok) : nat := 20 * (length ts + 1).

Definition parse_top (ts : list tok) : res (list rinstr) :=
  match ts with [] => Ok [] | _ =>
  bind (parse (fuel_for ts) N0 ([], ts)) (fun st => match snd st with [] => Ok (fst st) | _ => Err EErrorNear end) end.

(* sanity *)
Example ex1 : parse_top [TVar 1; TPlus; TConst 2; TStar; TConst 3] = Ok [RVar 1; RConst 2; RConst 3; RBin OMul; RBin OAdd].
Proof. reflexivity. Qed.
Example ex2 : parse_top [TVar 1; TLP; TVar 2; TComma; TRP; TLB; TConst 1; TRB] = Ok [RVar 2; RArgc 1; RFunc 1; RConst 1; RBin OElem].
Proof. reflexivity. Qed.
Example ex3 : parse_top [TVar 1; TNot; TNull] = Err EErrorNear.
Proof. reflexivity. Qed.
