(* Executable glue for C20: a machine with 4 variant registers and 2 caller-owned lists.
   input  = L [op ...]   op = L [I code; ...; I flavour]  (the last element selects the Go API used and is ignored here)
            0 i value        v[i] = NewVariant(host) | VariantFromX(host) | v[i].SetAsX(host)
            1 i k            v[i] = VariantFromArray(l[k]) | v[i].SetAsArray(l[k]) | v[i] = NewVariant(l[k])
            2 i j            v[i] = v[j].Clone() | v[i].SetAsObject(v[j]) | v[i].Assign(v[j])
            3 i idx value    v[i].SetByIndex(idx, NewVariant(host))
            4 i n            v[i].SetLength(n)
            5 k idx value    l[k][idx] = NewVariant(host)
            6 k value        l[k] = append(l[k], NewVariant(host))
            7 k              l[k] = l[k][:0]
            8 i idx value    v[i].GetByIndex(idx).SetAsObject(host)   (an element the array got by growing, never shared)
   output = L [L [registers; lists; equals-matrix] ...] after each operation; value = L [I type; payload] as for C06 *)
From Coq Require Import List ZArith Bool.
Import ListNotations.
Require Import Sx VariantValue.
Open Scope Z_scope.

Fixpoint dec_v (fuel : nat) (s : sx) : val :=
  match fuel with O => Null | S f =>
    let p := nth_sx 1 s in
    match gz (nth_sx 0 s) with
    | 1 => Int (gz p) | 2 => Long (gz p) | 3 => Flt (gz p) | 4 => Dbl (gz p) | 5 => Str (gstr p) | 6 => Bool (gb p)
    | 7 => Time (gz p) | 8 => Span (gz p) | 9 => Obj (gz p) | 10 => Arr (map (dec_v f) (gl p)) | _ => Null
    end
  end.
Fixpoint enc_v (v : val) : sx :=
  match v with
  | Null => L [I 0; L []] | Int z => L [I 1; I z] | Long z => L [I 2; I z] | Flt z => L [I 3; I z] | Dbl z => L [I 4; I z]
  | Str s => L [I 5; estr s] | Bool b => L [I 6; eb b] | Time z => L [I 7; I z] | Span z => L [I 8; I z] | Obj z => L [I 9; I z]
  | Arr l => L [I 10; L (map enc_v l)]
  end.

Definition dec_op20 (s : sx) : op :=
  let a := gnat (nth_sx 1 s) in
  match gz (nth_sx 0 s) with
  | 0 => ONew a (dec_v 5 (nth_sx 2 s))
  | 1 => OFromList a (gnat (nth_sx 2 s))
  | 2 => OCopy a (gnat (nth_sx 2 s))
  | 3 => OSetByIndex a (gnat (nth_sx 2 s)) (dec_v 5 (nth_sx 3 s))
  | 4 => OSetLength a (gnat (nth_sx 2 s))
  | 5 => OListWrite a (gnat (nth_sx 2 s)) (dec_v 5 (nth_sx 3 s))
  | 6 => OListAppend a (dec_v 5 (nth_sx 2 s))
  | 8 => OSetElem a (gnat (nth_sx 2 s)) (dec_v 5 (nth_sx 3 s))
  | _ => OListTruncate a
  end.

Definition observe20 (m : mach) : sx :=
  L [ L (map enc_v (regs m)); L (map (fun l => L (map enc_v l)) (lists m));
      L (flat_map (fun a => map (fun b => eb (equals a b)) (regs m)) (regs m)) ].

Fixpoint run20 (m : mach) (ops : list op) : list sx :=
  match ops with [] => [] | o :: r => let m' := step m o in observe20 m' :: run20 m' r end.

Definition model_C20 (input : sx) : sx :=
  L (run20 {| regs := [Null; Null; Null; Null]; lists := [[]; []] |} (map dec_op20 (gl input))).
