(* Executable glue for C20: a machine with 4 variant registers and 2 caller-owned lists.
   input  = L [op ...]   op = L [I code; ...; I flavour]  (the last element selects the Go API used and is ignored here)
            0 i value        v[i] = NewVariant(host) | VariantFromX(host) | v[i].SetAsX(host)
            1 i k            v[i] = VariantFromArray(l[k]) | v[i].SetAsArray(l[k]) | v[i] = NewVariant(l[k])
            2 i j            v[i] = v[j].Clone() | v[i].SetAsObject(v[j]) | v[i].Assign(v[j])
            3 i idx value    v[i].SetByIndex(idx, NewVariant(host))
            4 i n            v[i].SetLength(n)
            5 k idx value    l[k][idx] = NewVariant(host)
            6 k value        l[k] = append(l[k], NewVariant(host))
            7 k              l[k] = l[k][:0]
            8 i idx value    v[i].GetByIndex(idx).SetAsObject(host)   (an element the array got by growing, never shared)
            9 table          (first operation only) the spare capacity Go's append leaves when it reallocates a slice of
                             length n, for n = 0, 1, 2, ... as measured by the harness: the history is then run on the HEAP
                             machine (VariantHeap.v: objects, slices, backing arrays), which also says what Go does when
                             handles that share a list are written in place; without it, on the value machine
   output = L [L [registers; lists; equals-matrix] ...] after each operation; value = L [I type; payload] as for C06 *)
From Coq Require Import List ZArith Bool.
Import ListNotations.
Require Import Sx VariantValue VariantHeap.
Open Scope Z_scope.

Fixpoint dec_v (fuel : nat) (s : sx) : val :=
  match fuel with O => Null | S f =>
    let p := nth_sx 1 s in
    match gz (nth_sx 0 s) with
    | 1 => Int (gz p) | 2 => Long (gz p) | 3 => Flt (gz p) | 4 => Dbl (gz p) | 5 => Str (gstr p) | 6 => Bool (gb p)
    | 7 => Time (gz p) | 8 => Span (gz p) | 9 => Obj (gz p) | 10 => Arr (map (dec_v f) (gl p)) | _ => Null
    end
  end.
Fixpoint enc_v (v : val) : sx :=
  match v with
  | Null => L [I 0; L []] | Int z => L [I 1; I z] | Long z => L [I 2; I z] | Flt z => L [I 3; I z] | Dbl z => L [I 4; I z]
  | Str s => L [I 5; estr s] | Bool b => L [I 6; eb b] | Time z => L [I 7; I z] | Span z => L [I 8; I z] | Obj z => L [I 9; I z]
  | Arr l => L [I 10; L (map enc_v l)]
  end.

Definition dec_op20 (s : sx) : op :=
  let a := gnat (nth_sx 1 s) in
  match gz (nth_sx 0 s) with
  | 0 => ONew a (dec_v 5 (nth_sx 2 s))
  | 1 => OFromList a (gnat (nth_sx 2 s))
  | 2 => OCopy a (gnat (nth_sx 2 s))
  | 3 => OSetByIndex a (gnat (nth_sx 2 s)) (dec_v 5 (nth_sx 3 s))
  | 4 => OSetLength a (gnat (nth_sx 2 s))
  | 5 => OListWrite a (gnat (nth_sx 2 s)) (dec_v 5 (nth_sx 3 s))
  | 6 => OListAppend a (dec_v 5 (nth_sx 2 s))
  | 8 => OSetElem a (gnat (nth_sx 2 s)) (dec_v 5 (nth_sx 3 s))
  | _ => OListTruncate a
  end.

Definition observe20 (m : mach) : sx :=
  L [ L (map enc_v (regs m)); L (map (fun l => L (map enc_v l)) (lists m));
      L (flat_map (fun a => map (fun b => eb (equals a b)) (regs m)) (regs m)) ].

Fixpoint run20 (m : mach) (ops : list op) : list sx :=
  match ops with [] => [] | o :: r => let m' := step m o in observe20 m' :: run20 m' r end.

(* the same operation with the Go API it goes through (the last element of the operation) *)
Definition flavour (s : sx) : Z := gz (last (gl s) (I 0)).
Definition dec_hop (s : sx) : hop :=
  let a := gnat (nth_sx 1 s) in
  match gz (nth_sx 0 s) with
  | 0 => HNew a (dec_v 5 (nth_sx 2 s)) (flavour s =? 2)
  | 1 => HFromList a (gnat (nth_sx 2 s)) (flavour s =? 1)
  | 2 => HCopy a (gnat (nth_sx 2 s)) (if flavour s =? 1 then 1 else if flavour s =? 3 then 2 else 0)
  | 3 => HSetByIndex a (gnat (nth_sx 2 s)) (dec_v 5 (nth_sx 3 s))
  | 4 => HSetLength a (gnat (nth_sx 2 s))
  | 5 => HListWrite a (gnat (nth_sx 2 s)) (dec_v 5 (nth_sx 3 s))
  | 6 => HListAppend a (dec_v 5 (nth_sx 2 s))
  | 8 => HSetElem a (gnat (nth_sx 2 s)) (dec_v 5 (nth_sx 3 s))
  | _ => HListTruncate a
  end.

Fixpoint hrun20 (slack : nat -> nat) (m : hmach) (ops : list hop) : list sx :=
  match ops with [] => [] | o :: r => let m' := hstep slack m o in observe20 (abs m') :: hrun20 slack m' r end.

(* the harness starts with four empty variants and two empty caller lists: one of capacity 4, one the nil slice *)
Definition lists20 : list (list val * nat) := [(repeat Null 4, O); ([], O)].

Definition model_C20 (input : sx) : sx :=
  match gl input with
  | first :: rest =>
      if gz (nth_sx 0 first) =? 9
      then let table := map gnat (gl (nth_sx 1 first)) in L (hrun20 (fun n => nth n table O) (hinit 4 lists20) (map dec_hop rest))
      else L (run20 (vinit 4 lists20) (map dec_op20 (gl input)))
  | [] => L []
  end.
