From Coq Require Import List ZArith Bool Lia.
Import ListNotations.
Require Import Scanner.
Open Scope Z_scope.

Lemma inv_init l : Inv (init l).
Proof. split; simpl; [lia|reflexivity]. Qed.

Lemma lc_S l k : (k < length l)%nat -> lc l (S k) = advance l (S k) (lc l k).
Proof. intros H. unfold lc. rewrite !Nat.min_l by lia. reflexivity. Qed.

Lemma lc_end l k : (length l <= k)%nat -> lc l k = lc l (length l).
Proof. intros H. unfold lc. rewrite Nat.min_r by lia. rewrite Nat.min_id. reflexivity. Qed.

Lemma read_inv s : Inv s -> Inv (snd (read s)).
Proof.
  intros [Hp Hlc]. unfold read. destruct (Nat.ltb_spec (length (content s)) (p s)); [split; assumption|].
  destruct (Nat.ltb_spec (p s) (length (content s))).
  - destruct (advance (content s) (S (p s)) (line s, col s)) as [ln c] eqn:E. split; simpl; [lia|].
    rewrite lc_S by lia. rewrite <- Hlc. auto.
  - split; simpl; [lia|]. rewrite Hlc. rewrite (lc_end _ (S (p s))) by lia. rewrite (lc_end _ (p s)) by lia. reflexivity.
Qed.

Lemma col_of_advance l i ln c : is_column (char_at l i) = true ->
  advance l i (ln, c) = (fst (advance l i (ln, c)), snd (advance l i (ln, c))) /\
  is_line (char_at l (i - 1)) (char_at l i) (char_at l (i + 1)) = false.
Proof.
  intros H. split; [destruct (advance l i (ln, c)); reflexivity|].
  unfold is_column in H. unfold is_line. apply negb_true_iff, orb_false_iff in H. destruct H as [H1 H2].
  rewrite H1, H2. reflexivity.
Qed.

Lemma unread_inv s : Inv s -> Inv (unread s).
Proof.
  intros [Hp Hlc]. unfold unread. destruct (p s) as [|q] eqn:Ep; [split; [rewrite Ep; lia|rewrite Ep; assumption]|].
  destruct (Nat.ltb_spec (length (content s)) (S q)).
  - (* end-of-input slot *)
    split; simpl; [lia|]. rewrite Hlc. rewrite (lc_end _ (S q)) by lia. rewrite (lc_end _ q) by lia. reflexivity.
  - destruct (is_column (char_at (content s) (S q))) eqn:Ec.
    + split; simpl; [lia|]. rewrite lc_S in Hlc by lia. destruct (lc (content s) q) as [ln c].
      unfold advance in Hlc. replace (S q - 1)%nat with q in Hlc by lia. replace (S q + 1)%nat with (S (S q)) in Hlc by lia.
      destruct (col_of_advance (content s) (S q) ln c Ec) as [_ Hl].
      replace (S q - 1)%nat with q in Hl by lia. replace (S q + 1)%nat with (S (S q)) in Hl by lia.
      rewrite Hl, Ec in Hlc. inversion Hlc. f_equal. lia.
    + destruct (rescan (content s) q) as [ln c] eqn:Er. split; simpl; [lia|]. unfold lc. rewrite Nat.min_l by lia. auto.
Qed.

Lemma unread_many_inv n : forall s, Inv s -> Inv (unread_many n s).
Proof. induction n; intros s H; simpl; auto using unread_inv. Qed.

Lemma reset_inv s : Inv (reset s).
Proof. split; simpl; [lia|reflexivity]. Qed.

Lemma step_inv s o : Inv s -> Inv (step s o).
Proof. destruct o; simpl; auto using read_inv, unread_inv, unread_many_inv, reset_inv. Qed.

Lemma step_content s o : content (step s o) = content s.
Proof.
  destruct o; simpl; auto.
  - unfold read. destruct (Nat.ltb _ _); auto. destruct (Nat.ltb _ _); auto. destruct (advance _ _ _); auto.
  - unfold unread. destruct (p s); auto. destruct (Nat.ltb _ _); auto. destruct (is_column _); auto. destruct (rescan _ _); auto.
  - revert s. induction n; intros s; simpl; auto. rewrite IHn. unfold unread. destruct (p s); auto. destruct (Nat.ltb _ _); auto. destruct (is_column _); auto. destruct (rescan _ _); auto.
Qed.

(* C11, main statement: after any operation sequence line and column are a function of the position *)
Theorem scanner_inv l ops : let s := fold_left step ops (init l) in
  content s = l /\ (p s <= S (length l))%nat /\ (line s, col s) = lc l (p s).
Proof.
  assert (G: forall ops s, Inv s -> content s = l -> let s' := fold_left step ops s in content s' = l /\ Inv s').
  { induction ops0 as [|o ops0 IH]; intros s Hi Hc; simpl; [auto|]. apply IH; [apply step_inv; auto|rewrite step_content; auto]. }
  destruct (G ops (init l) (inv_init l) eq_refl) as [Hc [Hp Hlc]]. cbv zeta. rewrite Hc in *. auto.
Qed.

(* cursor behaviour *)
Theorem read_spec s : (p s <= S (length (content s)))%nat ->
  fst (read s) = (if Nat.ltb (p s) (length (content s)) then nth (p s) (content s) eof else eof) /\
  p (snd (read s)) = min (S (p s)) (S (length (content s))).
Proof.
  intros Hp. unfold read. destruct (Nat.ltb_spec (length (content s)) (p s)).
  - destruct (Nat.ltb_spec (p s) (length (content s))); [lia|]. simpl. split; auto. lia.
  - destruct (Nat.ltb_spec (p s) (length (content s))).
    + destruct (advance (content s) (S (p s)) (line s, col s)). simpl. split; auto. lia.
    + simpl. split; auto. lia.
Qed.

Theorem unread_spec s : p (unread s) = pred (p s).
Proof. unfold unread. destruct (p s) as [|q] eqn:E; [rewrite E; auto|]. destruct (Nat.ltb (length (content s)) (S q)); auto. destruct (is_column (char_at (content s) (S q))); auto. destruct (rescan (content s) q); auto. Qed.

Theorem unread_many_spec n : forall s, p (unread_many n s) = (p s - n)%nat.
Proof. induction n; intros s; simpl; [lia|]. rewrite IHn, unread_spec. lia. Qed.

Theorem peek_value s : peek s = (if Nat.ltb (p s) (length (content s)) then nth (p s) (content s) eof else eof).
Proof. unfold peek, char_at. destruct (Nat.ltb_spec (p s) (length (content s))); auto. apply nth_overflow. lia. Qed.

(* peeked coordinates are the coordinates after the next read, whenever that read returns a character *)
Theorem peek_linecol s : Inv s -> (p s < length (content s))%nat ->
  (peek_line s, peek_column s) = (line (snd (read s)), col (snd (read s))).
Proof.
  intros [Hp Hlc] Hlt. unfold read, peek_line, peek_column.
  destruct (Nat.ltb_spec (length (content s)) (p s)); [lia|]. destruct (Nat.ltb_spec (p s) (length (content s))); [|lia].
  unfold advance. replace (S (p s) - 1)%nat with (p s) by lia. replace (S (p s) + 1)%nat with (S (S (p s))) by lia.
  destruct (is_line _ _ _) eqn:El; destruct (is_column _) eqn:Ec; simpl; auto.
  (* a line break never counts as a column *)
  exfalso. unfold is_line in El. unfold is_column in Ec. apply negb_true_iff, orb_false_iff in Ec. destruct Ec as [E1 E2].
  rewrite E1, E2 in El. simpl in El. discriminate.
Qed.

(* on the end-of-input slot the peeked column is one past the last character (what the EOF token reports) *)
Theorem peek_at_end s : (length (content s) <= p s)%nat -> Forall (fun c => 0 <= c) (content s) ->
  peek_line s = line s /\ peek_column s = col s + 1.
Proof.
  intros Hp Hwf. unfold peek_line, peek_column.
  assert (E: char_at (content s) (S (p s)) = eof) by (simpl; apply nth_overflow; lia).
  rewrite E. unfold is_line, is_column, eof, LF, CR. simpl. auto.
Qed.

Print Assumptions scanner_inv.
Print Assumptions peek_linecol.
