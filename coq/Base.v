(* Common definitions: characters, strings, token types, tokens. *)
From Coq Require Export List ZArith Bool Lia.
Export ListNotations.
Open Scope Z_scope.

Definition str := list Z.                (* a Go string as its sequence of code points *)
Definition eof : Z := -1.                (* what IScanner.Read returns at the end of input *)

(* tokenizers/TokenType.go, in iota order *)
Inductive ttype := Unknown | Eof | Eol | Float | Integer | HexDecimal | Number | Symbol | Quoted | Word | Keyword | Whitespace | Comment | Special.
Definition ttype_code (t : ttype) : Z :=
  match t with Unknown => 0 | Eof => 1 | Eol => 2 | Float => 3 | Integer => 4 | HexDecimal => 5 | Number => 6 | Symbol => 7
             | Quoted => 8 | Word => 9 | Keyword => 10 | Whitespace => 11 | Comment => 12 | Special => 13 end.
Definition ttype_eqb (a b : ttype) : bool := ttype_code a =? ttype_code b.
Lemma ttype_eqb_eq a b : ttype_eqb a b = true <-> a = b.
Proof. unfold ttype_eqb. split; [|intros ->; apply Z.eqb_refl]. destruct a, b; simpl; intros H; try reflexivity; discriminate. Qed.

Record token := { ty : ttype; value : str; line : Z; col : Z }.
Definition mk (t : ttype) (v : str) (lc : Z * Z) : token := {| ty := t; value := v; line := fst lc; col := snd lc |}.

(* no rune of a string equals the end-of-input marker *)
Definition wf_str (l : str) : Prop := Forall (fun c => 0 <= c) l.

Definition at_ (l : str) (i : nat) : Z := nth i l eof.
Definition slice (l : str) (a b : nat) : str := firstn (b - a) (skipn a l).

Lemma at_eof_iff l i : wf_str l -> (at_ l i = eof <-> (length l <= i)%nat).
Proof.
  intros Hwf. unfold at_, eof. split.
  - intros H. destruct (Nat.le_gt_cases (length l) i) as [|Hlt]; auto.
    exfalso. assert (Hin: In (nth i l (-1)) l) by (apply nth_In; lia).
    unfold wf_str in Hwf. rewrite Forall_forall in Hwf. apply Hwf in Hin. lia.
  - intros H. apply nth_overflow. lia.
Qed.

Lemma slice_nil l a : slice l a a = [].
Proof. unfold slice. rewrite Nat.sub_diag. reflexivity. Qed.

Lemma slice_length l a b : (a <= b <= length l)%nat -> length (slice l a b) = (b - a)%nat.
Proof. intros H. unfold slice. rewrite firstn_length, skipn_length. lia. Qed.

Lemma slice_snoc l a b : (a <= b)%nat -> (b < length l)%nat -> slice l a b ++ [at_ l b] = slice l a (S b).
Proof.
  intros Hab Hb. unfold slice, at_.
  replace (S b - a)%nat with (S (b - a)) by lia.
  assert (Hn: nth b l eof = nth (b - a) (skipn a l) eof).
  { rewrite <- (firstn_skipn a l) at 1. rewrite app_nth2; rewrite firstn_length; [|lia]. f_equal. lia. }
  rewrite Hn. generalize (skipn_length a l). intros Hsl.
  assert (Hlt: (b - a < length (skipn a l))%nat) by lia.
  revert Hlt. generalize (skipn a l) (b - a)%nat. clear. intros m n. revert m.
  induction n as [|n IH]; intros [|x m] H; simpl in *; try lia; auto.
  f_equal. apply IH. lia.
Qed.

Lemma firstn_add_skipn {A} (n m : nat) (l : list A) : firstn (n + m) l = firstn n l ++ firstn m (skipn n l).
Proof. revert l. induction n as [|n IH]; intros l; [reflexivity|]. destruct l as [|x l]; simpl; [rewrite firstn_nil; reflexivity|]. rewrite IH. reflexivity. Qed.

Lemma skipn_add {A} (n m : nat) (l : list A) : skipn n (skipn m l) = skipn (n + m) l.
Proof. revert l. induction m as [|m IH]; intros l; [rewrite Nat.add_0_r; reflexivity|]. rewrite Nat.add_succ_r. destruct l as [|x l]; [rewrite !skipn_nil; reflexivity|]. simpl. apply IH. Qed.

Lemma slice_app l a b c : (a <= b <= c)%nat -> slice l a b ++ slice l b c = slice l a c.
Proof.
  intros H. unfold slice.
  replace (c - a)%nat with ((b - a) + (c - b))%nat by lia.
  rewrite firstn_add_skipn. rewrite skipn_add. replace (b - a + a)%nat with b by lia. reflexivity.
Qed.

Lemma slice_full l : slice l 0 (length l) = l.
Proof. unfold slice. rewrite Nat.sub_0_r. simpl. apply firstn_all. Qed.

Definition ttype_of_code (z : Z) : ttype :=
  match z with 1 => Eof | 2 => Eol | 3 => Float | 4 => Integer | 5 => HexDecimal | 6 => Number | 7 => Symbol
             | 8 => Quoted | 9 => Word | 10 => Keyword | 11 => Whitespace | 12 => Comment | 13 => Special | _ => Unknown end.
Lemma ttype_of_code_code t : ttype_of_code (ttype_code t) = t.
Proof. destruct t; reflexivity. Qed.
