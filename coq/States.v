(* Models of the tokenizer states (after repairs F4, F5, F7), over the abstract cursor.
   lc s  = Line(), Column() of the scanner at cursor s ;  plc s = PeekLine(), PeekColumn(). *)
Require Import Base Cursor Trie.

Section States.
  Variable lc : cur -> Z * Z.
  Variable plc : cur -> Z * Z.

  Definition LF : Z := 10.
  Definition CR : Z := 13.
  Definition is_digit (c : Z) : bool := (48 <=? c) && (c <=? 57).

  (* ---- GenericWordState / GenericWhitespaceState / GenericCommentState: "append while in class, then push back" ---- *)
  Definition class_next (cls : Z -> bool) (t : ttype) (s0 : cur) : token * cur :=
    let '(c, s1) := read s0 in
    let pos := lc s1 in
    let '(c', s2, tok) := read_while cls (S (clen s0)) c s1 [] in
    let s3 := if c' =? eof then s2 else unread s2 in
    (mk t tok pos, s3).

  Definition word_next (wordchar : Z -> bool) := class_next wordchar Word.
  Definition ws_next (wschar : Z -> bool) := class_next wschar Whitespace.
  Definition hash_comment_next := class_next (fun c => negb ((c =? eof) || (c =? LF) || (c =? CR))) Comment.

  (* ExpressionWordState: keywords keep their spelling, only the type changes *)
  Definition expr_word_next (wordchar : Z -> bool) (is_keyword : str -> bool) (s0 : cur) : token * cur :=
    let pos := plc s0 in
    let '(tok, s1) := word_next wordchar s0 in
    if is_keyword (value tok) then (mk Keyword (value tok) pos, s1) else (tok, s1).

  (* ---- quote states ---- *)
  Fixpoint gquote_loop (fuel : nat) (q c : Z) (s : cur) (tok : str) : cur * str :=
    match fuel with O => (s, tok) | S f =>
      if c =? eof then (s, tok)
      else let tok := tok ++ [c] in
           if c =? q then (s, tok) else let '(c', s') := read s in gquote_loop f q c' s' tok end.

  Definition gquote_next (s0 : cur) : token * cur :=
    let '(q, s1) := read s0 in
    let pos := lc s1 in
    let '(c, s2) := read s1 in
    let '(s3, tok) := gquote_loop (S (clen s0)) q c s2 [q] in
    (mk Quoted tok pos, s3).

  (* ExpressionQuoteState and CsvQuoteState: a doubled quote is data *)
  Fixpoint dquote_loop (fuel : nat) (q c : Z) (s : cur) (tok : str) : cur * str :=
    match fuel with O => (s, tok) | S f =>
      if c =? eof then (s, tok)
      else let tok := tok ++ [c] in
           if c =? q then
             if peek s =? q then
               let '(c1, s1) := read s in
               let tok := tok ++ [c1] in
               let '(c2, s2) := read s1 in dquote_loop f q c2 s2 tok
             else (s, tok)
           else let '(c', s') := read s in dquote_loop f q c' s' tok end.

  Definition dquote_next (type_of : Z -> ttype) (s0 : cur) : token * cur :=
    let '(q, s1) := read s0 in
    let pos := lc s1 in
    let '(c, s2) := read s1 in
    let '(s3, tok) := dquote_loop (S (clen s0)) q c s2 [q] in
    (mk (type_of q) tok pos, s3).
  Definition expr_quote_next := dquote_next (fun q => if q =? 34 then Word else Quoted).
  Definition csv_quote_next := dquote_next (fun _ => Quoted).

  (* ---- GenericNumberState (F4: the look-ahead is always pushed back) ---- *)
  Definition number_next (symbol : cur -> token * cur) (s0 : cur) : token * cur :=
    let fuel := S (clen s0) in
    let '(c0, s1) := read s0 in
    let pos := lc s1 in
    let '(tok, c1, s2) := if c0 =? 45 then let '(c, s) := read s1 in ([45], c, s) else ([], c0, s1) in
    let '(c2, s3, tok2) := read_while is_digit fuel c1 s2 tok in
    let got := negb (Nat.eqb (length tok2) (length tok)) in
    let '(c3, s4, tok3, got2, dot) :=
      if c2 =? 46 then
        let '(c, s) := read s3 in
        let '(c', s', t') := read_while is_digit fuel c s (tok2 ++ [46]) in
        (c', s', t', got || negb (Nat.eqb (length t') (S (length tok2))), true)
      else (c2, s3, tok2, got, false) in
    let s5 := unread s4 in
    if got2 then (mk (if dot then Float else Integer) tok3 pos, s5)
    else symbol (unread_many (length tok3) s5).

  (* ---- ExpressionNumberState: minus goes to the symbol state, scientific notation ---- *)
  Fixpoint peek_while (cls : Z -> bool) (fuel : nat) (s : cur) (tok : str) : cur * str :=
    match fuel with O => (s, tok) | S f =>
      if cls (peek s) then let '(c, s') := read s in peek_while cls f s' (tok ++ [c]) else (s, tok) end.

  Definition expr_number_next (symbol : cur -> token * cur) (s0 : cur) : token * cur :=
    let pos := plc s0 in
    if peek s0 =? 45 then symbol s0
    else
      let '(tok, s1) := number_next symbol s0 in
      if negb (ttype_eqb (ty tok) Integer) && negb (ttype_eqb (ty tok) Float) then (tok, s1)
      else if negb (peek s1 =? 101) && negb (peek s1 =? 69) then (tok, s1)
      else
        let '(e, s2) := read s1 in
        let '(tv, s3) := if (peek s2 =? 45) || (peek s2 =? 43) then let '(sg, s) := read s2 in ([e; sg], s) else ([e], s2) in
        if negb (is_digit (peek s3)) then (tok, unread_many (length tv) s3)
        else let '(s4, tv') := peek_while is_digit (S (clen s0)) s3 tv in
             (mk Float (value tok ++ tv') pos, s4).

  (* ---- CCommentState (F5); panics unless started on a slash ---- *)
  Fixpoint ml_loop (fuel : nat) (last c : Z) (s : cur) (tok : str) : cur * str :=
    match fuel with O => (s, tok) | S f =>
      if c =? eof then (s, tok)
      else let tok := tok ++ [c] in
           if (last =? 42) && (c =? 47) then (s, tok) else let '(c', s') := read s in ml_loop f c c' s' tok end.

  Definition c_comment_next (symbol : cur -> token * cur) (s0 : cur) : option (token * cur) :=
    let '(c1, s1) := read s0 in
    let pos := lc s1 in
    if negb (c1 =? 47) then None                                   (* panic("Incorrect usage of CppCommentState.") *)
    else
      let '(c2, s2) := read s1 in
      if c2 =? 42 then
        let '(c3, s3) := read s2 in
        let '(s4, tok) := ml_loop (S (clen s0)) 0 c3 s3 [47; 42] in
        Some (mk Comment tok pos, s4)
      else Some (symbol (unread (unread s2))).

  (* ---- CsvSymbolState ---- *)
  Definition csv_symbol_next (symbol : cur -> token * cur) (s0 : cur) : token * cur :=
    let '(c, s1) := read s0 in
    let pos := lc s1 in
    if negb (c =? LF) && negb (c =? CR) then (mk Symbol [c] pos, s1) else symbol (unread s1).

  (* ---- MustacheSpecialState: text up to the next "{{" ---- *)
  Fixpoint special_loop (fuel : nat) (c : Z) (s : cur) (tok : str) : cur * str :=
    match fuel with O => (s, tok) | S f =>
      if c =? eof then (s, tok)
      else if (c =? 123) && (peek s =? 123) then (unread s, tok)
      else let '(c', s') := read s in special_loop f c' s' (tok ++ [c]) end.

  Definition special_next (s0 : cur) : token * cur :=
    let pos := plc s0 in
    let '(c, s1) := read s0 in
    let '(s2, tok) := special_loop (S (clen s0)) c s1 [] in
    (mk Special tok pos, s2).
End States.
