From Coq Require Import List ZArith Bool Lia.
Import ListNotations.
Open Scope Z_scope.

(* Model of tokenizers/utilities/CharReferenceMap.go (after repair F3). References are an abstract type;
   None is the empty (nil) reference. *)
Section CharMap.
  Variable R : Type.

  Record cmap := { table : list (option R);                 (* 256 entries, 0x00..0xFF *)
                   others : list (Z * Z * option R) }.      (* newest first, all within 0x100..0xFFFE *)

  Definition empty : cmap := {| table := repeat None 256; others := [] |}.

  (* table[i] := r for start <= i <= stop *)
  Fixpoint fill (t : list (option R)) (i : Z) (start stop : Z) (r : option R) : list (option R) :=
    match t with [] => [] | x :: t' => (if (start <=? i) && (i <=? stop) then r else x) :: fill t' (i + 1) start stop r end.

  Inductive result := Done (m : cmap) | Panic.

  Definition add_interval (m : cmap) (start stop : Z) (r : option R) : result :=
    if stop <? start then Panic                                   (* panic("Start must be less or equal End") *)
    else
      let stop := if 65535 <=? stop then 65534 else stop in
      let t := fill (table m) 0 start stop r in
      if 256 <=? stop then
        let start' := if start <? 256 then 256 else start in
        if stop <? start' then Panic                              (* NewCharReferenceInterval panics *)
        else Done {| table := t; others := (start', stop, r) :: others m |}
      else Done {| table := t; others := others m |}.

  Definition add_default (m : cmap) (r : option R) : result := add_interval m 0 65534 r.
  Definition clear (m : cmap) : cmap := empty.

  Fixpoint find (l : list (Z * Z * option R)) (c : Z) : option R :=
    match l with [] => None | (a, b, r) :: l' => if (a <=? c) && (c <=? b) then r else find l' c end.

  Definition lookup (m : cmap) (c : Z) : option R :=
    if c <? 0 then None else if c <? 256 then nth (Z.to_nat c) (table m) None else find (others m) c.

  (* ---------- history and specification ---------- *)
  Inductive op := Add (start stop : Z) (r : option R) | Default (r : option R) | Clear.

  Definition apply (m : cmap) (o : op) : result :=
    match o with Add a b r => add_interval m a b r | Default r => add_default m r | Clear => Done (clear m) end.

  Fixpoint run (m : cmap) (ops : list op) : result :=
    match ops with [] => Done m | o :: ops' => match apply m o with Done m' => run m' ops' | Panic => Panic end end.

  (* "the most recent registration whose range contains c", walking the history backwards *)
  Definition covers (o : op) (c : Z) : option (option R) :=
    match o with
    | Add a b r => if (a <=? c) && (c <=? (if 65535 <=? b then 65534 else b)) then Some r else None
    | Default r => if (0 <=? c) && (c <=? 65534) then Some r else None
    | Clear => Some None
    end.
  Fixpoint latest (rev_ops : list op) (c : Z) : option R :=
    match rev_ops with [] => None | o :: rest => match covers o c with Some r => r | None => latest rest c end end.
  Definition spec_lookup (ops : list op) (c : Z) : option R := latest (rev ops) c.
End CharMap.
