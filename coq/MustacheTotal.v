(* C03, templates: lexical analysis and section parsing of ANY token sequence end in a tree or an error code -
   never a panic, never out of fuel (the fuel |tokens|+1 given by mparse always suffices). *)
From Coq Require Import List ZArith Bool Lia.
Import ListNotations.
Require Import Mustache.
Open Scope Z_scope.

Lemma close_tag_total l v : (exists x, close_tag l v = Ok x) \/ (exists e, close_tag l v = Err e).
Proof.
  unfold close_tag. destruct (negb (str_eqb (closing l) v)); [right; eauto|].
  match goal with |- context [match ?k with Some _ => _ | None => _ end] => destruct k end; [left|right]; eauto.
Qed.

Lemma lex_tok_total l t : (exists x, lex_tok l t = Ok x) \/ (exists e, lex_tok l t = Err e).
Proof.
  unfold lex_tok.
  match goal with |- context [if ?b then Ok (l, None) else _] => destruct b end; [left; eauto|].
  set (l' := match st l with SComment => _ | _ => l end).
  destruct (ty t); destruct (st l');
    repeat match goal with
           | |- context [if ?b then _ else _] => destruct b
           end; try (left; eexists; reflexivity); try (right; eexists; reflexivity); apply close_tag_total.
Qed.

Theorem lex_all_total : forall ts l acc, (exists ms, lex_all l ts acc = Ok ms) \/ (exists e, lex_all l ts acc = Err e).
Proof.
  induction ts as [|t r IH]; intros l acc; cbn [lex_all].
  - destruct (st l); [left|right|right|right|right|right]; eauto.
  - destruct (lex_tok_total l t) as [[[l' [m|]] E]|[e E]]; rewrite E; [apply IH|apply IH|right; eauto].
Qed.

(* the section parser: with fuel above the number of tokens it never runs out, and what it leaves is no longer than what it got *)
Definition good (fuel : nat) (e : option str) (ts : list mtoken) (acc : list mnode) : Prop :=
  (exists ns rest, parse_seq fuel e ts acc = Ok (ns, rest) /\ (length rest <= length ts)%nat /\ (ts <> [] -> e <> None -> (length rest < length ts)%nat)) \/
  (exists er, parse_seq fuel e ts acc = Err er).

Lemma parse_seq_total : forall fuel e ts acc, (length ts < fuel)%nat -> good fuel e ts acc.
Proof.
  induction fuel as [|f IH]; intros e ts acc Hf; [lia|]. unfold good. cbn [parse_seq].
  destruct ts as [|t r].
  - destruct e; [right; eauto|left; exists acc, []; split; [reflexivity|split; [lia|congruence]]].
  - cbn [length] in Hf.
    (* a leaf token: continue with the rest *)
    assert (Leaf: forall k, (exists ns rest, parse_seq f e r (acc ++ [Leaf k (mv t)]) = Ok (ns, rest) /\ (length rest <= length (t :: r))%nat /\
                               (t :: r <> [] -> e <> None -> (length rest < length (t :: r))%nat)) \/
                            (exists er, parse_seq f e r (acc ++ [Leaf k (mv t)]) = Err er)).
    { intros k. destruct (IH e r (acc ++ [Leaf k (mv t)]) ltac:(lia)) as [(ns & rest & E & Hl & _)|[er E]]; [left|right; eauto].
      exists ns, rest. split; [exact E|]. cbn [length]. split; [lia|intros; lia]. }
    (* a section token: parse the body, then continue *)
    assert (Sec: forall k, match r with
               | [] => Err EUnexpectedEnd
               | _ => match parse_seq f (Some (mv t)) r [] with
                      | Ok (body, r') => parse_seq f e r' (acc ++ [Sec k (mv t) body])
                      | Err er => Err er | Panic => Panic | Fuel => Fuel end
               end = match r with [] => Err EUnexpectedEnd | _ => match parse_seq f (Some (mv t)) r [] with
                      | Ok (body, r') => parse_seq f e r' (acc ++ [Sec k (mv t) body]) | Err er => Err er | Panic => Panic | Fuel => Fuel end end ->
             (exists ns rest, match r with [] => Err EUnexpectedEnd | _ => match parse_seq f (Some (mv t)) r [] with
                      | Ok (body, r') => parse_seq f e r' (acc ++ [Sec k (mv t) body]) | Err er => Err er | Panic => Panic | Fuel => Fuel end end = Ok (ns, rest) /\
                    (length rest <= length (t :: r))%nat /\ (t :: r <> [] -> e <> None -> (length rest < length (t :: r))%nat)) \/
             (exists er, match r with [] => Err EUnexpectedEnd | _ => match parse_seq f (Some (mv t)) r [] with
                      | Ok (body, r') => parse_seq f e r' (acc ++ [Sec k (mv t) body]) | Err er => Err er | Panic => Panic | Fuel => Fuel end end = Err er)).
    { intros k _. destruct r as [|t2 r2]; [right; eauto|].
      destruct (IH (Some (mv t)) (t2 :: r2) [] ltac:(cbn [length] in *; lia)) as [(body & r' & E & Hl & Hs)|[er E]]; rewrite E; [|right; eauto].
      specialize (Hs ltac:(discriminate) ltac:(discriminate)).
      destruct (IH e r' (acc ++ [Sec k (mv t) body]) ltac:(cbn [length] in *; lia)) as [(ns & rest & E2 & Hl2 & _)|[er E2]]; [left|right; eauto].
      exists ns, rest. split; [exact E2|]. cbn [length] in *. split; [lia|intros; lia]. }
    destruct (mk t) eqn:Ek; cbn [is_sec].
    + destruct e; apply Leaf.
    + destruct e; apply Leaf.
    + destruct e; apply Leaf.
    + destruct e; apply (Sec KSection); reflexivity.
    + destruct e; apply (Sec KInverted); reflexivity.
    + destruct e as [v|]; [|right; eauto]. destruct (str_eqb (mv t) v || str_eqb (mv t) []); [|right; eauto].
      left. exists acc, r. split; [reflexivity|]. cbn [length]. split; [lia|intros; lia].
    + destruct e; apply Leaf.
Qed.

Theorem mparse_total ts : (exists ns, mparse ts = Ok ns) \/ (exists e, mparse ts = Err e).
Proof.
  unfold mparse. destruct ts as [|t r]; [right; eauto|].
  destruct (parse_seq_total (S (length (t :: r))) None (t :: r) [] ltac:(lia)) as [(ns & rest & E & _)|[er E]]; rewrite E; [left|right]; eauto.
Qed.
