(* Executable glue for C17: character-class map histories.
   input  = L [ops; probes]; op = L [I 0; start; stop; ref] | L [I 1; ref] | L [I 2]; ref 0 = empty reference
   output = L [I status; L [lookup ...]]   status 1 = the history panicked (then no lookups); lookup 0 = nothing *)
From Coq Require Import List ZArith Bool.
Import ListNotations.
Require Import Sx CharMap.
Open Scope Z_scope.

Definition dec_ref (s : sx) : option Z := if gz s =? 0 then None else Some (gz s).
Definition dec_op17 (s : sx) : op Z :=
  match gz (nth_sx 0 s) with
  | 0 => Add Z (gz (nth_sx 1 s)) (gz (nth_sx 2 s)) (dec_ref (nth_sx 3 s))
  | 1 => Default Z (dec_ref (nth_sx 1 s))
  | _ => Clear Z
  end.
Definition enc_ref (r : option Z) : sx := match r with None => I 0 | Some z => I z end.

Definition model_C17 (input : sx) : sx :=
  match run Z (empty Z) (map dec_op17 (gl (nth_sx 0 input))) with
  | Panic _ => L [I 1; L []]
  | Done _ m => L [I 0; L (map (fun c => enc_ref (lookup Z m (gz c))) (gl (nth_sx 1 input)))]
  end.
