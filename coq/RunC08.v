(* Executable glue for C08: a default function looked up by name (any letter case) and called with arguments.
   input  = L [I manager; name; L [arg ...]; oracle]
   output = L [I 0; value] | L [I 1; I code]   codes as for C06 plus 6 WRONG_PARAM_COUNT 7 CALC_FAILED 8 function not found
   Clock and random results are canonical markers (Ticks -> Long 0, Now -> DateTime 0, Rnd -> Float +0): the harness
   replaces an in-range answer of the implementation by the same marker. *)
From Coq Require Import List ZArith Bool.
From Coq Require Import Floats.SpecFloat.
Import ListNotations.
Require Import Sx HostFloat Variant Functions RunVar Tables TokModel.
Open Scope Z_scope.

Definition find_fn (name : list Z) : option Z :=
  let u := upper name in
  (fix go (l : list (list Z * Z)) := match l with [] => None | (n, c) :: r => if Variant.str_eqb (upper n) u then Some c else go r end) default_functions.

Definition err_code8 (c : Variant.str) : Z :=
  if Variant.str_eqb c param_err then 6 else if Variant.str_eqb c calc_failed then 7 else err_code c.
Definition enc_res8 (orc : list sx) (r : outcome (value (HF orc))) : sx :=
  match r with Ok v => L [I 0; enc_val orc v] | Err c => L [I 1; I (err_code8 c)] | Panic => L [I (-999)] end.

Definition model_C08 (input : sx) : sx :=
  let orc := gl (nth_sx 3 input) in
  let safe := gb (nth_sx 0 input) in
  let args := map (dval orc) (gl (nth_sx 2 input)) in
  match find_fn (gstr (nth_sx 1 input)) with
  | None => L [I 1; I 8]
  | Some code =>
      enc_res8 orc (delegated (HF orc) (mgr orc safe)
        (fun c f => b64_of_bits (gz (ask orc 30 (L [I c; I (bits_of_b64 f)]))))
        SFabs SFabs
        (fun l => gz (ask orc 10 (L (map I l))))
        (fun t => gz (ask orc 11 (I t)))
        0 0 (S754_zero false)
        (b32_of_bits 1076754516) (b32_of_bits 1078530011)
        code args)
  end.
