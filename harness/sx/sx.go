// Package sx is the wire format shared by the harness, the Coq models and the OCaml driver:
// an S-expression is an integer or a list.  Text form:  12  -3  (1 2 (3) ())
package sx

import (
	"fmt"
	"math/big"
	"strconv"
	"strings"
)

// SX is either Int or List.
type SX interface{ isSX() }

type Int struct{ V *big.Int }
type List []SX

func (Int) isSX()  {}
func (List) isSX() {}

func I(v int64) SX  { return Int{big.NewInt(v)} }
func U(v uint64) SX { return Int{new(big.Int).SetUint64(v)} }
func N(v int) SX    { return I(int64(v)) }
func L(xs ...SX) SX { return List(xs) }
func B(b bool) SX {
	if b {
		return I(1)
	}
	return I(0)
}

// S encodes a string as the list of its code points.
func S(s string) SX {
	out := make(List, 0, len(s))
	for _, r := range s {
		out = append(out, I(int64(r)))
	}
	return out
}

// R encodes a rune slice.
func R(rs []rune) SX {
	out := make(List, 0, len(rs))
	for _, r := range rs {
		out = append(out, I(int64(r)))
	}
	return out
}

func Text(x SX) string {
	var sb strings.Builder
	write(&sb, x)
	return sb.String()
}

func write(sb *strings.Builder, x SX) {
	switch v := x.(type) {
	case Int:
		sb.WriteString(v.V.String())
	case List:
		sb.WriteByte('(')
		for i, e := range v {
			if i > 0 {
				sb.WriteByte(' ')
			}
			write(sb, e)
		}
		sb.WriteByte(')')
	default:
		panic(fmt.Sprintf("sx: bad node %T", x))
	}
}

// Parse reads one S-expression from its text form.
func Parse(s string) (SX, error) {
	p := &parser{s: s}
	x, err := p.parse()
	if err != nil {
		return nil, err
	}
	p.ws()
	if p.i != len(p.s) {
		return nil, fmt.Errorf("sx: trailing input at %d", p.i)
	}
	return x, nil
}

type parser struct {
	s string
	i int
}

func (p *parser) ws() {
	for p.i < len(p.s) && (p.s[p.i] == ' ' || p.s[p.i] == '\n' || p.s[p.i] == '\t') {
		p.i++
	}
}

func (p *parser) parse() (SX, error) {
	p.ws()
	if p.i >= len(p.s) {
		return nil, fmt.Errorf("sx: unexpected end")
	}
	if p.s[p.i] == '(' {
		p.i++
		out := List{}
		for {
			p.ws()
			if p.i >= len(p.s) {
				return nil, fmt.Errorf("sx: unclosed list")
			}
			if p.s[p.i] == ')' {
				p.i++
				return out, nil
			}
			e, err := p.parse()
			if err != nil {
				return nil, err
			}
			out = append(out, e)
		}
	}
	j := p.i
	for j < len(p.s) && p.s[j] != ' ' && p.s[j] != ')' && p.s[j] != '(' && p.s[j] != '\n' {
		j++
	}
	v, ok := new(big.Int).SetString(p.s[p.i:j], 10)
	if !ok {
		return nil, fmt.Errorf("sx: bad integer %q", p.s[p.i:j])
	}
	p.i = j
	return Int{v}, nil
}

// Decoders (panic on shape errors: a replay file that does not fit is a harness error).
func AsInt(x SX) int64 { return x.(Int).V.Int64() }
func AsList(x SX) List { return x.(List) }
func AsBool(x SX) bool { return AsInt(x) != 0 }
func AsString(x SX) string {
	var sb strings.Builder
	for _, e := range x.(List) {
		sb.WriteRune(rune(AsInt(e)))
	}
	return sb.String()
}
func AsRunes(x SX) []rune {
	l := x.(List)
	out := make([]rune, len(l))
	for i, e := range l {
		out[i] = rune(AsInt(e))
	}
	return out
}

// Quote renders a string readably for replay files.
func Quote(s string) string { return strconv.QuoteToASCII(s) }
