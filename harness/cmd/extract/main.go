// Table extractor prototype: reads literal tables out of the Go sources with go/ast and prints Coq definitions.
package main

import (
	"fmt"
	"go/ast"
	"go/parser"
	"go/token"
	"os"
	"path/filepath"
	"strconv"
	"strings"
)

var fset = token.NewFileSet()

func parse(root, rel string) *ast.File {
	f, err := parser.ParseFile(fset, filepath.Join(root, rel), nil, 0)
	if err != nil {
		fmt.Fprintln(os.Stderr, "EXTRACT-FAIL", rel, err)
		os.Exit(2)
	}
	return f
}

func fail(msg string) {
	fmt.Fprintln(os.Stderr, "EXTRACT-FAIL", msg)
	os.Exit(2)
}

// string slice literal assigned to a package-level var
func stringSliceVar(f *ast.File, name string) []string {
	for _, d := range f.Decls {
		gd, ok := d.(*ast.GenDecl)
		if !ok || gd.Tok != token.VAR {
			continue
		}
		for _, sp := range gd.Specs {
			vs := sp.(*ast.ValueSpec)
			for i, n := range vs.Names {
				if n.Name == name && i < len(vs.Values) {
					cl, ok := vs.Values[i].(*ast.CompositeLit)
					if !ok {
						fail(name + ": not a composite literal")
					}
					var out []string
					for _, e := range cl.Elts {
						switch v := e.(type) {
						case *ast.BasicLit:
							s, _ := strconv.Unquote(v.Value)
							out = append(out, s)
						case *ast.Ident:
							out = append(out, v.Name)
						default:
							fail(name + ": unexpected element")
						}
					}
					return out
				}
			}
		}
	}
	fail(name + ": not found")
	return nil
}

// const ( A = iota; B; ... ) blocks -> names in order
func iotaConsts(f *ast.File) [][]string {
	var blocks [][]string
	for _, d := range f.Decls {
		gd, ok := d.(*ast.GenDecl)
		if !ok || gd.Tok != token.CONST {
			continue
		}
		var names []string
		for _, sp := range gd.Specs {
			for _, n := range sp.(*ast.ValueSpec).Names {
				names = append(names, n.Name)
			}
		}
		blocks = append(blocks, names)
	}
	return blocks
}

func runeVal(e ast.Expr) (int64, bool) {
	switch v := e.(type) {
	case *ast.BasicLit:
		switch v.Kind {
		case token.CHAR:
			r, _, _, err := strconv.UnquoteChar(v.Value[1:len(v.Value)-1], '\'')
			return int64(r), err == nil
		case token.INT:
			n, err := strconv.ParseInt(v.Value, 0, 64)
			return n, err == nil
		}
	case *ast.Ident:
		switch v.Name {
		case "CR":
			return 13, true
		case "LF":
			return 10, true
		}
	}
	return 0, false
}

func exprString(e ast.Expr) string {
	switch v := e.(type) {
	case *ast.Ident:
		return v.Name
	case *ast.SelectorExpr:
		return exprString(v.X) + "." + v.Sel.Name
	case *ast.CallExpr:
		return exprString(v.Fun) + "()"
	case *ast.BasicLit:
		return v.Value
	}
	return "?"
}

// all calls `<recv>.<method>(args...)` inside function fn, in source order
func callsIn(f *ast.File, fn string, method string) [][]ast.Expr {
	var out [][]ast.Expr
	for _, d := range f.Decls {
		fd, ok := d.(*ast.FuncDecl)
		if !ok || fd.Name.Name != fn {
			continue
		}
		ast.Inspect(fd.Body, func(n ast.Node) bool {
			ce, ok := n.(*ast.CallExpr)
			if !ok {
				return true
			}
			if se, ok := ce.Fun.(*ast.SelectorExpr); ok && se.Sel.Name == method {
				out = append(out, ce.Args)
			}
			return true
		})
		return out
	}
	fail(fn + ": function not found")
	return nil
}

func coqStr(s string) string {
	var parts []string
	for _, r := range s {
		parts = append(parts, strconv.Itoa(int(r)))
	}
	return "[" + strings.Join(parts, "; ") + "]"
}

var ttCodes map[string]int

// ttCode resolves tokenizers.Symbol / tokenizers.Eol ... to its iota value in tokenizers/TokenType.go
func ttCode(root, name string) int {
	if ttCodes == nil {
		ttCodes = map[string]int{}
		blocks := iotaConsts(parse(root, "tokenizers/TokenType.go"))
		if len(blocks) != 1 {
			fail("TokenType.go: expected one const block")
		}
		for i, n := range blocks[0] {
			ttCodes[n] = i
		}
	}
	name = strings.TrimPrefix(name, "tokenizers.")
	c, ok := ttCodes[name]
	if !ok {
		fail("unknown token type " + name)
	}
	return c
}

// stateCode numbers the tokenizer states a character range can be handed to
func stateCode(e string) int {
	switch e {
	case "nil":
		return 0
	case "c.SymbolState()":
		return 1
	case "c.WhitespaceState()":
		return 2
	case "c.WordState()":
		return 3
	case "c.NumberState()":
		return 4
	case "c.QuoteState()":
		return 5
	case "c.CommentState()":
		return 6
	}
	fail("SetCharacterState with an unexpected state expression " + e)
	return -1
}

// implCode numbers the state implementations
func implCode(e string) int {
	e = strings.TrimPrefix(e, "generic.")
	switch e {
	case "nil":
		return 0
	case "NewGenericSymbolState()", "NewExpressionSymbolState()":
		return 1
	case "NewGenericNumberState()":
		return 2
	case "NewExpressionNumberState()":
		return 3
	case "NewGenericWordState()":
		return 4
	case "NewExpressionWordState()":
		return 5
	case "NewGenericWhitespaceState()":
		return 6
	case "NewGenericQuoteState()":
		return 7
	case "NewExpressionQuoteState()":
		return 8
	case "NewCsvQuoteState()":
		return 9
	case "NewGenericCommentState()":
		return 10
	case "NewCCommentState()":
		return 11
	case "NewCppCommentState()":
		return 12
	case "NewCsvSymbolState()":
		return 13
	case "NewCsvWordState()":
		return 14
	}
	fail("unexpected state implementation " + e)
	return -1
}

func main() {
	root := os.Args[1]
	if len(os.Args) > 2 && os.Args[2] == "--statespace" {
		fmt.Print("(* GENERATED from the Go sources by the table extractor; do not edit. *)\nRequire Import ZArith List. Import ListNotations. Open Scope Z_scope.\n" + stateSpace(root))
		return
	}
	var sb strings.Builder
	sb.WriteString("(* GENERATED from the Go sources by the table extractor; do not edit. *)\nRequire Import ZArith List. Import ListNotations. Open Scope Z_scope.\n\n")

	// 1. operators / operatorTypes
	pf := parse(root, "calculator/parsers/ExpressionParser.go")
	ops := stringSliceVar(pf, "operators")
	opTypes := stringSliceVar(pf, "operatorTypes")
	if len(ops) != len(opTypes) {
		fail("operators/operatorTypes length mismatch")
	}
	etBlocks := iotaConsts(parse(root, "calculator/parsers/ExpressionTokenType.go"))
	if len(etBlocks) != 1 {
		fail("ExpressionTokenType.go: expected one const block")
	}
	etCode := map[string]int{}
	for i, n := range etBlocks[0] {
		etCode[n] = i
	}
	sb.WriteString("Definition operator_table : list (list Z * Z) := [\n")
	for i := range ops {
		sep := ";"
		if i == len(ops)-1 {
			sep = ""
		}
		code, ok := etCode[opTypes[i]]
		if !ok {
			fail("operatorTypes: unknown expression token type " + opTypes[i])
		}
		sb.WriteString(fmt.Sprintf("  (%s, %d)%s  (* %q -> %s *)\n", coqStr(ops[i]), code, sep, ops[i], opTypes[i]))
	}
	sb.WriteString("].\n\n")

	// 2. keywords
	wf := parse(root, "calculator/tokenizers/ExpressionWordState.go")
	kws := stringSliceVar(wf, "Keywords")
	sb.WriteString("Definition keywords : list (list Z) := [")
	for i, k := range kws {
		if i > 0 {
			sb.WriteString("; ")
		}
		sb.WriteString(coqStr(k))
	}
	sb.WriteString("].\n\n")

	// 3. iota blocks
	for _, spec := range []struct{ file, name string }{{"tokenizers/TokenType.go", "tt"}, {"calculator/parsers/ExpressionTokenType.go", "et"}, {"mustache/parsers/MustacheTokenType.go", "mt"}, {"variants/VariantType.go", "vt"}} {
		blocks := iotaConsts(parse(root, spec.file))
		if len(blocks) != 1 {
			fail(spec.file + ": expected one const block")
		}
		sb.WriteString(fmt.Sprintf("(* %s: %s *)\n", spec.file, strings.Join(blocks[0], " ")))
		for i, n := range blocks[0] {
			sb.WriteString(fmt.Sprintf("Definition %s_%s : Z := %d.\n", spec.name, n, i))
		}
		sb.WriteString(fmt.Sprintf("Definition %s_count : Z := %d.\n", spec.name, len(blocks[0])))
	}
	sb.WriteString("\n")

	// 4. symbol registrations
	for _, spec := range []struct{ file, fn, name string }{
		{"calculator/tokenizers/ExpressionSymbolState.go", "NewExpressionSymbolState", "expr_symbols"},
		{"tokenizers/generic/GenericTokenizer.go", "NewGenericTokenizer", "generic_symbols"},
		{"csv/CsvSymbolState.go", "NewCsvSymbolState", "csv_symbols"},
		{"mustache/tokenizers/MustacheTokenizer.go", "NewMustacheTokenizer", "mustache_symbols"}} {
		calls := callsIn(parse(root, spec.file), spec.fn, "Add")
		sb.WriteString(fmt.Sprintf("Definition %s : list (list Z * Z) := [", spec.name))
		for i, args := range calls {
			if len(args) != 2 {
				fail(spec.fn + ": Add with unexpected arity")
			}
			bl, ok := args[0].(*ast.BasicLit)
			if !ok {
				fail(spec.fn + ": Add with non-literal symbol")
			}
			s, _ := strconv.Unquote(bl.Value)
			if i > 0 {
				sb.WriteString("; ")
			}
			sb.WriteString(fmt.Sprintf("(%s, %d)", coqStr(s), ttCode(root, exprString(args[1]))))
		}
		sb.WriteString("].\n")
	}
	sb.WriteString("\n")

	// 5. character-state tables
	for _, spec := range []struct{ file, fn, name string }{
		{"calculator/tokenizers/ExpressionTokenizer.go", "NewExpressionTokenizer", "expr_chartable"},
		{"tokenizers/generic/GenericTokenizer.go", "NewGenericTokenizer", "generic_chartable"},
		{"mustache/tokenizers/MustacheTokenizer.go", "NewMustacheTokenizer", "mustache_chartable"}} {
		calls := callsIn(parse(root, spec.file), spec.fn, "SetCharacterState")
		sb.WriteString(fmt.Sprintf("Definition %s : list (Z * Z * Z) := [", spec.name))
		for i, args := range calls {
			a, ok1 := runeVal(args[0])
			b, ok2 := runeVal(args[1])
			if !ok1 || !ok2 {
				fail(spec.fn + ": SetCharacterState with non-literal range")
			}
			if i > 0 {
				sb.WriteString(";\n    ")
			}
			sb.WriteString(fmt.Sprintf("(%d, %d, %d) (* %s *)", a, b, stateCode(exprString(args[2])), exprString(args[2])))
		}
		sb.WriteString("].\n")
	}
	// 5b. which implementation fills each state role: c.SetNumberState(NewExpressionNumberState()) ...
	for _, spec := range []struct{ file, fn, name string }{
		{"calculator/tokenizers/ExpressionTokenizer.go", "NewExpressionTokenizer", "expr_states"},
		{"tokenizers/generic/GenericTokenizer.go", "NewGenericTokenizer", "generic_states"},
		{"mustache/tokenizers/MustacheTokenizer.go", "NewMustacheTokenizer", "mustache_states"},
		{"csv/CsvTokenizer.go", "NewCsvTokenizer", "csv_states"}} {
		f := parse(root, spec.file)
		sb.WriteString(fmt.Sprintf("Definition %s : list (Z * Z) := [", spec.name))
		first := true
		for role, method := range []string{"", "SetSymbolState", "SetWhitespaceState", "SetWordState", "SetNumberState", "SetQuoteState", "SetCommentState"} {
			if role == 0 {
				continue
			}
			calls := callsIn(f, spec.fn, method)
			if len(calls) != 1 || len(calls[0]) != 1 {
				fail(spec.fn + ": expected exactly one " + method + " call")
			}
			if !first {
				sb.WriteString("; ")
			}
			first = false
			sb.WriteString(fmt.Sprintf("(%d, %d) (* %s(%s) *)", role, implCode(exprString(calls[0][0])), method, exprString(calls[0][0])))
		}
		sb.WriteString("].\n")
	}
	// 5c. default option flags set by the constructors (SetSkipWhitespaces(true) ...)
	for _, spec := range []struct{ file, fn, name string }{
		{"calculator/tokenizers/ExpressionTokenizer.go", "NewExpressionTokenizer", "expr_default_options"},
		{"tokenizers/generic/GenericTokenizer.go", "NewGenericTokenizer", "generic_default_options"},
		{"mustache/tokenizers/MustacheTokenizer.go", "NewMustacheTokenizer", "mustache_default_options"},
		{"csv/CsvTokenizer.go", "NewCsvTokenizer", "csv_default_options"}} {
		f := parse(root, spec.file)
		sb.WriteString(fmt.Sprintf("Definition %s : list (Z * bool) := [", spec.name))
		first := true
		for i, method := range []string{"SetSkipUnknown", "SetSkipWhitespaces", "SetSkipComments", "SetSkipEof", "SetMergeWhitespaces", "SetUnifyNumbers", "SetDecodeStrings"} {
			for _, args := range callsIn(f, spec.fn, method) {
				if !first {
					sb.WriteString("; ")
				}
				first = false
				sb.WriteString(fmt.Sprintf("(%d, %s)", i, exprString(args[0])))
			}
		}
		sb.WriteString("].\n")
	}
	// 6. word chars
	for _, spec := range []struct{ file, fn, name string }{
		{"tokenizers/generic/GenericWordState.go", "NewGenericWordState", "generic_wordchars"},
		{"calculator/tokenizers/ExpressionWordState.go", "NewExpressionWordState", "expr_wordchars"},
		{"tokenizers/generic/GenericWhitespaceState.go", "NewGenericWhitespaceState", "generic_wschars"}} {
		method := "SetWordChars"
		if strings.Contains(spec.name, "ws") {
			method = "SetWhitespaceChars"
		}
		calls := callsIn(parse(root, spec.file), spec.fn, method)
		sb.WriteString(fmt.Sprintf("Definition %s : list (Z * Z * bool) := [", spec.name))
		for i, args := range calls {
			a, ok1 := runeVal(args[0])
			b, ok2 := runeVal(args[1])
			if !ok1 || !ok2 {
				fail(spec.fn + ": non-literal range")
			}
			if i > 0 {
				sb.WriteString("; ")
			}
			sb.WriteString(fmt.Sprintf("(%d, %d, %s)", a, b, exprString(args[2])))
		}
		sb.WriteString("].\n")
	}
	// 7. default functions
	calls := callsIn(parse(root, "calculator/functions/DefaultFunctionCollection.go"), "NewDefaultFunctionCollection", "Add")
	sb.WriteString("\nDefinition default_functions : list (list Z * Z) := [\n")
	calcCodes := map[string]int{"ticksFunctionCalculator": 1, "timeSpanFunctionCalculator": 2, "nowFunctionCalculator": 3, "dateFunctionCalculator": 4,
		"dayOfWeekFunctionCalculator": 5, "minFunctionCalculator": 6, "maxFunctionCalculator": 7, "sumFunctionCalculator": 8, "ifFunctionCalculator": 9,
		"chooseFunctionCalculator": 10, "eFunctionCalculator": 11, "piFunctionCalculator": 12, "rndFunctionCalculator": 13, "absFunctionCalculator": 14,
		"acosFunctionCalculator": 15, "asinFunctionCalculator": 16, "atanFunctionCalculator": 17, "expFunctionCalculator": 18, "logFunctionCalculator": 19,
		"log10FunctionCalculator": 20, "ceilFunctionCalculator": 21, "floorFunctionCalculator": 22, "roundFunctionCalculator": 23, "truncFunctionCalculator": 24,
		"cosFunctionCalculator": 25, "sinFunctionCalculator": 26, "tanFunctionCalculator": 27, "sqrtFunctionCalculator": 28, "emptyFunctionCalculator": 29,
		"nullFunctionCalculator": 30, "containsFunctionCalculator": 31, "arrayFunctionCalculator": 32}
	for i, args := range calls {
		ce, ok := args[0].(*ast.CallExpr)
		if !ok || len(ce.Args) != 2 {
			fail("default functions: unexpected registration shape")
		}
		name, _ := strconv.Unquote(ce.Args[0].(*ast.BasicLit).Value)
		sep := ";"
		if i == len(calls)-1 {
			sep = ""
		}
		code, ok := calcCodes[exprString(ce.Args[1])]
		if !ok {
			fail("default functions: unknown calculator " + exprString(ce.Args[1]))
		}
		sb.WriteString(fmt.Sprintf("  (%s, %d)%s (* %s -> %s *)\n", coqStr(name), code, sep, name, exprString(ce.Args[1])))
	}
	sb.WriteString("].\n")
	fmt.Print(sb.String())
}
