// State space of the library: every struct type with its fields and every package-level variable, read from all
// non-test Go files of the repository. The Coq side (StateSpace.v) lists what the models account for; a field or a
// package-level variable the models do not know (a cache, a memo, a counter, a shared constant) breaks the obligation.
package main

import (
	"fmt"
	"go/ast"
	"go/parser"
	"go/token"
	"go/types"
	"os"
	"path/filepath"
	"sort"
	"strings"
)

func stateSpace(root string) string {
	type st struct {
		name   string
		fields []string
	}
	var structs []st
	var vars []string
	filepath.Walk(root, func(path string, info os.FileInfo, err error) error {
		if err != nil {
			return nil
		}
		rel, _ := filepath.Rel(root, path)
		if info.IsDir() {
			base := info.Name()
			if rel != "." && (base == "test" || strings.HasPrefix(base, ".") || strings.HasPrefix(base, "_") || base == "vendor") {
				return filepath.SkipDir
			}
			return nil
		}
		if !strings.HasSuffix(path, ".go") || strings.HasSuffix(path, "_test.go") {
			return nil
		}
		f, perr := parser.ParseFile(fset, path, nil, 0)
		if perr != nil {
			fail("state space: " + rel + ": " + perr.Error())
		}
		pkg := filepath.ToSlash(filepath.Dir(rel))
		for _, d := range f.Decls {
			gd, ok := d.(*ast.GenDecl)
			if !ok {
				continue
			}
			for _, sp := range gd.Specs {
				switch s := sp.(type) {
				case *ast.TypeSpec:
					stt, ok := s.Type.(*ast.StructType)
					if !ok {
						continue
					}
					e := st{name: pkg + "." + s.Name.Name}
					for _, fl := range stt.Fields.List {
						if len(fl.Names) == 0 {
							e.fields = append(e.fields, "embedded "+types.ExprString(fl.Type))
						}
						for _, n := range fl.Names {
							e.fields = append(e.fields, n.Name)
						}
					}
					structs = append(structs, e)
				case *ast.ValueSpec:
					if gd.Tok != token.VAR {
						continue
					}
					for _, n := range s.Names {
						if n.Name != "_" {
							vars = append(vars, pkg+"."+n.Name)
						}
					}
				}
			}
		}
		return nil
	})
	sort.Slice(structs, func(i, j int) bool { return structs[i].name < structs[j].name })
	sort.Strings(vars)
	var sb strings.Builder
	sb.WriteString("\n(* state space: every struct type of the library with its fields (declaration order) *)\n")
	sb.WriteString("Definition go_structs : list (list Z * list (list Z)) := [\n")
	for i, e := range structs {
		sep := ";"
		if i == len(structs)-1 {
			sep = ""
		}
		var fs []string
		for _, f := range e.fields {
			fs = append(fs, coqStr(f))
		}
		sb.WriteString(fmt.Sprintf("  (%s, [%s])%s (* %s: %s *)\n", coqStr(e.name), strings.Join(fs, "; "), sep, e.name, strings.Join(e.fields, ", ")))
	}
	sb.WriteString("].\n")
	sb.WriteString("(* every package-level variable of the library *)\n")
	sb.WriteString("Definition go_package_vars : list (list Z) := [\n")
	for i, v := range vars {
		sep := ";"
		if i == len(vars)-1 {
			sep = ""
		}
		sb.WriteString(fmt.Sprintf("  %s%s (* %s *)\n", coqStr(v), sep, v))
	}
	sb.WriteString("].\n")
	return sb.String()
}
