package main

import (
	"fmt"
	"strings"

	"harness/sx"

	sio "github.com/pip-services3-gox/pip-services3-expressions-gox/io"
	"github.com/pip-services3-gox/pip-services3-expressions-gox/tokenizers/generic"
)

// C16 — symbol tables. One GenericSymbolState per case; every input is read through that same instance
// (so a cache poisoned by a sibling symbol shows).
// input  = (regs inputs), reg = (symbol type); output = ((type value remaining) ...)
func init() {
	register(&Prop{
		ID:   "C16",
		Rule: "registration lists over the strings of length 1..3 over {a,b,c} (every ordered list of size<=2, sampled of size 3; thorough: all of size<=2 and 1/8 of size 3) with distinct token types, each run on every input of length 1..4 over {a,b,c,d}; plus random sets of up to 6 symbols of length<=4 over {a,b,<,=,>,e-acute,CJK} on random inputs; non-trivial = two registered symbols share a prefix; distinct by input hash",
		Gen:  genC16,
		Run:  runC16,
		Human: func(in sx.SX) string {
			l := sx.AsList(in)
			var regs []string
			for _, r := range sx.AsList(l[0]) {
				rr := sx.AsList(r)
				regs = append(regs, fmt.Sprintf("Add(%s,%d)", sx.Quote(sx.AsString(rr[0])), sx.AsInt(rr[1])))
			}
			ins := sx.AsList(l[1])
			ex := ""
			if len(ins) > 0 {
				ex = sx.Quote(sx.AsString(ins[0]))
			}
			return fmt.Sprintf("%s ; %d inputs through the same state, e.g. %s", strings.Join(regs, " "), len(ins), ex)
		},
	})
}

func c16Nontrivial(syms []string) bool {
	for i, a := range syms {
		for j, b := range syms {
			if i != j && a != b && strings.HasPrefix(b, a) {
				return true
			}
			if i < j && a != b && len(a) > 1 && len(b) > 1 && a[0] == b[0] {
				return true
			}
		}
	}
	return false
}

func genC16(ctx *Ctx) {
	var strs []string
	var rec func(cur string, k int)
	rec = func(cur string, k int) {
		if cur != "" {
			strs = append(strs, cur)
		}
		if k == 0 {
			return
		}
		for _, c := range "abc" {
			rec(cur+string(c), k-1)
		}
	}
	rec("", 3)
	var inputs sx.List
	var rec2 func(cur string, k int)
	rec2 = func(cur string, k int) {
		if cur != "" {
			inputs = append(inputs, sx.S(cur))
		}
		if k == 0 {
			return
		}
		for _, c := range "abcd" {
			rec2(cur+string(c), k-1)
		}
	}
	rec2("", 4)
	types := []int64{7, 9, 10, 2, 12, 13, 0} // Symbol Word Keyword Eol Comment Special Unknown
	emit := func(syms []string) {
		var regs sx.List
		for i, s := range syms {
			regs = append(regs, sx.L(sx.S(s), sx.I(types[i%len(types)])))
		}
		ctx.Count(fmt.Sprintf("exhaustive-size:%d", len(syms)))
		ctx.Input(sx.L(regs, inputs), c16Nontrivial(syms))
	}
	for _, a := range strs {
		emit([]string{a})
	}
	k := 0
	for _, a := range strs {
		for _, b := range strs {
			k++
			if !ctx.Thorough && k%6 != int(ctx.Rnd.Int63()%6) {
				continue
			}
			emit([]string{a, b}) // a == b included: re-registration with another type
		}
	}
	n3 := 150
	if ctx.Thorough {
		n3 = 7000
	}
	for i := 0; i < n3; i++ {
		emit([]string{strs[ctx.Rnd.Intn(len(strs))], strs[ctx.Rnd.Intn(len(strs))], strs[ctx.Rnd.Intn(len(strs))]})
	}
	// long symbols (4 .. 17 characters) that differ only in their last character, each read several times in turns
	for _, plen := range []int{3, 4, 5, 7, 8, 15, 16} {
		pre := strings.Repeat("=<>", 6)[:plen]
		syms := []string{pre + "a", pre + "b", pre + "é", pre}
		var regs, ins sx.List
		for i, sy := range syms {
			regs = append(regs, sx.L(sx.S(sy), sx.I(types[i%len(types)])))
		}
		for _, in := range []string{syms[0], syms[1], syms[0], syms[2] + "z", syms[1] + "q", syms[0] + syms[1], syms[3] + "x", syms[0], pre[:plen-1], syms[2]} {
			ins = append(ins, sx.S(in))
		}
		ctx.Count("long-sibling-symbols")
		ctx.Input(sx.L(regs, ins), true)
	}
	// scale: 70 .. 300 registered symbols (all lengths 1..5 over a small alphabet, many shared prefixes), read back in
	// several orders with continuations
	for _, K := range []int{70, 130, 300} {
		var regs, ins sx.List
		var syms []string
		al := []rune{'<', '=', '>', 'é', 'Ā'}
		for i := 0; len(syms) < K; i++ {
			n := 1 + i%5
			rs := make([]rune, n)
			x := i*7 + i/5
			for j := range rs {
				rs[j] = al[x%len(al)]
				x /= len(al)
				x += j
			}
			syms = append(syms, string(rs))
			regs = append(regs, sx.L(sx.S(string(rs)), sx.I(types[i%len(types)])))
		}
		for i := 0; i < 120; i++ {
			sy := syms[(i*13)%len(syms)]
			ins = append(ins, sx.S(sy+[]string{"", "a", "<", "=>", "é"}[i%5]))
		}
		ctx.Count("scale-symbols")
		ctx.Input(sx.L(regs, ins), true)
	}
	// random larger sets over a richer alphabet
	alpha := []rune{'a', 'b', '<', '=', '>', 'é', '日', 'ÿ', 'þ', 'Ā', 0xFFFE}
	rstr := func(max int) string {
		n := 1 + ctx.Rnd.Intn(max)
		rs := make([]rune, n)
		for i := range rs {
			rs[i] = alpha[ctx.Rnd.Intn(len(alpha))]
		}
		return string(rs)
	}
	for i := 0; i < ctx.N/2; i++ {
		n := 1 + ctx.Rnd.Intn(6)
		var syms []string
		var regs sx.List
		for j := 0; j < n; j++ {
			s := rstr(4)
			syms = append(syms, s)
			regs = append(regs, sx.L(sx.S(s), sx.I(int64(ctx.Rnd.Intn(14)))))
		}
		var ins sx.List
		for j := 0; j < 40; j++ {
			if ctx.Rnd.Intn(2) == 0 {
				ins = append(ins, sx.S(syms[ctx.Rnd.Intn(len(syms))]+rstr(3)))
			} else {
				ins = append(ins, sx.S(rstr(6)))
			}
		}
		ctx.Count(fmt.Sprintf("random-size:%d", n))
		ctx.Input(sx.L(regs, ins), c16Nontrivial(syms))
	}
}

func runC16(in sx.SX) (sx.SX, string) {
	l := sx.AsList(in)
	st := generic.NewGenericSymbolState()
	type reg struct {
		s string
		t int64
	}
	var regs []reg
	for _, r := range sx.AsList(l[0]) {
		rr := sx.AsList(r)
		s, t := sx.AsString(rr[0]), sx.AsInt(rr[1])
		st.Add(s, int(t))
		regs = append(regs, reg{s, t})
	}
	var out sx.List
	fail := ""
	for _, i := range sx.AsList(l[1]) {
		input := sx.AsString(i)
		sc := sio.NewStringScanner(input)
		tok := st.NextToken(sc, nil)
		rem := 0
		for sc.Read() != -1 {
			rem++
		}
		out = append(out, sx.L(sx.N(tok.Type()), sx.S(tok.Value()), sx.N(rem)))
		// direct oracle: longest registered prefix, with the type of its last registration
		want, wantType := string([]rune(input)[:1]), int64(7)
		best := 0
		for _, r := range regs {
			if strings.HasPrefix(input, r.s) && len([]rune(r.s)) >= best {
				if len([]rune(r.s)) > best {
					best = len([]rune(r.s))
				}
				want = r.s
			}
		}
		if best > 0 {
			for _, r := range regs {
				if r.s == want {
					wantType = r.t
				}
			}
		}
		wantRem := len([]rune(input)) - len([]rune(want))
		if (tok.Value() != want || int64(tok.Type()) != wantType || rem != wantRem) && fail == "" {
			fail = fmt.Sprintf("input %s: got (%d,%s) with %d characters left; the longest registered prefix is %s with type %d, leaving %d",
				sx.Quote(input), tok.Type(), sx.Quote(tok.Value()), rem, sx.Quote(want), wantType, wantRem)
		}
	}
	// reads interleaved with registrations on ONE state object: before the first registration and after every one, every
	// input is read and answers for the registrations so far (what a read leaves in the trie must not outlive an Add)
	if fail == "" {
		st2 := generic.NewGenericSymbolState()
		for k := 0; k <= len(regs) && fail == ""; k++ {
			if k > 0 {
				st2.Add(regs[k-1].s, int(regs[k-1].t))
			}
			for _, i := range sx.AsList(l[1]) {
				input := sx.AsString(i)
				if input == "" {
					continue
				}
				sc := sio.NewStringScanner(input)
				tok := st2.NextToken(sc, nil)
				rem := 0
				for sc.Read() != -1 {
					rem++
				}
				want, wantType, best := string([]rune(input)[:1]), int64(7), 0
				for _, r := range regs[:k] {
					if strings.HasPrefix(input, r.s) && len([]rune(r.s)) >= best {
						if len([]rune(r.s)) > best {
							best = len([]rune(r.s))
						}
						want = r.s
					}
				}
				if best > 0 {
					for _, r := range regs[:k] {
						if r.s == want {
							wantType = r.t
						}
					}
				}
				wantRem := len([]rune(input)) - len([]rune(want))
				if (tok.Value() != want || int64(tok.Type()) != wantType || rem != wantRem) && fail == "" {
					fail = fmt.Sprintf("reads between the registrations: after %d of %d registrations, input %s gives (%d,%s) with %d characters left; the longest registered prefix is %s with type %d, leaving %d",
						k, len(regs), sx.Quote(input), tok.Type(), sx.Quote(tok.Value()), rem, sx.Quote(want), wantType, wantRem)
				}
			}
		}
	}
	return out, fail
}
