// Command run is the correspondence harness: for one property it generates cases from one PRNG
// state, runs the implementation (the current working tree of /repo) on each, evaluates the direct,
// model-free oracle of the property, and writes
//
//	<out>/cases.sx   one line per case:  (input observed)
//	<out>/meta.json  counts, distributions, samples, oracle failures
//
// The same input lines are later evaluated by the Coq model (vm_compute and extracted OCaml).
package main

import (
	"bufio"
	"encoding/json"
	"flag"
	"fmt"
	"hash/fnv"
	"math/rand"
	"os"
	"path/filepath"
	"sort"
	"strings"
	"time"

	"harness/sx"
)

// A Prop is one property's generator and runner.
type Prop struct {
	ID string
	// Gen feeds inputs to ctx.Input; the runner is applied to each.
	Gen func(ctx *Ctx)
	// Run executes the implementation on one input and returns the projected observables and,
	// if the direct oracle of the property fails on this input, a description ("" = oracle ok).
	Run func(in sx.SX) (obs sx.SX, oracleFail string)
	// Human renders an input readably for replay files and evidence samples.
	Human func(in sx.SX) string
	// Rule is the text for evidence.coverage.rule.
	Rule string
}

var props = map[string]*Prop{}

func register(p *Prop) { props[p.ID] = p }

type Failure struct {
	Index  int    `json:"index"`
	Input  string `json:"input"`
	Human  string `json:"human"`
	Detail string `json:"detail"`
	Kind   string `json:"kind"`
}

type Ctx struct {
	P          *Prop
	Rnd        *rand.Rand
	Tier       string
	Thorough   bool
	N          int // scale: suggested number of random cases
	w          *bufio.Writer
	count      int
	oracleOnly int
	nontriv    int
	seen       map[uint64]struct{}
	dist       map[string]int
	samples    []string
	fails      []Failure
	failN      int
	maxCases   int
	deadline   time.Time
}

func (c *Ctx) Count(key string) { c.dist[key]++ }

// Full reports whether the case budget or the time budget is used up.
func (c *Ctx) Full() bool {
	return (c.maxCases > 0 && c.count >= c.maxCases) || (!c.deadline.IsZero() && time.Now().After(c.deadline))
}

// Input runs the implementation on one input. nontrivial says whether the case is non-trivial by the
// property's rule; distinctness is measured here by hashing the input.
func (c *Ctx) Input(in sx.SX, nontrivial bool) {
	if c.Full() {
		return
	}
	obs, fail := safeRun(c.P, in)
	line := sx.Text(in)
	h := fnv.New64a()
	h.Write([]byte(line))
	k := h.Sum64()
	if _, dup := c.seen[k]; !dup {
		c.seen[k] = struct{}{}
		if nontrivial {
			c.nontriv++
		}
	}
	fmt.Fprintf(c.w, "(%s %s)\n", line, sx.Text(obs))
	if fail != "" {
		c.failN++
		if len(c.fails) < 50 {
			c.fails = append(c.fails, Failure{Index: c.count, Input: line, Human: c.P.Human(in), Detail: fail, Kind: "oracle"})
		}
	}
	if len(c.samples) < 5 || (c.count%97 == 0 && len(c.samples) < 12) {
		c.samples = append(c.samples, c.P.Human(in))
	}
	c.count++
}

// OracleOnly runs the implementation and the direct oracle of the property on an input that is too large for the model
// to be worth running on it (scale cases: thousands of tokens, hundreds of nesting levels); the case is not handed to
// the Coq model, and it is counted separately in the evidence ("oracle_only").
func (c *Ctx) OracleOnly(in sx.SX, what string) {
	_, fail := safeRun(c.P, in)
	c.oracleOnly++
	c.dist["oracle-only:"+what]++
	if fail != "" {
		c.failN++
		if len(c.fails) < 50 {
			line := sx.Text(in)
			if len(line) > 4000 {
				line = line[:4000] + "...(" + fmt.Sprint(len(line)) + " characters)"
			}
			human := c.P.Human(in)
			if len(human) > 600 {
				human = human[:600] + "...(" + fmt.Sprint(len(human)) + " characters)"
			}
			c.fails = append(c.fails, Failure{Index: 1 << 30, Input: line, Human: what + ": " + human, Detail: fail, Kind: "oracle"})
		}
	}
}

// PanicMark is the observable of a case on which the implementation panicked.
var PanicMark = sx.L(sx.I(-999))

func safeRun(p *Prop, in sx.SX) (obs sx.SX, fail string) {
	type res struct {
		obs  sx.SX
		fail string
	}
	ch := make(chan res, 1)
	go func() {
		defer func() {
			if r := recover(); r != nil {
				ch <- res{PanicMark, fmt.Sprintf("panic: %v", r)}
			}
		}()
		o, f := p.Run(in)
		ch <- res{o, f}
	}()
	select {
	case r := <-ch:
		return r.obs, r.fail
	case <-time.After(20 * time.Second):
		return sx.L(sx.I(-998)), "timeout: the call did not return within 20 s"
	}
}

func main() {
	prop := flag.String("prop", "", "property id")
	tier := flag.String("tier", "quick", "quick|thorough")
	seed := flag.Int64("seed", 1, "PRNG seed")
	out := flag.String("out", "", "output directory")
	n := flag.Int("n", 0, "override the number of random cases")
	replay := flag.String("replay", "", "file with input S-expressions, one per line: run only those")
	corpus := flag.String("corpus", "", "corpus file of inputs that run first")
	budget := flag.Int("budget", 0, "time budget in seconds for generation (0 = none)")
	k2 := flag.Bool("k2", false, "child process of the deep-nesting probe (known finding K2)")
	flag.Parse()
	if *k2 {
		k2Child()
		return
	}
	p := props[*prop]
	if p == nil {
		fmt.Fprintln(os.Stderr, "unknown property", *prop)
		os.Exit(2)
	}
	if p.Human == nil {
		p.Human = func(in sx.SX) string { return sx.Text(in) }
	}
	os.MkdirAll(*out, 0o755)
	f, err := os.Create(filepath.Join(*out, "cases.sx"))
	if err != nil {
		panic(err)
	}
	ctx := &Ctx{P: p, Rnd: rand.New(rand.NewSource(*seed)), Tier: *tier, Thorough: *tier == "thorough",
		w: bufio.NewWriterSize(f, 1<<20), seen: map[uint64]struct{}{}, dist: map[string]int{}}
	ctx.N = 400
	if ctx.Thorough {
		ctx.N = 20000
	}
	if *n > 0 {
		ctx.N = *n
	}
	if *budget > 0 {
		ctx.deadline = time.Now().Add(time.Duration(*budget) * time.Second)
	}
	start := time.Now()
	runFile := func(path string, tag string) {
		data, err := os.ReadFile(path)
		if err != nil {
			return
		}
		for _, ln := range strings.Split(string(data), "\n") {
			ln = strings.TrimSpace(ln)
			if ln == "" || strings.HasPrefix(ln, "#") {
				continue
			}
			in, err := sx.Parse(ln)
			if err != nil {
				fmt.Fprintln(os.Stderr, "bad input line in", path, ":", err)
				os.Exit(2)
			}
			ctx.Count(tag)
			ctx.Input(in, true)
		}
	}
	if p.ID == "C19" {
		concurrentFirstUse()
	}
	if *replay != "" {
		runFile(*replay, "replay")
	} else {
		if *corpus != "" {
			runFile(*corpus, "corpus")
		}
		p.Gen(ctx)
	}
	ctx.w.Flush()
	f.Close()
	keys := make([]string, 0, len(ctx.dist))
	for k := range ctx.dist {
		keys = append(keys, k)
	}
	sort.Strings(keys)
	meta := map[string]interface{}{
		"property": p.ID, "tier": *tier, "seed": *seed,
		"evaluations": ctx.count, "distinct": len(ctx.seen), "distinct_nontrivial": ctx.nontriv,
		"rule": p.Rule, "samples": ctx.samples, "distribution": ctx.dist,
		"oracle_failures": ctx.failN, "failures": ctx.fails, "oracle_only": ctx.oracleOnly, "gen_wall_s": time.Since(start).Seconds(),
	}
	b, _ := json.MarshalIndent(meta, "", " ")
	os.WriteFile(filepath.Join(*out, "meta.json"), b, 0o644)
	fmt.Printf("harness %s: cases=%d distinct=%d nontrivial=%d oracle_failures=%d\n", p.ID, ctx.count, len(ctx.seen), ctx.nontriv, ctx.failN)
}
