package main

import (
	"fmt"
	"strings"

	"harness/sx"

	"github.com/pip-services3-gox/pip-services3-expressions-gox/calculator"
	"github.com/pip-services3-gox/pip-services3-expressions-gox/calculator/functions"
	"github.com/pip-services3-gox/pip-services3-expressions-gox/calculator/parsers"
	"github.com/pip-services3-gox/pip-services3-expressions-gox/calculator/variables"
	"github.com/pip-services3-gox/pip-services3-expressions-gox/mustache"
	mparsers "github.com/pip-services3-gox/pip-services3-expressions-gox/mustache/parsers"
	"github.com/pip-services3-gox/pip-services3-expressions-gox/variants"
)

// C18 — variable discovery and collections.
var c18OpNames = []string{"Add", "Length", "Get", "FindIndexByName", "FindByName", "Locate", "Remove", "RemoveByName", "Clear", "ClearValues"}

func init() {
	register(&Prop{ID: "C18", Gen: genC18, Run: runC18,
		Human: func(in sx.SX) string {
			l := sx.AsList(in)
			switch sx.AsInt(l[0]) {
			case 0:
				var ops []string
				for _, o := range sx.AsList(l[1]) {
					oo := sx.AsList(o)
					ops = append(ops, fmt.Sprintf("%s(%s,%d)", c18OpNames[sx.AsInt(oo[0])], sx.Quote(sx.AsString(oo[1])), sx.AsInt(oo[2])))
				}
				return []string{"VariableCollection", "FunctionCollection"}[sx.AsInt(l[2])] + ": " + strings.Join(ops, " ")
			case 2:
				return "SetExpression(" + sx.Quote(sx.AsString(sx.AsList(l[1])[0])) + ") with default variables " + sx.Text(l[2])
			}
			return "SetTemplate(" + sx.Quote(sx.AsString(sx.AsList(l[1])[0])) + ")"
		},
		Rule: "(a) random operation histories (add, length, get, find index, find, locate, remove by index incl. out of range, remove by name, clear, clear-values) of length<=14 on a VariableCollection / FunctionCollection with names drawn from a small pool in varying letter case, every result and the whole collection compared after each step; (b) generated expressions with identifiers in every syntactic position (operands, call arguments, index expressions, function names, quoted identifiers, keyword-like quoted identifiers) in varying letter case, with pre-existing default variables: reported names, resulting default collection, and the error for a missing variable / function; (c) generated templates: reported names and automatically created variables; non-trivial = a history with a removal or a name in two letter cases / an expression with at least two variables; distinct by input hash"})
}

func genC18(ctx *Ctx) {
	names := []string{"a", "A", "b", "Name", "NAME", "name", "x1", "é", "É", "q id", "ı", "I", "i", "maſs", "MASS", "mass", "λογος", "ΛΟΓΟΣ", "λογοσ"}
	for i := 0; i < ctx.N; i++ {
		n := 1 + ctx.Rnd.Intn(14)
		var ops sx.List
		which := ctx.Rnd.Intn(2)
		nt := false
		for k := 0; k < n; k++ {
			name := names[ctx.Rnd.Intn(len(names))]
			var code int
			switch r := ctx.Rnd.Intn(20); {
			case r < 7:
				code = 0
			case r < 8:
				code = 1
			case r < 10:
				code = 2
			case r < 12:
				code = 3
			case r < 14:
				code = 4
			case r < 15:
				code = 5
			case r < 17:
				code, nt = 6, true
			case r < 18:
				code, nt = 7, true
			case r < 19:
				code = 8
			default:
				code = 9
			}
			if which == 1 && (code == 5 || code == 9) {
				code = 4
			}
			ctx.Count("op:" + c18OpNames[code])
			ops = append(ops, sx.L(sx.N(code), sx.S(name), sx.N(ctx.Rnd.Intn(7)-1)))
		}
		var ups sx.List
		for _, nm := range names {
			ups = append(ups, sx.L(sx.S(nm), sx.S(strings.ToUpper(nm))))
		}
		ctx.Input(sx.L(sx.I(0), ops, sx.N(which), ups), nt)
	}
	// lookup, change, the same lookup again: whatever a lookup leaves behind in the collection (a remembered position) meets
	// removals of earlier, of the found and of later entries, Clear and re-adding - with names equal up to letter case
	{
		var ups sx.List
		for _, nm := range names {
			ups = append(ups, sx.L(sx.S(nm), sx.S(strings.ToUpper(nm))))
		}
		op := func(code int, name string, arg int) sx.SX { return sx.L(sx.N(code), sx.S(name), sx.N(arg)) }
		for which := 0; which < 2; which++ {
			for _, grp := range [][]string{{"Name", "NAME", "name"}, {"é", "É", "É"}, {"a", "A", "a"}} {
				for _, look := range []int{3, 4} {
					changes := [][]sx.SX{
						{op(6, "", 0)}, {op(7, "b", 0)}, {op(7, grp[2], 0)}, {op(6, "", 1)}, {op(6, "", 2)}, {op(7, "x1", 0)},
						{op(8, "", 0), op(0, grp[1], 5), op(0, grp[0], 6)}, {op(8, "", 0)}, {op(6, "", 0), op(6, "", 0)}, {op(0, grp[2], 9), op(6, "", 1)},
					}
					for _, ch := range changes {
						for _, q := range []string{grp[2], "x1", "b"} {
							var ops sx.List
							ops = append(ops, op(0, "b", 1), op(0, grp[0], 2), op(0, grp[1], 3), op(0, "x1", 4), op(look, q, 0))
							ops = append(ops, ch...)
							ops = append(ops, op(look, q, 0), op(look, q, 0), op(7, q, 0), op(look, q, 0))
							ctx.Count("lookup-change-lookup")
							ctx.Input(sx.L(sx.I(0), ops, sx.N(which), ups), true)
						}
					}
				}
			}
		}
	}
	// scale: collections of 17, 33, 49, 65, 100 entries (beyond the sizes at which a collection might switch to an index):
	// lookups, Locate of a new and of an existing name, removals by name and by index, lookups again
	for which := 0; which < 2; which++ {
		for _, K := range []int{17, 33, 49, 65, 100} {
			op := func(code int, name string, arg int) sx.SX { return sx.L(sx.N(code), sx.S(name), sx.N(arg)) }
			var ups sx.List
			var ops sx.List
			for i := 0; i < K; i++ {
				n := fmt.Sprintf("n%d", i)
				ops = append(ops, op(0, n, i))
				ups = append(ups, sx.L(sx.S(n), sx.S(strings.ToUpper(n))), sx.L(sx.S(strings.ToUpper(n)), sx.S(strings.ToUpper(n))))
			}
			for _, extra := range []string{"fresh", "FRESH", "other"} {
				ups = append(ups, sx.L(sx.S(extra), sx.S(strings.ToUpper(extra))))
			}
			look := 3 + which // FindIndexByName for variables, FindByName for functions (and the other below)
			mid, last := fmt.Sprintf("n%d", K/2), fmt.Sprintf("N%d", K-1)
			ops = append(ops, op(look, mid, 0), op(7-look+0, last, 0))
			if which == 0 {
				ops = append(ops, op(5, "fresh", 0), op(3, "FRESH", 0), op(5, "Fresh", 0), op(1, "", 0), op(5, mid, 0), op(1, "", 0))
				ups = append(ups, sx.L(sx.S("Fresh"), sx.S("FRESH")))
			} else {
				ops = append(ops, op(0, "fresh", 7), op(3, "FRESH", 0), op(4, "fresh", 0))
			}
			ops = append(ops, op(7, "n1", 0), op(3, mid, 0), op(4, last, 0), op(3, "n1", 0), op(6, "", 0), op(3, mid, 0), op(4, "fresh", 0),
				op(0, "other", 9), op(4, "OTHER", 0), op(7, "fresh", 0), op(3, "other", 0), op(3, "fresh", 0), op(1, "", 0))
			ctx.Count("scale-collection")
			ctx.Input(sx.L(sx.I(0), ops, sx.N(which), ups), true)
		}
	}
	recase := func(s string) string {
		if strings.HasPrefix(s, "\"") {
			return s
		}
		switch ctx.Rnd.Intn(3) {
		case 0:
			return strings.ToUpper(s)
		case 1:
			return strings.ToLower(s)
		}
		return s
	}
	var walk func(t *Tree)
	walk = func(t *Tree) {
		if t.Kind == "var" || t.Kind == "call" {
			t.Text = recase(t.Text)
		}
		for _, a := range t.Args {
			walk(a)
		}
	}
	for i := 0; i < ctx.N; i++ {
		t := genTree(ctx.Rnd, 1+ctx.Rnd.Intn(5))
		walk(t)
		p := &printer{rnd: ctx.Rnd, parens: ctx.Rnd.Intn(3), noise: ctx.Rnd.Intn(2) == 0}
		text := p.at(t, 0)
		var existing sx.List
		for _, n := range []string{"B", "x1", "zz", "Q ID"} {
			if ctx.Rnd.Intn(2) == 0 {
				existing = append(existing, sx.L(sx.S(n), sx.N(1+ctx.Rnd.Intn(9))))
			}
		}
		var vs []string
		treeVars(t, &vs)
		ctx.Count("expression")
		ctx.Input(sx.L(sx.I(2), exprInput(text, sx.L(), t), existing, c18Uppers(text, existing)), len(vs) >= 2)
	}
	// scale: expressions over 17 .. 130 distinct variables and functions, each written in two letter cases, with a few
	// pre-existing default variables
	for _, n := range []int{17, 33, 70, 130} {
		var parts []string
		var root *Tree
		for i := 0; i < n; i++ {
			nm := fmt.Sprintf("var%d", i)
			var leaf *Tree
			if i%9 == 8 {
				leaf = &Tree{Kind: "call", Text: fmt.Sprintf("fn%d", i), Args: []*Tree{{Kind: "var", Text: strings.ToUpper(nm)}}}
			} else {
				leaf = &Tree{Kind: "var", Text: nm}
			}
			again := &Tree{Kind: "var", Text: strings.ToUpper(nm)}
			pair := &Tree{Kind: "bin", Op: "*", Args: []*Tree{leaf, again}}
			if root == nil {
				root = pair
			} else {
				root = &Tree{Kind: "bin", Op: "+", Args: []*Tree{root, pair}}
			}
			parts = append(parts, nm)
		}
		p := &printer{rnd: ctx.Rnd, parens: 0}
		text := p.at(root, 0)
		existing := sx.List{sx.L(sx.S("VAR3"), sx.N(4)), sx.L(sx.S(fmt.Sprintf("Var%d", n-1)), sx.N(5)), sx.L(sx.S("zz"), sx.N(6))}
		ctx.Count("scale-expression")
		ctx.Input(sx.L(sx.I(2), exprInput(text, sx.L(), root), existing, c18Uppers(text, existing)), true)
	}
	// every operator that is spelled as a word, in three random letter cases: the word is never taken for a variable
	for rep := 0; rep < 3; rep++ {
		mkv := func(n string) *Tree { return &Tree{Kind: "var", Text: n} }
		var ts []*Tree
		for _, op := range []string{"AND", "OR", "XOR", "LIKE", "NOTLIKE", "IN", "NOTIN"} {
			ts = append(ts, &Tree{Kind: "bin", Op: op, Args: []*Tree{mkv("a"), mkv("b")}})
		}
		for _, op := range []string{"NOT", "ISNULL", "ISNOTNULL"} {
			ts = append(ts, &Tree{Kind: "un", Op: op, Args: []*Tree{mkv("a")}})
		}
		for _, c := range []string{"TRUE", "FALSE"} {
			ts = append(ts, &Tree{Kind: "bin", Op: "=", Args: []*Tree{mkv("a"), {Kind: "const", Text: c}}})
		}
		for _, t := range ts {
			p := &printer{rnd: ctx.Rnd, parens: 0, noise: true}
			text := p.at(t, 0)
			ctx.Count("keyword-operator")
			ctx.Input(sx.L(sx.I(2), exprInput(text, sx.L(), t), sx.List{}, c18Uppers(text, sx.List{})), true)
		}
	}
	for _, s := range []string{"a + A", "f(x) + F(X)", "a[b] + \"A\"", "1 +", "", "TRUE and x", "\"NULL\" + null_", "Max(a, Min(b, A))"} {
		ctx.Count("expression-special")
		ex := sx.L(sx.L(sx.S("A"), sx.I(5)))
		ctx.Input(sx.L(sx.I(2), exprInput(s, sx.L(), nil), ex, c18Uppers(s, sx.AsList(ex))), true)
	}
	for _, tpl := range []string{"{{a}}{{#b}}{{c}}{{/b}}", "", "{{d}}", " ", "{{e}}", "text only", "{{f}}", "\n"} {
		ctx.Count("template-special")
		ctx.Input(sx.L(sx.I(3), mInput(tpl, nil, sx.L()), sx.L()), true)
	}
	for i := 0; i < ctx.N/2; i++ {
		ast := genMNodes(ctx.Rnd, 1+ctx.Rnd.Intn(3))
		tpl := mPrint(ctx.Rnd, ast)
		if ctx.Rnd.Intn(12) == 0 {
			ast, tpl = nil, []string{"", " ", "just text"}[ctx.Rnd.Intn(3)]
		}
		ctx.Count("template")
		var existing sx.List
		var exVars [][2]string
		var nm []string
		mNamesInOrder(ast, &nm)
		if len(nm) > 0 && ctx.Rnd.Intn(2) == 0 {
			k := strings.ToUpper(nm[ctx.Rnd.Intn(len(nm))])
			existing = append(existing, sx.S(k))
			exVars = append(exVars, [2]string{k, ""})
		}
		ctx.Input(sx.L(sx.I(3), mInput(tpl, exVars, sx.L()), existing), len(ast) >= 2)
	}
}

// c18Uppers: strings.ToUpper (host oracle) for every word token of the expression and every existing name
func c18Uppers(text string, existing sx.List) sx.SX {
	var ups sx.List
	seen := map[string]bool{}
	add := func(s string) {
		if !seen[s] {
			seen[s] = true
			ups = append(ups, sx.L(sx.S(s), sx.S(strings.ToUpper(s))))
		}
	}
	for _, t := range tokenizeLikeParser(text) {
		add(t.Value)
	}
	for _, e := range existing {
		add(sx.AsString(sx.AsList(e)[0]))
	}
	return ups
}

func treeVars(t *Tree, out *[]string) {
	if t.Kind == "var" {
		*out = append(*out, strings.Trim(t.Text, "\""))
	}
	for _, a := range t.Args {
		treeVars(a, out)
	}
}

type constFn struct {
	name string
	id   int
}

func (f constFn) Name() string { return f.name }
func (f constFn) Calculate(ps []*variants.Variant, ops variants.IVariantOperations) (*variants.Variant, error) {
	return variants.VariantFromInteger(f.id), nil
}

func varVal(v variables.IVariable) sx.SX {
	if v.Value().Type() == variants.Integer {
		return sx.N(v.Value().AsInteger())
	}
	return sx.I(0)
}

func runC18(in sx.SX) (sx.SX, string) {
	l := sx.AsList(in)
	switch sx.AsInt(l[0]) {
	case 0:
		return runC18Collection(sx.AsList(l[1]), sx.AsInt(l[2]) == 1)
	case 2:
		return runC18Expression(l)
	}
	return runC18Template(l)
}

func runC18Collection(ops sx.List, fn bool) (sx.SX, string) {
	vc := variables.NewVariableCollection()
	fc := functions.NewFunctionCollection()
	type ent struct {
		name string
		val  int
	}
	var ref []ent // a plain slice: the list model of the property
	find := func(n string) int {
		for i, e := range ref {
			if strings.ToUpper(e.name) == strings.ToUpper(n) { // the same name ignoring case = equal upper-case forms (the model's notion, fed by the host's ToUpper)
				return i
			}
		}
		return -1
	}
	snapshot := func() sx.SX {
		var out sx.List
		if fn {
			for _, f := range fc.GetAll() {
				r, _ := f.Calculate(nil, nil)
				out = append(out, sx.L(sx.S(f.Name()), sx.N(r.AsInteger())))
			}
		} else {
			for _, v := range vc.GetAll() {
				out = append(out, sx.L(sx.S(v.Name()), varVal(v)))
			}
		}
		return out
	}
	var out sx.List
	fail := ""
	for k, o := range ops {
		oo := sx.AsList(o)
		code, name, arg := int(sx.AsInt(oo[0])), sx.AsString(oo[1]), int(sx.AsInt(oo[2]))
		var res sx.SX = sx.L()
		func() {
			defer func() {
				if r := recover(); r != nil {
					res = sx.L(sx.I(-999))
				}
			}()
			switch code {
			case 0:
				if fn {
					fc.Add(constFn{name, arg})
				} else {
					vc.Add(variables.NewVariable(name, variants.VariantFromInteger(arg)))
				}
			case 1:
				if fn {
					res = sx.N(fc.Length())
				} else {
					res = sx.N(vc.Length())
				}
			case 2:
				if fn {
					f := fc.Get(arg)
					r, _ := f.Calculate(nil, nil)
					res = sx.L(sx.S(f.Name()), sx.N(r.AsInteger()))
				} else {
					v := vc.Get(arg)
					res = sx.L(sx.S(v.Name()), varVal(v))
				}
			case 3:
				if fn {
					res = sx.N(fc.FindIndexByName(name))
				} else {
					res = sx.N(vc.FindIndexByName(name))
				}
			case 4:
				if fn {
					if f := fc.FindByName(name); f != nil {
						r, _ := f.Calculate(nil, nil)
						res = sx.L(sx.L(sx.S(f.Name()), sx.N(r.AsInteger())))
					}
				} else if v := vc.FindByName(name); v != nil {
					res = sx.L(sx.L(sx.S(v.Name()), varVal(v)))
				}
			case 5:
				v := vc.Locate(name)
				res = sx.L(sx.S(v.Name()), varVal(v))
			case 6:
				if fn {
					fc.Remove(arg)
				} else {
					vc.Remove(arg)
				}
			case 7:
				if fn {
					fc.RemoveByName(name)
				} else {
					vc.RemoveByName(name)
				}
			case 8:
				if fn {
					fc.Clear()
				} else {
					vc.Clear()
				}
			default:
				vc.ClearValues()
			}
		}()
		// the list model of the property
		panicked := sx.Text(res) == "(-999)"
		if panicked && code != 2 && code != 6 && fail == "" {
			fail = fmt.Sprintf("op %d %s(%q,%d) panicked", k, c18OpNames[code], name, arg)
		}
		if code == 4 && !panicked && fail == "" {
			if i := find(name); i < 0 && len(sx.AsList(res)) != 0 {
				fail = fmt.Sprintf("op %d: FindByName(%q) found %s, no entry has that name", k, name, sx.Text(res))
			} else if i >= 0 && sx.Text(res) != sx.Text(sx.L(sx.L(sx.S(ref[i].name), sx.N(ref[i].val)))) {
				fail = fmt.Sprintf("op %d: FindByName(%q) returned %s, the first entry with that name ignoring case is (%s %d)", k, name, sx.Text(res), ref[i].name, ref[i].val)
			}
		}
		switch code {
		case 0:
			ref = append(ref, ent{name, arg})
		case 5:
			if find(name) < 0 {
				ref = append(ref, ent{name, 0})
			}
		case 6:
			if arg >= 0 && arg < len(ref) {
				ref = append(append([]ent{}, ref[:arg]...), ref[arg+1:]...)
				if panicked && fail == "" {
					fail = fmt.Sprintf("op %d: Remove(%d) of an existing entry failed", k, arg)
				}
			}
		case 7:
			if i := find(name); i >= 0 {
				ref = append(append([]ent{}, ref[:i]...), ref[i+1:]...)
			}
		case 8:
			ref = nil
		case 9:
			for i := range ref {
				ref[i].val = 0
			}
		}
		snap := snapshot()
		var want sx.List
		for _, e := range ref {
			want = append(want, sx.L(sx.S(e.name), sx.N(e.val)))
		}
		if sx.Text(want) != sx.Text(snap) && fail == "" {
			fail = fmt.Sprintf("op %d %s(%q,%d): the collection is %s, an ordered list would be %s", k, c18OpNames[code], name, arg, sx.Text(snap), sx.Text(want))
		}
		if code == 3 && fail == "" && sx.AsInt(res) != int64(find(name)) {
			fail = fmt.Sprintf("op %d: FindIndexByName(%q) = %d, the first entry with that name ignoring case is at %d", k, name, sx.AsInt(res), find(name))
		}
		out = append(out, sx.L(res, snap))
	}
	return out, fail
}

func runC18Expression(l sx.List) (sx.SX, string) {
	e := sx.AsList(l[1])
	text := sx.AsString(e[0])
	calc := calculator.NewExpressionCalculator()
	type ent struct {
		name string
		val  int
	}
	var existing []ent
	for _, x := range sx.AsList(l[2]) {
		xx := sx.AsList(x)
		existing = append(existing, ent{sx.AsString(xx[0]), int(sx.AsInt(xx[1]))})
		calc.DefaultVariables().Add(variables.NewVariable(sx.AsString(xx[0]), variants.VariantFromInteger(int(sx.AsInt(xx[1])))))
	}
	p := parsers.NewExpressionParser()
	p.ParseString("zz9 + yy8 * f7(ww6)") // the parser is reused: names of an earlier expression must not survive
	fail := ""
	if err := p.ParseString(text); err != nil {
		code, _ := errCode(err)
		if e2 := calc.SetExpression(text); e2 == nil {
			fail = "the calculator accepted what the parser rejects"
		} else if treeFromSX(e[3]) != nil {
			fail = "an expression printed from a syntax tree was rejected: " + err.Error()
		}
		return sx.L(sx.I(code)), fail
	}
	if err := calc.SetExpression(text); err != nil {
		return sx.L(sx.I(-1)), "the calculator rejected what the parser accepts"
	}
	var names sx.List
	for _, n := range p.VariableNames() {
		names = append(names, sx.S(n))
	}
	var snap sx.List
	for _, v := range calc.DefaultVariables().GetAll() {
		snap = append(snap, sx.L(sx.S(v.Name()), varVal(v)))
	}
	obs := sx.L(sx.I(0), names, snap)
	// direct oracle from the generated tree
	if tree := treeFromSX(e[3]); tree != nil {
		var vs []string
		treeVars(tree, &vs)
		var want []string
		seen := map[string]bool{}
		for _, v := range vs {
			if !seen[v] {
				seen[v] = true
				want = append(want, v)
			}
		}
		if strings.Join(want, "\x00") != strings.Join(p.VariableNames(), "\x00") {
			fail = fmt.Sprintf("VariableNames %q, the identifiers in variable position in order of first occurrence are %q", p.VariableNames(), want)
		}
		// exactly one entry per name ignoring case, existing entries and values kept, new ones appended in order
		var wantColl sx.List
		have := map[string]bool{}
		for _, x := range existing {
			wantColl = append(wantColl, sx.L(sx.S(x.name), sx.N(x.val)))
			have[strings.ToUpper(x.name)] = true
		}
		for _, v := range want {
			if !have[strings.ToUpper(v)] {
				have[strings.ToUpper(v)] = true
				wantColl = append(wantColl, sx.L(sx.S(v), sx.I(0)))
			}
		}
		if fail == "" && sx.Text(wantColl) != sx.Text(snap) {
			fail = fmt.Sprintf("default variables %s, expected %s", sx.Text(snap), sx.Text(wantColl))
		}
		// a missing variable is reported as an error naming it
		if fail == "" && len(want) > 0 {
			_, err := calc.EvaluateUsingVariables(variables.NewVariableCollection())
			if err == nil {
				fail = "evaluation with no variables succeeded although the expression has variables"
			} else if codeOf(err) == "VAR_NOT_FOUND" {
				named := false
				for _, v := range want {
					if strings.Contains(err.Error(), v) {
						named = true
					}
				}
				if !named {
					fail = "the missing-variable error does not name the variable: " + err.Error()
				}
			}
		}
		// a missing function is reported as an error naming it, also when it is a built-in that the caller's own function
		// collection does not hold
		if fail == "" {
			var fns []string
			var walk func(t *Tree)
			walk = func(t *Tree) {
				if t.Kind == "call" {
					fns = append(fns, t.Text)
				}
				for _, a := range t.Args {
					walk(a)
				}
			}
			walk(tree)
			if len(fns) > 0 {
				vars := variables.NewVariableCollection()
				for _, v := range want {
					vars.Add(variables.NewVariable(v, variants.VariantFromInteger(1)))
				}
				own := functions.NewFunctionCollection()
				own.Add(functions.NewDelegatedFunction("zz_only", func(ps []*variants.Variant, ops variants.IVariantOperations) (*variants.Variant, error) {
					return variants.VariantFromInteger(1), nil
				}))
				_, err := calc.EvaluateUsingVariablesAndFunctions(vars, own)
				if err == nil {
					fail = fmt.Sprintf("evaluation against a function collection that holds none of %q succeeded", fns)
				}
			}
		}
		// automatic variables are created whenever an expression is set - also the same expression again after the option was
		// switched on, or after entries were removed
		if fail == "" && len(want) > 0 {
			ac := calculator.NewExpressionCalculator()
			ac.SetAutoVariables(false)
			ac.SetExpression(text)
			ac.SetAutoVariables(true)
			ac.SetExpression(text)
			if ac.DefaultVariables().Length() != len(uniqueFold(want)) {
				fail = fmt.Sprintf("automatic variables switched on and the same expression set again: %d default variables, expected %d", ac.DefaultVariables().Length(), len(uniqueFold(want)))
			} else {
				ac.DefaultVariables().Remove(0)
				ac.SetExpression(text)
				if ac.DefaultVariables().Length() != len(uniqueFold(want)) {
					fail = fmt.Sprintf("an entry removed and the same expression set again: %d default variables, expected %d", ac.DefaultVariables().Length(), len(uniqueFold(want)))
				}
			}
		}
	}
	return obs, fail
}

// uniqueFold: the names that differ ignoring letter case
func uniqueFold(names []string) []string {
	seen := map[string]bool{}
	var out []string
	for _, n := range names {
		if k := strings.ToUpper(n); !seen[k] {
			seen[k] = true
			out = append(out, n)
		}
	}
	return out
}

// one parser object that lives through the whole run: the names it reports are those of the current template only
var c18WarmM = mparsers.NewMustacheParser()

func runC18Template(l sx.List) (sx.SX, string) {
	t := sx.AsList(l[1])
	text := sx.AsString(t[0])
	p := mparsers.NewMustacheParser()
	p.SetTemplate("{{zz9}}{{#yy8}}{{ww7}}{{/yy8}}") // the parser is reused: names of an earlier template must not survive
	err := p.SetTemplate(text)
	werr := c18WarmM.SetTemplate(text)
	warmNames := strings.Join(c18WarmM.VariableNames(), ",")
	c18WarmM.Clear()
	clearedNames := strings.Join(c18WarmM.VariableNames(), ",")
	if err != nil {
		c, ok := mErrCodes[codeOf(err)]
		if !ok {
			c = 99
		}
		f := ""
		if werr == nil {
			f = "a parser object used before accepts what a new parser rejects"
		}
		return sx.L(sx.I(1), sx.I(c)), f
	}
	tpl := mustache.NewMustacheTemplate()
	fail := ""
	if werr != nil {
		fail = "a parser object used before rejects what a new parser accepts"
	}
	{
		fp := mparsers.NewMustacheParser()
		fp.SetTemplate(text)
		if fresh := strings.Join(fp.VariableNames(), ","); fail == "" && fresh != warmNames {
			fail = fmt.Sprintf("a parser object used before reports the variables [%s], a new parser [%s]", warmNames, fresh)
		} else if fresh2 := strings.Join(p.VariableNames(), ","); fail == "" && fresh2 != fresh {
			fail = fmt.Sprintf("a parser that parsed another template before reports the variables [%s], a new parser [%s]", fresh2, fresh)
		}
		if fail == "" && clearedNames != "" {
			fail = fmt.Sprintf("after Clear() the parser still reports the variables [%s]", clearedNames)
		}
	}
	existing := map[string]string{}
	for _, k := range sx.AsList(l[2]) {
		existing[sx.AsString(k)] = ""
	}
	nExisting := len(existing)
	tpl.SetDefaultVariables(existing)
	if err := tpl.SetTemplate(text); err != nil {
		fail = "the template rejected what the parser accepts"
	}
	var names, created sx.List
	keys := tpl.DefaultVariables()
	for _, n := range p.VariableNames() {
		names = append(names, sx.S(n))
		if _, ok := keys[n]; ok {
			created = append(created, sx.S(n))
		}
	}
	distinct := map[string]bool{}
	for k := range keys {
		if distinct[strings.ToLower(k)] && fail == "" {
			fail = "the default variables hold two entries for " + k + " ignoring case"
		}
		distinct[strings.ToLower(k)] = true
	}
	for _, n := range p.VariableNames() {
		if !distinct[strings.ToLower(n)] && fail == "" {
			fail = "no default variable was created for " + n
		}
	}
	_ = nExisting
	seen := map[string]bool{}
	for _, n := range p.VariableNames() {
		if n == "" && fail == "" {
			fail = "the empty string is reported as a variable name"
		}
		k := strings.ToLower(n)
		if seen[k] && fail == "" {
			fail = "the name " + n + " is reported twice ignoring case"
		}
		seen[k] = true
		if (strings.EqualFold(n, "if") || strings.EqualFold(n, "unless")) && !strings.Contains(text, "{"+n) && !strings.Contains(text, " "+n) && !strings.Contains(text, "#"+n) && !strings.Contains(text, "^"+n) && !strings.Contains(text, "/"+n) && fail == "" {
			fail = "a section word is reported as a variable"
		}
	}
	return sx.L(sx.I(0), names, created), fail
}
