package main

import (
	"fmt"
	"strings"

	"harness/sx"

	"github.com/pip-services3-gox/pip-services3-expressions-gox/csv"
	"github.com/pip-services3-gox/pip-services3-expressions-gox/tokenizers"
)

// C09 — CSV text round-trips through the tokenizer.
// input = (2 64 text (seps quotes) rows) : a tokenizer case (CSV tokenizer, decode-strings on) plus the table that
// was written; the model tokenizes the text, the direct oracle regroups the implementation's tokens and compares
// them with the table.
func init() {
	register(&Prop{ID: "C09", Gen: genC09, Run: runC09,
		Human: func(in sx.SX) string {
			l := sx.AsList(in)
			c := sx.AsList(l[3])
			return fmt.Sprintf("CSV separators %s quotes %s text %s", sx.Quote(sx.AsString(c[0])), sx.Quote(sx.AsString(c[1])), sx.Quote(sx.AsString(l[2])))
		},
		Rule: "tables of 1..3 rows x 1..3 columns with fields up to 4 characters over {a,b,space,comma,semicolon,|,\",',CR,LF,e-acute,CJK,NUL,U+FFFE,tab,U+FEFF,U+2028,NBSP,U+200B,U+FFFD,VT,FF,U+0085} (empty fields, fields made only of quotes or separators included), written raw when legal (or by coin flip quote-encoded with CsvQuoteState.EncodeString) and quote-encoded otherwise, joined with a separator chosen per gap and one of the line endings LF, CR, CRLF, LFCR, under separator sets {,} {;,} {|} {CJK} and quote sets {\"} {\",'} {'} {e-acute}; non-trivial = at least one quoted field containing a separator, quote or line break; distinct by input hash"})
}

func genC09(ctx *Ctx) {
	alpha := []rune{'a', 'b', ' ', ',', ';', '|', '"', '\'', '\r', '\n', 'é', '日', 0, 0xFFFE, '\t', 'ÿ', 0x100, '；', '語', 0xFEFF, 0x2028, 0xA0, 0x200B, 0xFFFD, '\v', '\f', 0x85}
	many := []rune{}
	for i := 0; i < 24; i++ {
		many = append(many, rune(0x2500+i)) // two dozen separators above U+00FF
	}
	sepSets := [][]rune{{','}, {';', ','}, {'|'}, {'日'}, {'ÿ'}, {'；', ','}, {0x100}, {0xFFFE, ';'}, many, append([]rune{','}, many[:17]...)}
	quoteSets := [][]rune{{'"'}, {'"', '\''}, {'\''}, {'é'}, {0x101}, {'þ', '"'}}
	eols := []string{"\n", "\r", "\r\n", "\n\r"}
	st := csv.NewCsvQuoteState()
	for i := 0; i < ctx.N*3; i++ {
		seps := sepSets[ctx.Rnd.Intn(len(sepSets))]
		quotes := quoteSets[ctx.Rnd.Intn(len(quoteSets))]
		eol := eols[ctx.Rnd.Intn(len(eols))]
		special := func(r rune) bool {
			if r == '\r' || r == '\n' {
				return true
			}
			for _, s := range seps {
				if r == s {
					return true
				}
			}
			for _, q := range quotes {
				if r == q {
					return true
				}
			}
			return false
		}
		nrows, ncols := 1+ctx.Rnd.Intn(3), 1+ctx.Rnd.Intn(3)
		big := i%60 == 59 // scale: a table of dozens of rows and columns with longer fields, checked by the direct oracle only
		if big {
			nrows, ncols = 20+ctx.Rnd.Intn(60), 5+ctx.Rnd.Intn(30)
		}
		var text strings.Builder
		var rows sx.List
		nontrivial := false
		for r := 0; r < nrows; r++ {
			var row sx.List
			for c := 0; c < ncols; c++ {
				n := ctx.Rnd.Intn(5)
				if big && ctx.Rnd.Intn(4) == 0 {
					n = ctx.Rnd.Intn(200)
				}
				f := make([]rune, n)
				needQuote := false
				for k := range f {
					f[k] = alpha[ctx.Rnd.Intn(len(alpha))]
					if special(f[k]) {
						needQuote = true
					}
				}
				field := string(f)
				if c > 0 {
					text.WriteRune(seps[ctx.Rnd.Intn(len(seps))])
				}
				if needQuote || ctx.Rnd.Intn(4) == 0 {
					text.WriteString(st.EncodeString(field, quotes[ctx.Rnd.Intn(len(quotes))]))
					ctx.Count("field:quoted")
					if needQuote {
						nontrivial = true
					}
				} else {
					text.WriteString(field)
					if n == 0 {
						ctx.Count("field:empty-raw")
					} else {
						ctx.Count("field:raw")
					}
				}
				row = append(row, sx.S(field))
			}
			rows = append(rows, row)
			if r < nrows-1 {
				text.WriteString(eol)
			}
		}
		ctx.Count("eol:" + sx.Quote(eol))
		cfg := sx.SX(sx.L(sx.R(seps), sx.R(quotes)))
		if ctx.Rnd.Intn(2) == 0 { // the tokenizer object reaches this configuration through a history of setter calls, some of them refused
			cfg = csvHistory(ctx.Rnd, cfg)
			ctx.Count("configured-by-history")
		}
		if big {
			ctx.OracleOnly(sx.L(sx.I(2), sx.I(64), sx.S(text.String()), cfg, rows), fmt.Sprintf("scale: a table of %d rows x %d columns", nrows, ncols))
			continue
		}
		ctx.Input(sx.L(sx.I(2), sx.I(64), sx.S(text.String()), cfg, rows), nontrivial)
	}
}

var c09Used *csv.CsvTokenizer

func runC09(in sx.SX) (sx.SX, string) {
	l := sx.AsList(in)
	obs, fail := runTok("none")(in)
	// regroup: fields between separator symbols, rows between end-of-line tokens
	var rows [][]string
	var row []string
	field := ""
	for _, t := range sx.AsList(obs) {
		tt := sx.AsList(t)
		switch int(sx.AsInt(tt[0])) {
		case tokenizers.Word, tokenizers.Quoted:
			if field != "" {
				fail = "two value tokens in one field"
			}
			field = sx.AsString(tt[1])
		case tokenizers.Symbol:
			row = append(row, field)
			field = ""
		case tokenizers.Eol:
			row = append(row, field)
			rows = append(rows, row)
			row, field = nil, ""
		case tokenizers.Eof:
		default:
			fail = fmt.Sprintf("unexpected token type %d", sx.AsInt(tt[0]))
		}
	}
	row = append(row, field)
	rows = append(rows, row)
	// one tokenizer object that lives through the whole run: it first reads this text under the configuration the
	// previous case left, is then given this case's separators and quote symbols, and must read the text as a new tokenizer
	// with that configuration does
	if fail == "" {
		if fresh, ok := newTokenizer(int(sx.AsInt(l[0])), l[3]).(*csv.CsvTokenizer); ok {
			seps := append([]rune{}, fresh.FieldSeparators()...)
			quotes := append([]rune{}, fresh.QuoteSymbols()...)
			if c09Used == nil {
				c09Used = csv.NewCsvTokenizer()
			}
			setOptions(c09Used, int(sx.AsInt(l[1])))
			text := sx.AsString(l[2])
			done := func() (ok bool) {
				defer func() {
					if recover() != nil {
						ok = false
					}
				}()
				c09Used.TokenizeBuffer(text)
				c09Used.SetFieldSeparators([]rune{0x1})
				c09Used.SetQuoteSymbols(quotes)
				c09Used.SetFieldSeparators(seps)
				return true
			}()
			if !done {
				c09Used = nil // a refused configuration: start again with a new object
			} else if again := sx.Text(tokensSX(c09Used.TokenizeBuffer(text))); again != sx.Text(obs) {
				fail = fmt.Sprintf("a tokenizer that read the text under another configuration and was then given separators %q and quotes %q reads %s, a new tokenizer with that configuration %s", string(seps), string(quotes), again, sx.Text(obs))
			}
		}
	}
	want := sx.AsList(l[4])
	if fail == "" {
		if len(rows) != len(want) {
			fail = fmt.Sprintf("%d rows were written, %d came back", len(want), len(rows))
		}
		for i := 0; fail == "" && i < len(want); i++ {
			w := sx.AsList(want[i])
			if len(w) != len(rows[i]) {
				fail = fmt.Sprintf("row %d: %d fields were written, %d came back", i, len(w), len(rows[i]))
				break
			}
			for j := range w {
				if sx.AsString(w[j]) != rows[i][j] {
					fail = fmt.Sprintf("row %d field %d: %s was written, %s came back", i, j, sx.Quote(sx.AsString(w[j])), sx.Quote(rows[i][j]))
					break
				}
			}
		}
	}
	return obs, fail
}
