package main

import (
	"fmt"
	"strings"

	"harness/sx"

	cerrors "github.com/pip-services3-gox/pip-services3-commons-gox/errors"
	"github.com/pip-services3-gox/pip-services3-expressions-gox/calculator/parsers"
)

func codeOf(err error) string {
	if ae, ok := err.(*cerrors.ApplicationError); ok {
		return ae.Code
	}
	return ""
}

// C02 — the parser accepts exactly the grammar.
// input  = (text tokens env tree); output = (0 rpn names) | (code)
var c02Vocab = []string{"1", "a", "(", ")", "[", "]", ",", "+", "-", "*", "/", "%", "^", "=", "<>", ">", "<", ">=", "<=", "<<", ">>", "AND", "OR", "XOR", "NOT", "IS", "IN", "NULL", "LIKE"}

func init() {
	register(&Prop{
		ID:   "C02",
		Rule: "token sequences over the 29-token vocabulary {constant, identifier, ( ) [ ] , and every operator and keyword}: exhaustive up to length 3 (quick) / 4 (thorough); generated syntax trees of depth<=6 printed with minimal/random/full parentheses, random spacing, comments and keyword case; token-level mutants (insert, delete, replace, swap, duplicate) of valid expressions; non-trivial = at least three tokens; distinct by input hash",
		Gen:  genC02,
		Run:  runC02,
		Human: func(in sx.SX) string {
			return "ParseString(" + sx.Quote(sx.AsString(sx.AsList(in)[0])) + ")"
		},
	})
}

func mutateTokens(ctx *Ctx, ts []string) []string {
	out := append([]string{}, ts...)
	n := 1 + ctx.Rnd.Intn(2)
	for k := 0; k < n; k++ {
		v := c02Vocab[ctx.Rnd.Intn(len(c02Vocab))]
		switch r := ctx.Rnd.Intn(5); {
		case r == 0 || len(out) == 0: // insert
			i := ctx.Rnd.Intn(len(out) + 1)
			out = append(out[:i], append([]string{v}, out[i:]...)...)
			ctx.Count("mutation:insert")
		case r == 1: // delete
			i := ctx.Rnd.Intn(len(out))
			out = append(out[:i], out[i+1:]...)
			ctx.Count("mutation:delete")
		case r == 2: // replace
			out[ctx.Rnd.Intn(len(out))] = v
			ctx.Count("mutation:replace")
		case r == 3 && len(out) > 1: // swap
			i := ctx.Rnd.Intn(len(out) - 1)
			out[i], out[i+1] = out[i+1], out[i]
			ctx.Count("mutation:swap")
		default: // duplicate
			i := ctx.Rnd.Intn(len(out))
			out = append(out[:i], append([]string{out[i]}, out[i:]...)...)
			ctx.Count("mutation:duplicate")
		}
	}
	return out
}

// textTokens cuts a printed expression into its source lexemes (using the tokenizer), for token-level mutation.
func textTokens(text string) []string {
	var out []string
	for _, t := range tokenizeLikeParser(text) {
		v := t.Value
		switch t.Type {
		case 8: // Quoted (decoded): re-encode
			v = "'" + strings.ReplaceAll(v, "'", "''") + "'"
		case 9:
			if strings.ContainsAny(v, " ") {
				v = "\"" + v + "\""
			}
		}
		out = append(out, v)
	}
	return out
}

func genC02(ctx *Ctx) {
	depth := 3
	if ctx.Thorough {
		depth = 4
	}
	var rec func(cur []string, k int)
	rec = func(cur []string, k int) {
		if len(cur) > 0 {
			ctx.Count(fmt.Sprintf("exhaustive-len:%d", len(cur)))
			ctx.Input(exprInput(strings.Join(cur, " "), sx.L(), nil), len(cur) >= 3)
		}
		if k == 0 {
			return
		}
		for _, t := range c02Vocab {
			rec(append(cur, t), k-1)
		}
	}
	rec(nil, depth)
	for i := 0; i < ctx.N; i++ {
		t := genTree(ctx.Rnd, 1+ctx.Rnd.Intn(6))
		p := &printer{rnd: ctx.Rnd, parens: ctx.Rnd.Intn(3), noise: ctx.Rnd.Intn(2) == 0}
		text := p.at(t, 0)
		ctx.Count(fmt.Sprintf("tree-parens:%d", p.parens))
		ctx.Input(exprInput(text, sx.L(), t), true)
		if i%10 == 0 { // a valid expression with a non-ASCII blank glued to one end
			pad := []string{"\u00a0", "\u3000", "\u0085", "\u2003", "\v", "\f"}[ctx.Rnd.Intn(6)]
			if ctx.Rnd.Intn(2) == 0 {
				ctx.Input(exprInput(text+pad, sx.L(), nil), true)
			} else {
				ctx.Input(exprInput(pad+text, sx.L(), nil), true)
			}
			ctx.Count("padded-with-non-ascii-blank")
		}
		// token-level mutants of this valid expression
		for m := 0; m < 3; m++ {
			mt := mutateTokens(ctx, textTokens(text))
			ctx.Input(exprInput(strings.Join(mt, " "), sx.L(), nil), len(mt) >= 3)
		}
	}
	// every ordered pair of binary operators: a op1 b op2 c (precedence and associativity of each pair)
	binops := []string{"AND", "OR", "XOR", "=", "<>", "!=", ">", "<", ">=", "<=", "+", "-", "LIKE", "NOT LIKE", "NOT IN", "*", "/", "%", "^", "IN", "<<", ">>"}
	for _, o1 := range binops {
		for _, o2 := range binops {
			ctx.Count("operator-pair")
			ctx.Input(exprInput("a "+o1+" b "+o2+" c", sx.L(), nil), true)
		}
	}
	// every operator inside every bracketing context (index, call arguments, parentheses, operand of a prefix operator)
	{
		v := func(n string) *Tree { return &Tree{Kind: "var", Text: n} }
		var inner []*Tree
		for op := range binLevel {
			inner = append(inner, &Tree{Kind: "bin", Op: op, Args: []*Tree{v("a"), v("b")}})
		}
		for _, op := range []string{"NOT", "NEG", "ISNULL", "ISNOTNULL"} {
			inner = append(inner, &Tree{Kind: "un", Op: op, Args: []*Tree{v("a")}})
		}
		for _, in := range inner {
			for _, t := range []*Tree{
				{Kind: "bin", Op: "ELEM", Args: []*Tree{v("c"), in}},
				{Kind: "call", Text: exprFuncs[0], Args: []*Tree{in}},
				{Kind: "call", Text: exprFuncs[0], Args: []*Tree{v("c"), in}},
				{Kind: "bin", Op: "*", Args: []*Tree{in, v("c")}},
				{Kind: "un", Op: "NOT", Args: []*Tree{in}},
				{Kind: "un", Op: "NEG", Args: []*Tree{in}},
			} {
				p := &printer{rnd: ctx.Rnd, parens: 0}
				ctx.Count("operator-in-context")
				ctx.Input(exprInput(p.at(t, 0), sx.L(), t), true)
			}
		}
	}
	// scale (direct oracle only): deep and long sentences, and deep non-sentences (one bracket missing, one too many)
	{
		v := func(n string) *Tree { return &Tree{Kind: "var", Text: n} }
		names := []string{"a", "b", "c"}
		for _, D := range []int{40, 130, 260, 520} {
			p := &printer{rnd: ctx.Rnd, parens: 0}
			right, left, call := v("a"), v("a"), v("a")
			for i := 0; i < D; i++ {
				right = &Tree{Kind: "bin", Op: []string{"-", "AND", "*", "IN"}[i%4], Args: []*Tree{v(names[i%3]), right}}
				left = &Tree{Kind: "bin", Op: []string{"+", "OR", "*", "<="}[i%4], Args: []*Tree{left, v(names[i%3])}}
				call = &Tree{Kind: "call", Text: "f", Args: []*Tree{v("c"), call}}
			}
			for _, t := range []*Tree{right, left, call} {
				text := p.at(t, 0)
				ctx.OracleOnly(exprInput(text, sx.L(), t), fmt.Sprintf("scale: sentence of depth or length %d", D))
			}
			deep := strings.Repeat("(", D) + "a" + strings.Repeat(")", D)
			ctx.OracleOnly(exprInput(deep, sx.L(), v("a")), fmt.Sprintf("scale: %d redundant parentheses", D))
			ctx.OracleOnly(exprInput(deep+")", sx.L(sx.S("expect-reject")), nil), fmt.Sprintf("scale: %d parentheses, one too many", D))
			ctx.OracleOnly(exprInput("("+deep, sx.L(sx.S("expect-reject")), nil), fmt.Sprintf("scale: %d parentheses, one missing", D))
		}
	}
	// a few special inputs: empty, blanks, unknown symbols, empty quoted identifier
	for _, s := range []string{"", "   ", "a $ b", "a ? 1", "\"\"", "a + \"\"", "#", "a.b", "1 2", "f(,)", "f(a,,b)", "a[1][2]", "NOT NOT a", "a = NOT b", "- - a", "a IS NULL IS NULL", "f(a,)", "@", "ſ", "ıs",
		"a lıke b", "a ıs null", "a ıN b", "x NOT Lıke y", "a iſ nULL", "not falſe", "a LI\u212aE b", "a \u212a b", "nULL ıſ nULL", "a xOR b", "truE aND falSe", "a L\u0130KE b",
		"(a + b)\u00a0", "\u00a0a + b", "\u00a0", "a + b\u3000", "\u2003a", "a\u0085", "\u00a0 a \u00a0", "a + b\v", "\fa", "a\u2028", "\ufeffa",
		// characters no tokenizer state is registered for (U+FFFF and everything outside the BMP): Unknown tokens, never dropped
		"\"\"()", "\"\"(1)", "a + \"\"(b) * 2", "\"\"[0]", "f(\"\")", "\"\" IS NULL", "- \"\"", "\"\"(\"\")",
		"1 😀 + 2", "a 😀", "😀", "a + \U00010000 b", "(a + b)\U0010FFFF", "f(a,😀 b)", "a \uffff b", "a IS 😀 NOT NULL", "\uffff", "1 +😀2", "a😀", "'x' 😀"} {
		ctx.Count("special")
		ctx.Input(exprInput(s, sx.L(), nil), true)
	}
}

func renderRPN(p *parsers.ExpressionParser) sx.SX {
	var rpn sx.List
	for _, t := range p.ResultTokens() {
		vt, payload := variantPayload(t.Value())
		rpn = append(rpn, sx.L(sx.N(t.Type()), sx.N(vt), payload))
	}
	var names sx.List
	for _, n := range p.VariableNames() {
		names = append(names, sx.S(n))
	}
	return sx.L(sx.I(0), rpn, names)
}

// rpnSkeleton lists the implementation's result tokens in the oracle's vocabulary.
func rpnSkeleton(p *parsers.ExpressionParser) []string {
	var out []string
	rt := p.ResultTokens()
	for i, t := range rt {
		switch t.Type() {
		case parsers.Constant:
			if i+1 < len(rt) && rt[i+1].Type() == parsers.Function {
				out = append(out, fmt.Sprint("#", t.Value().AsInteger()))
			} else {
				out = append(out, "C")
			}
		case parsers.Variable:
			out = append(out, "V:"+t.Value().AsString())
		case parsers.Function:
			out = append(out, "F:"+t.Value().AsString())
		default:
			n, ok := etName[t.Type()]
			if !ok {
				n = fmt.Sprint("?", t.Type())
			}
			out = append(out, n)
		}
	}
	return out
}

// one parser object that lives through the whole run: what it accepts must not depend on what it parsed before
var c02Warm = parsers.NewExpressionParser()

func parseOutcome(p *parsers.ExpressionParser, text string) string {
	if err := p.ParseString(text); err != nil {
		code, _ := errCode(err)
		return fmt.Sprint("rejected with code ", code)
	}
	return "accepted as " + strings.Join(rpnSkeleton(p), " ")
}

func runC02(in sx.SX) (sx.SX, string) {
	l := sx.AsList(in)
	text := sx.AsString(l[0])
	p := parsers.NewExpressionParser()
	err := p.ParseString(text)
	fail := ""
	{
		fresh := parseOutcome(parsers.NewExpressionParser(), text)
		first := parseOutcome(c02Warm, text)
		second := parseOutcome(c02Warm, text)
		if first != fresh {
			fail = "a parser object used before: " + first + "; a new parser: " + fresh
		} else if second != fresh {
			fail = "the same text submitted twice to one parser object: second time " + second + "; a new parser: " + fresh
		}
		// ParseTokens, then ParseString of the text those tokens compose to, on one object
		if fail == "" {
			fp := parsers.NewExpressionParser()
			fp.ParseString(text)
			if toks := fp.OriginalTokens(); len(toks) > 0 {
				c02Warm.ParseTokens(toks)
				composed := c02Warm.Expression()
				after := parseOutcome(c02Warm, composed)
				if want := parseOutcome(parsers.NewExpressionParser(), composed); after != want {
					fail = "ParseTokens(tokens of " + sx.Quote(text) + ") then ParseString(" + sx.Quote(composed) + ") on one parser object: " + after + "; a new parser: " + want
				}
			}
		}
	}
	// the tokens the model is given are the tokens the parser saw
	var given []srcTok
	for _, t := range sx.AsList(l[1]) {
		tt := sx.AsList(t)
		given = append(given, srcTok{int(sx.AsInt(tt[0])), sx.AsString(tt[1])})
	}
	orig := p.OriginalTokens()
	if len(orig) != len(given) {
		fail = fmt.Sprintf("the parser tokenized the text into %d tokens, an expression tokenizer with the same options into %d", len(orig), len(given))
	} else {
		for i, t := range orig {
			if t.Type() != given[i].Type || t.Value() != given[i].Value {
				fail = fmt.Sprintf("token %d differs between the parser (%d,%q) and an expression tokenizer with the same options (%d,%q)", i, t.Type(), t.Value(), given[i].Type, given[i].Value)
				break
			}
		}
	}
	// direct oracle: the independent recogniser of the grammar
	kinds, kindIdx, lexOK := refKindsIdx(given)
	var derivs []string
	if len(kinds) > 150 {
		// scale cases: the reference recogniser enumerates derivations and is not meant for thousands of tokens; the generator
		// says what the input is (a sentence printed from a tree, or a sentence with one bracket too many / missing)
		switch sx.Text(l[2]) {
		case "((101 120 112 101 99 116 45 114 101 106 101 99 116))": // "expect-reject"
			if err == nil {
				return renderRPN(p), "a long token sequence that is not a sentence of the grammar was accepted"
			}
		default:
			if treeFromSX(l[3]) != nil && err != nil {
				return sx.L(sx.I(1)), "a long sentence printed from a syntax tree was rejected: " + err.Error()
			}
		}
		if err != nil {
			code, _ := errCode(err)
			return sx.L(sx.I(code)), fail
		}
		return renderRPN(p), fail
	}
	if lexOK {
		derivs = refParse(kinds)
	}
	if len(derivs) > 1 {
		fail = "oracle: the reference grammar is ambiguous on this input: " + strings.Join(derivs, " | ")
	}
	var obs sx.SX
	if err != nil {
		code, name := errCode(err)
		obs = sx.L(sx.I(code))
		if name == "" && fail == "" {
			fail = "rejected with an error that carries no code: " + err.Error()
		}
		if len(derivs) == 1 && fail == "" {
			fail = fmt.Sprintf("a sentence of the grammar was rejected (%s); its tree in post-order is %s", name, derivs[0])
		}
	} else {
		obs = renderRPN(p)
		if len(given) > 0 && len(derivs) == 0 && fail == "" {
			fail = "a token sequence that is not a sentence of the grammar was accepted and compiled to " + strings.Join(rpnSkeleton(p), " ")
		}
		if len(derivs) == 1 && fail == "" {
			// compare with the post-order of the reference derivation (C<i>/V<i>/F<i> carry the token index)
			want := strings.Fields(derivs[0])
			got := rpnSkeleton(p)
			ok := len(want) == len(got)
			for i := 0; ok && i < len(want); i++ {
				w, g := want[i], got[i]
				switch w[0] {
				case 'C':
					ok = g == "C"
				case 'V', 'F':
					var idx int
					fmt.Sscan(w[1:], &idx)
					ok = idx < len(kindIdx) && g == string(w[0])+":"+given[kindIdx[idx]].Value
				default:
					ok = g == w
				}
			}
			if !ok {
				fail = fmt.Sprintf("compiled to %s, the post-order of the syntax tree is %s", strings.Join(got, " "), derivs[0])
			}
		}
	}
	// generated trees: the expected post-order is known by construction
	if tree := treeFromSX(l[3]); tree != nil && fail == "" {
		if err != nil {
			fail = "a generated sentence of the grammar was rejected: " + err.Error()
		} else {
			var want []string
			treePostorder(tree, &want)
			got := rpnSkeleton(p)
			if strings.Join(want, " ") != strings.Join(got, " ") {
				fail = fmt.Sprintf("compiled to %s, the generated tree in post-order is %s", strings.Join(got, " "), strings.Join(want, " "))
			}
		}
	}
	return obs, fail
}
