package main

// Shared machinery for the variant properties (C06, C07, C08, C20): the value pool, the S-expression codec of
// variants (floats by canonical bit pattern, date-times as Unix nanoseconds), and the host oracle table that the
// Coq model consults for functions outside its scope (float / time formatting and parsing, math.Pow, ...),
// filled by calling the Go standard library and the commons-gox converters directly - never the library under test.

import (
	"math"
	"math/big"
	"time"

	"harness/sx"

	"github.com/pip-services3-gox/pip-services3-commons-gox/convert"
	"github.com/pip-services3-gox/pip-services3-expressions-gox/variants"
)

type objT struct{ id int }

var objPool = []*objT{{1}, {2}, {3}}

func canon32(b uint32) uint32 {
	if b&0x7F800000 == 0x7F800000 && b&0x007FFFFF != 0 {
		return 0x7FC00000
	}
	return b
}
func canon64(b uint64) uint64 {
	if b&0x7FF0000000000000 == 0x7FF0000000000000 && b&0x000FFFFFFFFFFFFF != 0 {
		return 0x7FF8000000000000
	}
	return b
}
func f32bits(f float32) sx.SX { return sx.U(uint64(canon32(math.Float32bits(f)))) }
func f64bits(f float64) sx.SX { return sx.U(canon64(math.Float64bits(f))) }

func unixNs(t time.Time) sx.SX {
	v := new(big.Int).Mul(big.NewInt(t.Unix()), big.NewInt(1000000000))
	v.Add(v, big.NewInt(int64(t.Nanosecond())))
	return sx.Int{V: v}
}

// valSX encodes a variant as (type payload).
func valSX(v *variants.Variant) sx.SX {
	if v == nil {
		return sx.L(sx.I(-1), sx.L())
	}
	switch v.Type() {
	case variants.Null:
		return sx.L(sx.I(0), sx.L())
	case variants.Integer:
		return sx.L(sx.I(1), sx.I(int64(v.AsInteger())))
	case variants.Long:
		return sx.L(sx.I(2), sx.I(v.AsLong()))
	case variants.Float:
		return sx.L(sx.I(3), f32bits(v.AsFloat()))
	case variants.Double:
		return sx.L(sx.I(4), f64bits(v.AsDouble()))
	case variants.String:
		return sx.L(sx.I(5), sx.S(v.AsString()))
	case variants.Boolean:
		return sx.L(sx.I(6), sx.B(v.AsBoolean()))
	case variants.DateTime:
		return sx.L(sx.I(7), unixNs(v.AsDateTime()))
	case variants.TimeSpan:
		return sx.L(sx.I(8), sx.I(int64(v.AsTimeSpan())))
	case variants.Object:
		if o, ok := v.AsObject().(*objT); ok {
			return sx.L(sx.I(9), sx.N(o.id))
		}
		return sx.L(sx.I(9), sx.I(-1))
	case variants.Array:
		// read element by element (Length / GetByIndex): an observation must not be a call that could itself change what
		// the variant holds (a copy-on-write scheme un-shares on AsArray); AsArray is compared with it below
		var l sx.List
		n := v.Length()
		for i := 0; i < n; i++ {
			l = append(l, valSX(v.GetByIndex(i)))
		}
		return sx.L(sx.I(10), l)
	}
	return sx.L(sx.I(-2), sx.L())
}

// valSXin encodes an INPUT value: as valSX, but a date-time outside UTC keeps its zone offset as a third element
// (the model works on instants and ignores it).
func valSXin(v *variants.Variant) sx.SX {
	if v != nil && v.Type() == variants.DateTime {
		if _, off := v.AsDateTime().Zone(); off != 0 {
			return sx.L(sx.I(7), unixNs(v.AsDateTime()), sx.N(off))
		}
	}
	if v != nil && v.Type() == variants.Array {
		var l sx.List
		for _, e := range v.AsArray() {
			l = append(l, valSXin(e))
		}
		return sx.L(sx.I(10), l)
	}
	return valSX(v)
}

// valFromSX rebuilds a variant from its encoding.
func valFromSX(x sx.SX) *variants.Variant {
	l := sx.AsList(x)
	p := l[1]
	switch sx.AsInt(l[0]) {
	case 1:
		return variants.VariantFromInteger(int(sx.AsInt(p)))
	case 2:
		return variants.VariantFromLong(sx.AsInt(p))
	case 3:
		return variants.VariantFromFloat(math.Float32frombits(uint32(p.(sx.Int).V.Uint64())))
	case 4:
		return variants.VariantFromDouble(math.Float64frombits(p.(sx.Int).V.Uint64()))
	case 5:
		return variants.VariantFromString(sx.AsString(p))
	case 6:
		return variants.VariantFromBoolean(sx.AsBool(p))
	case 7:
		ns := p.(sx.Int).V
		sec, nsec := new(big.Int).DivMod(ns, big.NewInt(1000000000), new(big.Int))
		t := time.Unix(sec.Int64(), nsec.Int64()).UTC()
		if len(l) > 2 { // the same instant carried in another time zone (offset in seconds)
			t = t.In(time.FixedZone("z", int(sx.AsInt(l[2]))))
		}
		return variants.VariantFromDateTime(t)
	case 8:
		return variants.VariantFromTimeSpan(time.Duration(sx.AsInt(p)))
	case 9:
		return variants.VariantFromObject(objPool[sx.AsInt(p)-1])
	case 10:
		var es []*variants.Variant
		for _, e := range sx.AsList(p) {
			es = append(es, valFromSX(e))
		}
		return variants.VariantFromArray(es)
	}
	return variants.EmptyVariant()
}

func valuePool() []*variants.Variant {
	mk := variants.VariantFromInteger
	arr := variants.VariantFromArray([]*variants.Variant{mk(1), variants.VariantFromString("abc"), mk(7), variants.EmptyVariant()})
	return []*variants.Variant{
		variants.EmptyVariant(),
		mk(0), mk(1), mk(-1), mk(7), mk(64), mk(-3), mk(math.MaxInt64), mk(math.MinInt64), mk(1 << 53), mk(1<<53 + 1), mk(1000), mk(2),
		variants.VariantFromLong(0), variants.VariantFromLong(5), variants.VariantFromLong(-1), variants.VariantFromLong(math.MaxInt64), variants.VariantFromLong(9007199254740993), variants.VariantFromLong(1 << 40),
		variants.VariantFromFloat(0), variants.VariantFromFloat(1.5), variants.VariantFromFloat(-2.25), variants.VariantFromFloat(float32(math.Inf(1))), variants.VariantFromFloat(float32(math.NaN())), variants.VariantFromFloat(16777216), variants.VariantFromFloat(3e38),
		variants.VariantFromDouble(0), variants.VariantFromDouble(2.5), variants.VariantFromDouble(-0.5), variants.VariantFromDouble(math.Inf(-1)), variants.VariantFromDouble(math.NaN()), variants.VariantFromDouble(1e300), variants.VariantFromDouble(9007199254740992), variants.VariantFromDouble(3),
		variants.VariantFromString(""), variants.VariantFromString("abc"), variants.VariantFromString("abd"), variants.VariantFromString("7"), variants.VariantFromString("-3"), variants.VariantFromString("2.5"), variants.VariantFromString("true"), variants.VariantFromString("9007199254740993"), variants.VariantFromString("日本"), variants.VariantFromString("1e3"), variants.VariantFromString("2021-03-04T05:06:07Z"),
		variants.VariantFromBoolean(true), variants.VariantFromBoolean(false),
		variants.VariantFromDateTime(time.Unix(0, 0).UTC()), variants.VariantFromDateTime(time.Unix(1614834367, 0).UTC()), variants.VariantFromDateTime(time.Unix(-86400, 500).UTC()),
		variants.VariantFromDateTime(time.Unix(1614834367, 0).In(time.FixedZone("z", 19800))), variants.VariantFromLong(1614834367),
		variants.VariantFromDateTime(time.Date(2020, 1, 5, 1, 30, 0, 0, time.FixedZone("e", 5*3600))), variants.VariantFromDateTime(time.Date(2020, 1, 4, 22, 30, 0, 0, time.FixedZone("w", -8*3600))),
		// witnesses of double rounding (int64 -> float64 -> float32 differs from int64 -> float32) and of float32 / float64 ties
		variants.VariantFromLong(1<<60 + 1<<36 + 1), mk(1<<60 + 1<<36 + 1), variants.VariantFromLong(-(1<<60 + 1<<36 + 1)), variants.VariantFromLong(1<<24 + 1), variants.VariantFromLong(1<<53 + 1),
		variants.VariantFromDouble(16777217), variants.VariantFromDouble(0.1), variants.VariantFromFloat(0.1),
		variants.VariantFromTimeSpan(0), variants.VariantFromTimeSpan(1500 * time.Millisecond), variants.VariantFromTimeSpan(-2 * time.Second), variants.VariantFromTimeSpan(time.Duration(math.MaxInt64)),
		variants.VariantFromObject(objPool[0]), variants.VariantFromObject(objPool[1]),
		arr, variants.VariantFromArray([]*variants.Variant{}), variants.VariantFromArray([]*variants.Variant{variants.VariantFromDouble(2.5), mk(2)}),
		// (appended last: other generators index into the pool) negative zeros; lists holding date-times written in a time zone
		variants.VariantFromDouble(math.Copysign(0, -1)), variants.VariantFromFloat(float32(math.Copysign(0, -1))),
		variants.VariantFromArray([]*variants.Variant{variants.VariantFromDateTime(time.Date(2020, 1, 5, 1, 30, 0, 0, time.FixedZone("e", 5*3600))), mk(3)}),
		variants.VariantFromArray([]*variants.Variant{variants.VariantFromDateTime(time.Unix(1614834367, 0).UTC()), variants.VariantFromDouble(math.Copysign(0, -1))}),
		// the zero time.Time (0001-01-01T00:00:00Z) and its Unix second count
		variants.VariantFromDateTime(time.Time{}), variants.VariantFromLong(-62135596800), mk(-62135596800), variants.VariantFromLong(-62135596799),
		// numeric strings that are decimal only: zero-padded, signed, with a base prefix, with separators, with blanks
		variants.VariantFromString("010"), variants.VariantFromString("-017"), variants.VariantFromString("0x10"), variants.VariantFromString("0b11"), variants.VariantFromString("+5"),
		variants.VariantFromString("1_000"), variants.VariantFromString(" 7"), variants.VariantFromString("0o7"), variants.VariantFromString("9223372036854775808"),
		// one half (a square root written as a power), of both float types
		variants.VariantFromDouble(0.5), variants.VariantFromFloat(0.5),
		// strings a converter may or may not take for a boolean
		variants.VariantFromString("yes"), variants.VariantFromString("Y"), variants.VariantFromString("tRuE"), variants.VariantFromString("no"), variants.VariantFromString("T"), variants.VariantFromString("False"), variants.VariantFromString("1"), variants.VariantFromString("0"),
		// long digit strings
		variants.VariantFromString("12345678901234567890"), variants.VariantFromString("00000000000000000001"), variants.VariantFromString("-9223372036854775808"), variants.VariantFromString("1234567890123456789"),
	}
}

// oracleFor lists the host answers the model may ask for about one value (and, for arrays, its elements).
func oracleFor(v *variants.Variant, out *sx.List, seen map[string]bool) {
	add := func(fn int, key, ans sx.SX) {
		k := sx.Text(sx.L(sx.N(fn), key))
		if !seen[k] {
			seen[k] = true
			*out = append(*out, sx.L(sx.N(fn), key, ans))
		}
	}
	switch v.Type() {
	case variants.Float, variants.Double, variants.DateTime, variants.Object, variants.Array:
		add(1, valSX(v), sx.S(convert.StringConverter.ToString(v.AsObject())))
	case variants.String:
		s := v.AsString()
		add(2, sx.S(s), sx.I(convert.LongConverter.ToLong(s)))
		add(4, sx.S(s), f32bits(convert.FloatConverter.ToFloat(s)))
		add(5, sx.S(s), f64bits(convert.DoubleConverter.ToDouble(s)))
		add(6, sx.S(s), sx.B(convert.BooleanConverter.ToBoolean(s)))
		add(7, sx.S(s), unixNs(convert.DateTimeConverter.ToDateTime(s)))
		add(8, sx.S(s), sx.I(int64(convert.DurationConverter.ToDuration(s))))
	}
	if v.Type() == variants.Array {
		for _, e := range v.AsArray() {
			oracleFor(e, out, seen)
		}
	}
}

// hostDouble converts a value to float64 the way the host would (for the math.Pow oracle entries).
func hostDouble(v *variants.Variant) (float64, bool) {
	switch v.Type() {
	case variants.Null:
		return 0, true
	case variants.Integer:
		return float64(v.AsInteger()), true
	case variants.Long:
		return float64(v.AsLong()), true
	case variants.Float:
		return float64(v.AsFloat()), true
	case variants.Double:
		return v.AsDouble(), true
	case variants.String:
		return convert.DoubleConverter.ToDouble(v.AsString()), true
	case variants.Boolean:
		if v.AsBoolean() {
			return 1, true
		}
		return 0, true
	}
	return 0, false
}

func powOracle(a, b *variants.Variant, out *sx.List) {
	x, ok1 := hostDouble(a)
	y, ok2 := hostDouble(b)
	if ok1 && ok2 {
		*out = append(*out, sx.L(sx.I(9), sx.L(f64bits(x), f64bits(y)), f64bits(math.Pow(x, y))))
	}
}

var varErrCodes = map[string]int64{"CONV_NOT_SUPPORTED": 1, "OP_NOT_SUPPORTED": 2, "DIV_BY_ZERO": 3, "SHIFT_OUT_OF_RANGE": 4, "INDEX_OUT_OF_RANGE": 5}

func resSX(v *variants.Variant, err error) (sx.SX, string) {
	switch {
	case err != nil && v != nil:
		return sx.L(sx.I(-997)), "both a result and an error"
	case err != nil:
		c, ok := varErrCodes[codeOf(err)]
		if !ok {
			c = 99
		}
		return sx.L(sx.I(1), sx.I(c)), ""
	case v == nil:
		return sx.L(sx.I(-996)), "neither a result nor an error"
	}
	return sx.L(sx.I(0), valSX(v)), ""
}

func newManager(safe bool) variants.IVariantOperations {
	if safe {
		return variants.NewTypeSafeVariantOperations()
	}
	return variants.NewTypeUnsafeVariantOperations()
}
